import torch, pywt, numpy as np, warnings
warnings.filterwarnings('ignore')
torch.set_default_dtype(torch.float64)
from pytorch_wavelets import DWTForward, DWTInverse
import pytorch_wavelets.dwt.lowlevel as ll
wc,wr=pywt.Wavelet('db2'),pywt.Wavelet('bior1.3')   # col wavelet (axis 0/vertical), row wavelet (axis 1/horizontal)
x=torch.randn(1,1,12,10)
for mode in ['zero','symmetric','periodization']:
    f=DWTForward(J=1,wave=(wc.dec_lo,wc.dec_hi,wr.dec_lo,wr.dec_hi),mode=mode)
    yl,yh=f(x)
    ref=pywt.dwt2(x[0,0].numpy(),(wc,wr),mode=mode)   # wavelet per axis: axis0 -> wc, axis1 -> wr
    ref_sw=pywt.dwt2(x[0,0].numpy(),(wr,wc),mode=mode)
    def cmp(r):
        return yl[0,0].shape==r[0].shape and np.allclose(yl[0,0].numpy(),r[0],atol=1e-9) and all(np.allclose(yh[0][0,0,b].numpy(),r[1][b],atol=1e-9) for b in range(3))
    print(mode,'fwd matches pywt(col,row):',cmp(ref),' matches swapped:',cmp(ref_sw), tuple(yl.shape), ref[0].shape, ref_sw[0].shape)
    # functional
    y=ll.afb2d(x,(wc.dec_lo,wc.dec_hi,wr.dec_lo,wr.dec_hi),mode=mode)
    print('   functional afb2d matches pywt(col,row):', y[0,0].shape==ref[0].shape and np.allclose(y[0,0].numpy(),ref[0],atol=1e-9) and np.allclose(y[0,1].numpy(),ref[1][0],atol=1e-9)and np.allclose(y[0,2].numpy(),ref[1][1],atol=1e-9))
    g=DWTInverse(wave=(wc.rec_lo,wc.rec_hi,wr.rec_lo,wr.rec_hi),mode=mode)
    c=[np.random.randn(*ref[0].shape),tuple(np.random.randn(*b.shape) for b in ref[1])]
    xr=pywt.idwt2(c,(wc,wr),mode=mode)
    try:
        out=g((torch.tensor(c[0])[None,None],[torch.stack([torch.tensor(b) for b in c[1]],0)[None,None]]))
        print('   inv matches pywt(col,row):',out[0,0].shape==xr.shape and np.allclose(out[0,0].numpy(),xr,atol=1e-9))
    except Exception as e: print('   inv raise',e)
    out2=ll.sfb2d(torch.tensor(c[0])[None,None],*[torch.tensor(b)[None,None] for b in c[1]],(wc.rec_lo,wc.rec_hi,wr.rec_lo,wr.rec_hi),mode=mode)
    print('   functional sfb2d matches:',out2[0,0].shape==xr.shape and np.allclose(out2[0,0].numpy(),xr,atol=1e-9))
