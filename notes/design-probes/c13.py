import torch, pywt, numpy as np, warnings
warnings.filterwarnings('ignore')
torch.set_default_dtype(torch.float64)
from pytorch_wavelets.dwt.transform2d import SWTForward
import pytorch_wavelets.dwt.lowlevel as ll
x=torch.randn(1,2,16,16)
for mode in ['periodization','periodic']:
    for J in [1,2]:
        try:
            out=SWTForward(J=J,wave='db2',mode=mode)(x)
            print(mode,J,'ok',[tuple(o.shape) for o in out])
        except Exception as e:
            print(mode,J,'raise',type(e).__name__,str(e)[:100])
# single level with periodic vs pywt.swt2
for w in ['db1','db2','db3','bior2.2','sym4']:
  for lev in [1,2,3]:
    H,W=16,24
    x=np.random.randn(H,W)
    ref=pywt.swt2(x,w,level=lev,start_level=0,trim_approx=False)  # list from coarsest? 
    # ref[0] is coarsest level (level lev), each (cA,(cH,cV,cD))
    W_=pywt.Wavelet(w)
    filts=ll.prep_filt_afb2d(W_.dec_lo,W_.dec_hi)
    cur=torch.tensor(x)[None,None]
    oks=[]
    for j in range(lev):
        y=ll.afb2d_atrous(cur,filts,'periodic',2**j)  # (1,4,H,W)
        cA,(cH,cV,cD)=ref[lev-1-j]
        got=y[0].numpy()
        def best(g,r):
            # find shift
            for sy in range(H):
                for sx in range(W):
                    if np.allclose(np.roll(g,(sy,sx),(0,1)),r,atol=1e-9): return (sy,sx)
            return None
        oks.append((got.shape, [np.allclose(got[k],r,atol=1e-9) for k,r in enumerate([cA,cH,cV,cD])],[best(got[k],r) for k,r in enumerate([cA,cH,cV,cD])]))
        cur=y[:,0:1]
    print(w,lev,oks)
