import torch, numpy as np, warnings, itertools, logging
warnings.filterwarnings('ignore'); logging.disable(logging.WARNING)
torch.set_default_dtype(torch.float64)
from pytorch_wavelets import DTCWTForward, DTCWTInverse
res={}
for (H,W) in [(16,16),(12,20),(10,14),(7,9)]:
  for J in [1,2,3]:
    x=torch.randn(1,2,H,W)
    yl,yh=DTCWTForward(J=J)(x)
    inv=DTCWTInverse()
    for absent in itertools.product([0,1],repeat=J+1):
        if sum(absent)==0: continue
        for kind in ['None','scalar0','empty']:
            def mk(t): 
                return None if kind=='None' else (torch.zeros([]) if kind=='scalar0' else torch.tensor([]))
            l = mk(yl) if absent[0] else yl
            hs=[mk(h) if absent[j+1] else h for j,h in enumerate(yh)]
            lz = torch.zeros_like(yl) if absent[0] else yl
            hz=[torch.zeros_like(h) if absent[j+1] else h for j,h in enumerate(yh)]
            ref=inv((lz,hz))
            try:
                out=inv((l,hs))
                ok = out.shape==ref.shape and torch.allclose(out,ref,atol=1e-9)
                r='ok' if ok else 'MISMATCH shape %s vs %s'%(tuple(out.shape),tuple(ref.shape))
            except Exception as e:
                r='raise '+type(e).__name__+': '+str(e)[:70]
            res.setdefault((kind,'low' if absent[0] else 'hi-only',r),[]).append((H,W,J,absent))
for k,v in sorted(res.items()): print(k,len(v),v[:4])
