import torch, numpy as np, warnings, itertools, logging
warnings.filterwarnings('ignore'); logging.disable(logging.WARNING)
torch.set_default_dtype(torch.float64)
from pytorch_wavelets import DTCWTForward, DTCWTInverse
biorts=['antonini','legall','near_sym_a','near_sym_b']
qshifts=['qshift_06','qshift_a','qshift_b','qshift_c','qshift_d']
def flat(yl,yh): 
    if isinstance(yl,(list,tuple)): yl=torch.cat([t.reshape(-1) for t in yl])
    return torch.cat([yl.reshape(-1)]+[h.reshape(-1) for h in yh])
res={}
import random
random.seed(1)
cfgs=[]
for b in biorts:
  for q in qshifts:
    cfgs.append((b,q,(8,8),2,2,-1,False))
for (H,W) in [(4,4),(6,10),(7,9),(12,8),(16,16)]:
  for J in [1,2,3]:
    cfgs.append(('near_sym_a','qshift_a',(H,W),J,2,-1,False))
cfgs += [('legall','qshift_06',(8,12),2,o,ri,False) for o,ri in [(1,-1),(1,2),(2,3),(0,5),(5,0),(3,1)]]
cfgs += [('legall','qshift_06',(8,12),3,2,-1,[True,False,False]),('legall','qshift_06',(8,12),3,2,-1,[False,True,False]),('legall','qshift_06',(8,12),2,2,-1,[True,True])]
for (b,q,(H,W),J,o,ri,skip) in cfgs:
    f=DTCWTForward(biort=b,qshift=q,J=J,o_dim=o,ri_dim=ri,skip_hps=skip)
    n=H*W
    def F(v): return flat(*f(v.reshape(1,1,H,W)))
    A=torch.stack([F(torch.eye(n)[i]) for i in range(n)],1)
    x=torch.randn(n,requires_grad=True); y=F(x)
    Jm=torch.stack([torch.autograd.grad(y,x,torch.eye(len(y))[i],retain_graph=True,allow_unused=True)[0] for i in range(len(y))],0)
    ok=torch.allclose(Jm,A,atol=1e-9)
    res.setdefault(('fwd',ok),[]).append((b,q,H,W,J,o,ri,skip))
    # inverse
    yl,yh=f(torch.randn(1,1,H,W))
    g=DTCWTInverse(biort=b,qshift=q,o_dim=o,ri_dim=ri)
    shapes=[yl.shape]+[h.shape for h in yh]
    sizes=[int(np.prod(s)) if len(s)>0 else 1 for s in shapes]
    M=sum(sizes)
    def G(v):
        p=0; ts=[]
        for s,k in zip(shapes,sizes): ts.append(v[p:p+k].reshape(s)); p+=k
        return g((ts[0],ts[1:])).reshape(-1)
    S=torch.stack([G(torch.eye(M)[i]) for i in range(M)],1)
    v=torch.randn(M,requires_grad=True); out=G(v)
    try:
        Js=torch.stack([torch.autograd.grad(out,v,torch.eye(len(out))[i],retain_graph=True)[0] for i in range(len(out))],0)
        ok=torch.allclose(Js,S,atol=1e-9)
    except Exception as e:
        ok='raise '+str(e)[:90]
    res.setdefault(('inv',ok),[]).append((b,q,H,W,J,o,ri,skip))
for k,v in sorted(res.items(),key=str): print(k,len(v),v[:40])
