import torch, pywt, numpy as np, warnings
warnings.filterwarnings('ignore')
torch.set_default_dtype(torch.float64)
from pytorch_wavelets import DWT1DForward, DWT1DInverse, DWTForward, DWTInverse
for w in ['db1','db2','db3','db4','db5','db8']:
    L=pywt.Wavelet(w).dec_len
    bad=[];exc=[]
    for N in range(1,40):
        x=np.random.randn(1,1,N)
        ref=pywt.wavedec(x,w,mode='periodization',level=1)
        try:
            yl,yh=DWT1DForward(J=1,wave=w,mode='periodization')(torch.tensor(x))
        except Exception as e:
            exc.append(N); continue
        ok = yl.shape==ref[0].shape and np.allclose(yl.numpy(),ref[0],atol=1e-9) and np.allclose(yh[0].numpy(),ref[1],atol=1e-9)
        if not ok: bad.append(N)
    print(w,L,'bad N:',bad,'exc',exc)
