import torch, pywt, numpy as np, warnings
warnings.filterwarnings('ignore')
torch.set_default_dtype(torch.float64)
from pytorch_wavelets import DWT1DForward, DWT1DInverse, DWTForward, DWTInverse
modes=['zero','symmetric','reflect','periodic','periodization']
waves = ['db1','db2','db3','db5','sym4','coif1','bior1.3','bior2.4','bior3.1','rbio2.2','dmey']
fails={}; tot=0
for w in waves:
    L=pywt.Wavelet(w).dec_len
    for mode in modes:
        for N in list(range(2,20))+[31,32,33,64,65]:
            for J in [1,2,3]:
                x=np.random.randn(1,2,N)
                try: ref=pywt.wavedec(x,w,mode=mode,level=J)
                except Exception: continue
                # random pyramid with same shapes
                pyr=[np.random.randn(*c.shape) for c in ref]
                try: xr=pywt.waverec(pyr,w,mode=mode)
                except Exception as e:
                    fails.setdefault((mode,'pywt-raise'),[]).append((w,L,N,J)); continue
                tot+=1
                try:
                    y=DWT1DInverse(wave=w,mode=mode)((torch.tensor(pyr[0]),[torch.tensor(p) for p in pyr[1:][::-1]]))
                except Exception as e:
                    fails.setdefault((mode,'raise:'+type(e).__name__),[]).append((w,L,N,J)); continue
                ok = y.shape==xr.shape and np.allclose(y.numpy(),xr,atol=1e-8)
                if not ok: fails.setdefault((mode,'mismatch' if y.shape==xr.shape else 'shape'),[]).append((w,L,N,J,tuple(y.shape),xr.shape))
print('total',tot)
for k,v in fails.items(): print(k,len(v),v[:10])
