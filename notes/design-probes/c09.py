import torch, numpy as np, warnings, logging
warnings.filterwarnings('ignore'); logging.disable(logging.WARNING)
torch.set_default_dtype(torch.float64)
from pytorch_wavelets import ScatLayer, ScatLayerj2
from pytorch_wavelets.scatternet.lowlevel import SmoothMagFn
from torch.autograd import gradcheck
def gc(name,m,x):
    try:
        ok=gradcheck(m,(x,),eps=1e-6,atol=1e-5,raise_exception=False)
        print(name,ok)
    except Exception as e: print(name,'raise',type(e).__name__,str(e)[:150])
torch.manual_seed(0)
for biort in ['near_sym_a','near_sym_b','near_sym_b_bp','legall','antonini']:
    for colour in [False,True]:
        for (H,W) in [(4,4),(6,8),(5,7)]:
            x=torch.randn(1,3,H,W,requires_grad=True)
            gc(('j1',biort,colour,H,W),ScatLayer(biort=biort,combine_colour=colour,magbias=1e-2),x)
for biort,q in [('near_sym_a','qshift_a'),('near_sym_b_bp','qshift_b_bp'),('legall','qshift_06'),('near_sym_b','qshift_d')]:
    for colour in [False,True]:
        for (H,W) in [(8,8),(8,16),(9,11)]:
            x=torch.randn(1,3,H,W,requires_grad=True)
            gc(('j2',biort,colour,H,W),ScatLayerj2(biort=biort,qshift=q,combine_colour=colour,magbias=1e-2),x)
# zero image
x=torch.zeros(1,3,8,8,requires_grad=True)
for m in [ScatLayer(magbias=1e-2),ScatLayerj2(magbias=1e-2),ScatLayer(magbias=0.0)]:
    Z=m(x); g,=torch.autograd.grad(Z.sum(),x); print('zero img grad finite',torch.isfinite(g).all().item())
a=torch.randn(5,requires_grad=True);b=torch.randn(5,requires_grad=True)
print('smoothmag',gradcheck(lambda a,b: SmoothMagFn.apply(a,b,0.1),(a,b),raise_exception=False))
a=torch.randn(5,requires_grad=False);b=torch.randn(5,requires_grad=True)
try:
    r=SmoothMagFn.apply(a,b,0.1); print(torch.autograd.grad(r.sum(),b))
except Exception as e: print('smoothmag only-y raise',type(e).__name__,str(e)[:100])
