import torch, numpy as np, warnings, logging
warnings.filterwarnings('ignore'); logging.disable(logging.WARNING)
torch.set_default_dtype(torch.float64)
from pytorch_wavelets import ScatLayer, ScatLayerj2, DTCWTForward
import torch.nn.functional as F
def ref_scat1(x,biort,magbias,colour):
    # compose the library DTCWT (checked against numpy ref separately) J=1
    N,C,H,W=x.shape
    if H%2: x=torch.cat((x,x[:,:,-1:]),2)
    if W%2: x=torch.cat((x,x[:,:,:,-1:]),3)
    if biort=='near_sym_b_bp': return None
    yl,yh=DTCWTForward(biort=biort,J=1)(x)   # yh[0]: N,C,6,H/2,W/2,2
    ll=F.avg_pool2d(yl,2)
    re,im=yh[0][...,0],yh[0][...,1]
    if colour:
        r=torch.sqrt((re**2+im**2).sum(1)+magbias**2)-magbias   # N,6,h,w
        return torch.cat((ll,r),1)
    r=torch.sqrt(re**2+im**2+magbias**2)-magbias  # N,C,6,h,w
    # band-major: channel = band*C + c ; lowpass first
    out=torch.cat((ll[:,None],r.permute(0,2,1,3,4)),1)  # N,7,C,h,w
    return out.reshape(N,7*C,out.shape[-2],out.shape[-1])
res={}
for biort in ['near_sym_a','near_sym_b','antonini','legall']:
  for mb in [0.0,1e-2,1.0]:
    for colour in [False,True]:
      for (H,W) in [(8,8),(7,9),(2,2),(12,6),(5,16)]:
        x=torch.randn(2,3,H,W)
        try:
            Z=ScatLayer(biort=biort,magbias=mb,combine_colour=colour)(x)
            R=ref_scat1(x,biort,mb,colour)
            ok=Z.shape==R.shape and torch.allclose(Z,R,atol=1e-10)
            r='eq' if ok else 'MISMATCH %s %s'%(tuple(Z.shape),tuple(R.shape))
            if (Z<0).any(): r+=' NEG'
        except Exception as e: r='raise '+type(e).__name__+str(e)[:60]
        res.setdefault((colour,r),[]).append((biort,mb,H,W))
for k,v in sorted(res.items(),key=str): print(k,len(v),v[:5])
# j2 shapes
for (H,W) in [(8,8),(16,16),(7,9),(12,20),(30,33),(2,2)]:
    for colour in [False,True]:
        try:
            Z=ScatLayerj2(combine_colour=colour)(torch.randn(1,3,H,W)); print('j2',H,W,colour,tuple(Z.shape),'neg' if (Z[:, (3 if colour else 3):]<0).any() else '')
        except Exception as e: print('j2',H,W,colour,'raise',type(e).__name__,str(e)[:80])
for bi,q in [('near_sym_b_bp','qshift_b_bp')]:
    for (H,W) in [(8,8),(16,24),(9,7)]:
        try:
            Z=ScatLayer(biort=bi)(torch.randn(1,3,H,W)); print('bp j1',H,W,tuple(Z.shape))
            Z=ScatLayerj2(biort=bi,qshift=q)(torch.randn(1,3,H,W)); print('bp j2',H,W,tuple(Z.shape))
        except Exception as e: print('bp',H,W,'raise',type(e).__name__,str(e)[:80])
