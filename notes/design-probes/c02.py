import torch, pywt, numpy as np, warnings
warnings.filterwarnings('ignore')
torch.set_default_dtype(torch.float64)
from pytorch_wavelets import DWT1DForward, DWT1DInverse, DWTForward, DWTInverse
modes=['zero','symmetric','reflect','periodic','periodization']
waves = ['db1','db2','db3','db5','sym4','coif1','bior1.3','bior2.4','bior3.1','rbio2.2']
fails={}; tot=0
for w in waves:
    L=pywt.Wavelet(w).dec_len
    for mode in modes:
        for N in list(range(2,20))+[31,32,33]:
            for J in [1,2,3]:
                x=torch.randn(1,2,N)
                try: yl,yh=DWT1DForward(J=J,wave=w,mode=mode)(x)
                except Exception: continue
                tot+=1
                y=DWT1DInverse(wave=w,mode=mode)((yl,yh))
                ok = y.shape[-1] in (N,N+1) and np.allclose(y[...,:N].numpy(),x.numpy(),atol=1e-8)
                if not ok: fails.setdefault((mode,'1d'),[]).append((w,L,N,J,tuple(y.shape)))
        for (H,W) in [(2,2),(3,5),(4,7),(8,8),(9,6),(5,16),(17,13)]:
            for J in [1,2]:
                x=torch.randn(1,2,H,W)
                try: yl,yh=DWTForward(J=J,wave=w,mode=mode)(x)
                except Exception: continue
                tot+=1
                # compare to pywt
                ref=pywt.wavedec2(x.numpy(),w,mode=mode,level=J)
                ok=yl.shape==ref[0].shape and np.allclose(yl.numpy(),ref[0],atol=1e-8)
                for j in range(J):
                    for b in range(3):
                        ok = ok and yh[j][:,:,b].shape==ref[J-j][b].shape and np.allclose(yh[j][:,:,b].numpy(),ref[J-j][b],atol=1e-8)
                if not ok: fails.setdefault((mode,'2d-fwd'),[]).append((w,L,H,W,J))
                y=DWTInverse(wave=w,mode=mode)((yl,yh))
                ok = np.allclose(y[...,:H,:W].numpy(),x.numpy(),atol=1e-8)
                if not ok: fails.setdefault((mode,'2d-pr'),[]).append((w,L,H,W,J,tuple(y.shape)))
                pyr=[np.random.randn(*ref[0].shape)]+[tuple(np.random.randn(*b.shape) for b in lev) for lev in ref[1:]]
                xr=pywt.waverec2(pyr,w,mode=mode)
                yy=DWTInverse(wave=w,mode=mode)((torch.tensor(pyr[0]),[torch.stack([torch.tensor(b) for b in lev],2) for lev in pyr[1:][::-1]]))
                ok = yy.shape==xr.shape and np.allclose(yy.numpy(),xr,atol=1e-8)
                if not ok: fails.setdefault((mode,'2d-inv'),[]).append((w,L,H,W,J,tuple(yy.shape),xr.shape))
print('total',tot)
for k,v in fails.items(): print(k,len(v),v[:10])
