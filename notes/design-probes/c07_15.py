import torch, numpy as np, warnings, logging, threading, copy
warnings.filterwarnings('ignore'); logging.disable(logging.WARNING)
torch.set_default_dtype(torch.float64)
from pytorch_wavelets import DWTForward, DWTInverse, DWT1DForward, DWT1DInverse, DTCWTForward, DTCWTInverse, ScatLayer
import pytorch_wavelets.dwt.lowlevel as ll
def flat(o):
    if isinstance(o,torch.Tensor): return [o]
    r=[]
    for t in o:
        if t is not None: r+=flat(t)
    return r
mods={'dwt sym db3 J2':DWTForward(J=2,wave='db3',mode='symmetric'),'dwt per bior2.2 J2':DWTForward(J=2,wave='bior2.2',mode='periodization'),
      'dwt1d refl db2':DWT1DForward(J=2,wave='db2',mode='reflect'),'dtcwt J3':DTCWTForward(J=3),'dtcwt o1 r2':DTCWTForward(J=2,o_dim=1,ri_dim=2)}
for nm,m in mods.items():
    shp=(3,4,20) if '1d' in nm else (3,4,12,20)
    x=torch.randn(*shp); y=torch.randn(*shp); a,b=1.7,-0.3
    o1=flat(m(a*x+b*y)); o2=[a*u+b*v for u,v in zip(flat(m(x)),flat(m(y)))]
    lin=all(torch.allclose(u,v,atol=1e-10) for u,v in zip(o1,o2))
    z=all((t==0).all() for t in flat(m(torch.zeros(*shp))))
    # per slice: compute slice (1,2) alone vs in batch with other slices randomised
    xs=x[1:2,2:3]
    alone=flat(m(xs)); full=flat(m(x))
    def pick(t,full_t):
        return full_t[1:2,2:3]
    sl=all(torch.equal(al, fu[1:2,2:3]) or torch.allclose(al,fu[1:2,2:3],atol=1e-12) for al,fu in zip(alone,full) if fu.dim()>=2 and al.dim()==fu.dim() and 'o1' not in nm)
    print(nm,'linear',lin,'T(0)=0',z,'per-slice',sl)
# purity / history: args unchanged, repeated & interleaved calls same result, threads
m1=DWTForward(J=2,wave='db3',mode='periodization'); m2=DTCWTForward(J=2); m3=DWTInverse(wave='db3',mode='periodization'); m4=DTCWTInverse()
x=torch.randn(2,3,16,16); xc=x.clone()
r1=flat(m1(x)); r2=flat(m2(x))
for shp in [(1,1,8,8),(2,2,9,13),(1,3,32,32)]:
    m1(torch.randn(*shp)); m2(torch.randn(*shp)); m1(torch.randn(*shp).float().double())
print('args unchanged',torch.equal(x,xc),'repeat same',all(torch.equal(a,b) for a,b in zip(r1,flat(m1(x)))),all(torch.equal(a,b) for a,b in zip(r2,flat(m2(x)))))
yl,yh=m1(x); ylc=yl.clone(); yhc=[h.clone() for h in yh]
m3((yl,yh)); print('inverse args unchanged',torch.equal(yl,ylc),all(torch.equal(a,b) for a,b in zip(yh,yhc)), 'list len',len(yh))
yl,yh=m2(x); ylc=yl.clone(); yhc=[h.clone() for h in yh]
m4((yl,yh)); print('dtcwt inverse args unchanged',torch.equal(yl,ylc),all(torch.equal(a,b) for a,b in zip(yh,yhc)))
res=[None]*8
def work(i):
    mm=[m1,m2][i%2]; res[i]=flat(mm(x))
ths=[threading.Thread(target=work,args=(i,)) for i in range(8)]
[t.start() for t in ths]; [t.join() for t in ths]
print('threads equal', all(all(torch.equal(a,b) for a,b in zip(res[i],[r1,r2][i%2])) for i in range(8)))
with torch.no_grad(): rn=flat(m1(x))
xg=x.clone().requires_grad_(True); rg=flat(m1(xg))
print('autograd on/off same', all(torch.equal(a,b) for a,b in zip(rn,r1)), all(torch.equal(a.detach(),b) for a,b in zip(rg,r1)))
