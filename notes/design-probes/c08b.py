import torch, numpy as np, warnings, logging
warnings.filterwarnings('ignore'); logging.disable(logging.WARNING)
torch.set_default_dtype(torch.float64)
from pytorch_wavelets import ScatLayerj2, DTCWTForward
import torch.nn.functional as F
def mag(t,b): return torch.sqrt(t[...,0]**2+t[...,1]**2+b**2)-b
def spec(x,biort,qshift,b):
    N,C,H,W=x.shape
    yl,yh=DTCWTForward(biort=biort,qshift=qshift,J=2)(x)      # yh[j]: N,C,6,h,w,2
    s0=F.avg_pool2d(yl,2)                                      # N,C,H/4,W/4
    u1=mag(yh[0],b)                                            # N,C,6,H/2,W/2
    s1_j2=mag(yh[1],b)                                         # N,C,6,H/4,W/4
    # second order: level-1 dtcwt of each first-order band
    u1f=u1.reshape(N,C*6,H//2,W//2)
    ll,hh=DTCWTForward(biort=biort,qshift=qshift,J=1)(u1f)     # hh[0]: N,C*6,6,H/4,W/4,2
    s1_j1=F.avg_pool2d(ll,2).reshape(N,C,6,H//4,W//4)
    s2=mag(hh[0],b).reshape(N,C,6,6,H//4,W//4)                 # N,C,o1,o2,h,w
    # band-major packing: [s0 | s1_j1 (o1) | s1_j2 (o) | s2 (o2 major, o1 minor)], channel = band*C + c
    bands=[s0[:,None]]                                         # N,1,C,h,w
    bands.append(s1_j1.permute(0,2,1,3,4))
    bands.append(s1_j2.permute(0,2,1,3,4))
    bands.append(s2.permute(0,3,2,1,4,5).reshape(N,36,C,H//4,W//4))
    Z=torch.cat(bands,1)
    return Z.reshape(N,49*C,H//4,W//4)
for biort,q in [('near_sym_a','qshift_a'),('near_sym_b','qshift_b'),('legall','qshift_06')]:
    for (H,W) in [(8,8),(16,24),(32,16)]:
        for b in [1e-2,0.5]:
            x=torch.randn(2,3,H,W)
            Z=ScatLayerj2(biort=biort,qshift=q,magbias=b)(x); S=spec(x,biort,q,b)
            print(biort,q,H,W,b,Z.shape==S.shape, torch.allclose(Z,S,atol=1e-10))
