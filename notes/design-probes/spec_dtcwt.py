# prototype of the planned Lean DTCWT *specification* formulas (1-D along columns), validated against
# (a) the torch code and (b) the numpy reference
import numpy as np, torch, warnings, logging
warnings.filterwarnings('ignore'); logging.disable(logging.WARNING)
torch.set_default_dtype(torch.float64)
from pytorch_wavelets.dtcwt import lowlevel as T
from pytorch_wavelets.dtcwt.lowlevel import prep_filt
import dtcwt.numpy.lowlevel as Rf
def sym(N,i):
    t=i%(2*N); return t if t<N else 2*N-1-t
def colfilter_spec(x,h):          # x: list (one column), h original (un-reversed) filter
    r=len(x); L=len(h); m=L//2
    n_out=r+2*m-L+1
    # torch: conv with reversed buffer = true convolution: Y[i]=sum_j hbuf[j]*xe[i+j], hbuf[j]=h[L-1-j], xe[t]=x[sym(t-m)]
    return [sum(h[L-1-j]*x[sym(r,i+j-m)] for j in range(L)) for i in range(n_out)]
def coldfilt_spec(x,ha,hb,highpass):
    r=len(x); m=len(ha)
    a=[sum(ha[m-1-j]*x[sym(r,4*v+2*j+2-m)] for j in range(m)) for v in range(r//4)]
    b=[sum(hb[m-1-j]*x[sym(r,4*v+2*j+3-m)] for j in range(m)) for v in range(r//4)]
    out=[]
    for v in range(r//4): out += ([b[v],a[v]] if highpass else [a[v],b[v]])
    return out
def colifilt_spec(x,ha,hb,highpass):
    r=len(x); m=len(ha); m2=m//2
    X=lambda i: x[sym(r,i)]
    out=[]
    for v in range(r//2):
        if m2%2==0:
            e0=sum(ha[m-1-2*j]*X(2*(v+j)-m2) for j in range(m2))
            e1=sum(hb[m-1-2*j]*X(2*(v+j)+1-m2) for j in range(m2))
            o0=sum(ha[m-2-2*j]*X(2*(v+j)+2-m2) for j in range(m2))
            o1=sum(hb[m-2-2*j]*X(2*(v+j)+3-m2) for j in range(m2))
            if highpass:
                e0=sum(ha[m-1-2*j]*X(2*(v+j)+1-m2) for j in range(m2)); e1=sum(hb[m-1-2*j]*X(2*(v+j)-m2) for j in range(m2))
                o0=sum(ha[m-2-2*j]*X(2*(v+j)+3-m2) for j in range(m2)); o1=sum(hb[m-2-2*j]*X(2*(v+j)+2-m2) for j in range(m2))
            out += [e0,e1,o0,o1]
        else:
            pa,pb=(1,2) if not highpass else (2,1)
            o0=sum(ha[m-2-2*j]*X(2*(v+j)+pa-m2) for j in range(m2))
            o1=sum(hb[m-2-2*j]*X(2*(v+j)+pb-m2) for j in range(m2))
            e0=sum(ha[m-1-2*j]*X(2*(v+j)+pa-m2) for j in range(m2))
            e1=sum(hb[m-1-2*j]*X(2*(v+j)+pb-m2) for j in range(m2))
            out += [o0,o1,e0,e1]
    return out
rng=np.random.default_rng(1)
bad=[];tot=0
for L in [1,3,5,7,9,13,19,2,4,6]:
    h=rng.integers(-5,6,L).astype(float)
    for r in [1,2,3,4,5,8,9]:
        x=rng.integers(-9,10,r).astype(float)
        t=T.colfilter(torch.tensor(x).reshape(1,1,r,1),prep_filt(h,1))[0,0,:,0].numpy()
        s=colfilter_spec(list(x),list(h)); tot+=1
        ok=len(s)==len(t) and np.array_equal(s,t)
        ref=Rf.colfilter(x.reshape(r,1),h)[:,0]
        ok2=len(ref)==len(s) and np.allclose(ref,s)
        if not(ok and ok2): bad.append(('colfilter',L,r,ok,ok2))
for m in [2,4,6,8,10,14,16,18]:
    ha=rng.integers(-5,6,m).astype(float); hb=ha[::-1].copy()
    for hp in [False,True]:
        if hp: # make sum(ha*hb)<0 for the reference's sign rule
            ha2=ha.copy()
            # search a filter with negative autocorrelation-with-reverse
            for _ in range(1000):
                ha2=rng.integers(-5,6,m).astype(float)
                if np.sum(ha2*ha2[::-1])<0: break
            ha_,hb_=ha2,ha2[::-1].copy()
        else:
            for _ in range(1000):
                ha2=rng.integers(-5,6,m).astype(float)
                if np.sum(ha2*ha2[::-1])>0: break
            ha_,hb_=ha2,ha2[::-1].copy()
        for r in [4,8,12,16,20]:
            x=rng.integers(-9,10,r).astype(float)
            t=T.coldfilt(torch.tensor(x).reshape(1,1,r,1),prep_filt(ha_,1),prep_filt(hb_,1),hp)[0,0,:,0].numpy()
            s=coldfilt_spec(list(x),list(ha_),list(hb_),hp); tot+=1
            ref=Rf.coldfilt(x.reshape(r,1),ha_,hb_)[:,0]
            if not(np.array_equal(s,t) and np.allclose(ref,s)): bad.append(('coldfilt',m,hp,r,np.array_equal(s,t),np.allclose(ref,s)))
        for r in [2,4,6,8,10,16]:
            x=rng.integers(-9,10,r).astype(float)
            t=T.colifilt(torch.tensor(x).reshape(1,1,r,1),prep_filt(ha_,1),prep_filt(hb_,1),hp)[0,0,:,0].numpy()
            s=colifilt_spec(list(x),list(ha_),list(hb_),hp); tot+=1
            ref=Rf.colifilt(x.reshape(r,1),ha_,hb_)[:,0]
            if not(np.array_equal(s,t) and np.allclose(ref,s)): bad.append(('colifilt',m,hp,r,np.array_equal(s,t),np.allclose(ref,s)))
print(tot,len(bad),bad[:30])
