import torch, numpy as np, warnings, itertools, logging
warnings.filterwarnings('ignore'); logging.disable(logging.WARNING)
torch.set_default_dtype(torch.float64)
from pytorch_wavelets import DTCWTForward, DTCWTInverse
bad=[]
for (H,W) in [(16,16),(12,20),(10,14),(7,9)]:
    x=torch.randn(2,2,H,W)
    for J in [1,2,3]:
        yl,yh=DTCWTForward(J=J)(x)
        # prefix consistency
        for j in range(1,J+1):
            l2,h2=DTCWTForward(J=j)(x)
            if not all(torch.equal(a,b) for a,b in zip(h2,yh[:j])): bad.append(('prefix',H,W,J,j))
        for skip in itertools.product([False,True],repeat=J):
            l3,h3=DTCWTForward(J=J,skip_hps=list(skip))(x)
            ok=torch.equal(l3,yl)
            for j in range(J):
                if skip[j]: ok=ok and h3[j].shape==torch.Size([])
                else: ok=ok and torch.equal(h3[j],yh[j])
            if not ok: bad.append(('skip',H,W,J,skip))
        for inc in itertools.product([False,True],repeat=J):
            if not any(inc): continue
            l4,h4=DTCWTForward(J=J,include_scale=list(inc))(x)
            ok=isinstance(l4,list) and len(l4)==J and all(torch.equal(a,b) for a,b in zip(h4,yh))
            for j in range(J):
                lj,_=DTCWTForward(J=j+1)(x)
                if inc[j]: ok=ok and torch.equal(l4[j],lj)
                else: ok=ok and l4[j].shape==torch.Size([])
            if not ok: bad.append(('include',H,W,J,inc))
print(bad[:20],len(bad))
# negative aliases
x=torch.randn(1,1,8,8)
for o,ri in [(-4,-1),(2,5),(-1,-2),(5,4),(-6,-5),(0,1)]:
    a=DTCWTForward(J=1,o_dim=o,ri_dim=ri)(x)[1][0]; b=DTCWTForward(J=1,o_dim=o%6,ri_dim=ri%6)(x)[1][0]
    print(o,ri,torch.equal(a,b),tuple(a.shape))
try:
    DTCWTForward(J=1,o_dim=2,ri_dim=-4); print('no raise for o_dim=2, ri_dim=-4 (same axis mod 6)')
    print(DTCWTForward(J=1,o_dim=2,ri_dim=-4)(x)[1][0].shape)
except Exception as e: print('raise',e)
