import torch, pywt, numpy as np, warnings, logging
warnings.filterwarnings('ignore'); logging.disable(logging.WARNING)
from pytorch_wavelets import DWTForward, DWTInverse, DWT1DForward, DWT1DInverse, DTCWTForward, DTCWTInverse, ScatLayer, ScatLayerj2
from pytorch_wavelets.dwt.transform2d import SWTForward
def dts(o):
    if isinstance(o,torch.Tensor): return [o.dtype]
    if o is None: return []
    r=[]
    for t in o: r+=dts(t)
    return r
def run(name,fn):
    try: print(name, set(dts(fn())))
    except Exception as e: print(name,'RAISE',type(e).__name__,str(e)[:100])
x32=torch.randn(1,3,16,16); x64=x32.double()
run('dwt f32', lambda: DWTForward(J=2,wave='db2')(x32))
run('dwt .double() x64', lambda: DWTForward(J=2,wave='db2').double()(x64))
run('dwt f32-module x64', lambda: DWTForward(J=2,wave='db2')(x64))
f=DWTForward(J=2,wave='db2').double(); yl,yh=f(x64)
run('idwt double', lambda: DWTInverse(wave='db2').double()((yl,yh)))
run('idwt double None high', lambda: DWTInverse(wave='db2').double()((yl,[None,yh[1]])))
f1=DWT1DForward(J=2,wave='db2').double(); a,b=f1(x64[:,:,0])
run('idwt1d double None', lambda: DWT1DInverse(wave='db2').double()((a,[None,b[1]])))
run('dtcwt f32', lambda: DTCWTForward(J=2)(x32))
run('dtcwt double', lambda: DTCWTForward(J=2).double()(x64))
l,h=DTCWTForward(J=2).double()(x64)
run('idtcwt double', lambda: DTCWTInverse().double()((l,h)))
run('idtcwt double None', lambda: DTCWTInverse().double()((l,[None,h[1]])))
run('scat f32', lambda: ScatLayer()(x32))
run('scat double', lambda: ScatLayer().double()(x64))
run('scat2 double', lambda: ScatLayerj2().double()(x64))
run('scat colour double', lambda: ScatLayer(combine_colour=True).double()(x64))
# noncontiguous
xt=torch.randn(1,3,16,20).double().transpose(2,3)
for nm,m in [('dwt',DWTForward(J=2,wave='db3',mode='symmetric').double()),('dtcwt',DTCWTForward(J=2).double()),('scat',ScatLayer().double())]:
    o1=m(xt); o2=m(xt.contiguous())
    def fl(o):
        if isinstance(o,torch.Tensor): return [o]
        r=[]
        for t in o: r+=fl(t)
        return r
    print(nm,'noncontig equal', all(torch.equal(a,b) for a,b in zip(fl(o1),fl(o2))), all(torch.allclose(a,b,atol=1e-12) for a,b in zip(fl(o1),fl(o2))))
# precision
torch.manual_seed(0)
for nm,mk in [('dwt db4 sym J3',lambda: DWTForward(J=3,wave='db4',mode='symmetric')),('dtcwt J3',lambda: DTCWTForward(J=3)),('scat',lambda: ScatLayer()),('scat2',lambda: ScatLayerj2())]:
    m32=mk(); 
    torch.set_default_dtype(torch.float64); m64=mk(); torch.set_default_dtype(torch.float32)
    x=torch.randn(2,3,32,32)*1000
    o32=fl(m32(x)); o64=fl(m64(x.double()))
    err=max((a.double()-b).abs().max().item() for a,b in zip(o32,o64))
    print(nm,'max err',err,'rel to max|x| eps32:', err/(x.abs().max().item()*2**-23))
