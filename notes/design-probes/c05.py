import torch, pywt, numpy as np, warnings
warnings.filterwarnings('ignore')
torch.set_default_dtype(torch.float64)
from pytorch_wavelets import DWT1DForward, DWT1DInverse, DWTForward, DWTInverse
modes=['zero','symmetric','reflect','periodic','periodization']
def flat(yl,yh): return torch.cat([yl.reshape(-1)]+[h.reshape(-1) for h in yh])
res={}
for w in ['db1','db2','db3','bior2.2','bior1.3']:
  L=pywt.Wavelet(w).dec_len
  for mode in modes:
    for N in [6,7,8,11,12,16]:
      for J in [1,2]:
        f=DWT1DForward(J=J,wave=w,mode=mode)
        try: f(torch.zeros(1,1,N))
        except Exception: continue
        # operator matrix via basis
        A=torch.stack([flat(*f(torch.eye(N)[i].reshape(1,1,N))) for i in range(N)],1)  # M x N
        # autograd jacobian
        x=torch.randn(1,1,N,requires_grad=True)
        y=flat(*f(x))
        Jm=torch.stack([torch.autograd.grad(y,x,torch.eye(len(y))[i],retain_graph=True)[0].reshape(-1) for i in range(len(y))],0)
        ok=torch.allclose(Jm,A,atol=1e-9)
        res.setdefault(('fwd1d',mode,ok),[]).append((w,N,J))
        # inverse
        yl,yh=f(torch.randn(1,1,N))
        g=DWT1DInverse(wave=w,mode=mode)
        def gi(v):
            p=0; a=v[p:p+yl.numel()].reshape(yl.shape); p+=yl.numel(); hs=[]
            for h in yh: hs.append(v[p:p+h.numel()].reshape(h.shape)); p+=h.numel()
            return g((a,hs)).reshape(-1)
        M=yl.numel()+sum(h.numel() for h in yh)
        S=torch.stack([gi(torch.eye(M)[i]) for i in range(M)],1)
        v=torch.randn(M,requires_grad=True)
        out=gi(v)
        Js=torch.stack([torch.autograd.grad(out,v,torch.eye(len(out))[i],retain_graph=True)[0] for i in range(len(out))],0)
        ok=torch.allclose(Js,S,atol=1e-9)
        res.setdefault(('inv1d',mode,ok),[]).append((w,N,J))
for k,v in sorted(res.items()): print(k,len(v),v[:8])
