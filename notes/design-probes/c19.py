import torch, pywt, numpy as np, warnings
warnings.filterwarnings('ignore')
torch.set_default_dtype(torch.float64)
import pytorch_wavelets.dwt.lowlevel as ll
res={}
for w in ['db1','db2','db3','bior1.3','bior2.2','sym4']:
  W=pywt.Wavelet(w); L=W.dec_len
  for four in [False,True]:
    W2=pywt.Wavelet('db2' if w!='db2' else 'db3')
    if four and W2.dec_len!=L: 
        filtsA=(W.dec_lo,W.dec_hi,W2.dec_lo,W2.dec_hi); filtsS=(W.rec_lo,W.rec_hi,W2.rec_lo,W2.rec_hi)
    elif four:
        filtsA=(W.dec_lo,W.dec_hi,W2.dec_lo,W2.dec_hi); filtsS=(W.rec_lo,W.rec_hi,W2.rec_lo,W2.rec_hi)
    else:
        filtsA=(W.dec_lo,W.dec_hi); filtsS=(W.rec_lo,W.rec_hi)
    for mode in ['zero','symmetric','reflect','periodization']:
      for (H,Wd) in [(2,2),(3,4),(4,4),(5,5),(6,9),(8,8),(9,12),(16,10)]:
        x=torch.randn(2,3,H,Wd)
        try: ys=ll.afb2d(x,filtsA,mode=mode)
        except Exception as e: ys=None
        try: yn=ll.afb2d_nonsep(x,filtsA,mode=mode)
        except Exception as e: yn='raise '+type(e).__name__+' '+str(e)[:50]
        if ys is None:
            r='sep-raise/' + ('nonsep-raise' if isinstance(yn,str) else 'nonsep-ok'); 
        elif isinstance(yn,str): r='nonsep-'+yn
        else: r='eq' if ys.shape==yn.shape and torch.allclose(ys,yn,atol=1e-9) else 'MISMATCH %s %s'%(tuple(ys.shape),tuple(yn.shape))
        res.setdefault(('afb',mode,four,r),[]).append((w,L,H,Wd))
        if ys is not None:
            c=torch.randn(2,3,4,ys.shape[-2],ys.shape[-1])
            try:
                ss=ll.sfb2d(c[:,:,0],c[:,:,1],c[:,:,2],c[:,:,3],filtsS,mode=mode)
                sn=ll.sfb2d_nonsep(c,filtsS,mode=mode)
                r='eq' if ss.shape==sn.shape and torch.allclose(ss,sn,atol=1e-9) else 'MISMATCH %s %s'%(tuple(ss.shape),tuple(sn.shape))
            except Exception as e: r='raise '+type(e).__name__+str(e)[:50]
            res.setdefault(('sfb',mode,four,r),[]).append((w,L,H,Wd))
for k,v in sorted(res.items(),key=str): print(k,len(v),v[:6])
