# prototype of the Lean *specification* formulas, validated against pywt (exact same float inputs)
import numpy as np, pywt, warnings
warnings.filterwarnings('ignore')
def ext(mode,x,i):
    N=len(x)
    if mode=='zero': return x[i] if 0<=i<N else 0.0
    if mode=='symmetric':
        t=i%(2*N); return x[t] if t<N else x[2*N-1-t]
    if mode=='reflect':
        if N==1: return x[0]
        P=2*N-2; t=i%P; return x[t] if t<N else x[P-t]
    if mode=='periodic': return x[i%N]
def dwt(mode,h,x):
    N=len(x);L=len(h)
    if mode=='periodization':
        xe=list(x)+([x[-1]] if N%2 else []); M=len(xe)
        return [sum(h[j]*xe[(2*k+L//2-j)%M] for j in range(L)) for k in range(M//2)]
    K=(N+L-1)//2
    return [sum(h[j]*ext(mode,x,2*k+1-j) for j in range(L)) for k in range(K)]
def idwt(mode,g0,g1,lo,hi):
    n=len(lo);L=len(g0)
    gz=lambda g,i: g[i] if 0<=i<L else 0.0
    if mode=='periodization':
        N=2*n
        full=[sum(lo[k]*gz(g0,t-2*k)+hi[k]*gz(g1,t-2*k) for k in range(n)) for t in range(N+L-2)]
        fold=[sum(full[t] for t in range(m,N+L-2,N)) for m in range(N)]
        return [fold[(m+L//2-1)%N] for m in range(N)]
    M=2*n-L+2
    return [sum(lo[k]*gz(g0,m+L-2-2*k)+hi[k]*gz(g1,m+L-2-2*k) for k in range(n)) for m in range(M)]
def swt(h,x,d):
    N=len(x);L=len(h)
    return [sum(h[i]*x[(k+d*(L//2-i))%N] for i in range(L)) for k in range(N)]
bad=[];tot=0
rng=np.random.default_rng(0)
for w in ['db1','db2','db3','db5','sym4','coif1','bior1.3','bior2.4','bior3.1','rbio2.2','bior6.8']:
    W=pywt.Wavelet(w)
    for mode in ['zero','symmetric','reflect','periodic','periodization']:
        for N in list(range(1,26))+[40,41]:
            x=rng.standard_normal(N)
            try: cA,cD=pywt.dwt(x,W,mode=mode)
            except Exception as e: continue
            tot+=1
            a=dwt(mode,W.dec_lo,list(x)); d_=dwt(mode,W.dec_hi,list(x))
            if not(len(a)==len(cA) and np.allclose(a,cA,atol=1e-10) and np.allclose(d_,cD,atol=1e-10)): bad.append(('dwt',w,mode,N))
            lo=rng.standard_normal(len(cA)); hi=rng.standard_normal(len(cA))
            r=pywt.idwt(lo,hi,W,mode=mode)
            rr=idwt(mode,W.rec_lo,W.rec_hi,list(lo),list(hi))
            if not(len(r)==len(rr) and np.allclose(r,rr,atol=1e-10)): bad.append(('idwt',w,mode,N,len(r),len(rr)))
    for N in [8,16,24]:
        for lev in [1,2,3]:
            x=rng.standard_normal(N)
            ref=pywt.swt(x,W,level=lev,trim_approx=False)  # coarsest first
            cur=list(x)
            for j in range(lev):
                cA,cD=ref[lev-1-j]
                a=swt(W.dec_lo,cur,2**j); dd=swt(W.dec_hi,cur,2**j)
                tot+=1
                if not(np.allclose(a,cA,atol=1e-10) and np.allclose(dd,cD,atol=1e-10)): bad.append(('swt',w,N,lev,j))
                cur=a
print(tot,len(bad),bad[:20])
