import torch, numpy as np, warnings, itertools
warnings.filterwarnings('ignore')
torch.set_default_dtype(torch.float64)
from pytorch_wavelets import DTCWTForward, DTCWTInverse
from pytorch_wavelets.dtcwt.transform_funcs import get_dimensions5, get_dimensions6
bad6=[];bad5=[]
for o in range(6):
    for ri in range(6):
        if o==ri: continue
        o5 = o-1 if ri<o else o
        ax=['N','C','H','W']
        if o5>4: 
            print('o5>4',o,ri); continue
        ax.insert(o5,'O'); ax.insert(ri,'RI')
        exp=(o5,ri,ax.index('H'),ax.index('W'))
        got=get_dimensions6(o,ri)
        if got!=exp: bad6.append(((o,ri),got,exp,ax))
        ax5=['N','C','H','W']; ax5.insert(o5,'O')
        exp5=(o5,ri,ax5.index('H'),ax5.index('W'))
        got5=get_dimensions5(o,ri)
        if got5!=exp5: bad5.append(((o,ri),got5,exp5))
print('bad6',len(bad6)); [print(b) for b in bad6]
print('bad5',len(bad5)); [print(b) for b in bad5]
# behaviour
x=torch.randn(1,2,12,20)
ref_l,ref_h=DTCWTForward(J=2)(x)  # o=2, ri=-1 : (N,C,6,H,W,2)
res={}
for o in range(6):
    for ri in range(6):
        if o==ri: continue
        try:
            yl,yh=DTCWTForward(J=2,o_dim=o,ri_dim=ri)(x)
        except Exception as e:
            res[(o,ri)]='fwd-raise '+type(e).__name__+str(e)[:60]; continue
        # check layout: move axes back
        ok=True
        for j in range(2):
            t=yh[j]
            # expected: from ref (N,C,O,H,W,RI) -> positions
            o5 = o-1 if ri<o else o
            ax=['N','C','H','W']; ax.insert(o5,'O'); ax.insert(ri,'RI')
            perm=[['N','C','O','H','W','RI'].index(a) for a in ax]
            exp=ref_h[j].permute(*perm)
            ok = ok and exp.shape==t.shape and torch.allclose(exp,t)
        try:
            xr=DTCWTInverse(o_dim=o,ri_dim=ri)((yl,yh))
            okinv=torch.allclose(xr,x,atol=1e-8)
        except Exception as e:
            okinv='inv-raise '+type(e).__name__+str(e)[:80]
        res[(o,ri)]=(ok,okinv)
for k,v in res.items(): print(k,v)
