import numpy as np, os, glob
import pytorch_wavelets.dtcwt.coeffs as C
import dtcwt.coeffs as R
d=os.path.dirname(C.__file__)+'/data'
for f in sorted(glob.glob(d+'/*.npz')):
    n=os.path.basename(f)[:-4]
    m=dict(np.load(f))
    try:
        rf=dict(np.load(os.path.dirname(R.__file__)+'/data/'+n+'.npz'))
        same = set(m)==set(rf) and all(np.array_equal(m[k],rf[k]) for k in m)
    except Exception as e: same='noref '+str(e)[:40]
    print(n, {k:v.shape for k,v in m.items()}, 'ref-equal:',same)
def conv(a,b): return np.convolve(a.ravel(),b.ravel())
for n in ['antonini','legall','near_sym_a','near_sym_b','near_sym_b_bp']:
    t=C.biort(n); h0o,g0o,h1o,g1o=[v.ravel() for v in t[:4]]
    sym=[np.array_equal(v,v[::-1]) for v in (h0o,g0o,h1o,g1o)]
    # PR: h0*g0 + h1*g1 = 2 delta? undecimated
    p=conv(h0o,g0o); q=conv(h1o,g1o)
    # align centers
    L=max(len(p),len(q)); P=np.zeros(L);Q=np.zeros(L)
    P[(L-len(p))//2:(L-len(p))//2+len(p)]=p; Q[(L-len(q))//2:(L-len(q))//2+len(q)]=q
    s=P+Q; c=L//2
    dl=np.zeros(L); dl[c]=s[c]
    print(n,'sym',sym,'lens',[len(v) for v in (h0o,g0o,h1o,g1o)],'sum center',s[c],'max offcenter',np.abs(s-dl).max(), 'g1 vs h0 mod', np.abs(g1o - h0o*np.array([(-1)**k for k in range(len(h0o))])[::1]).max() if len(g1o)==len(h0o) else None)
    if len(t)>4:
        h2o,g2o=t[4].ravel(),t[5].ravel(); print('   bp: sym',np.array_equal(h2o,h2o[::-1]),np.array_equal(g2o,g2o[::-1]),len(h2o),len(g2o))
for n in ['qshift_06','qshift_a','qshift_b','qshift_c','qshift_d','qshift_b_bp','qshift_32']:
    try: t=C.qshift(n)
    except Exception as e: print(n,'raise',e); continue
    h0a,h0b,g0a,g0b,h1a,h1b,g1a,g1b=[v.ravel() for v in t[:8]]
    print(n,len(h0a),'b=rev a:',np.array_equal(h0b,h0a[::-1]),np.array_equal(h1b,h1a[::-1]),np.array_equal(g0b,g0a[::-1]),np.array_equal(g1b,g1a[::-1]),
      'g=rev h:',np.array_equal(g0a,h0a[::-1]),np.array_equal(g1a,h1a[::-1]), 'g0a==h0b',np.array_equal(g0a,h0b),
      'orth', max(abs(np.dot(h0a[2*k:],h0a[:len(h0a)-2*k])-(k==0)) for k in range(len(h0a)//2)), max(abs(np.dot(h1a[2*k:],h1a[:len(h1a)-2*k])-(k==0)) for k in range(len(h1a)//2)), max(abs(np.dot(h0a[2*k:],h1a[:len(h0a)-2*k])) for k in range(len(h0a)//2)))
    if len(t)>8:
        h2a,h2b,g2a,g2b=[v.ravel() for v in t[8:]]; print('   bp',len(h2a),np.array_equal(h2b,h2a[::-1]),np.array_equal(g2a,h2a[::-1]),np.array_equal(g2b,g2a[::-1]))
