import torch, numpy as np, warnings, itertools
warnings.filterwarnings('ignore')
torch.set_default_dtype(torch.float64)
from pytorch_wavelets import DTCWTForward, DTCWTInverse
import dtcwt
biorts=['antonini','legall','near_sym_a','near_sym_b']
qshifts=['qshift_06','qshift_a','qshift_b','qshift_c','qshift_d']
fails={}
tot=0
sizes=[(2,2),(2,4),(3,3),(4,4),(5,7),(6,6),(6,10),(7,12),(8,8),(9,9),(10,14),(12,20),(13,17),(16,16),(18,22),(20,36),(33,31)]
for b in biorts:
  for q in qshifts:
    for (H,W) in sizes:
      for J in [1,2,3,4]:
        x=np.random.randn(H,W)
        try:
            p=dtcwt.Transform2d(biort=b,qshift=q).forward(x,nlevels=J)
        except Exception as e:
            fails.setdefault('ref-raise',[]).append((b,q,H,W,J,str(e)[:50])); continue
        tot+=1
        try:
            yl,yh=DTCWTForward(biort=b,qshift=q,J=J)(torch.tensor(x)[None,None])
        except Exception as e:
            fails.setdefault('raise '+type(e).__name__,[]).append((b,q,H,W,J,str(e)[:60])); continue
        ok=yl[0,0].shape==p.lowpass.shape and np.allclose(yl[0,0].numpy(),p.lowpass,atol=1e-9)
        for j in range(J):
            ref=p.highpasses[j]  # H,W,6 complex
            got=yh[j][0,0]  # 6,H,W,2
            g=(got[...,0]+1j*got[...,1]).numpy().transpose(1,2,0)
            ok = ok and g.shape==ref.shape and np.allclose(g,ref,atol=1e-9)
        if not ok: fails.setdefault('mismatch',[]).append((b,q,H,W,J))
        # PR
        try:
            xr=DTCWTInverse(biort=b,qshift=q)((yl,yh))
            okpr=np.allclose(xr[0,0,:H,:W].numpy(),x,atol=1e-8) and xr.shape[-2]==H+H%2 and xr.shape[-1]==W+W%2
            if not okpr: fails.setdefault('pr',[]).append((b,q,H,W,J,tuple(xr.shape)))
        except Exception as e:
            fails.setdefault('inv-raise',[]).append((b,q,H,W,J,str(e)[:60]))
        # C11 inverse on random pyramid vs reference
        lp=np.random.randn(*p.lowpass.shape); hps=tuple(np.random.randn(*h.shape)+1j*np.random.randn(*h.shape) for h in p.highpasses)
        try:
            xr_ref=dtcwt.Transform2d(biort=b,qshift=q).inverse(dtcwt.Pyramid(lp,hps))
            tl=torch.tensor(lp)[None,None]
            th=[torch.stack([torch.tensor(h.real),torch.tensor(h.imag)],-1).permute(2,0,1,3)[None,None] for h in hps]
            xr=DTCWTInverse(biort=b,qshift=q)((tl,th))
            if not (xr[0,0].shape==xr_ref.shape and np.allclose(xr[0,0].numpy(),xr_ref,atol=1e-8)):
                fails.setdefault('c11-mismatch',[]).append((b,q,H,W,J,tuple(xr.shape),xr_ref.shape))
        except Exception as e:
            fails.setdefault('c11-raise',[]).append((b,q,H,W,J,str(e)[:80]))
print('tot',tot)
for k,v in fails.items(): print(k,len(v),v[:8])
