import torch, pywt, numpy as np, itertools, sys, warnings
warnings.filterwarnings('ignore')
torch.set_default_dtype(torch.float64)
from pytorch_wavelets import DWT1DForward, DWT1DInverse, DWTForward, DWTInverse
modes=['zero','symmetric','reflect','periodic','periodization']
waves = ['db1','db2','db3','db5','sym4','coif1','bior1.3','bior2.4','bior3.1','rbio2.2','dmey']
fails={}
tot=0
for w in waves:
    W=pywt.Wavelet(w); L=W.dec_len
    for mode in modes:
        for N in list(range(2,20))+[31,32,33,64,65,127]:
            for J in [1,2,3]:
                x=np.random.randn(1,2,N)
                try:
                    ref=pywt.wavedec(x,w,mode=mode,level=J)
                except Exception as e:
                    continue
                tot+=1
                try:
                    yl,yh=DWT1DForward(J=J,wave=w,mode=mode)(torch.tensor(x))
                except Exception as e:
                    fails.setdefault((mode,'raise:'+type(e).__name__),[]).append((w,L,N,J))
                    continue
                ok = yl.shape==ref[0].shape and np.allclose(yl.numpy(),ref[0],atol=1e-9)
                for j in range(J):
                    ok = ok and yh[j].shape==ref[J-j].shape and np.allclose(yh[j].numpy(),ref[J-j],atol=1e-9)
                if not ok:
                    fails.setdefault((mode,'mismatch'),[]).append((w,L,N,J))
print('total',tot)
for k,v in fails.items():
    print(k,len(v),v[:12])
