import torch, pywt, numpy as np, warnings
warnings.filterwarnings('ignore')
torch.set_default_dtype(torch.float64)
from pytorch_wavelets import DWT1DForward, DWT1DInverse, DWTForward, DWTInverse
def flat(yl,yh): return torch.cat([yl.reshape(-1)]+[h.reshape(-1) for h in yh])
bad=[]
tot=0
for w in ['db1','db2','db3','db4','sym2','sym5','coif1','coif2','haar']:
    L=pywt.Wavelet(w).dec_len
    for J in [1,2,3]:
        for m in [1,2,3]:
            base=max(L,2)
            # N = k*2^J with N/2^(J-1) >= L
            N=2**J
            while N//(2**(J-1))<L or N<2: N+=2**J
            N*=m
            f=DWT1DForward(J=J,wave=w,mode='periodization'); g=DWT1DInverse(wave=w,mode='periodization')
            A=torch.stack([flat(*f(torch.eye(N)[i].reshape(1,1,N))) for i in range(N)],1)
            tot+=1
            o1=torch.allclose(A.T@A,torch.eye(N),atol=1e-9) and A.shape[0]==N
            yl,yh=f(torch.zeros(1,1,N)); shapes=[yl.shape]+[h.shape for h in yh]
            def G(v):
                p=0;ts=[]
                for s in shapes:
                    k=int(np.prod(s)); ts.append(v[p:p+k].reshape(s)); p+=k
                return g((ts[0],ts[1:])).reshape(-1)
            S=torch.stack([G(torch.eye(N)[i]) for i in range(N)],1)
            o2=torch.allclose(S,A.T,atol=1e-9)
            if not(o1 and o2): bad.append((w,L,J,N,o1,o2))
print(tot,bad)
