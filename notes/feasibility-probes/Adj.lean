import Mathlib.Algebra.BigOperators.Group.Finset.Basic
import Mathlib.Algebra.BigOperators.Ring.Finset
import Mathlib.Algebra.BigOperators.Intervals
import Mathlib.Tactic.Ring
import Mathlib.Tactic.Linarith
namespace Wp
open Finset
variable {R : Type} [CommRing R]

/-- strided correlation (conv2d semantics along one axis) -/
def corrS (L : Nat) (w x : Nat → R) (k : Nat) : R := ∑ j ∈ range L, w j * x (2*k + j)
/-- transposed strided convolution (conv_transpose2d semantics, no crop) -/
def convT (L K : Nat) (w g : Nat → R) (i : Nat) : R :=
  ∑ k ∈ range K, if 2*k ≤ i ∧ i < 2*k + L then g k * w (i - 2*k) else 0

theorem corr_convT_adjoint (L K N : Nat) (w x g : Nat → R)
    (hN : ∀ k < K, 2*k + L ≤ N) :
    ∑ k ∈ range K, g k * corrS L w x k = ∑ i ∈ range N, x i * convT L K w g i := by
  unfold corrS convT
  simp only [Finset.mul_sum]
  rw [Finset.sum_comm (s := range N)]
  apply Finset.sum_congr rfl
  intro k hk
  have hk' : k < K := by simpa using hk
  have hsub : Ico (2*k) (2*k + L) ⊆ range N := by
    intro i hi
    simp only [mem_Ico] at hi
    have := hN k hk'
    simp only [mem_range]; omega
  have e : ∀ i ∈ range N, (x i * if 2*k ≤ i ∧ i < 2*k + L then g k * w (i - 2*k) else 0)
      = if i ∈ Ico (2*k) (2*k+L) then x i * (g k * w (i - 2*k)) else 0 := by
    intro i _
    simp only [mem_Ico]
    split <;> simp
  rw [Finset.sum_congr rfl e, Finset.sum_ite_mem, Finset.inter_eq_right.mpr hsub,
    Finset.sum_Ico_eq_sum_range]
  rw [Nat.add_sub_cancel_left]
  apply Finset.sum_congr rfl
  intro j _
  rw [Nat.add_sub_cancel_left]
  ring
end Wp
