import Wp.Tab
namespace Wp.Tab
/-- Σ_k a[k]·a[k+2n] scaled: integers with common exponent 2E -/
def autoc (a : List Int) (n : Nat) : Int :=
  (List.range (a.length - 2*n)).foldl (fun acc k => acc + a.getD k 0 * a.getD (k + 2*n) 0) 0
def orthOK (t : List Int × Nat) (tolExp : Nat) : Bool :=
  let (a, E) := t
  (List.range (a.length / 2)).all fun n =>
    let v := autoc a n - (if n = 0 then (2:Int)^(2*E) else 0)
    -- |v| / 2^(2E) ≤ 2^-tolExp
    v.natAbs * 2^tolExp ≤ 2^(2*E)
def symOK (t : List Int × Nat) (tolExp : Nat) : Bool :=
  let (a, E) := t
  (List.range a.length).all fun k => (a.getD k 0 - a.getD (a.length - 1 - k) 0).natAbs * 2^tolExp ≤ 2^E
theorem qshift_d_orth : orthOK qshift_d_h0a 40 = true ∧ orthOK qshift_d_h1a 40 = true := by decide +kernel
theorem qshift_d_rev : qshift_d_h0b.1 = qshift_d_h0a.1.reverse ∧ qshift_d_g0a.1 = qshift_d_h0a.1.reverse
    ∧ qshift_d_h0b.2 = qshift_d_h0a.2 := by decide +kernel
theorem antonini_sym : symOK antonini_h0o 40 = true ∧ symOK antonini_g0o 40 = true := by decide +kernel
example : symOK antonini_h0o 52 = false := by decide +kernel   -- not bit-exactly symmetric
#print axioms qshift_d_orth
end Wp.Tab
