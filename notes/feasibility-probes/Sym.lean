import Mathlib.Tactic.Linarith
import Mathlib.Tactic.Ring
namespace Wp
def symIdx (l : Int) (x : Int) : Int :=
  let t := x % (2*l); if t < l then t else 2*l - 1 - t

theorem symIdx_range (l x : Int) (hl : 0 < l) : 0 ≤ symIdx l x ∧ symIdx l x < l := by
  unfold symIdx
  have h1 := Int.emod_nonneg x (by omega : (2*l) ≠ 0)
  have h2 := Int.emod_lt_of_pos x (by omega : 0 < 2*l)
  simp only
  split <;> omega

theorem symIdx_id (l x : Int) (h0 : 0 ≤ x) (h1 : x < l) : symIdx l x = x := by
  unfold symIdx
  have : x % (2*l) = x := Int.emod_eq_of_lt h0 (by omega)
  simp [this, h1]

theorem symIdx_period (l x : Int) : symIdx l (x + 2*l) = symIdx l x := by
  unfold symIdx
  simp [Int.add_emod_right]

theorem neg_emod_aux (m x : Int) (hm : 0 < m) : (-1 - x) % m = m - 1 - x % m := by
  have h1 := Int.emod_nonneg x (by omega : m ≠ 0)
  have h2 := Int.emod_lt_of_pos x hm
  have hx : x = m * (x / m) + x % m := (Int.mul_ediv_add_emod x m).symm
  have : -1 - x = (m - 1 - x % m) + m * (-(x / m) - 1) := by
    conv_lhs => rw [hx]
    ring
  rw [this, Int.add_mul_emod_self_left]
  exact Int.emod_eq_of_lt (by omega) (by omega)

theorem symIdx_reflect (l x : Int) (hl : 0 < l) : symIdx l (-1 - x) = symIdx l x := by
  unfold symIdx
  rw [neg_emod_aux (2*l) x (by omega)]
  have h1 := Int.emod_nonneg x (by omega : (2*l) ≠ 0)
  have h2 := Int.emod_lt_of_pos x (by omega : 0 < 2*l)
  simp only
  split <;> split <;> omega
end Wp
