import Mathlib.Tactic.IntervalCases
namespace Wp
-- as a translator would emit from get_dimensions6 (fixed version for the probe)
def getDimensions6 (o_dim ri_dim : Int) : Int × Int × Int × Int :=
  let o_dim := o_dim % 6
  let ri_dim := ri_dim % 6
  let o_dim := if ri_dim < o_dim then o_dim - 1 else o_dim
  let h5 : Int := if o_dim ≤ 2 then 3 else 2
  let w5 : Int := if o_dim ≤ 3 then 4 else 3
  let h_dim := if ri_dim ≤ h5 then h5 + 1 else h5
  let w_dim := if ri_dim ≤ w5 then w5 + 1 else w5
  (o_dim, ri_dim, h_dim, w_dim)

inductive Ax | N | C | H | W | O | RI deriving DecidableEq, Repr
def insertAt (l : List Ax) (i : Nat) (a : Ax) : List Ax := l.take i ++ a :: l.drop i
def layout (o ri : Nat) : List Ax :=
  let o5 := if ri < o then o - 1 else o
  insertAt (insertAt [.N,.C,.H,.W] o5 .O) ri .RI

theorem dims6_correct (o ri : Int) (hne : o % 6 ≠ ri % 6) :
    let d := getDimensions6 o ri
    let lay := layout (o % 6).toNat (ri % 6).toNat
    lay[(o % 6).toNat]? = some Ax.O ∧ lay[(ri % 6).toNat]? = some Ax.RI ∧
    lay[d.2.2.1.toNat]? = some Ax.H ∧ lay[d.2.2.2.toNat]? = some Ax.W := by
  have h1 := Int.emod_nonneg o (by norm_num : (6:Int) ≠ 0)
  have h2 := Int.emod_lt_of_pos o (by norm_num : (0:Int) < 6)
  have h3 := Int.emod_nonneg ri (by norm_num : (6:Int) ≠ 0)
  have h4 := Int.emod_lt_of_pos ri (by norm_num : (0:Int) < 6)
  unfold getDimensions6
  generalize o % 6 = a at *
  generalize ri % 6 = b at *
  interval_cases a <;> interval_cases b <;> first | (exact absurd rfl hne) | decide
end Wp
