import Wp.Proofs
namespace Wp
open Finset
variable {R : Type} [CommRing R]

/-- mirrors `roll(x, -a)` of dwt/lowlevel.py for 0 ≤ a ≤ N: cat(x[-n:], x[:-n]) with n = N - a -/
def rollNeg (x : List R) (a : Nat) : List R := x.drop a ++ x.take a

/-- mirrors the periodization branch of afb1d (even N, one filter) -/
def afbPer (w x : List R) : List R :=
  let N := x.length; let L := w.length; let L2 := L / 2
  let x' := rollNeg x L2
  let full := corr w (zeroPad x' (L-1) (L-1)) 2
  tab (N/2) fun k => full.getD k 0 + (if k < L2 then full.getD (k + N/2) 0 else 0)

/-- spec: pywt periodization -/
def dwtSpecPer (h x : List R) : List R :=
  tab (x.length/2) fun k => sumN h.length fun j =>
    h.getD j 0 * getZ x ((2*(k:Int) + (h.length/2 : Nat) - j) % (x.length : Int))

theorem getZ_rollNeg (x : List R) (a : Nat) (ha : a ≤ x.length) (i : Int)
    (h0 : 0 ≤ i) (h1 : i < x.length) :
    getZ (rollNeg x a) i = getZ x ((i + a) % (x.length : Int)) := by
  have hN : (0:Int) < x.length := by omega
  unfold rollNeg getZ
  have e0 : 0 ≤ (i + a) % (x.length : Int) := Int.emod_nonneg _ (by omega)
  simp only [h0, e0, if_true]
  rw [List.getD_eq_getElem?_getD, List.getD_eq_getElem?_getD]
  by_cases hc : i.toNat < x.length - a
  · rw [List.getElem?_append_left (by simp; omega), List.getElem?_drop]
    have : (i + a) % (x.length : Int) = i + a := Int.emod_eq_of_lt (by omega) (by omega)
    rw [this]; congr 2; omega
  · rw [List.getElem?_append_right (by simp; omega), List.getElem?_take]
    have : (i + a) % (x.length : Int) = i + a - x.length := by
      rw [← Int.sub_emod_right]; exact Int.emod_eq_of_lt (by omega) (by omega)
    rw [this]
    simp only [List.length_drop]
    have hlt : i.toNat - (x.length - a) < a := by omega
    simp only [hlt, if_true]
    congr 2; omega

theorem length_rollNeg (x : List R) (a : Nat) (ha : a ≤ x.length) : (rollNeg x a).length = x.length := by
  simp [rollNeg]; omega

theorem getZ_neg (x : List R) (i : Int) (h : i < 0) : getZ x i = 0 := by
  unfold getZ; simp; omega

theorem corr_getD (w y : List R) (k : Nat) (hk : k < (y.length - w.length) / 2 + 1) :
    (corr w y 2).getD k 0 = ∑ j ∈ range w.length, w.getD j 0 * getZ y ((2*k + j : Nat) : Int) := by
  unfold corr
  rw [getD_tab]; simp only [hk, if_true]
  rw [sumN_eq]
  apply Finset.sum_congr rfl; intro j _
  rw [getD_eq_getZ y]

theorem afbPer_eq_spec (h x : List R) (hLe : h.length % 2 = 0) (hL : 2 ≤ h.length)
    (hNe : x.length % 2 = 0) (hLN : h.length ≤ x.length) :
    afbPer h.reverse x = dwtSpecPer h x := by
  unfold afbPer dwtSpecPer
  simp only [List.length_reverse]
  apply tab_ext rfl
  intro k hk
  have hroll : (rollNeg x (h.length/2)).length = x.length := length_rollNeg x _ (by omega)
  have hplen : (zeroPad (rollNeg x (h.length/2)) (h.length-1) (h.length-1)).length
      = x.length + 2*(h.length-1) := by simp [zeroPad, hroll]; omega
  rw [corr_getD _ _ k (by rw [hplen]; simp only [List.length_reverse]; omega)]
  have hsecond : (if k < h.length/2 then
        (corr h.reverse (zeroPad (rollNeg x (h.length/2)) (h.length-1) (h.length-1)) 2).getD (k + x.length/2) 0
      else 0) =
      ∑ j ∈ range h.length, if k < h.length/2 then h.reverse.getD j 0 *
        getZ (zeroPad (rollNeg x (h.length/2)) (h.length-1) (h.length-1)) ((2*(k + x.length/2) + j : Nat) : Int) else 0 := by
    split
    · rw [corr_getD _ _ _ (by rw [hplen]; simp only [List.length_reverse]; omega)]
      simp
    · simp
  rw [hsecond, sumN_eq]
  simp only [List.length_reverse]
  rw [← Finset.sum_add_distrib, ← Finset.sum_range_reflect]
  apply Finset.sum_congr rfl
  intro j hj
  have hj' : j < h.length := by simpa using hj
  rw [getD_reverse h j hj', getZ_zeroPad', getZ_zeroPad']
  -- index i = 2k - j
  have hi1 : ((2*k + (h.length - 1 - j) : Nat) : Int) - ((h.length - 1 : Nat) : Int) = 2*(k:Int) - j := by
    push_cast; omega
  have hi2 : ((2*(k + x.length/2) + (h.length - 1 - j) : Nat) : Int) - ((h.length - 1 : Nat) : Int)
      = 2*(k:Int) - j + x.length := by
    push_cast; omega
  rw [hi1, hi2]
  have hN : (0:Int) < x.length := by omega
  by_cases hpos : 0 ≤ 2*(k:Int) - j
  · -- in range: first term is the sample, second is beyond the end
    rw [getZ_rollNeg x _ (by omega) _ hpos (by omega)]
    rw [getZ_of_ge (rollNeg x (h.length/2)) (2*(k:Int) - j + x.length) (by rw [hroll]; omega)]
    have : (2*(k:Int) - j + ((h.length/2 : Nat) : Int)) = 2*(k:Int) + ((h.length/2 : Nat):Int) - j := by ring
    rw [this]
    split <;> ring
  · have hneg : 2*(k:Int) - j < 0 := by omega
    rw [getZ_neg _ _ hneg]
    have hk2 : k < h.length/2 := by omega
    simp only [hk2, if_true]
    rw [getZ_rollNeg x _ (by omega) _ (by omega) (by omega)]
    have : (2*(k:Int) - j + x.length + ((h.length/2 : Nat) : Int)) % (x.length : Int)
        = (2*(k:Int) + ((h.length/2 : Nat):Int) - j) % (x.length : Int) := by
      have : 2*(k:Int) - j + x.length + ((h.length/2 : Nat) : Int)
          = (2*(k:Int) + ((h.length/2 : Nat):Int) - j) + x.length := by ring
      rw [this, Int.add_emod_right]
    rw [this]; ring
end Wp
