import Wp.Basic
import Mathlib.Algebra.BigOperators.Group.Finset.Basic
import Mathlib.Algebra.BigOperators.Intervals
import Mathlib.Algebra.BigOperators.Ring.Finset
import Mathlib.Tactic.Ring
import Mathlib.Tactic.Linarith
namespace Wp
open Finset
variable {R : Type} [CommRing R]

theorem sumN_eq (n : Nat) (f : Nat → R) : sumN n f = ∑ i ∈ range n, f i := by
  induction n with
  | zero => simp [sumN]
  | succ n ih => simp [sumN, ih, Finset.sum_range_succ]

@[simp] theorem length_tab (n : Nat) (f : Nat → R) : (tab n f).length = n := by simp [tab]
theorem getD_tab (n : Nat) (f : Nat → R) (i : Nat) (d : R) :
    (tab n f).getD i d = if i < n then f i else d := by
  unfold tab
  by_cases h : i < n <;> simp [List.getD, h]

theorem tab_ext {n m : Nat} {f g : Nat → R} (hnm : n = m) (h : ∀ i < n, f i = g i) : tab n f = tab m g := by
  subst hnm
  unfold tab
  apply List.map_congr_left
  intro i hi
  exact h i (by simpa using hi)


theorem getZ_tab (n : Nat) (f : Nat → R) (i : Int) :
    getZ (tab n f) i = if 0 ≤ i ∧ i < n then f i.toNat else 0 := by
  unfold getZ
  by_cases h0 : 0 ≤ i
  · simp only [h0, if_true, true_and, getD_tab]
    have : (i.toNat < n) ↔ i < n := by omega
    simp [this]
  · simp [h0]

theorem getD_eq_getZ (x : List R) (i : Nat) : x.getD i 0 = getZ x (i : Int) := by
  simp [getZ]

theorem getZ_zeroPad (x : List R) (l r : Nat) (i : Int) (hi : i < (l + x.length + r : Nat)) :
    getZ (zeroPad x l r) i = getZ x (i - l) := by
  unfold zeroPad
  rw [getZ_tab]
  by_cases h0 : 0 ≤ i
  · have : i < ((l + x.length + r : Nat) : Int) := by exact_mod_cast hi
    simp only [h0, this, and_self, if_true]
    congr 1
    omega
  · have : ¬ (0 ≤ i - l) := by omega
    simp only [h0, false_and, if_false, getZ, this]

theorem getZ_of_ge (x : List R) (i : Int) (h : (x.length : Int) ≤ i) : getZ x i = 0 := by
  unfold getZ
  split
  · have : x.length ≤ i.toNat := by omega
    simp [List.getD, this]
  · rfl

theorem getZ_zeroPad' (x : List R) (l r : Nat) (i : Int) :
    getZ (zeroPad x l r) i = getZ x (i - l) := by
  by_cases hi : i < (l + x.length + r : Nat)
  · exact getZ_zeroPad x l r i hi
  · rw [getZ_of_ge, getZ_of_ge]
    · push_cast at hi ⊢; omega
    · simp [zeroPad]; push_cast at hi ⊢; omega

theorem getD_reverse (h : List R) (j : Nat) (hj : j < h.length) :
    h.reverse.getD (h.length - 1 - j) 0 = h.getD j 0 := by
  rw [List.getD_eq_getElem?_getD, List.getD_eq_getElem?_getD, List.getElem?_reverse (by omega)]
  congr 2; omega

theorem afbZero_eq_spec (h x : List R) (hL : 2 ≤ h.length) (hN : 1 ≤ x.length) :
    afbZero h.reverse x = dwtSpecZero h x := by
  unfold afbZero dwtSpecZero corr
  simp only [List.length_reverse]
  apply tab_ext
  · -- lengths
    unfold coeffLen
    split <;> simp [zeroPad] <;> omega
  · intro k hk
    rw [sumN_eq, sumN_eq]
    rw [← Finset.sum_range_reflect]
    apply Finset.sum_congr rfl
    intro j hj
    have hj' : j < h.length := by simpa using hj
    rw [getD_eq_getZ (zeroPad _ _ _), getZ_zeroPad']
    rw [getD_reverse h j hj']
    congr 1
    unfold coeffLen
    split
    · rename_i hp
      rw [getZ_zeroPad']
      congr 1; push_cast; omega
    · rename_i hp
      congr 1; push_cast; omega
end Wp
