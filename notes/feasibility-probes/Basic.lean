namespace Wp
variable {α : Type}
def tab (n : Nat) (f : Nat → α) : List α := (List.range n).map f
def sumN [Add α] [OfNat α 0] : Nat → (Nat → α) → α
  | 0, _ => 0
  | n+1, f => sumN n f + f n
/-- integer-indexed read with zero outside -/
def getZ [OfNat α 0] (x : List α) (i : Int) : α :=
  if 0 ≤ i then x.getD i.toNat 0 else 0
/-- torch F.pad(x,(l,r)) zero pad -/
def zeroPad [OfNat α 0] (x : List α) (l r : Nat) : List α :=
  tab (l + x.length + r) fun i => getZ x ((i:Int) - l)
/-- torch conv1d (cross-correlation), no padding, given stride -/
def corr [Add α] [Mul α] [OfNat α 0] (w x : List α) (stride : Nat) : List α :=
  tab ((x.length - w.length) / stride + 1) fun k =>
    sumN w.length fun j => w.getD j 0 * x.getD (stride*k + j) 0
/-- pywt.dwt_coeff_len for non-periodization modes -/
def coeffLen (N L : Nat) : Nat := (N + L - 1) / 2
/-- model of afb1d, mode='zero', one filter; `w` is the (already reversed) buffer -/
def afbZero [Add α] [Mul α] [OfNat α 0] (w x : List α) : List α :=
  let N := x.length; let L := w.length
  let p := 2 * (coeffLen N L - 1) + L - N
  let x1 := if p % 2 = 1 then zeroPad x 0 1 else x
  corr w (zeroPad x1 (p/2) (p/2)) 2
/-- spec: pywt dwt with zero extension -/
def dwtSpecZero [Add α] [Mul α] [OfNat α 0] (h x : List α) : List α :=
  tab (coeffLen x.length h.length) fun k =>
    sumN h.length fun j => h.getD j 0 * getZ x (2*(k:Int) + 1 - j)
end Wp
