#!/bin/sh
# tools/final.sh : end-of-session refresh on the clean /repo: regenerate Gen/* from /repo, every evidence file (quick tier,
# VERIF_SEED=0), MANIFEST.json; validate evidence and manifest against the schemas; list anything that is not OK.
cd "$(dirname "$0")/.." || exit 2
st=$(git -C /repo status --porcelain --untracked-files=no)
[ -n "$st" ] && { echo "/repo is not clean: $st"; exit 2; }
/venv/bin/python -m harness.translate || exit 2
bad=0
for i in 01 02 03 04 05 06 07 08 09 10 11 12 13 14 15 16 17 18 19; do
  out=$(VERIF_SEED=0 ./check C$i --tier quick 2>&1); rc=$?
  echo "C$i exit $rc $(echo "$out" | grep -E '^(OK|VIOLATION|ERROR|TIMEOUT)' | head -1 | cut -c1-120)"
  [ $rc -ne 0 ] && bad=1
done
/venv/bin/python -m harness.manifest > /dev/null || bad=1
python3-vt - <<'PY' || bad=1
import json, jsonschema, glob
sch = json.load(open('/root/.vp/EVIDENCE.schema.json'))
n = 0
for f in sorted(glob.glob('evidence/*.json')):
    d = json.load(open(f)); jsonschema.validate(d, sch); n += 1
    assert d['violations'] == 0, f
    assert d['coverage']['obligations'] > 0 and d['coverage']['obligations'] == d['coverage']['discharged'], f
jsonschema.validate(json.load(open('MANIFEST.json')), json.load(open('/root/.vp/MANIFEST.schema.json')))
print('evidence files valid:', n, '; manifest valid')
PY
[ $bad -eq 0 ] && echo final-ok || { echo final-NOT-ok; exit 1; }
