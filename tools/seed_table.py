#!/usr/bin/env python3
"""tools/seed_table.py — regenerate the seeded-change table of DESIGN.md (between the SEED-TABLE markers) from
seeded/*/meta.json."""
import json, os, re
rows = []
for sid in sorted(os.listdir('/verif/seeded')):
    m = json.load(open('/verif/seeded/%s/meta.json' % sid))
    if m.get('kept') is False:
        continue
    esc = lambda t: (t or '').replace('|', '\\|').replace('\n', ' ')
    prop = m['breaks_property']
    c = m.get('checks', {}).get(prop, {})
    ev = c.get('evidence') or []
    fi = [e for e in ev if e.startswith('FAILING-INPUT')]
    how = 'failing input' if (c.get('exit') == 1 and 'no-failing-input-found' not in c.get('verdict', '')) else ('no failing input' if c.get('exit') == 1 else 'MISSED')
    first = (fi or ev or [''])[0]
    rows.append('| %s | %s | %s | `./check %s` exit %s (%s) — %s |' % (sid, esc(m.get('summary'))[:170], esc(m.get('needs_to_manifest'))[:150], prop, c.get('exit'), how, esc(first)[:170]))
table = '| seed | change | needs | caught by |\n|---|---|---|---|\n' + '\n'.join(rows)
p = '/verif/DESIGN.md'
s = open(p).read()
if '<!-- SEED-TABLE-BEGIN -->' in s:
    s = re.sub(r'<!-- SEED-TABLE-BEGIN -->.*?<!-- SEED-TABLE-END -->', lambda _: '<!-- SEED-TABLE-BEGIN -->\n' + table + '\n<!-- SEED-TABLE-END -->', s, flags=re.S)
else:
    a = s.index('| seed | change | needs | caught by |')
    b = s.index('\n\n', a)
    s = s[:a] + '<!-- SEED-TABLE-BEGIN -->\n' + table + '\n<!-- SEED-TABLE-END -->' + s[b:]
open(p, 'w').write(s)
print(len(rows), 'rows;', sum('MISSED' in r for r in rows), 'missed;', sum('no failing input' in r for r in rows), 'without failing input')
