#!/bin/sh
# tools/seed_suite.sh <seed id e.g. C01_A> : run the baseline test files on a scratch worktree with the patch applied
s=$1; p=${s%_*}
wt=/tmp/sv/wt_$s
git -C /repo worktree add --detach -q $wt HEAD || exit 2
cd $wt && (git apply ${SEED_SRC:-/tmp/seed/out}/$p/$s.diff || git apply -3 ${SEED_SRC:-/tmp/seed/out}/$p/$s.diff) || { echo "APPLY-FAILED" > /tmp/sv/tests/$s.txt; git -C /repo worktree remove --force $wt; exit 1; }
OMP_NUM_THREADS=2 PYTHONPATH=$wt /venv/bin/python -m pytest -q -p no:cacheprovider --timeout=900 --continue-on-collection-errors --junitxml=/tmp/sv/tests/$s.xml tests > /tmp/sv/tests/$s.log 2>&1
python3 - <<PY > /tmp/sv/tests/$s.txt
import json, xml.etree.ElementTree as ET
b=json.load(open('/root/.vp/BASELINE.json'))
t=ET.parse('/tmp/sv/tests/$s.xml').getroot()
res={}
for tc in t.iter('testcase'):
    res[tc.get('classname')+'::'+tc.get('name')]= not any(ch.tag in ('failure','error','skipped') for ch in tc)
missing=[n for n in b['stable_pass'] if not res.get(n)]
print('stable_pass', len(b['stable_pass']), 'passing', sum(1 for n in b['stable_pass'] if res.get(n)), 'missing', missing[:5])
PY
cd / && git -C /repo worktree remove --force $wt
