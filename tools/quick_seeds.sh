#!/bin/sh
# vp run --timeout 4h -- sh tools/quick_seeds.sh [seeds...] : every quick check on the unchanged tree under several VERIF_SEED values
# (false alarms of the machinery; timing)
export PATH="/opt/veriftools/lean/bin:$PATH"
./setup.sh > setup.log 2>&1 || { echo "setup failed"; exit 2; }
for sd in ${@:-0 1 2 3}; do
  for i in 01 02 03 04 05 06 07 08 09 10 11 12 13 14 15 16 17 18 19; do
    s=$(date +%s); VERIF_SEED=$sd ./check C$i --tier quick > quick_C${i}_$sd.log 2>&1; rc=$?; e=$(date +%s)
    echo "seed $sd C$i exit $rc $((e-s))s $(grep -E '^(OK|VIOLATION|ERROR|TIMEOUT)' quick_C${i}_$sd.log | head -1 | cut -c1-140)"
  done
done
echo quick-seeds-finished
