#!/usr/bin/env python3
"""tools/seed_record.py <seed id e.g. C01_A> [extra props...] — evaluate with the current machinery and write
/verif/seeded/<id>/{patch.diff, demo.py, meta.json}.  Requires /tmp/sv/tests/<id>.txt from tools/seed_suite.sh."""
import sys, os, json, subprocess, shutil
sid = sys.argv[1]; prop = sid.split('_')[0]; extra = sys.argv[2:]
src = '%s/%s' % (os.environ.get('SEED_SRC', '/tmp/seed/out'), prop)
patch = '%s/%s.diff' % (src, sid); demo = '%s/%s_demo.py' % (src, sid); info = '%s/%s.json' % (src, sid)
suite = open('/tmp/sv/tests/%s.txt' % sid).read().strip() if os.path.exists('/tmp/sv/tests/%s.txt' % sid) else 'not run'
out = subprocess.run([sys.executable, '/verif/tools/seedtest.py', patch, demo, prop] + extra, capture_output=True).stdout.decode()
res = json.loads(out.strip().split('\n')[-1])
agent = {}
try:
    agent = json.load(open(info))
except Exception:
    pass
ok = res.get('applies') and res.get('demo_clean') == 0 and res.get('demo_patched') == 1 and 'passing 241' in suite
dst = '/verif/seeded/%s' % sid
os.makedirs(dst, exist_ok=True)
shutil.copy(patch, dst + '/patch.diff'); shutil.copy(demo, dst + '/demo.py')
meta = {
    'id': sid, 'breaks_property': prop,
    'summary': agent.get('summary'), 'needs_to_manifest': agent.get('needs'),
    'confirmed': {
        'patch_applies_to_current_repo_head': res.get('applies'),
        'demo_exit_on_unmodified_repo': res.get('demo_clean'), 'demo_exit_with_patch': res.get('demo_patched'),
        'baseline_suite_with_patch': suite,
        'how': 'tools/seed_suite.sh %s (scratch worktree, full pytest of tests/, compared with BASELINE.json stable_pass); tools/seedtest.py (demo clean / patched; git -C /repo apply, ./check, git -C /repo checkout -- .)' % sid,
    },
    'kept': bool(ok),
    'checks': {p: {'exit': v['exit'], 'verdict': (v['violation'] or ['no VIOLATION line'])[0], 'evidence': v['first']} for p, v in res.get('props', {}).items()},
}
json.dump(meta, open(dst + '/meta.json', 'w'), indent=1)
print(sid, 'kept' if ok else 'NOT-KEPT', {p: (v['exit'], 'no-failing-input' if 'no-failing-input-found' in ''.join(v['violation']) else '') for p, v in res.get('props', {}).items()})
