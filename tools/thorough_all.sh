#!/bin/sh
# vp run --timeout 8h -- sh tools/thorough_all.sh : every thorough check once on the unchanged tree (timing + false alarms)
export PATH="/opt/veriftools/lean/bin:$PATH"
./setup.sh > setup.log 2>&1 || { echo "setup failed"; exit 2; }
for i in 01 02 03 04 05 06 07 08 09 10 11 12 13 14 15 16 17 18 19; do
  s=$(date +%s); ./check C$i --tier thorough > thorough_C$i.log 2>&1; rc=$?; e=$(date +%s)
  echo "C$i exit $rc $((e-s))s $(grep -E '^(OK|VIOLATION|ERROR|TIMEOUT)' thorough_C$i.log | head -1 | cut -c1-160)"
done
echo thorough-finished
