#!/bin/sh
# vp run --with-repo --timeout 5h -- sh tools/seed_recheck_snapshot.sh [seed ids...]
# re-evaluates the kept seeded changes inside a snapshot of /verif against a snapshot of /repo (no interference with /repo)
export PATH="/opt/veriftools/lean/bin:$PATH"
HERE="$(pwd)"
./setup.sh > setup.log 2>&1 || { echo "setup failed"; tail -5 setup.log; exit 2; }
export SEED_REPO="$VP_RUN_REPO" SEED_VERIF="$HERE"
/venv/bin/python tools/seed_recheck.py "$@"
echo "recheck finished"
