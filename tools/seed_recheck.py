#!/usr/bin/env python3
"""tools/seed_recheck.py [seed ids...] — re-evaluate kept seeded changes (seeded/<id>/patch.diff, demo.py) with the
current machinery and refresh the 'checks' entry of their meta.json.  Applies each patch to /repo, runs the quick
check of the property it breaks, and undoes it (tools/seedtest.py)."""
import sys, os, json, subprocess
VERIF = os.environ.get('SEED_VERIF', '/verif')
ids = sys.argv[1:] or sorted(os.listdir(VERIF + '/seeded'))
for sid in ids:
    d = VERIF + '/seeded/%s' % sid
    meta = json.load(open(d + '/meta.json'))
    prop = meta['breaks_property']
    out = subprocess.run([sys.executable, VERIF + '/tools/seedtest.py', d + '/patch.diff', d + '/demo.py', prop], capture_output=True).stdout.decode()
    res = json.loads(out.strip().split('\n')[-1])
    meta['confirmed']['patch_applies_to_current_repo_head'] = res.get('applies')
    meta['confirmed']['demo_exit_on_unmodified_repo'] = res.get('demo_clean')
    meta['confirmed']['demo_exit_with_patch'] = res.get('demo_patched')
    meta['checks'] = {p: {'exit': v['exit'], 'verdict': (v['violation'] or ['no VIOLATION line'])[0], 'evidence': v['first']} for p, v in res.get('props', {}).items()}
    json.dump(meta, open(d + '/meta.json', 'w'), indent=1)
    v = res.get('props', {}).get(prop, {})
    print(sid, v.get('exit'), 'no-failing-input' if 'no-failing-input-found' in ''.join(v.get('violation', [])) else '', (v.get('first') or [''])[-1][:150], flush=True)
