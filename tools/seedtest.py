#!/usr/bin/env python3
"""Evaluate one seeded change: tools/seedtest.py <patch.diff> <demo.py> <prop> [more props...]

1. demo on the clean /repo must exit 0; 2. demo on a scratch worktree with the patch must exit 1;
3. apply the patch to /repo, run ./check <prop> (quick) for each prop, undo the patch.
Prints one JSON line."""
import sys, os, subprocess, json, shutil, time, tempfile

patch, demo, props = sys.argv[1], sys.argv[2], sys.argv[3:]
REPO = os.environ.get('SEED_REPO', '/repo')      # the tree the patch is applied to and the checks run against
VERIF = os.environ.get('SEED_VERIF', '/verif')
res = {'patch': patch, 'props': {}}
env = dict(os.environ, OMP_NUM_THREADS='2')
wt = tempfile.mkdtemp(prefix='sv_', dir='/tmp')
os.rmdir(wt)
try:
    subprocess.check_call(['git', '-C', '/repo', 'worktree', 'add', '--detach', '-q', wt, 'HEAD'])
    ap = subprocess.run(['git', '-C', wt, 'apply', patch], capture_output=True)
    if ap.returncode != 0:
        ap = subprocess.run(['git', '-C', wt, 'apply', '-3', patch], capture_output=True)
    res['applies'] = ap.returncode == 0
    if res['applies']:
        r0 = subprocess.run(['/venv/bin/python', demo], cwd='/repo', env=dict(env, PYTHONPATH='/repo'), capture_output=True, timeout=900)
        r1 = subprocess.run(['/venv/bin/python', demo], cwd=wt, env=dict(env, PYTHONPATH=wt), capture_output=True, timeout=900)
        res['demo_clean'] = r0.returncode; res['demo_patched'] = r1.returncode
        diff = subprocess.run(['git', '-C', wt, 'diff'], capture_output=True).stdout
        st = subprocess.run(['git', '-C', REPO, 'status', '--porcelain', '--untracked-files=no'], capture_output=True).stdout.decode().strip()
        if st:
            res['error'] = REPO + ' is dirty: ' + st
        else:
            p = subprocess.run(['git', '-C', REPO, 'apply'], input=diff, capture_output=True)
            try:
                if p.returncode == 0:
                    for pr in props:
                        t = time.time()
                        c = subprocess.run(['./check', pr, '--tier', 'quick'], cwd=VERIF, capture_output=True, timeout=1800, env=dict(os.environ, VERIF_REPO=REPO, VERIF_EVIDENCE_DIR=os.path.join(VERIF, 'replays', 'seed-evidence')))
                        out = c.stdout.decode()
                        viol = [l for l in out.split('\n') if l.startswith('VIOLATION')]
                        res['props'][pr] = {'exit': c.returncode, 'violation': viol[:1], 'first': [l for l in out.split('\n') if l.startswith(('FAILING-INPUT', 'BROKEN'))][:2], 'wall': round(time.time() - t, 1)}
                else:
                    res['error'] = 'patch does not apply to /repo: ' + p.stderr.decode()[:200]
            finally:
                subprocess.check_call(['git', '-C', REPO, 'checkout', '--', '.'])
finally:
    subprocess.run(['git', '-C', '/repo', 'worktree', 'remove', '--force', wt], capture_output=True)
    shutil.rmtree(wt, ignore_errors=True)
print(json.dumps(res))
