#!/bin/sh
# tools/seedquick.sh <seed id> [prop] : apply the kept patch to /repo, run the quick check without the Lean rebuild, undo
s=$1; p=${2:-${s%_*}}
[ -z "$(git -C /repo status --porcelain --untracked-files=no)" ] || { echo "/repo dirty"; exit 2; }
git -C /repo apply /verif/seeded/$s/patch.diff || exit 2
cd /verif && ./check $p --no-lean 2>&1 | grep -E "^(OK|VIOLATION|FAILING|BROKEN|ERROR)" | head -${3:-3}
git -C /repo checkout -- .
