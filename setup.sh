#!/bin/sh
# Build the Lean library (model, specs, property theorems) and the driver, offline.
set -e
cd "$(dirname "$0")"
export PATH="/opt/veriftools/lean/bin:$PATH"
/venv/bin/python -m harness.translate
cd lean
lake build driver WaveletsVerif
