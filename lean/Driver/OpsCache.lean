import Driver.Tensor
import Driver.OpsDwt
import WaveletsVerif.Model.Cache
import WaveletsVerif.Model.Dtype
namespace WV
open WV.Cache

/-- `cache_trace | present(F×K 0/1) | ops(M×(1+K))`: file f holds key k iff present[f][k] = 1 (value id
f*K+k+1); op row = (file index, or F for an unknown file; then a 0/1 mask of requested keys).
Output: per-op result code (0 ok, 1 ValueError, 2 IOError), per-op cache membership after the call. -/
def runCache (op : String) (_ps : List Int) (ts : List (Option (T Int))) : Res Int :=
  match op, ts with
  | "cache_trace", [some present, some ops] =>
    let F := present.shape.getD 0 0
    let K := present.shape.getD 1 0
    let pres := present.l2
    let files : Files := (List.range F).map fun f =>
      (s!"f{f}", ((List.range K).filter fun k => (pres.getD f []).getD k 0 == 1).map fun k => (s!"k{k}", f*K + k + 1))
    let calls := ops.l2.map fun row =>
      (s!"f{(row.getD 0 0).toNat}", ((List.range K).filter fun k => row.getD (k+1) 0 == 1).map fun k => s!"k{k}")
    let rec go (s : State) (cs : List (String × List String)) (codes : List Int) (mem : List (List Int)) : List Int × List (List Int) :=
      match cs with
      | [] => (codes.reverse, mem.reverse)
      | (n, ks) :: rest =>
        let (s1, o) := load files s n ks
        let code : Int := match o with | .ok _ => 0 | .valueError => 1 | .ioError => 2
        go s1 rest (code :: codes) (((List.range F).map fun f => if (lookup s1 s!"f{f}").isSome then (1:Int) else 0) :: mem)
    let (codes, mem) := go [] calls [] []
    .ok [some (ofL1 codes), some (ofL2 mem)]
  | _, _ => .bad

end WV

namespace WV
open WV.Dtype

/-- `dtype_path path x buf dflt` (dtype codes 0 = float32, 1 = float64) ↦ one-element tensor: result dtype code, or raise -/
def runDtype (op : String) (ps : List Int) : Res Int :=
  match op, ps with
  | "dtype_path", [p, x, b, d] =>
    let dt : Int → DT := fun i => if i = 1 then .f64 else .f32
    match pathOfNat p.toNat with
    | none => .bad
    | some path =>
      match run path (dt x) (dt b) (dt d) with
      | none => .raise
      | some r => .ok [some (ofL1 [if r = .f64 then 1 else 0])]
  | _, _ => .bad
end WV
