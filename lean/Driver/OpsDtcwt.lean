import Driver.Tensor
import Driver.OpsDwt
import WaveletsVerif.Model.Dtcwt
import WaveletsVerif.Gen.Dims
import WaveletsVerif.Spec.DtcwtRef
namespace WV
variable {α : Type} [Scalar α]

/-- `H×W×2` nested ↔ (re, im) -/
def cplxOfL3 (x : List (List (List α))) : Cplx α :=
  (x.map (·.map (·.getD 0 Scalar.zero)), x.map (·.map (·.getD 1 Scalar.zero)))
def l3OfCplx (c : Cplx α) : List (List (List α)) :=
  tab c.1.length fun i => tab c.1.width fun j => [get2 c.1 i j, get2 c.2 i j]

/-- canonical `(N,C,6,H,W,2)` tensor ↔ per item, per channel, six complex bands -/
def bandsOfT (t : T α) : List (List (List (Cplx α))) :=
  t.l6.map fun item => item.map fun ch => ch.map cplxOfL3
def tOfBands (b : List (List (List (Cplx α)))) : T α :=
  ofL6 (b.map fun item => item.map fun ch => ch.map l3OfCplx)

/-- `(N,C,6,H,W)` real and imaginary stacks ↔ bands -/
def bandsOfRI (r i : T α) : List (List (List (Cplx α))) :=
  (r.l5.zip i.l5).map fun (ri, ii) => (ri.zip ii).map fun (rc, ic) => rc.zip ic
def riOfBands (b : List (List (List (Cplx α)))) : T α × T α :=
  (ofL5 (b.map fun item => item.map fun ch => ch.map (·.1)),
   ofL5 (b.map fun item => item.map fun ch => ch.map (·.2)))

/-- axis permutation taking the canonical `(N,C,O,H,W,RI)` tensor to the layout the code
produces for `(o_dim, ri_dim)`: the code's own `get_dimensions5` (translated) gives the two
insertion points of `torch.stack` -/
def layoutPerm (o_dim ri_dim : Int) : Option (List Nat) := do
  let (o5, ri, _, _) ← Gen.get_dimensions5 o_dim ri_dim
  if o5 < 0 ∨ 4 < o5 ∨ ri < 0 ∨ 5 < ri then none else
  some ((layoutOf o5.toNat ri.toNat).map Ax.canon)

def toLayout (o_dim ri_dim : Int) (t : T α) : Option (T α) := do
  let p ← layoutPerm o_dim ri_dim
  some (t.permute p)
def fromLayout (o_dim ri_dim : Int) (t : T α) : Option (T α) := do
  let p ← layoutPerm o_dim ri_dim
  some (t.permute (invPerm p))

/-- what the module reads as `(s.shape[h_dim], s.shape[w_dim])` through `get_dimensions6` -/
def sizes6 (o_dim ri_dim : Int) (t : T α) : Option (Nat × Nat) := do
  let (_, _, h, w) ← Gen.get_dimensions6 o_dim ri_dim
  if h < 0 ∨ w < 0 then none else
  some (t.shape.getD h.toNat 0, t.shape.getD w.toNat 0)

/-- what `inv_j1` reads as `(highr.shape[h_dim], highr.shape[w_dim])` through `get_dimensions5`
on the tensor with the real/imaginary axis removed -/
def sizes5 (o_dim ri_dim : Int) (t : T α) : Option (Nat × Nat) := do
  let (_, ri, h, w) ← Gen.get_dimensions5 o_dim ri_dim
  if h < 0 ∨ w < 0 ∨ ri < 0 then none else
  let sh5 := t.shape.eraseIdx ri.toNat
  some (sh5.getD h.toNat 0, sh5.getD w.toNat 0)

def boolOf (i : Int) : Bool := i ≠ 0
def bits (mask : Int) (n : Nat) : List Bool := (List.range n).map fun j => (mask.toNat / 2^j) % 2 = 1

def mapImg4 (x : T α) (f : Img α → Option (Img α)) : Option (T α) := do
  let y ← x.l4.mapM fun item => item.mapM f
  some (ofL4 y)

def optT (o : Option (T α)) : Option (List (List (Img α))) := o.map (·.l4)

def runDtcwt (op : String) (ps : List Int) (ts : List (Option (T α))) : Res α :=
  let s : α := Scalar.s
  match op, ps, ts with
  | "colfilter", [sym], [some w, some x] => resOfOpt do
      some [some (← mapImg4 x fun im => some (colfilter (boolOf sym) w.l1 im))]
  | "rowfilter", [sym], [some w, some x] => resOfOpt do
      some [some (← mapImg4 x fun im => some (rowfilter (boolOf sym) w.l1 im))]
  | "coldfilt", [hp], [some ha, some hb, some x] => resOfOpt do
      some [some (← mapImg4 x (coldfilt ha.l1 hb.l1 (boolOf hp)))]
  | "rowdfilt", [hp], [some ha, some hb, some x] => resOfOpt do
      some [some (← mapImg4 x (rowdfilt ha.l1 hb.l1 (boolOf hp)))]
  | "colifilt", [hp], [some ha, some hb, some x] => resOfOpt do
      some [some (← mapImg4 x (colifilt ha.l1 hb.l1 (boolOf hp)))]
  | "rowifilt", [hp], [some ha, some hb, some x] => resOfOpt do
      some [some (← mapImg4 x (rowifilt ha.l1 hb.l1 (boolOf hp)))]
  | "q2c", [], [some y] =>
      let r := y.l4.map fun item => item.map fun im => q2c s im
      .ok [some (ofL4 (r.map (·.map (·.1.1)))), some (ofL4 (r.map (·.map (·.1.2)))),
           some (ofL4 (r.map (·.map (·.2.1)))), some (ofL4 (r.map (·.map (·.2.2))))]
  | "c2q", [], [some w1r, some w1i, some w2r, some w2i] =>
      let n := w1r.l4.length
      .ok [some (ofL4 ((List.range n).map fun a =>
        let ir := w1r.l4.getD a []
        (List.range ir.length).map fun c =>
          c2q s (ir.getD c [], (w1i.l4.getD a []).getD c []) ((w2r.l4.getD a []).getD c [], (w2i.l4.getD a []).getD c [])))]
  | "fwd_j1", [sym, skip], [some h0, some h1, some x] =>
      let r := x.l4.map fun item => item.map fun im => fwdJ1 s (boolOf sym) h0.l1 h1.l1 (boolOf skip) im
      let ll := ofL4 (r.map (·.map (·.1)))
      if boolOf skip then .ok [some ll, none, none] else
      let (re, im) := riOfBands (r.map (·.map fun p => p.2.getD []))
      .ok [some ll, some re, some im]
  | "fwd_j1_rot", [sym, skip], [some h0, some h1, some h2, some x] =>
      let r := x.l4.map fun item => item.map fun im => fwdJ1Rot s (boolOf sym) h0.l1 h1.l1 h2.l1 (boolOf skip) im
      let ll := ofL4 (r.map (·.map (·.1)))
      if boolOf skip then .ok [some ll, none, none] else
      let (re, im) := riOfBands (r.map (·.map fun p => p.2.getD []))
      .ok [some ll, some re, some im]
  | "fwd_j2plus", [skip], [some h0a, some h1a, some h0b, some h1b, some x] => resOfOpt do
      let r ← x.l4.mapM fun item => item.mapM fun im => fwdJ2 s h0a.l1 h1a.l1 h0b.l1 h1b.l1 (boolOf skip) im
      let ll := ofL4 (r.map (·.map (·.1)))
      if boolOf skip then some [some ll, none, none] else
      let (re, im) := riOfBands (r.map (·.map fun p => p.2.getD []))
      some [some ll, some re, some im]
  | "fwd_j2plus_rot", [skip], [some h0a, some h1a, some h0b, some h1b, some h2a, some h2b, some x] => resOfOpt do
      let r ← x.l4.mapM fun item => item.mapM fun im =>
        fwdJ2Rot s h0a.l1 h1a.l1 h0b.l1 h1b.l1 h2a.l1 h2b.l1 (boolOf skip) im
      let ll := ofL4 (r.map (·.map (·.1)))
      if boolOf skip then some [some ll, none, none] else
      let (re, im) := riOfBands (r.map (·.map fun p => p.2.getD []))
      some [some ll, some re, some im]
  | "inv_j1", [sym], [some g0, some g1, ll, hr, hi] => resOfOpt do
      -- batch/channel structure from whichever input is present
      let bands := match hr, hi with
        | some r, some i => some (bandsOfRI r i)
        | _, _ => none
      let n := match ll, bands with
        | some l, _ => l.l4.length
        | none, some b => b.length
        | none, none => 0
      let y ← (List.range n).mapM fun a => do
        let lch := ll.map fun l => l.l4.getD a []
        let bch := bands.map fun b => b.getD a []
        let c := match lch, bch with
          | some l, _ => l.length
          | none, some b => b.length
          | none, none => 0
        (List.range c).mapM fun k =>
          let o := bch.map fun b => b.getD k []
          invJ1 s (boolOf sym) g0.l1 g1.l1 ((o.map bandSize).getD (0,0)) (lch.map fun l => l.getD k []) o
      some [some (ofL4 y)]
  | "inv_j1_rot", [sym], [some g0, some g1, some g2, ll, hr, hi] => resOfOpt do
      let bands := match hr, hi with
        | some r, some i => some (bandsOfRI r i)
        | _, _ => none
      let n := match ll, bands with
        | some l, _ => l.l4.length
        | none, some b => b.length
        | none, none => 0
      let y ← (List.range n).mapM fun a => do
        let lch := ll.map fun l => l.l4.getD a []
        let bch := bands.map fun b => b.getD a []
        let c := match lch, bch with
          | some l, _ => l.length
          | none, some b => b.length
          | none, none => 0
        (List.range c).mapM fun k =>
          let o := bch.map fun b => b.getD k []
          invJ1Rot s (boolOf sym) g0.l1 g1.l1 g2.l1 ((o.map bandSize).getD (0,0)) (lch.map fun l => l.getD k []) o
      some [some (ofL4 y)]
  | "inv_j2plus", [], [some g0a, some g1a, some g0b, some g1b, ll, hr, hi] => resOfOpt do
      let bands := match hr, hi with
        | some r, some i => some (bandsOfRI r i)
        | _, _ => none
      let n := match ll, bands with
        | some l, _ => l.l4.length
        | none, some b => b.length
        | none, none => 0
      let y ← (List.range n).mapM fun a => do
        let lch := ll.map fun l => l.l4.getD a []
        let bch := bands.map fun b => b.getD a []
        let c := match lch, bch with
          | some l, _ => l.length
          | none, some b => b.length
          | none, none => 0
        (List.range c).mapM fun k =>
          invJ2 s g0a.l1 g1a.l1 g0b.l1 g1b.l1 (lch.map fun l => l.getD k []) (bch.map fun b => b.getD k [])
      some [some (ofL4 y)]
  | "inv_j2plus_rot", [], [some g0a, some g1a, some g0b, some g1b, some g2a, some g2b, ll, hr, hi] => resOfOpt do
      let bands := match hr, hi with
        | some r, some i => some (bandsOfRI r i)
        | _, _ => none
      let n := match ll, bands with
        | some l, _ => l.l4.length
        | none, some b => b.length
        | none, none => 0
      let y ← (List.range n).mapM fun a => do
        let lch := ll.map fun l => l.l4.getD a []
        let bch := bands.map fun b => b.getD a []
        let c := match lch, bch with
          | some l, _ => l.length
          | none, some b => b.length
          | none, none => 0
        (List.range c).mapM fun k =>
          invJ2Rot s g0a.l1 g1a.l1 g0b.l1 g1b.l1 g2a.l1 g2b.l1 (lch.map fun l => l.getD k []) (bch.map fun b => b.getD k [])
      some [some (ofL4 y)]
  /- DTCWTForward o_dim ri_dim sym J skipmask inclmask | h0o h1o h0a h0b h1a h1b (raw) | x -/
  | "DTCWTForward", [o, ri, sym, J, skm, inm], [some h0o, some h1o, some h0a, some h0b, some h1a, some h1b, some x] =>
    resOfOpt do
      if o % 6 = ri % 6 ∧ o = ri then none   -- the constructor raises only when o_dim == ri_dim literally
      let f : FwdFilters α := ⟨prepFilt h0o.l1, prepFilt h1o.l1, prepFilt h0a.l1, prepFilt h0b.l1, prepFilt h1a.l1, prepFilt h1b.l1⟩
      let skips := bits skm J.toNat
      let incl := bits inm J.toNat
      let r ← x.l4.mapM fun item => item.mapM fun im => DTCWTForward s (boolOf sym) f skips incl im
      let lows := ofL4 (r.map (·.map (·.1)))
      let highs ← (List.range J.toNat).mapM fun j =>
        if skips.getD j false then some none else do
          let t := tOfBands (r.map (·.map fun p => (p.2.1.getD j none).getD []))
          let t' ← toLayout o ri t
          some (some t')
      if incl.any id then
        let scales := (List.range J.toNat).map fun j =>
          if incl.getD j false then some (ofL4 (r.map (·.map fun p => (p.2.2.getD j none).getD []))) else none
        some (scales ++ highs)
      else some (some lows :: highs)
  /- DTCWTInverse o_dim ri_dim sym spelling(0 None,1 empty tensor,2 0-d placeholder: all absent) | g0o g1o g0a g0b g1a g1b (raw) | low|none | highs_1.. (in layout) -/
  | "DTCWTInverse", [o, ri, sym, _spelling], some g0o :: some g1o :: some g0a :: some g0b :: some g1a :: some g1b :: low :: highs =>
    resOfOpt do
      let f : InvFilters α := ⟨prepFilt g0o.l1, prepFilt g1o.l1, prepFilt g0a.l1, prepFilt g0b.l1, prepFilt g1a.l1, prepFilt g1b.l1⟩
      -- the module asserts shape[o_dim] == 6, 6 dims, shape[ri_dim] == 2 for levels ≥ 2
      let okShape := (highs.drop 1).all fun h => match h with
        | none => true
        | some t => t.shape.length == 6 &&
            t.shape.getD ((o % 6).toNat) 0 == 6 && t.shape.getD ((ri % 6).toNat) 0 == 2
      if !okShape then none
      let sz6 ← highs.mapM fun h => match h with
        | none => some (0, 0)
        | some t => sizes6 o ri t
      let sz5 ← (match highs.head? with
        | some (some t) => sizes5 o ri t
        | _ => some (0, 0))
      let canon ← highs.mapM fun h => match h with
        | none => some none
        | some t => do let c ← fromLayout o ri t; some (some (bandsOfT c))
      let n := match low, canon.filterMap id with
        | some l, _ => l.l4.length
        | none, b :: _ => b.length
        | none, [] => 0
      let y ← (List.range n).mapM fun a => do
        let lch := low.map fun l => l.l4.getD a []
        let c := match lch, canon.filterMap id with
          | some l, _ => l.length
          | none, b :: _ => (b.getD a []).length
          | none, [] => 0
        (List.range c).mapM fun k =>
          DTCWTInverse s (boolOf sym) f sz6 sz5 (lch.map fun l => l.getD k [])
            (canon.map fun ob => ob.map fun b => (b.getD a []).getD k [])
      some [some (ofL4 y)]
  /- specification ops (one column), raw un-reversed filters -/
  | "spec_colfilter", [], [some h, some x] => .ok [some (ofL1 (Spec.colfilter h.l1 x.l1))]
  | "spec_coldfilt", [hp], [some ha, some hb, some x] => .ok [some (ofL1 (Spec.coldfilt ha.l1 hb.l1 (boolOf hp) x.l1))]
  | "spec_colifilt", [hp], [some ha, some hb, some x] => .ok [some (ofL1 (Spec.colifilt ha.l1 hb.l1 (boolOf hp) x.l1))]
  /- the reference forward pyramid on one image: J | h0o h1o h0a h0b h1a h1b (raw tables) | x (H×W)  ->  low, then per level (6,h,w,2) -/
  | "spec_forward", [J], [some h0o, some h1o, some h0a, some h0b, some h1a, some h1b, some x] =>
    if J < 1 then .bad else
    let r := Spec.refForward s h0o.l1 h1o.l1 h0a.l1 h0b.l1 h1a.l1 h1b.l1 (J.toNat - 1) x.l2
    .ok (some (ofL2 r.1) :: r.2.map fun bands => some (ofL4 (bands.map l3OfCplx)))
  /- the reference levels with band-pass diagonal filters on one image: level 1 with (h0o h1o h2o), then level 2 of its low-pass with
     (h0a h0b h1a h1b h2a h2b); sides multiples of 4  ->  low1, bands1 (6,h,w,2), low2, bands2 -/
  | "spec_levels_rot", [], [some h0o, some h1o, some h2o, some h0a, some h0b, some h1a, some h1b, some h2a, some h2b, some x] =>
    let r1 := Spec.refLevel1Rot s h0o.l1 h1o.l1 h2o.l1 x.l2
    let r2 := Spec.refLevel2Rot s h0a.l1 h0b.l1 h1a.l1 h1b.l1 h2a.l1 h2b.l1 r1.1
    .ok [some (ofL2 r1.1), some (ofL4 (r1.2.map l3OfCplx)), some (ofL2 r2.1), some (ofL4 (r2.2.map l3OfCplx))]
  /- the reference inverse pyramid on one image: g0o g1o g0a g0b g1a g1b (raw tables) | low (h×w) | level_1 (6,h,w,2) ... -/
  | "spec_inverse", [], some g0o :: some g1o :: some g0a :: some g0b :: some g1a :: some g1b :: some low :: highs =>
    if highs.any (·.isNone) then .bad else
    let bs := highs.filterMap fun h => h.map fun t => t.l4.map cplxOfL3
    .ok [some (ofL2 (Spec.refInverse s g0o.l1 g1o.l1 g0a.l1 g0b.l1 g1a.l1 g1b.l1 low.l2 bs))]
  | "FWD_J1_bwd", [o, ri, sym, _skip], [some h0, some h1, some dl, dh] => resOfOpt do
      let bands ← (match dh with
        | none => some none
        | some t => do let c ← fromLayout o ri t; some (some (bandsOfT c)))
      let rc ← (match dh with
        | none => some (0, 0)
        | some t => sizes5 o ri t)
      let y ← (List.range dl.l4.length).mapM fun a =>
        (List.range (dl.l4.getD a []).length).mapM fun k =>
          FWD_J1_backward s (boolOf sym) h0.l1 h1.l1 rc ((dl.l4.getD a []).getD k [])
            (bands.map fun b => (b.getD a []).getD k [])
      some [some (ofL4 y)]
  | "FWD_J2PLUS_bwd", [o, ri, _skip], [some h0a, some h0b, some h1a, some h1b, some dl, dh] => resOfOpt do
      let bands ← (match dh with
        | none => some none
        | some t => do let c ← fromLayout o ri t; some (some (bandsOfT c)))
      let y ← (List.range dl.l4.length).mapM fun a =>
        (List.range (dl.l4.getD a []).length).mapM fun k =>
          FWD_J2PLUS_backward s h0a.l1 h1a.l1 h0b.l1 h1b.l1 ((dl.l4.getD a []).getD k [])
            (bands.map fun b => (b.getD a []).getD k [])
      some [some (ofL4 y)]
  | "INV_J1_bwd", [o, ri, sym, mask], [some g0, some g1, some dy] => resOfOpt do
      let nl := mask % 2 = 1
      let nh := mask / 2 = 1
      let r := dy.l4.map fun item => item.map fun im => INV_J1_backward s (boolOf sym) g0.l1 g1.l1 nl nh im
      let dl := if nl then some (ofL4 (r.map (·.map fun p => p.1.getD []))) else none
      let dh ← (if nh then do
          let t ← toLayout o ri (tOfBands (r.map (·.map fun p => p.2.getD [])))
          some (some t)
        else some none)
      some [dl, dh]
  | "INV_J2PLUS_bwd", [o, ri, mask], [some g0a, some g0b, some g1a, some g1b, some dy] => resOfOpt do
      let nl := mask % 2 = 1
      let nh := mask / 2 = 1
      let r ← dy.l4.mapM fun item => item.mapM fun im => INV_J2PLUS_backward s g0a.l1 g1a.l1 g0b.l1 g1b.l1 nl nh im
      let dl := if nl then some (ofL4 (r.map (·.map fun p => p.1.getD []))) else none
      let dh ← (if nh then do
          let t ← toLayout o ri (tOfBands (r.map (·.map fun p => p.2.getD [])))
          some (some t)
        else some none)
      some [dl, dh]
  | _, _, _ => .bad

end WV
