import Driver.Tensor
import Driver.OpsDwt
namespace WV
variable {α : Type} [Scalar α]
def runDtcwt (op : String) (ps : List Int) (ts : List (Option (T α))) : Res α := .bad
end WV
