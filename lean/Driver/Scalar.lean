/-
  Scalars the driver can run the polymorphic model at:
  `Int` (exact DWT correspondence), `Q2 = ℚ(√2)` (exact DTCWT correspondence),
  `Float` (scattering layers).  Mathlib-free.
-/
namespace WV

/-- `a + b·√2` with rational `a`, `b` -/
structure Q2 where
  a : Rat
  b : Rat
  deriving BEq, Repr

namespace Q2
instance : Add Q2 := ⟨fun x y => ⟨x.a + y.a, x.b + y.b⟩⟩
instance : Sub Q2 := ⟨fun x y => ⟨x.a - y.a, x.b - y.b⟩⟩
instance : Neg Q2 := ⟨fun x => ⟨-x.a, -x.b⟩⟩
instance : Mul Q2 := ⟨fun x y => ⟨x.a*y.a + 2*x.b*y.b, x.a*y.b + x.b*y.a⟩⟩
instance : OfNat Q2 0 := ⟨⟨0, 0⟩⟩
instance : OfNat Q2 1 := ⟨⟨1, 0⟩⟩
instance : Inhabited Q2 := ⟨0⟩
/-- `1/√2 = √2/2` -/
def invSqrt2 : Q2 := ⟨0, (1:Rat)/2⟩
end Q2

class Scalar (α : Type) extends Add α, Sub α, Neg α, Mul α where
  zero : α
  one : α
  parse : String → Option α
  render : α → String
  /-- stands for `1/np.sqrt(2)` -/
  s : α
  /-- stands for `1/4` -/
  q : α
  /-- `sqrt` (only meaningful for Float) -/
  sqrt : α → α
  div : α → α → α

instance {α} [Scalar α] : OfNat α 0 := ⟨Scalar.zero⟩
instance {α} [Scalar α] : OfNat α 1 := ⟨Scalar.one⟩
instance {α} [Scalar α] : Inhabited α := ⟨Scalar.zero⟩

def parseRat (t : String) : Option Rat :=
  match t.splitOn "/" with
  | [n] => n.toInt?.map fun i => (i : Rat)
  | [n, d] => do
    let i ← n.toInt?
    let j ← d.toNat?
    if j = 0 then none else some ((i : Rat) / (j : Rat))
  | _ => none

def renderRat (r : Rat) : String := if r.den = 1 then toString r.num else s!"{r.num}/{r.den}"

instance : Scalar Int where
  zero := 0
  one := 1
  parse t := t.toInt?
  render i := toString i
  s := 0
  q := 0
  sqrt x := x
  div x _ := x

instance : Scalar Q2 where
  zero := 0
  one := 1
  parse t := match t.splitOn "_" with
    | [a] => (parseRat a).map fun r => ⟨r, 0⟩
    | [a, b] => do let x ← parseRat a; let y ← parseRat b; some ⟨x, y⟩
    | _ => none
  render x := if x.b = 0 then renderRat x.a else s!"{renderRat x.a}_{renderRat x.b}"
  s := Q2.invSqrt2
  q := ⟨(1:Rat)/4, 0⟩
  sqrt x := x
  div x _ := x

/-- floats travel as the decimal value of their IEEE-754 bit pattern -/
instance : Scalar Float where
  zero := 0.0
  one := 1.0
  parse t := t.toNat?.map fun n => Float.ofBits n.toUInt64
  render x := toString x.toBits.toNat
  s := 1.0 / Float.sqrt 2.0
  q := 0.25
  sqrt := Float.sqrt
  div x y := x / y

end WV
