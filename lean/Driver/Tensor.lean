/-
  Shaped tensors for the line protocol: `d1,d2,…:v1,v2,…` (row-major), and
  conversions to/from the nested lists the model uses.  `none` on the wire is
  Python's `None`.
-/
import Driver.Scalar
import WaveletsVerif.Model.Core
namespace WV

structure T (α : Type) where
  shape : List Nat
  data : List α
  deriving Repr

variable {α : Type}

def chunks (n : Nat) (xs : List α) : List (List α) :=
  if n = 0 then [] else
  let rec go (fuel : Nat) (ys : List α) (acc : List (List α)) : List (List α) :=
    match fuel with
    | 0 => acc.reverse
    | fuel+1 => if ys.isEmpty then acc.reverse else go fuel (ys.drop n) (ys.take n :: acc)
  go (xs.length + 1) xs []

def parseT [Scalar α] (s : String) : Option (Option (T α)) :=
  let s := s.trimAscii.toString
  if s = "none" then some none else
  match s.splitOn ":" with
  | [sh, vals] => do
    let shape ← (if sh.trimAscii.toString = "" then some [] else (sh.splitOn ",").mapM fun t => t.trimAscii.toString.toNat?)
    let data ← (if vals.trimAscii.toString = "" then some [] else (vals.splitOn ",").mapM fun t => Scalar.parse t.trimAscii.toString)
    if shape.foldl (· * ·) 1 = data.length then some (some ⟨shape, data⟩) else none
  | _ => none

def renderT [Scalar α] (t : T α) : String :=
  ",".intercalate (t.shape.map toString) ++ ":" ++ ",".intercalate (t.data.map Scalar.render)

def T.l1 (t : T α) : List α := t.data
def T.l2 (t : T α) : List (List α) := chunks (t.shape.getD 1 0) t.data
def T.l3 (t : T α) : List (List (List α)) :=
  (chunks (t.shape.getD 1 0 * t.shape.getD 2 0) t.data).map (chunks (t.shape.getD 2 0))
def T.l4 (t : T α) : List (List (List (List α))) :=
  let a := t.shape.getD 1 0; let b := t.shape.getD 2 0; let c := t.shape.getD 3 0
  (chunks (a*b*c) t.data).map fun x => (chunks (b*c) x).map (chunks c)
def T.l5 (t : T α) : List (List (List (List (List α)))) :=
  let a := t.shape.getD 1 0; let b := t.shape.getD 2 0; let c := t.shape.getD 3 0; let d := t.shape.getD 4 0
  (chunks (a*b*c*d) t.data).map fun x => (chunks (b*c*d) x).map fun y => (chunks (c*d) y).map (chunks d)
def T.l6 (t : T α) : List (List (List (List (List (List α))))) :=
  let a := t.shape.getD 1 0; let b := t.shape.getD 2 0; let c := t.shape.getD 3 0
  let d := t.shape.getD 4 0; let e := t.shape.getD 5 0
  (chunks (a*b*c*d*e) t.data).map fun x => (chunks (b*c*d*e) x).map fun y =>
    (chunks (c*d*e) y).map fun z => (chunks (d*e) z).map (chunks e)

def ofL1 (x : List α) : T α := ⟨[x.length], x⟩
def ofL2 (x : List (List α)) : T α := ⟨[x.length, (x.headD []).length], x.flatten⟩
def ofL3 (x : List (List (List α))) : T α :=
  let t := x.map ofL2
  ⟨x.length :: ((t.head?.map (·.shape)).getD [0,0]), (t.map (·.data)).flatten⟩
def ofL4 (x : List (List (List (List α)))) : T α :=
  let t := x.map ofL3
  ⟨x.length :: ((t.head?.map (·.shape)).getD [0,0,0]), (t.map (·.data)).flatten⟩
def ofL5 (x : List (List (List (List (List α))))) : T α :=
  let t := x.map ofL4
  ⟨x.length :: ((t.head?.map (·.shape)).getD [0,0,0,0]), (t.map (·.data)).flatten⟩
def ofL6 (x : List (List (List (List (List (List α)))))) : T α :=
  let t := x.map ofL5
  ⟨x.length :: ((t.head?.map (·.shape)).getD [0,0,0,0,0]), (t.map (·.data)).flatten⟩

end WV

namespace WV
variable {α : Type}

/-- row-major strides of a shape -/
def stridesOf (shape : List Nat) : List Nat :=
  (shape.foldr (fun d (acc : List Nat × Nat) => (acc.2 :: acc.1, acc.2 * d)) ([], 1)).1

/-- multi-index of flat position `p` in `shape` -/
def unravel (shape : List Nat) (p : Nat) : List Nat :=
  (stridesOf shape).zip shape |>.map fun (st, d) => (p / st) % d

/-- `torch.permute(t, perm)`: output axis `k` is input axis `perm[k]` -/
def T.permute [Inhabited α] (t : T α) (perm : List Nat) : T α :=
  let oshape := perm.map fun k => t.shape.getD k 0
  let istr := stridesOf t.shape
  let arr := t.data.toArray
  let n := oshape.foldl (· * ·) 1
  let data := (List.range n).map fun p =>
    let oi := unravel oshape p
    -- input index along axis perm[k] is oi[k]
    let flat := (perm.zip oi).foldl (fun acc (k, i) => acc + i * istr.getD k 0) 0
    arr.getD flat default
  ⟨oshape, data⟩

/-- inverse permutation -/
def invPerm (perm : List Nat) : List Nat :=
  (List.range perm.length).map fun k => (perm.findIdx? (· == k)).getD 0

end WV
