import Driver.Tensor
import WaveletsVerif.Model.Dwt
import WaveletsVerif.Spec.Pywt
namespace WV

inductive Res (α : Type) where
  | bad
  | raise
  | ok (outs : List (Option (T α)))

def modeOfInt : Int → Option Mode
  | 0 => some .zero | 1 => some .symmetric | 2 => some .periodization | 3 => some .constant
  | 4 => some .reflect | 5 => some .replicate | 6 => some .periodic | _ => none

def axisOfInt : Int → Option Axis
  | 2 => some .H | 3 => some .W | _ => none

def resOfOpt {α} (o : Option (List (Option (T α)))) : Res α :=
  match o with
  | none => .raise
  | some l => .ok l

variable {α : Type} [Scalar α]

/-- (N,C,3,H,W) nested ↔ model's per-item `List (List (Img α))` is the same nesting -/
def runDwt (op : String) (ps : List Int) (ts : List (Option (T α))) : Res α :=
  match op, ps, ts with
  | "afb1d", [ax, m], [some w0, some w1, some x] =>
    match axisOfInt ax, modeOfInt m with
    | some ax, some m => resOfOpt do
        let y ← x.l4.mapM (afb1dT ax m w0.l1 w1.l1)
        some [some (ofL4 y)]
    | _, _ => .bad
  | "afb1d_atrous", [ax, m, d], [some w0, some w1, some x] =>
    match axisOfInt ax, modeOfInt m with
    | some ax, some m => resOfOpt do
        let y ← x.l4.mapM (afb1dAtrousT ax m d.toNat w0.l1 w1.l1)
        some [some (ofL4 y)]
    | _, _ => .bad
  | "sfb1d", [ax, m], [some g0, some g1, some lo, some hi] =>
    match axisOfInt ax, modeOfInt m with
    | some ax, some m => resOfOpt do
        if lo.l4.length ≠ hi.l4.length then none
        let y ← (List.range lo.l4.length).mapM fun n =>
          sfb1dT ax m g0.l1 g1.l1 (lo.l4.getD n []) (hi.l4.getD n [])
        some [some (ofL4 y)]
    | _, _ => .bad
  | "AFB1D_fwd", [m], [some w0, some w1, some x] =>
    match modeOfInt m with
    | some m => resOfOpt do
        let y ← x.l3.mapM (AFB1D_forward m w0.l1 w1.l1)
        some [some (ofL3 (y.map (·.1))), some (ofL3 (y.map (·.2)))]
    | _ => .bad
  | "AFB1D_bwd", [m, n], [some w0, some w1, some d0, some d1] =>
    match modeOfInt m with
    | some m => resOfOpt do
        let y ← (List.range d0.l3.length).mapM fun i =>
          AFB1D_backward m w0.l1 w1.l1 n.toNat (d0.l3.getD i []) (d1.l3.getD i [])
        some [some (ofL3 y)]
    | _ => .bad
  | "SFB1D_fwd", [m], [some g0, some g1, some lo, some hi] =>
    match modeOfInt m with
    | some m => resOfOpt do
        let y ← (List.range lo.l3.length).mapM fun i =>
          SFB1D_forward m g0.l1 g1.l1 (lo.l3.getD i []) (hi.l3.getD i [])
        some [some (ofL3 y)]
    | _ => .bad
  | "SFB1D_bwd", [m, _n, mask], [some g0, some g1, some dy] =>
    match modeOfInt m with
    | some m => resOfOpt do
        if mask = 0 then some [none, none] else
        let y ← dy.l3.mapM (SFB1D_backward m g0.l1 g1.l1)
        some [if mask % 2 = 1 then some (ofL3 (y.map (·.1))) else none,
              if mask / 2 = 1 then some (ofL3 (y.map (·.2))) else none]
    | _ => .bad
  | "AFB2D_fwd", [m], [some wr0, some wr1, some wc0, some wc1, some x] =>
    match modeOfInt m with
    | some m => resOfOpt do
        let y ← x.l4.mapM (AFB2D_forward m wr0.l1 wr1.l1 wc0.l1 wc1.l1)
        some [some (ofL4 (y.map (·.1))), some (ofL5 (y.map (·.2)))]
    | _ => .bad
  | "AFB2D_bwd", [m, h, w], [some wr0, some wr1, some wc0, some wc1, some low, some highs] =>
    match modeOfInt m with
    | some m => resOfOpt do
        let y ← (List.range low.l4.length).mapM fun i =>
          AFB2D_backward m wr0.l1 wr1.l1 wc0.l1 wc1.l1 h.toNat w.toNat (low.l4.getD i []) (highs.l5.getD i [])
        some [some (ofL4 y)]
    | _ => .bad
  | "SFB2D_fwd", [m], [some gr0, some gr1, some gc0, some gc1, some low, some highs] =>
    match modeOfInt m with
    | some m => resOfOpt do
        let y ← (List.range low.l4.length).mapM fun i =>
          SFB2D_forward m gr0.l1 gr1.l1 gc0.l1 gc1.l1 (low.l4.getD i []) (highs.l5.getD i [])
        some [some (ofL4 y)]
    | _ => .bad
  | "SFB2D_bwd", [m, _h, _w, mask], [some gr0, some gr1, some gc0, some gc1, some dy] =>
    match modeOfInt m with
    | some m => resOfOpt do
        if mask = 0 then some [none, none] else
        let y ← dy.l4.mapM (SFB2D_backward m gr0.l1 gr1.l1 gc0.l1 gc1.l1)
        some [if mask % 2 = 1 then some (ofL4 (y.map (·.1))) else none,
              if mask / 2 = 1 then some (ofL5 (y.map (·.2))) else none]
    | _ => .bad
  | "DWT1DForward", [m, J], [some h0, some h1, some x] =>
    match modeOfInt m with
    | some m => resOfOpt do
        let y ← x.l3.mapM (DWT1DForwardM m J.toNat h0.l1 h1.l1)
        let yl := ofL3 (y.map (·.1))
        let yh := (List.range J.toNat).map fun j => some (ofL3 (y.map fun r => r.2.getD j []))
        some (some yl :: yh)
    | _ => .bad
  | "DWT1DInverse", [m], some g0 :: some g1 :: some yl :: yh =>
    match modeOfInt m with
    | some m => resOfOpt do
        let y ← (List.range yl.l3.length).mapM fun i =>
          DWT1DInverse m g0.l1 g1.l1 (yl.l3.getD i []) (yh.map fun o => o.map fun t => t.l3.getD i [])
        some [some (ofL3 y)]
    | _ => .bad
  | "DWTForward", [m, J, nw], ts =>
    match modeOfInt m, ts.reverse with
    | some m, some x :: wrev => resOfOpt do
        let wave ← wrev.reverse.mapM fun o => o.map (·.l1)
        if wave.length ≠ nw.toNat then none
        let y ← x.l4.mapM (DWTForwardM m J.toNat wave)
        let yl := ofL4 (y.map (·.1))
        let yh := (List.range J.toNat).map fun j => some (ofL5 (y.map fun r => r.2.getD j []))
        some (some yl :: yh)
    | _, _ => .bad
  | "DWTInverse", [m, nw], ts =>
    match modeOfInt m with
    | some m => resOfOpt do
        let wave ← (ts.take nw.toNat).mapM fun o => o.map (·.l1)
        match ts.drop nw.toNat with
        | some yl :: yh =>
          let y ← (List.range yl.l4.length).mapM fun i =>
            DWTInverseM m wave (yl.l4.getD i []) (yh.map fun o => o.map fun t => t.l5.getD i [])
          some [some (ofL4 y)]
        | _ => none
    | _ => .bad
  | "SWTForward", [m, J, nw], ts =>
    match modeOfInt m, ts.reverse with
    | some m, some x :: wrev => resOfOpt do
        let wave ← wrev.reverse.mapM fun o => o.map (·.l1)
        if wave.length ≠ nw.toNat then none
        let y ← x.l4.mapM (SWTForwardM m J.toNat wave)
        some ((List.range J.toNat).map fun j => some (ofL5 (y.map fun r => r.getD j [])))
    | _, _ => .bad
  | "afb2d", [m], [some wc0, some wc1, some wr0, some wr1, some x] =>
    match modeOfInt m with
    | some m => resOfOpt do
        let y ← x.l4.mapM (afb2d m wc0.l1 wc1.l1 wr0.l1 wr1.l1)
        some [some (ofL4 y)]
    | _ => .bad
  | "afb2d_atrous", [m, d], [some wc0, some wc1, some wr0, some wr1, some x] =>
    match modeOfInt m with
    | some m => resOfOpt do
        let y ← x.l4.mapM (afb2dAtrous m d.toNat wc0.l1 wc1.l1 wr0.l1 wr1.l1)
        some [some (ofL4 y)]
    | _ => .bad
  | "sfb2d", [m], [some gc0, some gc1, some gr0, some gr1, some ll, some lh, some hl, some hh] =>
    match modeOfInt m with
    | some m => resOfOpt do
        let y ← (List.range ll.l4.length).mapM fun i =>
          sfb2d m gc0.l1 gc1.l1 gr0.l1 gr1.l1 (ll.l4.getD i []) (lh.l4.getD i []) (hl.l4.getD i []) (hh.l4.getD i [])
        some [some (ofL4 y)]
    | _ => .bad
  | "afb2d_nonsep", [m, _form], [some hc0, some hc1, some hr0, some hr1, some x] =>
    match modeOfInt m with
    | some m => resOfOpt do
        -- output (N, 4C, H', W'), channel 4c+k
        let y ← x.l4.mapM fun item => do
          let chans ← item.mapM (afb2dNonsepCh m hc0.l1 hc1.l1 hr0.l1 hr1.l1)
          some chans.flatten
        some [some (ofL4 y)]
    | _ => .bad
  | "sfb2d_nonsep", [m, _form], [some gc0, some gc1, some gr0, some gr1, some co] =>
    match modeOfInt m with
    | some m => resOfOpt do
        let dense := co.shape.getD 0 0 * co.shape.getD 1 0 == 1
        let y ← co.l5.mapM fun item => item.mapM (sfb2dNonsepCh m dense gc0.l1 gc1.l1 gr0.l1 gr1.l1)
        some [some (ofL4 y)]
    | _ => .bad
  /- specification ops (one signal / one image) -/
  | "spec_dwt", [m], [some h, some x] =>
    match modeOfInt m with
    | some m => .ok [some (ofL1 (Spec.dwt m h.l1 x.l1))]
    | _ => .bad
  | "spec_idwt", [m], [some g0, some g1, some lo, some hi] =>
    match modeOfInt m with
    | some m => .ok [some (ofL1 (Spec.idwt m g0.l1 g1.l1 lo.l1 hi.l1))]
    | _ => .bad
  | "spec_wavedec", [m, J], [some h0, some h1, some x] =>
    match modeOfInt m with
    | some m =>
      let r := Spec.wavedec m h0.l1 h1.l1 J.toNat x.l1
      .ok (some (ofL1 r.1) :: r.2.map fun d => some (ofL1 d))
    | _ => .bad
  | "spec_waverec", [m], some g0 :: some g1 :: some a :: ds =>
    match modeOfInt m with
    | some m => .ok [some (ofL1 (Spec.waverec m g0.l1 g1.l1 a.l1 (ds.map fun o => o.map (·.l1))))]
    | _ => .bad
  | "spec_wavedec2", [m, J], [some hc0, some hc1, some hr0, some hr1, some x] =>
    match modeOfInt m with
    | some m =>
      let r := Spec.wavedec2 m hc0.l1 hc1.l1 hr0.l1 hr1.l1 J.toNat x.l2
      .ok (some (ofL2 r.1) :: r.2.map fun d => some (ofL3 d))
    | _ => .bad
  | "spec_waverec2", [m], some gc0 :: some gc1 :: some gr0 :: some gr1 :: some a :: ds =>
    match modeOfInt m with
    | some m => .ok [some (ofL2 (Spec.waverec2 m gc0.l1 gc1.l1 gr0.l1 gr1.l1 a.l2 (ds.map fun o => o.map (·.l3))))]
    | _ => .bad
  | "spec_swt2", [J], [some hc0, some hc1, some hr0, some hr1, some x] =>
    .ok ((Spec.swt2 hc0.l1 hc1.l1 hr0.l1 hr1.l1 J.toNat 0 x.l2).map fun b => some (ofL3 b))
  | _, _, _ => .bad

end WV
