/-
  Line-protocol driver: one case per input line
      <K> <op> <int params…> | <tensor> | <tensor> | …
  K ∈ {Z, Q, F} selects the scalar type (Int, ℚ(√2), Float).  Output, one line
  per case:   ok | <tensor> | …      or      raise      or      bad <why>
-/
import Driver.Tensor
import Driver.OpsDwt
import Driver.OpsDtcwt
import Driver.OpsScat
import Driver.OpsCache
namespace WV

def runLine (α : Type) [Scalar α] (op : String) (ps : List Int) (rest : List String) : String :=
  match rest.mapM (parseT (α := α)) with
  | none => "bad tensor"
  | some ts =>
    match runDwt op ps ts with
    | .bad =>
      (match runDtcwt op ps ts with
       | .bad =>
         (match runScat op ps ts with
          | .bad => s!"bad op {op}"
          | .raise => "raise"
          | .ok outs => "ok" ++ String.join (outs.map fun o => " | " ++ (match o with | none => "none" | some t => renderT t)))
       | .raise => "raise"
       | .ok outs => "ok" ++ String.join (outs.map fun o => " | " ++ (match o with | none => "none" | some t => renderT t)))
    | .raise => "raise"
    | .ok outs => "ok" ++ String.join (outs.map fun o => " | " ++ (match o with | none => "none" | some t => renderT t))

def step (line : String) : String :=
  let parts := line.splitOn "|"
  let head := (parts.headD "").trimAscii.toString
  let toks := (head.splitOn " ").filter (· ≠ "")
  match toks with
  | k :: op :: ps =>
    match ps.mapM (·.toInt?) with
    | none => "bad params"
    | some psI =>
      if k = "Z" ∧ op = "cache_trace" then
        (match parts.tail.mapM (parseT (α := Int)) with
         | none => "bad tensor"
         | some ts => match runCache op psI ts with
           | .ok outs => "ok" ++ String.join (outs.map fun o => " | " ++ (match o with | none => "none" | some t => renderT t))
           | _ => "bad op cache")
      else if k = "Z" ∧ op = "dtype_path" then
        (match runDtype op psI with
         | .ok outs => "ok" ++ String.join (outs.map fun o => " | " ++ (match o with | none => "none" | some t => renderT t))
         | .raise => "raise"
         | .bad => "bad op dtype")
      else if k = "Z" then runLine Int op psI parts.tail
      else if k = "Q" then runLine Q2 op psI parts.tail
      else if k = "F" then runLine Float op psI parts.tail
      else "bad kind"
  | _ => "bad line"

partial def loop (h : IO.FS.Stream) (out : IO.FS.Stream) : IO Unit := do
  let line ← h.getLine
  if line.isEmpty then return ()
  if line.trimAscii.toString = "" then loop h out else
  out.putStrLn (step line)
  loop h out

end WV

def main : IO Unit := do
  let out ← IO.getStdout
  WV.loop (← IO.getStdin) out
  out.flush
