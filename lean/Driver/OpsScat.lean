import Driver.Tensor
import Driver.OpsDwt
import WaveletsVerif.Model.Scat
namespace WV
variable {α : Type} [Scalar α]

def magOps (bias : α) : MagOps α := ⟨Scalar.sqrt, Scalar.div, Scalar.s, Scalar.q, bias⟩

/-- ops of the scattering layers; filters arrive raw (table order) and are reversed like `prep_filt` -/
def runScat (op : String) (ps : List Int) (ts : List (Option (T α))) : Res α :=
  match op, ps, ts with
  | "ScatLayer", [sym, colour, 0], [some h0, some h1, some b, some x] => resOfOpt do
      let m := magOps (b.data.headD Scalar.zero)
      let y ← x.l4.mapM (ScatLayer m (sym ≠ 0) (prepFilt h0.l1) (prepFilt h1.l1) none (colour ≠ 0))
      some [some (ofL4 y)]
  | "ScatLayer", [sym, colour, 1], [some h0, some h1, some h2, some b, some x] => resOfOpt do
      let m := magOps (b.data.headD Scalar.zero)
      let y ← x.l4.mapM (ScatLayer m (sym ≠ 0) (prepFilt h0.l1) (prepFilt h1.l1) (some (prepFilt h2.l1)) (colour ≠ 0))
      some [some (ofL4 y)]
  | "ScatLayerj2", [sym, colour, 0], [some h0o, some h1o, some h0a, some h0b, some h1a, some h1b, some b, some x] => resOfOpt do
      let m := magOps (b.data.headD Scalar.zero)
      let f : Scat2Filters α := ⟨prepFilt h0o.l1, prepFilt h1o.l1, none, prepFilt h0a.l1, prepFilt h0b.l1, prepFilt h1a.l1, prepFilt h1b.l1, none⟩
      let y ← x.l4.mapM (ScatLayerj2 m (sym ≠ 0) f (colour ≠ 0))
      some [some (ofL4 y)]
  | "ScatLayerj2", [sym, colour, 1], [some h0o, some h1o, some h2o, some h0a, some h0b, some h1a, some h1b, some h2a, some h2b, some b, some x] => resOfOpt do
      let m := magOps (b.data.headD Scalar.zero)
      let f : Scat2Filters α := ⟨prepFilt h0o.l1, prepFilt h1o.l1, some (prepFilt h2o.l1), prepFilt h0a.l1, prepFilt h0b.l1,
        prepFilt h1a.l1, prepFilt h1b.l1, some (prepFilt h2a.l1, prepFilt h2b.l1)⟩
      let y ← x.l4.mapM (ScatLayerj2 m (sym ≠ 0) f (colour ≠ 0))
      some [some (ofL4 y)]
  | "ScatJ1_bwd", [sym, 0], [some h0, some h1, some b, some x, some dz] => resOfOpt do
      let m := magOps (b.data.headD Scalar.zero)
      let y ← (List.range x.l4.length).mapM fun n =>
        scatJ1Backward m (sym ≠ 0) (prepFilt h0.l1) (prepFilt h1.l1) none (x.l4.getD n []) (dz.l4.getD n [])
      some [some (ofL4 y)]
  | "ScatJ1_bwd", [sym, 1], [some h0, some h1, some h2, some b, some x, some dz] => resOfOpt do
      let m := magOps (b.data.headD Scalar.zero)
      let y ← (List.range x.l4.length).mapM fun n =>
        scatJ1Backward m (sym ≠ 0) (prepFilt h0.l1) (prepFilt h1.l1) (some (prepFilt h2.l1)) (x.l4.getD n []) (dz.l4.getD n [])
      some [some (ofL4 y)]
  | "ScatJ2_bwd", [0], [some h0o, some h1o, some h0a, some h0b, some h1a, some h1b, some b, some x, some dz] => resOfOpt do
      let m := magOps (b.data.headD Scalar.zero)
      let f : Scat2Filters α := ⟨prepFilt h0o.l1, prepFilt h1o.l1, none, prepFilt h0a.l1, prepFilt h0b.l1, prepFilt h1a.l1, prepFilt h1b.l1, none⟩
      let y ← (List.range x.l4.length).mapM fun n => scatJ2Backward m f (x.l4.getD n []) (dz.l4.getD n [])
      some [some (ofL4 y)]
  | "ScatJ2_bwd", [1], [some h0o, some h1o, some h2o, some h0a, some h0b, some h1a, some h1b, some h2a, some h2b, some b, some x, some dz] => resOfOpt do
      let m := magOps (b.data.headD Scalar.zero)
      let f : Scat2Filters α := ⟨prepFilt h0o.l1, prepFilt h1o.l1, some (prepFilt h2o.l1), prepFilt h0a.l1, prepFilt h0b.l1,
        prepFilt h1a.l1, prepFilt h1b.l1, some (prepFilt h2a.l1, prepFilt h2b.l1)⟩
      let y ← (List.range x.l4.length).mapM fun n => scatJ2Backward m f (x.l4.getD n []) (dz.l4.getD n [])
      some [some (ofL4 y)]
  | _, _, _ => .bad

end WV
