import WaveletsVerif.Model.Core
import WaveletsVerif.Model.Torch
import WaveletsVerif.Model.Dwt
