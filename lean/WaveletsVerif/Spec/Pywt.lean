/-
  Specification: PyWavelets' `dwt / idwt / wavedec / waverec / dwt2 / idwt2 /
  wavedec2 / waverec2 / swt / swt2` written as closed index formulas over the
  un-reversed wavelet filters (`dec_lo, dec_hi`, `rec_lo, rec_hi`).
  Validated against PyWavelets itself by the oracle correspondence
  (`harness`, op family `spec_*`).  Mathlib-free, executable.
-/
import WaveletsVerif.Model.Dwt
namespace WV
namespace Spec

variable {α : Type}

/-- signal extension of PyWavelets' modes `zero, symmetric, reflect, periodic` -/
def ext [OfNat α 0] (m : Mode) (x : List α) (i : Int) : α :=
  match m with
  | .symmetric => getZ x (symIdx x.length i)
  | .reflect => getZ x (reflIdxP x.length i)
  | .periodic => getZ x (perIdx x.length i)
  | _ => getZ x i

/-- `pywt.dwt(x, wavelet, mode)` for one filter `h` (`dec_lo` or `dec_hi`) -/
def dwt [Add α] [Mul α] [OfNat α 0] (m : Mode) (h x : List α) : List α :=
  match m with
  | .periodization =>
    let x' := if x.length % 2 = 1 then x ++ [getN x (x.length - 1)] else x
    let M := x'.length
    tab (M / 2) fun k => sumN h.length fun j =>
      getN h j * getZ x' ((2*(k:Int) + ((h.length/2 : Nat) : Int) - j) % (M : Int))
  | _ =>
    tab (dwtCoeffLen x.length h.length) fun k => sumN h.length fun j =>
      getN h j * ext m x (2*(k:Int) + 1 - j)

/-- `pywt.idwt(lo, hi, wavelet, mode)` with `g0 = rec_lo`, `g1 = rec_hi` -/
def idwt [Add α] [Mul α] [OfNat α 0] (m : Mode) (g0 g1 lo hi : List α) : List α :=
  let n := lo.length
  let L := g0.length
  match m with
  | .periodization =>
    let N := 2 * n
    let full : Int → α := fun t =>
      if t < 0 ∨ (N + L - 2 : Nat) ≤ t then 0 else
      sumN n fun k => getN lo k * getZ g0 (t - 2*k) + getN hi k * getZ g1 (t - 2*k)
    let fold : Int → α := fun u => sumN ((N + L - 2) / N + 1) fun r => full (u + r * N)
    tab N fun u => fold (((u:Int) + ((L/2 : Nat):Int) - 1) % (N:Int))
  | _ =>
    tab (2*n + 2 - L) fun t => sumN n fun k =>
      getN lo k * getZ g0 ((t:Int) + L - 2 - 2*k) + getN hi k * getZ g1 ((t:Int) + L - 2 - 2*k)

/-- `pywt.wavedec(x, wavelet, mode, level=J)` in the library's order: `(cA_J, [cD_1, …, cD_J])` -/
def wavedec [Add α] [Mul α] [OfNat α 0] (m : Mode) (h0 h1 : List α) :
    Nat → List α → List α × List (List α)
  | 0, x => (x, [])
  | J+1, x =>
    let r := wavedec m h0 h1 J (dwt m h0 x)
    (r.1, dwt m h1 x :: r.2)

/-- `pywt.waverec`: coarsest first internally; a `none` detail is a level of zeros; a
one-sample-longer approximation is un-padded. `ds` is finest first. -/
def waverec [Add α] [Mul α] [OfNat α 0] (m : Mode) (g0 g1 : List α) (a : List α)
    (ds : List (Option (List α))) : List α :=
  ds.reverse.foldl (fun a d =>
    let dv := match d with
      | some v => v
      | none => a.map fun _ => (0:α)
    let a' := if a.length = dv.length + 1 then a.take (a.length - 1) else a
    idwt m g0 g1 a' dv) a

/-- apply a 1-D map along the rows / the columns of an image -/
def rowsMap (f : List α → List α) (x : Img α) : Img α := x.map f
def colsMap [OfNat α 0] (f : List α → List α) (x : Img α) : Img α := tr ((tr x).map f)

/-- `pywt.dwt2(x, (wavelet_axis0, wavelet_axis1), mode)`: `(cA, cH, cV, cD)`;
`hc*` filters act along axis 0 (vertical, H), `hr*` along axis 1 (horizontal, W) -/
def dwt2 [Add α] [Mul α] [OfNat α 0] (m : Mode) (hc0 hc1 hr0 hr1 : List α) (x : Img α) :
    Img α × Img α × Img α × Img α :=
  let lo := rowsMap (dwt m hr0) x
  let hi := rowsMap (dwt m hr1) x
  (colsMap (dwt m hc0) lo, colsMap (dwt m hc1) lo, colsMap (dwt m hc0) hi, colsMap (dwt m hc1) hi)

/-- `pywt.wavedec2` in the library's order: `(cA_J, [(cH,cV,cD)_1, …, (cH,cV,cD)_J])` -/
def wavedec2 [Add α] [Mul α] [OfNat α 0] (m : Mode) (hc0 hc1 hr0 hr1 : List α) :
    Nat → Img α → Img α × List (List (Img α))
  | 0, x => (x, [])
  | J+1, x =>
    let (cA, cH, cV, cD) := dwt2 m hc0 hc1 hr0 hr1 x
    let r := wavedec2 m hc0 hc1 hr0 hr1 J cA
    (r.1, [cH, cV, cD] :: r.2)

def zip2 (f : List α → List α → List α) [OfNat α 0] (a b : Img α) : Img α :=
  tab a.length fun i => f (a.getD i []) (b.getD i [])

/-- `pywt.idwt2((cA, (cH, cV, cD)), (wavelet_axis0, wavelet_axis1), mode)` -/
def idwt2 [Add α] [Mul α] [OfNat α 0] (m : Mode) (gc0 gc1 gr0 gr1 : List α)
    (cA cH cV cD : Img α) : Img α :=
  let lo := tr (zip2 (idwt m gc0 gc1) (tr cA) (tr cH))
  let hi := tr (zip2 (idwt m gc0 gc1) (tr cV) (tr cD))
  zip2 (idwt m gr0 gr1) lo hi

/-- `pywt.waverec2`, details finest first, `none` = zeros, un-pad rule per axis -/
def waverec2 [Add α] [Mul α] [OfNat α 0] (m : Mode) (gc0 gc1 gr0 gr1 : List α) (a : Img α)
    (ds : List (Option (List (Img α)))) : Img α :=
  ds.reverse.foldl (fun (a : Img α) d =>
    let dv : List (Img α) := match d with
      | some v => v
      | none => [izero a.length a.width, izero a.length a.width, izero a.length a.width]
    let d0 := dv.getD 0 []
    let a1 : Img α := if a.length = d0.length + 1 then a.take (a.length - 1) else a
    let a2 := if a1.width = d0.width + 1 then a1.map (fun r => r.take (r.length - 1)) else a1
    idwt2 m gc0 gc1 gr0 gr1 a2 d0 (dv.getD 1 []) (dv.getD 2 [])) a

/-- one level of `pywt.swt` with the filter dilated by `d`: circular correlation -/
def swt [Add α] [Mul α] [OfNat α 0] (h x : List α) (d : Nat) : List α :=
  tab x.length fun k => sumN h.length fun i =>
    getN h i * getZ x (((k:Int) + (d:Int) * (((h.length/2 : Nat):Int) - i)) % (x.length : Int))

/-- `pywt.swt2` level `j` (dilation `2^j`, j from 0) given the level's input; `(A, H, V, D)` -/
def swt2Level [Add α] [Mul α] [OfNat α 0] (hc0 hc1 hr0 hr1 : List α) (d : Nat) (x : Img α) :
    List (Img α) :=
  let lo := rowsMap (fun r => swt hr0 r d) x
  let hi := rowsMap (fun r => swt hr1 r d) x
  [colsMap (fun c => swt hc0 c d) lo, colsMap (fun c => swt hc1 c d) lo,
   colsMap (fun c => swt hc0 c d) hi, colsMap (fun c => swt hc1 c d) hi]

/-- `pywt.swt2(x, wavelet, level=J)`, finest level first -/
def swt2 [Add α] [Mul α] [OfNat α 0] (hc0 hc1 hr0 hr1 : List α) : Nat → Nat → Img α → List (List (Img α))
  | 0, _, _ => []
  | J+1, j, x =>
    let b := swt2Level hc0 hc1 hr0 hr1 (2^j) x
    b :: swt2 hc0 hc1 hr0 hr1 J (j+1) (b.getD 0 [])

end Spec
end WV
