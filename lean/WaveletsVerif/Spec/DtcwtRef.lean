/-
  Specification: closed index formulas of the reference `dtcwt.numpy.lowlevel`
  column filters over the *un-reversed* table filters, with the half-sample
  symmetric extension `x̃(i) = x[symIdx r i]`.  Validated against the numpy
  `dtcwt` package by the oracle correspondence (`harness/props/c03.py`,
  `spec_colfilter` / `spec_coldfilt` / `spec_colifilt` ops).  Mathlib-free.
-/
import WaveletsVerif.Model.Dtcwt
namespace WV
namespace Spec
variable {α : Type}

/-- symmetric extension read -/
def xt [OfNat α 0] (x : List α) (i : Int) : α := getZ x (symIdx x.length i)

/-- reference `colfilter(X, h)` on one column: true convolution with the odd- or even-length `h`,
output length `r + 2⌊L/2⌋ − L + 1` -/
def colfilter [Add α] [Mul α] [OfNat α 0] (h x : List α) : List α :=
  let L := h.length
  tab (x.length + 2*(L/2) + 1 - L) fun i => sumN L fun j =>
    getN h j * xt x ((i:Int) + ((L - 1 - j : Nat):Int) - ((L/2 : Nat):Int))

/-- reference `coldfilt(X, ha, hb)` on one column (length a multiple of 4): the two trees
`a v = Σ_j ha[m−1−j]·x̃(4v+2j+2−m)`, `b v = Σ_j hb[m−1−j]·x̃(4v+2j+3−m)` interleaved,
tree b first when `highpass` -/
def coldfilt [Add α] [Mul α] [OfNat α 0] (ha hb : List α) (highpass : Bool) (x : List α) : List α :=
  let m := ha.length
  let a := fun (v : Nat) => sumN m fun j => getN ha (m - 1 - j) * xt x (4*(v:Int) + 2*(j:Int) + 2 - (m:Int))
  let b := fun (v : Nat) => sumN m fun j => getN hb (m - 1 - j) * xt x (4*(v:Int) + 2*(j:Int) + 3 - (m:Int))
  tab (x.length / 2) fun i =>
    if i % 2 = 0 then (if highpass then b (i/2) else a (i/2)) else (if highpass then a (i/2) else b (i/2))

end Spec
end WV

namespace WV
namespace Spec
variable {α : Type}

/-- reference `colifilt(X, ha, hb)` on one column of even length `r`: output length `2r`, rows `4v…4v+3`
from four poly-phase branches (raw, un-reversed filters; `m/2` even or odd decides the branch order and the
sample phases; `highpass` exchanges the phases within each pair) -/
def colifilt [Add α] [Mul α] [OfNat α 0] (ha hb : List α) (highpass : Bool) (x : List α) : List α :=
  let m := ha.length
  let m2 := m / 2
  let br := fun (h : List α) (tapOff : Nat) (phase : Int) (v : Nat) =>
    sumN m2 fun j => getN h (m - tapOff - 2*j) * xt x (2*((v:Int) + j) + phase - (m2:Int))
  tab (2 * x.length) fun i =>
    let v := i / 4
    if m2 % 2 = 0 then
      match i % 4 with
      | 0 => br ha 1 (if highpass then 1 else 0) v
      | 1 => br hb 1 (if highpass then 0 else 1) v
      | 2 => br ha 2 (if highpass then 3 else 2) v
      | _ => br hb 2 (if highpass then 2 else 3) v
    else
      match i % 4 with
      | 0 => br ha 2 (if highpass then 2 else 1) v
      | 1 => br hb 2 (if highpass then 1 else 2) v
      | 2 => br ha 1 (if highpass then 2 else 1) v
      | _ => br hb 1 (if highpass then 1 else 2) v

end Spec
end WV

/-! ### the reference forward pyramid (`dtcwt.numpy.Transform2d.forward`), one channel

The reference filters the COLUMNS first (`Lo = colfilter(X, h0o).T`), then the rows; odd sizes are extended by a
repeated row / column, and from level 2 on the low-pass is padded to a multiple of 4 with a repeated border.  The
`highpass` flags of `coldfilt` are written explicitly (the reference derives them from the sign of `Σ ha·hb`). -/
namespace WV
namespace Spec
variable {α : Type}

def refLevel1 [Add α] [Sub α] [Mul α] [OfNat α 0] (s : α) (h0o h1o : List α) (x : Img α) : Img α × List (Cplx α) :=
  let Lo := alongH (colfilter h0o) x
  let Hi := alongH (colfilter h1o) x
  (alongW (colfilter h0o) Lo,
   highsToOrientations s (alongW (colfilter h0o) Hi) (alongW (colfilter h1o) Lo) (alongW (colfilter h1o) Hi))

def refLevel2 [Add α] [Sub α] [Mul α] [OfNat α 0] (s : α) (h0a h0b h1a h1b : List α) (x : Img α) : Img α × List (Cplx α) :=
  let Lo := alongH (coldfilt h0b h0a false) x
  let Hi := alongH (coldfilt h1b h1a true) x
  (alongW (coldfilt h0b h0a false) Lo,
   highsToOrientations s (alongW (coldfilt h0b h0a false) Hi) (alongW (coldfilt h1b h1a true) Lo)
     (alongW (coldfilt h1b h1a true) Hi))

/-- level 1 with a band-pass diagonal filter `h2o` (six-filter `biort` sets such as `near_sym_b_bp`): the diagonal pair comes from
`h2o` on columns and rows instead of `h1o` twice -/
def refLevel1Rot [Add α] [Sub α] [Mul α] [OfNat α 0] (s : α) (h0o h1o h2o : List α) (x : Img α) : Img α × List (Cplx α) :=
  let Lo := alongH (colfilter h0o) x
  let Hi := alongH (colfilter h1o) x
  let Ba := alongH (colfilter h2o) x
  (alongW (colfilter h0o) Lo,
   highsToOrientations s (alongW (colfilter h0o) Hi) (alongW (colfilter h1o) Lo) (alongW (colfilter h2o) Ba))

/-- a level ≥ 2 with band-pass diagonal filters `h2a`, `h2b` (twelve-filter `qshift` sets such as `qshift_b_bp`) -/
def refLevel2Rot [Add α] [Sub α] [Mul α] [OfNat α 0] (s : α) (h0a h0b h1a h1b h2a h2b : List α) (x : Img α) : Img α × List (Cplx α) :=
  let Lo := alongH (coldfilt h0b h0a false) x
  let Hi := alongH (coldfilt h1b h1a true) x
  let Ba := alongH (coldfilt h2b h2a true) x
  (alongW (coldfilt h0b h0a false) Lo,
   highsToOrientations s (alongW (coldfilt h0b h0a false) Hi) (alongW (coldfilt h1b h1a true) Lo)
     (alongW (coldfilt h2b h2a true) Ba))

/-- levels 2 … : `n` more levels from the low-pass `low` -/
def refLoop [Add α] [Sub α] [Mul α] [OfNat α 0] (s : α) (h0a h0b h1a h1b : List α) :
    Nat → Img α → Img α × List (List (Cplx α))
  | 0, low => (low, [])
  | n+1, low =>
    let r1 := refLevel2 s h0a h0b h1a h1b (extendMult4 low)
    let r := refLoop s h0a h0b h1a h1b n r1.1
    (r.1, r1.2 :: r.2)

/-- `Transform2d.forward(x, nlevels = n+1)`: final low-pass and the six complex bands of every level, finest first -/
def refForward [Add α] [Sub α] [Mul α] [OfNat α 0] (s : α) (h0o h1o h0a h0b h1a h1b : List α) (n : Nat) (x : Img α) :
    Img α × List (List (Cplx α)) :=
  let r1 := refLevel1 s h0o h1o (extendEven x)
  let r := refLoop s h0a h0b h1a h1b n r1.1
  (r.1, r1.2 :: r.2)

end Spec
end WV

/-! ### the reference inverse pyramid (`dtcwt.numpy.Transform2d.inverse`), one channel, every level present

Coarse to fine; at each level ≥ 2 the columns are synthesised first, then the rows, and the result is cropped `[1:-1]`
per axis when it is larger than twice the next finer band (the padding the forward pass added). -/
namespace WV
namespace Spec
variable {α : Type}

def refInvLevel2 [Add α] [Sub α] [Neg α] [Mul α] [OfNat α 0] (s : α) (g0a g0b g1a g1b : List α) (Z : Img α)
    (o : List (Cplx α)) : Img α :=
  let (lh, hl, hh) := orientationsToHighs s o
  let y1 := iadd (alongH (colifilt g0b g0a false) Z) (alongH (colifilt g1b g1a true) lh)
  let y2 := iadd (alongH (colifilt g0b g0a false) hl) (alongH (colifilt g1b g1a true) hh)
  iadd (alongW (colifilt g0b g0a false) y1) (alongW (colifilt g1b g1a true) y2)

def refInvLevel1 [Add α] [Sub α] [Neg α] [Mul α] [OfNat α 0] (s : α) (g0o g1o : List α) (Z : Img α)
    (o : List (Cplx α)) : Img α :=
  let (lh, hl, hh) := orientationsToHighs s o
  let y1 := iadd (alongH (colfilter g0o) Z) (alongH (colfilter g1o) lh)
  let y2 := iadd (alongH (colfilter g0o) hl) (alongH (colfilter g1o) hh)
  iadd (alongW (colfilter g0o) y1) (alongW (colfilter g1o) y2)

/-- everything coarser than `finer` synthesised and cropped to twice the size of `finer`;
`coarser` = the levels above `finer`, finest first -/
def refInvGo [Add α] [Sub α] [Neg α] [Mul α] [OfNat α 0] (s : α) (g0a g0b g1a g1b : List α) :
    List (Cplx α) → List (List (Cplx α)) → Img α → Img α
  | _, [], Z => Z
  | finer, b :: rest, Z =>
    let Z' := refInvGo s g0a g0b g1a g1b b rest Z
    let Y := refInvLevel2 s g0a g0b g1a g1b Z' b
    cropToHighs Y (bandSize finer).1 (bandSize finer).2

/-- `Transform2d.inverse` on `(low, [level 1, level 2, …])` -/
def refInverse [Add α] [Sub α] [Neg α] [Mul α] [OfNat α 0] (s : α) (g0o g1o g0a g0b g1a g1b : List α) (low : Img α) :
    List (List (Cplx α)) → Img α
  | [] => low
  | b1 :: rest => refInvLevel1 s g0o g1o (refInvGo s g0a g0b g1a g1b b1 rest low) b1

end Spec
end WV
