/-
  Specification: closed index formulas of the reference `dtcwt.numpy.lowlevel`
  column filters over the *un-reversed* table filters, with the half-sample
  symmetric extension `x̃(i) = x[symIdx r i]`.  Validated against the numpy
  `dtcwt` package by the oracle correspondence (`harness/props/c03.py`,
  `spec_colfilter` / `spec_coldfilt` / `spec_colifilt` ops).  Mathlib-free.
-/
import WaveletsVerif.Model.Dtcwt
namespace WV
namespace Spec
variable {α : Type}

/-- symmetric extension read -/
def xt [OfNat α 0] (x : List α) (i : Int) : α := getZ x (symIdx x.length i)

/-- reference `colfilter(X, h)` on one column: true convolution with the odd- or even-length `h`,
output length `r + 2⌊L/2⌋ − L + 1` -/
def colfilter [Add α] [Mul α] [OfNat α 0] (h x : List α) : List α :=
  let L := h.length
  tab (x.length + 2*(L/2) + 1 - L) fun i => sumN L fun j =>
    getN h j * xt x ((i:Int) + ((L - 1 - j : Nat):Int) - ((L/2 : Nat):Int))

/-- reference `coldfilt(X, ha, hb)` on one column (length a multiple of 4): the two trees
`a v = Σ_j ha[m−1−j]·x̃(4v+2j+2−m)`, `b v = Σ_j hb[m−1−j]·x̃(4v+2j+3−m)` interleaved,
tree b first when `highpass` -/
def coldfilt [Add α] [Mul α] [OfNat α 0] (ha hb : List α) (highpass : Bool) (x : List α) : List α :=
  let m := ha.length
  let a := fun (v : Nat) => sumN m fun j => getN ha (m - 1 - j) * xt x (4*(v:Int) + 2*(j:Int) + 2 - (m:Int))
  let b := fun (v : Nat) => sumN m fun j => getN hb (m - 1 - j) * xt x (4*(v:Int) + 2*(j:Int) + 3 - (m:Int))
  tab (x.length / 2) fun i =>
    if i % 2 = 0 then (if highpass then b (i/2) else a (i/2)) else (if highpass then a (i/2) else b (i/2))

end Spec
end WV

namespace WV
namespace Spec
variable {α : Type}

/-- reference `colifilt(X, ha, hb)` on one column of even length `r`: output length `2r`, rows `4v…4v+3`
from four poly-phase branches (raw, un-reversed filters; `m/2` even or odd decides the branch order and the
sample phases; `highpass` exchanges the phases within each pair) -/
def colifilt [Add α] [Mul α] [OfNat α 0] (ha hb : List α) (highpass : Bool) (x : List α) : List α :=
  let m := ha.length
  let m2 := m / 2
  let br := fun (h : List α) (tapOff : Nat) (phase : Int) (v : Nat) =>
    sumN m2 fun j => getN h (m - tapOff - 2*j) * xt x (2*((v:Int) + j) + phase - (m2:Int))
  tab (2 * x.length) fun i =>
    let v := i / 4
    if m2 % 2 = 0 then
      match i % 4 with
      | 0 => br ha 1 (if highpass then 1 else 0) v
      | 1 => br hb 1 (if highpass then 0 else 1) v
      | 2 => br ha 2 (if highpass then 3 else 2) v
      | _ => br hb 2 (if highpass then 2 else 3) v
    else
      match i % 4 with
      | 0 => br ha 2 (if highpass then 2 else 1) v
      | 1 => br hb 2 (if highpass then 1 else 2) v
      | 2 => br ha 1 (if highpass then 2 else 1) v
      | _ => br hb 1 (if highpass then 1 else 2) v

end Spec
end WV
