/-
  Inner-product (adjointness) lemmas: zero-extended reads as indicator sums,
  the re-indexing lemma behind "strided correlation ↔ transposed convolution".
-/
import WaveletsVerif.Lemmas.Basic
namespace WV
open Finset
variable {R : Type} [CommRing R]

theorem getZ_eq_sum (x : List R) (t : Int) :
    getZ x t = ∑ i ∈ range x.length, if (i:Int) = t then getN x i else 0 := by
  by_cases h : 0 ≤ t ∧ t < x.length
  · obtain ⟨h0, h1⟩ := h
    have hm : t.toNat ∈ range x.length := by simp; omega
    rw [Finset.sum_eq_single_of_mem t.toNat hm]
    · have : ((t.toNat : Nat) : Int) = t := by omega
      simp [this, getZ, getN, h0]
    · intro b _ hb
      have : ¬ ((b:Int) = t) := by omega
      simp [this]
  · have hz : getZ x t = 0 := by
      by_cases h0 : 0 ≤ t
      · exact getZ_of_ge x t (by omega)
      · exact getZ_neg x t (by omega)
    rw [hz]
    symm
    apply Finset.sum_eq_zero
    intro i hi
    have : i < x.length := by simpa using hi
    have : ¬ ((i:Int) = t) := by omega
    simp [this]

/-- `Σ_j w_j · x̃(j + c) = Σ_i x_i · w̃(i − c)` (both zero-extended) -/
theorem reindex (w x : List R) (c : Int) :
    ∑ j ∈ range w.length, getN w j * getZ x ((j:Int) + c)
      = ∑ i ∈ range x.length, getN x i * getZ w ((i:Int) - c) := by
  have h1 : ∀ j ∈ range w.length, getN w j * getZ x ((j:Int) + c)
      = ∑ i ∈ range x.length, if (i:Int) = (j:Int) + c then getN w j * getN x i else 0 := by
    intro j _
    rw [getZ_eq_sum, Finset.mul_sum]
    apply Finset.sum_congr rfl; intro i _
    split <;> simp
  have h2 : ∀ i ∈ range x.length, getN x i * getZ w ((i:Int) - c)
      = ∑ j ∈ range w.length, if (i:Int) = (j:Int) + c then getN w j * getN x i else 0 := by
    intro i _
    rw [getZ_eq_sum, Finset.mul_sum]
    apply Finset.sum_congr rfl; intro j _
    by_cases h : (j:Int) = (i:Int) - c
    · have : (i:Int) = (j:Int) + c := by omega
      rw [if_pos h, if_pos this]; ring
    · have : ¬ ((i:Int) = (j:Int) + c) := by omega
      rw [if_neg h, if_neg this]; simp
  rw [Finset.sum_congr rfl h1, Finset.sum_congr rfl h2, Finset.sum_comm]

end WV
