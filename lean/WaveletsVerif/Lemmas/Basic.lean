/-
  Helper lemmas about the core vocabulary (`tab`, `sumN`, `getZ`, `getN`,
  `zeroPad`, `padIdx`, `corr`, reversal).  Helper lemmas only: property theorems
  live in `WaveletsVerif/Properties`.
-/
import WaveletsVerif.Model.Dwt
import WaveletsVerif.Spec.Pywt
import Mathlib.Algebra.BigOperators.Group.Finset.Basic
import Mathlib.Algebra.BigOperators.Intervals
import Mathlib.Algebra.BigOperators.Ring.Finset
import Mathlib.Tactic.Ring
import Mathlib.Tactic.Linarith

namespace WV
open Finset
variable {R : Type} [CommRing R]

theorem sumN_eq (n : Nat) (f : Nat → R) : sumN n f = ∑ i ∈ range n, f i := by
  induction n with
  | zero => simp [sumN]
  | succ n ih => simp [sumN, ih, Finset.sum_range_succ]

@[simp] theorem length_tab {α : Type} (n : Nat) (f : Nat → α) : (tab n f).length = n := by
  simp [tab]

theorem getD_tab {α : Type} (n : Nat) (f : Nat → α) (i : Nat) (d : α) :
    (tab n f).getD i d = if i < n then f i else d := by
  unfold tab
  by_cases h : i < n <;> simp [List.getD, h]

theorem getN_tab (n : Nat) (f : Nat → R) (i : Nat) :
    getN (tab n f) i = if i < n then f i else 0 := by
  unfold getN; exact getD_tab n f i 0

theorem tab_ext {α : Type} {n m : Nat} {f g : Nat → α} (hnm : n = m) (h : ∀ i < n, f i = g i) :
    tab n f = tab m g := by
  subst hnm
  unfold tab
  apply List.map_congr_left
  intro i hi
  exact h i (by simpa using hi)

theorem getZ_tab (n : Nat) (f : Nat → R) (i : Int) :
    getZ (tab n f) i = if 0 ≤ i ∧ i < n then f i.toNat else 0 := by
  unfold getZ
  by_cases h0 : 0 ≤ i
  · simp only [h0, if_true, true_and, getD_tab]
    have : (i.toNat < n) ↔ i < n := by omega
    simp [this]
  · simp [h0]

theorem getN_eq_getZ (x : List R) (i : Nat) : getN x i = getZ x (i : Int) := by
  simp [getZ, getN]

theorem getZ_of_ge (x : List R) (i : Int) (h : (x.length : Int) ≤ i) : getZ x i = 0 := by
  unfold getZ
  split
  · have : x.length ≤ i.toNat := by omega
    simp [List.getD, this]
  · rfl

theorem getZ_neg (x : List R) (i : Int) (h : i < 0) : getZ x i = 0 := by
  unfold getZ; simp; omega

theorem getZ_zeroPad (x : List R) (l r : Nat) (i : Int) :
    getZ (zeroPad x l r) i = getZ x (i - l) := by
  by_cases hi : i < (l + x.length + r : Nat)
  · unfold zeroPad
    rw [getZ_tab]
    by_cases h0 : 0 ≤ i
    · have : i < ((l + x.length + r : Nat) : Int) := by exact_mod_cast hi
      simp only [h0, this, and_self, if_true]
      congr 1
      omega
    · have : ¬ (0 ≤ i - l) := by omega
      simp only [h0, false_and, if_false, getZ, this]
  · rw [getZ_of_ge, getZ_of_ge]
    · push_cast at hi ⊢; omega
    · simp [zeroPad]; push_cast at hi ⊢; omega

@[simp] theorem length_zeroPad (x : List R) (l r : Nat) : (zeroPad x l r).length = l + x.length + r := by
  simp [zeroPad]

@[simp] theorem length_padIdx (idx : Int → Int → Int) (x : List R) (l r : Nat) :
    (padIdx idx x l r).length = l + x.length + r := by
  simp [padIdx]

theorem getZ_padIdx (idx : Int → Int → Int) (x : List R) (l r : Nat) (i : Int)
    (h0 : 0 ≤ i) (h1 : i < (l + x.length + r : Nat)) :
    getZ (padIdx idx x l r) i = getZ x (idx x.length (i - l)) := by
  unfold padIdx
  rw [getZ_tab]
  have : i < ((l + x.length + r : Nat) : Int) := by exact_mod_cast h1
  simp only [h0, this, and_self, if_true]
  congr 2
  omega

theorem getN_reverse (h : List R) (j : Nat) (hj : j < h.length) :
    getN h.reverse (h.length - 1 - j) = getN h j := by
  unfold getN
  rw [List.getD_eq_getElem?_getD, List.getD_eq_getElem?_getD, List.getElem?_reverse (by omega)]
  congr 2; omega

theorem corr_length (w x : List R) (s d : Nat) :
    (corr w x s d).length = corrLen x.length w.length s d := by
  simp [corr]

/-- element formula of a stride-2, dilation-1 correlation -/
theorem getN_corr2 (w y : List R) (k : Nat) (hk : k < corrLen y.length w.length 2 1) :
    getN (corr w y 2 1) k = ∑ j ∈ range w.length, getN w j * getZ y ((2*k + j : Nat) : Int) := by
  unfold corr
  rw [getN_tab]; simp only [hk, if_true]
  rw [sumN_eq]
  apply Finset.sum_congr rfl; intro j _
  rw [getN_eq_getZ y]; simp

/-- element formula of a stride-1 correlation with dilation `d` -/
theorem getN_corr1 (w y : List R) (d k : Nat) (hk : k < corrLen y.length w.length 1 d) :
    getN (corr w y 1 d) k = ∑ j ∈ range w.length, getN w j * getZ y ((k + d*j : Nat) : Int) := by
  unfold corr
  rw [getN_tab]; simp only [hk, if_true]
  rw [sumN_eq]
  apply Finset.sum_congr rfl; intro j _
  rw [getN_eq_getZ y]; simp

theorem getN_convT (w g : List R) (P i : Nat) (hi : i < (2*(g.length-1) + w.length) - 2*P) :
    getN (convT w g P) i = ∑ k ∈ range g.length, getN g k * getZ w ((i:Int) + P - 2*k) := by
  unfold convT convTFull
  simp only [length_tab]
  rw [getN_tab]
  simp only [hi, if_true]
  rw [getN_tab]
  have : i + P < 2*(g.length-1) + w.length := by omega
  simp only [this, if_true]
  rw [sumN_eq]
  apply Finset.sum_congr rfl; intro k _
  congr 2


theorem getN_vadd (x y : List R) (i : Nat) (hi : i < x.length) : getN (vadd x y) i = getN x i + getN y i := by
  unfold vadd; rw [getN_tab]; simp [hi]

theorem getN_take (x : List R) (n i : Nat) (hi : i < n) : getN (x.take n) i = getN x i := by
  unfold getN
  rw [List.getD_eq_getElem?_getD, List.getD_eq_getElem?_getD, List.getElem?_take]
  simp [hi]

/-! ### index maps -/

theorem symIdx_range (l x : Int) (hl : 0 < l) : 0 ≤ symIdx l x ∧ symIdx l x < l := by
  unfold symIdx
  have h1 := Int.emod_nonneg x (by omega : (2*l) ≠ 0)
  have h2 := Int.emod_lt_of_pos x (by omega : 0 < 2*l)
  simp only
  split <;> omega

theorem symIdx_id (l x : Int) (h0 : 0 ≤ x) (h1 : x < l) : symIdx l x = x := by
  unfold symIdx
  have : x % (2*l) = x := Int.emod_eq_of_lt h0 (by omega)
  simp [this, h1]

theorem symIdx_period (l x : Int) : symIdx l (x + 2*l) = symIdx l x := by
  unfold symIdx
  simp [Int.add_emod_right]

theorem neg_emod_aux (m x : Int) (hm : 0 < m) : (-1 - x) % m = m - 1 - x % m := by
  have h1 := Int.emod_nonneg x (by omega : m ≠ 0)
  have h2 := Int.emod_lt_of_pos x hm
  have hx : x = m * (x / m) + x % m := (Int.mul_ediv_add_emod x m).symm
  have : -1 - x = (m - 1 - x % m) + m * (-(x / m) - 1) := by
    conv_lhs => rw [hx]
    ring
  rw [this, Int.add_mul_emod_self_left]
  exact Int.emod_eq_of_lt (by omega) (by omega)

theorem symIdx_reflect (l x : Int) (hl : 0 < l) : symIdx l (-1 - x) = symIdx l x := by
  unfold symIdx
  rw [neg_emod_aux (2*l) x (by omega)]
  have h1 := Int.emod_nonneg x (by omega : (2*l) ≠ 0)
  have h2 := Int.emod_lt_of_pos x (by omega : 0 < 2*l)
  simp only
  split <;> split <;> omega

end WV
