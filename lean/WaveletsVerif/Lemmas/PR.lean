/-
  Perfect reconstruction of a two-band filter bank with zero extension, from the
  polyphase biorthogonality conditions (N-independent, decidable for a given bank).
-/
import WaveletsVerif.Lemmas.Adjoint
import Mathlib.Order.Interval.Finset.Defs
import Mathlib.Data.Int.Interval
namespace WV
open Finset
variable {R : Type} [CommRing R]

/-- `Σ_j w_j · x̃(c − j) = Σ_i x_i · w̃(c − i)` -/
theorem reindex_neg (w x : List R) (c : Int) :
    ∑ j ∈ range w.length, getN w j * getZ x (c - (j:Int))
      = ∑ i ∈ range x.length, getN x i * getZ w (c - (i:Int)) := by
  have h1 : ∀ j ∈ range w.length, getN w j * getZ x (c - (j:Int))
      = ∑ i ∈ range x.length, if (i:Int) = c - (j:Int) then getN w j * getN x i else 0 := by
    intro j _
    rw [getZ_eq_sum, Finset.mul_sum]
    apply Finset.sum_congr rfl; intro i _
    split <;> simp
  have h2 : ∀ i ∈ range x.length, getN x i * getZ w (c - (i:Int))
      = ∑ j ∈ range w.length, if (i:Int) = c - (j:Int) then getN w j * getN x i else 0 := by
    intro i _
    rw [getZ_eq_sum, Finset.mul_sum]
    apply Finset.sum_congr rfl; intro j _
    by_cases h : (j:Int) = c - (i:Int)
    · have : (i:Int) = c - (j:Int) := by omega
      rw [if_pos h, if_pos this]; ring
    · have : ¬ ((i:Int) = c - (j:Int)) := by omega
      rw [if_neg h, if_neg this]; simp
  rw [Finset.sum_congr rfl h1, Finset.sum_congr rfl h2, Finset.sum_comm]

/-- the biorthogonality (polyphase perfect-reconstruction) conditions of an analysis pair `(h0, h1)` and a
synthesis pair `(g0, g1)`, all of length `L`: for each tap parity `p` and each lag `d`,
`Σ_{a ≡ p (2)} h0[a]·g0[d+L−1−a] + h1[a]·g1[d+L−1−a] = δ_d`.  Finite and decidable for a concrete bank
(`|d| < L` suffices, see `prbank_all_lags`). -/
def PRBank (h0 h1 g0 g1 : List R) : Prop :=
  ∀ p < 2, ∀ dd < 2 * h0.length - 1,
    (∑ a ∈ range h0.length, if a % 2 = p then
        getN h0 a * getZ g0 (((dd:Int) - (h0.length - 1)) + h0.length - 1 - a)
        + getN h1 a * getZ g1 (((dd:Int) - (h0.length - 1)) + h0.length - 1 - a) else 0)
      = if dd = h0.length - 1 then 1 else 0

/-- for every integer lag the condition holds (outside `|d| < L` both sides vanish) -/
theorem prbank_all_lags (h0 h1 g0 g1 : List R) (hL : 1 ≤ h0.length) (hg0 : g0.length = h0.length)
    (hg1 : g1.length = h0.length) (hpr : PRBank h0 h1 g0 g1) (p : Nat) (hp : p < 2) (d : Int) :
    (∑ a ∈ range h0.length, if a % 2 = p then
        getN h0 a * getZ g0 (d + h0.length - 1 - a) + getN h1 a * getZ g1 (d + h0.length - 1 - a) else 0)
      = if d = 0 then 1 else 0 := by
  by_cases hin : -(h0.length:Int) < d ∧ d < h0.length
  · have hdd : ((d + (h0.length - 1)).toNat : Int) = d + (h0.length - 1) := by omega
    have := hpr p hp (d + (h0.length - 1)).toNat (by omega)
    rw [hdd] at this
    have e : d + ((h0.length:Int) - 1) - ((h0.length:Int) - 1) = d := by ring
    simp only [e] at this
    rw [this]
    have : ((d + ((h0.length:Int) - 1)).toNat = h0.length - 1) ↔ d = 0 := by omega
    simp only [this]
  · have hd0 : ¬ d = 0 := by omega
    rw [if_neg hd0]
    apply Finset.sum_eq_zero
    intro a ha
    have ha' : a < h0.length := by simpa using ha
    have z0 : getZ g0 (d + h0.length - 1 - a) = 0 := by
      by_cases hneg : d + h0.length - 1 - a < 0
      · exact getZ_neg _ _ hneg
      · exact getZ_of_ge _ _ (by rw [hg0]; omega)
    have z1 : getZ g1 (d + h0.length - 1 - a) = 0 := by
      by_cases hneg : d + h0.length - 1 - a < 0
      · exact getZ_neg _ _ hneg
      · exact getZ_of_ge _ _ (by rw [hg1]; omega)
    rw [z0, z1]; split <;> simp

/-- change of variable `a = 2k+1−i` between the level index `k` and the tap index `a` -/
theorem kernel_reindex (h g : List R) (N K i : Nat) (t : Int) (hi : i < N) (hK : K = (N + h.length - 1) / 2)
    (hL : 1 ≤ h.length) :
    ∑ k ∈ range K, getZ h (2*(k:Int) + 1 - i) * getZ g (t + h.length - 2 - 2*(k:Int))
      = ∑ a ∈ range h.length, if a % 2 = (i + 1) % 2 then getN h a * getZ g ((t - i) + h.length - 1 - a) else 0 := by
  have h1 : ∀ k ∈ range K, getZ h (2*(k:Int) + 1 - i) * getZ g (t + h.length - 2 - 2*(k:Int))
      = ∑ a ∈ range h.length, if (a:Int) = 2*(k:Int) + 1 - i then getN h a * getZ g ((t - i) + h.length - 1 - a) else 0 := by
    intro k _
    rw [getZ_eq_sum, Finset.sum_mul]
    apply Finset.sum_congr rfl; intro a _
    by_cases hc : (a:Int) = 2*(k:Int) + 1 - i
    · rw [if_pos hc, if_pos hc]
      congr 2; omega
    · rw [if_neg hc, if_neg hc]; simp
  rw [Finset.sum_congr rfl h1, Finset.sum_comm]
  apply Finset.sum_congr rfl; intro a ha
  have ha' : a < h.length := by simpa using ha
  by_cases hpar : a % 2 = (i + 1) % 2
  · rw [if_pos hpar]
    have hk0 : (a + i - 1) / 2 ∈ range K := by simp; omega
    rw [Finset.sum_eq_single_of_mem _ hk0]
    · have : (a:Int) = 2*(((a + i - 1) / 2 : Nat):Int) + 1 - i := by push_cast; omega
      rw [if_pos this]
    · intro k _ hne
      have : ¬ ((a:Int) = 2*(k:Int) + 1 - i) := by omega
      rw [if_neg this]
  · rw [if_neg hpar]
    apply Finset.sum_eq_zero
    intro k _
    have : ¬ ((a:Int) = 2*(k:Int) + 1 - i) := by omega
    rw [if_neg this]

/-- `Σ_j h_j·e(c−j) = Σ_{u∈W} e(u)·h̃(c−u)` for any window `W` containing all the indices read -/
theorem sum_taps_window (h : List R) (e : Int → R) (c : Int) (W : Finset Int)
    (hW : ∀ j < h.length, c - (j:Int) ∈ W) :
    ∑ j ∈ range h.length, getN h j * e (c - (j:Int)) = ∑ u ∈ W, e u * getZ h (c - u) := by
  have h2 : ∀ u ∈ W, e u * getZ h (c - u) = ∑ j ∈ range h.length, if u = c - (j:Int) then getN h j * e u else 0 := by
    intro u _
    rw [getZ_eq_sum, Finset.mul_sum]
    apply Finset.sum_congr rfl; intro j _
    by_cases hc : (j:Int) = c - u
    · have : u = c - (j:Int) := by omega
      rw [if_pos hc, if_pos this]; ring
    · have : ¬ (u = c - (j:Int)) := by omega
      rw [if_neg hc, if_neg this]; simp
  rw [Finset.sum_congr rfl h2, Finset.sum_comm]
  apply Finset.sum_congr rfl; intro j hj
  have hj' : j < h.length := by simpa using hj
  rw [Finset.sum_ite_eq' W (c - (j:Int)) (fun u => getN h j * e u)]
  simp [hW j hj']

/-- the kernel identity with an arbitrary integer source index `u` (for an output index `t` inside the signal) -/
theorem kernel_reindex_int (h g : List R) (N K : Nat) (u : Int) (t : Nat) (ht : t < N) (hK : K = (N + h.length - 1) / 2)
    (hL : 2 ≤ h.length) (hg : g.length = h.length) :
    ∑ k ∈ range K, getZ h (2*(k:Int) + 1 - u) * getZ g ((t:Int) + h.length - 2 - 2*(k:Int))
      = ∑ a ∈ range h.length, if (a:Int) % 2 = (u + 1) % 2 then getN h a * getZ g (((t:Int) - u) + h.length - 1 - a) else 0 := by
  have h1 : ∀ k ∈ range K, getZ h (2*(k:Int) + 1 - u) * getZ g ((t:Int) + h.length - 2 - 2*(k:Int))
      = ∑ a ∈ range h.length, if (a:Int) = 2*(k:Int) + 1 - u then getN h a * getZ g (((t:Int) - u) + h.length - 1 - a) else 0 := by
    intro k _
    rw [getZ_eq_sum, Finset.sum_mul]
    apply Finset.sum_congr rfl; intro a _
    by_cases hc : (a:Int) = 2*(k:Int) + 1 - u
    · rw [if_pos hc, if_pos hc]
      congr 2; omega
    · rw [if_neg hc, if_neg hc]; simp
  rw [Finset.sum_congr rfl h1, Finset.sum_comm]
  apply Finset.sum_congr rfl; intro a ha
  have ha' : a < h.length := by simpa using ha
  by_cases hpar : (a:Int) % 2 = (u + 1) % 2
  · rw [if_pos hpar]
    -- the unique k with a = 2k+1-u, if it lies in range K; otherwise the g factor vanishes
    by_cases hk : 0 ≤ (a:Int) + u - 1 ∧ ((a:Int) + u - 1) / 2 < K
    · have hk0 : (((a:Int) + u - 1) / 2).toNat ∈ range K := by simp; omega
      rw [Finset.sum_eq_single_of_mem _ hk0]
      · have : (a:Int) = 2*((((a:Int) + u - 1) / 2).toNat : Int) + 1 - u := by omega
        rw [if_pos this]
      · intro k _ hne
        have : ¬ ((a:Int) = 2*(k:Int) + 1 - u) := by
          intro hc; apply hne; omega
        rw [if_neg this]
    · have hz : getZ g (((t:Int) - u) + h.length - 1 - a) = 0 := by
        by_cases hneg : ((t:Int) - u) + h.length - 1 - a < 0
        · exact getZ_neg _ _ hneg
        · exact getZ_of_ge _ _ (by rw [hg]; omega)
      rw [hz, mul_zero]
      apply Finset.sum_eq_zero
      intro k hk'
      have hk'' : k < K := by simpa using hk'
      have : ¬ ((a:Int) = 2*(k:Int) + 1 - u) := by omega
      rw [if_neg this]
  · rw [if_neg hpar]
    apply Finset.sum_eq_zero
    intro k _
    have : ¬ ((a:Int) = 2*(k:Int) + 1 - u) := by omega
    rw [if_neg this]

end WV
