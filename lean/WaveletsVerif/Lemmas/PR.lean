/-
  Perfect reconstruction of a two-band filter bank with zero extension, from the
  polyphase biorthogonality conditions (N-independent, decidable for a given bank).
-/
import WaveletsVerif.Lemmas.Adjoint
import Mathlib.Order.Interval.Finset.Defs
import Mathlib.Data.Int.Interval
namespace WV
open Finset
variable {R : Type} [CommRing R]

/-- `Σ_j w_j · x̃(c − j) = Σ_i x_i · w̃(c − i)` -/
theorem reindex_neg (w x : List R) (c : Int) :
    ∑ j ∈ range w.length, getN w j * getZ x (c - (j:Int))
      = ∑ i ∈ range x.length, getN x i * getZ w (c - (i:Int)) := by
  have h1 : ∀ j ∈ range w.length, getN w j * getZ x (c - (j:Int))
      = ∑ i ∈ range x.length, if (i:Int) = c - (j:Int) then getN w j * getN x i else 0 := by
    intro j _
    rw [getZ_eq_sum, Finset.mul_sum]
    apply Finset.sum_congr rfl; intro i _
    split <;> simp
  have h2 : ∀ i ∈ range x.length, getN x i * getZ w (c - (i:Int))
      = ∑ j ∈ range w.length, if (i:Int) = c - (j:Int) then getN w j * getN x i else 0 := by
    intro i _
    rw [getZ_eq_sum, Finset.mul_sum]
    apply Finset.sum_congr rfl; intro j _
    by_cases h : (j:Int) = c - (i:Int)
    · have : (i:Int) = c - (j:Int) := by omega
      rw [if_pos h, if_pos this]; ring
    · have : ¬ ((i:Int) = c - (j:Int)) := by omega
      rw [if_neg h, if_neg this]; simp
  rw [Finset.sum_congr rfl h1, Finset.sum_congr rfl h2, Finset.sum_comm]

/-- the biorthogonality (polyphase perfect-reconstruction) conditions of an analysis pair `(h0, h1)` and a
synthesis pair `(g0, g1)`, all of length `L`: for each tap parity `p` and each lag `d`,
`Σ_{a ≡ p (2)} h0[a]·g0[d+L−1−a] + h1[a]·g1[d+L−1−a] = δ_d`.  Finite and decidable for a concrete bank
(`|d| < L` suffices, see `prbank_all_lags`). -/
def PRBank (h0 h1 g0 g1 : List R) : Prop :=
  ∀ p < 2, ∀ dd < 2 * h0.length - 1,
    (∑ a ∈ range h0.length, if a % 2 = p then
        getN h0 a * getZ g0 (((dd:Int) - (h0.length - 1)) + h0.length - 1 - a)
        + getN h1 a * getZ g1 (((dd:Int) - (h0.length - 1)) + h0.length - 1 - a) else 0)
      = if dd = h0.length - 1 then 1 else 0

/-- for every integer lag the condition holds (outside `|d| < L` both sides vanish) -/
theorem prbank_all_lags (h0 h1 g0 g1 : List R) (hL : 1 ≤ h0.length) (hg0 : g0.length = h0.length)
    (hg1 : g1.length = h0.length) (hpr : PRBank h0 h1 g0 g1) (p : Nat) (hp : p < 2) (d : Int) :
    (∑ a ∈ range h0.length, if a % 2 = p then
        getN h0 a * getZ g0 (d + h0.length - 1 - a) + getN h1 a * getZ g1 (d + h0.length - 1 - a) else 0)
      = if d = 0 then 1 else 0 := by
  by_cases hin : -(h0.length:Int) < d ∧ d < h0.length
  · have hdd : ((d + (h0.length - 1)).toNat : Int) = d + (h0.length - 1) := by omega
    have := hpr p hp (d + (h0.length - 1)).toNat (by omega)
    rw [hdd] at this
    have e : d + ((h0.length:Int) - 1) - ((h0.length:Int) - 1) = d := by ring
    simp only [e] at this
    rw [this]
    have : ((d + ((h0.length:Int) - 1)).toNat = h0.length - 1) ↔ d = 0 := by omega
    simp only [this]
  · have hd0 : ¬ d = 0 := by omega
    rw [if_neg hd0]
    apply Finset.sum_eq_zero
    intro a ha
    have ha' : a < h0.length := by simpa using ha
    have z0 : getZ g0 (d + h0.length - 1 - a) = 0 := by
      by_cases hneg : d + h0.length - 1 - a < 0
      · exact getZ_neg _ _ hneg
      · exact getZ_of_ge _ _ (by rw [hg0]; omega)
    have z1 : getZ g1 (d + h0.length - 1 - a) = 0 := by
      by_cases hneg : d + h0.length - 1 - a < 0
      · exact getZ_neg _ _ hneg
      · exact getZ_of_ge _ _ (by rw [hg1]; omega)
    rw [z0, z1]; split <;> simp

/-- change of variable `a = 2k+1−i` between the level index `k` and the tap index `a` -/
theorem kernel_reindex (h g : List R) (N K i : Nat) (t : Int) (hi : i < N) (hK : K = (N + h.length - 1) / 2)
    (hL : 1 ≤ h.length) :
    ∑ k ∈ range K, getZ h (2*(k:Int) + 1 - i) * getZ g (t + h.length - 2 - 2*(k:Int))
      = ∑ a ∈ range h.length, if a % 2 = (i + 1) % 2 then getN h a * getZ g ((t - i) + h.length - 1 - a) else 0 := by
  have h1 : ∀ k ∈ range K, getZ h (2*(k:Int) + 1 - i) * getZ g (t + h.length - 2 - 2*(k:Int))
      = ∑ a ∈ range h.length, if (a:Int) = 2*(k:Int) + 1 - i then getN h a * getZ g ((t - i) + h.length - 1 - a) else 0 := by
    intro k _
    rw [getZ_eq_sum, Finset.sum_mul]
    apply Finset.sum_congr rfl; intro a _
    by_cases hc : (a:Int) = 2*(k:Int) + 1 - i
    · rw [if_pos hc, if_pos hc]
      congr 2; omega
    · rw [if_neg hc, if_neg hc]; simp
  rw [Finset.sum_congr rfl h1, Finset.sum_comm]
  apply Finset.sum_congr rfl; intro a ha
  have ha' : a < h.length := by simpa using ha
  by_cases hpar : a % 2 = (i + 1) % 2
  · rw [if_pos hpar]
    have hk0 : (a + i - 1) / 2 ∈ range K := by simp; omega
    rw [Finset.sum_eq_single_of_mem _ hk0]
    · have : (a:Int) = 2*(((a + i - 1) / 2 : Nat):Int) + 1 - i := by push_cast; omega
      rw [if_pos this]
    · intro k _ hne
      have : ¬ ((a:Int) = 2*(k:Int) + 1 - i) := by omega
      rw [if_neg this]
  · rw [if_neg hpar]
    apply Finset.sum_eq_zero
    intro k _
    have : ¬ ((a:Int) = 2*(k:Int) + 1 - i) := by omega
    rw [if_neg this]

/-- `Σ_j h_j·e(c−j) = Σ_{u∈W} e(u)·h̃(c−u)` for any window `W` containing all the indices read -/
theorem sum_taps_window (h : List R) (e : Int → R) (c : Int) (W : Finset Int)
    (hW : ∀ j < h.length, c - (j:Int) ∈ W) :
    ∑ j ∈ range h.length, getN h j * e (c - (j:Int)) = ∑ u ∈ W, e u * getZ h (c - u) := by
  have h2 : ∀ u ∈ W, e u * getZ h (c - u) = ∑ j ∈ range h.length, if u = c - (j:Int) then getN h j * e u else 0 := by
    intro u _
    rw [getZ_eq_sum, Finset.mul_sum]
    apply Finset.sum_congr rfl; intro j _
    by_cases hc : (j:Int) = c - u
    · have : u = c - (j:Int) := by omega
      rw [if_pos hc, if_pos this]; ring
    · have : ¬ (u = c - (j:Int)) := by omega
      rw [if_neg hc, if_neg this]; simp
  rw [Finset.sum_congr rfl h2, Finset.sum_comm]
  apply Finset.sum_congr rfl; intro j hj
  have hj' : j < h.length := by simpa using hj
  rw [Finset.sum_ite_eq' W (c - (j:Int)) (fun u => getN h j * e u)]
  simp [hW j hj']

/-- the kernel identity with an arbitrary integer source index `u` (for an output index `t` inside the signal) -/
theorem kernel_reindex_int (h g : List R) (N K : Nat) (u : Int) (t : Nat) (ht : t < N) (hK : K = (N + h.length - 1) / 2)
    (hL : 2 ≤ h.length) (hg : g.length = h.length) :
    ∑ k ∈ range K, getZ h (2*(k:Int) + 1 - u) * getZ g ((t:Int) + h.length - 2 - 2*(k:Int))
      = ∑ a ∈ range h.length, if (a:Int) % 2 = (u + 1) % 2 then getN h a * getZ g (((t:Int) - u) + h.length - 1 - a) else 0 := by
  have h1 : ∀ k ∈ range K, getZ h (2*(k:Int) + 1 - u) * getZ g ((t:Int) + h.length - 2 - 2*(k:Int))
      = ∑ a ∈ range h.length, if (a:Int) = 2*(k:Int) + 1 - u then getN h a * getZ g (((t:Int) - u) + h.length - 1 - a) else 0 := by
    intro k _
    rw [getZ_eq_sum, Finset.sum_mul]
    apply Finset.sum_congr rfl; intro a _
    by_cases hc : (a:Int) = 2*(k:Int) + 1 - u
    · rw [if_pos hc, if_pos hc]
      congr 2; omega
    · rw [if_neg hc, if_neg hc]; simp
  rw [Finset.sum_congr rfl h1, Finset.sum_comm]
  apply Finset.sum_congr rfl; intro a ha
  have ha' : a < h.length := by simpa using ha
  by_cases hpar : (a:Int) % 2 = (u + 1) % 2
  · rw [if_pos hpar]
    -- the unique k with a = 2k+1-u, if it lies in range K; otherwise the g factor vanishes
    by_cases hk : 0 ≤ (a:Int) + u - 1 ∧ ((a:Int) + u - 1) / 2 < K
    · have hk0 : (((a:Int) + u - 1) / 2).toNat ∈ range K := by simp; omega
      rw [Finset.sum_eq_single_of_mem _ hk0]
      · have : (a:Int) = 2*((((a:Int) + u - 1) / 2).toNat : Int) + 1 - u := by omega
        rw [if_pos this]
      · intro k _ hne
        have : ¬ ((a:Int) = 2*(k:Int) + 1 - u) := by
          intro hc; apply hne; omega
        rw [if_neg this]
    · have hz : getZ g (((t:Int) - u) + h.length - 1 - a) = 0 := by
        by_cases hneg : ((t:Int) - u) + h.length - 1 - a < 0
        · exact getZ_neg _ _ hneg
        · exact getZ_of_ge _ _ (by rw [hg]; omega)
      rw [hz, mul_zero]
      apply Finset.sum_eq_zero
      intro k hk'
      have hk'' : k < K := by simpa using hk'
      have : ¬ ((a:Int) = 2*(k:Int) + 1 - u) := by omega
      rw [if_neg this]
  · rw [if_neg hpar]
    apply Finset.sum_eq_zero
    intro k _
    have : ¬ ((a:Int) = 2*(k:Int) + 1 - u) := by omega
    rw [if_neg this]

/-- the kernel identity over an arbitrary finite set `S ⊆ ℤ` of level indices containing the support of
the synthesis tap -/
theorem kernel_reindex_set (h g : List R) (S : Finset Int) (u T : Int) (hg : g.length = h.length)
    (hS : ∀ k : Int, 0 ≤ T + h.length - 2 - 2*k → T + h.length - 2 - 2*k < h.length → k ∈ S) :
    ∑ k ∈ S, getZ h (2*k + 1 - u) * getZ g (T + h.length - 2 - 2*k)
      = ∑ a ∈ range h.length, if (a:Int) % 2 = (u + 1) % 2 then getN h a * getZ g ((T - u) + h.length - 1 - a) else 0 := by
  have h1 : ∀ k ∈ S, getZ h (2*k + 1 - u) * getZ g (T + h.length - 2 - 2*k)
      = ∑ a ∈ range h.length, if (a:Int) = 2*k + 1 - u then getN h a * getZ g ((T - u) + h.length - 1 - a) else 0 := by
    intro k _
    rw [getZ_eq_sum, Finset.sum_mul]
    apply Finset.sum_congr rfl; intro a _
    by_cases hc : (a:Int) = 2*k + 1 - u
    · rw [if_pos hc, if_pos hc]
      congr 2; omega
    · rw [if_neg hc, if_neg hc]; simp
  rw [Finset.sum_congr rfl h1, Finset.sum_comm]
  apply Finset.sum_congr rfl; intro a ha
  have ha' : a < h.length := by simpa using ha
  by_cases hpar : (a:Int) % 2 = (u + 1) % 2
  · rw [if_pos hpar]
    by_cases hk : ((a:Int) + u - 1) / 2 ∈ S
    · rw [Finset.sum_eq_single_of_mem _ hk]
      · have : (a:Int) = 2*(((a:Int) + u - 1) / 2) + 1 - u := by omega
        rw [if_pos this]
      · intro k _ hne
        have : ¬ ((a:Int) = 2*k + 1 - u) := by
          intro hc; apply hne; omega
        rw [if_neg this]
    · have hz : getZ g ((T - u) + h.length - 1 - a) = 0 := by
        by_cases hneg : (T - u) + h.length - 1 - a < 0
        · exact getZ_neg _ _ hneg
        · by_cases hge : (g.length:Int) ≤ (T - u) + h.length - 1 - a
          · exact getZ_of_ge _ _ hge
          · exfalso; apply hk
            apply hS <;> omega
      rw [hz, mul_zero]
      apply Finset.sum_eq_zero
      intro k hk'
      have : ¬ ((a:Int) = 2*k + 1 - u) := by
        intro hc; apply hk
        have : ((a:Int) + u - 1) / 2 = k := by omega
        rw [this]; exact hk'
      rw [if_neg this]
  · rw [if_neg hpar]
    apply Finset.sum_eq_zero
    intro k _
    have : ¬ ((a:Int) = 2*k + 1 - u) := by omega
    rw [if_neg this]

/-- **Perfect reconstruction on the integer line**: for any `e : ℤ → R`, any output position `T ∈ ℤ` and
any finite set `S` of level indices containing the support of the synthesis taps at `T`. -/
theorem pr_line (h0 h1 g0 g1 : List R) (e : Int → R) (S : Finset Int) (T : Int) (hL : 2 ≤ h0.length)
    (hh1 : h1.length = h0.length) (hg0 : g0.length = h0.length) (hg1 : g1.length = h0.length)
    (hpr : PRBank h0 h1 g0 g1)
    (hS : ∀ k : Int, 0 ≤ T + h0.length - 2 - 2*k → T + h0.length - 2 - 2*k < h0.length → k ∈ S) :
    ∑ k ∈ S,
      ((∑ j ∈ range h0.length, getN h0 j * e (2*k + 1 - (j:Int))) * getZ g0 (T + h0.length - 2 - 2*k)
       + (∑ j ∈ range h0.length, getN h1 j * e (2*k + 1 - (j:Int))) * getZ g1 (T + h0.length - 2 - 2*k))
      = e T := by
  classical
  set S' := S.filter (fun k => 0 ≤ T + h0.length - 2 - 2*k ∧ T + h0.length - 2 - 2*k < h0.length) with hS'
  have hsub : ∑ k ∈ S,
      ((∑ j ∈ range h0.length, getN h0 j * e (2*k + 1 - (j:Int))) * getZ g0 (T + h0.length - 2 - 2*k)
       + (∑ j ∈ range h0.length, getN h1 j * e (2*k + 1 - (j:Int))) * getZ g1 (T + h0.length - 2 - 2*k))
      = ∑ k ∈ S',
      ((∑ j ∈ range h0.length, getN h0 j * e (2*k + 1 - (j:Int))) * getZ g0 (T + h0.length - 2 - 2*k)
       + (∑ j ∈ range h0.length, getN h1 j * e (2*k + 1 - (j:Int))) * getZ g1 (T + h0.length - 2 - 2*k)) := by
    symm
    apply Finset.sum_subset (Finset.filter_subset _ _)
    intro k hk hnk
    have hout : ¬ (0 ≤ T + h0.length - 2 - 2*k ∧ T + h0.length - 2 - 2*k < h0.length) := by
      intro hc; apply hnk; rw [Finset.mem_filter]; exact ⟨hk, hc⟩
    have z0 : getZ g0 (T + h0.length - 2 - 2*k) = 0 := by
      by_cases hneg : T + h0.length - 2 - 2*k < 0
      · exact getZ_neg _ _ hneg
      · exact getZ_of_ge _ _ (by rw [hg0]; omega)
    have z1 : getZ g1 (T + h0.length - 2 - 2*k) = 0 := by
      by_cases hneg : T + h0.length - 2 - 2*k < 0
      · exact getZ_neg _ _ hneg
      · exact getZ_of_ge _ _ (by rw [hg1]; omega)
    rw [z0, z1]; ring
  rw [hsub]
  have hS2 : ∀ k : Int, 0 ≤ T + h0.length - 2 - 2*k → T + h0.length - 2 - 2*k < h0.length → k ∈ S' := by
    intro k a b; rw [Finset.mem_filter]; exact ⟨hS k a b, a, b⟩
  set W : Finset Int := Finset.Ico (T - (h0.length:Int)) (T + h0.length) with hWdef
  have hwin : ∀ (h : List R), h.length = h0.length → ∀ k ∈ S',
      ∑ j ∈ range h0.length, getN h j * e (2*k + 1 - (j:Int))
        = ∑ u ∈ W, e u * getZ h (2*k + 1 - u) := by
    intro h hh k hk
    rw [Finset.mem_filter] at hk
    rw [← hh]
    apply sum_taps_window
    intro j hj
    rw [hWdef, Finset.mem_Ico]; omega
  have step1 : ∀ k ∈ S',
      ((∑ j ∈ range h0.length, getN h0 j * e (2*k + 1 - (j:Int))) * getZ g0 (T + h0.length - 2 - 2*k)
       + (∑ j ∈ range h0.length, getN h1 j * e (2*k + 1 - (j:Int))) * getZ g1 (T + h0.length - 2 - 2*k))
      = ∑ u ∈ W, e u *
          (getZ h0 (2*k + 1 - u) * getZ g0 (T + h0.length - 2 - 2*k)
           + getZ h1 (2*k + 1 - u) * getZ g1 (T + h0.length - 2 - 2*k)) := by
    intro k hk
    rw [hwin h0 rfl k hk, hwin h1 hh1 k hk, Finset.sum_mul, Finset.sum_mul, ← Finset.sum_add_distrib]
    apply Finset.sum_congr rfl; intro u _; ring
  rw [Finset.sum_congr rfl step1, Finset.sum_comm]
  have step2 : ∀ u ∈ W,
      ∑ k ∈ S', e u *
          (getZ h0 (2*k + 1 - u) * getZ g0 (T + h0.length - 2 - 2*k)
           + getZ h1 (2*k + 1 - u) * getZ g1 (T + h0.length - 2 - 2*k))
      = e u * (if (T - u) = 0 then 1 else 0) := by
    intro u _
    rw [← Finset.mul_sum, Finset.sum_add_distrib]
    have k0 := kernel_reindex_set h0 g0 S' u T hg0 hS2
    have k1 := kernel_reindex_set h1 g1 S' u T (by omega) (by rw [hh1]; exact hS2)
    rw [hh1] at k1
    rw [k0, k1, ← Finset.sum_add_distrib]
    congr 1
    have := prbank_all_lags h0 h1 g0 g1 (by omega) hg0 hg1 hpr (((u+1) % 2).toNat) (by omega) (T - u)
    rw [← this]
    apply Finset.sum_congr rfl; intro a _
    have hiff : ((a:Int) % 2 = (u + 1) % 2) ↔ (a % 2 = ((u+1) % 2).toNat) := by omega
    by_cases hc : (a:Int) % 2 = (u + 1) % 2
    · rw [if_pos hc, if_pos hc, if_pos (hiff.mp hc)]
    · rw [if_neg hc, if_neg hc, if_neg (fun h => hc (hiff.mpr h))]; simp
  rw [Finset.sum_congr rfl step2]
  have htW : T ∈ W := by rw [hWdef, Finset.mem_Ico]; omega
  rw [Finset.sum_eq_single_of_mem T htW]
  · simp
  · intro u _ hne
    have : ¬ (T - u = 0) := by omega
    rw [if_neg this]; ring

end WV
