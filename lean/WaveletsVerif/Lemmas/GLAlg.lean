/-
  Algebra of gather-linear column operators (`C03P.GL`): matrix form, composition, the elementary stages of the
  periodization filter banks (odd-length extension, Python roll, zero padding, strided correlation, wrap-around fold,
  crop), and composition of operators along one image axis.  Helper lemmas only.
-/
import Mathlib.Data.List.GetD
import WaveletsVerif.Properties.C03P
import WaveletsVerif.Properties.C07L
namespace WV.GLA
open Finset WV WV.C04 WV.C04Q WV.C03P
variable {R : Type} [CommRing R]

/-- matrix form of a gather-linear operator -/
def ML (F : List R → List R) (nin nout : Nat) : Prop :=
  ∃ M : Nat → Nat → R, ∀ c : List R, c.length = nin → F c = tab nout fun i => ∑ j ∈ range nin, M i j * getN c j

theorem GL.toML {F : List R → List R} {nin nout : Nat} (h : GL F nin nout) : ML F nin nout := by
  obtain ⟨K, coef, idx, hidx, hF⟩ := h
  refine ⟨fun i j => ∑ t ∈ range K, if idx i t = j then coef i t else 0, ?_⟩
  intro c hc
  rw [hF c hc]
  apply tab_ext rfl; intro i hi
  have : ∀ j ∈ range nin, (∑ t ∈ range K, if idx i t = j then coef i t else 0) * getN c j
      = ∑ t ∈ range K, if idx i t = j then coef i t * getN c (idx i t) else 0 := by
    intro j _
    rw [Finset.sum_mul]
    apply Finset.sum_congr rfl; intro t _
    split
    · next h => rw [h]
    · rw [zero_mul]
  rw [Finset.sum_congr rfl this, Finset.sum_comm]
  apply Finset.sum_congr rfl; intro t ht
  have ht' : t < K := by simpa using ht
  rw [Finset.sum_ite_eq, if_pos (by simpa using hidx i hi t ht')]

theorem ML.toGL {F : List R → List R} {nin nout : Nat} (h : ML F nin nout) : GL F nin nout := by
  obtain ⟨M, hF⟩ := h
  exact ⟨nin, M, fun _ j => j, fun _ _ j hj => hj, hF⟩

theorem ML.comp {F G : List R → List R} {n m k : Nat} (hF : ML F m k) (hG : ML G n m) :
    ML (fun c => F (G c)) n k := by
  obtain ⟨A, hA⟩ := hF
  obtain ⟨B, hB⟩ := hG
  refine ⟨fun i j => ∑ t ∈ range m, A i t * B t j, ?_⟩
  intro c hc
  have hGl : (G c).length = m := by rw [hB c hc, length_tab]
  show F (G c) = _
  rw [hA (G c) hGl]
  apply tab_ext rfl; intro i _
  have : ∀ t ∈ range m, A i t * getN (G c) t = ∑ j ∈ range n, A i t * B t j * getN c j := by
    intro t ht
    have ht' : t < m := by simpa using ht
    rw [hB c hc, getN_tab, if_pos ht', Finset.mul_sum]
    apply Finset.sum_congr rfl; intro j _; ring
  rw [Finset.sum_congr rfl this, Finset.sum_comm]
  apply Finset.sum_congr rfl; intro j _
  rw [Finset.sum_mul]

theorem GL.comp {F G : List R → List R} {n m k : Nat} (hF : GL F m k) (hG : GL G n m) :
    GL (fun c => F (G c)) n k := (ML.comp (GL.toML hF) (GL.toML hG)).toGL

theorem GL.congr {F F' : List R → List R} {n m : Nat} (hF : GL F n m) (h : ∀ c : List R, c.length = n → F' c = F c) :
    GL F' n m := by
  obtain ⟨K, coef, idx, hidx, hF⟩ := hF
  exact ⟨K, coef, idx, hidx, fun c hc => by rw [h c hc, hF c hc]⟩

/-- a pure gather (one source sample per output sample, or none) -/
theorem GL_gather (F : List R → List R) (n m : Nat) (hn : 1 ≤ n) (ok : Nat → Bool) (src : Nat → Nat)
    (hF : ∀ c : List R, c.length = n → F c = tab m fun i => if ok i then getN c (src i) else 0)
    (hsrc : ∀ i < m, ok i = true → src i < n) : GL F n m := by
  refine ⟨1, fun i _ => if ok i then 1 else 0, fun i _ => if ok i then src i else 0, ?_, ?_⟩
  · intro i hi j _
    by_cases h : ok i = true
    · simp only [h, if_true]; exact hsrc i hi h
    · simp only [h]; simp; omega
  · intro c hc
    rw [hF c hc]
    apply tab_ext rfl; intro i _
    rw [Finset.sum_range_one]
    by_cases h : ok i = true
    · simp [h]
    · simp [h]

end WV.GLA

namespace WV.GLA
open Finset WV WV.C04 WV.C04Q WV.C03P
variable {R : Type} [CommRing R]

/-! ### polymorphic list facts: Python roll and the odd-length extension are gathers -/

/-- odd-length extension by repeating the last sample (`torch.cat((x, x[-1:]))`) -/
def ext1 {α : Type} (c : List α) : List α := if c.length % 2 = 1 then c ++ sliceFrom c (-1) else c

/-- the split point of `roll(x, n)` on a sequence of length `N` -/
def rollD (N : Nat) (n : Int) : Nat := pyBound N (-(if n < 0 then (N : Int) + n else n))

theorem pyBound_le (n : Nat) (a : Int) : pyBound n a ≤ n := by
  unfold pyBound
  simp only
  split_ifs <;> omega

theorem rollD_le (N : Nat) (n : Int) : rollD N n ≤ N := pyBound_le _ _

theorem rollPy_eq {α : Type} (x : List α) (n : Int) :
    rollPy x n = x.drop (rollD x.length n) ++ x.take (rollD x.length n) := by
  unfold rollPy sliceFrom sliceTo rollD
  rfl

/-- source index of sample `m` of `roll(x, n)` -/
def rollIdx (N : Nat) (n : Int) (m : Nat) : Nat :=
  if m < N - rollD N n then m + rollD N n else m - (N - rollD N n)

theorem rollIdx_lt (N : Nat) (n : Int) (m : Nat) (hm : m < N) : rollIdx N n m < N := by
  have := rollD_le N n
  unfold rollIdx; split <;> omega

theorem rollPy_length' {α : Type} (x : List α) (n : Int) : (rollPy x n).length = x.length := by
  have := rollD_le x.length n
  rw [rollPy_eq]; simp; omega

theorem getD_rollPy {α : Type} (x : List α) (n : Int) (d : α) (m : Nat) (hm : m < x.length) :
    (rollPy x n).getD m d = x.getD (rollIdx x.length n m) d := by
  have hle := rollD_le x.length n
  rw [rollPy_eq]
  unfold rollIdx
  by_cases h : m < x.length - rollD x.length n
  · rw [if_pos h, List.getD_append _ _ _ _ (by simp; exact h)]
    simp [List.getD_eq_getElem?_getD, List.getElem?_drop, Nat.add_comm]
  · rw [if_neg h, List.getD_append_right _ _ _ _ (by simp; omega)]
    simp only [List.length_drop]
    rw [List.getD_eq_getElem?_getD, List.getD_eq_getElem?_getD, List.getElem?_take]
    rw [if_pos (by omega)]

theorem ext1_length {α : Type} (x : List α) (hN : 1 ≤ x.length) : (ext1 x).length = x.length + x.length % 2 := by
  unfold ext1 sliceFrom pyBound
  split
  · next h =>
    rw [List.length_append, List.length_drop, h]
    simp only
    split_ifs <;> omega
  · next h => omega

theorem getD_ext1 {α : Type} (x : List α) (d : α) (m : Nat) (hN : 1 ≤ x.length) (hm : m < x.length + x.length % 2) :
    (ext1 x).getD m d = x.getD (min m (x.length - 1)) d := by
  unfold ext1
  split
  · next h =>
    by_cases h1 : m < x.length
    · rw [List.getD_append _ _ _ _ h1, Nat.min_eq_left (by omega)]
    · rw [List.getD_append_right _ _ _ _ (by omega)]
      have hm' : m = x.length := by omega
      have hs : sliceFrom x (-1) = x.drop (x.length - 1) := by
        unfold sliceFrom pyBound; congr 1
        simp only
        split_ifs <;> omega
      rw [hs, hm', Nat.sub_self, Nat.min_eq_right (by omega)]
      simp [List.getD_eq_getElem?_getD, List.getElem?_drop]
  · next h => rw [Nat.min_eq_left (by omega)]

end WV.GLA

namespace WV.GLA
open Finset WV WV.C04 WV.C04Q WV.C03P
variable {R : Type} [CommRing R]

/-! ### the stages of the periodization banks are gather-linear -/

/-- source index of sample `m` of `roll(ext1 x, n)` -/
def preIdx (N : Nat) (n : Int) (m : Nat) : Nat := min (rollIdx (N + N % 2) n m) (N - 1)

theorem preIdx_lt (N : Nat) (n : Int) (m : Nat) (hN : 1 ≤ N) : preIdx N n m < N := by
  unfold preIdx; omega

theorem getD_pre {α : Type} (x : List α) (n : Int) (d : α) (m : Nat) (hN : 1 ≤ x.length) (hm : m < x.length + x.length % 2) :
    (rollPy (ext1 x) n).getD m d = x.getD (preIdx x.length n m) d := by
  have hl := ext1_length x hN
  rw [getD_rollPy _ _ _ _ (by rw [hl]; exact hm), hl]
  rw [getD_ext1 x d _ hN (rollIdx_lt _ _ _ hm)]
  rfl

/-- extension to even length, roll, zero padding: the signal the strided correlation of the periodization bank reads -/
def pre (s : Int) (l r : Nat) (c : List R) : List R := zeroPad (rollPy (ext1 c) s) l r

theorem pre_length (s : Int) (l r : Nat) (c : List R) (hN : 1 ≤ c.length) :
    (pre s l r c).length = l + (c.length + c.length % 2) + r := by
  unfold pre zeroPad; rw [length_tab, rollPy_length', ext1_length c hN]

theorem getN_pre (s : Int) (l r : Nat) (c : List R) (hN : 1 ≤ c.length) (i : Nat) :
    getN (pre s l r c) i = if l ≤ i ∧ i < l + (c.length + c.length % 2) then getN c (preIdx c.length s (i - l)) else 0 := by
  unfold pre
  rw [getN_eq_getZ, getZ_zeroPad]
  have hl : (rollPy (ext1 c) s).length = c.length + c.length % 2 := by rw [rollPy_length', ext1_length c hN]
  by_cases h : l ≤ i ∧ i < l + (c.length + c.length % 2)
  · rw [if_pos h]
    have e : ((i : Int) - (l : Int)) = ((i - l : Nat) : Int) := by omega
    rw [e, ← getN_eq_getZ]
    exact getD_pre c s 0 (i - l) hN (by omega)
  · rw [if_neg h]
    by_cases h0 : l ≤ i
    · exact getZ_of_ge _ _ (by rw [hl]; omega)
    · exact getZ_neg _ _ (by omega)

theorem GL_pre (s : Int) (l r n : Nat) (hn : 1 ≤ n) : GL (pre (R := R) s l r) n (l + (n + n % 2) + r) := by
  apply GL_gather _ n _ hn (fun i => decide (l ≤ i ∧ i < l + (n + n % 2))) (fun i => preIdx n s (i - l))
  · intro c hc
    apply List.ext_getElem
    · rw [pre_length s l r c (by omega), length_tab, hc]
    · intro i h1 h2
      have e1 : (pre s l r c)[i] = getN (pre s l r c) i := by
        unfold getN; rw [List.getD_eq_getElem?_getD, List.getElem?_eq_getElem h1]; rfl
      have e2 : ∀ (t : List R) (h : i < t.length), t[i] = getN t i := by
        intro t h; unfold getN; rw [List.getD_eq_getElem?_getD, List.getElem?_eq_getElem h]; rfl
      rw [e1, e2 _ h2, getN_tab, if_pos (by simpa using h2), getN_pre s l r c (by omega) i, hc]
      by_cases h : l ≤ i ∧ i < l + (n + n % 2) <;> simp [h]
  · intro i _ _
    exact preIdx_lt n s _ hn

theorem GL_corr2 (w : List R) (n : Nat) : GL (fun c : List R => corr w c 2 1) n (corrLen n w.length 2 1) := by
  refine ⟨w.length, fun _ j => getN w j, fun k j => 2 * k + j, ?_, ?_⟩
  · intro k hk j hj
    show 2 * k + j < n
    unfold corrLen at hk
    split at hk <;> omega
  · intro c hc
    show corr w c 2 1 = _
    unfold corr
    rw [hc]
    apply tab_ext rfl; intro k _
    rw [sumN_eq]
    apply Finset.sum_congr rfl; intro j _
    simp

theorem GL_foldAdd (a b n : Nat) : GL (fun y : List R => foldAdd y a b) n n := by
  refine ⟨2, fun k j => if j = 0 then 1 else (if k < a ∧ b + k < n then 1 else 0),
    fun k j => if j = 0 then k else (if b + k < n then b + k else k), ?_, ?_⟩
  · intro k hk j _
    show (if j = 0 then k else (if b + k < n then b + k else k)) < n
    split_ifs <;> omega
  · intro y hy
    show foldAdd y a b = _
    unfold foldAdd
    rw [hy]
    apply tab_ext rfl; intro k hk
    rw [Finset.sum_range_succ, Finset.sum_range_one]
    simp only [if_true, one_mul, one_ne_zero, if_false]
    by_cases h1 : k < a <;> by_cases h2 : b + k < n
    · simp [h1, h2]
    · have : getN y (b + k) = 0 := by
        unfold getN; rw [List.getD_eq_getElem?_getD, List.getElem?_eq_none (by omega)]; rfl
      simp [h1, h2, this]
    · simp [h1, h2]
    · simp [h1, h2]

theorem GL_take (m n : Nat) (hm : m ≤ n) (hn : 1 ≤ n) : GL (fun y : List R => y.take m) n m := by
  apply GL_gather _ n m hn (fun _ => true) (fun i => i)
  · intro c hc
    apply List.ext_getElem
    · simp [hc, hm]
    · intro i h1 h2
      have hi : i < m := by simpa using h2
      simp only [List.getElem_take]
      unfold tab
      simp only [List.getElem_map, List.getElem_range, if_true]
      unfold getN
      rw [List.getD_eq_getElem?_getD, List.getElem?_eq_getElem (by omega)]; rfl
  · intro i hi _; omega

end WV.GLA
