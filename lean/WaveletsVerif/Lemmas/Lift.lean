/-
  Lifting one-dimensional refinement results to images and channel stacks:
  `mapM` over rows/columns of total operators, `afb1d` on one- and two-channel stacks.
-/
import WaveletsVerif.Lemmas.Basic
namespace WV
variable {R : Type} [CommRing R]

theorem mapM_total {α β : Type} (f : α → Option β) (g : α → β) :
    ∀ (l : List α), (∀ a ∈ l, f a = some (g a)) → l.mapM f = some (l.map g)
  | [], _ => by simp
  | a :: l, h => by
    have h1 := h a (by simp)
    have h2 := mapM_total f g l (fun b hb => h b (by simp [hb]))
    simp [h1, h2]

theorem afb1dT_one (ax : Axis) (mode : Mode) (w0 w1 : List R) (x : Img R) :
    afb1dT ax mode w0 w1 [x] = (do
      let lo ← alongO ax (afb1dOne mode w0) x
      let hi ← alongO ax (afb1dOne mode w1) x
      some [lo, hi]) := by
  simp [afb1dT, grouped, tab, List.range, List.range.loop]
  cases alongO ax (afb1dOne mode w0) x <;> cases alongO ax (afb1dOne mode w1) x <;> simp

theorem afb1dT_two (ax : Axis) (mode : Mode) (w0 w1 : List R) (x y : Img R) :
    afb1dT ax mode w0 w1 [x, y] = (do
      let a ← alongO ax (afb1dOne mode w0) x
      let b ← alongO ax (afb1dOne mode w1) x
      let c ← alongO ax (afb1dOne mode w0) y
      let d ← alongO ax (afb1dOne mode w1) y
      some [a, b, c, d]) := by
  simp [afb1dT, grouped, tab, List.range, List.range.loop]
  cases alongO ax (afb1dOne mode w0) x <;> cases alongO ax (afb1dOne mode w1) x <;>
  cases alongO ax (afb1dOne mode w0) y <;> cases alongO ax (afb1dOne mode w1) y <;> simp

/-- rows of a transposed image all have the original height -/
theorem tr_row_length (x : Img R) : ∀ r ∈ tr x, r.length = x.length := by
  intro r hr
  unfold tr tab2 tab at hr
  simp at hr
  obtain ⟨i, _, rfl⟩ := hr
  simp

end WV
