/-
  Circular (periodization) filter banks: the synthesis with reversed filters is the transpose of the analysis.
  Helper lemmas for C17.
-/
import WaveletsVerif.Lemmas.PR
import WaveletsVerif.Spec.Pywt
import Mathlib.Algebra.BigOperators.Intervals
namespace WV
open Finset
variable {R : Type} [CommRing R]

/-- `Σ_{t<M} e(t)·w̃(t−a) = Σ_i w_i·e(a+i)` when every index read lies in `[0, M)` -/
theorem sum_taps_pos (w : List R) (e : Int → R) (a : Int) (M : Nat)
    (hW : ∀ i < w.length, 0 ≤ a + (i:Int) ∧ a + (i:Int) < M) :
    ∑ t ∈ range M, e (t:Int) * getZ w ((t:Int) - a) = ∑ i ∈ range w.length, getN w i * e (a + (i:Int)) := by
  have h2 : ∀ t ∈ range M, e (t:Int) * getZ w ((t:Int) - a)
      = ∑ i ∈ range w.length, if (t:Int) = a + (i:Int) then getN w i * e (t:Int) else 0 := by
    intro t _
    rw [getZ_eq_sum, Finset.mul_sum]
    apply Finset.sum_congr rfl; intro i _
    by_cases hc : (i:Int) = (t:Int) - a
    · have : (t:Int) = a + (i:Int) := by omega
      rw [if_pos hc, if_pos this]; ring
    · have : ¬ ((t:Int) = a + (i:Int)) := by omega
      rw [if_neg hc, if_neg this]; simp
  rw [Finset.sum_congr rfl h2, Finset.sum_comm]
  apply Finset.sum_congr rfl; intro i hi
  have hi' : i < w.length := by simpa using hi
  obtain ⟨h0, h1⟩ := hW i hi'
  have hm : (a + (i:Int)).toNat ∈ range M := by simp; omega
  rw [Finset.sum_eq_single_of_mem _ hm]
  · have : (((a + (i:Int)).toNat : Nat) : Int) = a + (i:Int) := by omega
    rw [this, if_pos rfl]
  · intro t _ hne
    have : ¬ ((t:Int) = a + (i:Int)) := by
      intro hc; apply hne; omega
    rw [if_neg this]

/-- blocks of length `N`: `Σ_{r<Rr} Σ_{v<N} G(v + r·N) = Σ_{t<Rr·N} G(t)` -/
theorem sum_blocks (Rr N : Nat) (G : Nat → R) :
    ∑ r ∈ range Rr, ∑ v ∈ range N, G (v + r * N) = ∑ t ∈ range (Rr * N), G t := by
  induction Rr with
  | zero => simp
  | succ m ih =>
    rw [Finset.sum_range_succ, ih, Nat.succ_mul, Finset.sum_range_add]
    congr 1
    apply Finset.sum_congr rfl; intro v _
    congr 1; ring

/-- rotation of `ℤ/N`: `Σ_{u<N} H((u+c) mod N) = Σ_{v<N} H(v)` -/
theorem sum_rot (N c : Nat) (hN : 0 < N) (H : Nat → R) :
    ∑ u ∈ range N, H ((u + c) % N) = ∑ v ∈ range N, H v := by
  apply Finset.sum_nbij' (fun u => (u + c) % N) (fun v => (v + (N - c % N)) % N)
  · intro u hu; simp; exact Nat.mod_lt _ hN
  · intro v hv; simp; exact Nat.mod_lt _ hN
  · intro u hu
    have hu' : u < N := by simpa using hu
    have hc := Nat.mod_lt c hN
    rw [Nat.add_mod, Nat.mod_mod, ← Nat.add_mod]
    have : u + c + (N - c % N) = u + (c / N + 1) * N := by
      have h1 := Nat.div_add_mod c N
      have h2 : (c / N + 1) * N = N * (c / N) + N := by ring
      rw [h2]
      generalize N * (c / N) = q at *
      omega
    rw [this, Nat.add_mul_mod_self_right, Nat.mod_eq_of_lt hu']
  · intro v hv
    have hv' : v < N := by simpa using hv
    have hc := Nat.mod_lt c hN
    rw [Nat.add_mod, Nat.mod_mod, ← Nat.add_mod]
    have : v + (N - c % N) + c = v + (c / N + 1) * N := by
      have h1 := Nat.div_add_mod c N
      have h2 : (c / N + 1) * N = N * (c / N) + N := by ring
      rw [h2]
      generalize N * (c / N) = q at *
      omega
    rw [this, Nat.add_mul_mod_self_right, Nat.mod_eq_of_lt hv']
  · intro u _; rfl

/-- the periodization synthesis of PyWavelets, written without its range guard -/
theorem idwt_per_get (g0 g1 lo hi : List R) (n : Nat) (hn : 1 ≤ n) (hlo : lo.length = n)
    (hL : 2 ≤ g0.length) (hg1 : g1.length = g0.length) (u : Nat) (hu : u < 2 * n) :
    getN (Spec.idwt .periodization g0 g1 lo hi) u
      = ∑ r ∈ range ((2*n + g0.length - 2) / (2*n) + 1), ∑ k ∈ range n,
          (getN lo k * getZ g0 ((((u + (g0.length/2 - 1)) % (2*n) : Nat) : Int) + (r:Int) * ((2*n : Nat) : Int) - 2 * (k:Int))
           + getN hi k * getZ g1 ((((u + (g0.length/2 - 1)) % (2*n) : Nat) : Int) + (r:Int) * ((2*n : Nat) : Int) - 2 * (k:Int))) := by
  simp only [Spec.idwt, hlo]
  rw [getN_tab, if_pos hu, sumN_eq]
  have hu' : ((u:Int) + ((g0.length/2 : Nat) : Int) - 1) % ((2*n : Nat) : Int) = (((u + (g0.length/2 - 1)) % (2*n) : Nat) : Int) := by
    have : (u:Int) + ((g0.length/2 : Nat) : Int) - 1 = ((u + (g0.length/2 - 1) : Nat) : Int) := by omega
    rw [this, Int.natCast_mod]
  rw [hu']
  set v : Nat := (u + (g0.length/2 - 1)) % (2*n) with hv
  have hvN : v < 2 * n := Nat.mod_lt _ (by omega)
  apply Finset.sum_congr rfl; intro r _
  have hrN : (0:Int) ≤ (r:Int) * ((2*n : Nat) : Int) := by positivity
  by_cases hc : (v:Int) + (r:Int) * ((2*n : Nat) : Int) < 0 ∨ ((2*n + g0.length - 2 : Nat) : Int) ≤ (v:Int) + (r:Int) * ((2*n : Nat) : Int)
  · rw [if_pos hc]
    symm
    apply Finset.sum_eq_zero
    intro k hk
    have hk' : k < n := by simpa using hk
    have hge : (g0.length:Int) ≤ (v:Int) + (r:Int) * ((2*n : Nat) : Int) - 2 * (k:Int) := by
      rcases hc with hc | hc
      · omega
      · omega
    rw [getZ_of_ge g0 _ hge, getZ_of_ge g1 _ (by rw [hg1]; exact hge)]
    ring
  · rw [if_neg hc, sumN_eq]

/-- one band of the circular adjointness: the synthesis with the REVERSED analysis filter is the transpose of the
circular analysis -/
theorem per_band_adjoint (w x lo : List R) (n : Nat) (hn : 1 ≤ n) (hL : 2 ≤ w.length)
    (hLe : w.length % 2 = 0) :
    ∑ u ∈ range (2*n), getN x u * (∑ r ∈ range ((2*n + w.length - 2) / (2*n) + 1), ∑ k ∈ range n,
        getN lo k * getZ w.reverse ((((u + (w.length/2 - 1)) % (2*n) : Nat) : Int) + (r:Int) * ((2*n : Nat) : Int) - 2 * (k:Int)))
      = ∑ k ∈ range n, getN lo k * (∑ j ∈ range w.length,
          getN w j * getZ x ((2*(k:Int) + ((w.length/2 : Nat) : Int) - j) % ((2*n : Nat) : Int))) := by
  set N := 2 * n with hN
  set L := w.length with hLdef
  set c := L/2 - 1 with hc
  set Rr := (N + L - 2) / N + 1 with hR
  have hNpos : 0 < N := by omega
  -- Σ_k outside
  have lhs : ∑ u ∈ range N, getN x u * (∑ r ∈ range Rr, ∑ k ∈ range n,
        getN lo k * getZ w.reverse ((((u + c) % N : Nat) : Int) + (r:Int) * (N:Int) - 2 * (k:Int)))
      = ∑ k ∈ range n, getN lo k * (∑ u ∈ range N, ∑ r ∈ range Rr,
          getN x u * getZ w.reverse ((((u + c) % N : Nat) : Int) + (r:Int) * (N:Int) - 2 * (k:Int))) := by
    have e1 : ∀ u ∈ range N, getN x u * (∑ r ∈ range Rr, ∑ k ∈ range n,
          getN lo k * getZ w.reverse ((((u + c) % N : Nat) : Int) + (r:Int) * (N:Int) - 2 * (k:Int)))
        = ∑ k ∈ range n, ∑ r ∈ range Rr, getN lo k * (getN x u * getZ w.reverse ((((u + c) % N : Nat) : Int) + (r:Int) * (N:Int) - 2 * (k:Int))) := by
      intro u _
      rw [Finset.sum_comm, Finset.mul_sum]
      apply Finset.sum_congr rfl; intro k _
      rw [Finset.mul_sum]
      apply Finset.sum_congr rfl; intro r _; ring
    rw [Finset.sum_congr rfl e1, Finset.sum_comm]
    apply Finset.sum_congr rfl; intro k _
    rw [Finset.mul_sum]
    apply Finset.sum_congr rfl; intro u _
    rw [Finset.mul_sum]
  rw [lhs]
  apply Finset.sum_congr rfl; intro k hk
  have hk' : k < n := by simpa using hk
  congr 1
  -- fixed k: rotate, merge the blocks, read off the taps
  set e : Int → R := fun t => getZ x ((t - (c:Int)) % (N:Int)) with he
  set G : Nat → R := fun t => e (t:Int) * getZ w.reverse ((t:Int) - 2 * (k:Int)) with hG
  have hterm : ∀ u ∈ range N, ∑ r ∈ range Rr, getN x u * getZ w.reverse ((((u + c) % N : Nat) : Int) + (r:Int) * (N:Int) - 2 * (k:Int))
      = ∑ r ∈ range Rr, G ((u + c) % N + r * N) := by
    intro u hu
    have hu' : u < N := by simpa using hu
    apply Finset.sum_congr rfl; intro r _
    simp only [hG, he]
    have h1 : ((((u + c) % N + r * N : Nat) : Int) - (c:Int)) % (N:Int) = (u:Int) := by
      have hdm := Nat.div_add_mod (u + c) N
      have : ((((u + c) % N + r * N : Nat) : Int) - (c:Int)) = (u:Int) + ((r:Int) - ((u + c) / N : Nat)) * (N:Int) := by
        have h2 : (((u + c) % N : Nat) : Int) = ((u + c : Nat) : Int) - (N:Int) * (((u + c) / N : Nat) : Int) := by
          have := congrArg (fun z : Nat => (z:Int)) hdm
          push_cast at this ⊢
          linarith
        push_cast at h2 ⊢
        rw [h2]; ring
      rw [this, Int.add_mul_emod_self_right]
      exact Int.emod_eq_of_lt (by omega) (by omega)
    rw [h1, ← getN_eq_getZ]
    have h3 : (((u + c) % N + r * N : Nat) : Int) = (((u + c) % N : Nat) : Int) + (r:Int) * (N:Int) := by push_cast; ring
    rw [h3]
  rw [Finset.sum_congr rfl hterm]
  rw [sum_rot N c hNpos (fun v => ∑ r ∈ range Rr, G (v + r * N)), Finset.sum_comm, sum_blocks]
  -- Σ_{t < Rr·N} e(t)·w̃rev(t − 2k)
  have hwin : ∀ i < w.reverse.length, 0 ≤ 2 * (k:Int) + (i:Int) ∧ 2 * (k:Int) + (i:Int) < ((Rr * N : Nat) : Int) := by
    intro i hi
    rw [List.length_reverse] at hi
    have hRN : N + L - 2 < Rr * N := by
      have := Nat.lt_div_mul_add (a := N + L - 2) hNpos
      rw [hR, Nat.add_mul, Nat.one_mul]; exact this
    constructor
    · omega
    · have : ((Rr * N : Nat) : Int) > ((N + L - 2 : Nat) : Int) := by exact_mod_cast hRN
      omega
  have := sum_taps_pos w.reverse e (2 * (k:Int)) (Rr * N) hwin
  simp only [hG]
  rw [this, List.length_reverse]
  rw [← Finset.sum_range_reflect]
  apply Finset.sum_congr rfl; intro j hj
  have hj' : j < L := by simpa using hj
  rw [getN_reverse w j (by omega)]
  congr 1
  simp only [he]
  congr 2
  have : ((w.length - 1 - j : Nat) : Int) = (L:Int) - 1 - j := by omega
  rw [this]
  have hc2 : (c:Int) = ((L/2 : Nat) : Int) - 1 := by omega
  have hL2 : (L:Int) = 2 * ((L/2 : Nat) : Int) := by omega
  rw [hc2]; omega

/-- **The inverse is the transpose** (any even filter length, any even signal length, no condition on the
filter values): PyWavelets' periodization synthesis with the REVERSED analysis filters is the adjoint of the
periodization analysis, `⟨x, S(lo,hi)⟩ = ⟨A₀x, lo⟩ + ⟨A₁x, hi⟩` for all `x, lo, hi`. -/
theorem per_synthesis_is_transpose (h0 h1 x lo hi : List R) (n : Nat) (hn : 1 ≤ n) (hx : x.length = 2 * n)
    (hlo : lo.length = n) (hL : 2 ≤ h0.length) (hLe : h0.length % 2 = 0) (hh1 : h1.length = h0.length) :
    ∑ u ∈ range (2*n), getN x u * getN (Spec.idwt .periodization h0.reverse h1.reverse lo hi) u
      = ∑ k ∈ range n, getN lo k * getN (Spec.dwt .periodization h0 x) k
        + ∑ k ∈ range n, getN hi k * getN (Spec.dwt .periodization h1 x) k := by
  have hodd : ¬ (x.length % 2 = 1) := by omega
  have hdw : ∀ (h : List R), h.length = h0.length → ∀ k < n,
      getN (Spec.dwt .periodization h x) k = ∑ j ∈ range h0.length,
        getN h j * getZ x ((2*(k:Int) + ((h0.length/2 : Nat) : Int) - j) % ((2*n : Nat) : Int)) := by
    intro h hh k hk
    simp only [Spec.dwt, hodd, if_false, hh]
    have : x.length / 2 = n := by omega
    rw [this, getN_tab, if_pos hk, sumN_eq, hx]
  have hsplit : ∀ u ∈ range (2*n), getN x u * getN (Spec.idwt .periodization h0.reverse h1.reverse lo hi) u
      = getN x u * (∑ r ∈ range ((2*n + h0.length - 2) / (2*n) + 1), ∑ k ∈ range n,
          getN lo k * getZ h0.reverse ((((u + (h0.length/2 - 1)) % (2*n) : Nat) : Int) + (r:Int) * ((2*n : Nat) : Int) - 2 * (k:Int)))
        + getN x u * (∑ r ∈ range ((2*n + h0.length - 2) / (2*n) + 1), ∑ k ∈ range n,
          getN hi k * getZ h1.reverse ((((u + (h0.length/2 - 1)) % (2*n) : Nat) : Int) + (r:Int) * ((2*n : Nat) : Int) - 2 * (k:Int))) := by
    intro u hu
    have hu' : u < 2 * n := by simpa using hu
    rw [idwt_per_get h0.reverse h1.reverse lo hi n hn hlo (by simpa using hL) (by simp [hh1]) u hu']
    simp only [List.length_reverse]
    rw [← mul_add]
    congr 1
    rw [← Finset.sum_add_distrib]
    apply Finset.sum_congr rfl; intro r _
    rw [← Finset.sum_add_distrib]
  rw [Finset.sum_congr rfl hsplit, Finset.sum_add_distrib]
  have b0 := per_band_adjoint h0 x lo n hn hL hLe
  have b1 := per_band_adjoint h1 x hi n hn (by omega) (by omega)
  rw [hh1] at b1
  rw [b0, b1]
  congr 1
  · apply Finset.sum_congr rfl; intro k hk
    rw [hdw h0 rfl k (by simpa using hk)]
  · apply Finset.sum_congr rfl; intro k hk
    rw [hdw h1 hh1 k (by simpa using hk)]


end WV
