/-
  Periodization: roll + zero-padded strided correlation + single wrap-around fold
  equals the circular formula, when the (even) length is at least the filter length.
-/
import WaveletsVerif.Lemmas.Basic
namespace WV
open Finset
variable {R : Type} [CommRing R]

omit [CommRing R] in
/-- `roll(x, -a)` for `0 ≤ a ≤ N` is `x[a:] ++ x[:a]` -/
theorem rollPy_neg {α : Type} (x : List α) (a : Nat) (ha : a ≤ x.length) :
    rollPy x (-(a:Int)) = x.drop a ++ x.take a := by
  unfold rollPy sliceFrom sliceTo pyBound
  by_cases h0 : a = 0
  · subst h0
    have : ¬ ((x.length:Int) < 0) := by omega
    simp [this]
  · have hneg : (-(a:Int)) < 0 := by omega
    simp only [hneg, if_true]
    by_cases hN : a = x.length
    · subst hN
      have : ¬ ((x.length:Int) < 0) := by omega
      simp [this]
    · have e : -((x.length:Int) + -(a:Int)) = (a:Int) - x.length := by ring
      rw [e]
      have h1 : (a:Int) - x.length < 0 := by omega
      have h2 : (a:Int) - x.length + x.length = a := by ring
      simp only [h1, if_true, h2]
      have h3 : ¬ ((a:Int) < 0) := by omega
      have h4 : ¬ ((x.length:Int) < a) := by omega
      simp only [h3, h4, if_false, Int.toNat_natCast]

theorem getZ_roll (x : List R) (a : Nat) (ha : a ≤ x.length) (i : Int)
    (h0 : 0 ≤ i) (h1 : i < x.length) :
    getZ (x.drop a ++ x.take a) i = getZ x ((i + a) % (x.length : Int)) := by
  have hN : (0:Int) < x.length := by omega
  unfold getZ
  have e0 : 0 ≤ (i + a) % (x.length : Int) := Int.emod_nonneg _ (by omega)
  simp only [h0, e0, if_true]
  rw [List.getD_eq_getElem?_getD, List.getD_eq_getElem?_getD]
  by_cases hc : i.toNat < x.length - a
  · rw [List.getElem?_append_left (by simp; omega), List.getElem?_drop]
    have : (i + a) % (x.length : Int) = i + a := Int.emod_eq_of_lt (by omega) (by omega)
    rw [this]; congr 2; omega
  · rw [List.getElem?_append_right (by simp; omega), List.getElem?_take]
    have : (i + a) % (x.length : Int) = i + a - x.length := by
      rw [← Int.sub_emod_right]; exact Int.emod_eq_of_lt (by omega) (by omega)
    rw [this]
    simp only [List.length_drop]
    have hlt : i.toNat - (x.length - a) < a := by omega
    simp only [hlt, if_true]
    congr 2; omega

omit [CommRing R] in
theorem length_roll {α : Type} (x : List α) (a : Nat) (ha : a ≤ x.length) : (x.drop a ++ x.take a).length = x.length := by
  simp; omega

/-- the periodization branch of `afb1d` for even `N ≥ L` (even `L`): circular formula -/
theorem afbPer_even (h x : List R) (hLe : h.length % 2 = 0) (hL : 2 ≤ h.length)
    (hNe : x.length % 2 = 0) (hLN : h.length ≤ x.length) :
    ((foldAdd (corr h.reverse (zeroPad (rollPy x (-((h.length/2 : Nat):Int))) (h.length-1) (h.length-1)) 2 1)
        (h.length/2) (x.length/2)).take (x.length/2))
      = tab (x.length/2) fun k => sumN h.length fun j =>
          getN h j * getZ x ((2*(k:Int) + ((h.length/2 : Nat):Int) - j) % (x.length : Int)) := by
  rw [rollPy_neg x _ (by omega)]
  have hroll : (x.drop (h.length/2) ++ x.take (h.length/2)).length = x.length := length_roll x _ (by omega)
  set xr := x.drop (h.length/2) ++ x.take (h.length/2) with hxr
  have hplen : (zeroPad xr (h.length-1) (h.length-1)).length = x.length + 2*(h.length-1) := by
    simp [hroll]; omega
  have hclen : (corr h.reverse (zeroPad xr (h.length-1) (h.length-1)) 2 1).length = x.length/2 + h.length/2 := by
    rw [corr_length, hplen, List.length_reverse]; unfold corrLen; split <;> omega
  -- as a list: take of a tab
  have hfold : (foldAdd (corr h.reverse (zeroPad xr (h.length-1) (h.length-1)) 2 1) (h.length/2) (x.length/2)).length
      = x.length/2 + h.length/2 := by simp [foldAdd, hclen]
  apply List.ext_getElem
  · simp [hfold]
  · intro k hk1 hk2
    have hk : k < x.length/2 := by simpa using hk2
    rw [List.getElem_take]
    simp only [tab, List.getElem_map, List.getElem_range]
    -- unfold foldAdd at position k
    have hget : (foldAdd (corr h.reverse (zeroPad xr (h.length-1) (h.length-1)) 2 1) (h.length/2) (x.length/2))[k]'(by rw [hfold]; omega)
        = (if k < h.length/2 then getN (corr h.reverse (zeroPad xr (h.length-1) (h.length-1)) 2 1) k
              + getN (corr h.reverse (zeroPad xr (h.length-1) (h.length-1)) 2 1) (x.length/2 + k)
            else getN (corr h.reverse (zeroPad xr (h.length-1) (h.length-1)) 2 1) k) := by
      simp [foldAdd, tab]
    rw [hget]
    have hcl : corrLen (zeroPad xr (h.length-1) (h.length-1)).length h.reverse.length 2 1 = x.length/2 + h.length/2 := by
      rw [← corr_length]; exact hclen
    rw [getN_corr2 _ _ k (by rw [hcl]; omega)]
    have hsecond : (if k < h.length/2 then
          (∑ j ∈ range h.reverse.length, getN h.reverse j * getZ (zeroPad xr (h.length-1) (h.length-1)) ((2*k + j : Nat):Int))
            + getN (corr h.reverse (zeroPad xr (h.length-1) (h.length-1)) 2 1) (x.length/2 + k)
        else (∑ j ∈ range h.reverse.length, getN h.reverse j * getZ (zeroPad xr (h.length-1) (h.length-1)) ((2*k + j : Nat):Int)))
        = ∑ j ∈ range h.length, (getN h.reverse j * getZ (zeroPad xr (h.length-1) (h.length-1)) ((2*k + j : Nat):Int)
            + (if k < h.length/2 then getN h.reverse j *
                getZ (zeroPad xr (h.length-1) (h.length-1)) ((2*(x.length/2 + k) + j : Nat) : Int) else 0)) := by
      simp only [List.length_reverse]
      split
      · rw [getN_corr2 _ _ _ (by rw [hcl]; omega), Finset.sum_add_distrib]
        simp only [List.length_reverse]
      · simp
    rw [hsecond, sumN_eq, ← Finset.sum_range_reflect]
    apply Finset.sum_congr rfl
    intro j hj
    have hj' : j < h.length := by simpa using hj
    rw [getN_reverse h j hj', getZ_zeroPad, getZ_zeroPad]
    have hi1 : ((2*k + (h.length - 1 - j) : Nat) : Int) - ((h.length - 1 : Nat) : Int) = 2*(k:Int) - j := by
      push_cast; omega
    have hi2 : ((2*(x.length/2 + k) + (h.length - 1 - j) : Nat) : Int) - ((h.length - 1 : Nat) : Int)
        = 2*(k:Int) - j + x.length := by
      push_cast; omega
    rw [hi1, hi2]
    have hN : (0:Int) < x.length := by omega
    by_cases hpos : 0 ≤ 2*(k:Int) - j
    · rw [getZ_roll x _ (by omega) _ hpos (by omega)]
      rw [getZ_of_ge xr (2*(k:Int) - j + x.length) (by rw [hroll]; omega)]
      have : (2*(k:Int) - j + ((h.length/2 : Nat) : Int)) = 2*(k:Int) + ((h.length/2 : Nat):Int) - j := by ring
      rw [this]
      split <;> ring
    · have hneg : 2*(k:Int) - j < 0 := by omega
      rw [getZ_neg _ _ hneg]
      have hk2' : k < h.length/2 := by omega
      simp only [hk2', if_true]
      rw [getZ_roll x _ (by omega) _ (by omega) (by omega)]
      have : (2*(k:Int) - j + x.length + ((h.length/2 : Nat) : Int)) % (x.length : Int)
          = (2*(k:Int) + ((h.length/2 : Nat):Int) - j) % (x.length : Int) := by
        have : 2*(k:Int) - j + x.length + ((h.length/2 : Nat) : Int)
            = (2*(k:Int) + ((h.length/2 : Nat):Int) - j) + x.length := by ring
        rw [this, Int.add_emod_right]
      rw [this]; ring

end WV
