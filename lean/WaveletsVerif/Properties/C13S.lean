/-
  C13 — circular-shift equivariance of the whole 2-D stationary transform.

  The one-dimensional statement (`C13.swt_shift`: `swt (rot s x) = rot s (swt x)` for every filter, dilation, shift and
  length) is lifted along rows and columns (`rowsMap_rot2`, `colsMap_rot2`, through `tr (rot2 x) = rot2 (tr x)`), to one
  undecimated level (`swt2Level_rot2`), to every number of levels (`swt2_rot2`), and — with `C13.SWTForward_eq_swt2` — to the
  implementation model of `SWTForward`: shifting the input image circularly by `(s1, s2)` shifts every band of every level
  by `(s1, s2)` (`SWTForward_shift`), for every image size, every shift (negative and larger than the image included),
  every J and all even filter lengths.
-/
import WaveletsVerif.Properties.C13
import WaveletsVerif.Properties.C04
namespace WV.C13S
open WV WV.C04 WV.C13
variable {R : Type} [CommRing R]

/-- `np.roll(x, (s1, s2), axis=(0, 1))` -/
def rot2 (s1 s2 : Int) (x : Img R) : Img R :=
  tab2 x.length x.width fun i j => get2 x (((i:Int) - s1) % (x.length : Int)).toNat (((j:Int) - s2) % (x.width : Int)).toNat

theorem rot2_rect (s1 s2 : Int) (x : Img R) (H W : Nat) (hx : Rect x H W) (hH : 1 ≤ H) : Rect (rot2 s1 s2 x) H W := by
  unfold rot2
  rw [hx.1, rect_width x H W hx hH]
  exact tab2_rect _ _ _

theorem idx_lt (k : Nat) (s : Int) (n : Nat) (hn : 1 ≤ n) : (((k:Int) - s) % (n : Int)).toNat < n := by
  have e0 := Int.emod_nonneg ((k:Int) - s) (by omega : (n:Int) ≠ 0)
  have e1 := Int.emod_lt_of_pos ((k:Int) - s) (by omega : (0:Int) < n)
  omega

/-- a row of the shifted image is the shifted row -/
theorem rot2_row (s1 s2 : Int) (x : Img R) (H W : Nat) (hx : Rect x H W) (hH : 1 ≤ H) (hW : 1 ≤ W) (i : Nat) (hi : i < H) :
    (rot2 s1 s2 x).getD i [] = rot s2 (x.getD (((i:Int) - s1) % (H : Int)).toNat []) := by
  have hw := rect_width x H W hx hH
  unfold rot2
  rw [hx.1, hw]
  unfold tab2
  rw [getD_tab, if_pos hi]
  have hi' := idx_lt i s1 H hH
  have hrow : (x.getD (((i:Int) - s1) % (H : Int)).toNat []).length = W := hx.2 _ (by
    simp [List.getD_eq_getElem?_getD, List.getElem?_eq_getElem (by rw [hx.1]; exact hi' : _ < x.length)])
  unfold rot
  rw [hrow]
  apply tab_ext rfl; intro j hj
  have e0 := Int.emod_nonneg ((j:Int) - s2) (by omega : (W:Int) ≠ 0)
  unfold get2 getZ
  rw [if_pos e0]

theorem rowsMap_rot2 (f : List R → List R) (s1 s2 : Int) (x : Img R) (H W : Nat) (hx : Rect x H W) (hH : 1 ≤ H) (hW : 1 ≤ W)
    (hlen : ∀ r : List R, r.length = W → (f r).length = W)
    (hcomm : ∀ r : List R, r.length = W → f (rot s2 r) = rot s2 (f r)) :
    Spec.rowsMap f (rot2 s1 s2 x) = rot2 s1 s2 (Spec.rowsMap f x) := by
  have hfx : Rect (Spec.rowsMap f x) H W := by
    constructor
    · simp [Spec.rowsMap, hx.1]
    · intro r hr
      simp only [Spec.rowsMap, List.mem_map] at hr
      obtain ⟨a, ha, rfl⟩ := hr
      exact hlen a (hx.2 a ha)
  have r1 := rot2_rect s1 s2 x H W hx hH
  apply List.ext_getElem
  · rw [(rot2_rect s1 s2 _ H W hfx hH).1]; simp [Spec.rowsMap, r1.1]
  · intro i h1 h2
    have hi : i < H := by simpa [Spec.rowsMap, r1.1] using h1
    have hi' := idx_lt i s1 H hH
    have e1 : (Spec.rowsMap f (rot2 s1 s2 x))[i] = f ((rot2 s1 s2 x).getD i []) := by
      simp [Spec.rowsMap, List.getD_eq_getElem?_getD, List.getElem?_eq_getElem (by rw [r1.1]; exact hi : i < (rot2 s1 s2 x).length)]
    have e2 : (rot2 s1 s2 (Spec.rowsMap f x))[i] = (rot2 s1 s2 (Spec.rowsMap f x)).getD i [] := by
      simp [List.getD_eq_getElem?_getD, List.getElem?_eq_getElem h2]
    rw [e1, e2, rot2_row s1 s2 x H W hx hH hW i hi, rot2_row s1 s2 _ H W hfx hH hW i hi]
    have hrow : (x.getD (((i:Int) - s1) % (H : Int)).toNat []).length = W := hx.2 _ (by
      simp [List.getD_eq_getElem?_getD, List.getElem?_eq_getElem (by rw [hx.1]; exact hi' : _ < x.length)])
    rw [hcomm _ hrow]
    congr 1
    simp [Spec.rowsMap, List.getD_eq_getElem?_getD, List.getElem?_eq_getElem (by rw [hx.1]; exact hi' : _ < x.length)]

theorem tr_rot2 (s1 s2 : Int) (x : Img R) (H W : Nat) (hx : Rect x H W) (hH : 1 ≤ H) (hW : 1 ≤ W) :
    tr (rot2 s1 s2 x) = rot2 s2 s1 (tr x) := by
  have hw := rect_width x H W hx hH
  have r1 := rot2_rect s1 s2 x H W hx hH
  have hw1 := rect_width _ H W r1 hH
  have rt : Rect (tr x) W H := by unfold tr; rw [hw, hx.1]; exact tab2_rect _ _ _
  have hwt := rect_width _ W H rt hW
  unfold tr
  rw [hw1, r1.1]
  conv_rhs => unfold rot2
  have e1 : (tab2 x.width x.length fun j i => get2 x i j).length = W := by simp [tab2, hw]
  have e2 : Img.width (tab2 x.width x.length fun j i => get2 x i j) = H := by
    have := hwt; unfold tr at this; exact this
  rw [e1, e2]
  apply tab2_congr; intro j hj i hi
  have hi' := idx_lt i s1 H hH
  have hj' := idx_lt j s2 W hW
  rw [hw, hx.1, C19.get2_tab2 _ _ _ _ _ hj' hi']
  unfold rot2
  rw [hx.1, hw, C19.get2_tab2 _ _ _ _ _ hi hj]

theorem colsMap_rot2 (g : List R → List R) (s1 s2 : Int) (x : Img R) (H W : Nat) (hx : Rect x H W) (hH : 1 ≤ H) (hW : 1 ≤ W)
    (hlen : ∀ r : List R, r.length = H → (g r).length = H)
    (hcomm : ∀ r : List R, r.length = H → g (rot s1 r) = rot s1 (g r)) :
    Spec.colsMap g (rot2 s1 s2 x) = rot2 s1 s2 (Spec.colsMap g x) := by
  have hw := rect_width x H W hx hH
  have rt : Rect (tr x) W H := by unfold tr; rw [hw, hx.1]; exact tab2_rect _ _ _
  have rtm : Rect ((tr x).map g) W H := by
    constructor
    · simp [rt.1]
    · intro r hr
      simp only [List.mem_map] at hr
      obtain ⟨a, ha, rfl⟩ := hr
      exact hlen a (rt.2 a ha)
  unfold Spec.colsMap
  rw [tr_rot2 s1 s2 x H W hx hH hW]
  have := rowsMap_rot2 g s2 s1 (tr x) W H rt hW hH hlen hcomm
  unfold Spec.rowsMap at this
  rw [this, tr_rot2 s2 s1 _ W H rtm hW hH]

theorem rowsMap_swt_rect (h : List R) (d : Nat) (x : Img R) (H W : Nat) (hx : Rect x H W) :
    Rect (Spec.rowsMap (fun r => Spec.swt h r d) x) H W := by
  constructor
  · simp [Spec.rowsMap, hx.1]
  · intro r hr
    simp only [Spec.rowsMap, List.mem_map] at hr
    obtain ⟨a, ha, rfl⟩ := hr
    rw [swt_length]; exact hx.2 a ha

theorem colsMap_swt_rect (h : List R) (d : Nat) (x : Img R) (H W : Nat) (hx : Rect x H W) (hH : 1 ≤ H) (hW : 1 ≤ W) :
    Rect (Spec.colsMap (fun r => Spec.swt h r d) x) H W := by
  have hw := rect_width x H W hx hH
  have rt : Rect (tr x) W H := by unfold tr; rw [hw, hx.1]; exact tab2_rect _ _ _
  have rtm : Rect ((tr x).map fun r => Spec.swt h r d) W H := by
    constructor
    · simp [rt.1]
    · intro r hr
      simp only [List.mem_map] at hr
      obtain ⟨a, ha, rfl⟩ := hr
      rw [swt_length]; exact rt.2 a ha
  have trr : ∀ y : Img R, Rect y W H → Rect (tr y) H W := by
    intro y hy
    unfold tr
    rw [hy.1, rect_width y W H hy hW]
    exact tab2_rect _ _ _
  unfold Spec.colsMap
  exact trr _ rtm

/-- one undecimated level commutes with the circular shift, band by band -/
theorem swt2Level_rot2 (c0 c1 r0 r1 : List R) (d : Nat) (s1 s2 : Int) (x : Img R) (H W : Nat) (hx : Rect x H W) (hH : 1 ≤ H) (hW : 1 ≤ W) :
    Spec.swt2Level c0 c1 r0 r1 d (rot2 s1 s2 x) = (Spec.swt2Level c0 c1 r0 r1 d x).map (rot2 s1 s2) := by
  have hrow : ∀ (h : List R), Spec.rowsMap (fun r => Spec.swt h r d) (rot2 s1 s2 x)
      = rot2 s1 s2 (Spec.rowsMap (fun r => Spec.swt h r d) x) := fun h =>
    rowsMap_rot2 _ s1 s2 x H W hx hH hW (fun r hr => by rw [swt_length]; exact hr) (fun r hr => swt_shift h r d s2 (by omega))
  have hcol : ∀ (h : List R) (y : Img R), Rect y H W → Spec.colsMap (fun r => Spec.swt h r d) (rot2 s1 s2 y)
      = rot2 s1 s2 (Spec.colsMap (fun r => Spec.swt h r d) y) := fun h y hy =>
    colsMap_rot2 _ s1 s2 y H W hy hH hW (fun r hr => by rw [swt_length]; exact hr) (fun r hr => swt_shift h r d s1 (by omega))
  unfold Spec.swt2Level
  simp only [hrow, List.map_cons, List.map_nil]
  rw [hcol c0 _ (rowsMap_swt_rect r0 d x H W hx), hcol c1 _ (rowsMap_swt_rect r0 d x H W hx),
    hcol c0 _ (rowsMap_swt_rect r1 d x H W hx), hcol c1 _ (rowsMap_swt_rect r1 d x H W hx)]

/-- every level of `swt2` commutes with the circular shift -/
theorem swt2_rot2 (c0 c1 r0 r1 : List R) (s1 s2 : Int) (H W : Nat) (hH : 1 ≤ H) (hW : 1 ≤ W) :
    ∀ (J j : Nat) (x : Img R), Rect x H W →
      Spec.swt2 c0 c1 r0 r1 J j (rot2 s1 s2 x) = (Spec.swt2 c0 c1 r0 r1 J j x).map fun b => b.map (rot2 s1 s2)
  | 0, _, _, _ => by simp [Spec.swt2]
  | J+1, j, x, hx => by
    simp only [Spec.swt2, List.map_cons]
    rw [swt2Level_rot2 c0 c1 r0 r1 (2^j) s1 s2 x H W hx hH hW]
    congr 1
    have hA : ((Spec.swt2Level c0 c1 r0 r1 (2^j) x).map (rot2 s1 s2)).getD 0 []
        = rot2 s1 s2 ((Spec.swt2Level c0 c1 r0 r1 (2^j) x).getD 0 []) := by
      simp [Spec.swt2Level]
    rw [hA]
    apply swt2_rot2 c0 c1 r0 r1 s1 s2 H W hH hW J (j+1)
    simp only [Spec.swt2Level, List.getD_cons_zero]
    exact colsMap_swt_rect c0 (2^j) _ H W (rowsMap_swt_rect r0 (2^j) x H W hx) hH hW

omit [CommRing R] in
theorem nonEmpty_of_rect (x : Img R) (H W : Nat) (hx : Rect x H W) (hH : 1 ≤ H) (hW : 1 ≤ W) : C01.NonEmptyImg x :=
  ⟨by rw [hx.1]; exact hH, fun r hr => by rw [hx.2 r hr]; exact hW⟩

/-- **`SWTForward` is circular-shift equivariant**: the implementation model of the J-level stationary transform on the
shifted image returns every band of every level shifted by the same `(s1, s2)` — every image size, every shift, every J,
even filter lengths, modes 'periodization' (the default) and 'periodic' -/
theorem SWTForward_shift (mode : Mode) (hm : mode = .periodization ∨ mode = .periodic)
    (c0 c1 r0 r1 : List R) (hc0 : 2 ≤ c0.length ∧ c0.length % 2 = 0) (hc1 : 2 ≤ c1.length ∧ c1.length % 2 = 0)
    (hr0 : 2 ≤ r0.length ∧ r0.length % 2 = 0) (hr1 : 2 ≤ r1.length ∧ r1.length % 2 = 0)
    (J : Nat) (s1 s2 : Int) (x : Img R) (H W : Nat) (hx : Rect x H W) (hH : 1 ≤ H) (hW : 1 ≤ W) :
    ∃ ys, SWTForwardM mode J [c0, c1, r0, r1] [x] = some ys ∧
      SWTForwardM mode J [c0, c1, r0, r1] [rot2 s1 s2 x] = some (ys.map fun lvl => lvl.map fun ch => ch.map (rot2 s1 s2)) := by
  refine ⟨_, SWTForward_eq_swt2 mode hm c0 c1 r0 r1 hc0 hc1 hr0 hr1 J x (nonEmpty_of_rect x H W hx hH hW), ?_⟩
  rw [SWTForward_eq_swt2 mode hm c0 c1 r0 r1 hc0 hc1 hr0 hr1 J _ (nonEmpty_of_rect _ H W (rot2_rect s1 s2 x H W hx hH) hH hW),
    swt2_rot2 c0 c1 r0 r1 s1 s2 H W hH hW J 0 x hx]
  simp [List.map_map, Function.comp_def]

/-- the hypotheses are satisfiable; and a concrete shift: rolling a 2 × 3 image by (1, −1) -/
example : rot2 1 (-1) ([[1, 2, 3], [4, 5, 6]] : Img Int) = [[5, 6, 4], [2, 3, 1]] := by decide

end WV.C13S
