/-
  C16 — dtype is preserved and float32 results are float32-accurate.

  * dtype propagation (abstract interpretation `Model/Dtype.lean`, tied to the code by an
    exhaustive grid correspondence): on every transform path the result has the input's dtype
    whenever the module's buffers have it, whatever the process default dtype is, and the call
    raises exactly when they differ;
  * numerics over ℝ: every output sample of a linear transform is a fixed dot product, so
    `|Σ a_j x_j| ≤ (Σ|a_j|)·max|x|` — the operator's gain (largest absolute row sum) bounds the
    output, and a composition's gain is at most the product of gains; the float32-vs-float64
    deviation measured on the real code is compared against `c·eps32·(gain·max|x| + bias)`.
  Rounding itself (IEEE arithmetic, summation order) and memory layout (strides) are runtime:
  they are measured on the real code, not proved (partial).
-/
import WaveletsVerif.Model.Dtype
import Mathlib.Algebra.Order.BigOperators.Group.Finset
import Mathlib.Algebra.Order.AbsoluteValue.Basic
import Mathlib.Tactic.Linarith
import Mathlib.Tactic.Ring
import Mathlib.Algebra.BigOperators.Ring.Finset
import Mathlib.Algebra.Order.Field.Basic
import Mathlib.Data.Real.Basic
namespace WV.C16
open WV.Dtype Finset

/-- matching dtypes: the result has the dtype of the input, on every path, for every default dtype -/
theorem dtype_preserved (p : Path) (d dflt : DT) : run p d d dflt = some d := by
  cases p <;> cases d <;> cases dflt <;> decide

/-- mismatching dtypes raise on every path (never a silently converted result) -/
theorem dtype_mismatch_raises (p : Path) (x buf dflt : DT) (h : x ≠ buf) : run p x buf dflt = none := by
  cases p <;> cases x <;> cases buf <;> cases dflt <;> first | (exact absurd rfl h) | decide

/-- the result never depends on the process-wide default dtype -/
theorem default_dtype_irrelevant (p : Path) (x buf d1 d2 : DT) : run p x buf d1 = run p x buf d2 := by
  cases p <;> rfl

/-- one output sample: `|Σ_j a_j x_j| ≤ (Σ_j |a_j|) · M` whenever `|x_j| ≤ M` -/
theorem abs_dot_le (n : Nat) (a x : Nat → ℝ) (M : ℝ) (hx : ∀ j < n, |x j| ≤ M) :
    |∑ j ∈ range n, a j * x j| ≤ (∑ j ∈ range n, |a j|) * M := by
  calc |∑ j ∈ range n, a j * x j| ≤ ∑ j ∈ range n, |a j * x j| := Finset.abs_sum_le_sum_abs _ _
    _ = ∑ j ∈ range n, |a j| * |x j| := by simp [abs_mul]
    _ ≤ ∑ j ∈ range n, |a j| * M := by
        apply Finset.sum_le_sum
        intro j hj
        exact mul_le_mul_of_nonneg_left (hx j (by simpa using hj)) (abs_nonneg _)
    _ = (∑ j ∈ range n, |a j|) * M := by rw [Finset.sum_mul]

/-- gains compose: if every row of `A` has absolute sum `≤ gA` and every `x_j` is itself a dot product
with row sums `≤ gB` of inputs bounded by `M`, the composition is bounded by `gA·gB·M` -/
theorem gain_compose (n m : Nat) (a : Nat → ℝ) (b : Nat → Nat → ℝ) (x : Nat → ℝ) (M gA gB : ℝ)
    (hA : ∑ j ∈ range n, |a j| ≤ gA) (hB : ∀ j < n, ∑ k ∈ range m, |b j k| ≤ gB) (hM : 0 ≤ M)
    (hgB : 0 ≤ gB) (hx : ∀ k < m, |x k| ≤ M) :
    |∑ j ∈ range n, a j * (∑ k ∈ range m, b j k * x k)| ≤ gA * gB * M := by
  have h1 : ∀ j < n, |∑ k ∈ range m, b j k * x k| ≤ gB * M := by
    intro j hj
    calc |∑ k ∈ range m, b j k * x k| ≤ (∑ k ∈ range m, |b j k|) * M := abs_dot_le m (b j) x M hx
      _ ≤ gB * M := mul_le_mul_of_nonneg_right (hB j hj) hM
  calc |∑ j ∈ range n, a j * (∑ k ∈ range m, b j k * x k)|
      ≤ (∑ j ∈ range n, |a j|) * (gB * M) := abs_dot_le n a _ (gB * M) h1
    _ ≤ gA * (gB * M) := mul_le_mul_of_nonneg_right hA (mul_nonneg hgB hM)
    _ = gA * gB * M := by ring

end WV.C16
