/-
  C05 — back-propagation through the whole J-level ONE-DIMENSIONAL inverse transform `DWT1DInverse` is the exact adjoint: the
  low-pass and every band-pass level receive their gradients, the one-sample crops of the module's loop included.

  `DWT1DInverse` applies `SFB1D` from the coarsest level to the finest and drops the last sample of the running low-pass when it is
  one sample longer than that level's band-pass signal.  Autograd therefore runs `SFB1D.backward` (the analysis bank with the
  synthesis filters) from the finest level to the coarsest, keeps the band-pass gradient of each level and hands the low-pass
  gradient on, extended by one zero where the forward pass cropped (`DWT1DInverseBackward`).  The induction over the levels is done
  once for any mode in which one level is adjoint (`loop_adjoint`), and instantiated
    * in mode zero for every forward-compatible pyramid of lengths and all filter lengths that fit (`DWT1DInverse_zero_adjoint`),
    * in periodization for any even-length synthesis filters with `L ≤ 2K` at every level (`DWT1DInverse_per_adjoint`).
-/
import WaveletsVerif.Properties.C05T
import WaveletsVerif.Properties.C05U
import Mathlib.Data.List.GetD
namespace WV.C05V
open Finset WV WV.C05D WV.C05P WV.C05U
variable {R : Type} [CommRing R]

/-- the chain of `SFB1D.backward` passes: crop flags finest first, cotangent of the output ↦ (low-pass gradient, band-pass gradients) -/
def DWT1DInverseBackward (m : Mode) (g0 g1 : List R) : List Bool → List R → Option (List R × List (List R))
  | [], dy => some (dy, [])
  | c :: fl, dy => do
    let r ← SFB1D_backward m g0 g1 [dy]
    let (gl, rest) ← DWT1DInverseBackward m g0 g1 fl (if c then r.1.getD 0 [] ++ [0] else r.1.getD 0 [])
    some (gl, (r.2.getD 0 []) :: rest)

theorem SFB1D_backward_eq (m : Mode) (g0 g1 : List R) (dy : List (List R)) :
    SFB1D_backward m g0 g1 dy = AFB1D_forward m g0 g1 dy := rfl

theorem SFB1D_forward_one (m : Mode) (g0 g1 lo hi y : List R) (h : sfb1dCh m g0 g1 lo hi = some y) :
    SFB1D_forward m g0 g1 [lo] [hi] = some [y] := by
  unfold SFB1D_forward
  simp only [List.map_cons, List.map_nil]
  rw [C10.sfb1dT_single]
  have : sfb1dImg .W m g0 g1 [lo] [hi] = some [y] := by simp [sfb1dImg, List.range, List.range.loop, h]
  rw [this]
  simp

/-- the crop of the running low-pass is the adjoint of the zero extension of its gradient -/
theorem crop_adjoint1 (z g : List R) (K Z : Nat) (hz : z.length = Z) (hg : g.length = K) (hZ : Z = K ∨ Z = K + 1) :
    dotN K g (if z.length > K then z.take (z.length - 1) else z)
      = dotN Z (if decide (Z > K) = true then g ++ [0] else g) z := by
  rcases hZ with h | h
  · subst h
    simp [hz]
  · have h1 : z.length > K := by omega
    have h2 : Z > K := by omega
    simp only [h1, h2, if_true, decide_true]
    unfold dotN
    rw [h, Finset.sum_range_succ]
    have e0 : getN (g ++ [(0:R)]) K = 0 := by
      unfold getN
      rw [List.getD_append_right _ _ _ _ (by omega), hg]
      simp
    rw [e0, zero_mul, add_zero]
    apply Finset.sum_congr rfl; intro k hk
    simp only [Finset.mem_range] at hk
    rw [getN_take _ _ _ (by omega)]
    congr 1
    unfold getN
    rw [List.getD_append _ _ _ _ (by omega)]

section generic
variable (m : Mode) (g0 g1 : List R) (Fit : Nat → Prop) (Out : Nat → Nat)

/-- one level is adjoint (synthesis side): what the induction needs from a mode -/
def LevelAdjS : Prop :=
  ∀ lo hi dy : List R, Fit lo.length → hi.length = lo.length → dy.length = Out lo.length →
    ∃ y dlo dhi, sfb1dCh m g0 g1 lo hi = some y ∧ afb1dOne m g0 dy = some dlo ∧ afb1dOne m g1 dy = some dhi ∧
      y.length = Out lo.length ∧ dlo.length = lo.length ∧ dhi.length = lo.length ∧
      dotN (Out lo.length) dy y = dotN lo.length dlo lo + dotN lo.length dhi hi

/-- output length of the pyramid: band lengths finest first, then the length of the low-pass -/
def outSize1 : List Nat → Nat → Nat
  | [], A => A
  | K :: _, _ => Out K

/-- where the forward pass crops -/
def flags1 : List Nat → Nat → List Bool
  | [], _ => []
  | K :: ks, A => decide (outSize1 Out ks A > K) :: flags1 ks A

/-- a forward-compatible pyramid of band lengths: every level receives a low-pass of its own length or one sample more -/
def SizesOK1 : List Nat → Nat → Prop
  | [], _ => True
  | K :: ks, A => SizesOK1 ks A ∧ Fit K ∧ (outSize1 Out ks A = K ∨ outSize1 Out ks A = K + 1)

def BandsOK : List Nat → List (List R) → Prop
  | [], [] => True
  | K :: ks, b :: bs => b.length = K ∧ BandsOK ks bs
  | _, _ => False

def bandsDot1 : List Nat → List (List R) → List (List R) → R
  | K :: ks, b :: bs, d :: ds => dotN K d b + bandsDot1 ks bs ds
  | _, _, _ => 0

/-- **the chain rule over the loop of `DWT1DInverse` gives the adjoint** whenever one level is adjoint:
`⟨DWT1DInverse(yl, yh), dy⟩ = ⟨yl, d yl⟩ + Σ_levels ⟨yh_j, d yh_j⟩` -/
theorem loop_adjoint (hA : LevelAdjS m g0 g1 Fit Out) : ∀ (ks : List Nat) (A : Nat) (yl : List R) (bs : List (List R)) (dy : List R),
    SizesOK1 Fit Out ks A → yl.length = A → BandsOK ks bs → dy.length = outSize1 Out ks A →
    ∃ y gl ds, DWT1DInverse m g0 g1 [yl] (bs.map fun b => some [b]) = some [y] ∧ y.length = outSize1 Out ks A ∧
      DWT1DInverseBackward m g0 g1 (flags1 Out ks A) dy = some (gl, ds) ∧ gl.length = A ∧
      dotN (outSize1 Out ks A) dy y = dotN A gl yl + bandsDot1 ks bs ds
  | [], A, yl, bs, dy, _, hyl, hb, hdy => by
    cases bs with
    | cons b bs => exact absurd hb (by simp [BandsOK])
    | nil =>
      refine ⟨yl, dy, [], by simp [DWT1DInverse], hyl, by simp [DWT1DInverseBackward, flags1], hdy, ?_⟩
      simp only [outSize1, bandsDot1, add_zero]
  | K :: ks, A, yl, bs, dy, hs, hyl, hb, hdy => by
    cases bs with
    | nil => exact absurd hb (by simp [BandsOK])
    | cons b bs =>
      obtain ⟨hbl, hbr⟩ := hb
      obtain ⟨hsr, hfit, hz⟩ := hs
      simp only [outSize1] at hdy ⊢
      -- this level's backward pass does not depend on its inputs: name its results with any inputs
      obtain ⟨_, dlo, dhi, _, e2, e3, _, ldlo, ldhi, _⟩ := hA b b dy (by rw [hbl]; exact hfit) rfl (by rw [hbl]; exact hdy)
      rw [hbl] at ldlo ldhi
      have lpad : (if decide (outSize1 Out ks A > K) = true then dlo ++ [0] else dlo).length = outSize1 Out ks A := by
        rcases hz with h | h
        · simp [ldlo, h]
        · simp [ldlo, h]
      -- the coarser levels: forward from `yl`, backward from the zero-extended low-pass gradient
      obtain ⟨Z, gl, ds, hfold, lZ, hbw, lgl, hid'⟩ := loop_adjoint hA ks A yl bs _ hsr hyl hbr lpad
      -- this level applied to what the coarser levels reconstructed
      have lcrop : (if Z.length > K then Z.take (Z.length - 1) else Z).length = K := by
        rcases hz with h | h
        · simp [lZ, h]
        · simp [lZ, h]
      obtain ⟨y, dlo2, dhi2, hF, e2', e3', ly, _, _, hid⟩ := hA (if Z.length > K then Z.take (Z.length - 1) else Z) b dy
        (by rw [lcrop]; exact hfit) (by rw [lcrop, hbl]) (by rw [lcrop]; exact hdy)
      rw [e2] at e2'; rw [e3] at e3'
      injection e2' with e2'; injection e3' with e3'
      subst e2' e3'
      rw [lcrop] at ly hid
      have hstep : DWT1DInverse_step m g0 g1 [Z] (some [b]) = some [y] := by
        unfold DWT1DInverse_step
        simp only [List.headD_cons, hbl, List.map_cons, List.map_nil]
        rw [← SFB1D_forward_one m g0 g1 _ b y hF]
        by_cases c1 : Z.length > K <;> simp [c1]
      have hB : SFB1D_backward m g0 g1 [dy] = some ([dlo], [dhi]) := by
        rw [SFB1D_backward_eq]; exact AFB1D_forward_one m g0 g1 dy dlo dhi e2 e3
      refine ⟨y, gl, dhi :: ds, ?_, ly, ?_, lgl, ?_⟩
      · unfold DWT1DInverse at hfold ⊢
        simp only [List.map_cons, List.reverse_cons, List.foldlM_append, hfold, Option.bind_eq_bind, Option.bind_some, List.foldlM_cons,
          List.foldlM_nil]
        rw [hstep]; rfl
      · simp only [flags1, DWT1DInverseBackward, hB, Option.bind_eq_bind, Option.bind_some, List.getD_cons_zero, hbw]
      · rw [hid, crop_adjoint1 Z dlo K _ lZ ldlo hz, hid']
        simp only [bandsDot1]
        ring

end generic

/-! ### mode zero -/

theorem levelAdjS_zero (g0 g1 : List R) (hL : 2 ≤ g0.length) (hg : g1.length = g0.length) :
    LevelAdjS .zero g0 g1 (fun K => 1 ≤ K ∧ g0.length ≤ 2 * K + 1) (fun K => 2 * K + 2 - g0.length) := by
  intro lo hi dy hfit hh hdy'
  obtain ⟨hn, hf⟩ := hfit
  have hdy : dy.length = 2 * lo.length + 2 - g0.length := hdy'
  obtain ⟨y, dlow, dhigh, e1, e2, e3, hid⟩ := C05.sfb_zero_adjoint g0 g1 lo hi dy hL hg hn hh hf hdy
  have hN : 1 ≤ dy.length := by omega
  have hy : y.length = 2 * lo.length + 2 - g0.length := by
    rw [sfb_zero_val g0 g1 lo hi hL hg hn hh hf] at e1
    injection e1 with e1
    rw [← e1, Sz_length]; omega
  have hl0 : dlow.length = lo.length := by
    rw [C05.afb1dOne_zero_val g0 dy hL hN] at e2
    injection e2 with e2
    rw [← e2, C05.afbZeroVal_length g0 dy hL hN, hdy]; unfold dwtCoeffLen; omega
  have hl1 : dhigh.length = lo.length := by
    rw [C05.afb1dOne_zero_val g1 dy (by omega) hN] at e3
    injection e3 with e3
    rw [← e3, C05.afbZeroVal_length g1 dy (by omega) hN, hdy, hg]; unfold dwtCoeffLen; omega
  refine ⟨y, dlow, dhigh, e1, e2, e3, hy, hl0, hl1, ?_⟩
  show dotN (2 * lo.length + 2 - g0.length) dy y = _
  unfold dotN
  rw [hdy, hh] at hid
  rw [show (∑ k ∈ range (2 * lo.length + 2 - g0.length), getN dy k * getN y k) = ∑ k ∈ range (2 * lo.length + 2 - g0.length), getN y k * getN dy k
    from Finset.sum_congr rfl (fun k _ => by ring), hid]
  congr 1 <;> (apply Finset.sum_congr rfl; intro k _; ring)

/-- **back-propagation through the J-level `DWT1DInverse` in mode zero is the exact adjoint**, crops included -/
theorem DWT1DInverse_zero_adjoint (g0 g1 : List R) (hL : 2 ≤ g0.length) (hg : g1.length = g0.length) (ks : List Nat) (A : Nat)
    (yl : List R) (bs : List (List R)) (dy : List R)
    (hs : SizesOK1 (fun K => 1 ≤ K ∧ g0.length ≤ 2 * K + 1) (fun K => 2 * K + 2 - g0.length) ks A) (hyl : yl.length = A)
    (hb : BandsOK ks bs) (hdy : dy.length = outSize1 (fun K => 2 * K + 2 - g0.length) ks A) :
    ∃ y gl ds, DWT1DInverse .zero g0 g1 [yl] (bs.map fun b => some [b]) = some [y] ∧
      y.length = outSize1 (fun K => 2 * K + 2 - g0.length) ks A ∧
      DWT1DInverseBackward .zero g0 g1 (flags1 (fun K => 2 * K + 2 - g0.length) ks A) dy = some (gl, ds) ∧ gl.length = A ∧
      dotN (outSize1 (fun K => 2 * K + 2 - g0.length) ks A) dy y = dotN A gl yl + bandsDot1 ks bs ds :=
  loop_adjoint .zero g0 g1 _ _ (levelAdjS_zero g0 g1 hL hg) ks A yl bs dy hs hyl hb hdy

/-- the size conditions are satisfiable with a crop: db2 (4 taps), three levels of a length-11 signal: bands 7, 5, 4, low-pass 4;
`2·4 + 2 − 4 = 6 = 5 + 1` and `2·5 + 2 − 4 = 8 = 7 + 1` are cropped, the finest level returns 12 samples -/
example : SizesOK1 (fun K => 1 ≤ K ∧ 4 ≤ 2 * K + 1) (fun K => 2 * K + 2 - 4) [7, 5, 4] 4 ∧
    flags1 (fun K => 2 * K + 2 - 4) [7, 5, 4] 4 = [true, true, false] := by
  simp [SizesOK1, outSize1, flags1]

/-! ### periodization -/

theorem levelAdjS_per (g0 g1 : List R) (hL : 2 ≤ g0.length) (hLe : g0.length % 2 = 0) (hg : g1.length = g0.length) :
    LevelAdjS .periodization g0 g1 (fun K => g0.length ≤ 2 * K) (fun K => 2 * K) := by
  intro lo hi dy hfit' hh hdy'
  have hfit : g0.length ≤ 2 * lo.length := hfit'
  have hdy : dy.length = 2 * lo.length := hdy'
  obtain ⟨y, dlow, dhigh, e1, e2, e3, hid⟩ := C05T.SFB1D_per_adjoint g0 g1 lo hi dy hL hLe hg hh hdy hfit
  have v0 := C01.afb1dOne_per_eq_dwt_partial_all g0.reverse dy (by simpa using hLe) (by simpa using hL) (by omega) (by simp; omega)
  have v1 := C01.afb1dOne_per_eq_dwt_partial_all g1.reverse dy (by simp; omega) (by simp; omega) (by omega) (by simp; omega)
  simp only [List.reverse_reverse] at v0 v1
  have hl0 : dlow.length = lo.length := by
    rw [v0] at e2; injection e2 with e2
    rw [← e2]; have := Ap_length g0.reverse dy; rw [this, hdy]; omega
  have hl1 : dhigh.length = lo.length := by
    rw [v1] at e3; injection e3 with e3
    rw [← e3]; have := Ap_length g1.reverse dy; rw [this, hdy]; omega
  have hy : y.length = 2 * lo.length := by
    have hsv := C10.sfb1dCh_per_eq_idwt_partial g0 g1 lo hi hL hg (by omega) hh (by omega)
    rw [hsv] at e1; injection e1 with e1
    rw [← e1]; simp [Spec.idwt]
  refine ⟨y, dlow, dhigh, e1, e2, e3, hy, hl0, hl1, ?_⟩
  show dotN (2 * lo.length) dy y = _
  unfold dotN
  rw [hdy] at hid
  rw [hid]
  congr 1 <;> (apply Finset.sum_congr rfl; intro k _; ring)

/-- **back-propagation through the J-level `DWT1DInverse` in periodization mode is the exact adjoint** for any even-length synthesis
filters that fit every level (`L ≤ 2K`); sizes are even on the synthesis side, so a crop happens only where the caller's pyramid
came from an odd length -/
theorem DWT1DInverse_per_adjoint (g0 g1 : List R) (hL : 2 ≤ g0.length) (hLe : g0.length % 2 = 0) (hg : g1.length = g0.length)
    (ks : List Nat) (A : Nat) (yl : List R) (bs : List (List R)) (dy : List R)
    (hs : SizesOK1 (fun K => g0.length ≤ 2 * K) (fun K => 2 * K) ks A) (hyl : yl.length = A)
    (hb : BandsOK ks bs) (hdy : dy.length = outSize1 (fun K => 2 * K) ks A) :
    ∃ y gl ds, DWT1DInverse .periodization g0 g1 [yl] (bs.map fun b => some [b]) = some [y] ∧
      y.length = outSize1 (fun K => 2 * K) ks A ∧
      DWT1DInverseBackward .periodization g0 g1 (flags1 (fun K => 2 * K) ks A) dy = some (gl, ds) ∧ gl.length = A ∧
      dotN (outSize1 (fun K => 2 * K) ks A) dy y = dotN A gl yl + bandsDot1 ks bs ds :=
  loop_adjoint .periodization g0 g1 _ _ (levelAdjS_per g0 g1 hL hLe hg) ks A yl bs dy hs hyl hb hdy

/-- satisfiable with a crop: 4 taps, bands 4, 2 (finest first), low-pass 2 of a length-7 signal: `2·2 = 4`, `2·4 = 8`;
and bands 3, 2 where the coarse level returns 4 = 3 + 1 samples and is cropped -/
example : SizesOK1 (fun K => 4 ≤ 2 * K) (fun K => 2 * K) [3, 2] 2 ∧ flags1 (fun K => 2 * K) [3, 2] 2 = [true, false] := by
  simp [SizesOK1, outSize1, flags1]

end WV.C05V
