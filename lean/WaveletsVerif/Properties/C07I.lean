/-
  C07 — linearity of the 2-D inverse DWT: PyWavelets' `idwt` is linear in the pair of bands (every mode, periodization
  included: `lin2_idwt`), hence `idwt2` is linear in its four bands on images of one shape (`idwt2_linear`), the level step
  of `waverec2` (un-pad rule, `None` = zeros) is linear (`stepS2_linear`), and so is the whole J-level `waverec2` on
  pyramids of one forward-compatible shape (`waverec2_linear`).  With C10M / C10P (the models of `DWTInverse` ARE
  `waverec2`, channel by channel) this is the linearity of the module on compatible pyramids (`DWTInverse_linear`).
-/
import WaveletsVerif.Properties.C07L
import WaveletsVerif.Properties.C10M
import WaveletsVerif.Properties.C10P
namespace WV.C07I
open Finset WV WV.C04 WV.C04Q WV.C06 WV.C05D WV.C07 WV.C07L
variable {R : Type} [CommRing R]

/-- `F` is linear in a pair of lists, and its output length depends on the input lengths only -/
def Lin2 (F : List R → List R → List R) : Prop :=
  ∀ (a b : R) (lo lo' hi hi' : List R), lo.length = lo'.length → hi.length = hi'.length →
    F (lincomb a b lo lo') (lincomb a b hi hi') = lincomb a b (F lo hi) (F lo' hi') ∧ (F lo hi).length = (F lo' hi').length

theorem sumN_lincomb (n : Nat) (a b : R) (f g : Nat → R) :
    sumN n (fun k => a * f k + b * g k) = a * sumN n f + b * sumN n g := by
  rw [sumN_eq, sumN_eq, sumN_eq, Finset.sum_add_distrib, Finset.mul_sum, Finset.mul_sum]

/-- **`pywt.idwt` is linear in the pair (lo, hi)**, in every mode -/
theorem lin2_idwt (m : Mode) (g0 g1 : List R) : Lin2 (Spec.idwt m g0 g1) := by
  intro a b lo lo' hi hi' hl hh
  have gl : ∀ k, getN (lincomb a b lo lo') k = a * getN lo k + b * getN lo' k := fun k => getN_lincomb a b lo lo' hl k
  have gh : ∀ k, getN (lincomb a b hi hi') k = a * getN hi k + b * getN hi' k := fun k => getN_lincomb a b hi hi' hh k
  have key : ∀ (c0 c1 : Nat → R), (sumN lo.length fun k => getN (lincomb a b lo lo') k * c0 k + getN (lincomb a b hi hi') k * c1 k)
      = a * (sumN lo.length fun k => getN lo k * c0 k + getN hi k * c1 k)
        + b * (sumN lo.length fun k => getN lo' k * c0 k + getN hi' k * c1 k) := by
    intro c0 c1
    rw [← sumN_lincomb]
    congr 1; funext k
    rw [gl, gh]; ring
  by_cases hm : m = .periodization
  · subst hm
    constructor
    · unfold Spec.idwt
      simp only [lincomb_length]
      apply list_ext_getN'
      · simp [lincomb_length]
      · intro u hu
        simp only [length_tab] at hu
        rw [getN_lincomb a b _ _ (by simp [hl]), getN_tab, getN_tab, getN_tab, if_pos hu, if_pos hu, if_pos (by rw [← hl]; exact hu),
          ← hl, ← sumN_lincomb]
        congr 1; funext r
        split
        · ring
        · exact key _ _
    · simp [Spec.idwt, hl]
  · have hform : ∀ lo hi : List R, Spec.idwt m g0 g1 lo hi = tab (2 * lo.length + 2 - g0.length) fun t => sumN lo.length fun k =>
        getN lo k * getZ g0 ((t:Int) + g0.length - 2 - 2*k) + getN hi k * getZ g1 ((t:Int) + g0.length - 2 - 2*k) := by
      intro lo hi
      cases m <;> first | exact absurd rfl hm | rfl
    constructor
    · rw [hform, hform, hform]
      simp only [lincomb_length]
      apply list_ext_getN'
      · simp [lincomb_length]
      · intro t ht
        simp only [length_tab] at ht
        rw [getN_lincomb a b _ _ (by simp [hl]), getN_tab, getN_tab, getN_tab, if_pos ht, if_pos ht, if_pos (by rw [← hl]; exact ht), ← hl]
        exact key _ _
    · rw [hform, hform]; simp [hl]

theorem lin2_len {F : List R → List R → List R} (hF : Lin2 F) (lo lo' hi hi' : List R) (hl : lo.length = lo'.length)
    (hh : hi.length = hi'.length) : (F lo hi).length = (F lo' hi').length :=
  (hF 1 1 lo lo' hi hi' hl hh).2

/-- output length of a pair-linear operator on inputs of lengths `n`, `n` -/
def outLen2 (F : List R → List R → List R) (n : Nat) : Nat := (F (List.replicate n 0) (List.replicate n 0)).length

theorem lin2_outLen {F : List R → List R → List R} (hF : Lin2 F) (lo hi : List R) (n : Nat) (hl : lo.length = n) (hh : hi.length = n) :
    (F lo hi).length = outLen2 F n :=
  lin2_len hF lo _ hi _ (by simp [hl]) (by simp [hh])

/-- `zip2 F` (row by row) is linear in the pair of images -/
theorem zip2_lin {F : List R → List R → List R} (hF : Lin2 F) (a b : R) (x x' y y' : Img R) (H W : Nat)
    (hx : Rect x H W) (hx' : Rect x' H W) (hy : Rect y H W) (hy' : Rect y' H W) :
    Spec.zip2 F (ilin a b x x') (ilin a b y y') = ilin a b (Spec.zip2 F x y) (Spec.zip2 F x' y') := by
  unfold Spec.zip2
  have l1 : (ilin a b x x').length = H := (ilin_rect a b x x' H W hx).1
  rw [l1, hx.1]
  unfold ilin
  rw [length_tab]
  apply tab_ext rfl
  intro i hi
  rw [getD_tab, getD_tab, getD_tab, getD_tab, if_pos (by rw [hx.1]; exact hi), if_pos (by rw [hy.1]; exact hi), if_pos hi,
    if_pos (by rw [hx'.1]; exact hi)]
  exact (hF a b _ _ _ _ (by rw [getD_row_length x H W hx i hi, getD_row_length x' H W hx' i hi])
    (by rw [getD_row_length y H W hy i hi, getD_row_length y' H W hy' i hi])).1

theorem zip2_rect {F : List R → List R → List R} (hF : Lin2 F) (x y : Img R) (H W : Nat) (hx : Rect x H W) (hy : Rect y H W) :
    Rect (Spec.zip2 F x y) H (outLen2 F W) := by
  unfold Spec.zip2
  constructor
  · rw [length_tab, hx.1]
  · intro r hr
    unfold tab at hr
    simp only [List.mem_map, List.mem_range] at hr
    obtain ⟨i, hi, rfl⟩ := hr
    rw [hx.1] at hi
    exact lin2_outLen hF _ _ W (getD_row_length x H W hx i hi) (getD_row_length y H W hy i hi)

/-- **`pywt.idwt2` is linear in its four bands** on images of one shape `h × w`, and its output shape depends on the
shape only -/
theorem idwt2_linear (m : Mode) (gc0 gc1 gr0 gr1 : List R) (a b : R) (cA cA' cH cH' cV cV' cD cD' : Img R) (h w : Nat)
    (hh : 1 ≤ h) (hw : 1 ≤ w) (rA : Rect cA h w) (rA' : Rect cA' h w) (rH : Rect cH h w) (rH' : Rect cH' h w)
    (rV : Rect cV h w) (rV' : Rect cV' h w) (rD : Rect cD h w) (rD' : Rect cD' h w) :
    Spec.idwt2 m gc0 gc1 gr0 gr1 (ilin a b cA cA') (ilin a b cH cH') (ilin a b cV cV') (ilin a b cD cD')
      = ilin a b (Spec.idwt2 m gc0 gc1 gr0 gr1 cA cH cV cD) (Spec.idwt2 m gc0 gc1 gr0 gr1 cA' cH' cV' cD') ∧
    Rect (Spec.idwt2 m gc0 gc1 gr0 gr1 cA cH cV cD) (outLen2 (Spec.idwt m gc0 gc1) h) (outLen2 (Spec.idwt m gr0 gr1) w) := by
  have lc := lin2_idwt (R := R) m gc0 gc1
  have lr := lin2_idwt (R := R) m gr0 gr1
  have t := fun (x : Img R) (hx : Rect x h w) => tr_rect x h w hx hh
  have z := fun (x y : Img R) (hx : Rect x h w) (hy : Rect y h w) => zip2_rect lc (tr x) (tr y) w h (t x hx) (t y hy)
  have tz := fun (x y : Img R) (hx : Rect x h w) (hy : Rect y h w) => tr_rect _ w _ (z x y hx hy) hw
  constructor
  · unfold Spec.idwt2
    simp only
    rw [tr_ilin a b cA cA' h w rA rA' hh, tr_ilin a b cH cH' h w rH rH' hh, tr_ilin a b cV cV' h w rV rV' hh, tr_ilin a b cD cD' h w rD rD' hh,
      zip2_lin lc a b _ _ _ _ w h (t cA rA) (t cA' rA') (t cH rH) (t cH' rH'),
      zip2_lin lc a b _ _ _ _ w h (t cV rV) (t cV' rV') (t cD rD) (t cD' rD'),
      tr_ilin a b _ _ w _ (z cA cH rA rH) (z cA' cH' rA' rH') hw, tr_ilin a b _ _ w _ (z cV cD rV rD) (z cV' cD' rV' rD') hw,
      zip2_lin lr a b _ _ _ _ _ w (tz cA cH rA rH) (tz cA' cH' rA' rH') (tz cV cD rV rD) (tz cV' cD' rV' rD')]
  · unfold Spec.idwt2
    simp only
    exact zip2_rect lr _ _ _ w (tz cA cH rA rH) (tz cV cD rV rD)

/-! ### the level step -/

omit [CommRing R] in
theorem take_tab {α : Type} (k n : Nat) (f : Nat → α) : (tab n f).take k = tab (min k n) f := by
  unfold tab
  rw [← List.map_take, List.take_range]

theorem ilin_take (a b : R) (x y : Img R) (H W : Nat) (hx : Rect x H W) (hy : Rect y H W) (k : Nat) :
    (ilin a b x y).take k = ilin a b (x.take k) (y.take k) := by
  unfold ilin
  rw [take_tab, List.length_take]
  apply tab_ext rfl
  intro i hi
  have hik : i < k := by omega
  congr 1
  · rw [List.getD_eq_getElem?_getD, List.getD_eq_getElem?_getD, List.getElem?_take, if_pos hik]
  · rw [List.getD_eq_getElem?_getD, List.getD_eq_getElem?_getD, List.getElem?_take, if_pos hik]

omit [CommRing R] in
theorem take_rect (x : Img R) (H W k : Nat) (hx : Rect x H W) (hk : k ≤ H) : Rect (x.take k) k W :=
  ⟨by rw [List.length_take, hx.1]; omega, fun r hr => hx.2 r (List.mem_of_mem_take hr)⟩

theorem lin_dropLast : Lin (fun r : List R => r.take (r.length - 1)) :=
  Lin.dep (fun n => n - 1) (fun q x => x.take q) (fun q => lin_take q)

/-- the un-pad rule as a function of the shapes: drop the last row when `A = h + 1`, the last column when `B = w + 1` -/
def unpadS (A B h w : Nat) (a : Img R) : Img R :=
  let a1 : Img R := if A = h + 1 then a.take (A - 1) else a
  if B = w + 1 then alongW (fun r => r.take (r.length - 1)) a1 else a1

theorem unpadS_lin (A B h w : Nat) (hA : A = h ∨ A = h + 1) (hB : B = w ∨ B = w + 1) (a b : R) (x y : Img R)
    (hx : Rect x A B) (hy : Rect y A B) :
    unpadS A B h w (ilin a b x y) = ilin a b (unpadS A B h w x) (unpadS A B h w y) ∧ Rect (unpadS A B h w x) h w := by
  unfold unpadS
  by_cases c1 : A = h + 1
  · simp only [c1, if_true]
    have r1 : Rect (x.take (h + 1 - 1)) h B := by
      have := take_rect x A B h hx (by omega); simpa using this
    have r1' : Rect (y.take (h + 1 - 1)) h B := by
      have := take_rect y A B h hy (by omega); simpa using this
    rw [ilin_take a b x y A B hx hy]
    by_cases c2 : B = w + 1
    · simp only [c2, if_true]
      rw [c2] at r1 r1'
      refine ⟨alongW_lin lin_dropLast a b _ _ h (w+1) r1 r1', ?_⟩
      have := alongW_lin_rect lin_dropLast _ h (w+1) r1
      have e : outLen (fun r : List R => r.take (r.length - 1)) (w + 1) = w := by simp [outLen]
      rw [e] at this; exact this
    · simp only [c2, if_false]
      have : B = w := by omega
      rw [this] at r1
      exact ⟨trivial, r1⟩
  · simp only [c1, if_false]
    have hAh : A = h := by omega
    by_cases c2 : B = w + 1
    · simp only [c2, if_true]
      rw [hAh, c2] at hx hy
      refine ⟨alongW_lin lin_dropLast a b _ _ h (w+1) hx hy, ?_⟩
      have := alongW_lin_rect lin_dropLast _ h (w+1) hx
      have e : outLen (fun r : List R => r.take (r.length - 1)) (w + 1) = w := by simp [outLen]
      rw [e] at this; exact this
    · simp only [c2, if_false]
      have : B = w := by omega
      rw [hAh, this] at hx
      exact ⟨trivial, hx⟩

/-- the step of `waverec2` on an approximation of shape `A × B` and bands of shape `h × w` is the un-pad followed by `idwt2` -/
theorem stepS2_some_eq (m : Mode) (gc0 gc1 gr0 gr1 : List R) (A B h w : Nat) (hh : 1 ≤ h) (x cH cV cD : Img R)
    (hx : Rect x A B) (hA : 1 ≤ A) (rH : Rect cH h w) :
    C10.stepS2 m gc0 gc1 gr0 gr1 x (some [cH, cV, cD]) = Spec.idwt2 m gc0 gc1 gr0 gr1 (unpadS A B h w x) cH cV cD := by
  unfold C10.stepS2 unpadS
  simp only [List.getD_cons_zero, List.getD_cons_succ, hx.1, rH.1, rect_width cH h w rH hh]
  by_cases c1 : A = h + 1
  · simp only [c1, if_true]
    have hw1 : Img.width (x.take (h + 1 - 1) : Img R) = B := by
      rw [C10.take_width x _ (by omega)]; exact rect_width x A B hx hA
    rw [hw1]
    by_cases c2 : B = w + 1
    · simp only [c2, if_true]; rfl
    · simp only [c2, if_false]
  · simp only [c1, if_false]
    rw [rect_width x A B hx hA]
    by_cases c2 : B = w + 1
    · simp only [c2, if_true]; rfl
    · simp only [c2, if_false]

/-- `a·d + b·d'` on two detail levels of the same kind (`None` with `None`, a band triple with a band triple) -/
def olin (a b : R) (d d' : Option (List (Img R))) : Option (List (Img R)) :=
  match d, d' with
  | some v, some v' => some [ilin a b (v.getD 0 []) (v'.getD 0 []), ilin a b (v.getD 1 []) (v'.getD 1 []),
                             ilin a b (v.getD 2 []) (v'.getD 2 [])]
  | _, _ => none

/-- two detail levels of one shape `h × w` under an approximation of shape `A × B` -/
def LevelOK (A B h w : Nat) (d d' : Option (List (Img R))) : Prop :=
  1 ≤ h ∧ 1 ≤ w ∧ (A = h ∨ A = h + 1) ∧ (B = w ∨ B = w + 1) ∧
  match d, d' with
  | some v, some v' => (∃ cH cV cD, v = [cH, cV, cD] ∧ Rect cH h w ∧ Rect cV h w ∧ Rect cD h w) ∧
                       (∃ cH cV cD, v' = [cH, cV, cD] ∧ Rect cH h w ∧ Rect cV h w ∧ Rect cD h w)
  | none, none => A = h ∧ B = w
  | _, _ => False

theorem ilin_izero (a b : R) (h w : Nat) : ilin a b (izero h w) (izero h w) = (izero h w : Img R) := by
  have rz : Rect (izero h w : Img R) h w := tab2_rect h w _
  rw [ilin_eq_tab2 a b _ _ h w rz rz]
  unfold izero
  apply tab2_congr; intro i hi j hj
  rw [C19.get2_tab2 _ _ _ _ _ hi hj]; ring

theorem izero_rect' (h w : Nat) : Rect (izero h w : Img R) h w := tab2_rect h w _

/-- **one level of `waverec2` is linear** (un-pad rule and `None` = zeros included), and its output shape is determined by
the band shape -/
theorem stepS2_linear (m : Mode) (gc0 gc1 gr0 gr1 : List R) (a b : R) (A B h w : Nat) (x y : Img R) (d d' : Option (List (Img R)))
    (hx : Rect x A B) (hy : Rect y A B) (hok : LevelOK A B h w d d') :
    C10.stepS2 m gc0 gc1 gr0 gr1 (ilin a b x y) (olin a b d d')
      = ilin a b (C10.stepS2 m gc0 gc1 gr0 gr1 x d) (C10.stepS2 m gc0 gc1 gr0 gr1 y d') ∧
    Rect (C10.stepS2 m gc0 gc1 gr0 gr1 x d) (outLen2 (Spec.idwt m gc0 gc1) h) (outLen2 (Spec.idwt m gr0 gr1) w) ∧
    Rect (C10.stepS2 m gc0 gc1 gr0 gr1 y d') (outLen2 (Spec.idwt m gc0 gc1) h) (outLen2 (Spec.idwt m gr0 gr1) w) := by
  obtain ⟨hh, hw, hA, hB, hd⟩ := hok
  have hA1 : 1 ≤ A := by omega
  have rxy := ilin_rect a b x y A B hx
  cases d with
  | some v =>
    cases d' with
    | some v' =>
      obtain ⟨⟨cH, cV, cD, rfl, rH, rV, rD⟩, ⟨cH', cV', cD', rfl, rH', rV', rD'⟩⟩ := hd
      simp only [olin, List.getD_cons_zero, List.getD_cons_succ]
      obtain ⟨ux, rux⟩ := unpadS_lin A B h w hA hB a b x y hx hy
      obtain ⟨_, ruy⟩ := unpadS_lin A B h w hA hB a b y x hy hx
      rw [stepS2_some_eq m gc0 gc1 gr0 gr1 A B h w hh _ _ _ _ rxy hA1 (ilin_rect a b cH cH' h w rH),
        stepS2_some_eq m gc0 gc1 gr0 gr1 A B h w hh _ _ _ _ hx hA1 rH, stepS2_some_eq m gc0 gc1 gr0 gr1 A B h w hh _ _ _ _ hy hA1 rH', ux]
      obtain ⟨e, r⟩ := idwt2_linear m gc0 gc1 gr0 gr1 a b _ _ cH cH' cV cV' cD cD' h w hh hw rux ruy rH rH' rV rV' rD rD'
      obtain ⟨_, r'⟩ := idwt2_linear m gc0 gc1 gr0 gr1 a b _ _ cH' cH cV' cV cD' cD h w hh hw ruy rux rH' rH rV' rV rD' rD
      exact ⟨e, r, r'⟩
    | none => exact absurd hd (by simp)
  | none =>
    cases d' with
    | some v' => exact absurd hd (by simp)
    | none =>
      obtain ⟨rfl, rfl⟩ := hd
      have hnone : ∀ z : Img R, Rect z A B → C10.stepS2 m gc0 gc1 gr0 gr1 z none
          = Spec.idwt2 m gc0 gc1 gr0 gr1 z (izero A B) (izero A B) (izero A B) := by
        intro z hz
        have hzw := rect_width z A B hz hA1
        have hiw := rect_width _ A B (izero_rect' (R := R) A B) hA1
        unfold C10.stepS2
        simp only [List.getD_cons_zero, List.getD_cons_succ, hz.1, hzw, (izero_rect' (R := R) A B).1, hiw]
        have c1 : ¬ (A = A + 1) := by omega
        have c2 : ¬ (B = B + 1) := by omega
        simp only [c1, if_false, hzw, c2]
      simp only [olin]
      rw [hnone _ rxy, hnone x hx, hnone y hy]
      have rz := izero_rect' (R := R) A B
      obtain ⟨e, r⟩ := idwt2_linear m gc0 gc1 gr0 gr1 a b x y _ _ _ _ _ _ A B hh hw hx hy rz rz rz rz rz rz
      obtain ⟨_, r'⟩ := idwt2_linear m gc0 gc1 gr0 gr1 a b y x _ _ _ _ _ _ A B hh hw hy hx rz rz rz rz rz rz
      rw [ilin_izero] at e
      exact ⟨e, r, r'⟩

/-- two pyramids of one forward-compatible shape, coarsest level first, under an approximation of shape `A × B` -/
def PyrOK (m : Mode) (gc0 gc1 gr0 gr1 : List R) : Nat → Nat → List (Option (List (Img R))) → List (Option (List (Img R))) → Prop
  | _, _, [], [] => True
  | A, B, d :: ds, d' :: ds' => ∃ h w, LevelOK A B h w d d' ∧
      PyrOK m gc0 gc1 gr0 gr1 (outLen2 (Spec.idwt m gc0 gc1) h) (outLen2 (Spec.idwt m gr0 gr1) w) ds ds'
  | _, _, _, _ => False

theorem foldl_stepS2_linear (m : Mode) (gc0 gc1 gr0 gr1 : List R) (a b : R) :
    ∀ (rs rs' : List (Option (List (Img R)))) (A B : Nat) (x y : Img R), Rect x A B → Rect y A B → PyrOK m gc0 gc1 gr0 gr1 A B rs rs' →
      (List.zipWith (olin a b) rs rs').foldl (C10.stepS2 m gc0 gc1 gr0 gr1) (ilin a b x y)
        = ilin a b (rs.foldl (C10.stepS2 m gc0 gc1 gr0 gr1) x) (rs'.foldl (C10.stepS2 m gc0 gc1 gr0 gr1) y)
  | [], [], _, _, _, _, _, _, _ => rfl
  | [], _ :: _, _, _, _, _, _, _, hp => absurd hp (by simp [PyrOK])
  | _ :: _, [], _, _, _, _, _, _, hp => absurd hp (by simp [PyrOK])
  | d :: ds, d' :: ds', A, B, x, y, hx, hy, hp => by
    obtain ⟨h, w, hok, hrest⟩ := hp
    obtain ⟨e, r, r'⟩ := stepS2_linear m gc0 gc1 gr0 gr1 a b A B h w x y d d' hx hy hok
    simp only [List.zipWith_cons_cons, List.foldl_cons]
    rw [e]
    exact foldl_stepS2_linear m gc0 gc1 gr0 gr1 a b ds ds' _ _ _ _ r r' hrest

/-- **`pywt.waverec2` is linear** on two pyramids of one forward-compatible shape (finest level first, `None` levels in the
same places), in every mode, for every number of levels -/
theorem waverec2_linear (m : Mode) (gc0 gc1 gr0 gr1 : List R) (a b : R) (A B : Nat) (x y : Img R)
    (ds ds' : List (Option (List (Img R)))) (hx : Rect x A B) (hy : Rect y A B) (hlen : ds.length = ds'.length)
    (hp : PyrOK m gc0 gc1 gr0 gr1 A B ds.reverse ds'.reverse) :
    Spec.waverec2 m gc0 gc1 gr0 gr1 (ilin a b x y) (List.zipWith (olin a b) ds ds')
      = ilin a b (Spec.waverec2 m gc0 gc1 gr0 gr1 x ds) (Spec.waverec2 m gc0 gc1 gr0 gr1 y ds') := by
  rw [C10.waverec2_eq_foldl, C10.waverec2_eq_foldl, C10.waverec2_eq_foldl, List.reverse_zipWith hlen]
  exact foldl_stepS2_linear m gc0 gc1 gr0 gr1 a b _ _ A B x y hx hy hp

/-! ### the module -/

/-- `PyrOK` with a size condition `P h w` on the band shape of every level (the filters fit) -/
def PyrOKF (m : Mode) (gc0 gc1 gr0 gr1 : List R) (P : Nat → Nat → Prop) :
    Nat → Nat → List (Option (List (Img R))) → List (Option (List (Img R))) → Prop
  | _, _, [], [] => True
  | A, B, d :: ds, d' :: ds' => ∃ h w, P h w ∧ LevelOK A B h w d d' ∧
      PyrOKF m gc0 gc1 gr0 gr1 P (outLen2 (Spec.idwt m gc0 gc1) h) (outLen2 (Spec.idwt m gr0 gr1) w) ds ds'
  | _, _, _, _ => False

theorem PyrOKF.toPyrOK (m : Mode) (gc0 gc1 gr0 gr1 : List R) (P : Nat → Nat → Prop) :
    ∀ (rs rs' : List (Option (List (Img R)))) (A B : Nat), PyrOKF m gc0 gc1 gr0 gr1 P A B rs rs' → PyrOK m gc0 gc1 gr0 gr1 A B rs rs'
  | [], [], _, _, _ => trivial
  | [], _ :: _, _, _, h => absurd h (by simp [PyrOKF])
  | _ :: _, [], _, _, h => absurd h (by simp [PyrOKF])
  | d :: ds, d' :: ds', A, B, hp => by
    obtain ⟨h, w, _, hok, hrest⟩ := hp
    exact ⟨h, w, hok, PyrOKF.toPyrOK m gc0 gc1 gr0 gr1 P ds ds' _ _ hrest⟩

theorem levelOK_left (A B h w : Nat) (d d' : Option (List (Img R))) (h1 : LevelOK A B h w d d') : LevelOK A B h w d d := by
  obtain ⟨hh, hw, hA, hB, hd⟩ := h1
  refine ⟨hh, hw, hA, hB, ?_⟩
  cases d with
  | some v => cases d' with
    | some v' => exact ⟨hd.1, hd.1⟩
    | none => exact absurd hd (by simp)
  | none => cases d' with
    | some v' => exact absurd hd (by simp)
    | none => exact hd

theorem levelOK_right (A B h w : Nat) (d d' : Option (List (Img R))) (h1 : LevelOK A B h w d d') : LevelOK A B h w d' d' := by
  obtain ⟨hh, hw, hA, hB, hd⟩ := h1
  refine ⟨hh, hw, hA, hB, ?_⟩
  cases d with
  | some v => cases d' with
    | some v' => exact ⟨hd.2, hd.2⟩
    | none => exact absurd hd (by simp)
  | none => cases d' with
    | some v' => exact absurd hd (by simp)
    | none => exact hd

theorem levelOK_comb (a b : R) (A B h w : Nat) (d d' : Option (List (Img R))) (h1 : LevelOK A B h w d d') :
    LevelOK A B h w (olin a b d d') (olin a b d d') := by
  obtain ⟨hh, hw, hA, hB, hd⟩ := h1
  refine ⟨hh, hw, hA, hB, ?_⟩
  cases d with
  | some v => cases d' with
    | some v' =>
      obtain ⟨⟨cH, cV, cD, rfl, rH, rV, rD⟩, ⟨cH', cV', cD', rfl, rH', rV', rD'⟩⟩ := hd
      simp only [olin, List.getD_cons_zero, List.getD_cons_succ]
      exact ⟨⟨_, _, _, rfl, ilin_rect a b _ _ h w rH, ilin_rect a b _ _ h w rV, ilin_rect a b _ _ h w rD⟩,
        ⟨_, _, _, rfl, ilin_rect a b _ _ h w rH, ilin_rect a b _ _ h w rV, ilin_rect a b _ _ h w rD⟩⟩
    | none => exact absurd hd (by simp)
  | none => cases d' with
    | some v' => exact absurd hd (by simp)
    | none => exact hd

theorem pyrOKF_map (m : Mode) (gc0 gc1 gr0 gr1 : List R) (P : Nat → Nat → Prop)
    (f : Option (List (Img R)) → Option (List (Img R)) → Option (List (Img R)))
    (hf : ∀ A B h w d d', LevelOK A B h w d d' → LevelOK A B h w (f d d') (f d d')) :
    ∀ (rs rs' : List (Option (List (Img R)))) (A B : Nat), PyrOKF m gc0 gc1 gr0 gr1 P A B rs rs' →
      PyrOKF m gc0 gc1 gr0 gr1 P A B (List.zipWith f rs rs') (List.zipWith f rs rs')
  | [], [], _, _, _ => trivial
  | [], _ :: _, _, _, h => absurd h (by simp [PyrOKF])
  | _ :: _, [], _, _, h => absurd h (by simp [PyrOKF])
  | d :: ds, d' :: ds', A, B, hp => by
    obtain ⟨h, w, hP, hok, hrest⟩ := hp
    exact ⟨h, w, hP, hf A B h w d d' hok, pyrOKF_map m gc0 gc1 gr0 gr1 P f hf ds ds' _ _ hrest⟩

omit [CommRing R] in
theorem zipWith_fst {α : Type} : ∀ (l l' : List α), l.length = l'.length → List.zipWith (fun d _ => d) l l' = l
  | [], [], _ => rfl
  | [], _ :: _, h => by simp at h
  | _ :: _, [], h => by simp at h
  | d :: ds, _ :: ds', h => by simp [zipWith_fst ds ds' (by simpa using h)]

omit [CommRing R] in
theorem zipWith_snd {α : Type} : ∀ (l l' : List α), l.length = l'.length → List.zipWith (fun _ d => d) l l' = l'
  | [], [], _ => rfl
  | [], _ :: _, h => by simp at h
  | _ :: _, [], h => by simp at h
  | _ :: ds, d' :: ds', h => by simp [zipWith_snd ds ds' (by simpa using h)]

theorem pyrOKF_length (m : Mode) (gc0 gc1 gr0 gr1 : List R) (P : Nat → Nat → Prop) :
    ∀ (rs rs' : List (Option (List (Img R)))) (A B : Nat), PyrOKF m gc0 gc1 gr0 gr1 P A B rs rs' → rs.length = rs'.length
  | [], [], _, _, _ => rfl
  | [], _ :: _, _, _, h => absurd h (by simp [PyrOKF])
  | _ :: _, [], _, _, h => absurd h (by simp [PyrOKF])
  | _ :: ds, _ :: ds', _, _, hp => by
    obtain ⟨h, w, _, _, hrest⟩ := hp
    simp [pyrOKF_length m gc0 gc1 gr0 gr1 P ds ds' _ _ hrest]

/-- a pyramid that is `PyrOKF` with itself (non-periodization fit) has the shapes `DWTInverse` accepts -/
theorem compat2_of_pyr (m : Mode) (gc0 gc1 gr0 gr1 : List R) :
    ∀ (rs : List (Option (List (Img R)))) (A B : Nat) (x : Img R), Rect x A B →
      PyrOKF m gc0 gc1 gr0 gr1 (fun h w => 2 * (gc0.length - 2) + 1 ≤ 2 * (h - 1) + gc0.length ∧
        2 * (gr0.length - 2) + 1 ≤ 2 * (w - 1) + gr0.length) A B rs rs →
      C10.Compat2 m gc0 gc1 gr0 gr1 x rs
  | [], _, _, _, _, _ => trivial
  | d :: ds, A, B, x, hx, hp => by
    obtain ⟨h, w, ⟨hfc, hfr⟩, hok, hrest⟩ := hp
    obtain ⟨_, r, _⟩ := stepS2_linear m gc0 gc1 gr0 gr1 1 1 A B h w x x d d hx hx hok
    refine ⟨?_, compat2_of_pyr m gc0 gc1 gr0 gr1 ds _ _ _ r hrest⟩
    obtain ⟨hh, hw, hA, hB, hd⟩ := hok
    have hA1 : 1 ≤ A := by omega
    refine ⟨h, w, hh, hw, by rw [hx.1]; exact hA, by rw [rect_width x A B hx hA1]; exact hB, hfc, hfr, ?_⟩
    cases d with
    | some v =>
      obtain ⟨⟨cH, cV, cD, rfl, rH, rV, rD⟩, _⟩ := hd
      exact ⟨cH, cV, cD, rfl, ⟨rH.1, rect_width _ _ _ rH hh⟩, ⟨rV.1, rect_width _ _ _ rV hh⟩, ⟨rD.1, rect_width _ _ _ rD hh⟩⟩
    | none =>
      obtain ⟨rfl, rfl⟩ := hd
      exact ⟨hx.1, rect_width x _ _ hx hA1⟩

/-- **the model of `DWTInverse` is linear on compatible pyramids** (one channel; modes zero / symmetric / reflect / periodic;
every number of levels, `None` levels in the same places, un-pad rule included): it returns on `x`, on `y` and on
`a·x + b·y`, and the third result is `a·` the first `+ b·` the second -/
theorem DWTInverse_linear (m : Mode) (hm : C10.ModeS m) (gc0 gc1 gr0 gr1 : List R)
    (hLc : 2 ≤ gc0.length) (hgc : gc1.length = gc0.length) (hLr : 2 ≤ gr0.length) (hgr : gr1.length = gr0.length)
    (a b : R) (A B : Nat) (x y : Img R) (ds ds' : List (Option (List (Img R)))) (hx : Rect x A B) (hy : Rect y A B)
    (hp : PyrOKF m gc0 gc1 gr0 gr1 (fun h w => 2 * (gc0.length - 2) + 1 ≤ 2 * (h - 1) + gc0.length ∧
        2 * (gr0.length - 2) + 1 ≤ 2 * (w - 1) + gr0.length) A B ds.reverse ds'.reverse) :
    ∃ u v, DWTInverse m gc0 gc1 gr0 gr1 [x] (ds.map fun d => d.map fun v => [v]) = some [u] ∧
      DWTInverse m gc0 gc1 gr0 gr1 [y] (ds'.map fun d => d.map fun v => [v]) = some [v] ∧
      DWTInverse m gc0 gc1 gr0 gr1 [ilin a b x y] ((List.zipWith (olin a b) ds ds').map fun d => d.map fun v => [v])
        = some [ilin a b u v] := by
  have hlen' := pyrOKF_length m gc0 gc1 gr0 gr1 _ _ _ A B hp
  have hlen : ds.length = ds'.length := by simpa using hlen'
  have pl := pyrOKF_map m gc0 gc1 gr0 gr1 _ (fun d _ => d) (fun A B h w d d' h1 => levelOK_left A B h w d d' h1) _ _ A B hp
  have pr := pyrOKF_map m gc0 gc1 gr0 gr1 _ (fun _ d => d) (fun A B h w d d' h1 => levelOK_right A B h w d d' h1) _ _ A B hp
  have pc := pyrOKF_map m gc0 gc1 gr0 gr1 _ (olin a b) (fun A B h w d d' h1 => levelOK_comb a b A B h w d d' h1) _ _ A B hp
  rw [zipWith_fst _ _ hlen'] at pl
  rw [zipWith_snd _ _ hlen'] at pr
  rw [← List.reverse_zipWith hlen] at pc
  refine ⟨_, _, C10.DWTInverse_eq_waverec2 m hm gc0 gc1 gr0 gr1 hLc hgc hLr hgr x ds (compat2_of_pyr m gc0 gc1 gr0 gr1 _ A B x hx pl),
    C10.DWTInverse_eq_waverec2 m hm gc0 gc1 gr0 gr1 hLc hgc hLr hgr y ds' (compat2_of_pyr m gc0 gc1 gr0 gr1 _ A B y hy pr), ?_⟩
  rw [C10.DWTInverse_eq_waverec2 m hm gc0 gc1 gr0 gr1 hLc hgc hLr hgr _ _
    (compat2_of_pyr m gc0 gc1 gr0 gr1 _ A B _ (ilin_rect a b x y A B hx) pc),
    waverec2_linear m gc0 gc1 gr0 gr1 a b A B x y ds ds' hx hy hlen (PyrOKF.toPyrOK m gc0 gc1 gr0 gr1 _ _ _ A B hp)]

/-- the same with the fit condition of the periodized synthesis -/
theorem compat2P_of_pyr (gc0 gc1 gr0 gr1 : List R) :
    ∀ (rs : List (Option (List (Img R)))) (A B : Nat) (x : Img R), Rect x A B →
      PyrOKF .periodization gc0 gc1 gr0 gr1 (fun h w => gc0.length - 2 ≤ 2 * h ∧ gr0.length - 2 ≤ 2 * w) A B rs rs →
      C10P.Compat2P gc0 gc1 gr0 gr1 x rs
  | [], _, _, _, _, _ => trivial
  | d :: ds, A, B, x, hx, hp => by
    obtain ⟨h, w, ⟨hfc, hfr⟩, hok, hrest⟩ := hp
    obtain ⟨_, r, _⟩ := stepS2_linear .periodization gc0 gc1 gr0 gr1 1 1 A B h w x x d d hx hx hok
    refine ⟨?_, compat2P_of_pyr gc0 gc1 gr0 gr1 ds _ _ _ r hrest⟩
    obtain ⟨hh, hw, hA, hB, hd⟩ := hok
    have hA1 : 1 ≤ A := by omega
    refine ⟨h, w, hh, hw, by rw [hx.1]; exact hA, by rw [rect_width x A B hx hA1]; exact hB, hfc, hfr, ?_⟩
    cases d with
    | some v =>
      obtain ⟨⟨cH, cV, cD, rfl, rH, rV, rD⟩, _⟩ := hd
      exact ⟨cH, cV, cD, rfl, ⟨rH.1, rect_width _ _ _ rH hh⟩, ⟨rV.1, rect_width _ _ _ rV hh⟩, ⟨rD.1, rect_width _ _ _ rD hh⟩⟩
    | none =>
      obtain ⟨rfl, rfl⟩ := hd
      exact ⟨hx.1, rect_width x _ _ hx hA1⟩

/-- **the model of `DWTInverse` in periodization mode is linear on compatible pyramids** (one channel, every J) -/
theorem DWTInverse_per_linear (gc0 gc1 gr0 gr1 : List R)
    (hLc : 2 ≤ gc0.length) (hgc : gc1.length = gc0.length) (hLr : 2 ≤ gr0.length) (hgr : gr1.length = gr0.length)
    (a b : R) (A B : Nat) (x y : Img R) (ds ds' : List (Option (List (Img R)))) (hx : Rect x A B) (hy : Rect y A B)
    (hp : PyrOKF .periodization gc0 gc1 gr0 gr1 (fun h w => gc0.length - 2 ≤ 2 * h ∧ gr0.length - 2 ≤ 2 * w) A B ds.reverse ds'.reverse) :
    ∃ u v, DWTInverse .periodization gc0 gc1 gr0 gr1 [x] (ds.map fun d => d.map fun v => [v]) = some [u] ∧
      DWTInverse .periodization gc0 gc1 gr0 gr1 [y] (ds'.map fun d => d.map fun v => [v]) = some [v] ∧
      DWTInverse .periodization gc0 gc1 gr0 gr1 [ilin a b x y] ((List.zipWith (olin a b) ds ds').map fun d => d.map fun v => [v])
        = some [ilin a b u v] := by
  have hlen' := pyrOKF_length .periodization gc0 gc1 gr0 gr1 _ _ _ A B hp
  have hlen : ds.length = ds'.length := by simpa using hlen'
  have pl := pyrOKF_map .periodization gc0 gc1 gr0 gr1 _ (fun d _ => d) (fun A B h w d d' h1 => levelOK_left A B h w d d' h1) _ _ A B hp
  have pr := pyrOKF_map .periodization gc0 gc1 gr0 gr1 _ (fun _ d => d) (fun A B h w d d' h1 => levelOK_right A B h w d d' h1) _ _ A B hp
  have pc := pyrOKF_map .periodization gc0 gc1 gr0 gr1 _ (olin a b) (fun A B h w d d' h1 => levelOK_comb a b A B h w d d' h1) _ _ A B hp
  rw [zipWith_fst _ _ hlen'] at pl
  rw [zipWith_snd _ _ hlen'] at pr
  rw [← List.reverse_zipWith hlen] at pc
  refine ⟨_, _, C10P.DWTInverse_per_eq_waverec2 gc0 gc1 gr0 gr1 hLc hgc hLr hgr x ds (compat2P_of_pyr gc0 gc1 gr0 gr1 _ A B x hx pl),
    C10P.DWTInverse_per_eq_waverec2 gc0 gc1 gr0 gr1 hLc hgc hLr hgr y ds' (compat2P_of_pyr gc0 gc1 gr0 gr1 _ A B y hy pr), ?_⟩
  rw [C10P.DWTInverse_per_eq_waverec2 gc0 gc1 gr0 gr1 hLc hgc hLr hgr _ _
    (compat2P_of_pyr gc0 gc1 gr0 gr1 _ A B _ (ilin_rect a b x y A B hx) pc),
    waverec2_linear .periodization gc0 gc1 gr0 gr1 a b A B x y ds ds' hx hy hlen (PyrOKF.toPyrOK .periodization gc0 gc1 gr0 gr1 _ _ _ A B hp)]

/-- the shape hypothesis is satisfiable: one level, 2 × 2 bands under a 3 × 2 approximation (un-pad on the vertical axis) -/
example : PyrOK (R := Int) .zero [1, 1] [1, -1] [1, 1] [1, -1] 3 2
    [some [[[1, 0], [0, 1]], [[2, 0], [0, 2]], [[0, 1], [1, 0]]]] [some [[[0, 0], [0, 1]], [[2, 1], [0, 2]], [[3, 1], [1, 0]]]] := by
  refine ⟨2, 2, ⟨by decide, by decide, Or.inr rfl, Or.inl rfl, ⟨_, _, _, rfl, ?_, ?_, ?_⟩, ⟨_, _, _, rfl, ?_, ?_, ?_⟩⟩, trivial⟩ <;>
    (constructor <;> simp)

end WV.C07I
