/-
  C07 — linearity of the forward DTCWT, for every number of levels and every image size.

  The reference pyramid `Spec.refForward` (which the implementation model of `DTCWTForward` equals for every J and image
  size, C03P) is built from: the border extensions (`extendEven`, `extendMult4`: row / column gathers), the symmetric
  filters `colfilter` / `coldfilt` (sums of products with symmetrically extended samples) along columns and rows, and
  `q2c` (sums and differences of four poly-phase samples).  Each is linear on images of one shape with an output shape
  that depends on the input shape only; composing them gives `refForward(a·x + b·y) = a·refForward(x) + b·refForward(y)`
  (`refForward_linear`) and with C03P the same for the module (`DTCWTForward_linear`).
-/
import WaveletsVerif.Properties.C07L
import WaveletsVerif.Properties.C03P
namespace WV.C07T
open Finset WV WV.C04 WV.C04Q WV.C04P WV.C03P WV.C06 WV.C05D WV.C07 WV.C07L
variable {R : Type} [CommRing R]

/-! ### the one-dimensional filters -/

theorem xt_lincomb (a b : R) (x y : List R) (hxy : x.length = y.length) (i : Int) :
    Spec.xt (lincomb a b x y) i = a * Spec.xt x i + b * Spec.xt y i := by
  unfold Spec.xt
  rw [lincomb_length, ← hxy]
  set k := symIdx x.length i
  unfold getZ
  split
  · exact getN_lincomb a b x y hxy _
  · ring

theorem sumN_lc (a b : R) (n : Nat) (f g : Nat → R) : sumN n (fun k => a * f k + b * g k) = a * sumN n f + b * sumN n g := by
  rw [sumN_eq, sumN_eq, sumN_eq, Finset.sum_add_distrib, Finset.mul_sum, Finset.mul_sum]

theorem lin_spec_colfilter (h : List R) : Lin (Spec.colfilter h) := by
  intro a b x y hxy
  constructor
  · unfold Spec.colfilter
    simp only [lincomb_length]
    apply list_ext_getN
    · simp [hxy]
    · intro i hi
      simp only [length_tab] at hi
      rw [getN_lincomb a b _ _ (by simp [hxy]), getN_tab, getN_tab, getN_tab, if_pos hi, if_pos hi, if_pos (by rw [← hxy]; exact hi),
        ← sumN_lc]
      congr 1; funext j
      rw [xt_lincomb a b x y hxy]; ring
  · simp [Spec.colfilter, hxy]

theorem lin_spec_coldfilt (ha hb : List R) (hp : Bool) : Lin (Spec.coldfilt ha hb hp) := by
  intro a b x y hxy
  have hsum : ∀ (h : List R) (c : Int) (v : Nat),
      (sumN ha.length fun j => getN h (ha.length - 1 - j) * Spec.xt (lincomb a b x y) (4*(v:Int) + 2*(j:Int) + c - (ha.length:Int)))
        = a * (sumN ha.length fun j => getN h (ha.length - 1 - j) * Spec.xt x (4*(v:Int) + 2*(j:Int) + c - (ha.length:Int)))
          + b * (sumN ha.length fun j => getN h (ha.length - 1 - j) * Spec.xt y (4*(v:Int) + 2*(j:Int) + c - (ha.length:Int))) := by
    intro h c v
    rw [← sumN_lc]; congr 1; funext j; rw [xt_lincomb a b x y hxy]; ring
  constructor
  · unfold Spec.coldfilt
    simp only [lincomb_length]
    apply list_ext_getN
    · simp [hxy]
    · intro i hi
      simp only [length_tab] at hi
      have hi' : i < y.length / 2 := by rw [← hxy]; exact hi
      rw [getN_lincomb a b _ _ (by simp [hxy])]
      simp only [getN_tab, hi, hi', if_true]
      by_cases h2 : i % 2 = 0 <;> cases hp <;> simp only [h2, if_true, if_false, Bool.false_eq_true] <;> exact hsum _ _ _
  · simp [Spec.coldfilt, hxy]

/-! ### the border extensions -/

theorem lin_sliceFrom (p : Int) : Lin (fun x : List R => sliceFrom x p) := by
  unfold sliceFrom
  exact Lin.dep (fun n => pyBound n p) (fun q x => x.drop q) (fun q => lin_drop q)

theorem lin_slice (p q : Int) : Lin (fun x : List R => slice x p q) := by
  unfold slice
  exact Lin.dep (fun n => (pyBound n q, pyBound n p)) (fun pq x => (x.take pq.1).drop pq.2)
    (fun pq => (lin_drop pq.2).comp (lin_take pq.1))

/-- `r ↦ r ++ r[-1:]` (repeat the last sample) -/
theorem lin_appendLast : Lin (fun r : List R => r ++ sliceFrom r (-1)) := Lin.append lin_id (lin_sliceFrom (-1))

/-- `r ↦ r[0:1] ++ r ++ r[-1:]` -/
theorem lin_ext1 : Lin (fun r : List R => slice r 0 1 ++ r ++ sliceFrom r (-1)) :=
  Lin.append (Lin.append (lin_slice 0 1) lin_id) (lin_sliceFrom (-1))

/-- a gather of rows through an index table commutes with the linear combination of two images of one shape -/
theorem ilin_gather (a b : R) (x y : Img R) (H W : Nat) (hx : Rect x H W) (hy : Rect y H W) (n : Nat) (g : Nat → Nat) (hg : ∀ i < n, g i < H) :
    ilin a b (tab n fun i => x.getD (g i) []) (tab n fun i => y.getD (g i) []) = tab n fun i => (ilin a b x y).getD (g i) [] := by
  unfold ilin
  rw [length_tab]
  apply tab_ext rfl
  intro i hi
  rw [getD_tab, getD_tab, getD_tab, if_pos hi, if_pos hi, if_pos (by rw [hx.1]; exact hg i hi)]

omit [CommRing R] in
theorem sliceFrom_neg_one {α : Type} (x : List α) : sliceFrom x (-1) = x.drop (x.length - 1) := by
  unfold sliceFrom pyBound
  congr 1
  by_cases h : x.length = 0
  · simp [h]
  · have h1 : ¬ ((-1 : Int) + (x.length : Int) < 0) := by omega
    have h2 : ¬ ((x.length : Int) < -1 + (x.length : Int)) := by omega
    simp only [show ((-1:Int) < 0) from by omega, if_true, h1, if_false, h2]
    omega

omit [CommRing R] in
/-- `x ++ x[-1:]` as a gather: entry `i` is entry `min i (n−1)` -/
theorem appendLast_eq_tab {α : Type} (x : List α) (d : α) (h : 1 ≤ x.length) :
    x ++ sliceFrom x (-1) = tab (x.length + 1) fun i => x.getD (min i (x.length - 1)) d := by
  rw [sliceFrom_neg_one]
  apply List.ext_getElem
  · simp; omega
  · intro i h1 h2
    simp only [tab, List.getElem_map, List.getElem_range]
    rw [List.getD_eq_getElem?_getD, List.getElem?_eq_getElem (by omega)]
    simp only [Option.getD_some]
    by_cases hi : i < x.length
    · rw [List.getElem_append_left hi]
      congr 1; omega
    · rw [List.getElem_append_right (by omega)]
      simp only [List.getElem_drop]
      congr 1; simp at h1; omega

omit [CommRing R] in
/-- `x[0:1] ++ x ++ x[-1:]` as a gather: entry `i` is entry `clamp (i−1)` -/
theorem ext1_eq_tab {α : Type} (x : List α) (d : α) (h : 1 ≤ x.length) :
    slice x 0 1 ++ x ++ sliceFrom x (-1) = tab (x.length + 2) fun i => x.getD (min (i - 1) (x.length - 1)) d := by
  rw [sliceFrom_neg_one, slice_zero_one x h]
  apply List.ext_getElem
  · simp; omega
  · intro i h1 h2
    simp only [tab, List.getElem_map, List.getElem_range]
    rw [List.getD_eq_getElem?_getD, List.getElem?_eq_getElem (by omega)]
    simp only [Option.getD_some]
    have ht : (x.take 1).length = 1 := by rw [List.length_take]; omega
    by_cases hi : i < 1 + x.length
    · rw [List.getElem_append_left (by rw [List.length_append, ht]; exact hi)]
      by_cases h0 : i < 1
      · rw [List.getElem_append_left (by rw [ht]; exact h0), List.getElem_take]
        congr 1; omega
      · rw [List.getElem_append_right (by rw [ht]; omega)]
        congr 1; rw [ht]; omega
    · rw [List.getElem_append_right (by rw [List.length_append, ht]; omega)]
      simp only [List.getElem_drop]
      congr 1
      rw [List.length_append, ht]
      simp at h1; omega

theorem rowsAppendLast_lin (a b : R) (x y : Img R) (H W : Nat) (hx : Rect x H W) (hy : Rect y H W) (hH : 1 ≤ H) :
    ilin a b x y ++ sliceFrom (ilin a b x y) (-1) = ilin a b (x ++ sliceFrom x (-1)) (y ++ sliceFrom y (-1)) := by
  have rl := ilin_rect a b x y H W hx
  rw [appendLast_eq_tab x [] (by rw [hx.1]; exact hH), appendLast_eq_tab y [] (by rw [hy.1]; exact hH),
    appendLast_eq_tab (ilin a b x y) [] (by rw [rl.1]; exact hH), hx.1, hy.1, rl.1]
  exact (ilin_gather a b x y H W hx hy (H + 1) (fun i => min i (H - 1)) (fun i _ => by omega)).symm

theorem rowsAppendLast_rect (x : Img R) (H W : Nat) (hx : Rect x H W) (hH : 1 ≤ H) : Rect (x ++ sliceFrom x (-1)) (H + 1) W := by
  constructor
  · rw [List.length_append, sliceFrom_neg_one_length x (by rw [hx.1]; omega), hx.1]
  · intro r hr
    rcases List.mem_append.mp hr with h | h
    · exact hx.2 r h
    · exact hx.2 r (sliceFrom_neg_one_mem x r h)

theorem rowsExt1_lin (a b : R) (x y : Img R) (H W : Nat) (hx : Rect x H W) (hy : Rect y H W) (hH : 1 ≤ H) :
    slice (ilin a b x y) 0 1 ++ ilin a b x y ++ sliceFrom (ilin a b x y) (-1)
      = ilin a b (slice x 0 1 ++ x ++ sliceFrom x (-1)) (slice y 0 1 ++ y ++ sliceFrom y (-1)) := by
  have rl := ilin_rect a b x y H W hx
  rw [ext1_eq_tab x [] (by rw [hx.1]; exact hH), ext1_eq_tab y [] (by rw [hy.1]; exact hH),
    ext1_eq_tab (ilin a b x y) [] (by rw [rl.1]; exact hH), hx.1, hy.1, rl.1]
  exact (ilin_gather a b x y H W hx hy (H + 2) (fun i => min (i - 1) (H - 1)) (fun i _ => by omega)).symm

/-- **`extendEven` (repeat the last row / column of an odd-sized image) is linear** -/
theorem extendEven_lin (a b : R) (x y : Img R) (H W : Nat) (hx : Rect x H W) (hy : Rect y H W) (hH : 1 ≤ H) (_hW : 1 ≤ W) :
    extendEven (ilin a b x y) = ilin a b (extendEven x) (extendEven y) := by
  have rl := ilin_rect a b x y H W hx
  unfold extendEven
  simp only [rl.1, hx.1, hy.1]
  by_cases c1 : H % 2 = 0
  · simp only [c1, ne_eq, not_true_eq_false, if_false]
    rw [rect_width _ _ _ hx hH, rect_width _ _ _ hy hH, rect_width _ _ _ rl hH]
    by_cases c2 : W % 2 = 0
    · simp only [c2, ne_eq, not_true_eq_false, if_false]
    · simp only [c2, ne_eq, not_false_eq_true, if_true]
      exact alongW_lin lin_appendLast a b _ _ H W hx hy
  · simp only [c1, ne_eq, not_false_eq_true, if_true]
    have r1 := rowsAppendLast_rect x H W hx hH
    have r1' := rowsAppendLast_rect y H W hy hH
    have rl1 := rowsAppendLast_rect _ H W rl hH
    rw [rect_width _ _ _ r1 (by omega), rect_width _ _ _ r1' (by omega), rect_width _ _ _ rl1 (by omega),
      rowsAppendLast_lin a b x y H W hx hy hH]
    by_cases c2 : W % 2 = 0
    · simp only [c2, ne_eq, not_true_eq_false, if_false]
    · simp only [c2, ne_eq, not_false_eq_true, if_true]
      exact alongW_lin lin_appendLast a b _ _ (H + 1) W r1 r1'

/-- **`extendMult4` (one replicated sample on either side when the size is not a multiple of 4) is linear** -/
theorem extendMult4_lin (a b : R) (x y : Img R) (H W : Nat) (hx : Rect x H W) (hy : Rect y H W) (hH : 1 ≤ H) (_hW : 1 ≤ W) :
    extendMult4 (ilin a b x y) = ilin a b (extendMult4 x) (extendMult4 y) := by
  have rl := ilin_rect a b x y H W hx
  unfold extendMult4
  simp only [rl.1, hx.1, hy.1]
  by_cases c1 : H % 4 = 0
  · simp only [c1, ne_eq, not_true_eq_false, if_false]
    rw [rect_width _ _ _ hx hH, rect_width _ _ _ hy hH, rect_width _ _ _ rl hH]
    by_cases c2 : W % 4 = 0
    · simp only [c2, ne_eq, not_true_eq_false, if_false]
    · simp only [c2, ne_eq, not_false_eq_true, if_true]
      exact alongW_lin lin_ext1 a b _ _ H W hx hy
  · simp only [c1, ne_eq, not_false_eq_true, if_true]
    have r1 : Rect (slice x 0 1 ++ x ++ sliceFrom x (-1)) (H + 2) W := ext1_rows_rect x H W hx hH
    have r1' : Rect (slice y 0 1 ++ y ++ sliceFrom y (-1)) (H + 2) W := ext1_rows_rect y H W hy hH
    have rl1 : Rect (slice (ilin a b x y) 0 1 ++ ilin a b x y ++ sliceFrom (ilin a b x y) (-1)) (H + 2) W := ext1_rows_rect _ H W rl hH
    rw [rect_width _ _ _ r1 (by omega), rect_width _ _ _ r1' (by omega), rect_width _ _ _ rl1 (by omega),
      rowsExt1_lin a b x y H W hx hy hH]
    by_cases c2 : W % 4 = 0
    · simp only [c2, ne_eq, not_true_eq_false, if_false]
    · simp only [c2, ne_eq, not_false_eq_true, if_true]
      exact alongW_lin lin_ext1 a b _ _ (H + 2) W r1 r1'

/-! ### `q2c` and one level -/

/-- `a·c + b·c'` on complex images (pairs real part, imaginary part) -/
def clin (a b : R) (c c' : Cplx R) : Cplx R := (ilin a b c.1 c'.1, ilin a b c.2 c'.2)

theorem q2c_lin (s a b : R) (y y' : Img R) (H W : Nat) (hy : Rect y H W) (hy' : Rect y' H W) (hH : 1 ≤ H) :
    q2c s (ilin a b y y') = (clin a b (q2c s y).1 (q2c s y').1, clin a b (q2c s y).2 (q2c s y').2) := by
  have rl := ilin_rect a b y y' H W hy
  have g : ∀ i j, i < H → get2 (ilin a b y y') i j = a * get2 y i j + b * get2 y' i j :=
    fun i j hi => get2_ilin a b y y' H W hy hy' i j hi
  unfold q2c clin
  simp only [rl.1, hy.1, hy'.1, rect_width _ _ _ rl hH, rect_width _ _ _ hy hH, rect_width _ _ _ hy' hH]
  have e : ∀ (f f' fl : Nat → Nat → R), (∀ i < H / 2, ∀ j < W / 2, fl i j = a * f i j + b * f' i j) →
      tab2 (H / 2) (W / 2) fl = ilin a b (tab2 (H / 2) (W / 2) f) (tab2 (H / 2) (W / 2) f') := by
    intro f f' fl hfl
    rw [ilin_eq_tab2 a b _ _ (H / 2) (W / 2) (tab2_rect _ _ _) (tab2_rect _ _ _)]
    apply tab2_congr; intro i hi j hj
    rw [C19.get2_tab2 _ _ _ _ _ hi hj, C19.get2_tab2 _ _ _ _ _ hi hj]
    exact hfl i hi j hj
  refine Prod.ext (Prod.ext ?_ ?_) (Prod.ext ?_ ?_) <;>
    (apply e; intro i hi j _; rw [g _ _ (by omega), g _ _ (by omega)]; ring)

/-- the six complex bands of one level, combined band by band -/
def blin (a b : R) (u v : List (Cplx R)) : List (Cplx R) := List.zipWith (clin a b) u v

theorem highsToOrientations_lin (s a b : R) (lh lh' hl hl' hh hh' : Img R) (H W : Nat) (hH : 1 ≤ H)
    (r1 : Rect lh H W) (r1' : Rect lh' H W) (r2 : Rect hl H W) (r2' : Rect hl' H W) (r3 : Rect hh H W) (r3' : Rect hh' H W) :
    highsToOrientations s (ilin a b lh lh') (ilin a b hl hl') (ilin a b hh hh')
      = blin a b (highsToOrientations s lh hl hh) (highsToOrientations s lh' hl' hh') := by
  unfold highsToOrientations blin
  rw [q2c_lin s a b lh lh' H W r1 r1' hH, q2c_lin s a b hl hl' H W r2 r2' hH, q2c_lin s a b hh hh' H W r3 r3' hH]
  rfl

theorem outLen_colfilter (h : List R) (n : Nat) : outLen (Spec.colfilter h) n = n + 2 * (h.length / 2) + 1 - h.length := by
  simp [outLen, Spec.colfilter]

theorem outLen_coldfilt (ha hb : List R) (hp : Bool) (n : Nat) : outLen (Spec.coldfilt ha hb hp) n = n / 2 := by
  simp [outLen, Spec.coldfilt]

/-- a two-pass level: `alongW F (alongH G x)` is linear, with the shape of the result -/
theorem twoPass_lin {F G : List R → List R} (hF : Lin F) (hG : Lin G) (a b : R) (x y : Img R) (H W : Nat) (hx : Rect x H W)
    (hy : Rect y H W) (hH : 1 ≤ H) (hW : 1 ≤ W) :
    alongW F (alongH G (ilin a b x y)) = ilin a b (alongW F (alongH G x)) (alongW F (alongH G y)) ∧
    Rect (alongW F (alongH G x)) (outLen G H) (outLen F W) := by
  have r := alongH_lin_rect hG x H W hx hH hW
  have r' := alongH_lin_rect hG y H W hy hH hW
  exact ⟨by rw [alongH_lin hG a b x y H W hx hy hH hW, alongW_lin hF a b _ _ _ W r r'], alongW_lin_rect hF _ _ W r⟩

/-- **level 1 of the reference DTCWT is linear**; its low-pass has a shape that depends on the input shape only -/
theorem refLevel1_lin (s : R) (h0o h1o : List R) (hh1 : h1o.length % 2 = h0o.length % 2) (a b : R) (x y : Img R) (H W : Nat)
    (hx : Rect x H W) (hy : Rect y H W) (hH : 1 ≤ H) (hW : 1 ≤ W) :
    Spec.refLevel1 s h0o h1o (ilin a b x y)
      = (ilin a b (Spec.refLevel1 s h0o h1o x).1 (Spec.refLevel1 s h0o h1o y).1,
         blin a b (Spec.refLevel1 s h0o h1o x).2 (Spec.refLevel1 s h0o h1o y).2) ∧
    Rect (Spec.refLevel1 s h0o h1o x).1 (outLen (Spec.colfilter h0o) H) (outLen (Spec.colfilter h0o) W) := by
  have l0 := lin_spec_colfilter (R := R) h0o
  have l1 := lin_spec_colfilter (R := R) h1o
  have e : ∀ n, outLen (Spec.colfilter h1o) n = outLen (Spec.colfilter h0o) n := by
    intro n; rw [outLen_colfilter, outLen_colfilter]; omega
  obtain ⟨p00, r00⟩ := twoPass_lin l0 l0 a b x y H W hx hy hH hW
  obtain ⟨p01, r01⟩ := twoPass_lin l0 l1 a b x y H W hx hy hH hW
  obtain ⟨p10, r10⟩ := twoPass_lin l1 l0 a b x y H W hx hy hH hW
  obtain ⟨p11, r11⟩ := twoPass_lin l1 l1 a b x y H W hx hy hH hW
  obtain ⟨_, r01'⟩ := twoPass_lin l0 l1 a b y x H W hy hx hH hW
  obtain ⟨_, r10'⟩ := twoPass_lin l1 l0 a b y x H W hy hx hH hW
  obtain ⟨_, r11'⟩ := twoPass_lin l1 l1 a b y x H W hy hx hH hW
  rw [e] at r01 r01' r10 r10' r11 r11'
  rw [e] at r11 r11'
  refine ⟨?_, r00⟩
  unfold Spec.refLevel1
  simp only []
  rw [p00, p01, p10, p11]
  have hpos : 1 ≤ outLen (Spec.colfilter h0o) H := by rw [outLen_colfilter]; omega
  rw [highsToOrientations_lin s a b _ _ _ _ _ _ _ _ hpos r01 r01' r10 r10' r11 r11']

/-- **a level ≥ 2 of the reference DTCWT is linear** (q-shift filters of pairwise equal lengths) -/
theorem refLevel2_lin (s : R) (h0a h0b h1a h1b : List R) (a b : R) (x y : Img R) (H W : Nat)
    (hx : Rect x H W) (hy : Rect y H W) (hH : 2 ≤ H) (hW : 1 ≤ W) :
    Spec.refLevel2 s h0a h0b h1a h1b (ilin a b x y)
      = (ilin a b (Spec.refLevel2 s h0a h0b h1a h1b x).1 (Spec.refLevel2 s h0a h0b h1a h1b y).1,
         blin a b (Spec.refLevel2 s h0a h0b h1a h1b x).2 (Spec.refLevel2 s h0a h0b h1a h1b y).2) ∧
    Rect (Spec.refLevel2 s h0a h0b h1a h1b x).1 (H / 2) (W / 2) := by
  have l0 := lin_spec_coldfilt (R := R) h0b h0a false
  have l1 := lin_spec_coldfilt (R := R) h1b h1a true
  have hH1 : 1 ≤ H := by omega
  obtain ⟨p00, r00⟩ := twoPass_lin l0 l0 a b x y H W hx hy hH1 hW
  obtain ⟨p01, r01⟩ := twoPass_lin l0 l1 a b x y H W hx hy hH1 hW
  obtain ⟨p10, r10⟩ := twoPass_lin l1 l0 a b x y H W hx hy hH1 hW
  obtain ⟨p11, r11⟩ := twoPass_lin l1 l1 a b x y H W hx hy hH1 hW
  obtain ⟨_, r01'⟩ := twoPass_lin l0 l1 a b y x H W hy hx hH1 hW
  obtain ⟨_, r10'⟩ := twoPass_lin l1 l0 a b y x H W hy hx hH1 hW
  obtain ⟨_, r11'⟩ := twoPass_lin l1 l1 a b y x H W hy hx hH1 hW
  simp only [outLen_coldfilt] at r00 r01 r01' r10 r10' r11 r11'
  refine ⟨?_, r00⟩
  unfold Spec.refLevel2
  simp only []
  rw [p00, p01, p10, p11]
  rw [highsToOrientations_lin s a b _ _ _ _ _ _ _ _ (by omega : 1 ≤ H / 2) r01 r01' r10 r10' r11 r11']

/-- all levels of a pyramid, combined level by level, band by band -/
def plinC (a b : R) (u v : List (List (Cplx R))) : List (List (Cplx R)) := List.zipWith (blin a b) u v

theorem extendMult4_pos (H : Nat) (hH : 1 ≤ H) : 2 ≤ H + (if H % 4 ≠ 0 then 2 else 0) := by
  split <;> omega

/-- **the q-shift levels of the reference pyramid are linear**, for every number of levels -/
theorem refLoop_lin (s : R) (h0a h0b h1a h1b : List R) (a b : R) :
    ∀ (n : Nat) (x y : Img R) (H W : Nat), Rect x H W → Rect y H W → 1 ≤ H → 1 ≤ W →
      Spec.refLoop s h0a h0b h1a h1b n (ilin a b x y)
        = (ilin a b (Spec.refLoop s h0a h0b h1a h1b n x).1 (Spec.refLoop s h0a h0b h1a h1b n y).1,
           plinC a b (Spec.refLoop s h0a h0b h1a h1b n x).2 (Spec.refLoop s h0a h0b h1a h1b n y).2)
  | 0, _, _, _, _, _, _, _, _ => rfl
  | n+1, x, y, H, W, hx, hy, hH, hW => by
    have rx := extendMult4_rect x H W hx hH hW
    have ry := extendMult4_rect y H W hy hH hW
    have p1 := extendMult4_pos H hH
    have p2 := extendMult4_pos W hW
    obtain ⟨e, r⟩ := refLevel2_lin s h0a h0b h1a h1b a b _ _ _ _ rx ry p1 (by omega)
    obtain ⟨_, r'⟩ := refLevel2_lin s h0a h0b h1a h1b a b _ _ _ _ ry rx p1 (by omega)
    have ih := refLoop_lin s h0a h0b h1a h1b a b n _ _ _ _ r r' (by omega) (by omega)
    simp only [Spec.refLoop]
    rw [extendMult4_lin a b x y H W hx hy hH hW, e]
    simp only []
    rw [ih]
    rfl

/-- **the reference forward DTCWT is linear**: final low-pass and all six complex bands of every level, for every number of
levels `n + 1` and every image size -/
theorem refForward_linear (s : R) (h0o h1o h0a h0b h1a h1b : List R) (hh1 : h1o.length % 2 = h0o.length % 2) (a b : R) (n : Nat)
    (x y : Img R) (H W : Nat) (hx : Rect x H W) (hy : Rect y H W) (hH : 1 ≤ H) (hW : 1 ≤ W) :
    Spec.refForward s h0o h1o h0a h0b h1a h1b n (ilin a b x y)
      = (ilin a b (Spec.refForward s h0o h1o h0a h0b h1a h1b n x).1 (Spec.refForward s h0o h1o h0a h0b h1a h1b n y).1,
         plinC a b (Spec.refForward s h0o h1o h0a h0b h1a h1b n x).2 (Spec.refForward s h0o h1o h0a h0b h1a h1b n y).2) := by
  have rx := extendEven_rect x H W hx hH hW
  have ry := extendEven_rect y H W hy hH hW
  obtain ⟨e, r⟩ := refLevel1_lin s h0o h1o hh1 a b _ _ _ _ rx ry (by omega) (by omega)
  obtain ⟨_, r'⟩ := refLevel1_lin s h0o h1o hh1 a b _ _ _ _ ry rx (by omega) (by omega)
  have ih := refLoop_lin s h0a h0b h1a h1b a b n _ _ _ _ r r' (by rw [outLen_colfilter]; omega) (by rw [outLen_colfilter]; omega)
  simp only [Spec.refForward]
  rw [extendEven_lin a b x y H W hx hy hH hW, e]
  simp only []
  rw [ih]
  rfl

/-- **the forward DTCWT of the implementation model is linear** (all levels kept): for every number of levels `n + 1`,
every image size, level-1 filters of odd length, q-shift filters of pairwise equal lengths -/
theorem DTCWTForward_linear (s : R) (h0o h1o h0a h0b h1a h1b : List R) (hh0o : h0o.length % 2 = 1) (hh1o : h1o.length % 2 = 1)
    (hl0 : 1 ≤ h0b.length) (hab0 : h0a.length = h0b.length) (hl1 : 1 ≤ h1b.length) (hab1 : h1a.length = h1b.length)
    (a b : R) (n : Nat) (incl : List Bool) (x y : Img R) (H W : Nat) (hH : 1 ≤ H) (hW : 1 ≤ W) (hx : Rect x H W) (hy : Rect y H W) :
    ∃ lx hx' sx ly hy' sy sl,
      DTCWTForward s true (mkFg h0o h1o h0a h0b h1a h1b) (List.replicate (n+1) false) incl x = some (lx, hx'.map some, sx) ∧
      DTCWTForward s true (mkFg h0o h1o h0a h0b h1a h1b) (List.replicate (n+1) false) incl y = some (ly, hy'.map some, sy) ∧
      DTCWTForward s true (mkFg h0o h1o h0a h0b h1a h1b) (List.replicate (n+1) false) incl (ilin a b x y)
        = some (ilin a b lx ly, (plinC a b hx' hy').map some, sl) := by
  obtain ⟨sx, ex⟩ := dtcwt_forward_eq_ref s h0o h1o h0a h0b h1a h1b hh0o hh1o hl0 hab0 hl1 hab1 n incl x H W hH hW hx
  obtain ⟨sy, ey⟩ := dtcwt_forward_eq_ref s h0o h1o h0a h0b h1a h1b hh0o hh1o hl0 hab0 hl1 hab1 n incl y H W hH hW hy
  obtain ⟨sl, el⟩ := dtcwt_forward_eq_ref s h0o h1o h0a h0b h1a h1b hh0o hh1o hl0 hab0 hl1 hab1 n incl _ H W hH hW (ilin_rect a b x y H W hx)
  refine ⟨_, _, sx, _, _, sy, sl, ex, ey, ?_⟩
  rw [el, refForward_linear s h0o h1o h0a h0b h1a h1b (by omega) a b n x y H W hx hy hH hW]

/-- the size hypotheses are satisfiable: a 3 × 5 image (odd sizes, extended by the transform) -/
example : Rect ([[1, 2, 3, 4, 5], [6, 7, 8, 9, 10], [11, 12, 13, 14, 15]] : Img Int) 3 5 := by constructor <;> simp

end WV.C07T
