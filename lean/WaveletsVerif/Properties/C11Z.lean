/-
  C11 — "passing None … for the lowpass or for any highpass level is equivalent to passing zeros of the right shape",
  one synthesis level at a time, for every size and every filter.

  `invJ2 … (some l) none`  (the band-pass level is absent)  is  `invJ2 … (some l) (some (zeroBands r c))`,
  `invJ2 … none (some o)`  (the low-pass is absent)         is  `invJ2 … (some (izero (2r) (2c))) (some o)`,
  and the same two statements for level 1 (`invJ1`, symmetric extension).  The proofs go through the reference
  formulas of C11P: every synthesis filter sends the zero image to the zero image (each output sample is a sum of
  products with samples of the input), `c2q` of zero bands is the zero image, and adding a zero image of the same
  shape changes nothing.
-/
import WaveletsVerif.Properties.C11P
namespace WV.C11Z
open Finset WV WV.C04 WV.C04Q WV.C04P WV.C03P WV.C11P
variable {R : Type} [CommRing R]

/-- six complex zero bands of shape `r × c` -/
def zeroBands (r c : Nat) : List (Cplx R) := List.replicate 6 (izero r c, izero r c)

theorem izero_rect (h w : Nat) : Rect (izero h w : Img R) h w := tab2_rect h w _

theorem sumN_zero' (n : Nat) (f : Nat → R) (hf : ∀ j, f j = 0) : sumN n f = 0 := by
  induction n with
  | zero => rfl
  | succ n ih => simp [sumN, ih, hf]

theorem getN_zeros (n i : Nat) : getN (tab n fun _ => (0:R)) i = 0 := by
  rw [getN_tab]; split <;> rfl

theorem getZ_zeros (n : Nat) (i : Int) : getZ (tab n fun _ => (0:R)) i = 0 := by
  rw [getZ_tab]; split <;> rfl

theorem get2_izero (h w i j : Nat) : get2 (izero h w : Img R) i j = 0 := by
  unfold get2 izero tab2
  rw [getD_tab]
  split
  · exact getN_zeros w j
  · rfl

theorem izero_width (h w : Nat) (hh : 1 ≤ h) : Img.width (izero h w : Img R) = w :=
  rect_width _ h w (izero_rect h w) hh

/-- the q-shift synthesis filter sends zeros to zeros -/
theorem Eg_zeros (ga gb : List R) (hp : Bool) (n : Nat) :
    Eg ga gb hp (tab n fun _ => (0:R)) = tab (2*n) fun _ => 0 := by
  unfold Eg Spec.colifilt
  have hl : (tab n fun _ => (0:R)).length = n := by simp [tab]
  simp only [hl]
  apply tab_ext rfl
  intro i _
  have hx : ∀ k, Spec.xt (tab n fun _ => (0:R)) k = 0 := fun k => by unfold Spec.xt; exact getZ_zeros n _
  split <;> split <;> exact sumN_zero' _ _ (fun j => by rw [hx]; ring)

/-- the level-1 synthesis filter sends zeros to zeros -/
theorem Cf_zeros (g : List R) (n : Nat) : ∃ m, Cf g (tab n fun _ => (0:R)) = tab m fun _ => 0 := by
  refine ⟨(tab n fun _ => (0:R)).length + 2*(g.length/2) + 1 - g.length, ?_⟩
  unfold Cf Spec.colfilter
  apply tab_ext rfl
  intro i _
  have hx : ∀ k, Spec.xt (tab n fun _ => (0:R)) k = 0 := fun k => by unfold Spec.xt; exact getZ_zeros n _
  exact sumN_zero' _ _ (fun j => by rw [hx]; ring)

theorem alongH_Eg_zero (ga gb : List R) (hp : Bool) (H W : Nat) (hH : 1 ≤ H) (hW : 1 ≤ W) :
    alongH (Eg ga gb hp) (izero H W : Img R) = izero (2*H) W := by
  rw [alongH_get' (Eg ga gb hp) _ H (2*H) W (izero_rect H W) hH hW (fun c hc => by rw [Eg_length, hc])]
  unfold izero
  apply tab2_congr; intro i _ j hj
  rw [col_tab2 H W _ j hj, Eg_zeros]
  exact getN_zeros _ _

theorem alongW_Eg_zero (ga gb : List R) (hp : Bool) (H W : Nat) :
    alongW (Eg ga gb hp) (izero H W : Img R) = izero H (2*W) := by
  rw [alongW_get' (Eg ga gb hp) _ H W (2*W) (izero_rect H W) (fun c hc => by rw [Eg_length, hc])]
  unfold izero
  apply tab2_congr; intro i hi j _
  have : (tab2 H W fun _ _ => (0:R)).getD i [] = tab W fun _ => 0 := getD_tab2_row H W _ i hi
  rw [this, Eg_zeros]
  exact getN_zeros _ _

theorem alongH_Cf_zero (g : List R) (hg : g.length % 2 = 1) (H W : Nat) (hH : 1 ≤ H) (hW : 1 ≤ W) :
    alongH (Cf g) (izero H W : Img R) = izero H W := by
  rw [alongH_get (Cf g) _ H W (izero_rect H W) hH hW (fun c hc => by rw [colfilter_length g c hg, hc])]
  unfold izero
  apply tab2_congr; intro i _ j hj
  rw [col_tab2 H W _ j hj]
  obtain ⟨m, hm⟩ := Cf_zeros g H
  rw [hm]; exact getN_zeros _ _

theorem alongW_Cf_zero (g : List R) (hg : g.length % 2 = 1) (H W : Nat) :
    alongW (Cf g) (izero H W : Img R) = izero H W := by
  rw [alongW_get (Cf g) _ H W (izero_rect H W) (fun c hc => by rw [colfilter_length g c hg, hc])]
  unfold izero
  apply tab2_congr; intro i hi j _
  have : (tab2 H W fun _ _ => (0:R)).getD i [] = tab W fun _ => 0 := getD_tab2_row H W _ i hi
  rw [this]
  obtain ⟨m, hm⟩ := Cf_zeros g W
  rw [hm]; exact getN_zeros _ _

theorem iadd_izero (x : Img R) (H W : Nat) (hx : Rect x H W) : iadd x (izero H W) = x := by
  have e := rect_eq_tab2 x H W hx
  generalize get2 x = f at e
  subst e
  unfold izero
  rw [iadd_tab2]
  apply tab2_congr; intro i _ j _; ring

theorem izero_iadd (x : Img R) (H W : Nat) (hx : Rect x H W) : iadd (izero H W) x = x := by
  rw [iadd_comm _ _ H W (izero_rect H W) hx, iadd_izero x H W hx]

/-- `c2q` of two zero bands is the zero image -/
theorem c2q_zero (s : R) (r c : Nat) (hr : 1 ≤ r) :
    c2q s (izero r c, izero r c) (izero r c, izero r c) = (izero (2*r) (2*c) : Img R) := by
  unfold c2q
  simp only []
  rw [(izero_rect (R := R) r c).1, izero_width (R := R) r c hr]
  simp only [get2_izero]
  unfold izero
  apply tab2_congr; intro i _ j _
  split <;> split <;> ring

theorem zeroBands_ok (r c : Nat) (hr : 1 ≤ r) : BandOK (zeroBands r c : List (Cplx R)) r c := by
  intro k hk
  have : (zeroBands r c : List (Cplx R)).getD k ([], []) = (izero r c, izero r c) := by
    unfold zeroBands
    rw [List.getD_eq_getElem?_getD, List.getElem?_replicate, if_pos hk]; rfl
  rw [this]
  exact ⟨(izero_rect r c).1, izero_width r c hr⟩

theorem highs_zero (s : R) (r c : Nat) (hr : 1 ≤ r) :
    orientationsToHighs s (zeroBands r c : List (Cplx R))
      = (izero (2*r) (2*c), izero (2*r) (2*c), izero (2*r) (2*c)) := by
  have g : ∀ k < 6, (zeroBands r c : List (Cplx R)).getD k ([], []) = (izero r c, izero r c) := by
    intro k hk
    unfold zeroBands
    rw [List.getD_eq_getElem?_getD, List.getElem?_replicate, if_pos hk]; rfl
  unfold orientationsToHighs
  simp only []
  rw [g 0 (by omega), g 1 (by omega), g 2 (by omega), g 3 (by omega), g 4 (by omega), g 5 (by omega), c2q_zero s r c hr]

/-- **an absent band-pass level (level ≥ 2) is a level of zero bands of the right shape** -/
theorem invJ2_absent_high_eq_zeros (s : R) (g0a g0b g1a g1b : List R) (hm0 : g0b.length % 2 = 0) (hm0' : 2 ≤ g0b.length)
    (hab0 : g0a.length = g0b.length) (hm1 : g1b.length % 2 = 0) (hm1' : 2 ≤ g1b.length) (hab1 : g1a.length = g1b.length)
    (l : Img R) (r c : Nat) (hr : 1 ≤ r) (hc : 1 ≤ c) (hl : Rect l (2*r) (2*c)) :
    invJ2 s (prepFilt g0a) (prepFilt g1a) (prepFilt g0b) (prepFilt g1b) (some l) none
      = invJ2 s (prepFilt g0a) (prepFilt g1a) (prepFilt g0b) (prepFilt g1b) (some l) (some (zeroBands r c)) := by
  rw [(invJ2_eq_ref s g0a g0b g1a g1b hm0 hm0' hab0 hm1 hm1' hab1 l (zeroBands r c) r c hr hc hl (zeroBands_ok r c hr)).1]
  have h2r : 1 ≤ 2*r := by omega
  have h2c : 1 ≤ 2*c := by omega
  have q4 := Eg_alongH_rect g0b g0a false l _ _ hl h2r h2c
  have w := Eg_alongW_rect g0b g0a false _ _ _ q4
  have hspec : Spec.refInvLevel2 s g0a g0b g1a g1b l (zeroBands r c)
      = alongW (Eg g0b g0a false) (alongH (Eg g0b g0a false) l) := by
    unfold Spec.refInvLevel2
    rw [highs_zero s r c hr]
    simp only []
    change iadd (alongW (Eg g0b g0a false) (iadd (alongH (Eg g0b g0a false) l) (alongH (Eg g1b g1a true) (izero (2*r) (2*c)))))
        (alongW (Eg g1b g1a true) (iadd (alongH (Eg g0b g0a false) (izero (2*r) (2*c))) (alongH (Eg g1b g1a true) (izero (2*r) (2*c))))) = _
    rw [alongH_Eg_zero g1b g1a true _ _ h2r h2c, alongH_Eg_zero g0b g0a false _ _ h2r h2c,
      iadd_izero _ _ _ q4, iadd_izero _ _ _ (izero_rect _ _), alongW_Eg_zero, iadd_izero _ _ _ w]
  rw [hspec]
  unfold invJ2
  simp only [Option.bind_eq_bind, Option.bind_some]
  rw [colifilt_modelG g0b g0a false hm0 hm0' hab0 l r hr hl.1]
  simp only [Option.bind_some]
  rw [rowifilt_modelG g0b g0a false hm0 hm0' hab0 _ c hc q4.2]

/-- **an absent low-pass (level ≥ 2) is a zero low-pass of the right shape** -/
theorem invJ2_absent_low_eq_zeros (s : R) (g0a g0b g1a g1b : List R) (hm0 : g0b.length % 2 = 0) (hm0' : 2 ≤ g0b.length)
    (hab0 : g0a.length = g0b.length) (hm1 : g1b.length % 2 = 0) (hm1' : 2 ≤ g1b.length) (hab1 : g1a.length = g1b.length)
    (o : List (Cplx R)) (r c : Nat) (hr : 1 ≤ r) (hc : 1 ≤ c) (ho : BandOK o r c) :
    invJ2 s (prepFilt g0a) (prepFilt g1a) (prepFilt g0b) (prepFilt g1b) none (some o)
      = invJ2 s (prepFilt g0a) (prepFilt g1a) (prepFilt g0b) (prepFilt g1b) (some (izero (2*r) (2*c))) (some o) := by
  obtain ⟨rlh, rhl, rhh⟩ := highs_rect s o r c ho
  set lh := (orientationsToHighs s o).1 with hlh
  set hl' := (orientationsToHighs s o).2.1 with hhl
  set hh := (orientationsToHighs s o).2.2 with hhh
  have h2r : 1 ≤ 2*r := by omega
  have h2c : 1 ≤ 2*c := by omega
  have h4r : 1 ≤ 2*(2*r) := by omega
  have c1 := colifilt_modelG g1b g1a true hm1 hm1' hab1 hh r hr rhh.1
  have c2 := colifilt_modelG g0b g0a false hm0 hm0' hab0 hl' r hr rhl.1
  have c3 := colifilt_modelG g1b g1a true hm1 hm1' hab1 lh r hr rlh.1
  have c4 := colifilt_modelG g0b g0a false hm0 hm0' hab0 (izero (2*r) (2*c)) r hr (izero_rect (R := R) _ _).1
  have q3 := Eg_alongH_rect g1b g1a true lh _ _ rlh h2r h2c
  unfold invJ2
  simp only []
  rw [show (orientationsToHighs s o) = (lh, hl', hh) from rfl]
  simp only []
  rw [c1, c2, c3, c4]
  simp only [Option.bind_eq_bind, Option.bind_some]
  rw [alongH_Eg_zero g0b g0a false _ _ h2r h2c]
  have hshape : ¬ ((izero (2*(2*r)) (2*c) : Img R).length ≠ (alongH (Eg g1b g1a true) lh).length ∨
      Img.width (izero (2*(2*r)) (2*c) : Img R) ≠ Img.width (alongH (Eg g1b g1a true) lh)) := by
    rw [q3.1, (izero_rect (R := R) _ _).1, rect_width _ _ _ q3 h4r, izero_width _ _ h4r]; simp
  rw [if_neg hshape, iadd_izero _ _ _ q3]
  simp only [Option.bind_some]

/-- **level 1: an absent band-pass level is a level of zero bands** (symmetric extension) -/
theorem invJ1_absent_high_eq_zeros (s : R) (g0 g1 : List R) (hg0 : g0.length % 2 = 1) (hg1 : g1.length % 2 = 1)
    (l : Img R) (r c : Nat) (hr : 1 ≤ r) (hc : 1 ≤ c) (hl : Rect l (2*r) (2*c)) :
    invJ1 s true (prepFilt g0) (prepFilt g1) (r, c) (some l) none
      = invJ1 s true (prepFilt g0) (prepFilt g1) (r, c) (some l) (some (zeroBands r c)) := by
  rw [invJ1_eq_ref s g0 g1 hg0 hg1 l (zeroBands r c) r c hr hc hl (zeroBands_ok r c hr)]
  have G0 : 1 ≤ g0.length := by omega
  have h2r : 1 ≤ 2*r := by omega
  have h2c : 1 ≤ 2*c := by omega
  have q4 := alongH_rect g0 hg0 l _ _ hl h2r h2c
  have w := alongW_rect g0 hg0 _ _ _ q4
  have hspec : Spec.refInvLevel1 s g0 g1 l (zeroBands r c) = alongW (Cf g0) (alongH (Cf g0) l) := by
    unfold Spec.refInvLevel1
    rw [highs_zero s r c hr]
    simp only []
    change iadd (alongW (Cf g0) (iadd (alongH (Cf g0) l) (alongH (Cf g1) (izero (2*r) (2*c)))))
        (alongW (Cf g1) (iadd (alongH (Cf g0) (izero (2*r) (2*c))) (alongH (Cf g1) (izero (2*r) (2*c))))) = _
    rw [alongH_Cf_zero g1 hg1 _ _ h2r h2c, alongH_Cf_zero g0 hg0 _ _ h2r h2c,
      iadd_izero _ _ _ q4, iadd_izero _ _ _ (izero_rect _ _), alongW_Cf_zero g1 hg1, iadd_izero _ _ _ w]
  rw [hspec]
  unfold invJ1
  simp only [Option.map_some]
  rw [colfilter_model g0 G0 l (by rw [hl.1]; exact h2r), rowfilter_model g0 G0 _ (2*c) h2c q4.2]

/-- **level 1: an absent low-pass is a zero low-pass of the right shape** (symmetric extension) -/
theorem invJ1_absent_low_eq_zeros (s : R) (g0 g1 : List R) (hg0 : g0.length % 2 = 1) (hg1 : g1.length % 2 = 1)
    (o : List (Cplx R)) (r c : Nat) (hr : 1 ≤ r) (hc : 1 ≤ c) (ho : BandOK o r c) :
    invJ1 s true (prepFilt g0) (prepFilt g1) (r, c) none (some o)
      = invJ1 s true (prepFilt g0) (prepFilt g1) (r, c) (some (izero (2*r) (2*c))) (some o) := by
  obtain ⟨rlh, rhl, rhh⟩ := highs_rect s o r c ho
  set lh := (orientationsToHighs s o).1 with hlh
  set hl' := (orientationsToHighs s o).2.1 with hhl
  set hh := (orientationsToHighs s o).2.2 with hhh
  have G0 : 1 ≤ g0.length := by omega
  have G1 : 1 ≤ g1.length := by omega
  have h2r : 1 ≤ 2*r := by omega
  have h2c : 1 ≤ 2*c := by omega
  have c3 : colfilter true (prepFilt g1) lh = alongH (Cf g1) lh := colfilter_model g1 G1 _ (by rw [rlh.1]; exact h2r)
  have c4 : colfilter true (prepFilt g0) (izero (2*r) (2*c)) = alongH (Cf g0) (izero (2*r) (2*c)) :=
    colfilter_model g0 G0 _ (by rw [(izero_rect (R := R) _ _).1]; exact h2r)
  have q3 := alongH_rect g1 hg1 lh _ _ rlh h2r h2c
  unfold invJ1
  simp only []
  rw [show (orientationsToHighs s o) = (lh, hl', hh) from rfl]
  simp only []
  rw [cropToHighs_id (izero (2*r) (2*c)) r c (izero_rect (R := R) _ _).1 (izero_width _ _ h2r), c3, c4,
    alongH_Cf_zero g0 hg0 _ _ h2r h2c]
  have hshape : ¬ ((alongH (Cf g1) lh).length ≠ (izero (2*r) (2*c) : Img R).length ∨
      Img.width (alongH (Cf g1) lh) ≠ Img.width (izero (2*r) (2*c) : Img R)) := by
    rw [q3.1, (izero_rect (R := R) _ _).1, rect_width _ _ _ q3 h2r, izero_width _ _ h2r]; simp
  rw [if_neg hshape, iadd_izero _ _ _ q3]

/-- the hypotheses are satisfiable: a 2×2 low-pass with 1×1 zero bands -/
example : BandOK (zeroBands 1 1 : List (Cplx Int)) 1 1 ∧ Rect ([[1, 2], [3, 4]] : Img Int) (2*1) (2*1) :=
  ⟨zeroBands_ok 1 1 (by omega), by constructor <;> simp⟩

end WV.C11Z
