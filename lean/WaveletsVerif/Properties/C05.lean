/-
  C05 — DWT back-propagation is the exact adjoint.

  Adjointness is stated as an inner-product identity (no matrices):
  `⟨forward x, g⟩ = ⟨x, backward g⟩` for every signal `x` and cotangent `g`.
  Proved here for mode `zero` (all lengths, all filter lengths, any commutative
  ring).  For symmetric / reflect / periodic the model's backward is provably the
  adjoint of the *zero-padded* bank, i.e. not of the forward map: these are the
  known findings C05-afb/sfb-backward-padded-modes (witnesses below).
-/
import WaveletsVerif.Lemmas.Adjoint
import WaveletsVerif.Lemmas.Circ
import WaveletsVerif.Properties.C01
import WaveletsVerif.Properties.C10
namespace WV.C05
open Finset WV
variable {R : Type} [CommRing R]

/-- the core of every gradient statement: a strided correlation and the transposed
convolution with the same taps are mutual adjoints -/
theorem corr_convT_adjoint (w x g : List R) (P : Nat) (K : Nat) (hK : K = g.length) :
    ∑ k ∈ range K, getN g k * (∑ j ∈ range w.length, getN w j * getZ x ((2*k + j : Nat) - (P:Int)))
      = ∑ i ∈ range x.length, getN x i * (∑ k ∈ range K, getN g k * getZ w ((i:Int) + P - 2*k)) := by
  subst hK
  have h : ∀ k ∈ range g.length, getN g k * (∑ j ∈ range w.length, getN w j * getZ x ((2*k + j : Nat) - (P:Int)))
      = ∑ i ∈ range x.length, getN g k * (getN x i * getZ w ((i:Int) + P - 2*k)) := by
    intro k _
    have e : ∀ j ∈ range w.length, getN w j * getZ x (((2*k + j : Nat):Int) - (P:Int))
        = getN w j * getZ x ((j:Int) + (2*(k:Int) - P)) := by
      intro j _; congr 2; push_cast; ring
    rw [Finset.sum_congr rfl e, reindex, Finset.mul_sum]
    apply Finset.sum_congr rfl; intro i _
    congr 3; ring
  rw [Finset.sum_congr rfl h, Finset.sum_comm]
  apply Finset.sum_congr rfl; intro i _
  rw [Finset.mul_sum]
  apply Finset.sum_congr rfl; intro k _
  ring

/-- the value `afb1d` computes in mode `zero` for one filter -/
def afbZeroVal (w x : List R) : List R :=
  let p := 2 * (dwtCoeffLen x.length w.length - 1) + w.length - x.length
  corr w (zeroPad (if p % 2 = 1 then zeroPad x 0 1 else x) (p/2) (p/2)) 2 1

theorem afb1dOne_zero_val (w x : List R) (hL : 2 ≤ w.length) (hN : 1 ≤ x.length) :
    afb1dOne .zero w x = some (afbZeroVal w x) := by
  have hguard : ¬ (w.length < 2 ∨ x.length < 1) := by omega
  simp only [afb1dOne, afbZeroVal, hguard, if_false]

theorem afbZeroVal_length (w x : List R) (hL : 2 ≤ w.length) (hN : 1 ≤ x.length) :
    (afbZeroVal w x).length = dwtCoeffLen x.length w.length := by
  unfold afbZeroVal dwtCoeffLen
  simp only [corr_length]
  split <;> simp [corrLen] <;> split <;> omega

theorem afbZeroVal_get (w x : List R) (hL : 2 ≤ w.length) (hN : 1 ≤ x.length) (k : Nat)
    (hk : k < dwtCoeffLen x.length w.length) :
    getN (afbZeroVal w x) k
      = ∑ j ∈ range w.length, getN w j * getZ x ((2*k + j : Nat) - ((w.length - 2 : Nat):Int)) := by
  have hlen := afbZeroVal_length w x hL hN
  unfold afbZeroVal at hlen ⊢
  simp only [corr_length] at hlen
  rw [getN_corr2 _ _ k (by rw [hlen]; exact hk)]
  apply Finset.sum_congr rfl; intro j _
  rw [getZ_zeroPad]
  have hP : (2 * (dwtCoeffLen x.length w.length - 1) + w.length - x.length) / 2 = w.length - 2 := by
    unfold dwtCoeffLen at *; omega
  rw [hP]
  split
  · rw [getZ_zeroPad]; congr 2; push_cast; ring
  · rfl

/-- one filter, mode `zero`: `⟨afb1d(x), g⟩ = ⟨x, conv_transpose(g) cropped by L−2⟩` for every
signal, cotangent and filter — the code's backward (`sfb1d` + crop) is the exact adjoint -/
theorem afb_zero_adjoint_one (w x g : List R) (hL : 2 ≤ w.length) (hN : 1 ≤ x.length)
    (hg : g.length = dwtCoeffLen x.length w.length) :
    ∑ k ∈ range g.length, getN (afbZeroVal w x) k * getN g k
      = ∑ i ∈ range x.length, getN x i * getN (convT w g (w.length - 2)) i := by
  have hK : ∀ k ∈ range g.length, getN (afbZeroVal w x) k * getN g k
      = getN g k * ∑ j ∈ range w.length, getN w j * getZ x ((2*k + j : Nat) - ((w.length - 2 : Nat):Int)) := by
    intro k hk
    have hk' : k < g.length := by simpa using hk
    rw [afbZeroVal_get w x hL hN k (by rw [← hg]; exact hk'), mul_comm]
  rw [Finset.sum_congr rfl hK, corr_convT_adjoint w x g (w.length - 2) g.length rfl]
  apply Finset.sum_congr rfl; intro i hi
  have hi' : i < x.length := by simpa using hi
  rw [getN_convT _ _ _ _ (by rw [hg]; unfold dwtCoeffLen; omega)]

/-- `AFB1D.backward` in mode `zero` (both filters, crop to the input length) is the adjoint of
`AFB1D.forward`: `⟨lo, g0⟩ + ⟨hi, g1⟩ = ⟨x, dx⟩`. -/
theorem afb_zero_adjoint (w0 w1 x g0 g1 : List R) (hL : 2 ≤ w0.length) (hw : w1.length = w0.length)
    (hN : 1 ≤ x.length) (h0 : g0.length = dwtCoeffLen x.length w0.length) (h1 : g1.length = g0.length) :
    ∃ lo hi d, afb1dOne .zero w0 x = some lo ∧ afb1dOne .zero w1 x = some hi ∧
      sfb1dCh .zero w0 w1 g0 g1 = some d ∧
      (∑ k ∈ range g0.length, getN lo k * getN g0 k) + (∑ k ∈ range g1.length, getN hi k * getN g1 k)
        = ∑ i ∈ range x.length, getN x i * getN (foldCrop .zero x.length d) i := by
  have e0 := afb_zero_adjoint_one w0 x g0 hL hN h0
  have e1 := afb_zero_adjoint_one w1 x g1 (by omega) hN (by rw [h1, h0, hw])
  have hK : 1 ≤ g0.length ∧ x.length ≤ 2 * g0.length + 2 - w0.length := by
    rw [h0]; unfold dwtCoeffLen; omega
  have hguard : ¬ (w0.length < 2 ∨ w1.length ≠ w0.length ∨ g0.length < 1 ∨ g1.length ≠ g0.length) := by
    omega
  have hfit : ¬ (2 * (g0.length - 1) + w0.length < 2 * (w0.length - 2) + 1) := by omega
  refine ⟨_, _, vadd (convT w0 g0 (w0.length - 2)) (convT w1 g1 (w0.length - 2)),
    afb1dOne_zero_val w0 x hL hN, afb1dOne_zero_val w1 x (by omega) hN, ?_, ?_⟩
  · simp only [sfb1dCh, hguard, hfit, if_false]
  · rw [e0, e1, ← Finset.sum_add_distrib]
    apply Finset.sum_congr rfl; intro i hi'
    have hi'' : i < x.length := by simpa using hi'
    have hlen : x.length ≤ (convT w0 g0 (w0.length - 2)).length := by
      simp [convT, convTFull]; omega
    have hget : getN (foldCrop .zero x.length (vadd (convT w0 g0 (w0.length - 2)) (convT w1 g1 (w0.length - 2)))) i
        = getN (convT w0 g0 (w0.length - 2)) i + getN (convT w1 g1 (w0.length - 2)) i := by
      unfold foldCrop
      split
      · simp only [show (Mode.zero = Mode.periodization) = False by simp, if_false]
        rw [getN_take _ _ _ hi'', getN_vadd _ _ _ (by omega)]
      · rw [getN_vadd _ _ _ (by omega)]
    rw [hget, hw]; ring

/-- `SFB1D.backward` in mode `zero` — `afb1d(dy, g0, g1)` with the synthesis filters used as they are —
is the adjoint of `SFB1D.forward` (two transposed convolutions cropped by `L−2`):
`⟨sfb(lo, hi), dy⟩ = ⟨lo, dlow⟩ + ⟨hi, dhigh⟩` for every `lo, hi, dy` of matching lengths. -/
theorem sfb_zero_adjoint (g0 g1 lo hi dy : List R) (hL : 2 ≤ g0.length) (hg : g1.length = g0.length)
    (hn : 1 ≤ lo.length) (hh : hi.length = lo.length)
    (hfit : g0.length ≤ 2 * lo.length + 1)
    (hdy : dy.length = 2 * lo.length + 2 - g0.length) :
    ∃ y dlow dhigh, sfb1dCh .zero g0 g1 lo hi = some y ∧ afb1dOne .zero g0 dy = some dlow ∧
      afb1dOne .zero g1 dy = some dhigh ∧
      ∑ i ∈ range dy.length, getN y i * getN dy i
        = (∑ k ∈ range lo.length, getN lo k * getN dlow k) + (∑ k ∈ range hi.length, getN hi k * getN dhigh k) := by
  have hN : 1 ≤ dy.length := by omega
  have hK0 : lo.length = dwtCoeffLen dy.length g0.length := by unfold dwtCoeffLen; omega
  have hK1 : hi.length = dwtCoeffLen dy.length g1.length := by unfold dwtCoeffLen; omega
  have e0 := afb_zero_adjoint_one g0 dy lo hL hN hK0
  have e1 := afb_zero_adjoint_one g1 dy hi (by omega) hN hK1
  have hguard : ¬ (g0.length < 2 ∨ g1.length ≠ g0.length ∨ lo.length < 1 ∨ hi.length ≠ lo.length) := by omega
  have hfit' : ¬ (2 * (lo.length - 1) + g0.length < 2 * (g0.length - 2) + 1) := by omega
  refine ⟨vadd (convT g0 lo (g0.length - 2)) (convT g1 hi (g0.length - 2)), _, _,
    by simp only [sfb1dCh, hguard, hfit', if_false], afb1dOne_zero_val g0 dy hL hN,
    afb1dOne_zero_val g1 dy (by omega) hN, ?_⟩
  have hlen : dy.length ≤ (convT g0 lo (g0.length - 2)).length := by simp [convT, convTFull]; omega
  have lhs : ∑ i ∈ range dy.length, getN (vadd (convT g0 lo (g0.length - 2)) (convT g1 hi (g0.length - 2))) i * getN dy i
      = (∑ i ∈ range dy.length, getN dy i * getN (convT g0 lo (g0.length - 2)) i)
        + (∑ i ∈ range dy.length, getN dy i * getN (convT g1 hi (g1.length - 2)) i) := by
    rw [← Finset.sum_add_distrib]
    apply Finset.sum_congr rfl; intro i hi'
    have : i < dy.length := by simpa using hi'
    rw [getN_vadd _ _ _ (by omega), hg]; ring
  rw [lhs, ← e0, ← e1]
  congr 1
  · apply Finset.sum_congr rfl; intro k _; ring
  · apply Finset.sum_congr rfl; intro k _; ring

/-- non-vacuity: Haar-like integer bank on a length-5 signal meets every hypothesis -/
example : (2 ≤ ([1, 1] : List Int).length) ∧ (1 ≤ ([3, 1, 4, 1, 5] : List Int).length) ∧
    ([7, 8, 9] : List Int).length = dwtCoeffLen 5 2 := by decide

/-- known finding, witnessed on integers: in mode `symmetric` the model's backward (`sfb1d` + crop,
what `AFB1D.backward` does) is NOT the adjoint of the forward map: `⟨A e₀, g⟩ ≠ ⟨e₀, backward g⟩`
for the filter `[1,2,3,4]`, unit impulse `e₀` of length 6 and `g = (1,0,0,0)` on the low band. -/
example :
    (afb1dOne .symmetric [1,2,3,4] ([1,0,0,0,0,0] : List Int)).map (fun y => getN y 0)
      ≠ (sfb1dCh .symmetric [1,2,3,4] [1,2,3,4] ([1,0,0,0] : List Int) [0,0,0,0]).map
          (fun d => getN (foldCrop .symmetric 6 d) 0) := by decide


/-- **AFB1D.backward is the adjoint in periodization mode**, every length `N ≥ 1` (odd included: the gradient of
the repeated last sample is folded back by `foldCrop`), every even filter length `L ≤ N + N % 2`. -/
theorem afb_per_adjoint (h0 h1 x g0 g1 : List R) (hL : 2 ≤ h0.length) (hLe : h0.length % 2 = 0)
    (hh1 : h1.length = h0.length) (hN : 1 ≤ x.length) (hLN : h0.length ≤ x.length + x.length % 2)
    (hg0 : g0.length = (x.length + x.length % 2) / 2) (hg1 : g1.length = g0.length) :
    ∃ lo hi d, afb1dOne .periodization h0.reverse x = some lo ∧ afb1dOne .periodization h1.reverse x = some hi ∧
      sfb1dCh .periodization h0.reverse h1.reverse g0 g1 = some d ∧
      (∑ k ∈ range g0.length, getN lo k * getN g0 k) + (∑ k ∈ range g1.length, getN hi k * getN g1 k)
        = ∑ i ∈ range x.length, getN x i * getN (foldCrop .periodization x.length d) i := by
  set n := (x.length + x.length % 2) / 2 with hn
  set x' : List R := if x.length % 2 = 1 then x ++ [getN x (x.length - 1)] else x with hx'
  have hx'len : x'.length = 2 * n := by
    by_cases hp : x.length % 2 = 1
    · simp only [hx', hp, if_true, List.length_append, List.length_singleton]; omega
    · simp only [hx', hp, if_false]; omega
  have hd : ∀ h : List R, Spec.dwt .periodization h x = Spec.dwt .periodization h x' := by
    intro h
    by_cases hp : x.length % 2 = 1
    · have hodd' : ¬ (x'.length % 2 = 1) := by omega
      have : x' = x ++ [getN x (x.length - 1)] := by simp only [hx', hp, if_true]
      simp only [Spec.dwt, hp, hodd', if_true, if_false, ← this]
    · have : x' = x := by simp only [hx', hp, if_false]
      rw [this]
  set y := Spec.idwt .periodization h0.reverse h1.reverse g0 g1 with hy
  have hylen : y.length = 2 * n := by simp [hy, Spec.idwt, hg0, hn]
  refine ⟨Spec.dwt .periodization h0 x, Spec.dwt .periodization h1 x, y,
    C01.afb1dOne_per_eq_dwt_partial_all h0 x hLe hL hN hLN,
    C01.afb1dOne_per_eq_dwt_partial_all h1 x (by omega) (by omega) hN (by omega),
    C10.sfb1dCh_per_eq_idwt_partial h0.reverse h1.reverse g0 g1 (by simpa using hL) (by simp [hh1]) (by omega) (by omega)
      (by simp; omega), ?_⟩
  have ht := WV.per_synthesis_is_transpose h0 h1 x' g0 g1 n (by omega) hx'len hg0 hL hLe hh1
  rw [hd h0, hd h1, hg1, hg0]
  have e1 : ∀ (a b : List R), ∑ k ∈ range n, getN a k * getN b k = ∑ k ∈ range n, getN b k * getN a k := by
    intro a b; apply Finset.sum_congr rfl; intro k _; ring
  rw [e1 _ g0, e1 _ g1, ← ht]
  by_cases hp : x.length % 2 = 1
  · -- odd: 2n = N+1
    have hNn : 2 * n = x.length + 1 := by omega
    have hxe : x' = x ++ [getN x (x.length - 1)] := by simp only [hx', hp, if_true]
    rw [hNn, Finset.sum_range_succ]
    have hfc : ∀ i < x.length, getN (foldCrop .periodization x.length y) i
        = if i + 1 = x.length then getN y i + getN y x.length else getN y i := by
      intro i hi
      have hgt : y.length > x.length := by omega
      simp only [foldCrop, hgt, if_true]
      unfold getN
      rw [List.getD_eq_getElem?_getD, List.getElem?_take_of_lt hi, ← List.getD_eq_getElem?_getD]
      have := getN_tab (n := y.length) (f := fun k => if k + 1 = x.length then getN y k + getN y x.length else getN y k) i
      unfold getN at this
      rw [this, if_pos (by omega)]
    have hxi : ∀ i < x.length, getN x' i = getN x i := by
      intro i hi
      rw [hxe]; unfold getN
      simp [List.getD_eq_getElem?_getD, List.getElem?_append_left hi]
    have hxl : getN x' x.length = getN x (x.length - 1) := by
      rw [hxe]; unfold getN
      simp [List.getD_eq_getElem?_getD]
    rw [hxl]
    have hsum : ∑ i ∈ range x.length, getN x i * getN (foldCrop .periodization x.length y) i
        = ∑ i ∈ range x.length, (getN x' i * getN y i + if i + 1 = x.length then getN x i * getN y x.length else 0) := by
      apply Finset.sum_congr rfl; intro i hi
      have hi' : i < x.length := by simpa using hi
      rw [hfc i hi', hxi i hi']
      split <;> ring
    rw [hsum, Finset.sum_add_distrib]
    congr 1
    have hm : x.length - 1 ∈ range x.length := by simp; omega
    rw [Finset.sum_eq_single_of_mem _ hm]
    · rw [if_pos (by omega)]
    · intro b _ hb
      have hb' : b < x.length := by simpa using ‹b ∈ range x.length›
      rw [if_neg (by omega)]
  · have hxe : x' = x := by simp only [hx', hp, if_false]
    have hNn : 2 * n = x.length := by omega
    rw [hNn, hxe]
    have hfc : foldCrop .periodization x.length y = y := by
      have : ¬ (y.length > x.length) := by omega
      simp only [foldCrop, this, if_false]
    rw [hfc]

end WV.C05
