/-
  C04 — DTCWT perfect reconstruction: the pieces proved so far.

  * `c2q (q2c y) = y` for every even-sized block image, given only `2·s·s = 1`
    (`s` stands for `1/np.sqrt(2)`): the quad ↔ complex re-packing of the six
    oriented sub-bands loses nothing.
  * odd-sized inputs are extended to even size with the original in the top-left
    corner (`extendEven`).
  The filter-bank part (level 1: symmetric biorthogonal pair on the symmetric
  extension; level ≥ 2: q-shift pair) is covered by the exact correspondence and
  the PR oracle on all 20 filter pairs; see DESIGN.md for the staged plan.
-/
import WaveletsVerif.Lemmas.Basic
import WaveletsVerif.Properties.C19
import WaveletsVerif.Model.Dtcwt
import WaveletsVerif.Lemmas.PR
import WaveletsVerif.Lemmas.Lift
import WaveletsVerif.Spec.DtcwtRef
import WaveletsVerif.Properties.C03
import Mathlib.Tactic.NormNum
import Mathlib.Tactic.IntervalCases
import Mathlib.Data.Rat.Defs
namespace WV.C04
open Finset WV WV.C19
variable {R : Type} [CommRing R]

/-- `c2q(q2c(y)) = y` on every `2h × 2w` image -/
theorem c2q_q2c (s : R) (hs : 2 * s * s = 1) (h w : Nat) (hh : 0 < h) (f : Nat → Nat → R) :
    c2q s (q2c s (tab2 (2*h) (2*w) f)).1 (q2c s (tab2 (2*h) (2*w) f)).2 = tab2 (2*h) (2*w) f := by
  have hH : (tab2 (2*h) (2*w) f).length = 2*h := by simp [tab2]
  have hW : (tab2 (2*h) (2*w) f).width = 2*w := width_tab2 _ _ _ (by omega)
  unfold q2c c2q
  simp only [hH, hW]
  have e1 : 2 * h / 2 = h := by omega
  have e2 : 2 * w / 2 = w := by omega
  simp only [e1, e2]
  have hl : (tab2 h w fun i j => s * get2 (tab2 (2*h) (2*w) f) (2*i) (2*j) - s * get2 (tab2 (2*h) (2*w) f) (2*i+1) (2*j+1)).length = h := by
    simp [tab2]
  have hwd : (tab2 h w fun i j => s * get2 (tab2 (2*h) (2*w) f) (2*i) (2*j) - s * get2 (tab2 (2*h) (2*w) f) (2*i+1) (2*j+1)).width = w :=
    width_tab2 _ _ _ hh
  simp only [hl, hwd]
  unfold tab2
  apply tab_ext rfl; intro i hi
  apply tab_ext rfl; intro j hj
  have hp : i / 2 < h := by omega
  have hq : j / 2 < w := by omega
  have g : ∀ (F : Nat → Nat → R), get2 (tab h fun i => tab w fun j => F i j) (i/2) (j/2) = F (i/2) (j/2) := by
    intro F; exact get2_tab2 h w F _ _ hp hq
  have gf : ∀ a b, a < 2*h → b < 2*w → get2 (tab (2*h) fun i => tab (2*w) fun j => f i j) a b = f a b := by
    intro a b ha hb; exact get2_tab2 (2*h) (2*w) f a b ha hb
  simp only [g]
  rw [gf _ _ (by omega) (by omega), gf _ _ (by omega) (by omega), gf _ _ (by omega) (by omega), gf _ _ (by omega) (by omega)]
  have key : ∀ v : R, s * (s * v + s * v) = v := by
    intro v
    calc s * (s * v + s * v) = (2 * s * s) * v := by ring
      _ = v := by rw [hs]; ring
  rcases Nat.mod_two_eq_zero_or_one i with hi2 | hi2 <;> rcases Nat.mod_two_eq_zero_or_one j with hj2 | hj2 <;>
    simp only [hi2, hj2, if_true, if_false, Nat.one_ne_zero]
  · have a1 : 2 * (i/2) = i := by omega
    have a2 : 2 * (j/2) = j := by omega
    rw [a1, a2]
    calc s * (s * f i j - s * f (i+1) (j+1) + (s * f i j + s * f (i+1) (j+1))) = s * (s * f i j + s * f i j) := by ring
      _ = f i j := key _
  · have a1 : 2 * (i/2) = i := by omega
    have a2 : 2 * (j/2) + 1 = j := by omega
    rw [a1, a2]
    have a3 : 2 * (j/2) = j - 1 := by omega
    rw [a3]
    calc s * (s * f i j + s * f (i+1) (j-1) + (s * f i j - s * f (i+1) (j-1))) = s * (s * f i j + s * f i j) := by ring
      _ = f i j := key _
  · have a1 : 2 * (i/2) + 1 = i := by omega
    have a2 : 2 * (j/2) = j := by omega
    rw [a1, a2]
    have a3 : 2 * (i/2) = i - 1 := by omega
    rw [a3]
    calc s * (s * f (i-1) (j+1) + s * f i j - (s * f (i-1) (j+1) - s * f i j)) = s * (s * f i j + s * f i j) := by ring
      _ = f i j := key _
  · have a1 : 2 * (i/2) + 1 = i := by omega
    have a2 : 2 * (j/2) + 1 = j := by omega
    rw [a1, a2]
    have a3 : 2 * (i/2) = i - 1 := by omega
    have a4 : 2 * (j/2) = j - 1 := by omega
    rw [a3, a4]
    calc s * (-(s * f (i-1) (j-1) - s * f i j) + (s * f (i-1) (j-1) + s * f i j)) = s * (s * f i j + s * f i j) := by ring
      _ = f i j := key _

omit [CommRing R] in
theorem sliceFrom_neg_one_length {α : Type} (x : List α) (h : 0 < x.length) : (sliceFrom x (-1)).length = 1 := by
  unfold sliceFrom pyBound
  simp only [List.length_drop]
  have e : (if (-1:Int) < 0 then (-1:Int) + (x.length:Int) else -1) = (x.length:Int) - 1 := by
    simp; omega
  rw [e]
  have h1 : ¬ ((x.length:Int) - 1 < 0) := by omega
  have h2 : ¬ ((x.length:Int) < (x.length:Int) - 1) := by omega
  simp only [h1, h2, if_false]
  omega

omit [CommRing R] in
/-- odd heights are extended by one repeated row; even heights are untouched -/
theorem extendEven_length {α : Type} (x : Img α) : (extendEven x).length = x.length + x.length % 2 := by
  have key : ∀ (x1 : Img α), (if x1.width % 2 ≠ 0 then x1.map (fun r => r ++ sliceFrom r (-1)) else x1).length = x1.length := by
    intro x1; split <;> simp
  unfold extendEven
  simp only [key]
  by_cases h : x.length % 2 ≠ 0
  · rw [if_pos h, List.length_append, sliceFrom_neg_one_length x (by omega)]; omega
  · rw [if_neg h]; omega

/-- non-vacuity: `s = 1/√2` exists in ℝ-like rings; over ℤ the hypothesis `2·s·s = 1` is unsatisfiable,
so the instance is checked at the level of the statement's shape on a concrete block image -/
example : (q2c (1:Int) (tab2 2 2 fun i j => ((3*i + j : Nat) : Int))).1.1 = [[0 - 4]] := by decide


/-! ## level 1: perfect reconstruction of the symmetric biorthogonal bank -/

theorem symIdx_period_mul (l x q : Int) : symIdx l (x + 2*l*q) = symIdx l x := by
  unfold symIdx
  have : (x + 2*l*q) % (2*l) = x % (2*l) := by
    rw [Int.add_mul_emod_self_left]
  simp only [this]

/-- `symIdx` picks `u` itself or its mirror image `−1−u`, up to a multiple of `2l` -/
theorem symIdx_cases (l u : Int) (hl : 0 < l) :
    (∃ q : Int, symIdx l u = u + 2*l*q) ∨ (∃ q : Int, symIdx l u = -1 - u + 2*l*q) := by
  unfold symIdx
  have hdm := Int.emod_add_mul_ediv u (2*l)
  simp only
  by_cases hc : u % (2*l) < l
  · left; refine ⟨-(u / (2*l)), ?_⟩
    rw [if_pos hc]
    have : 2*l*(-(u/(2*l))) = -(2*l*(u/(2*l))) := by ring
    rw [this]; omega
  · right; refine ⟨u / (2*l) + 1, ?_⟩
    rw [if_neg hc]
    have : 2*l*(u/(2*l) + 1) = 2*l*(u/(2*l)) + 2*l := by ring
    rw [this]; omega

theorem xt_period (x : List R) (v q : Int) : Spec.xt x (v + 2*(x.length:Int)*q) = Spec.xt x v := by
  unfold Spec.xt; rw [symIdx_period_mul]

theorem xt_reflect (x : List R) (hN : 1 ≤ x.length) (v : Int) : Spec.xt x (-1 - v) = Spec.xt x v := by
  unfold Spec.xt; rw [symIdx_reflect _ _ (by omega)]

theorem xt_inside (x : List R) (i : Nat) (hi : i < x.length) : Spec.xt x (i:Int) = getN x i := by
  unfold Spec.xt; rw [symIdx_id _ _ (by omega) (by omega), ← getN_eq_getZ]

/-- an odd-length filter `h` (`L = 2m+1`) is symmetric -/
def Symm (h : List R) : Prop := ∀ j < h.length, getN h (h.length - 1 - j) = getN h j

theorem colfilter_length (h x : List R) (hodd : h.length % 2 = 1) : (Spec.colfilter h x).length = x.length := by
  simp [Spec.colfilter]; omega

theorem colfilter_get (h x : List R) (hodd : h.length % 2 = 1) (i : Nat) (hi : i < x.length) :
    getN (Spec.colfilter h x) i = ∑ j ∈ range h.length, getN h j * Spec.xt x ((i:Int) + ((h.length/2 : Nat):Int) - (j:Int)) := by
  unfold Spec.colfilter
  rw [getN_tab, if_pos (by omega), sumN_eq]
  apply Finset.sum_congr rfl; intro j hj
  have hj' : j < h.length := by simpa using hj
  congr 2
  omega

/-- **filtering with a symmetric odd-length filter commutes with the symmetric extension**:
the extension of the filtered column is the filtered extension, at every integer position -/
theorem xt_colfilter (h x : List R) (hodd : h.length % 2 = 1) (hs : Symm h) (hN : 1 ≤ x.length) (u : Int) :
    Spec.xt (Spec.colfilter h x) u = ∑ j ∈ range h.length, getN h j * Spec.xt x (u + ((h.length/2 : Nat):Int) - (j:Int)) := by
  have hlen := colfilter_length h x hodd
  have hr := symIdx_range (x.length:Int) u (by omega)
  set s := symIdx (x.length:Int) u with hs'
  have hval : Spec.xt (Spec.colfilter h x) u = getN (Spec.colfilter h x) s.toNat := by
    unfold Spec.xt
    rw [hlen, ← hs', getN_eq_getZ]
    congr 1; omega
  rw [hval, colfilter_get h x hodd s.toNat (by omega)]
  have hsn : ((s.toNat : Nat) : Int) = s := by omega
  rw [hsn]
  rcases symIdx_cases (x.length:Int) u (by omega) with ⟨q, hq⟩ | ⟨q, hq⟩
  · apply Finset.sum_congr rfl; intro j _
    congr 1
    rw [hs'] at *
    rw [hq]
    have : u + 2 * (x.length:Int) * q + ((h.length/2 : Nat):Int) - (j:Int) = (u + ((h.length/2 : Nat):Int) - (j:Int)) + 2 * (x.length:Int) * q := by ring
    rw [this, xt_period]
  · rw [← Finset.sum_range_reflect]
    apply Finset.sum_congr rfl; intro j hj
    have hj' : j < h.length := by simpa using hj
    rw [hs j hj']
    congr 1
    rw [hs'] at *
    rw [hq]
    have e : -1 - u + 2 * (x.length:Int) * q + ((h.length/2 : Nat):Int) - ((h.length - 1 - j : Nat):Int)
        = (-1 - (u + ((h.length/2 : Nat):Int) - (j:Int))) + 2 * (x.length:Int) * q := by
      have : ((h.length - 1 - j : Nat):Int) = (h.length:Int) - 1 - j := by omega
      rw [this]
      have h2 : (h.length:Int) = 2 * ((h.length/2 : Nat):Int) + 1 := by omega
      rw [h2]; ring
    rw [e, xt_period, xt_reflect x hN]

/-- the level-1 perfect-reconstruction condition of a biorthogonal pair of odd-length filters:
`(g0 ∗ h0)(c0 − d) + (g1 ∗ h1)(c1 − d) = δ_d` with the products centred at `c = ⌊Lg/2⌋ + ⌊Lh/2⌋` -/
def PR1 (h0 h1 g0 g1 : List R) : Prop :=
  ∀ d : Int,
    (∑ a ∈ range g0.length, getN g0 a * getZ h0 ((((g0.length/2 + h0.length/2 : Nat)):Int) - d - (a:Int)))
    + (∑ a ∈ range g1.length, getN g1 a * getZ h1 ((((g1.length/2 + h1.length/2 : Nat)):Int) - d - (a:Int)))
      = if d = 0 then 1 else 0

/-- one band: synthesis filter after (symmetric) analysis filter, as a kernel acting on the extension -/
theorem band_kernel (h g x : List R) (hh : h.length % 2 = 1) (hg : g.length % 2 = 1) (hs : Symm h)
    (hN : 1 ≤ x.length) (i : Nat) (hi : i < x.length) (D : Nat) (hD : g.length/2 + h.length/2 ≤ D) :
    getN (Spec.colfilter g (Spec.colfilter h x)) i
      = ∑ u ∈ Finset.Ico ((i:Int) - D) ((i:Int) + D + 1), Spec.xt x u *
          (∑ a ∈ range g.length, getN g a * getZ h ((((g.length/2 + h.length/2 : Nat)):Int) - (u - (i:Int)) - (a:Int))) := by
  rw [colfilter_get g _ hg i (by rw [colfilter_length h x hh]; exact hi)]
  have h1 : ∀ a ∈ range g.length, getN g a * Spec.xt (Spec.colfilter h x) ((i:Int) + ((g.length/2 : Nat):Int) - (a:Int))
      = ∑ u ∈ Finset.Ico ((i:Int) - D) ((i:Int) + D + 1), Spec.xt x u *
          (getN g a * getZ h ((((g.length/2 + h.length/2 : Nat)):Int) - (u - (i:Int)) - (a:Int))) := by
    intro a ha
    have ha' : a < g.length := by simpa using ha
    rw [xt_colfilter h x hh hs hN]
    have := sum_taps_window h (Spec.xt x) ((i:Int) + ((g.length/2 : Nat):Int) - (a:Int) + ((h.length/2 : Nat):Int))
      (Finset.Ico ((i:Int) - D) ((i:Int) + D + 1)) (by
        intro j hj
        rw [Finset.mem_Ico]
        have hg2 : (g.length:Int) = 2 * ((g.length/2 : Nat):Int) + 1 := by omega
        have hh2 : (h.length:Int) = 2 * ((h.length/2 : Nat):Int) + 1 := by omega
        have hDz : ((g.length/2 : Nat):Int) + ((h.length/2 : Nat):Int) ≤ (D:Int) := by exact_mod_cast hD
        omega)
    have e : ∀ j : Nat, (i:Int) + ((g.length/2 : Nat):Int) - (a:Int) + ((h.length/2 : Nat):Int) - (j:Int)
        = (i:Int) + ((g.length/2 : Nat):Int) - (a:Int) + ((h.length/2 : Nat):Int) - (j:Int) := fun _ => rfl
    rw [this, Finset.mul_sum]
    apply Finset.sum_congr rfl; intro u _
    have : (i:Int) + ((g.length/2 : Nat):Int) - (a:Int) + ((h.length/2 : Nat):Int) - u
        = (((g.length/2 + h.length/2 : Nat)):Int) - (u - (i:Int)) - (a:Int) := by push_cast; ring
    rw [this]; ring
  rw [Finset.sum_congr rfl h1, Finset.sum_comm]
  apply Finset.sum_congr rfl; intro u _
  rw [Finset.mul_sum]

/-- **DTCWT level-1 perfect reconstruction along one axis**: for odd-length analysis filters `h0, h1` that are
symmetric, and synthesis filters `g0, g1` with `PR1`, the reference column filters satisfy
`colfilter g0 (colfilter h0 x) + colfilter g1 (colfilter h1 x) = x` for every column `x` of every length —
however short compared with the filters (the extension reflects as often as needed). -/
theorem colfilter_pr (h0 h1 g0 g1 x : List R) (hh0 : h0.length % 2 = 1) (hh1 : h1.length % 2 = 1)
    (hg0 : g0.length % 2 = 1) (hg1 : g1.length % 2 = 1) (hs0 : Symm h0) (hs1 : Symm h1)
    (hpr : PR1 h0 h1 g0 g1) (hN : 1 ≤ x.length) (i : Nat) (hi : i < x.length) :
    getN (Spec.colfilter g0 (Spec.colfilter h0 x)) i + getN (Spec.colfilter g1 (Spec.colfilter h1 x)) i = getN x i := by
  set D := (g0.length/2 + h0.length/2) + (g1.length/2 + h1.length/2) with hD
  rw [band_kernel h0 g0 x hh0 hg0 hs0 hN i hi D (by omega), band_kernel h1 g1 x hh1 hg1 hs1 hN i hi D (by omega),
    ← Finset.sum_add_distrib]
  have hk : ∀ u ∈ Finset.Ico ((i:Int) - D) ((i:Int) + D + 1),
      Spec.xt x u * (∑ a ∈ range g0.length, getN g0 a * getZ h0 ((((g0.length/2 + h0.length/2 : Nat)):Int) - (u - (i:Int)) - (a:Int)))
      + Spec.xt x u * (∑ a ∈ range g1.length, getN g1 a * getZ h1 ((((g1.length/2 + h1.length/2 : Nat)):Int) - (u - (i:Int)) - (a:Int)))
      = Spec.xt x u * (if u - (i:Int) = 0 then 1 else 0) := by
    intro u _
    rw [← mul_add, hpr (u - (i:Int))]
  rw [Finset.sum_congr rfl hk]
  have hm : (i:Int) ∈ Finset.Ico ((i:Int) - D) ((i:Int) + D + 1) := by rw [Finset.mem_Ico]; omega
  rw [Finset.sum_eq_single_of_mem (i:Int) hm]
  · simp [xt_inside x i hi]
  · intro u _ hne
    have : ¬ (u - (i:Int) = 0) := by omega
    rw [if_neg this]; ring


/-! ### images -/
open WV.C19 in
/-- rectangular `H × W` image -/
def Rect (x : Img R) (H W : Nat) : Prop := x.length = H ∧ ∀ r ∈ x, r.length = W

theorem rect_width (x : Img R) (H W : Nat) (hx : Rect x H W) (hH : 1 ≤ H) : x.width = W := by
  obtain ⟨h1, h2⟩ := hx
  unfold Img.width
  cases x with
  | nil => simp at h1; omega
  | cons r rest => simp; exact h2 r (by simp)

theorem rect_eq_tab2 (x : Img R) (H W : Nat) (hx : Rect x H W) : x = tab2 H W (get2 x) := by
  obtain ⟨h1, h2⟩ := hx
  apply List.ext_getElem
  · simp [tab2, h1]
  · intro i hi1 hi2
    have hi : i < H := by omega
    simp only [tab2, tab, List.getElem_map, List.getElem_range]
    have hr : (x[i]).length = W := h2 _ (List.getElem_mem hi1)
    apply List.ext_getElem
    · simp [hr]
    · intro j hj1 hj2
      simp only [List.getElem_map, List.getElem_range]
      unfold get2
      have e1 : x.getD i [] = x[i] := by
        rw [List.getD_eq_getElem?_getD, List.getElem?_eq_getElem hi1]; rfl
      rw [e1, List.getD_eq_getElem?_getD, List.getElem?_eq_getElem hj1]
      rfl

theorem tab2_rect (H W : Nat) (f : Nat → Nat → R) : Rect (tab2 H W f) H W := by
  constructor
  · simp [tab2]
  · intro r hr
    simp [tab2, tab] at hr
    obtain ⟨i, _, rfl⟩ := hr
    simp

/-- column `j` of an image -/
def col (x : Img R) (j : Nat) : List R := tab x.length fun i => get2 x i j

theorem tr_getD (x : Img R) (j : Nat) (hj : j < x.width) : (tr x).getD j [] = col x j := by
  unfold tr tab2
  rw [getD_tab, if_pos hj]
  rfl

/-- a length-preserving column operator applied along the columns, pixel by pixel -/
theorem alongH_get (f : List R → List R) (x : Img R) (H W : Nat) (hx : Rect x H W) (hH : 1 ≤ H) (hW : 1 ≤ W)
    (hf : ∀ c : List R, c.length = H → (f c).length = H) :
    alongH f x = tab2 H W fun i j => getN (f (col x j)) i := by
  have hw := rect_width x H W hx hH
  unfold alongH
  have hY : (tr x).map f = tab W fun j => f (col x j) := by
    unfold tr tab2
    rw [hw]
    unfold tab
    rw [List.map_map]
    apply List.map_congr_left
    intro j _
    simp only [Function.comp]
    rfl
  rw [hY]
  unfold tr
  have hl : (tab W fun j => f (col x j)).length = W := by simp
  have hwid : Img.width (tab W fun j => f (col x j)) = H := by
    unfold Img.width tab
    cases W with
    | zero => omega
    | succ k =>
      simp [List.range_succ_eq_map]
      apply hf; simp [col, hx.1]
  rw [hl, hwid]
  unfold tab2
  apply tab_ext rfl; intro i hi
  apply tab_ext rfl; intro j hj
  show ((tab W fun j => f (col x j)).getD j []).getD i 0 = getN (f (col x j)) i
  rw [getD_tab, if_pos hj]
  rfl

theorem alongW_get (f : List R → List R) (x : Img R) (H W : Nat) (hx : Rect x H W)
    (hf : ∀ c : List R, c.length = W → (f c).length = W) :
    alongW f x = tab2 H W fun i j => getN (f (x.getD i [])) j := by
  obtain ⟨h1, h2⟩ := hx
  unfold alongW
  apply List.ext_getElem
  · simp [tab2, h1]
  · intro i hi1 hi2
    have hi : i < x.length := by simpa using hi1
    simp only [tab2, tab, List.getElem_map, List.getElem_range]
    have hxi : x.getD i [] = x[i] := by
      rw [List.getD_eq_getElem?_getD, List.getElem?_eq_getElem hi]; rfl
    rw [hxi]
    have hr : (f x[i]).length = W := hf _ (h2 _ (List.getElem_mem hi))
    apply List.ext_getElem
    · simp [hr]
    · intro j hj1 hj2
      simp only [List.getElem_map, List.getElem_range]
      unfold getN
      rw [List.getD_eq_getElem?_getD, List.getElem?_eq_getElem hj1]
      rfl


theorem tab_getN (l : List R) (n : Nat) (h : l.length = n) : tab n (getN l) = l := by
  apply List.ext_getElem
  · simp [h]
  · intro i h1 h2
    simp only [tab, List.getElem_map, List.getElem_range]
    unfold getN
    rw [List.getD_eq_getElem?_getD, List.getElem?_eq_getElem h2]; rfl

theorem tab2_congr (H W : Nat) (f g : Nat → Nat → R) (h : ∀ i < H, ∀ j < W, f i j = g i j) : tab2 H W f = tab2 H W g := by
  unfold tab2
  apply tab_ext rfl; intro i hi
  apply tab_ext rfl; intro j hj
  exact h i hi j hj

theorem col_tab2 (H W : Nat) (f : Nat → Nat → R) (j : Nat) (hj : j < W) : col (tab2 H W f) j = tab H fun i => f i j := by
  unfold col
  have : (tab2 H W f).length = H := by simp [tab2]
  rw [this]
  apply tab_ext rfl; intro i hi
  exact C19.get2_tab2 H W f i j hi hj

theorem iadd_tab2 (H W : Nat) (f g : Nat → Nat → R) :
    iadd (tab2 H W f) (tab2 H W g) = tab2 H W fun i j => f i j + g i j := by
  unfold iadd
  have : (tab2 H W f).length = H := by simp [tab2]
  rw [this]
  unfold tab2
  apply tab_ext rfl; intro i hi
  rw [getD_tab, getD_tab, if_pos hi, if_pos hi]
  unfold vadd
  rw [length_tab]
  apply tab_ext rfl; intro j hj
  rw [getN_tab, getN_tab, if_pos hj, if_pos hj]

abbrev Cf (h : List R) : List R → List R := Spec.colfilter h

/-- column PR on images -/
theorem col_pr_img (h0 h1 g0 g1 : List R) (hh0 : h0.length % 2 = 1) (hh1 : h1.length % 2 = 1)
    (hg0 : g0.length % 2 = 1) (hg1 : g1.length % 2 = 1) (hs0 : Symm h0) (hs1 : Symm h1) (hpr : PR1 h0 h1 g0 g1)
    (y : Img R) (H W : Nat) (hy : Rect y H W) (hH : 1 ≤ H) (hW : 1 ≤ W) :
    iadd (alongH (Cf g1) (alongH (Cf h1) y)) (alongH (Cf g0) (alongH (Cf h0) y)) = y := by
  have hlen : ∀ (h : List R), h.length % 2 = 1 → ∀ c : List R, c.length = H → (Cf h c).length = H := by
    intro h hh c hc; rw [colfilter_length h c hh, hc]
  have step : ∀ (h g : List R), h.length % 2 = 1 → g.length % 2 = 1 →
      alongH (Cf g) (alongH (Cf h) y) = tab2 H W fun i j => getN (Cf g (Cf h (col y j))) i := by
    intro h g hh hg
    rw [alongH_get (Cf h) y H W hy hH hW (hlen h hh)]
    rw [alongH_get (Cf g) _ H W (tab2_rect H W _) hH hW (hlen g hg)]
    apply tab2_congr; intro i _ j hj
    rw [col_tab2 H W _ j hj, tab_getN _ H (hlen h hh _ (by simp [col, hy.1]))]
  rw [step h1 g1 hh1 hg1, step h0 g0 hh0 hg0, iadd_tab2]
  conv_rhs => rw [rect_eq_tab2 y H W hy]
  apply tab2_congr; intro i hi j hj
  have hc : (col y j).length = H := by simp [col, hy.1]
  rw [add_comm, colfilter_pr h0 h1 g0 g1 (col y j) hh0 hh1 hg0 hg1 hs0 hs1 hpr (by omega) i (by omega)]
  unfold col
  rw [getN_tab, hy.1, if_pos hi]

/-- row PR on images -/
theorem row_pr_img (h0 h1 g0 g1 : List R) (hh0 : h0.length % 2 = 1) (hh1 : h1.length % 2 = 1)
    (hg0 : g0.length % 2 = 1) (hg1 : g1.length % 2 = 1) (hs0 : Symm h0) (hs1 : Symm h1) (hpr : PR1 h0 h1 g0 g1)
    (y : Img R) (H W : Nat) (hy : Rect y H W) (hW : 1 ≤ W) :
    iadd (alongW (Cf g1) (alongW (Cf h1) y)) (alongW (Cf g0) (alongW (Cf h0) y)) = y := by
  have hlen : ∀ (h : List R), h.length % 2 = 1 → ∀ c : List R, c.length = W → (Cf h c).length = W := by
    intro h hh c hc; rw [colfilter_length h c hh, hc]
  have hrow : ∀ i < H, (y.getD i []).length = W := by
    intro i hi
    apply hy.2
    rw [List.getD_eq_getElem?_getD, List.getElem?_eq_getElem (by rw [hy.1]; exact hi)]; simp
  have step : ∀ (h g : List R), h.length % 2 = 1 → g.length % 2 = 1 →
      alongW (Cf g) (alongW (Cf h) y) = tab2 H W fun i j => getN (Cf g (Cf h (y.getD i []))) j := by
    intro h g hh hg
    rw [alongW_get (Cf h) y H W hy (hlen h hh)]
    rw [alongW_get (Cf g) _ H W (tab2_rect H W _) (hlen g hg)]
    apply tab2_congr; intro i hi j _
    have : (tab2 H W fun i j => getN (Cf h (y.getD i [])) j).getD i [] = Cf h (y.getD i []) := by
      unfold tab2
      rw [getD_tab, if_pos hi, tab_getN _ W (hlen h hh _ (hrow i hi))]
    rw [this]
  rw [step h1 g1 hh1 hg1, step h0 g0 hh0 hg0, iadd_tab2]
  conv_rhs => rw [rect_eq_tab2 y H W hy]
  apply tab2_congr; intro i hi j hj
  rw [add_comm, colfilter_pr h0 h1 g0 g1 (y.getD i []) hh0 hh1 hg0 hg1 hs0 hs1 hpr (by rw [hrow i hi]; exact hW) j (by rw [hrow i hi]; exact hj)]
  rfl


theorem alongH_congr (f g : List R → List R) (x : Img R) (h : ∀ c, c.length = x.length → f c = g c) :
    alongH f x = alongH g x := by
  unfold alongH
  congr 1
  apply List.map_congr_left
  intro c hc
  exact h c (tr_row_length x c hc)

theorem colfilter_model (h : List R) (hL : 1 ≤ h.length) (y : Img R) (hy : 1 ≤ y.length) :
    colfilter true (prepFilt h) y = alongH (Cf h) y := by
  unfold colfilter
  apply alongH_congr
  intro c hc
  exact C03.colfilter1_eq_ref h c hL (by omega)

theorem rowfilter_model (h : List R) (hL : 1 ≤ h.length) (y : Img R) (W : Nat) (hW : 1 ≤ W) (hy : ∀ r ∈ y, r.length = W) :
    rowfilter true (prepFilt h) y = alongW (Cf h) y := by
  unfold rowfilter alongW
  apply List.map_congr_left
  intro r hr
  exact C03.colfilter1_eq_ref h r hL (by rw [hy r hr]; exact hW)

theorem alongH_rect (h : List R) (hh : h.length % 2 = 1) (y : Img R) (H W : Nat) (hy : Rect y H W) (hH : 1 ≤ H) (hW : 1 ≤ W) :
    Rect (alongH (Cf h) y) H W := by
  rw [alongH_get (Cf h) y H W hy hH hW (fun c hc => by rw [colfilter_length h c hh, hc])]
  exact tab2_rect H W _

theorem alongW_rect (h : List R) (hh : h.length % 2 = 1) (y : Img R) (H W : Nat) (hy : Rect y H W) :
    Rect (alongW (Cf h) y) H W := by
  rw [alongW_get (Cf h) y H W hy (fun c hc => by rw [colfilter_length h c hh, hc])]
  exact tab2_rect H W _

/-- quads ↔ complex pairs round trip on the three band images -/
theorem highs_round_trip (s : R) (hs : 2 * s * s = 1) (lh hl hh : Img R) (H W : Nat) (hH : 1 ≤ H)
    (r1 : Rect lh (2*H) (2*W)) (r2 : Rect hl (2*H) (2*W)) (r3 : Rect hh (2*H) (2*W)) :
    orientationsToHighs s (highsToOrientations s lh hl hh) = (lh, hl, hh) := by
  unfold orientationsToHighs highsToOrientations
  simp only [List.getD_cons_zero, List.getD_cons_succ]
  have k : ∀ y : Img R, Rect y (2*H) (2*W) → c2q s (q2c s y).1 (q2c s y).2 = y := by
    intro y hy
    have := c2q_q2c s hs H W (by omega) (get2 y)
    rw [← rect_eq_tab2 y (2*H) (2*W) hy] at this
    exact this
  rw [k lh r1, k hl r2, k hh r3]


theorem cropToHighs_id (ll : Img R) (H W : Nat) (hl : ll.length = 2 * H) (hw : ll.width = 2 * W) :
    cropToHighs ll H W = ll := by
  unfold cropToHighs
  have c1 : ¬ (ll.length ≠ 2 * H) := by simp [hl]
  simp only [c1, if_false]
  have c2 : ¬ (ll.width ≠ 2 * W) := by simp [hw]
  simp only [c2, if_false]

/-- **DTCWT level-1 perfect reconstruction at the level of the implementation model**: for every even-sized
image, every pair of symmetric odd-length analysis filters and synthesis filters with `PR1`, and `2s² = 1`,
`inv_j1(fwd_j1(x)) = x` — `fwd_j1` and `inv_j1` as modelled from `transform_funcs.py` (row and column
filtering with `prep_filt` buffers on the symmetric extension, `q2c` / `c2q` packing, crop rule). -/
theorem level1_pr (s : R) (hs : 2 * s * s = 1) (h0 h1 g0 g1 : List R) (hh0 : h0.length % 2 = 1)
    (hh1 : h1.length % 2 = 1) (hg0 : g0.length % 2 = 1) (hg1 : g1.length % 2 = 1) (hs0 : Symm h0) (hs1 : Symm h1)
    (hpr : PR1 h0 h1 g0 g1) (x : Img R) (H W : Nat) (hH : 1 ≤ H) (hW : 1 ≤ W) (hx : Rect x (2*H) (2*W)) :
    invJ1 s true (prepFilt g0) (prepFilt g1) (H, W)
        (some (fwdJ1 s true (prepFilt h0) (prepFilt h1) false x).1) (fwdJ1 s true (prepFilt h0) (prepFilt h1) false x).2
      = some x := by
  have L0 : 1 ≤ h0.length := by omega
  have L1 : 1 ≤ h1.length := by omega
  have G0 : 1 ≤ g0.length := by omega
  have G1 : 1 ≤ g1.length := by omega
  have h2H : 1 ≤ 2 * H := by omega
  have h2W : 1 ≤ 2 * W := by omega
  -- forward pass in terms of the reference column filter
  have eLo : rowfilter true (prepFilt h0) x = alongW (Cf h0) x := rowfilter_model h0 L0 x (2*W) h2W hx.2
  have eHi : rowfilter true (prepFilt h1) x = alongW (Cf h1) x := rowfilter_model h1 L1 x (2*W) h2W hx.2
  have rLo := alongW_rect h0 hh0 x _ _ hx
  have rHi := alongW_rect h1 hh1 x _ _ hx
  set lo := alongW (Cf h0) x with hlo
  set hi := alongW (Cf h1) x with hhi
  have ell : colfilter true (prepFilt h0) lo = alongH (Cf h0) lo := colfilter_model h0 L0 lo (by rw [rLo.1]; exact h2H)
  have elh : colfilter true (prepFilt h1) lo = alongH (Cf h1) lo := colfilter_model h1 L1 lo (by rw [rLo.1]; exact h2H)
  have ehl : colfilter true (prepFilt h0) hi = alongH (Cf h0) hi := colfilter_model h0 L0 hi (by rw [rHi.1]; exact h2H)
  have ehh : colfilter true (prepFilt h1) hi = alongH (Cf h1) hi := colfilter_model h1 L1 hi (by rw [rHi.1]; exact h2H)
  have rll := alongH_rect h0 hh0 lo _ _ rLo h2H h2W
  have rlh := alongH_rect h1 hh1 lo _ _ rLo h2H h2W
  have rhl := alongH_rect h0 hh0 hi _ _ rHi h2H h2W
  have rhh := alongH_rect h1 hh1 hi _ _ rHi h2H h2W
  have hf : fwdJ1 s true (prepFilt h0) (prepFilt h1) false x
      = (alongH (Cf h0) lo, some (highsToOrientations s (alongH (Cf h1) lo) (alongH (Cf h0) hi) (alongH (Cf h1) hi))) := by
    unfold fwdJ1
    simp only [Bool.false_eq_true, if_false, eLo, eHi, ← hlo, ← hhi, ell, elh, ehl, ehh]
  rw [hf]
  simp only [invJ1]
  rw [highs_round_trip s hs _ _ _ H W hH rlh rhl rhh]
  simp only []
  rw [cropToHighs_id _ H W rll.1 (rect_width _ _ _ rll h2H)]
  -- synthesis in terms of the reference column filter
  have c1 : colfilter true (prepFilt g1) (alongH (Cf h1) hi) = alongH (Cf g1) (alongH (Cf h1) hi) :=
    colfilter_model g1 G1 _ (by rw [rhh.1]; exact h2H)
  have c2 : colfilter true (prepFilt g0) (alongH (Cf h0) hi) = alongH (Cf g0) (alongH (Cf h0) hi) :=
    colfilter_model g0 G0 _ (by rw [rhl.1]; exact h2H)
  have c3 : colfilter true (prepFilt g1) (alongH (Cf h1) lo) = alongH (Cf g1) (alongH (Cf h1) lo) :=
    colfilter_model g1 G1 _ (by rw [rlh.1]; exact h2H)
  have c4 : colfilter true (prepFilt g0) (alongH (Cf h0) lo) = alongH (Cf g0) (alongH (Cf h0) lo) :=
    colfilter_model g0 G0 _ (by rw [rll.1]; exact h2H)
  rw [c1, c2, c3, c4]
  rw [col_pr_img h0 h1 g0 g1 hh0 hh1 hg0 hg1 hs0 hs1 hpr hi _ _ rHi h2H h2W]
  have ra := alongH_rect g1 hg1 _ _ _ rlh h2H h2W
  have rb := alongH_rect g0 hg0 _ _ _ rll h2H h2W
  have hshape : ¬ ((alongH (Cf g1) (alongH (Cf h1) lo)).length ≠ (alongH (Cf g0) (alongH (Cf h0) lo)).length ∨
      (alongH (Cf g1) (alongH (Cf h1) lo)).width ≠ (alongH (Cf g0) (alongH (Cf h0) lo)).width) := by
    rw [ra.1, rb.1, rect_width _ _ _ ra h2H, rect_width _ _ _ rb h2H]; simp
  rw [if_neg hshape]
  rw [col_pr_img h0 h1 g0 g1 hh0 hh1 hg0 hg1 hs0 hs1 hpr lo _ _ rLo h2H h2W]
  rw [rowfilter_model g1 G1 hi (2*W) h2W rHi.2, rowfilter_model g0 G0 lo (2*W) h2W rLo.2]
  rw [hhi, hlo, row_pr_img h0 h1 g0 g1 hh0 hh1 hg0 hg1 hs0 hs1 hpr x _ _ hx h2W]


/-- `PR1` only has to be checked for `|d| ≤ D`: outside, every product vanishes -/
theorem pr1_of_bounded (h0 h1 g0 g1 : List R) (hh0 : h0.length % 2 = 1) (hh1 : h1.length % 2 = 1)
    (hg0 : g0.length % 2 = 1) (hg1 : g1.length % 2 = 1) (D : Nat)
    (hD0 : g0.length/2 + h0.length/2 ≤ D) (hD1 : g1.length/2 + h1.length/2 ≤ D)
    (hb : ∀ d : Int, -(D:Int) ≤ d → d ≤ D →
      (∑ a ∈ range g0.length, getN g0 a * getZ h0 ((((g0.length/2 + h0.length/2 : Nat)):Int) - d - (a:Int)))
      + (∑ a ∈ range g1.length, getN g1 a * getZ h1 ((((g1.length/2 + h1.length/2 : Nat)):Int) - d - (a:Int)))
        = if d = 0 then 1 else 0) :
    PR1 h0 h1 g0 g1 := by
  intro d
  by_cases hin : -(D:Int) ≤ d ∧ d ≤ D
  · exact hb d hin.1 hin.2
  · have hd0 : ¬ d = 0 := by omega
    rw [if_neg hd0]
    have z : ∀ (g h : List R), g.length % 2 = 1 → h.length % 2 = 1 → g.length/2 + h.length/2 ≤ D →
        ∑ a ∈ range g.length, getN g a * getZ h ((((g.length/2 + h.length/2 : Nat)):Int) - d - (a:Int)) = 0 := by
      intro g h hg hh hD
      apply Finset.sum_eq_zero
      intro a ha
      have ha' : a < g.length := by simpa using ha
      have : getZ h ((((g.length/2 + h.length/2 : Nat)):Int) - d - (a:Int)) = 0 := by
        by_cases hneg : (((g.length/2 + h.length/2 : Nat)):Int) - d - (a:Int) < 0
        · exact getZ_neg _ _ hneg
        · apply getZ_of_ge
          push_cast at hneg ⊢
          omega
      rw [this, mul_zero]
    rw [z g0 h0 hg0 hh0 hD0, z g1 h1 hg1 hh1 hD1, add_zero]

/-- the shipped `legall` table (LeGall 5/3, exactly dyadic) satisfies `PR1` over ℚ, and its analysis filters are
symmetric: the hypotheses of `level1_pr` are satisfiable by a table the library ships -/
example : PR1 (R := ℚ) [-1/8, 1/4, 3/4, 1/4, -1/8] [-1/4, 1/2, -1/4] [1/4, 1/2, 1/4] [-1/8, -1/4, 3/4, -1/4, -1/8] := by
  apply pr1_of_bounded _ _ _ _ (by decide) (by decide) (by decide) (by decide) 3 (by decide) (by decide)
  intro d h1 h2
  interval_cases d <;> simp [Finset.sum_range_succ, getN, getZ] <;> norm_num

example : Symm (R := ℚ) [-1/8, 1/4, 3/4, 1/4, -1/8] ∧ Symm (R := ℚ) [-1/4, 1/2, -1/4] := by
  constructor <;> intro j hj <;> simp at hj <;> interval_cases j <;> simp [getN]


end WV.C04
