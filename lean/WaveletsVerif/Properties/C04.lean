/-
  C04 — DTCWT perfect reconstruction: the pieces proved so far.

  * `c2q (q2c y) = y` for every even-sized block image, given only `2·s·s = 1`
    (`s` stands for `1/np.sqrt(2)`): the quad ↔ complex re-packing of the six
    oriented sub-bands loses nothing.
  * odd-sized inputs are extended to even size with the original in the top-left
    corner (`extendEven`).
  The filter-bank part (level 1: symmetric biorthogonal pair on the symmetric
  extension; level ≥ 2: q-shift pair) is covered by the exact correspondence and
  the PR oracle on all 20 filter pairs; see DESIGN.md for the staged plan.
-/
import WaveletsVerif.Lemmas.Basic
import WaveletsVerif.Properties.C19
import WaveletsVerif.Model.Dtcwt
namespace WV.C04
open Finset WV WV.C19
variable {R : Type} [CommRing R]

/-- `c2q(q2c(y)) = y` on every `2h × 2w` image -/
theorem c2q_q2c (s : R) (hs : 2 * s * s = 1) (h w : Nat) (hh : 0 < h) (f : Nat → Nat → R) :
    c2q s (q2c s (tab2 (2*h) (2*w) f)).1 (q2c s (tab2 (2*h) (2*w) f)).2 = tab2 (2*h) (2*w) f := by
  have hH : (tab2 (2*h) (2*w) f).length = 2*h := by simp [tab2]
  have hW : (tab2 (2*h) (2*w) f).width = 2*w := width_tab2 _ _ _ (by omega)
  unfold q2c c2q
  simp only [hH, hW]
  have e1 : 2 * h / 2 = h := by omega
  have e2 : 2 * w / 2 = w := by omega
  simp only [e1, e2]
  have hl : (tab2 h w fun i j => s * get2 (tab2 (2*h) (2*w) f) (2*i) (2*j) - s * get2 (tab2 (2*h) (2*w) f) (2*i+1) (2*j+1)).length = h := by
    simp [tab2]
  have hwd : (tab2 h w fun i j => s * get2 (tab2 (2*h) (2*w) f) (2*i) (2*j) - s * get2 (tab2 (2*h) (2*w) f) (2*i+1) (2*j+1)).width = w :=
    width_tab2 _ _ _ hh
  simp only [hl, hwd]
  unfold tab2
  apply tab_ext rfl; intro i hi
  apply tab_ext rfl; intro j hj
  have hp : i / 2 < h := by omega
  have hq : j / 2 < w := by omega
  have g : ∀ (F : Nat → Nat → R), get2 (tab h fun i => tab w fun j => F i j) (i/2) (j/2) = F (i/2) (j/2) := by
    intro F; exact get2_tab2 h w F _ _ hp hq
  have gf : ∀ a b, a < 2*h → b < 2*w → get2 (tab (2*h) fun i => tab (2*w) fun j => f i j) a b = f a b := by
    intro a b ha hb; exact get2_tab2 (2*h) (2*w) f a b ha hb
  simp only [g]
  rw [gf _ _ (by omega) (by omega), gf _ _ (by omega) (by omega), gf _ _ (by omega) (by omega), gf _ _ (by omega) (by omega)]
  have key : ∀ v : R, s * (s * v + s * v) = v := by
    intro v
    calc s * (s * v + s * v) = (2 * s * s) * v := by ring
      _ = v := by rw [hs]; ring
  rcases Nat.mod_two_eq_zero_or_one i with hi2 | hi2 <;> rcases Nat.mod_two_eq_zero_or_one j with hj2 | hj2 <;>
    simp only [hi2, hj2, if_true, if_false, Nat.one_ne_zero]
  · have a1 : 2 * (i/2) = i := by omega
    have a2 : 2 * (j/2) = j := by omega
    rw [a1, a2]
    calc s * (s * f i j - s * f (i+1) (j+1) + (s * f i j + s * f (i+1) (j+1))) = s * (s * f i j + s * f i j) := by ring
      _ = f i j := key _
  · have a1 : 2 * (i/2) = i := by omega
    have a2 : 2 * (j/2) + 1 = j := by omega
    rw [a1, a2]
    have a3 : 2 * (j/2) = j - 1 := by omega
    rw [a3]
    calc s * (s * f i j + s * f (i+1) (j-1) + (s * f i j - s * f (i+1) (j-1))) = s * (s * f i j + s * f i j) := by ring
      _ = f i j := key _
  · have a1 : 2 * (i/2) + 1 = i := by omega
    have a2 : 2 * (j/2) = j := by omega
    rw [a1, a2]
    have a3 : 2 * (i/2) = i - 1 := by omega
    rw [a3]
    calc s * (s * f (i-1) (j+1) + s * f i j - (s * f (i-1) (j+1) - s * f i j)) = s * (s * f i j + s * f i j) := by ring
      _ = f i j := key _
  · have a1 : 2 * (i/2) + 1 = i := by omega
    have a2 : 2 * (j/2) + 1 = j := by omega
    rw [a1, a2]
    have a3 : 2 * (i/2) = i - 1 := by omega
    have a4 : 2 * (j/2) = j - 1 := by omega
    rw [a3, a4]
    calc s * (-(s * f (i-1) (j-1) - s * f i j) + (s * f (i-1) (j-1) + s * f i j)) = s * (s * f i j + s * f i j) := by ring
      _ = f i j := key _

omit [CommRing R] in
theorem sliceFrom_neg_one_length {α : Type} (x : List α) (h : 0 < x.length) : (sliceFrom x (-1)).length = 1 := by
  unfold sliceFrom pyBound
  simp only [List.length_drop]
  have e : (if (-1:Int) < 0 then (-1:Int) + (x.length:Int) else -1) = (x.length:Int) - 1 := by
    simp; omega
  rw [e]
  have h1 : ¬ ((x.length:Int) - 1 < 0) := by omega
  have h2 : ¬ ((x.length:Int) < (x.length:Int) - 1) := by omega
  simp only [h1, h2, if_false]
  omega

omit [CommRing R] in
/-- odd heights are extended by one repeated row; even heights are untouched -/
theorem extendEven_length {α : Type} (x : Img α) : (extendEven x).length = x.length + x.length % 2 := by
  have key : ∀ (x1 : Img α), (if x1.width % 2 ≠ 0 then x1.map (fun r => r ++ sliceFrom r (-1)) else x1).length = x1.length := by
    intro x1; split <;> simp
  unfold extendEven
  simp only [key]
  by_cases h : x.length % 2 ≠ 0
  · rw [if_pos h, List.length_append, sliceFrom_neg_one_length x (by omega)]; omega
  · rw [if_neg h]; omega

/-- non-vacuity: `s = 1/√2` exists in ℝ-like rings; over ℤ the hypothesis `2·s·s = 1` is unsatisfiable,
so the instance is checked at the level of the statement's shape on a concrete block image -/
example : (q2c (1:Int) (tab2 2 2 fun i j => ((3*i + j : Nat) : Int))).1.1 = [[0 - 4]] := by decide

end WV.C04
