/-
  C05 — two dimensions, mode zero, synthesis side: `SFB2D.backward` is the adjoint of `SFB2D.forward`.

  `SFB2D.forward` synthesises the columns of the two band pairs and then the rows; `SFB2D.backward` runs the analysis bank
  with the SAME synthesis filters along the rows and then along the columns of the cotangent image.  With the
  one-dimensional identity (C05.sfb_zero_adjoint) in function form and the lifting lemmas of C05D this gives, for every
  band size `Kh × Kw`, every filter lengths that fit (`L ≤ 2K + 1` per axis) and every cotangent image of the output size,
  `⟨SFB2D(ll, lh, hl, hh), dy⟩ = ⟨ll, dll⟩ + ⟨lh, dlh⟩ + ⟨hl, dhl⟩ + ⟨hh, dhh⟩`.
-/
import WaveletsVerif.Properties.C05D
namespace WV.C05S
open Finset WV WV.C04 WV.C04Q WV.C06 WV.C05D
variable {R : Type} [CommRing R]

/-- output length of the synthesis of `K` coefficients with a filter of length `L` in the padded modes -/
abbrev Nf (K L : Nat) : Nat := 2 * (K - 1) + L - 2 * (L - 2)

theorem adjS1 (g0 g1 : List R) (hL : 2 ≤ g0.length) (hg : g1.length = g0.length) (K : Nat) (hK : 1 ≤ K) (hfit : g0.length ≤ 2 * K + 1)
    (c a b : List R) (hc : c.length = Nf K g0.length) (ha : a.length = K) (hb : b.length = K) :
    (∑ k ∈ range K, getN (Az g0 c) k * getN a k) + (∑ k ∈ range K, getN (Az g1 c) k * getN b k)
      = ∑ i ∈ range (Nf K g0.length), getN c i * getN (Sz g0 g1 a b) i := by
  have hcl : c.length = 2 * a.length + 2 - g0.length := by rw [hc, ha]; unfold Nf; omega
  obtain ⟨y, dlow, dhigh, e1, e2, e3, e4⟩ := C05.sfb_zero_adjoint g0 g1 a b c hL hg (by omega) (by rw [hb, ha]) (by rw [ha]; exact hfit) hcl
  have hN : 1 ≤ c.length := by rw [hcl, ha]; omega
  rw [sfb_zero_val g0 g1 a b hL hg (by omega) (by rw [hb, ha]) (by rw [ha]; exact hfit)] at e1
  rw [C05.afb1dOne_zero_val g0 c hL hN] at e2
  rw [C05.afb1dOne_zero_val g1 c (by omega) hN] at e3
  injection e1 with e1; injection e2 with e2; injection e3 with e3
  subst e1; subst e2; subst e3
  rw [ha, hb, hc] at e4
  rw [show (∑ i ∈ range (Nf K g0.length), getN c i * getN (Sz g0 g1 a b) i) = ∑ i ∈ range (Nf K g0.length), getN (Sz g0 g1 a b) i * getN c i from
    Finset.sum_congr rfl (fun i _ => by ring), e4]
  congr 1 <;> (apply Finset.sum_congr rfl; intro k _; ring)

section adjoint2d
variable (gr0 gr1 gc0 gc1 : List R) (hLr : 2 ≤ gr0.length) (hgr : gr1.length = gr0.length)
    (hLc : 2 ≤ gc0.length) (hgc : gc1.length = gc0.length) (Kh Kw : Nat) (hKh : 1 ≤ Kh) (hKw : 1 ≤ Kw)
    (hfc : gc0.length ≤ 2 * Kh + 1) (hfr : gr0.length ≤ 2 * Kw + 1)

/-- the synthesis of the four bands -/
def synth2 (ll lh hl hh : Img R) : Img R :=
  rowzip (Sz gr0 gr1) (Nf Kh gc0.length) (Nf Kw gr0.length)
    (colzip (Sz gc0 gc1) (Nf Kh gc0.length) Kw ll lh) (colzip (Sz gc0 gc1) (Nf Kh gc0.length) Kw hl hh)

include hLr hgr hLc hgc hKh hKw hfc hfr in
theorem SFB2D_forward_val (ll lh hl hh : Img R) (r1 : Rect ll Kh Kw) (r2 : Rect lh Kh Kw) (r3 : Rect hl Kh Kw) (r4 : Rect hh Kh Kw) :
    SFB2D_forward .zero gr0 gr1 gc0 gc1 [ll] [[lh, hl, hh]] = some [synth2 gr0 gr1 gc0 gc1 Kh Kw ll lh hl hh] := by
  unfold SFB2D_forward
  simp only [List.map_cons, List.map_nil, List.getD_cons_zero, List.getD_cons_succ]
  rw [C10.sfb1dT_single, C10.sfb1dT_single, sfb1dImg_H_val gc0 gc1 hLc hgc ll lh _ _ r1 r2 hKh hKw hfc,
    sfb1dImg_H_val gc0 gc1 hLc hgc hl hh _ _ r3 r4 hKh hKw hfc]
  simp only [Option.map_some, Option.bind_eq_bind, Option.bind_some]
  rw [C10.sfb1dT_single, sfb1dImg_W_val gr0 gr1 hLr hgr _ _ _ _ (colzip_rect _ _ _ _ _) (colzip_rect _ _ _ _ _) hKw hfr]
  rfl

theorem SFB2D_backward_eq (m : Mode) (dy : List (Img R)) :
    SFB2D_backward m gr0 gr1 gc0 gc1 dy = AFB2D_forward m gr0 gr1 gc0 gc1 dy := rfl

include hLr hgr hLc hgc hKh hKw hfc hfr in
/-- **`SFB2D.backward` is the adjoint of `SFB2D.forward` in mode zero**, one channel -/
theorem SFB2D_zero_adjoint (ll lh hl hh dy : Img R) (r1 : Rect ll Kh Kw) (r2 : Rect lh Kh Kw) (r3 : Rect hl Kh Kw) (r4 : Rect hh Kh Kw)
    (rdy : Rect dy (Nf Kh gc0.length) (Nf Kw gr0.length)) :
    ∃ y dll dlh dhl dhh, SFB2D_forward .zero gr0 gr1 gc0 gc1 [ll] [[lh, hl, hh]] = some [y] ∧
      SFB2D_backward .zero gr0 gr1 gc0 gc1 [dy] = some ([dll], [[dlh, dhl, dhh]]) ∧
      dot2 (Nf Kh gc0.length) (Nf Kw gr0.length) dy y
        = dot2 Kh Kw dll ll + dot2 Kh Kw dlh lh + dot2 Kh Kw dhl hl + dot2 Kh Kw dhh hh := by
  have hH : 1 ≤ Nf Kh gc0.length := by unfold Nf; omega
  have hW : 1 ≤ Nf Kw gr0.length := by unfold Nf; omega
  have eKw : dwtCoeffLen (Nf Kw gr0.length) gr0.length = Kw := by unfold dwtCoeffLen Nf; omega
  have eKh : dwtCoeffLen (Nf Kh gc0.length) gc0.length = Kh := by unfold dwtCoeffLen Nf; omega
  have hb : SFB2D_backward .zero gr0 gr1 gc0 gc1 [dy]
      = some ([alongH (Az gc0) (alongW (Az gr0) dy)],
              [[alongH (Az gc1) (alongW (Az gr0) dy), alongH (Az gc0) (alongW (Az gr1) dy), alongH (Az gc1) (alongW (Az gr1) dy)]]) := by
    rw [SFB2D_backward_eq]
    exact AFB2D_forward_val gr0 gr1 gc0 gc1 hLr hgr hLc hgc dy _ _ rdy hH hW
  refine ⟨_, _, _, _, _, SFB2D_forward_val gr0 gr1 gc0 gc1 hLr hgr hLc hgc Kh Kw hKh hKw hfc hfr ll lh hl hh r1 r2 r3 r4, hb, ?_⟩
  · have rlo : Rect (alongW (Az gr0) dy) (Nf Kh gc0.length) Kw := by
      have := Az_alongW_rect gr0 hLr dy _ _ rdy hW; rw [eKw] at this; exact this
    have rhi : Rect (alongW (Az gr1) dy) (Nf Kh gc0.length) Kw := by
      have := Az_alongW_rect gr1 (by omega) dy _ _ rdy hW; rw [hgr, eKw] at this; exact this
    have hc1d : ∀ c a b : List R, c.length = Nf Kh gc0.length → a.length = Kh → b.length = Kh →
        (∑ k ∈ range Kh, getN (Az gc0 c) k * getN a k) + (∑ k ∈ range Kh, getN (Az gc1 c) k * getN b k)
          = ∑ i ∈ range (Nf Kh gc0.length), getN c i * getN (Sz gc0 gc1 a b) i :=
      fun c a b hc ha hb => adjS1 gc0 gc1 hLc hgc Kh hKh hfc c a b hc ha hb
    have lc0 : ∀ c : List R, c.length = Nf Kh gc0.length → (Az gc0 c).length = Kh := fun c hc => by
      rw [Az_length gc0 c hLc (by omega), hc, eKh]
    have lc1 : ∀ c : List R, c.length = Nf Kh gc0.length → (Az gc1 c).length = Kh := fun c hc => by
      rw [Az_length gc1 c (by omega) (by omega), hc, hgc, eKh]
    have p1 := pairH (Az gc0) (Az gc1) (Sz gc0 gc1) (Nf Kh gc0.length) Kh Kw hc1d lc0 lc1 _ ll lh rlo r1 r2 hH hKw
    have p2 := pairH (Az gc0) (Az gc1) (Sz gc0 gc1) (Nf Kh gc0.length) Kh Kw hc1d lc0 lc1 _ hl hh rhi r3 r4 hH hKw
    have hr1d : ∀ c a b : List R, c.length = Nf Kw gr0.length → a.length = Kw → b.length = Kw →
        (∑ k ∈ range Kw, getN (Az gr0 c) k * getN a k) + (∑ k ∈ range Kw, getN (Az gr1 c) k * getN b k)
          = ∑ i ∈ range (Nf Kw gr0.length), getN c i * getN (Sz gr0 gr1 a b) i :=
      fun c a b hc ha hb => adjS1 gr0 gr1 hLr hgr Kw hKw hfr c a b hc ha hb
    have lr0 : ∀ c : List R, c.length = Nf Kw gr0.length → (Az gr0 c).length = Kw := fun c hc => by
      rw [Az_length gr0 c hLr (by omega), hc, eKw]
    have lr1 : ∀ c : List R, c.length = Nf Kw gr0.length → (Az gr1 c).length = Kw := fun c hc => by
      rw [Az_length gr1 c (by omega) (by omega), hc, hgr, eKw]
    have p3 := pairW (Az gr0) (Az gr1) (Sz gr0 gr1) (Nf Kh gc0.length) Kw (Nf Kw gr0.length) hr1d lr0 lr1 dy
      (colzip (Sz gc0 gc1) (Nf Kh gc0.length) Kw ll lh) (colzip (Sz gc0 gc1) (Nf Kh gc0.length) Kw hl hh) rdy
      (colzip_rect _ _ _ _ _) (colzip_rect _ _ _ _ _)
    unfold synth2
    rw [← p3, ← p1, ← p2]; ring

end adjoint2d

/-- the hypotheses are satisfiable: 4-tap integer filters, 2 × 3 bands, 4 × 6 cotangent image -/
example : (2 ≤ ([1, 2, 3, 4] : List Int).length) ∧ ([1, 2, 3, 4] : List Int).length ≤ 2 * 2 + 1 ∧ Nf 2 4 = 2 ∧ Nf 3 4 = 4 := by decide

end WV.C05S
