/-
  C06 — back-propagation through the whole J-level forward DTCWT is the exact adjoint, on dyadic image sizes.

  `DTCWTForward` applies `FWD_J1` to the image and then `FWD_J2PLUS` level after level to the low-pass; autograd therefore runs
  `FWD_J2PLUS.backward` from the coarsest level to the finest and `FWD_J1.backward` last, each with the gradient of the low-pass
  that the coarser levels produced (`DTCWTForwardBackward`: the chain rule over the module's level loop with the library's
  hand-written backward at every level).  On images whose sides are multiples of `2^J` no level pads its input (the edge
  extensions of odd / non-multiple-of-4 sizes are `torch.cat`s differentiated by PyTorch itself), one level is the adjoint of one
  level (`C06.fwdJ1_backward_adjoint_rect`, `C06Q.fwdJ2_backward_adjoint_rect`), and by induction over the levels
  `⟨DTCWTForward x, P⟩ = ⟨x, backward(P)⟩` for every J and every cotangent pyramid `P` (all levels kept, no intermediate scales).
-/
import WaveletsVerif.Properties.C06Q
import WaveletsVerif.Properties.C04P
namespace WV.C06J
open Finset WV WV.C04 WV.C06 WV.C06Q WV.C04P
variable {R : Type} [CommRing R]

/-- the chain rule over levels `2 … J` of `DTCWTForward`: `FWD_J2PLUS.backward` from the coarsest level to the finest;
`dhs` are the band cotangents of those levels, finest first, `gl` the cotangent of the final low-pass -/
def loopBackward (s : R) (f : FwdFilters R) : List (List (Cplx R)) → Img R → Option (Img R)
  | [], gl => some gl
  | dh :: rest, gl => do
    let g ← loopBackward s f rest gl
    FWD_J2PLUS_backward s f.h0a f.h1a f.h0b f.h1b g (some dh)

/-- … and `FWD_J1.backward` last; `rc1` is the band size the Function reads at level 1 -/
def DTCWTForwardBackward (s : R) (f : FwdFilters R) (rc1 : Nat × Nat) (dhs : List (List (Cplx R))) (gl : Img R) : Option (Img R) :=
  match dhs with
  | [] => none
  | dh1 :: rest => do
    let g ← loopBackward s f rest gl
    FWD_J1_backward s true f.h0o f.h1o rc1 g (some dh1)

/-- `n` further levels fit without padding: the low-pass handed to each of them has sides that are multiples of 4 -/
def Dy : Nat → Nat → Nat → Prop
  | 0, _, _ => True
  | n+1, a, b => a % 2 = 0 ∧ b % 2 = 0 ∧ 1 ≤ a / 2 ∧ 1 ≤ b / 2 ∧ Dy n (a / 2) (b / 2)

/-- six complex band cotangents of size `a × b` given as tables -/
def cot (A B : Nat → Nat → Nat → R) (a b : Nat) : List (Cplx R) := (List.range 6).map fun k => (tab2 a b (A k), tab2 a b (B k))

/-- inner product of six complex bands with six complex cotangents -/
def bdot (a b : Nat) (hs dh : List (Cplx R)) : R :=
  ∑ k ∈ range 6, (dot2 a b (hs.getD k ([], [])).1 (dh.getD k ([], [])).1 + dot2 a b (hs.getD k ([], [])).2 (dh.getD k ([], [])).2)

/-- the band cotangents of levels `lvl, lvl+1, …` (`n` of them) below a low-pass of size `2a × 2b` -/
def cots (A B : Nat → Nat → Nat → Nat → R) : Nat → Nat → Nat → Nat → List (List (Cplx R))
  | 0, _, _, _ => []
  | n+1, lvl, a, b => cot (A lvl) (B lvl) (a / 2) (b / 2) :: cots A B n (lvl + 1) (a / 2) (b / 2)

/-- the inner products of the band outputs of those levels with their cotangents -/
def loopDot (A B : Nat → Nat → Nat → Nat → R) : Nat → Nat → Nat → Nat → List (Option (List (Cplx R))) → R
  | n+1, lvl, a, b, h :: hs => bdot (a / 2) (b / 2) (h.getD []) (cot (A lvl) (B lvl) (a / 2) (b / 2)) + loopDot A B n (lvl + 1) (a / 2) (b / 2) hs
  | _, _, _, _, _ => 0

theorem extendMult4_id (x : Img R) (H W : Nat) (hx : Rect x H W) (hH : 1 ≤ H) (h4 : H % 4 = 0) (w4 : W % 4 = 0) : extendMult4 x = x := by
  unfold extendMult4
  have hw := rect_width x H W hx hH
  simp only [hx.1, h4, ne_eq, not_true_eq_false, if_false, hw, w4]

section
variable (s : R) (h0o h1o h0 h1 : List R) (hh0o : h0o.length % 2 = 1) (hh1o : h1o.length % 2 = 1) (hs0 : Symm h0o) (hs1 : Symm h1o)
    (hm0 : h0.length % 2 = 0) (hm0' : 2 ≤ h0.length) (hm1 : h1.length % 2 = 0) (hm1' : 2 ≤ h1.length)
    (A B : Nat → Nat → Nat → Nat → R)

include hm0 hm0' hm1 hm1' in
/-- levels `2 … J`: the chain of `FWD_J2PLUS.backward` is the adjoint of the level loop -/
theorem loop_adjoint : ∀ (n lvl : Nat) (incl : List Bool) (low gl : Img R) (a b : Nat), 1 ≤ a → 1 ≤ b → Rect low (2*a) (2*b) → Dy n a b →
    Rect gl (2 * (a / 2 ^ n)) (2 * (b / 2 ^ n)) →
    ∃ lowF hsl scs y, dtcwtFwdLoop s (mkF h0o h1o h0 h1) (List.replicate n false) incl low = some (lowF, hsl, scs) ∧
      loopBackward s (mkF h0o h1o h0 h1) (cots A B n lvl a b) gl = some y ∧ Rect y (2*a) (2*b) ∧
      dot2 (2 * (a / 2 ^ n)) (2 * (b / 2 ^ n)) lowF gl + loopDot A B n lvl a b hsl = dot2 (2*a) (2*b) low y
  | 0, lvl, incl, low, gl, a, b, _, _, hx, _, hg => by
    have ea : a / 2 ^ 0 = a := by simp
    have eb : b / 2 ^ 0 = b := by simp
    rw [ea, eb] at hg ⊢
    refine ⟨low, [], [], gl, by simp [dtcwtFwdLoop], by simp [loopBackward, cots], hg, ?_⟩
    simp [loopDot]
  | n+1, lvl, incl, low, gl, a, b, ha, hb, hx, hd, hg => by
    obtain ⟨ha2, hb2, ha1, hb1, hdr⟩ := hd
    have e4a : 2 * a = 4 * (a / 2) := by omega
    have e4b : 2 * b = 4 * (b / 2) := by omega
    have hx4 : Rect low (4 * (a / 2)) (4 * (b / 2)) := by rw [← e4a, ← e4b]; exact hx
    have hext : extendMult4 low = low := extendMult4_id low (2*a) (2*b) hx (by omega) (by omega) (by omega)
    have epa : a / 2 ^ (n + 1) = (a / 2) / 2 ^ n := by rw [pow_succ, Nat.mul_comm, Nat.div_div_eq_div_mul]
    have epb : b / 2 ^ (n + 1) = (b / 2) / 2 ^ n := by rw [pow_succ, Nat.mul_comm, Nat.div_div_eq_div_mul]
    rw [epa, epb] at hg ⊢
    -- this level's forward value (any cotangent will do to name it)
    obtain ⟨ll0, hs0', _, hF0, _, _, rll0, _⟩ := fwdJ2_backward_adjoint_rect s h0 h1 hm0 hm0' hm1 hm1' low
      (tab2 (2 * (a / 2)) (2 * (b / 2)) fun _ _ => (0 : R)) (a / 2) (b / 2) ha1 hb1 hx4 (tab2_rect _ _ _) (A lvl) (B lvl)
    -- the coarser levels on this level's low-pass
    obtain ⟨lowF, hsl, scs, y', hfr, hbr, ry', hdr'⟩ := loop_adjoint n (lvl + 1) (incl.drop 1) ll0 gl (a / 2) (b / 2) ha1 hb1 rll0 hdr hg
    -- this level with the gradient the coarser levels produced
    obtain ⟨ll, hs, y, hF, hB, ry, _, hid⟩ := fwdJ2_backward_adjoint_rect s h0 h1 hm0 hm0' hm1 hm1' low y' (a / 2) (b / 2) ha1 hb1 hx4 ry'
      (A lvl) (B lvl)
    rw [hF0] at hF
    simp only [Option.some.injEq, Prod.mk.injEq] at hF
    obtain ⟨ell, ehs⟩ := hF
    refine ⟨lowF, some hs :: hsl, (if incl.headD false then some ll0 else none) :: scs, y, ?_, ?_, by rw [e4a, e4b]; exact ry, ?_⟩
    · simp only [List.replicate_succ, dtcwtFwdLoop, hext]
      have hF0' : fwdJ2 s (mkF h0o h1o h0 h1).h0a (mkF h0o h1o h0 h1).h1a (mkF h0o h1o h0 h1).h0b (mkF h0o h1o h0 h1).h1b false low
          = some (ll0, some hs0') := hF0
      rw [hF0']
      simp only [Option.bind_eq_bind, Option.bind_some]
      rw [hfr]
      simp only [Option.bind_some]
      rw [ehs]
    · simp only [cots, loopBackward, hbr, Option.bind_eq_bind, Option.bind_some]
      exact hB
    · rw [e4a, e4b, ← hid, ← ell]
      simp only [loopDot, Option.getD_some]
      rw [← hdr']
      unfold bdot cot
      rw [← ehs]
      ring

theorem extendEven_id (x : Img R) (H W : Nat) (hx : Rect x H W) (hH : 1 ≤ H) (h2 : H % 2 = 0) (w2 : W % 2 = 0) : extendEven x = x := by
  unfold extendEven
  have hw := rect_width x H W hx hH
  simp only [hx.1, h2, ne_eq, not_true_eq_false, if_false, hw, w2]

include hh0o hh1o hs0 hs1 hm0 hm0' hm1 hm1' in
/-- **back-propagation through the whole J-level forward DTCWT is the adjoint of the transform** (one channel, symmetric mode,
all levels kept, sides multiples of `2^J`: `x` is `2a × 2b` with `Dy n a b`, `J = n + 1`): for every cotangent `gl` of the final
low-pass and every band cotangents `A lvl k`, `B lvl k` (real and imaginary parts of band `k` of level `lvl + 1`),
`⟨low_J, gl⟩ + Σ_levels Σ_k ⟨band, cotangent⟩ = ⟨x, backward(gl, cotangents)⟩` -/
theorem DTCWT_backward_adjoint (n : Nat) (incl : List Bool) (x gl : Img R) (a b : Nat) (ha : 1 ≤ a) (hb : 1 ≤ b)
    (hx : Rect x (2*a) (2*b)) (hd : Dy n a b) (hg : Rect gl (2 * (a / 2 ^ n)) (2 * (b / 2 ^ n))) :
    ∃ lowF h1s hsl scs y,
      DTCWTForward s true (mkF h0o h1o h0 h1) (List.replicate (n+1) false) incl x = some (lowF, some h1s :: hsl, scs) ∧
      DTCWTForwardBackward s (mkF h0o h1o h0 h1) (a, b) (cot (A 0) (B 0) a b :: cots A B n 1 a b) gl = some y ∧
      Rect y (2*a) (2*b) ∧
      dot2 (2 * (a / 2 ^ n)) (2 * (b / 2 ^ n)) lowF gl + bdot a b h1s (cot (A 0) (B 0) a b) + loopDot A B n 1 a b hsl
        = dot2 (2*a) (2*b) x y := by
  have hee : extendEven x = x := extendEven_id x (2*a) (2*b) hx (by omega) (by omega) (by omega)
  -- level 1: its value (any cotangent names it)
  obtain ⟨hs1', _, hF1, _, _, _⟩ := fwdJ1_backward_adjoint_rect s h0o h1o hh0o hh1o hs0 hs1 x x a b ha hb hx hx (A 0) (B 0)
  have rlow1 := (fwdJ1_shape s h0o h1o hh0o hh1o x a b ha hb hx).1
  -- the coarser levels on the level-1 low-pass
  obtain ⟨lowF, hsl, scs, y', hfr, hbr, ry', hdr⟩ := loop_adjoint s h0o h1o h0 h1 hm0 hm0' hm1 hm1' A B n 1 (incl.drop 1)
    (fwdJ1 s true (prepFilt h0o) (prepFilt h1o) false x).1 gl a b ha hb rlow1 hd hg
  -- level 1 with the gradient the coarser levels produced
  obtain ⟨hs1'', y, hF1', hB, ry, hid⟩ := fwdJ1_backward_adjoint_rect s h0o h1o hh0o hh1o hs0 hs1 x y' a b ha hb hx ry' (A 0) (B 0)
  rw [hF1] at hF1'
  have ehs : hs1' = hs1'' := Option.some.inj hF1'
  refine ⟨lowF, hs1', hsl, (if incl.headD false then some (fwdJ1 s true (prepFilt h0o) (prepFilt h1o) false x).1 else none) :: scs, y, ?_, ?_, ry, ?_⟩
  · simp only [List.replicate_succ, DTCWTForward, hee]
    have e1 : (mkF h0o h1o h0 h1).h0o = prepFilt h0o := rfl
    have e2 : (mkF h0o h1o h0 h1).h1o = prepFilt h1o := rfl
    rw [e1, e2]
    have hpair : fwdJ1 s true (prepFilt h0o) (prepFilt h1o) false x = ((fwdJ1 s true (prepFilt h0o) (prepFilt h1o) false x).1, some hs1') := by
      rw [← hF1]
    rw [hpair]
    simp only [Option.bind_eq_bind]
    rw [hfr]
    rfl
  · simp only [DTCWTForwardBackward, hbr, Option.bind_eq_bind, Option.bind_some]
    exact hB
  · rw [← hid, ← hdr, ehs]
    unfold bdot cot
    ring

end

/-- the hypotheses are satisfiable: a 16 × 8 image (`a = 8`, `b = 4`) admits two further levels (`J = 3`) -/
example : Dy 2 8 4 := by
  refine ⟨by decide, by decide, by decide, by decide, ?_⟩
  exact ⟨by decide, by decide, by decide, by decide, trivial⟩

end WV.C06J
