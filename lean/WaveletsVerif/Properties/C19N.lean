/-
  C19 — the non-separable analysis bank equals the separable one, mode zero, every image size and filter lengths.

  `afb2d_nonsep` zero-pads the image on both axes at once and runs one strided 2-D correlation per sub-band with the kernel
  `np.outer(hc, hr)[::-1, ::-1]`; `afb2d` / `AFB2D` filter the rows and then the columns with the reversed filters, zero
  padding each axis in turn.  Pixel by pixel both are `Σ_i Σ_j hc.rev[i]·hr.rev[j]·x̃[2a+i−(Ly−2), 2b+j−(Lx−2)]` with `x̃`
  the zero extension of the image (`gz`).
-/
import Mathlib.Data.List.GetD
import WaveletsVerif.Properties.C05D
import WaveletsVerif.Properties.C19
namespace WV.C19N
open Finset WV WV.C04 WV.C04Q WV.C06 WV.C05D
variable {R : Type} [CommRing R]

/-- zero-extended pixel read with integer indices -/
def gz (x : Img R) (i j : Int) : R := if 0 ≤ i then getZ (x.getD i.toNat []) j else 0

theorem getZ_nil (j : Int) : getZ ([] : List R) j = 0 := by unfold getZ; split <;> simp

theorem get2_izero (h w u v : Nat) : get2 (izero h w : Img R) u v = 0 := by
  unfold get2 izero tab2
  rw [getD_tab]
  split
  · rw [getD_tab]; split <;> rfl
  · rfl

theorem get2_oob (B : Img R) (u v : Nat) (h : B.length ≤ u) : get2 B u v = 0 := by
  unfold get2
  have : B.getD u [] = [] := by rw [List.getD_eq_getElem?_getD, List.getElem?_eq_none h]; rfl
  rw [this]; rfl

/-- rows of zeros above and below -/
theorem get2_vpad (a Wt : Nat) (B : Img R) (u v : Nat) :
    get2 (izero a Wt ++ B ++ izero a Wt) u v = if a ≤ u then get2 B (u - a) v else 0 := by
  have hl : (izero a Wt : Img R).length = a := by simp [izero, tab2]
  by_cases h1 : u < a
  · rw [if_neg (by omega)]
    unfold get2
    rw [List.append_assoc, List.getD_append _ _ _ _ (by rw [hl]; exact h1)]
    exact get2_izero a Wt u v
  · rw [if_pos (by omega)]
    unfold get2
    rw [List.append_assoc, List.getD_append_right _ _ _ _ (by rw [hl]; omega), hl]
    by_cases h2 : u - a < B.length
    · rw [List.getD_append _ _ _ _ h2]
    · rw [List.getD_append_right _ _ _ _ (by omega)]
      have e1 := get2_izero (R := R) a Wt (u - a - B.length) v
      have e2 := get2_oob B (u - a) v (by omega)
      unfold get2 at e1 e2
      rw [e1, e2]

theorem get2_map_zeroPad (X : Img R) (l r s v : Nat) :
    get2 (X.map fun row => zeroPad row l r) s v = getZ (X.getD s []) ((v:Int) - l) := by
  by_cases hs : s < X.length
  · unfold get2
    have e : (X.map fun row => zeroPad row l r).getD s [] = zeroPad (X.getD s []) l r := by
      simp [List.getD_eq_getElem?_getD, List.getElem?_eq_getElem hs]
    rw [e]
    have := getZ_zeroPad (X.getD s []) l r (v:Int)
    rw [← this, ← getN_eq_getZ]; rfl
  · rw [get2_oob _ _ _ (by simp; omega)]
    rw [List.getD_eq_getElem?_getD, List.getElem?_eq_none (by omega)]
    exact (getZ_nil _).symm

/-- the zero-padded image `afb2d_nonsep` correlates with, as the model builds it -/
def xpZero (Ly Lx : Nat) (x : Img R) : Img R :=
  let Ny := x.length
  let Nx := x.width
  let p1 := 2 * (dwtCoeffLen Ny Ly - 1) + Ly - Ny
  let p2 := 2 * (dwtCoeffLen Nx Lx - 1) + Lx - Nx
  let x1 : Img R := if p1 % 2 = 1 then x ++ izero 1 Nx else x
  let x2 : Img R := if p2 % 2 = 1 then x1.map (fun r => zeroPad r 0 1) else x1
  let W2 := x2.width
  (izero (p1/2) (W2 + 2*(p2/2))) ++ (x2.map fun r => zeroPad r (p2/2) (p2/2)) ++ (izero (p1/2) (W2 + 2*(p2/2)))

theorem afb2dNonsep_zero_val (hc0 hc1 hr0 hr1 : List R) (hLy : 2 ≤ hc0.length) (hLx : 2 ≤ hr0.length)
    (hc : hc1.length = hc0.length) (hr : hr1.length = hr0.length) (x : Img R) (hH : 1 ≤ x.length) (hW : 1 ≤ x.width) :
    afb2dNonsepCh .zero hc0 hc1 hr0 hr1 x
      = some ([outerRev hc0 hr0, outerRev hc1 hr0, outerRev hc0 hr1, outerRev hc1 hr1].map fun f =>
          corr2 f (xpZero hc0.length hr0.length x) 2 2) := by
  have hguard : ¬ (hc0.length < 2 ∨ hr0.length < 2 ∨ hc1.length ≠ hc0.length ∨ hr1.length ≠ hr0.length ∨ x.length < 1 ∨ x.width < 1) := by omega
  simp only [afb2dNonsepCh, hguard, if_false, xpZero]

theorem getZ_zeroPad_right (row : List R) (t : Int) : getZ (zeroPad row 0 1) t = getZ row t := by
  rw [getZ_zeroPad]; simp

theorem getZ_getD_map_pad (X : Img R) (s : Nat) (t : Int) :
    getZ ((X.map fun r => zeroPad r 0 1).getD s []) t = getZ (X.getD s []) t := by
  by_cases hs : s < X.length
  · have e : (X.map fun r => zeroPad r 0 1).getD s [] = zeroPad (X.getD s []) 0 1 := by
      simp [List.getD_eq_getElem?_getD, List.getElem?_eq_getElem hs]
    rw [e, getZ_zeroPad_right]
  · have e1 : (X.map fun r => zeroPad r 0 1).getD s [] = [] := by
      rw [List.getD_eq_getElem?_getD, List.getElem?_eq_none (by simp; omega)]; rfl
    have e2 : X.getD s [] = [] := by
      rw [List.getD_eq_getElem?_getD, List.getElem?_eq_none (by omega)]; rfl
    rw [e1, e2]

theorem getZ_getD_append_izero (x : Img R) (W s : Nat) (t : Int) :
    getZ ((x ++ izero 1 W).getD s []) t = getZ (x.getD s []) t := by
  by_cases hs : s < x.length
  · rw [List.getD_append _ _ _ _ hs]
  · rw [List.getD_append_right _ _ _ _ (by omega)]
    have e2 : x.getD s [] = [] := by
      rw [List.getD_eq_getElem?_getD, List.getElem?_eq_none (by omega)]; rfl
    rw [e2, getZ_nil]
    have := get2_izero (R := R) 1 W (s - x.length)
    unfold getZ
    split
    · have h3 := this t.toNat; unfold get2 at h3; exact h3
    · rfl

/-- the padded image is the zero extension of `x` shifted by `(Ly−2, Lx−2)` -/
theorem get2_xpZero (Ly Lx : Nat) (hLy : 2 ≤ Ly) (hLx : 2 ≤ Lx) (x : Img R) (H W : Nat) (hx : Rect x H W) (hH : 1 ≤ H) (hW : 1 ≤ W)
    (u v : Nat) : get2 (xpZero Ly Lx x) u v = gz x ((u:Int) - ((Ly - 2 : Nat):Int)) ((v:Int) - ((Lx - 2 : Nat):Int)) := by
  have hw : x.width = W := rect_width x H W hx hH
  have hP1 : (2 * (dwtCoeffLen H Ly - 1) + Ly - H) / 2 = Ly - 2 := by unfold dwtCoeffLen; omega
  have hP2 : (2 * (dwtCoeffLen W Lx - 1) + Lx - W) / 2 = Lx - 2 := by unfold dwtCoeffLen; omega
  unfold xpZero
  simp only [hx.1, hw, hP1, hP2]
  rw [get2_vpad, get2_map_zeroPad]
  unfold gz
  by_cases hu : Ly - 2 ≤ u
  · rw [if_pos hu]
    rw [if_pos (show (0:Int) ≤ (u:Int) - ((Ly - 2 : Nat):Int) by omega)]
    have ht : ((u:Int) - ((Ly - 2 : Nat):Int)).toNat = u - (Ly - 2) := by omega
    rw [ht]
    by_cases c1 : (2 * (dwtCoeffLen H Ly - 1) + Ly - H) % 2 = 1 <;> by_cases c2 : (2 * (dwtCoeffLen W Lx - 1) + Lx - W) % 2 = 1
    · simp only [if_pos c1, if_pos c2]; rw [getZ_getD_map_pad, getZ_getD_append_izero]
    · simp only [if_pos c1, if_neg c2]; rw [getZ_getD_append_izero]
    · simp only [if_neg c1, if_pos c2]; rw [getZ_getD_map_pad]
    · simp only [if_neg c1, if_neg c2]
  · rw [if_neg hu]
    rw [if_neg (show ¬ (0:Int) ≤ (u:Int) - ((Ly - 2 : Nat):Int) by omega)]

theorem xpZero_length (Ly Lx : Nat) (hLy : 2 ≤ Ly) (x : Img R) (H W : Nat) (hx : Rect x H W) (hH : 1 ≤ H) :
    (xpZero Ly Lx x).length = 2 * (dwtCoeffLen H Ly - 1) + Ly := by
  have hw : x.width = W := rect_width x H W hx hH
  unfold xpZero
  simp only [hx.1, hw]
  have hK : 1 ≤ dwtCoeffLen H Ly := by unfold dwtCoeffLen; omega
  have hge : H ≤ 2 * (dwtCoeffLen H Ly - 1) + Ly := by unfold dwtCoeffLen; omega
  by_cases c1 : (2 * (dwtCoeffLen H Ly - 1) + Ly - H) % 2 = 1 <;> by_cases c2 : (2 * (dwtCoeffLen W Lx - 1) + Lx - W) % 2 = 1 <;>
    simp [c1, c2, izero, tab2, hx.1] <;> omega

theorem xpZero_width (Ly Lx : Nat) (hLx : 2 ≤ Lx) (x : Img R) (H W : Nat) (hx : Rect x H W) (hH : 1 ≤ H) (hW : 1 ≤ W) :
    (xpZero Ly Lx x).width = 2 * (dwtCoeffLen W Lx - 1) + Lx := by
  have hw : x.width = W := rect_width x H W hx hH
  have hK : 1 ≤ dwtCoeffLen W Lx := by unfold dwtCoeffLen; omega
  have hge : W ≤ 2 * (dwtCoeffLen W Lx - 1) + Lx := by unfold dwtCoeffLen; omega
  obtain ⟨r0, rest, hxe⟩ : ∃ r0 rest, x = r0 :: rest := by
    cases x with
    | nil => have := hx.1; simp at this; omega
    | cons a b => exact ⟨a, b, rfl⟩
  have hr0 : r0.length = W := hx.2 r0 (by rw [hxe]; simp)
  unfold xpZero
  simp only [hx.1, hw]
  have hx2w : Img.width (if (2 * (dwtCoeffLen W Lx - 1) + Lx - W) % 2 = 1 then
        (if (2 * (dwtCoeffLen H Ly - 1) + Ly - H) % 2 = 1 then x ++ izero 1 W else x).map (fun r => zeroPad r 0 1)
      else (if (2 * (dwtCoeffLen H Ly - 1) + Ly - H) % 2 = 1 then x ++ izero 1 W else x))
      = W + (2 * (dwtCoeffLen W Lx - 1) + Lx - W) % 2 := by
    by_cases c1 : (2 * (dwtCoeffLen H Ly - 1) + Ly - H) % 2 = 1 <;> by_cases c2 : (2 * (dwtCoeffLen W Lx - 1) + Lx - W) % 2 = 1 <;>
      simp [c1, c2, hxe, Img.width, zeroPad, hr0] <;> omega
  rw [hx2w]
  by_cases ha : (2 * (dwtCoeffLen H Ly - 1) + Ly - H) / 2 = 0
  · rw [ha]
    have : (izero 0 (W + (2 * (dwtCoeffLen W Lx - 1) + Lx - W) % 2 + 2 * ((2 * (dwtCoeffLen W Lx - 1) + Lx - W) / 2)) : Img R) = [] := by
      simp [izero, tab2, tab]
    rw [this, List.nil_append, List.append_nil]
    by_cases c1 : (2 * (dwtCoeffLen H Ly - 1) + Ly - H) % 2 = 1 <;> by_cases c2 : (2 * (dwtCoeffLen W Lx - 1) + Lx - W) % 2 = 1 <;>
      simp [c1, c2, hxe, Img.width, zeroPad, hr0] <;> omega
  · have hwid : ∀ (a n : Nat) (B : Img R), 0 < a → (izero a n ++ B ++ izero a n : Img R).width = n := by
      intro a n B ha'
      unfold Img.width izero tab2 tab
      cases a with
      | zero => omega
      | succ k => simp [List.range_succ_eq_map]
    rw [hwid _ _ _ (by omega)]
    omega

theorem gz_oob (x : Img R) (H : Nat) (hx : x.length = H) (s t : Int) (h : ¬ (0 ≤ s ∧ s < H)) : gz x s t = 0 := by
  unfold gz
  split
  · have e2 : x.getD s.toNat [] = [] := by
      rw [List.getD_eq_getElem?_getD, List.getElem?_eq_none (by omega)]; rfl
    rw [e2, getZ_nil]
  · rfl

/-- one sub-band: the strided 2-D correlation with `outerRev hc hr` on the zero-padded image is the row pass with
`hr.reverse` followed by the column pass with `hc.reverse` -/
theorem band_eq (hc hr : List R) (Ly Lx : Nat) (hcl : hc.length = Ly) (hrl : hr.length = Lx) (hLy : 2 ≤ Ly) (hLx : 2 ≤ Lx)
    (x : Img R) (H W : Nat) (hx : Rect x H W) (hH : 1 ≤ H) (hW : 1 ≤ W) :
    corr2 (outerRev hc hr) (xpZero Ly Lx x) 2 2 = alongH (Az hc.reverse) (alongW (Az hr.reverse) x) := by
  have hKh : 1 ≤ dwtCoeffLen H Ly := by unfold dwtCoeffLen; omega
  have hKw : 1 ≤ dwtCoeffLen W Lx := by unfold dwtCoeffLen; omega
  have hcr : hc.reverse.length = Ly := by simp [hcl]
  have hrr : hr.reverse.length = Lx := by simp [hrl]
  -- the separable side as a table
  have hY : alongW (Az hr.reverse) x = tab2 H (dwtCoeffLen W Lx) fun t q => getN (Az hr.reverse (x.getD t [])) q :=
    alongW_get' (Az hr.reverse) x H W _ hx (fun c hc' => by rw [Az_length _ c (by omega) (by omega), hc', hrr])
  have hS : alongH (Az hc.reverse) (alongW (Az hr.reverse) x)
      = tab2 (dwtCoeffLen H Ly) (dwtCoeffLen W Lx) fun p q => getN (Az hc.reverse (col (alongW (Az hr.reverse) x) q)) p := by
    apply alongH_get' (Az hc.reverse) _ H _ _ (by rw [hY]; exact tab2_rect _ _ _) hH hKw
    intro c hc'
    rw [Az_length _ c (by omega) (by omega), hc', hcr]
  rw [hS, C19.outerRev_eq]
  -- the non-separable side as a table
  have hol : (outer hc.reverse hr.reverse).length = Ly := by simp [outer, tab2, hcl]
  have how : (outer hc.reverse hr.reverse).width = Lx := by
    unfold outer; rw [C19.width_tab2 _ _ _ (by simp; omega)]; simp [hrl]
  have hd1 : corrLen (xpZero Ly Lx x).length Ly 2 1 = dwtCoeffLen H Ly := by
    rw [xpZero_length Ly Lx hLy x H W hx hH]; unfold corrLen; split <;> omega
  have hd2 : corrLen (xpZero Ly Lx x).width Lx 2 1 = dwtCoeffLen W Lx := by
    rw [xpZero_width Ly Lx hLx x H W hx hH hW]; unfold corrLen; split <;> omega
  have hN : corr2 (outer hc.reverse hr.reverse) (xpZero Ly Lx x) 2 2
      = tab2 (dwtCoeffLen H Ly) (dwtCoeffLen W Lx) (get2 (corr2 (outer hc.reverse hr.reverse) (xpZero Ly Lx x) 2 2)) := by
    conv_lhs => unfold corr2
    rw [hol, how, hd1, hd2]
    apply tab2_congr; intro p hp q hq
    unfold corr2
    rw [hol, how, hd1, hd2, C19.get2_tab2 _ _ _ _ _ hp hq]
  rw [hN]
  apply tab2_congr; intro p hp q hq
  rw [C19.corr2_outer_eq _ _ _ 2 2 p q (by rw [hcr]; omega) (by rw [hcr, hd1]; exact hp) (by rw [hrr, hd2]; exact hq)]
  -- column pass
  have hcol : col (alongW (Az hr.reverse) x) q = tab H fun t => getN (Az hr.reverse (x.getD t [])) q := by
    rw [hY, col_tab2 _ _ _ q hq]
  rw [C05.afbZeroVal_get hc.reverse _ (by omega) (by rw [hcol]; simp; omega) p (by rw [hcol]; simp; rw [hcl]; exact hp)]
  rw [hcr]
  apply Finset.sum_congr rfl; intro i _
  congr 1
  rw [hcol, getZ_tab]
  by_cases hs : 0 ≤ ((2 * p + i : Nat) : Int) - ((Ly - 2 : Nat) : Int) ∧ ((2 * p + i : Nat) : Int) - ((Ly - 2 : Nat) : Int) < H
  · rw [if_pos hs]
    have hrow : (x.getD (((2 * p + i : Nat) : Int) - ((Ly - 2 : Nat) : Int)).toNat []).length = W :=
      getD_row_length x H W hx _ (by omega)
    rw [C05.afbZeroVal_get hr.reverse _ (by omega) (by rw [hrow]; exact hW) q (by rw [hrow, hrr]; exact hq), hrr]
    apply Finset.sum_congr rfl; intro j _
    congr 1
    rw [get2_xpZero Ly Lx hLy hLx x H W hx hH hW]
    unfold gz
    rw [if_pos (by push_cast; push_cast at hs; omega)]
  · rw [if_neg hs]
    apply Finset.sum_eq_zero; intro j _
    rw [get2_xpZero Ly Lx hLy hLx x H W hx hH hW, gz_oob x H hx.1 _ _ (by push_cast; push_cast at hs; omega), mul_zero]

/-- **`afb2d_nonsep` = `afb2d` in mode zero**: the four sub-bands (ll, lh, hl, hh) of the non-separable model are the
row pass followed by the column pass of the separable bank, for every image size and every filter lengths ≥ 2 -/
theorem afb2d_nonsep_zero_eq_sep (hc0 hc1 hr0 hr1 : List R) (hLy : 2 ≤ hc0.length) (hLx : 2 ≤ hr0.length)
    (hc : hc1.length = hc0.length) (hr : hr1.length = hr0.length) (x : Img R) (H W : Nat) (hx : Rect x H W) (hH : 1 ≤ H) (hW : 1 ≤ W) :
    afb2dNonsepCh .zero hc0 hc1 hr0 hr1 x
      = some [alongH (Az hc0.reverse) (alongW (Az hr0.reverse) x), alongH (Az hc1.reverse) (alongW (Az hr0.reverse) x),
              alongH (Az hc0.reverse) (alongW (Az hr1.reverse) x), alongH (Az hc1.reverse) (alongW (Az hr1.reverse) x)] := by
  have hw : x.width = W := rect_width x H W hx hH
  rw [afb2dNonsep_zero_val hc0 hc1 hr0 hr1 hLy hLx hc hr x (by rw [hx.1]; exact hH) (by rw [hw]; exact hW)]
  simp only [List.map_cons, List.map_nil]
  rw [band_eq hc0 hr0 _ _ rfl rfl hLy hLx x H W hx hH hW, band_eq hc1 hr0 _ _ hc rfl hLy hLx x H W hx hH hW,
    band_eq hc0 hr1 _ _ rfl hr hLy hLx x H W hx hH hW, band_eq hc1 hr1 _ _ hc hr hLy hLx x H W hx hH hW]

/-- the same four images are what the autograd Function `AFB2D.forward` returns in mode zero (C05D.AFB2D_forward_val):
the non-separable bank and the separable Function agree band by band -/
theorem afb2d_nonsep_zero_eq_AFB2D (hc0 hc1 hr0 hr1 : List R) (hLy : 2 ≤ hc0.length) (hLx : 2 ≤ hr0.length)
    (hc : hc1.length = hc0.length) (hr : hr1.length = hr0.length) (x : Img R) (H W : Nat) (hx : Rect x H W) (hH : 1 ≤ H) (hW : 1 ≤ W) :
    ∃ ll lh hl hh, afb2dNonsepCh .zero hc0 hc1 hr0 hr1 x = some [ll, lh, hl, hh] ∧
      AFB2D_forward .zero hr0.reverse hr1.reverse hc0.reverse hc1.reverse [x] = some ([ll], [[lh, hl, hh]]) :=
  ⟨_, _, _, _, afb2d_nonsep_zero_eq_sep hc0 hc1 hr0 hr1 hLy hLx hc hr x H W hx hH hW,
    AFB2D_forward_val hr0.reverse hr1.reverse hc0.reverse hc1.reverse (by simpa using hLx) (by simp [hr]) (by simpa using hLy) (by simp [hc])
      x H W hx hH hW⟩

end WV.C19N
