/-
  C06 — back-propagation through the whole inverse DTCWT is the exact adjoint, on dyadic pyramids: the low-pass AND every
  band-pass level receive their gradients.

  `DTCWTInverse` runs `INV_J2PLUS` from the coarsest level to level 2 and `INV_J1` last; autograd therefore runs
  `INV_J1.backward` first and then `INV_J2PLUS.backward` level after level towards the coarsest one, each handing the gradient of
  its low-pass input on and keeping the gradient of its band-pass input (`DTCWTInverseBackward`: the chain rule over the module's
  level loop with the library's hand-written backward at every level, all inputs requiring grad).  On pyramids of images whose
  sides are multiples of `2^J` no level crops its low-pass; one level is the adjoint of one level
  (`C06.INV_J1_backward_adjoint`, `C06Q.INV_J2PLUS_backward_adjoint`), and by induction over the levels
  `⟨DTCWTInverse P, dy⟩ = ⟨P, backward(dy)⟩` for every J, every pyramid `P` and every cotangent `dy`.
-/
import WaveletsVerif.Properties.C06J
namespace WV.C06K
open Finset WV WV.C04 WV.C06 WV.C06Q WV.C04P WV.C06J
variable {R : Type} [CommRing R]

/-- the chain rule over levels `2 … J` of `DTCWTInverse`, from the finest of them to the coarsest: gradient of the final
low-pass and the band-pass gradients, finest first -/
def invLoopBackward (s : R) (g : InvFilters R) : Nat → Img R → Option (Img R × List (List (Cplx R)))
  | 0, dy => some (dy, [])
  | n+1, dy => do
    let r ← INV_J2PLUS_backward s g.g0a g.g1a g.g0b g.g1b true true dy
    match r with
    | (some dl, some dh) => do
      let (dlF, dhs) ← invLoopBackward s g n dl
      some (dlF, dh :: dhs)
    | _ => none

/-- … preceded by `INV_J1.backward` -/
def DTCWTInverseBackward (s : R) (g : InvFilters R) (n : Nat) (dy : Img R) : Option (Img R × List (List (Cplx R))) :=
  match INV_J1_backward s true g.g0o g.g1o true true dy with
  | (some dl, some dh) => do
    let (dlF, dhs) ← invLoopBackward s g n dl
    some (dlF, dh :: dhs)
  | _ => none

/-- inner products of a list of band gradients with the band inputs of levels `lvl, lvl+1, …` -/
def gradDot (A B : Nat → Nat → Nat → Nat → R) : Nat → Nat → Nat → Nat → List (List (Cplx R)) → R
  | n+1, lvl, a, b, dh :: dhs => bdot (a / 2) (b / 2) dh (cot (A lvl) (B lvl) (a / 2) (b / 2)) + gradDot A B n (lvl + 1) (a / 2) (b / 2) dhs
  | _, _, _, _, _ => 0

/-- the band sizes the inverse reads for those levels -/
def sizes : Nat → Nat → Nat → List (Nat × Nat)
  | 0, _, _ => []
  | n+1, a, b => (a / 2, b / 2) :: sizes n (a / 2) (b / 2)

theorem cropToHighs_id' (l : Img R) (a b : Nat) (hl : Rect l (2*a) (2*b)) (ha : 1 ≤ a) : cropToHighs l a b = l :=
  cropToHighs_id l a b hl.1 (rect_width _ _ _ hl (by omega))

section
variable (s : R) (g0o g1o g0 g1 : List R) (hg0o : g0o.length % 2 = 1) (hg1o : g1o.length % 2 = 1) (hs0 : Symm g0o) (hs1 : Symm g1o)
    (hm0 : g0.length % 2 = 0) (hm0' : 2 ≤ g0.length) (hm1 : g1.length % 2 = 0) (hm1' : 2 ≤ g1.length)
    (A B : Nat → Nat → Nat → Nat → R)

include hm0 hm0' hm1 hm1' in
/-- one level ≥ 2 of the inverse and its backward pass, with the shapes of both results -/
theorem inv2_level (dy ll : Img R) (H W : Nat) (hH : 1 ≤ H) (hW : 1 ≤ W) (hdy : Rect dy (4*H) (4*W)) (hll : Rect ll (2*H) (2*W))
    (a b : Nat → Nat → Nat → R) :
    ∃ dl dh y,
      INV_J2PLUS_backward s (mkG g0o g1o g0 g1).g0a (mkG g0o g1o g0 g1).g1a (mkG g0o g1o g0 g1).g0b (mkG g0o g1o g0 g1).g1b true true dy
        = some (some dl, some dh) ∧
      invJ2 s (mkG g0o g1o g0 g1).g0a (mkG g0o g1o g0 g1).g1a (mkG g0o g1o g0 g1).g0b (mkG g0o g1o g0 g1).g1b (some ll) (some (cot a b H W)) = some y ∧
      Rect dl (2*H) (2*W) ∧ Rect y (4*H) (4*W) ∧
      dot2 (4*H) (4*W) dy y = dot2 (2*H) (2*W) dl ll + bdot H W dh (cot a b H W) := by
  have r0 : g0.reverse.length % 2 = 0 := by simpa using hm0
  have r0' : 2 ≤ g0.reverse.length := by simpa using hm0'
  have r1 : g1.reverse.length % 2 = 0 := by simpa using hm1
  have r1' : 2 ≤ g1.reverse.length := by simpa using hm1'
  obtain ⟨dl, dh, y, hF, hB, ry, rdl, hid⟩ := fwdJ2_backward_adjoint_rect s g0.reverse g1.reverse r0 r0' r1 r1' dy ll H W hH hW hdy hll a b
  rw [List.reverse_reverse, List.reverse_reverse] at hF hB
  refine ⟨dl, dh, y, ?_, ?_, rdl, ry, ?_⟩
  · show INV_J2PLUS_backward s (prepFilt g0.reverse) (prepFilt g1.reverse) (prepFilt g0) (prepFilt g1) true true dy = _
    unfold INV_J2PLUS_backward
    simp [hF]
  · exact hB
  · rw [← hid]; unfold bdot cot; ring

include hm0 hm0' hm1 hm1' in
/-- levels `2 … J`: the chain of `INV_J2PLUS.backward` is the adjoint of the inverse's level loop -/
theorem invLoop_adjoint : ∀ (n lvl : Nat) (low dy : Img R) (a b : Nat), 1 ≤ a → 1 ≤ b → Dy n a b →
    Rect low (2 * (a / 2 ^ n)) (2 * (b / 2 ^ n)) → Rect dy (2*a) (2*b) →
    ∃ Z dlF dhs,
      (((cots A B n lvl a b).map some).zip (sizes n a b)).reverse.foldlM (dtcwtInvStep s (mkG g0o g1o g0 g1)) (some low) = some (some Z) ∧
      Rect Z (2*a) (2*b) ∧
      invLoopBackward s (mkG g0o g1o g0 g1) n dy = some (dlF, dhs) ∧
      dot2 (2*a) (2*b) dy Z = dot2 (2 * (a / 2 ^ n)) (2 * (b / 2 ^ n)) dlF low + gradDot A B n lvl a b dhs
  | 0, lvl, low, dy, a, b, _, _, _, hl, hdy => by
    have ea : a / 2 ^ 0 = a := by simp
    have eb : b / 2 ^ 0 = b := by simp
    rw [ea, eb] at hl ⊢
    refine ⟨low, dy, [], by simp [cots, sizes], hl, by simp [invLoopBackward], ?_⟩
    simp only [gradDot, add_zero]
  | n+1, lvl, low, dy, a, b, ha, hb, hd, hl, hdy => by
    obtain ⟨ha2, hb2, ha1, hb1, hdr⟩ := hd
    have e4a : 2 * a = 4 * (a / 2) := by omega
    have e4b : 2 * b = 4 * (b / 2) := by omega
    have epa : a / 2 ^ (n + 1) = (a / 2) / 2 ^ n := by rw [pow_succ, Nat.mul_comm, Nat.div_div_eq_div_mul]
    have epb : b / 2 ^ (n + 1) = (b / 2) / 2 ^ n := by rw [pow_succ, Nat.mul_comm, Nat.div_div_eq_div_mul]
    rw [epa, epb] at hl ⊢
    have hdy4 : Rect dy (4 * (a / 2)) (4 * (b / 2)) := by rw [← e4a, ← e4b]; exact hdy
    -- this level's backward pass does not depend on the low-pass input: name its results with any low-pass
    obtain ⟨dl, dh, _, hB0, _, rdl, _, _⟩ := inv2_level s g0o g1o g0 g1 hm0 hm0' hm1 hm1' dy
      (tab2 (2 * (a / 2)) (2 * (b / 2)) fun _ _ => (0 : R)) (a / 2) (b / 2) ha1 hb1 hdy4 (tab2_rect _ _ _) (A lvl) (B lvl)
    -- the coarser levels: forward from `low`, backward from `dl`
    obtain ⟨Z', dlF, dhs, hfold, rZ', hbw, hid'⟩ := invLoop_adjoint n (lvl + 1) low dl (a / 2) (b / 2) ha1 hb1 hdr hl rdl
    -- this level applied to what the coarser levels reconstructed
    obtain ⟨dl2, dh2, y, hB, hI, _, ry, hid⟩ := inv2_level s g0o g1o g0 g1 hm0 hm0' hm1 hm1' dy Z' (a / 2) (b / 2) ha1 hb1 hdy4 rZ' (A lvl) (B lvl)
    rw [hB0] at hB
    simp only [Option.some.injEq, Prod.mk.injEq] at hB
    obtain ⟨edl, edh⟩ := hB
    refine ⟨y, dlF, dh :: dhs, ?_, by rw [e4a, e4b]; exact ry, ?_, ?_⟩
    · simp only [cots, sizes, List.map_cons, List.zip_cons_cons, List.reverse_cons, List.foldlM_append, hfold, Option.bind_eq_bind,
        Option.bind_some, List.foldlM_cons, List.foldlM_nil]
      unfold dtcwtInvStep
      simp only [cropToHighs_id' Z' (a / 2) (b / 2) rZ' ha1]
      rw [hI]
      rfl
    · simp only [invLoopBackward, hB0, Option.bind_eq_bind, Option.bind_some, hbw]
    · rw [e4a, e4b, hid, ← edl, hid']
      simp only [gradDot]
      rw [edh]
      ring

include hg0o hg1o hs0 hs1 hm0 hm0' hm1 hm1' in
/-- **back-propagation through the whole inverse DTCWT is the adjoint of the transform** (one channel, symmetric mode, every input
requiring grad, dyadic pyramid: the reconstruction is `2a × 2b` with `Dy n a b`, `J = n + 1`): for every low-pass `low`, every
band-pass levels `A lvl k`, `B lvl k` and every cotangent `dy`,
`⟨DTCWTInverse(low, bands), dy⟩ = ⟨low, d low⟩ + Σ_levels Σ_k ⟨band, d band⟩` with the gradients the chain of hand-written backward
passes returns -/
theorem DTCWTInverse_backward_adjoint (n : Nat) (low dy : Img R) (a b : Nat) (ha : 1 ≤ a) (hb : 1 ≤ b) (hd : Dy n a b)
    (hl : Rect low (2 * (a / 2 ^ n)) (2 * (b / 2 ^ n))) (hdy : Rect dy (2*a) (2*b)) :
    ∃ y dlF dh1 dhs,
      DTCWTInverse s true (mkG g0o g1o g0 g1) ((a, b) :: sizes n a b) (a, b) (some low)
        (some (cot (A 0) (B 0) a b) :: (cots A B n 1 a b).map some) = some y ∧
      DTCWTInverseBackward s (mkG g0o g1o g0 g1) n dy = some (dlF, dh1 :: dhs) ∧
      dot2 (2*a) (2*b) dy y
        = dot2 (2 * (a / 2 ^ n)) (2 * (b / 2 ^ n)) dlF low + bdot a b dh1 (cot (A 0) (B 0) a b) + gradDot A B n 1 a b dhs := by
  -- level 1 backward: its low-pass gradient is the level-1 analysis low-pass of `dy`
  obtain ⟨dl, dh1, _, hB1, _, _⟩ := INV_J1_backward_adjoint s g0o g1o hg0o hg1o hs0 hs1 dy dy a b ha hb hdy hdy (A 0) (B 0)
  have edl : dl = (fwdJ1 s true (prepFilt g0o) (prepFilt g1o) false dy).1 := by
    have hB1' : INV_J1_backward s true (prepFilt g0o) (prepFilt g1o) true true dy = (some dl, some dh1) := hB1
    unfold INV_J1_backward at hB1'
    simp at hB1'
    exact hB1'.1.symm
  have rdl : Rect dl (2*a) (2*b) := by rw [edl]; exact (fwdJ1_shape s g0o g1o hg0o hg1o dy a b ha hb hdy).1
  -- the coarser levels
  obtain ⟨Z, dlF, dhs, hfold, rZ, hbw, hidL⟩ := invLoop_adjoint s g0o g1o g0 g1 hm0 hm0' hm1 hm1' A B n 1 low dl a b ha hb hd hl rdl
  -- level 1 forward on what they reconstructed
  obtain ⟨dl', dh1', y, hB1', hI, hid⟩ := INV_J1_backward_adjoint s g0o g1o hg0o hg1o hs0 hs1 dy Z a b ha hb hdy rZ (A 0) (B 0)
  have hpair : (some dl, some dh1) = (some dl', some dh1') := by
    have h1 : INV_J1_backward s true (prepFilt g0o) (prepFilt g1o) true true dy = (some dl, some dh1) := hB1
    have h2 : INV_J1_backward s true (prepFilt g0o) (prepFilt g1o) true true dy = (some dl', some dh1') := hB1'
    rw [← h1, h2]
  simp only [Prod.mk.injEq, Option.some.injEq] at hpair
  obtain ⟨e1, e2⟩ := hpair
  refine ⟨y, dlF, dh1, dhs, ?_, ?_, ?_⟩
  · rw [DTCWTInverse_cons, hfold]
    simp only [Option.bind_eq_bind, Option.bind_some]
    rw [cropToHighs_id' Z a b rZ ha]
    exact hI
  · unfold DTCWTInverseBackward
    have h1 : INV_J1_backward s true (mkG g0o g1o g0 g1).g0o (mkG g0o g1o g0 g1).g1o true true dy = (some dl, some dh1) := hB1
    rw [h1]
    simp only [hbw, Option.bind_eq_bind, Option.bind_some]
  · rw [hid, ← e1, ← e2, hidL]
    unfold bdot cot
    ring

end

/-- the size hypotheses are those of `C06J.DTCWT_backward_adjoint`: e.g. a 16 × 8 reconstruction with three levels -/
example : Dy 2 8 4 ∧ sizes 2 8 4 = [(4, 2), (2, 1)] := by
  refine ⟨⟨by decide, by decide, by decide, by decide, ⟨by decide, by decide, by decide, by decide, trivial⟩⟩, by decide⟩

end WV.C06K
