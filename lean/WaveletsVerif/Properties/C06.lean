/-
  C06 — DTCWT back-propagation is the exact adjoint: the pieces proved so far.

  * `q2c` and `c2q` are mutual adjoints (inner-product identity over every block
    image): this is why `FWD_*.backward` may use `c2q` where the forward used `q2c`
    and vice versa — no hypothesis on `s` is needed.
  * the backward passes are *by definition of the code* the opposite transform run
    with the same buffers (level 1) or with the two trees exchanged (level ≥ 2);
    that these equal the adjoint needs the table identities proved in C18
    (`h = reverse h` at level 1, `hb = reverse ha` at level ≥ 2) — the full adjoint
    theorem is proved below for level 1 (`fwdJ1_backward_adjoint`); level ≥ 2 stays with the exact
    correspondence and the Jacobian oracle over all 20 filter pairs.
-/
import WaveletsVerif.Lemmas.Basic
import WaveletsVerif.Properties.C19
import WaveletsVerif.Model.Dtcwt
import WaveletsVerif.Properties.C04
namespace WV.C06
open Finset WV WV.C19 WV.C04
variable {R : Type} [CommRing R]

theorem sum_range_two_mul (n : Nat) (F : Nat → R) :
    ∑ i ∈ range (2*n), F i = ∑ p ∈ range n, (F (2*p) + F (2*p+1)) := by
  induction n with
  | zero => simp
  | succ n ih =>
    have : 2 * (n+1) = 2*n + 1 + 1 := by ring
    rw [this, Finset.sum_range_succ, Finset.sum_range_succ, ih, Finset.sum_range_succ]
    ring

/-- inner product of two images of the same (tabulated) shape -/
def dot2 (H W : Nat) (x y : Img R) : R := ∑ i ∈ range H, ∑ j ∈ range W, get2 x i j * get2 y i j

/-- `⟨q2c y, (w1, w2)⟩ = ⟨y, c2q(w1, w2)⟩` for every `2h×2w` image `y` and every pair of complex
`h×w` sub-images: `q2c` and `c2q` are mutual adjoints. -/
theorem q2c_c2q_adjoint (s : R) (h w : Nat) (hh : 0 < h) (f : Nat → Nat → R)
    (a1 b1 a2 b2 : Nat → Nat → R) :
    let y := tab2 (2*h) (2*w) f
    let w1 : Cplx R := (tab2 h w a1, tab2 h w b1)
    let w2 : Cplx R := (tab2 h w a2, tab2 h w b2)
    dot2 h w (q2c s y).1.1 w1.1 + dot2 h w (q2c s y).1.2 w1.2 + dot2 h w (q2c s y).2.1 w2.1 + dot2 h w (q2c s y).2.2 w2.2
      = dot2 (2*h) (2*w) y (c2q s w1 w2) := by
  intro y w1 w2
  have hH : y.length = 2*h := by simp [y, tab2]
  have hW : y.width = 2*w := width_tab2 _ _ _ (by omega)
  have hl1 : (tab2 h w a1).length = h := by simp [tab2]
  have hw1 : (tab2 h w a1).width = w := width_tab2 _ _ _ hh
  unfold dot2 q2c c2q
  simp only [hH, hW, w1, w2, hl1, hw1]
  have e1 : 2 * h / 2 = h := by omega
  have e2 : 2 * w / 2 = w := by omega
  simp only [e1, e2]
  rw [sum_range_two_mul]
  simp only [← Finset.sum_add_distrib]
  apply Finset.sum_congr rfl; intro p hp
  have hp' : p < h := by simpa using hp
  rw [sum_range_two_mul]
  apply Finset.sum_congr rfl; intro q hq
  have hq' : q < w := by simpa using hq
  have m1 : (2*p) % 2 = 0 := by omega
  have m2 : (2*p+1) % 2 = 1 := by omega
  have m3 : (2*q) % 2 = 0 := by omega
  have m4 : (2*q+1) % 2 = 1 := by omega
  have d1 : (2*p) / 2 = p := by omega
  have d2 : (2*p+1) / 2 = p := by omega
  have d3 : (2*q) / 2 = q := by omega
  have d4 : (2*q+1) / 2 = q := by omega
  simp (disch := omega) only [get2_tab2, y, m1, m2, m3, m4, d1, d2, d3, d4, if_true, if_false, Nat.one_ne_zero]
  ring

/-- `FWD_J1.backward` is `inv_j1` with the *analysis* buffers; `FWD_J2PLUS.backward` is `inv_j2plus`
with the two trees exchanged — the statement of what the code does, on which the adjoint proof rests -/
theorem FWD_J1_backward_def (s : R) (sym : Bool) (h0 h1 : List R) (rc : Nat × Nat) (dl : Img R)
    (dh : Option (List (Cplx R))) :
    FWD_J1_backward s sym h0 h1 rc dl dh = invJ1 s sym h0 h1 rc (some dl) dh := rfl

theorem FWD_J2PLUS_backward_def (s : R) (h0a h1a h0b h1b : List R) (dl : Img R) (dh : Option (List (Cplx R))) :
    FWD_J2PLUS_backward s h0a h1a h0b h1b dl dh = invJ2 s h0b h1b h0a h1a (some dl) dh := rfl


/-! ## level 1: the backward pass is the adjoint -/

/-- symmetric tap function `c(d) = h[m − d]`, `d ∈ [−m, m]` -/
def tapc (h : List R) (d : Int) : R := getZ h (((h.length/2 : Nat):Int) - d)

theorem tapc_even (h : List R) (hodd : h.length % 2 = 1) (hs : Symm h) (d : Int) : tapc h (-d) = tapc h d := by
  unfold tapc
  set m : Int := ((h.length/2 : Nat):Int) with hm
  have hL : (h.length:Int) = 2*m + 1 := by omega
  by_cases hin : -m ≤ d ∧ d ≤ m
  · have h1 : m - -d = ((h.length - 1 - (m - d).toNat : Nat) : Int) := by omega
    have h2 : m - d = (((m - d).toNat : Nat) : Int) := by omega
    rw [h1, h2, ← getN_eq_getZ, ← getN_eq_getZ]
    exact hs _ (by omega)
  · have z1 : getZ h (m - -d) = 0 := by
      by_cases hneg : m - -d < 0
      · exact getZ_neg _ _ hneg
      · exact getZ_of_ge _ _ (by omega)
    have z2 : getZ h (m - d) = 0 := by
      by_cases hneg : m - d < 0
      · exact getZ_neg _ _ hneg
      · exact getZ_of_ge _ _ (by omega)
    rw [z1, z2]

/-- `colfilter` as a sum over the centred tap offsets -/
theorem colfilter_get_c (h x : List R) (hodd : h.length % 2 = 1) (i : Nat) (hi : i < x.length) :
    getN (Spec.colfilter h x) i
      = ∑ d ∈ Finset.Icc (-((h.length/2 : Nat):Int)) ((h.length/2 : Nat):Int), tapc h d * Spec.xt x ((i:Int) + d) := by
  rw [colfilter_get h x hodd i hi]
  set m : Int := ((h.length/2 : Nat):Int) with hm
  have hL : (h.length:Int) = 2*m + 1 := by omega
  -- reindex j = m - d
  apply Finset.sum_bij' (fun (j : Nat) _ => m - (j:Int)) (fun (d : Int) _ => (m - d).toNat)
  · intro j hj; have : j < h.length := by simpa using hj
    rw [Finset.mem_Icc]; omega
  · intro d hd; rw [Finset.mem_Icc] at hd; rw [Finset.mem_range]; omega
  · intro j hj; have : j < h.length := by simpa using hj
    show (m - (m - (j:Int))).toNat = j; omega
  · intro d hd; rw [Finset.mem_Icc] at hd; show m - (((m - d).toNat : Nat) : Int) = d; omega
  · intro j hj; have hj' : j < h.length := by simpa using hj
    unfold tapc
    have : m - (m - (j:Int)) = (j:Int) := by ring
    rw [this, ← getN_eq_getZ]
    congr 2; ring

theorem symIdx_eq_iff (n u k : Int) (hn : 0 < n) (hk0 : 0 ≤ k) (hk1 : k < n) :
    symIdx n u = k ↔ ((2*n) ∣ (u - k) ∨ (2*n) ∣ (u + 1 + k)) := by
  have ht0 := Int.emod_nonneg u (show (2*n) ≠ 0 by omega)
  have ht1 := Int.emod_lt_of_pos u (show 0 < 2*n by omega)
  have hdm := Int.emod_add_mul_ediv u (2*n)
  constructor
  · intro h
    unfold symIdx at h
    simp only at h
    by_cases hc : u % (2*n) < n
    · rw [if_pos hc] at h
      left; exact ⟨u / (2*n), by rw [← h]; linarith⟩
    · rw [if_neg hc] at h
      right; exact ⟨u / (2*n) + 1, by rw [← h]; linarith⟩
  · rintro (⟨q, hq⟩ | ⟨q, hq⟩)
    · have hu : u = k + 2*n*q := by linarith
      have : u % (2*n) = k := by
        rw [hu, Int.add_mul_emod_self_left]; exact Int.emod_eq_of_lt hk0 (by omega)
      unfold symIdx; simp only [this, hk1, if_true]
    · have hu : u = (2*n - 1 - k) + 2*n*(q-1) := by linarith
      have : u % (2*n) = 2*n - 1 - k := by
        rw [hu, Int.add_mul_emod_self_left]; exact Int.emod_eq_of_lt (by omega) (by omega)
      unfold symIdx; simp only [this]
      rw [if_neg (by omega)]; omega

theorem not_both (n u k : Int) (hn : 0 < n) : ¬ ((2*n) ∣ (u - k) ∧ (2*n) ∣ (u + 1 + k)) := by
  rintro ⟨⟨a, ha⟩, ⟨b, hb⟩⟩
  have : 2 * k + 1 = 2 * n * (b - a) := by linarith
  have h2 : (2 * k + 1) % 2 = 1 := by omega
  have h3 : (2 * n * (b - a)) % 2 = 0 := by
    rw [mul_assoc]; exact Int.mul_emod_right 2 _
  omega


/-- matrix entry of `colfilter h` on columns of length `n`: `K(i,k) = Σ_d c(d)·[sym(i+d) = k]` -/
def Kf (h : List R) (n : Nat) (i k : Nat) : R :=
  ∑ d ∈ Finset.Icc (-((h.length/2 : Nat):Int)) ((h.length/2 : Nat):Int),
    tapc h d * (if symIdx (n:Int) ((i:Int) + d) = (k:Int) then 1 else 0)

theorem sum_Icc_neg (m : Int) (f : Int → R) : ∑ d ∈ Finset.Icc (-m) m, f d = ∑ d ∈ Finset.Icc (-m) m, f (-d) := by
  apply Finset.sum_bij' (fun d _ => -d) (fun d _ => -d) <;>
    first
    | (intro d hd; rw [Finset.mem_Icc] at hd ⊢; omega)
    | (intro d hd; rw [Finset.mem_Icc] at hd; simp only [Finset.mem_Icc]; omega)
    | (intro d _; simp)

/-- the matrix of `colfilter` with a symmetric odd-length filter is symmetric -/
theorem Kf_symm (h : List R) (hodd : h.length % 2 = 1) (hs : Symm h) (n i k : Nat) (hi : i < n) (hk : k < n) :
    Kf h n i k = Kf h n k i := by
  have hn : (0:Int) < n := by omega
  have split : ∀ (a b : Nat), a < n → b < n → Kf h n a b
      = (∑ d ∈ Finset.Icc (-((h.length/2 : Nat):Int)) ((h.length/2 : Nat):Int), tapc h d * (if (2*(n:Int)) ∣ ((a:Int) + d - b) then 1 else 0))
      + (∑ d ∈ Finset.Icc (-((h.length/2 : Nat):Int)) ((h.length/2 : Nat):Int), tapc h d * (if (2*(n:Int)) ∣ ((a:Int) + d + 1 + b) then 1 else 0)) := by
    intro a b ha hb
    unfold Kf
    rw [← Finset.sum_add_distrib]
    apply Finset.sum_congr rfl; intro d _
    rw [← mul_add]
    congr 1
    have hiff := symIdx_eq_iff (n:Int) ((a:Int) + d) (b:Int) hn (by omega) (by omega)
    have hnb := not_both (n:Int) ((a:Int) + d) (b:Int) hn
    by_cases h1 : (2*(n:Int)) ∣ ((a:Int) + d - b)
    · have h2 : ¬ (2*(n:Int)) ∣ ((a:Int) + d + 1 + b) := fun h2 => hnb ⟨h1, h2⟩
      rw [if_pos (hiff.mpr (Or.inl h1)), if_pos h1, if_neg h2]; ring
    · by_cases h2 : (2*(n:Int)) ∣ ((a:Int) + d + 1 + b)
      · rw [if_pos (hiff.mpr (Or.inr h2)), if_neg h1, if_pos h2]; ring
      · rw [if_neg (fun hc => (hiff.mp hc).elim h1 h2), if_neg h1, if_neg h2]; ring
  rw [split i k hi hk, split k i hk hi]
  congr 1
  · rw [sum_Icc_neg _ (fun d => tapc h d * (if (2*(n:Int)) ∣ ((k:Int) + d - i) then 1 else 0))]
    apply Finset.sum_congr rfl; intro d _
    rw [tapc_even h hodd hs]
    congr 1
    have e : (k:Int) + -d - i = -((i:Int) + d - k) := by ring
    rw [e]
    by_cases h1 : (2*(n:Int)) ∣ ((i:Int) + d - k)
    · rw [if_pos h1, if_pos ((dvd_neg).mpr h1)]
    · rw [if_neg h1, if_neg (fun hc => h1 ((dvd_neg).mp hc))]
  · apply Finset.sum_congr rfl; intro d _
    have e : (i:Int) + d + 1 + k = (k:Int) + d + 1 + i := by ring
    rw [e]

/-- **`colfilter` with a symmetric odd-length filter is self-adjoint** on columns of any length:
`⟨colfilter h x, y⟩ = ⟨x, colfilter h y⟩` — the reason the level-1 backward pass may re-use the forward filters -/
theorem colfilter_self_adjoint (h x y : List R) (hodd : h.length % 2 = 1) (hs : Symm h) (n : Nat) (hn : 1 ≤ n)
    (hx : x.length = n) (hy : y.length = n) :
    ∑ i ∈ range n, getN (Spec.colfilter h x) i * getN y i = ∑ i ∈ range n, getN x i * getN (Spec.colfilter h y) i := by
  have expand : ∀ (z : List R), z.length = n → ∀ i < n,
      getN (Spec.colfilter h z) i = ∑ k ∈ range n, getN z k * Kf h n i k := by
    intro z hz i hi
    rw [colfilter_get_c h z hodd i (by omega)]
    unfold Kf
    simp only [Finset.mul_sum]
    rw [Finset.sum_comm]
    apply Finset.sum_congr rfl; intro d _
    unfold Spec.xt
    rw [getZ_eq_sum, hz, Finset.mul_sum]
    apply Finset.sum_congr rfl; intro k _
    by_cases hc : (k:Int) = symIdx (n:Int) ((i:Int) + d)
    · rw [if_pos hc, if_pos hc.symm]; ring
    · rw [if_neg hc, if_neg (fun h' => hc h'.symm)]; ring
  have l : ∀ i ∈ range n, getN (Spec.colfilter h x) i * getN y i = ∑ k ∈ range n, getN x k * getN y i * Kf h n i k := by
    intro i hi
    rw [expand x hx i (by simpa using hi), Finset.sum_mul]
    apply Finset.sum_congr rfl; intro k _; ring
  have r : ∀ k ∈ range n, getN x k * getN (Spec.colfilter h y) k = ∑ i ∈ range n, getN x k * getN y i * Kf h n i k := by
    intro k hk
    have hk' : k < n := by simpa using hk
    rw [expand y hy k hk', Finset.mul_sum]
    apply Finset.sum_congr rfl; intro i hi
    rw [Kf_symm h hodd hs n k i hk' (by simpa using hi)]; ring
  rw [Finset.sum_congr rfl l, Finset.sum_congr rfl r, Finset.sum_comm]


/-! ### images -/

theorem dot2_tab2 (H W : Nat) (f g : Nat → Nat → R) :
    dot2 H W (tab2 H W f) (tab2 H W g) = ∑ i ∈ range H, ∑ j ∈ range W, f i j * g i j := by
  unfold dot2
  apply Finset.sum_congr rfl; intro i hi
  apply Finset.sum_congr rfl; intro j hj
  rw [get2_tab2 _ _ _ _ _ (by simpa using hi) (by simpa using hj), get2_tab2 _ _ _ _ _ (by simpa using hi) (by simpa using hj)]

theorem dot2_congr_right (H W : Nat) (x y : Img R) (g : Nat → Nat → R) (h : ∀ i < H, ∀ j < W, get2 y i j = g i j) :
    dot2 H W x y = ∑ i ∈ range H, ∑ j ∈ range W, get2 x i j * g i j := by
  unfold dot2
  apply Finset.sum_congr rfl; intro i hi
  apply Finset.sum_congr rfl; intro j hj
  rw [h i (by simpa using hi) j (by simpa using hj)]

/-- column filtering with a symmetric filter is self-adjoint on images -/
theorem alongH_self_adjoint (h : List R) (hodd : h.length % 2 = 1) (hs : Symm h) (x y : Img R) (H W : Nat)
    (hx : Rect x H W) (hy : Rect y H W) (hH : 1 ≤ H) (hW : 1 ≤ W) :
    dot2 H W (alongH (Cf h) x) y = dot2 H W x (alongH (Cf h) y) := by
  have hlen : ∀ c : List R, c.length = H → (Cf h c).length = H := fun c hc => by rw [colfilter_length h c hodd, hc]
  rw [alongH_get (Cf h) x H W hx hH hW hlen, alongH_get (Cf h) y H W hy hH hW hlen]
  conv_lhs => rw [rect_eq_tab2 y H W hy]
  conv_rhs => rw [rect_eq_tab2 x H W hx]
  rw [dot2_tab2, dot2_tab2, Finset.sum_comm]
  conv_rhs => rw [Finset.sum_comm]
  apply Finset.sum_congr rfl; intro j hj
  have hj' : j < W := by simpa using hj
  have hcx : (col x j).length = H := by simp [col, hx.1]
  have hcy : (col y j).length = H := by simp [col, hy.1]
  have := colfilter_self_adjoint h (col x j) (col y j) hodd hs H hH hcx hcy
  have e1 : ∀ i ∈ range H, get2 y i j = getN (col y j) i := by
    intro i hi; unfold col; rw [getN_tab, hy.1, if_pos (by simpa using hi)]
  have e2 : ∀ i ∈ range H, get2 x i j = getN (col x j) i := by
    intro i hi; unfold col; rw [getN_tab, hx.1, if_pos (by simpa using hi)]
  calc ∑ i ∈ range H, getN (Cf h (col x j)) i * get2 y i j
      = ∑ i ∈ range H, getN (Cf h (col x j)) i * getN (col y j) i := by
        apply Finset.sum_congr rfl; intro i hi; rw [e1 i hi]
    _ = ∑ i ∈ range H, getN (col x j) i * getN (Cf h (col y j)) i := this
    _ = ∑ i ∈ range H, get2 x i j * getN (Cf h (col y j)) i := by
        apply Finset.sum_congr rfl; intro i hi; rw [e2 i hi]

/-- row filtering with a symmetric filter is self-adjoint on images -/
theorem alongW_self_adjoint (h : List R) (hodd : h.length % 2 = 1) (hs : Symm h) (x y : Img R) (H W : Nat)
    (hx : Rect x H W) (hy : Rect y H W) (hW : 1 ≤ W) :
    dot2 H W (alongW (Cf h) x) y = dot2 H W x (alongW (Cf h) y) := by
  have hlen : ∀ c : List R, c.length = W → (Cf h c).length = W := fun c hc => by rw [colfilter_length h c hodd, hc]
  rw [alongW_get (Cf h) x H W hx hlen, alongW_get (Cf h) y H W hy hlen]
  conv_lhs => rw [rect_eq_tab2 y H W hy]
  conv_rhs => rw [rect_eq_tab2 x H W hx]
  rw [dot2_tab2, dot2_tab2]
  apply Finset.sum_congr rfl; intro i hi
  have hi' : i < H := by simpa using hi
  have hrow : ∀ (z : Img R), Rect z H W → (z.getD i []).length = W := by
    intro z hz
    apply hz.2
    rw [List.getD_eq_getElem?_getD, List.getElem?_eq_getElem (by rw [hz.1]; exact hi')]; simp
  have := colfilter_self_adjoint h (x.getD i []) (y.getD i []) hodd hs W hW (hrow x hx) (hrow y hy)
  exact this


theorem dot2_iadd (H W : Nat) (x a b : Img R) (ha : Rect a H W) (hb : Rect b H W) :
    dot2 H W x (iadd a b) = dot2 H W x a + dot2 H W x b := by
  rw [rect_eq_tab2 a H W ha, rect_eq_tab2 b H W hb, iadd_tab2]
  unfold dot2
  rw [← Finset.sum_add_distrib]
  apply Finset.sum_congr rfl; intro i hi
  rw [← Finset.sum_add_distrib]
  apply Finset.sum_congr rfl; intro j hj
  have hi' : i < H := by simpa using hi
  have hj' : j < W := by simpa using hj
  rw [get2_tab2 _ _ _ _ _ hi' hj', get2_tab2 _ _ _ _ _ hi' hj', get2_tab2 _ _ _ _ _ hi' hj']
  ring

theorem iadd_rect (H W : Nat) (a b : Img R) (ha : Rect a H W) (hb : Rect b H W) : Rect (iadd a b) H W := by
  rw [rect_eq_tab2 a H W ha, rect_eq_tab2 b H W hb, iadd_tab2]
  exact tab2_rect H W _

theorem c2q_rect (s : R) (H W : Nat) (hH : 1 ≤ H) (a1 b1 a2 b2 : Nat → Nat → R) :
    Rect (c2q s (tab2 H W a1, tab2 H W b1) (tab2 H W a2, tab2 H W b2)) (2*H) (2*W) := by
  unfold c2q
  simp only []
  have h1 : (tab2 H W a1).length = H := by simp [tab2]
  have h2 : (tab2 H W a1).width = W := width_tab2 _ _ _ (by omega)
  rw [h1, h2]
  exact tab2_rect _ _ _

theorem dot2_comm (H W : Nat) (x y : Img R) : dot2 H W x y = dot2 H W y x := by
  unfold dot2
  apply Finset.sum_congr rfl; intro i _
  apply Finset.sum_congr rfl; intro j _
  ring

/-- **`FWD_J1.backward` is the adjoint of `fwd_j1`** (implementation models, symmetric mode): for symmetric
odd-length level-1 filters, every even-sized image `x`, every low-pass cotangent `dl` and every six complex
band cotangents, `⟨fwd_j1 x, (dl, dh)⟩ = ⟨x, backward(dl, dh)⟩`. -/
theorem fwdJ1_backward_adjoint_rect (s : R) (h0 h1 : List R) (hh0 : h0.length % 2 = 1) (hh1 : h1.length % 2 = 1)
    (hs0 : Symm h0) (hs1 : Symm h1) (x dl : Img R) (H W : Nat) (hH : 1 ≤ H) (hW : 1 ≤ W)
    (hx : Rect x (2*H) (2*W)) (hdl : Rect dl (2*H) (2*W)) (a b : Nat → Nat → Nat → R) :
    let dh : List (Cplx R) := (List.range 6).map fun k => (tab2 H W (a k), tab2 H W (b k))
    let F := fwdJ1 s true (prepFilt h0) (prepFilt h1) false x
    ∃ hs y, F.2 = some hs ∧ FWD_J1_backward s true (prepFilt h0) (prepFilt h1) (H, W) dl (some dh) = some y ∧ Rect y (2*H) (2*W) ∧
      dot2 (2*H) (2*W) F.1 dl
        + ∑ k ∈ range 6, (dot2 H W (hs.getD k ([], [])).1 (dh.getD k ([], [])).1
                          + dot2 H W (hs.getD k ([], [])).2 (dh.getD k ([], [])).2)
        = dot2 (2*H) (2*W) x y := by
  intro dh F
  have L0 : 1 ≤ h0.length := by omega
  have L1 : 1 ≤ h1.length := by omega
  have h2H : 1 ≤ 2 * H := by omega
  have h2W : 1 ≤ 2 * W := by omega
  have eLo : rowfilter true (prepFilt h0) x = alongW (Cf h0) x := rowfilter_model h0 L0 x (2*W) h2W hx.2
  have eHi : rowfilter true (prepFilt h1) x = alongW (Cf h1) x := rowfilter_model h1 L1 x (2*W) h2W hx.2
  have rLo := alongW_rect h0 hh0 x _ _ hx
  have rHi := alongW_rect h1 hh1 x _ _ hx
  set lo := alongW (Cf h0) x with hlo
  set hi := alongW (Cf h1) x with hhi
  have ell : colfilter true (prepFilt h0) lo = alongH (Cf h0) lo := colfilter_model h0 L0 lo (by rw [rLo.1]; exact h2H)
  have elh : colfilter true (prepFilt h1) lo = alongH (Cf h1) lo := colfilter_model h1 L1 lo (by rw [rLo.1]; exact h2H)
  have ehl : colfilter true (prepFilt h0) hi = alongH (Cf h0) hi := colfilter_model h0 L0 hi (by rw [rHi.1]; exact h2H)
  have ehh : colfilter true (prepFilt h1) hi = alongH (Cf h1) hi := colfilter_model h1 L1 hi (by rw [rHi.1]; exact h2H)
  have rll := alongH_rect h0 hh0 lo _ _ rLo h2H h2W
  have rlh := alongH_rect h1 hh1 lo _ _ rLo h2H h2W
  have rhl := alongH_rect h0 hh0 hi _ _ rHi h2H h2W
  have rhh := alongH_rect h1 hh1 hi _ _ rHi h2H h2W
  set ll := alongH (Cf h0) lo with hll
  set lh := alongH (Cf h1) lo with hlh
  set hl := alongH (Cf h0) hi with hhl
  set hh := alongH (Cf h1) hi with hhh
  have hF : F = (ll, some (highsToOrientations s lh hl hh)) := by
    show fwdJ1 s true (prepFilt h0) (prepFilt h1) false x = _
    unfold fwdJ1
    simp only [Bool.false_eq_true, if_false, eLo, eHi, ell, elh, ehl, ehh]
  -- the synthesis side
  set lh' := c2q s (tab2 H W (a 0), tab2 H W (b 0)) (tab2 H W (a 5), tab2 H W (b 5)) with hlh'
  set hl' := c2q s (tab2 H W (a 2), tab2 H W (b 2)) (tab2 H W (a 3), tab2 H W (b 3)) with hhl'
  set hh' := c2q s (tab2 H W (a 1), tab2 H W (b 1)) (tab2 H W (a 4), tab2 H W (b 4)) with hhh'
  have r1 : Rect lh' (2*H) (2*W) := c2q_rect s H W hH _ _ _ _
  have r2 : Rect hl' (2*H) (2*W) := c2q_rect s H W hH _ _ _ _
  have r3 : Rect hh' (2*H) (2*W) := c2q_rect s H W hH _ _ _ _
  have hoth : orientationsToHighs s dh = (lh', hl', hh') := by
    unfold orientationsToHighs
    simp [dh, List.range, List.range.loop, hlh', hhl', hhh']
  have c1 : colfilter true (prepFilt h1) hh' = alongH (Cf h1) hh' := colfilter_model h1 L1 _ (by rw [r3.1]; exact h2H)
  have c2 : colfilter true (prepFilt h0) hl' = alongH (Cf h0) hl' := colfilter_model h0 L0 _ (by rw [r2.1]; exact h2H)
  have c3 : colfilter true (prepFilt h1) lh' = alongH (Cf h1) lh' := colfilter_model h1 L1 _ (by rw [r1.1]; exact h2H)
  have c4 : colfilter true (prepFilt h0) dl = alongH (Cf h0) dl := colfilter_model h0 L0 _ (by rw [hdl.1]; exact h2H)
  have q1 := alongH_rect h1 hh1 hh' _ _ r3 h2H h2W
  have q2 := alongH_rect h0 hh0 hl' _ _ r2 h2H h2W
  have q3 := alongH_rect h1 hh1 lh' _ _ r1 h2H h2W
  have q4 := alongH_rect h0 hh0 dl _ _ hdl h2H h2W
  set HI := iadd (alongH (Cf h1) hh') (alongH (Cf h0) hl') with hHI
  set LO := iadd (alongH (Cf h1) lh') (alongH (Cf h0) dl) with hLO
  have rHI : Rect HI (2*H) (2*W) := iadd_rect _ _ _ _ q1 q2
  have rLO : Rect LO (2*H) (2*W) := iadd_rect _ _ _ _ q3 q4
  have hB : FWD_J1_backward s true (prepFilt h0) (prepFilt h1) (H, W) dl (some dh)
      = some (iadd (alongW (Cf h1) HI) (alongW (Cf h0) LO)) := by
    unfold FWD_J1_backward
    simp only [invJ1]
    rw [hoth]
    simp only []
    rw [cropToHighs_id dl H W hdl.1 (rect_width _ _ _ hdl h2H), c1, c2, c3, c4]
    have hshape : ¬ ((alongH (Cf h1) lh').length ≠ (alongH (Cf h0) dl).length ∨
        (alongH (Cf h1) lh').width ≠ (alongH (Cf h0) dl).width) := by
      rw [q3.1, q4.1, rect_width _ _ _ q3 h2H, rect_width _ _ _ q4 h2H]; simp
    rw [if_neg hshape]
    rw [rowfilter_model h1 L1 HI (2*W) h2W rHI.2, rowfilter_model h0 L0 LO (2*W) h2W rLO.2]
  have wHI := alongW_rect h1 hh1 HI _ _ rHI
  have wLO := alongW_rect h0 hh0 LO _ _ rLO
  refine ⟨highsToOrientations s lh hl hh, _, by rw [hF], hB, iadd_rect _ _ _ _ wHI wLO, ?_⟩
  rw [hF]
  simp only []
  -- right-hand side: move every filter across the inner product
  rw [dot2_iadd _ _ x _ _ wHI wLO]
  rw [dot2_comm _ _ x (alongW (Cf h1) HI), alongW_self_adjoint h1 hh1 hs1 HI x _ _ rHI hx h2W, dot2_comm _ _ HI, ← hhi]
  rw [dot2_comm _ _ x (alongW (Cf h0) LO), alongW_self_adjoint h0 hh0 hs0 LO x _ _ rLO hx h2W, dot2_comm _ _ LO, ← hlo]
  rw [dot2_iadd _ _ hi _ _ q1 q2, dot2_iadd _ _ lo _ _ q3 q4]
  rw [dot2_comm _ _ hi (alongH (Cf h1) hh'), alongH_self_adjoint h1 hh1 hs1 hh' hi _ _ r3 rHi h2H h2W, dot2_comm _ _ hh', ← hhh]
  rw [dot2_comm _ _ hi (alongH (Cf h0) hl'), alongH_self_adjoint h0 hh0 hs0 hl' hi _ _ r2 rHi h2H h2W, dot2_comm _ _ hl', ← hhl]
  rw [dot2_comm _ _ lo (alongH (Cf h1) lh'), alongH_self_adjoint h1 hh1 hs1 lh' lo _ _ r1 rLo h2H h2W, dot2_comm _ _ lh', ← hlh]
  rw [dot2_comm _ _ lo (alongH (Cf h0) dl), alongH_self_adjoint h0 hh0 hs0 dl lo _ _ hdl rLo h2H h2W, dot2_comm _ _ dl, ← hll]
  -- left-hand side: the six band pairs through q2c / c2q
  have k1 := q2c_c2q_adjoint s H W (by omega) (get2 lh) (a 0) (b 0) (a 5) (b 5)
  have k2 := q2c_c2q_adjoint s H W (by omega) (get2 hl) (a 2) (b 2) (a 3) (b 3)
  have k3 := q2c_c2q_adjoint s H W (by omega) (get2 hh) (a 1) (b 1) (a 4) (b 4)
  simp only [] at k1 k2 k3
  rw [← rect_eq_tab2 lh _ _ rlh] at k1
  rw [← rect_eq_tab2 hl _ _ rhl] at k2
  rw [← rect_eq_tab2 hh _ _ rhh] at k3
  rw [← hlh'] at k1; rw [← hhl'] at k2; rw [← hhh'] at k3
  rw [← k1, ← k2, ← k3]
  simp [highsToOrientations, dh, Finset.sum_range_succ, List.range, List.range.loop]
  ring



theorem fwdJ1_backward_adjoint (s : R) (h0 h1 : List R) (hh0 : h0.length % 2 = 1) (hh1 : h1.length % 2 = 1)
    (hs0 : Symm h0) (hs1 : Symm h1) (x dl : Img R) (H W : Nat) (hH : 1 ≤ H) (hW : 1 ≤ W)
    (hx : Rect x (2*H) (2*W)) (hdl : Rect dl (2*H) (2*W)) (a b : Nat → Nat → Nat → R) :
    let dh : List (Cplx R) := (List.range 6).map fun k => (tab2 H W (a k), tab2 H W (b k))
    let F := fwdJ1 s true (prepFilt h0) (prepFilt h1) false x
    ∃ hs y, F.2 = some hs ∧ FWD_J1_backward s true (prepFilt h0) (prepFilt h1) (H, W) dl (some dh) = some y ∧
      dot2 (2*H) (2*W) F.1 dl
        + ∑ k ∈ range 6, (dot2 H W (hs.getD k ([], [])).1 (dh.getD k ([], [])).1
                          + dot2 H W (hs.getD k ([], [])).2 (dh.getD k ([], [])).2)
        = dot2 (2*H) (2*W) x y := by
  intro dh F
  obtain ⟨hs, y, h1, h2, _, h3⟩ := fwdJ1_backward_adjoint_rect s h0 h1 hh0 hh1 hs0 hs1 x dl H W hH hW hx hdl a b
  exact ⟨hs, y, h1, h2, h3⟩

/-- **`INV_J1.backward` is the adjoint of `inv_j1`** (both inputs requiring grad): it runs `fwd_j1` with the
synthesis filters, and `⟨inv_j1(ll, highs), dy⟩ = ⟨(ll, highs), fwd_j1_g(dy)⟩` is `fwdJ1_backward_adjoint` read
from right to left with the (symmetric, odd-length) synthesis filters in place of the analysis filters. -/
theorem INV_J1_backward_adjoint (s : R) (g0 g1 : List R) (hg0 : g0.length % 2 = 1) (hg1 : g1.length % 2 = 1)
    (hs0 : Symm g0) (hs1 : Symm g1) (dy ll : Img R) (H W : Nat) (hH : 1 ≤ H) (hW : 1 ≤ W)
    (hdy : Rect dy (2*H) (2*W)) (hll : Rect ll (2*H) (2*W)) (a b : Nat → Nat → Nat → R) :
    let highs : List (Cplx R) := (List.range 6).map fun k => (tab2 H W (a k), tab2 H W (b k))
    let B := INV_J1_backward s true (prepFilt g0) (prepFilt g1) true true dy
    ∃ dl dh y, B = (some dl, some dh) ∧ invJ1 s true (prepFilt g0) (prepFilt g1) (H, W) (some ll) (some highs) = some y ∧
      dot2 (2*H) (2*W) dy y
        = dot2 (2*H) (2*W) dl ll
          + ∑ k ∈ range 6, (dot2 H W (dh.getD k ([], [])).1 (highs.getD k ([], [])).1
                            + dot2 H W (dh.getD k ([], [])).2 (highs.getD k ([], [])).2) := by
  intro highs B
  obtain ⟨hs, y, h1, h2, h3⟩ := fwdJ1_backward_adjoint s g0 g1 hg0 hg1 hs0 hs1 dy ll H W hH hW hdy hll a b
  refine ⟨(fwdJ1 s true (prepFilt g0) (prepFilt g1) false dy).1, hs, y, ?_, ?_, h3.symm⟩
  · show INV_J1_backward s true (prepFilt g0) (prepFilt g1) true true dy = _
    unfold INV_J1_backward
    simp [h1]
  · exact h2

end WV.C06
