/-
  C06 — DTCWT back-propagation is the exact adjoint: the pieces proved so far.

  * `q2c` and `c2q` are mutual adjoints (inner-product identity over every block
    image): this is why `FWD_*.backward` may use `c2q` where the forward used `q2c`
    and vice versa — no hypothesis on `s` is needed.
  * the backward passes are *by definition of the code* the opposite transform run
    with the same buffers (level 1) or with the two trees exchanged (level ≥ 2);
    that these equal the adjoint needs the table identities proved in C18
    (`h = reverse h` at level 1, `hb = reverse ha` at level ≥ 2) — the full adjoint
    theorem is staged (DESIGN.md); the exact correspondence and the Jacobian oracle
    cover all 20 filter pairs meanwhile.
-/
import WaveletsVerif.Lemmas.Basic
import WaveletsVerif.Properties.C19
import WaveletsVerif.Model.Dtcwt
namespace WV.C06
open Finset WV WV.C19
variable {R : Type} [CommRing R]

theorem sum_range_two_mul (n : Nat) (F : Nat → R) :
    ∑ i ∈ range (2*n), F i = ∑ p ∈ range n, (F (2*p) + F (2*p+1)) := by
  induction n with
  | zero => simp
  | succ n ih =>
    have : 2 * (n+1) = 2*n + 1 + 1 := by ring
    rw [this, Finset.sum_range_succ, Finset.sum_range_succ, ih, Finset.sum_range_succ]
    ring

/-- inner product of two images of the same (tabulated) shape -/
def dot2 (H W : Nat) (x y : Img R) : R := ∑ i ∈ range H, ∑ j ∈ range W, get2 x i j * get2 y i j

/-- `⟨q2c y, (w1, w2)⟩ = ⟨y, c2q(w1, w2)⟩` for every `2h×2w` image `y` and every pair of complex
`h×w` sub-images: `q2c` and `c2q` are mutual adjoints. -/
theorem q2c_c2q_adjoint (s : R) (h w : Nat) (hh : 0 < h) (f : Nat → Nat → R)
    (a1 b1 a2 b2 : Nat → Nat → R) :
    let y := tab2 (2*h) (2*w) f
    let w1 : Cplx R := (tab2 h w a1, tab2 h w b1)
    let w2 : Cplx R := (tab2 h w a2, tab2 h w b2)
    dot2 h w (q2c s y).1.1 w1.1 + dot2 h w (q2c s y).1.2 w1.2 + dot2 h w (q2c s y).2.1 w2.1 + dot2 h w (q2c s y).2.2 w2.2
      = dot2 (2*h) (2*w) y (c2q s w1 w2) := by
  intro y w1 w2
  have hH : y.length = 2*h := by simp [y, tab2]
  have hW : y.width = 2*w := width_tab2 _ _ _ (by omega)
  have hl1 : (tab2 h w a1).length = h := by simp [tab2]
  have hw1 : (tab2 h w a1).width = w := width_tab2 _ _ _ hh
  unfold dot2 q2c c2q
  simp only [hH, hW, w1, w2, hl1, hw1]
  have e1 : 2 * h / 2 = h := by omega
  have e2 : 2 * w / 2 = w := by omega
  simp only [e1, e2]
  rw [sum_range_two_mul]
  simp only [← Finset.sum_add_distrib]
  apply Finset.sum_congr rfl; intro p hp
  have hp' : p < h := by simpa using hp
  rw [sum_range_two_mul]
  apply Finset.sum_congr rfl; intro q hq
  have hq' : q < w := by simpa using hq
  have m1 : (2*p) % 2 = 0 := by omega
  have m2 : (2*p+1) % 2 = 1 := by omega
  have m3 : (2*q) % 2 = 0 := by omega
  have m4 : (2*q+1) % 2 = 1 := by omega
  have d1 : (2*p) / 2 = p := by omega
  have d2 : (2*p+1) / 2 = p := by omega
  have d3 : (2*q) / 2 = q := by omega
  have d4 : (2*q+1) / 2 = q := by omega
  simp (disch := omega) only [get2_tab2, y, m1, m2, m3, m4, d1, d2, d3, d4, if_true, if_false, Nat.one_ne_zero]
  ring

/-- `FWD_J1.backward` is `inv_j1` with the *analysis* buffers; `FWD_J2PLUS.backward` is `inv_j2plus`
with the two trees exchanged — the statement of what the code does, on which the adjoint proof rests -/
theorem FWD_J1_backward_def (s : R) (sym : Bool) (h0 h1 : List R) (rc : Nat × Nat) (dl : Img R)
    (dh : Option (List (Cplx R))) :
    FWD_J1_backward s sym h0 h1 rc dl dh = invJ1 s sym h0 h1 rc (some dl) dh := rfl

theorem FWD_J2PLUS_backward_def (s : R) (h0a h1a h0b h1b : List R) (dl : Img R) (dh : Option (List (Cplx R))) :
    FWD_J2PLUS_backward s h0a h1a h0b h1b dl dh = invJ2 s h0b h1b h0a h1a (some dl) dh := rfl

end WV.C06
