/-
  C12 — the axis tables `get_dimensions5/6` (translated from the source on every
  run into `Gen/Dims.lean`) point at the image rows/columns and at the
  orientation / real-imaginary axes for ALL integer `(o_dim, ri_dim)`, negative
  aliases included; the layout is a permutation of the canonical axes.
-/
import WaveletsVerif.Gen.Dims
import WaveletsVerif.Model.Dtcwt
import Mathlib.Tactic.IntervalCases
namespace WV.C12
open WV WV.Gen

/-- the 6-D layout the forward transform produces for the (already reduced) pair `(o, ri)`:
`torch.stack(bands, dim=o5)` then `torch.stack((re, im), dim=ri)` -/
def layout6 (o ri : Nat) : List Ax := layoutOf (if ri < o then o - 1 else o) ri

/-- the 5-D layout seen inside the autograd Functions after `unbind(ri_dim)` -/
def layout5 (o ri : Nat) : List Ax := insertAt [.N, .C, .H, .W] (if ri < o then o - 1 else o) .O

/-- `get_dimensions6` is right for every integer pair with distinct residues mod 6:
the orientation axis sits at `o_dim % 6`, the real/imaginary axis at `ri_dim % 6`, and the
returned `h_dim`, `w_dim` are the positions of the image rows and columns. -/
theorem dims6_correct (o ri : Int) (hne : o % 6 ≠ ri % 6) :
    ∃ o5 r h w, get_dimensions6 o ri = some (o5, r, h, w) ∧ r = ri % 6 ∧
      (layout6 (o % 6).toNat (ri % 6).toNat)[(o % 6).toNat]? = some Ax.O ∧
      (layout6 (o % 6).toNat (ri % 6).toNat)[(ri % 6).toNat]? = some Ax.RI ∧
      (layout6 (o % 6).toNat (ri % 6).toNat)[h.toNat]? = some Ax.H ∧
      (layout6 (o % 6).toNat (ri % 6).toNat)[w.toNat]? = some Ax.W ∧ 0 ≤ h ∧ 0 ≤ w := by
  have h1 := Int.emod_nonneg o (by norm_num : (6:Int) ≠ 0)
  have h2 := Int.emod_lt_of_pos o (by norm_num : (0:Int) < 6)
  have h3 := Int.emod_nonneg ri (by norm_num : (6:Int) ≠ 0)
  have h4 := Int.emod_lt_of_pos ri (by norm_num : (0:Int) < 6)
  unfold get_dimensions6
  generalize o % 6 = a at *
  generalize ri % 6 = b at *
  interval_cases a <;> interval_cases b <;> first | (exact absurd rfl hne) | (refine ⟨_, _, _, _, rfl, ?_⟩; decide)

/-- `get_dimensions5`: after the real/imaginary axis has been removed the orientation axis is
at the returned `o_dim` and `h_dim`, `w_dim` are the rows and columns. -/
theorem dims5_correct (o ri : Int) (hne : o % 6 ≠ ri % 6) :
    ∃ o5 r h w, get_dimensions5 o ri = some (o5, r, h, w) ∧ r = ri % 6 ∧
      o5 = (if ri % 6 < o % 6 then o % 6 - 1 else o % 6) ∧
      (layout5 (o % 6).toNat (ri % 6).toNat)[o5.toNat]? = some Ax.O ∧
      (layout5 (o % 6).toNat (ri % 6).toNat)[h.toNat]? = some Ax.H ∧
      (layout5 (o % 6).toNat (ri % 6).toNat)[w.toNat]? = some Ax.W ∧ 0 ≤ o5 ∧ 0 ≤ h ∧ 0 ≤ w := by
  have h1 := Int.emod_nonneg o (by norm_num : (6:Int) ≠ 0)
  have h2 := Int.emod_lt_of_pos o (by norm_num : (0:Int) < 6)
  have h3 := Int.emod_nonneg ri (by norm_num : (6:Int) ≠ 0)
  have h4 := Int.emod_lt_of_pos ri (by norm_num : (0:Int) < 6)
  unfold get_dimensions5
  generalize o % 6 = a at *
  generalize ri % 6 = b at *
  interval_cases a <;> interval_cases b <;> first | (exact absurd rfl hne) | (refine ⟨_, _, _, _, rfl, ?_⟩; decide)

/-- the layout only *moves* axes: it is a permutation of the six canonical axes, so the
band-pass values are re-arranged, never changed or dropped -/
theorem layoutOf_perm (o5 ri : Nat) (ho : o5 ≤ 4) (hr : ri ≤ 5) :
    ((layoutOf o5 ri).map Ax.canon).length = 6 ∧
      (List.range 6).all (fun k => ((layoutOf o5 ri).map Ax.canon).contains k) = true := by
  interval_cases o5 <;> interval_cases ri <;> decide

/-- non-vacuity: the default layout `(o_dim, ri_dim) = (2, -1)` is `(N, C, 6, H, W, 2)` -/
example : get_dimensions6 2 (-1) = some (2, 5, 3, 4) ∧ layout6 2 5 = [.N, .C, .O, .H, .W, .RI] := by decide

/-! ### skip / include masks and prefix consistency: properties of the level loop

Generic in the scalar type; no arithmetic is used, only the shape of the loop. -/

variable {R : Type} [Add R] [Sub R] [Mul R] [OfNat R 0]

/-- level ≥ 2: whether or not the band-pass is skipped, the low-pass handed to the next level is the same -/
theorem fwdJ2_skip_ll (s : R) (h0a h1a h0b h1b : List R) (x : Img R) (r r' : Img R × Option (List (Cplx R)))
    (h : fwdJ2 s h0a h1a h0b h1b true x = some r) (h' : fwdJ2 s h0a h1a h0b h1b false x = some r') :
    r.1 = r'.1 ∧ r.2 = none ∧ r'.2 ≠ none := by
  unfold fwdJ2 at h h'
  cases hlo : rowdfilt h0b h0a false x with
  | none => simp [hlo] at h
  | some lo =>
    cases hll : coldfilt h0b h0a false lo with
    | none => simp [hlo, hll] at h
    | some ll =>
      simp only [hlo, hll, Option.bind_eq_bind, Option.bind_some, if_true] at h
      simp only [hlo, hll, Option.bind_eq_bind, Option.bind_some, Bool.false_eq_true, if_false] at h'
      cases hhi : rowdfilt h1b h1a true x with
      | none => simp [hhi] at h'
      | some hi =>
        cases hlh : coldfilt h1b h1a true lo with
        | none => simp [hhi, hlh] at h'
        | some lh =>
          cases hhl : coldfilt h0b h0a false hi with
          | none => simp [hhi, hlh, hhl] at h'
          | some hl =>
            cases hhh : coldfilt h1b h1a true hi with
            | none => simp [hhi, hlh, hhl, hhh] at h'
            | some hh =>
              simp only [hhi, hlh, hhl, hhh, Option.bind_some, Option.some.injEq] at h'
              simp only [Option.some.injEq] at h
              subst h; subst h'
              simp

/-- level 1 likewise (it never raises) -/
theorem fwdJ1_skip_ll (s : R) (sym : Bool) (h0 h1 : List R) (x : Img R) :
    (fwdJ1 s sym h0 h1 true x).1 = (fwdJ1 s sym h0 h1 false x).1 ∧ (fwdJ1 s sym h0 h1 true x).2 = none ∧
      (fwdJ1 s sym h0 h1 false x).2 ≠ none := by
  simp [fwdJ1]

/-- **skip_hps**: skipping levels replaces exactly those levels by placeholders and leaves the final
low-pass, every requested scale and every other level unchanged — for every mask, every depth. -/
theorem loop_skip (s : R) (f : FwdFilters R) (sks incl : List Bool) (low : Img R)
    (r r' : Img R × List (Option (List (Cplx R))) × List (Option (Img R)))
    (h : dtcwtFwdLoop s f sks incl low = some r)
    (h' : dtcwtFwdLoop s f (sks.map fun _ => false) incl low = some r') :
    r.1 = r'.1 ∧ r.2.2 = r'.2.2 ∧
      r.2.1 = List.zipWith (fun (sk : Bool) (hp : Option (List (Cplx R))) => if sk then none else hp) sks r'.2.1 := by
  induction sks generalizing incl low r r' with
  | nil =>
    simp only [dtcwtFwdLoop, List.map_nil, Option.some.injEq] at h h'
    subst h; subst h'; simp
  | cons sk rest ih =>
    simp only [dtcwtFwdLoop, List.map_cons, List.drop_one, List.headD_eq_head?_getD] at h h'
    cases h1 : fwdJ2 s f.h0a f.h1a f.h0b f.h1b sk (extendMult4 low) with
    | none => simp [h1] at h
    | some p =>
      cases h1' : fwdJ2 s f.h0a f.h1a f.h0b f.h1b false (extendMult4 low) with
      | none => simp [h1'] at h'
      | some p' =>
        simp only [h1, Option.bind_eq_bind, Option.bind_some] at h
        simp only [h1', Option.bind_eq_bind, Option.bind_some] at h'
        have hll : p.1 = p'.1 ∧ p.2 = (if sk then none else p'.2) := by
          cases sk with
          | true =>
            have := fwdJ2_skip_ll s f.h0a f.h1a f.h0b f.h1b (extendMult4 low) p p' h1 h1'
            exact ⟨this.1, by simpa using this.2.1⟩
          | false =>
            rw [h1] at h1'; simp only [Option.some.injEq] at h1'; subst h1'; simp
        cases h2 : dtcwtFwdLoop s f rest incl.tail p.1 with
        | none => simp [h2] at h
        | some q =>
          cases h2' : dtcwtFwdLoop s f (rest.map fun _ => false) incl.tail p'.1 with
          | none => simp [h2'] at h'
          | some q' =>
            simp only [h2, Option.bind_some, Option.some.injEq] at h
            simp only [h2', Option.bind_some, Option.some.injEq] at h'
            rw [← hll.1] at h2'
            have := ih incl.tail p.1 q q' h2 h2'
            subst h; subst h'
            simp only [List.zipWith_cons_cons]
            refine ⟨this.1, ?_, ?_⟩
            · simp [this.2.1, hll.1]
            · rw [this.2.2, hll.2]

/-- **include_scale** only *selects* low-passes: the final low-pass and all band-pass levels do not depend
on the include mask, and each returned scale is either absent or the low-pass after that level. -/
theorem loop_include (s : R) (f : FwdFilters R) (sks incl incl' : List Bool) (low : Img R)
    (r r' : Img R × List (Option (List (Cplx R))) × List (Option (Img R)))
    (h : dtcwtFwdLoop s f sks incl low = some r) (h' : dtcwtFwdLoop s f sks incl' low = some r') :
    r.1 = r'.1 ∧ r.2.1 = r'.2.1 := by
  induction sks generalizing incl incl' low r r' with
  | nil =>
    simp only [dtcwtFwdLoop, Option.some.injEq] at h h'
    subst h; subst h'; simp
  | cons sk rest ih =>
    simp only [dtcwtFwdLoop, List.drop_one, List.headD_eq_head?_getD] at h h'
    cases h1 : fwdJ2 s f.h0a f.h1a f.h0b f.h1b sk (extendMult4 low) with
    | none => simp [h1] at h
    | some p =>
      simp only [h1, Option.bind_eq_bind, Option.bind_some] at h h'
      cases h2 : dtcwtFwdLoop s f rest incl.tail p.1 with
      | none => simp [h2] at h
      | some q =>
        cases h2' : dtcwtFwdLoop s f rest incl'.tail p.1 with
        | none => simp [h2'] at h'
        | some q' =>
          simp only [h2, Option.bind_some, Option.some.injEq] at h
          simp only [h2', Option.bind_some, Option.some.injEq] at h'
          have := ih incl.tail incl'.tail p.1 q q' h2 h2'
          subst h; subst h'
          exact ⟨this.1, by simp [this.2]⟩

/-- **prefix consistency**: the first levels of a deeper transform are the shallower transform — the loop
over `sks1 ++ sks2` first does exactly what the loop over `sks1` does, and continues from its low-pass. -/
theorem loop_prefix (s : R) (f : FwdFilters R) (sks1 sks2 : List Bool) (low : Img R)
    (r : Img R × List (Option (List (Cplx R))) × List (Option (Img R)))
    (h : dtcwtFwdLoop s f (sks1 ++ sks2) [] low = some r) :
    ∃ r1 r2, dtcwtFwdLoop s f sks1 [] low = some r1 ∧ dtcwtFwdLoop s f sks2 [] r1.1 = some r2 ∧
      r.1 = r2.1 ∧ r.2.1 = r1.2.1 ++ r2.2.1 := by
  induction sks1 generalizing low r with
  | nil =>
    simp only [List.nil_append] at h
    exact ⟨(low, [], []), r, by simp [dtcwtFwdLoop], h, rfl, by simp⟩
  | cons sk rest ih =>
    simp only [List.cons_append, dtcwtFwdLoop, List.drop_one, List.headD_eq_head?_getD] at h
    cases h1 : fwdJ2 s f.h0a f.h1a f.h0b f.h1b sk (extendMult4 low) with
    | none => simp [h1] at h
    | some p =>
      simp only [h1, Option.bind_eq_bind, Option.bind_some, List.tail_nil] at h
      cases h2 : dtcwtFwdLoop s f (rest ++ sks2) [] p.1 with
      | none => simp [h2] at h
      | some q =>
        simp only [h2, Option.bind_some, Option.some.injEq] at h
        obtain ⟨r1, r2, e1, e2, e3, e4⟩ := ih p.1 q h2
        refine ⟨(r1.1, p.2 :: r1.2.1, none :: r1.2.2), r2, ?_, e2, ?_, ?_⟩
        · simp [dtcwtFwdLoop, h1, e1]
        · subst h; exact e3
        · subst h; simp [e4]

end WV.C12
