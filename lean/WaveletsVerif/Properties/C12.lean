/-
  C12 — the axis tables `get_dimensions5/6` (translated from the source on every
  run into `Gen/Dims.lean`) point at the image rows/columns and at the
  orientation / real-imaginary axes for ALL integer `(o_dim, ri_dim)`, negative
  aliases included; the layout is a permutation of the canonical axes.
-/
import WaveletsVerif.Gen.Dims
import WaveletsVerif.Model.Dtcwt
import Mathlib.Tactic.IntervalCases
namespace WV.C12
open WV WV.Gen

/-- the 6-D layout the forward transform produces for the (already reduced) pair `(o, ri)`:
`torch.stack(bands, dim=o5)` then `torch.stack((re, im), dim=ri)` -/
def layout6 (o ri : Nat) : List Ax := layoutOf (if ri < o then o - 1 else o) ri

/-- the 5-D layout seen inside the autograd Functions after `unbind(ri_dim)` -/
def layout5 (o ri : Nat) : List Ax := insertAt [.N, .C, .H, .W] (if ri < o then o - 1 else o) .O

/-- `get_dimensions6` is right for every integer pair with distinct residues mod 6:
the orientation axis sits at `o_dim % 6`, the real/imaginary axis at `ri_dim % 6`, and the
returned `h_dim`, `w_dim` are the positions of the image rows and columns. -/
theorem dims6_correct (o ri : Int) (hne : o % 6 ≠ ri % 6) :
    ∃ o5 r h w, get_dimensions6 o ri = some (o5, r, h, w) ∧ r = ri % 6 ∧
      (layout6 (o % 6).toNat (ri % 6).toNat)[(o % 6).toNat]? = some Ax.O ∧
      (layout6 (o % 6).toNat (ri % 6).toNat)[(ri % 6).toNat]? = some Ax.RI ∧
      (layout6 (o % 6).toNat (ri % 6).toNat)[h.toNat]? = some Ax.H ∧
      (layout6 (o % 6).toNat (ri % 6).toNat)[w.toNat]? = some Ax.W ∧ 0 ≤ h ∧ 0 ≤ w := by
  have h1 := Int.emod_nonneg o (by norm_num : (6:Int) ≠ 0)
  have h2 := Int.emod_lt_of_pos o (by norm_num : (0:Int) < 6)
  have h3 := Int.emod_nonneg ri (by norm_num : (6:Int) ≠ 0)
  have h4 := Int.emod_lt_of_pos ri (by norm_num : (0:Int) < 6)
  unfold get_dimensions6
  generalize o % 6 = a at *
  generalize ri % 6 = b at *
  interval_cases a <;> interval_cases b <;> first | (exact absurd rfl hne) | (refine ⟨_, _, _, _, rfl, ?_⟩; decide)

/-- `get_dimensions5`: after the real/imaginary axis has been removed the orientation axis is
at the returned `o_dim` and `h_dim`, `w_dim` are the rows and columns. -/
theorem dims5_correct (o ri : Int) (hne : o % 6 ≠ ri % 6) :
    ∃ o5 r h w, get_dimensions5 o ri = some (o5, r, h, w) ∧ r = ri % 6 ∧
      o5 = (if ri % 6 < o % 6 then o % 6 - 1 else o % 6) ∧
      (layout5 (o % 6).toNat (ri % 6).toNat)[o5.toNat]? = some Ax.O ∧
      (layout5 (o % 6).toNat (ri % 6).toNat)[h.toNat]? = some Ax.H ∧
      (layout5 (o % 6).toNat (ri % 6).toNat)[w.toNat]? = some Ax.W ∧ 0 ≤ o5 ∧ 0 ≤ h ∧ 0 ≤ w := by
  have h1 := Int.emod_nonneg o (by norm_num : (6:Int) ≠ 0)
  have h2 := Int.emod_lt_of_pos o (by norm_num : (0:Int) < 6)
  have h3 := Int.emod_nonneg ri (by norm_num : (6:Int) ≠ 0)
  have h4 := Int.emod_lt_of_pos ri (by norm_num : (0:Int) < 6)
  unfold get_dimensions5
  generalize o % 6 = a at *
  generalize ri % 6 = b at *
  interval_cases a <;> interval_cases b <;> first | (exact absurd rfl hne) | (refine ⟨_, _, _, _, rfl, ?_⟩; decide)

/-- the layout only *moves* axes: it is a permutation of the six canonical axes, so the
band-pass values are re-arranged, never changed or dropped -/
theorem layoutOf_perm (o5 ri : Nat) (ho : o5 ≤ 4) (hr : ri ≤ 5) :
    ((layoutOf o5 ri).map Ax.canon).length = 6 ∧
      (List.range 6).all (fun k => ((layoutOf o5 ri).map Ax.canon).contains k) = true := by
  interval_cases o5 <;> interval_cases ri <;> decide

/-- non-vacuity: the default layout `(o_dim, ri_dim) = (2, -1)` is `(N, C, 6, H, W, 2)` -/
example : get_dimensions6 2 (-1) = some (2, 5, 3, 4) ∧ layout6 2 5 = [.N, .C, .O, .H, .W, .RI] := by decide

end WV.C12
