/-
  C11 — the inverse DTCWT of the implementation model IS the reference inverse, on every pyramid of forward-compatible
  shape (whether or not it is the transform of an image), for every number of levels.

  `Spec.refInverse` is `dtcwt.numpy.Transform2d.inverse` written with the index formulas of C03/C11 (validated against
  the package on every run).  The level synthesis of the model equals the reference's (`invJ1_eq_ref`, `invJ2_eq_ref`:
  the same column-then-row order, sums in the other order), the crop placed before a level by the library is the crop
  placed after the previous level by the reference, and the two loops agree by induction over the levels
  (`dtcwt_inverse_eq_ref`).  Shapes are the ones a forward transform produces (`PyrOK`): per level a band size
  `(r, c)`, the next coarser synthesis result `4r' × 4c'` equal to `2r × 2c` or larger by the padding `+2`.
-/
import WaveletsVerif.Properties.C03P
import WaveletsVerif.Properties.C06
namespace WV.C11P
open Finset WV WV.C04 WV.C04Q WV.C04P WV.C03P
variable {R : Type} [CommRing R]

theorem iadd_comm (a b : Img R) (H W : Nat) (ha : Rect a H W) (hb : Rect b H W) : iadd a b = iadd b a := by
  rw [rect_eq_tab2 a H W ha, rect_eq_tab2 b H W hb, iadd_tab2, iadd_tab2]
  apply tab2_congr; intro i _ j _; ring

abbrev Eg (ga gb : List R) (hp : Bool) : List R → List R := Spec.colifilt ga gb hp

theorem Eg_length (ga gb : List R) (hp : Bool) (c : List R) : (Eg ga gb hp c).length = 2 * c.length := by
  simp [Eg, Spec.colifilt]

theorem colifilt_modelG (ga gb : List R) (hp : Bool) (hm : ga.length % 2 = 0) (hm2 : 2 ≤ ga.length) (hab : gb.length = ga.length)
    (y : Img R) (H : Nat) (hH : 1 ≤ H) (hy : y.length = 2 * H) :
    colifilt (prepFilt ga) (prepFilt gb) hp y = some (alongH (Eg ga gb hp) y) := by
  unfold colifilt
  apply alongHO_total
  intro c hc
  exact C11.colifilt1_eq_ref ga gb c hp (by omega) (by omega) hm hm2 hab

theorem rowifilt_modelG (ga gb : List R) (hp : Bool) (hm : ga.length % 2 = 0) (hm2 : 2 ≤ ga.length) (hab : gb.length = ga.length)
    (y : Img R) (W : Nat) (hW : 1 ≤ W) (hy : ∀ r ∈ y, r.length = 2 * W) :
    rowifilt (prepFilt ga) (prepFilt gb) hp y = some (alongW (Eg ga gb hp) y) := by
  unfold rowifilt
  apply alongWO_total
  intro c hc
  exact C11.colifilt1_eq_ref ga gb c hp (by rw [hy c hc]; omega) (by rw [hy c hc]; omega) hm hm2 hab

theorem Eg_alongH_rect (ga gb : List R) (hp : Bool) (y : Img R) (H W : Nat) (hy : Rect y H W) (hH : 1 ≤ H) (hW : 1 ≤ W) :
    Rect (alongH (Eg ga gb hp) y) (2*H) W := by
  rw [alongH_get' (Eg ga gb hp) y H (2*H) W hy hH hW (fun c hc => by rw [Eg_length, hc])]
  exact tab2_rect (2*H) W _

theorem Eg_alongW_rect (ga gb : List R) (hp : Bool) (y : Img R) (H W : Nat) (hy : Rect y H W) :
    Rect (alongW (Eg ga gb hp) y) H (2*W) := by
  rw [alongW_get' (Eg ga gb hp) y H W (2*W) hy (fun c hc => by rw [Eg_length, hc])]
  exact tab2_rect H (2*W) _

/-- the six complex bands of one level all have the shape `r × c` (only the real parts' shapes matter for `c2q`) -/
def BandOK (o : List (Cplx R)) (r c : Nat) : Prop :=
  ∀ k < 6, (o.getD k ([], [])).1.length = r ∧ Img.width (o.getD k ([], [])).1 = c

theorem bandSize_of_ok (o : List (Cplx R)) (r c : Nat) (h : BandOK o r c) : bandSize o = (r, c) := by
  unfold bandSize
  have := h 0 (by omega)
  have e : o.headD ([], []) = o.getD 0 ([], []) := by cases o <;> rfl
  rw [e, this.1, this.2]

theorem c2q_rect' (s : R) (w1 w2 : Cplx R) (r c : Nat) (hl : w1.1.length = r) (hw : Img.width w1.1 = c) :
    Rect (c2q s w1 w2) (2*r) (2*c) := by
  unfold c2q
  obtain ⟨w1r, w1i⟩ := w1
  obtain ⟨w2r, w2i⟩ := w2
  simp only at hl hw ⊢
  rw [hl, hw]
  exact tab2_rect _ _ _

theorem highs_rect (s : R) (o : List (Cplx R)) (r c : Nat) (h : BandOK o r c) :
    Rect (orientationsToHighs s o).1 (2*r) (2*c) ∧ Rect (orientationsToHighs s o).2.1 (2*r) (2*c) ∧
      Rect (orientationsToHighs s o).2.2 (2*r) (2*c) := by
  unfold orientationsToHighs
  simp only
  exact ⟨c2q_rect' s _ _ r c (h 0 (by omega)).1 (h 0 (by omega)).2, c2q_rect' s _ _ r c (h 2 (by omega)).1 (h 2 (by omega)).2,
    c2q_rect' s _ _ r c (h 1 (by omega)).1 (h 1 (by omega)).2⟩

/-- **a level ≥ 2 of the model's inverse is the reference's level** -/
theorem invJ2_eq_ref (s : R) (g0a g0b g1a g1b : List R) (hm0 : g0b.length % 2 = 0) (hm0' : 2 ≤ g0b.length)
    (hab0 : g0a.length = g0b.length) (hm1 : g1b.length % 2 = 0) (hm1' : 2 ≤ g1b.length) (hab1 : g1a.length = g1b.length)
    (l : Img R) (o : List (Cplx R)) (r c : Nat) (hr : 1 ≤ r) (hc : 1 ≤ c) (hl : Rect l (2*r) (2*c)) (ho : BandOK o r c) :
    invJ2 s (prepFilt g0a) (prepFilt g1a) (prepFilt g0b) (prepFilt g1b) (some l) (some o)
      = some (Spec.refInvLevel2 s g0a g0b g1a g1b l o) ∧ Rect (Spec.refInvLevel2 s g0a g0b g1a g1b l o) (4*r) (4*c) := by
  obtain ⟨rlh, rhl, rhh⟩ := highs_rect s o r c ho
  set lh := (orientationsToHighs s o).1 with hlh
  set hl' := (orientationsToHighs s o).2.1 with hhl
  set hh := (orientationsToHighs s o).2.2 with hhh
  have h2r : 1 ≤ 2*r := by omega
  have h2c : 1 ≤ 2*c := by omega
  have c1 := colifilt_modelG g1b g1a true hm1 hm1' hab1 hh r hr rhh.1
  have c2 := colifilt_modelG g0b g0a false hm0 hm0' hab0 hl' r hr rhl.1
  have c3 := colifilt_modelG g1b g1a true hm1 hm1' hab1 lh r hr rlh.1
  have c4 := colifilt_modelG g0b g0a false hm0 hm0' hab0 l r hr hl.1
  have q1 := Eg_alongH_rect g1b g1a true hh _ _ rhh h2r h2c
  have q2 := Eg_alongH_rect g0b g0a false hl' _ _ rhl h2r h2c
  have q3 := Eg_alongH_rect g1b g1a true lh _ _ rlh h2r h2c
  have q4 := Eg_alongH_rect g0b g0a false l _ _ hl h2r h2c
  have h4r : 1 ≤ 2*(2*r) := by omega
  have rHI := WV.C06.iadd_rect _ _ _ _ q1 q2
  have rLO := WV.C06.iadd_rect _ _ _ _ q3 q4
  have e4r : 2*(2*r) = 4*r := by ring
  have e4c : 2*(2*c) = 4*c := by ring
  have hspec : Spec.refInvLevel2 s g0a g0b g1a g1b l o
      = iadd (alongW (Eg g0b g0a false) (iadd (alongH (Eg g0b g0a false) l) (alongH (Eg g1b g1a true) lh)))
             (alongW (Eg g1b g1a true) (iadd (alongH (Eg g0b g0a false) hl') (alongH (Eg g1b g1a true) hh))) := rfl
  have w1 := Eg_alongW_rect g1b g1a true _ _ _ rHI
  have w2 := Eg_alongW_rect g0b g0a false _ _ _ rLO
  constructor
  · unfold invJ2
    simp only []
    rw [show (orientationsToHighs s o) = (lh, hl', hh) from rfl]
    simp only []
    rw [c1, c2, c3, c4]
    simp only [Option.bind_eq_bind, Option.bind_some]
    have hshape : ¬ ((alongH (Eg g0b g0a false) l).length ≠ (alongH (Eg g1b g1a true) lh).length ∨
        Img.width (alongH (Eg g0b g0a false) l) ≠ Img.width (alongH (Eg g1b g1a true) lh)) := by
      rw [q3.1, q4.1, rect_width _ _ _ q3 h4r, rect_width _ _ _ q4 h4r]; simp
    rw [if_neg hshape]
    simp only [Option.bind_some]
    rw [rowifilt_modelG g1b g1a true hm1 hm1' hab1 _ c hc rHI.2, rowifilt_modelG g0b g0a false hm0 hm0' hab0 _ c hc rLO.2]
    simp only [Option.bind_some]
    rw [hspec, iadd_comm _ _ _ _ w1 w2, iadd_comm _ _ _ _ q3 q4, iadd_comm _ _ _ _ q1 q2]
  · rw [hspec, ← e4r, ← e4c]
    rw [iadd_comm _ _ _ _ q4 q3, iadd_comm _ _ _ _ q2 q1]
    exact WV.C06.iadd_rect _ _ _ _ w2 w1

/-- **level 1 of the model's inverse is the reference's level 1** -/
theorem invJ1_eq_ref (s : R) (g0 g1 : List R) (hg0 : g0.length % 2 = 1) (hg1 : g1.length % 2 = 1)
    (l : Img R) (o : List (Cplx R)) (r c : Nat) (hr : 1 ≤ r) (hc : 1 ≤ c) (hl : Rect l (2*r) (2*c)) (ho : BandOK o r c) :
    invJ1 s true (prepFilt g0) (prepFilt g1) (r, c) (some l) (some o) = some (Spec.refInvLevel1 s g0 g1 l o) := by
  obtain ⟨rlh, rhl, rhh⟩ := highs_rect s o r c ho
  set lh := (orientationsToHighs s o).1 with hlh
  set hl' := (orientationsToHighs s o).2.1 with hhl
  set hh := (orientationsToHighs s o).2.2 with hhh
  have G0 : 1 ≤ g0.length := by omega
  have G1 : 1 ≤ g1.length := by omega
  have h2r : 1 ≤ 2*r := by omega
  have h2c : 1 ≤ 2*c := by omega
  have c1 : colfilter true (prepFilt g1) hh = alongH (Cf g1) hh := colfilter_model g1 G1 _ (by rw [rhh.1]; exact h2r)
  have c2 : colfilter true (prepFilt g0) hl' = alongH (Cf g0) hl' := colfilter_model g0 G0 _ (by rw [rhl.1]; exact h2r)
  have c3 : colfilter true (prepFilt g1) lh = alongH (Cf g1) lh := colfilter_model g1 G1 _ (by rw [rlh.1]; exact h2r)
  have c4 : colfilter true (prepFilt g0) l = alongH (Cf g0) l := colfilter_model g0 G0 _ (by rw [hl.1]; exact h2r)
  have q1 := alongH_rect g1 hg1 hh _ _ rhh h2r h2c
  have q2 := alongH_rect g0 hg0 hl' _ _ rhl h2r h2c
  have q3 := alongH_rect g1 hg1 lh _ _ rlh h2r h2c
  have q4 := alongH_rect g0 hg0 l _ _ hl h2r h2c
  have rHI := WV.C06.iadd_rect _ _ _ _ q1 q2
  have rLO := WV.C06.iadd_rect _ _ _ _ q3 q4
  have w1 := alongW_rect g1 hg1 _ _ _ rHI
  have w2 := alongW_rect g0 hg0 _ _ _ rLO
  have hspec : Spec.refInvLevel1 s g0 g1 l o
      = iadd (alongW (Cf g0) (iadd (alongH (Cf g0) l) (alongH (Cf g1) lh)))
             (alongW (Cf g1) (iadd (alongH (Cf g0) hl') (alongH (Cf g1) hh))) := rfl
  unfold invJ1
  simp only []
  rw [show (orientationsToHighs s o) = (lh, hl', hh) from rfl]
  simp only []
  rw [cropToHighs_id l r c hl.1 (rect_width _ _ _ hl h2r), c1, c2, c3, c4]
  have hshape : ¬ ((alongH (Cf g1) lh).length ≠ (alongH (Cf g0) l).length ∨
      Img.width (alongH (Cf g1) lh) ≠ Img.width (alongH (Cf g0) l)) := by
    rw [q3.1, q4.1, rect_width _ _ _ q3 h2r, rect_width _ _ _ q4 h2r]; simp
  rw [if_neg hshape]
  rw [rowfilter_model g1 G1 _ (2*c) h2c rHI.2, rowfilter_model g0 G0 _ (2*c) h2c rLO.2]
  rw [hspec, iadd_comm _ _ _ _ w1 w2, iadd_comm _ _ _ _ q3 q4, iadd_comm _ _ _ _ q1 q2]

/-! ### the crop between levels -/

omit [CommRing R] in
theorem slice_one_neg_one {α : Type} (x : List α) (h : 2 ≤ x.length) : slice x 1 (-1) = (x.take (x.length - 1)).drop 1 := by
  unfold slice pyBound
  have e1 : (if (-1:Int) < 0 then (-1:Int) + (x.length:Int) else -1) = (x.length:Int) - 1 := by simp; ring
  have e2 : (if (1:Int) < 0 then (1:Int) + (x.length:Int) else 1) = 1 := by simp
  rw [e1, e2]
  have c1 : ¬ ((x.length:Int) - 1 < 0) := by omega
  have c2 : ¬ ((x.length:Int) < (x.length:Int) - 1) := by omega
  have c3 : ¬ ((1:Int) < 0) := by omega
  have c4 : ¬ ((x.length:Int) < 1) := by omega
  simp only [c1, c2, c3, c4, if_false]
  have t1 : ((x.length:Int) - 1).toNat = x.length - 1 := by omega
  rw [t1]; rfl

/-- cropping an image that is as large as twice the band, or larger by the padding, gives twice the band -/
theorem crop_rect (Y : Img R) (H W r c : Nat) (hr : 1 ≤ r) (hc : 1 ≤ c) (hY : Rect Y H W)
    (hH : H = 2*r ∨ H = 2*r + 2) (hW : W = 2*c ∨ W = 2*c + 2) : Rect (cropToHighs Y r c) (2*r) (2*c) := by
  unfold cropToHighs
  set Y1 : Img R := if Y.length ≠ 2*r then slice Y 1 (-1) else Y with hY1
  have r1 : Rect Y1 (2*r) W := by
    rw [hY1]
    by_cases hcn : Y.length ≠ 2*r
    · rw [if_pos hcn]
      have hlen : Y.length = 2*r + 2 := by rw [hY.1] at hcn ⊢; omega
      rw [slice_one_neg_one Y (by omega)]
      refine ⟨by rw [List.length_drop, List.length_take]; omega, ?_⟩
      intro row hrow
      exact hY.2 row (List.mem_of_mem_take (List.mem_of_mem_drop hrow))
    · rw [if_neg hcn]
      have : Y.length = 2*r := by omega
      exact ⟨this, hY.2⟩
  have hw1 : Img.width Y1 = W := rect_width _ _ _ r1 (by omega)
  simp only [← hY1, hw1]
  by_cases hcw : W ≠ 2*c
  · rw [if_pos hcw]
    have hWe : W = 2*c + 2 := by omega
    refine ⟨by rw [List.length_map]; exact r1.1, ?_⟩
    intro row hrow
    obtain ⟨r0, hr0, rfl⟩ := List.mem_map.mp hrow
    have hl0 : r0.length = 2*c + 2 := by rw [r1.2 r0 hr0, hWe]
    rw [slice_one_neg_one r0 (by omega), List.length_drop, List.length_take]; omega
  · rw [if_neg hcw]
    have : W = 2*c := by omega
    rw [← this]; exact r1

/-! ### the pyramid -/

def mkGg (g0o g1o g0a g0b g1a g1b : List R) : InvFilters R :=
  { g0o := prepFilt g0o, g1o := prepFilt g1o, g0a := prepFilt g0a, g0b := prepFilt g0b, g1a := prepFilt g1a, g1b := prepFilt g1b }

/-- shapes of a forward-compatible pyramid above a level whose band size is `(r, c)`: `rest` are the coarser levels,
finest first, `Z` the low-pass -/
def PyrOK : Nat → Nat → List (List (Cplx R)) → Img R → Prop
  | r, c, [], Z => Rect Z (2*r) (2*c)
  | r, c, b :: rest, Z => ∃ r' c', 1 ≤ r' ∧ 1 ≤ c' ∧ BandOK b r' c' ∧ (4*r' = 2*r ∨ 4*r' = 2*r + 2) ∧
      (4*c' = 2*c ∨ 4*c' = 2*c + 2) ∧ PyrOK r' c' rest Z

section pyr
variable (s : R) (g0o g1o g0a g0b g1a g1b : List R) (hm0 : g0b.length % 2 = 0) (hm0' : 2 ≤ g0b.length)
    (hab0 : g0a.length = g0b.length) (hm1 : g1b.length % 2 = 0) (hm1' : 2 ≤ g1b.length) (hab1 : g1a.length = g1b.length)

include hm0 hm0' hab0 hm1 hm1' hab1 in
theorem go_eq_ref : ∀ (rest : List (List (Cplx R))) (finer : List (Cplx R)) (r c : Nat) (Z : Img R), 1 ≤ r → 1 ≤ c →
    bandSize finer = (r, c) → PyrOK r c rest Z →
    ∃ Zm, ((rest.map some).zip ((rest.map some).map bsz)).reverse.foldlM (dtcwtInvStep s (mkGg g0o g1o g0a g0b g1a g1b)) (some Z)
        = some (some Zm) ∧
      cropToHighs Zm r c = Spec.refInvGo s g0a g0b g1a g1b finer rest Z ∧
      Rect (Spec.refInvGo s g0a g0b g1a g1b finer rest Z) (2*r) (2*c) := by
  intro rest
  induction rest with
  | nil =>
    intro finer r c Z hr hc _ hok
    have hZ : Rect Z (2*r) (2*c) := hok
    refine ⟨Z, by simp, ?_, hZ⟩
    simp only [Spec.refInvGo]
    exact cropToHighs_id Z r c hZ.1 (rect_width _ _ _ hZ (by omega))
  | cons b rest ih =>
    intro finer r c Z hr hc hfin hok
    obtain ⟨r', c', hr', hc', hb, hrr, hcc, hrest⟩ := hok
    have hbs := bandSize_of_ok b r' c' hb
    obtain ⟨Zm', hfold, hcrop, hrect⟩ := ih b r' c' Z hr' hc' hbs hrest
    obtain ⟨hlev, hlevr⟩ := invJ2_eq_ref s g0a g0b g1a g1b hm0 hm0' hab0 hm1 hm1' hab1 _ b r' c' hr' hc' hrect hb
    refine ⟨Spec.refInvLevel2 s g0a g0b g1a g1b (Spec.refInvGo s g0a g0b g1a g1b b rest Z) b, ?_, ?_, ?_⟩
    · rw [List.map_cons, List.map_cons, List.zip_cons_cons, List.reverse_cons, List.foldlM_append, hfold]
      simp only [Option.bind_eq_bind, Option.bind_some, List.foldlM_cons, List.foldlM_nil]
      have hb2 : bsz (some b) = (r', c') := hbs
      rw [hb2]
      unfold dtcwtInvStep
      simp only [hcrop]
      have hi' : invJ2 s (mkGg g0o g1o g0a g0b g1a g1b).g0a (mkGg g0o g1o g0a g0b g1a g1b).g1a (mkGg g0o g1o g0a g0b g1a g1b).g0b
          (mkGg g0o g1o g0a g0b g1a g1b).g1b (some (Spec.refInvGo s g0a g0b g1a g1b b rest Z)) (some b) = _ := hlev
      rw [hi']
      rfl
    · simp only [Spec.refInvGo, hfin]
    · simp only [Spec.refInvGo, hfin]
      exact crop_rect _ (4*r') (4*c') r c hr hc hlevr (by omega) (by omega)

include hm0 hm0' hab0 hm1 hm1' hab1 in
/-- **the inverse DTCWT of the implementation model is the reference inverse** on every pyramid of forward-compatible
shape with all levels present: level 1 of size `r × c`, the coarser levels and the low-pass as `PyrOK` describes -/
theorem dtcwt_inverse_eq_ref (hg0o : g0o.length % 2 = 1) (hg1o : g1o.length % 2 = 1)
    (b1 : List (Cplx R)) (rest : List (List (Cplx R))) (low : Img R) (r c : Nat) (hr : 1 ≤ r) (hc : 1 ≤ c)
    (hb1 : BandOK b1 r c) (hok : PyrOK r c rest low) :
    DTCWTInverse s true (mkGg g0o g1o g0a g0b g1a g1b) (((b1 :: rest).map some).map bsz) (bsz (some b1)) (some low)
        ((b1 :: rest).map some)
      = some (Spec.refInverse s g0o g1o g0a g0b g1a g1b low (b1 :: rest)) := by
  have hbs := bandSize_of_ok b1 r c hb1
  obtain ⟨Zm, hfold, hcrop, hrect⟩ := go_eq_ref s g0o g1o g0a g0b g1a g1b hm0 hm0' hab0 hm1 hm1' hab1 rest b1 r c low hr hc hbs hok
  rw [List.map_cons, List.map_cons, DTCWTInverse_cons, hfold]
  simp only [Option.bind_eq_bind, Option.bind_some]
  have hb2 : bsz (some b1) = (r, c) := hbs
  rw [hb2]
  simp only [hcrop, Spec.refInverse]
  exact invJ1_eq_ref s g0o g1o hg0o hg1o _ b1 r c hr hc hrect hb1

end pyr

/-- non-vacuity: a two-level pyramid (level 1 bands 2×2, level 2 bands 1×1, low-pass 2×2) has a compatible shape -/
example : BandOK (R := Int) (List.replicate 6 ([[1, 2], [3, 4]], [[0, 0], [0, 0]])) 2 2 ∧
    PyrOK (R := Int) 2 2 [List.replicate 6 ([[5]], [[6]])] [[1, 2], [3, 4]] := by
  refine ⟨?_, 1, 1, by omega, by omega, ?_, by omega, by omega, ?_⟩
  · intro k hk; interval_cases k <;> simp [Img.width]
  · intro k hk; interval_cases k <;> simp [Img.width]
  · exact ⟨rfl, by intro r hr; simp at hr; rcases hr with rfl | rfl <;> rfl⟩

end WV.C11P
