/-
  C19 — the non-separable synthesis bank equals the separable one, mode zero (and the other padded modes, which share the
  code path), every band size and filter lengths that fit.

  `sfb2d_nonsep` adds four 2-D transposed convolutions with the kernels `np.outer(gc, gr)` and crops `(Ly−2, Lx−2)`;
  `sfb2d` / `SFB2D` synthesise the columns of the two band pairs and then the rows.  Pixel by pixel both are
  `Σ_i Σ_j band[i][j]·gc[a+Ly−2−2i]·gr[b+Lx−2−2j]` summed over the four bands.
-/
import WaveletsVerif.Properties.C05S
import WaveletsVerif.Properties.C19
namespace WV.C19S
open Finset WV WV.C04 WV.C04Q WV.C06 WV.C05D WV.C05S
variable {R : Type} [CommRing R]

theorem getZ_sub_nat (w : List R) (a k : Nat) : getZ w ((a:Int) - 2*k) = if 2*k ≤ a then getN w (a - 2*k) else 0 := by
  by_cases h : 2*k ≤ a
  · rw [if_pos h, getN_eq_getZ]; congr 1; omega
  · rw [if_neg h, getZ_neg]; omega

theorem get2_outer (a b : List R) (u v : Nat) : get2 (outer a b) u v = getN a u * getN b v := by
  unfold outer get2 tab2
  rw [getD_tab]
  by_cases hu : u < a.length
  · rw [if_pos hu, getD_tab]
    by_cases hv : v < b.length
    · rw [if_pos hv]
    · rw [if_neg hv]
      have : getN b v = 0 := by unfold getN; rw [List.getD_eq_getElem?_getD, List.getElem?_eq_none (by omega)]; rfl
      rw [this, mul_zero]
  · rw [if_neg hu]
    have : getN a u = 0 := by unfold getN; rw [List.getD_eq_getElem?_getD, List.getElem?_eq_none (by omega)]; rfl
    rw [this, zero_mul]; rfl

/-- the kernel read of the 2-D transposed convolution factors -/
theorem kern (gc gr : List R) (a b i j : Nat) :
    (if 2*i ≤ a ∧ 2*j ≤ b then get2 (outer gc gr) (a - 2*i) (b - 2*j) else 0)
      = getZ gc ((a:Int) - 2*i) * getZ gr ((b:Int) - 2*j) := by
  rw [getZ_sub_nat, getZ_sub_nat, get2_outer]
  by_cases h1 : 2*i ≤ a <;> by_cases h2 : 2*j ≤ b <;> simp [h1, h2]

/-- one band's contribution, as a table -/
theorem convT2Full_outer (gc gr : List R) (band : Img R) (Kh Kw : Nat) (hb : Rect band Kh Kw) (hKh : 1 ≤ Kh) (hLy : 1 ≤ gc.length)
    (hLx : 1 ≤ gr.length) :
    convT2Full (outer gc gr) band
      = tab2 (2*(Kh-1) + gc.length) (2*(Kw-1) + gr.length) fun a b =>
          ∑ i ∈ range Kh, ∑ j ∈ range Kw, get2 band i j * (getZ gc ((a:Int) - 2*i) * getZ gr ((b:Int) - 2*j)) := by
  have hol : (outer gc gr).length = gc.length := by simp [outer, tab2]
  have how : (outer gc gr).width = gr.length := by unfold outer; exact C19.width_tab2 _ _ _ (by omega)
  have hbw : band.width = Kw := rect_width band Kh Kw hb hKh
  unfold convT2Full
  rw [hol, how, hb.1, hbw]
  apply tab2_congr; intro a _ b _
  rw [sumN_eq]
  apply Finset.sum_congr rfl; intro i _
  rw [sumN_eq]
  apply Finset.sum_congr rfl; intro j _
  rw [kern]

theorem getN_Sz (w0 w1 a b : List R) (K : Nat) (ha : a.length = K) (hb : b.length = K) (hw : w1.length = w0.length) (hK : 1 ≤ K)
    (t : Nat) (ht : t < 2*(K-1) + w0.length - 2*(w0.length-2)) :
    getN (Sz w0 w1 a b) t = (∑ k ∈ range K, getN a k * getZ w0 (((t + (w0.length - 2) : Nat) : Int) - 2*k))
      + ∑ k ∈ range K, getN b k * getZ w1 (((t + (w0.length - 2) : Nat) : Int) - 2*k) := by
  unfold Sz
  rw [getN_vadd _ _ _ (by simp [convT, convTFull, ha]; omega),
    getN_convT _ _ _ _ (by rw [ha]; omega), getN_convT _ _ _ _ (by rw [hb, hw]; omega), ha, hb]
  congr 1 <;> (apply Finset.sum_congr rfl; intro k _; congr 2; push_cast; ring)

section synth
variable (gr0 gr1 gc0 gc1 : List R) (hLr : 2 ≤ gr0.length) (hgr : gr1.length = gr0.length)
    (hLc : 2 ≤ gc0.length) (hgc : gc1.length = gc0.length) (Kh Kw : Nat) (hKh : 1 ≤ Kh) (hKw : 1 ≤ Kw)
    (hfc : gc0.length ≤ 2 * Kh + 1) (hfr : gr0.length ≤ 2 * Kw + 1)

include hLr hgr hLc hgc hKh hKw hfc hfr in
theorem sfb2dNonsep_zero_val (dense : Bool) (ll lh hl hh : Img R) (r1 : Rect ll Kh Kw) :
    sfb2dNonsepCh .zero dense gc0 gc1 gr0 gr1 [ll, lh, hl, hh]
      = some (crop2 (iadd (iadd (iadd (iadd (izero (2*(Kh-1)+gc0.length) (2*(Kw-1)+gr0.length)) (convT2Full (outer gc0 gr0) ll))
          (convT2Full (outer gc1 gr0) lh)) (convT2Full (outer gc0 gr1) hl)) (convT2Full (outer gc1 gr1) hh))
          (gc0.length-2) (gr0.length-2) (2*(Kh-1) + gc0.length - 2*(gc0.length-2)) (2*(Kw-1) + gr0.length - 2*(gr0.length-2))) := by
  have hllw : ll.width = Kw := rect_width ll Kh Kw r1 hKh
  have hguard : ¬ (gc0.length < 2 ∨ gr0.length < 2 ∨ gc1.length ≠ gc0.length ∨ gr1.length ≠ gr0.length ∨ Kh < 1 ∨ Kw < 1 ∨
      ([ll, lh, hl, hh] : List (Img R)).length ≠ 4) := by simp; omega
  have hfit : ¬ (2*(Kh-1) + gc0.length < 2*(gc0.length-2) + 1 ∨ 2*(Kw-1) + gr0.length < 2*(gr0.length-2) + 1) := by omega
  have hr4 : List.range 4 = [0, 1, 2, 3] := by decide
  simp only [sfb2dNonsepCh, List.getD_cons_zero, r1.1, hllw, hguard, hfit, if_false, hr4, List.foldl_cons, List.foldl_nil,
    List.getD_cons_succ]

include hLr hgr hLc hgc hKh hKw hfc hfr in
/-- **`sfb2d_nonsep` = `sfb2d` in mode zero**: the model of the non-separable synthesis equals the separable column-then-row
synthesis (`C05S.synth2`, the value of the model of `SFB2D.forward`) for every band size and filter lengths that fit -/
theorem sfb2d_nonsep_zero_eq_sep (dense : Bool) (ll lh hl hh : Img R) (r1 : Rect ll Kh Kw) (r2 : Rect lh Kh Kw) (r3 : Rect hl Kh Kw)
    (r4 : Rect hh Kh Kw) :
    sfb2dNonsepCh .zero dense gc0 gc1 gr0 gr1 [ll, lh, hl, hh] = some (synth2 gr0 gr1 gc0 gc1 Kh Kw ll lh hl hh) := by
  rw [sfb2dNonsep_zero_val gr0 gr1 gc0 gc1 hLr hgr hLc hgc Kh Kw hKh hKw hfc hfr dense ll lh hl hh r1]
  refine congrArg some ?_
  -- the four contributions as tables
  have c0 := convT2Full_outer gc0 gr0 ll Kh Kw r1 hKh (by omega) (by omega)
  have c1 := convT2Full_outer gc1 gr0 lh Kh Kw r2 hKh (by omega) (by omega)
  have c2 := convT2Full_outer gc0 gr1 hl Kh Kw r3 hKh (by omega) (by omega)
  have c3 := convT2Full_outer gc1 gr1 hh Kh Kw r4 hKh (by omega) (by omega)
  rw [hgc] at c1 c3; rw [hgr] at c2 c3
  rw [c0, c1, c2, c3]
  unfold izero
  rw [iadd_tab2, iadd_tab2, iadd_tab2, iadd_tab2]
  unfold crop2 synth2 rowzip
  have hNfc : Nf Kh gc0.length = 2*(Kh-1) + gc0.length - 2*(gc0.length-2) := rfl
  have hNfr : Nf Kw gr0.length = 2*(Kw-1) + gr0.length - 2*(gr0.length-2) := rfl
  apply tab2_congr; intro a ha b hb
  rw [C19.get2_tab2 _ _ _ _ _ (by omega) (by omega)]
  -- the separable side
  have hP : ∀ (x y : Img R), Rect x Kh Kw → Rect y Kh Kw → ∀ j < Kw,
      getN ((colzip (Sz gc0 gc1) (Nf Kh gc0.length) Kw x y).getD a []) j
        = (∑ i ∈ range Kh, get2 x i j * getZ gc0 (((a + (gc0.length - 2) : Nat) : Int) - 2*i))
          + ∑ i ∈ range Kh, get2 y i j * getZ gc1 (((a + (gc0.length - 2) : Nat) : Int) - 2*i) := by
    intro x y rx ry j hj
    unfold colzip
    rw [getD_tab2_row' _ _ _ a (by rw [hNfc]; exact ha), getN_tab, if_pos hj]
    have hlx : (col x j).length = Kh := by simp [col, rx.1]
    have hly : (col y j).length = Kh := by simp [col, ry.1]
    rw [getN_Sz gc0 gc1 _ _ Kh hlx hly hgc hKh a ha]
    congr 1
    · apply Finset.sum_congr rfl; intro i hi
      rw [get2_eq_getN_col x Kh Kw rx i j (by simpa using hi)]
    · apply Finset.sum_congr rfl; intro i hi
      rw [get2_eq_getN_col y Kh Kw ry i j (by simpa using hi)]
  have hrowP : ((colzip (Sz gc0 gc1) (Nf Kh gc0.length) Kw ll lh).getD a []).length = Kw :=
    getD_row_length _ _ _ (colzip_rect _ _ _ _ _) a (by rw [hNfc]; exact ha)
  have hrowQ : ((colzip (Sz gc0 gc1) (Nf Kh gc0.length) Kw hl hh).getD a []).length = Kw :=
    getD_row_length _ _ _ (colzip_rect _ _ _ _ _) a (by rw [hNfc]; exact ha)
  rw [getN_Sz gr0 gr1 _ _ Kw hrowP hrowQ hgr hKw b hb]
  have e1 : ∀ j ∈ range Kw, getN ((colzip (Sz gc0 gc1) (Nf Kh gc0.length) Kw ll lh).getD a []) j * getZ gr0 (((b + (gr0.length - 2) : Nat) : Int) - 2*j)
      = (∑ i ∈ range Kh, get2 ll i j * (getZ gc0 (((a + (gc0.length - 2) : Nat) : Int) - 2*i) * getZ gr0 (((b + (gr0.length - 2) : Nat) : Int) - 2*j)))
        + ∑ i ∈ range Kh, get2 lh i j * (getZ gc1 (((a + (gc0.length - 2) : Nat) : Int) - 2*i) * getZ gr0 (((b + (gr0.length - 2) : Nat) : Int) - 2*j)) := by
    intro j hj
    rw [hP ll lh r1 r2 j (by simpa using hj), add_mul, Finset.sum_mul, Finset.sum_mul]
    congr 1 <;> (apply Finset.sum_congr rfl; intro i _; ring)
  have e2 : ∀ j ∈ range Kw, getN ((colzip (Sz gc0 gc1) (Nf Kh gc0.length) Kw hl hh).getD a []) j * getZ gr1 (((b + (gr0.length - 2) : Nat) : Int) - 2*j)
      = (∑ i ∈ range Kh, get2 hl i j * (getZ gc0 (((a + (gc0.length - 2) : Nat) : Int) - 2*i) * getZ gr1 (((b + (gr0.length - 2) : Nat) : Int) - 2*j)))
        + ∑ i ∈ range Kh, get2 hh i j * (getZ gc1 (((a + (gc0.length - 2) : Nat) : Int) - 2*i) * getZ gr1 (((b + (gr0.length - 2) : Nat) : Int) - 2*j)) := by
    intro j hj
    rw [hP hl hh r3 r4 j (by simpa using hj), add_mul, Finset.sum_mul, Finset.sum_mul]
    congr 1 <;> (apply Finset.sum_congr rfl; intro i _; ring)
  rw [Finset.sum_congr rfl e1, Finset.sum_congr rfl e2, Finset.sum_add_distrib, Finset.sum_add_distrib]
  rw [Finset.sum_comm (s := range Kw) (t := range Kh), Finset.sum_comm (s := range Kw) (t := range Kh),
    Finset.sum_comm (s := range Kw) (t := range Kh), Finset.sum_comm (s := range Kw) (t := range Kh)]
  ring

include hLr hgr hLc hgc hKh hKw hfc hfr in
/-- the same image is what the model of the autograd Function `SFB2D.forward` returns -/
theorem sfb2d_nonsep_zero_eq_SFB2D (dense : Bool) (ll lh hl hh : Img R) (r1 : Rect ll Kh Kw) (r2 : Rect lh Kh Kw) (r3 : Rect hl Kh Kw)
    (r4 : Rect hh Kh Kw) :
    ∃ y, sfb2dNonsepCh .zero dense gc0 gc1 gr0 gr1 [ll, lh, hl, hh] = some y ∧
      SFB2D_forward .zero gr0 gr1 gc0 gc1 [ll] [[lh, hl, hh]] = some [y] :=
  ⟨_, sfb2d_nonsep_zero_eq_sep gr0 gr1 gc0 gc1 hLr hgr hLc hgc Kh Kw hKh hKw hfc hfr dense ll lh hl hh r1 r2 r3 r4,
    SFB2D_forward_val gr0 gr1 gc0 gc1 hLr hgr hLc hgc Kh Kw hKh hKw hfc hfr ll lh hl hh r1 r2 r3 r4⟩

end synth

end WV.C19S
