/-
  C18 — the shipped DTCWT filter tables satisfy the identities the code relies on.

  `Gen/Tables.lean` is regenerated from `pytorch_wavelets/dtcwt/data/*.npz` on
  every run: each stored float64 is an exact dyadic rational `n / 2^E`.  Every
  statement below is decided by the Lean kernel (`decide +kernel`) on those
  literals, for every table the loaders accept (finite set, exhaustive).
-/
import WaveletsVerif.Gen.Tables
namespace WV.C18
open WV.Gen

/-- a dyadic rational `n / 2^e` -/
abbrev Dy := Int × Nat

def Dy.add (a b : Dy) : Dy :=
  let e := max a.2 b.2
  (a.1 * 2^(e - a.2) + b.1 * 2^(e - b.2), e)

/-- `|a| ≤ 2^-k` -/
def Dy.small (a : Dy) (k : Nat) : Bool := a.1.natAbs * 2^k ≤ 2^a.2

def Dy.one : Dy := (1, 0)
def Dy.neg (a : Dy) : Dy := (-a.1, a.2)

def tget (t : Tab) (i : Nat) : Int := t.1.getD i 0

/-- coefficient `n` of the product polynomial (linear convolution) -/
def convAt (a b : Tab) (n : Nat) : Dy :=
  ((List.range (n+1)).foldl (fun acc i => acc + tget a i * (if n - i < b.1.length then tget b (n - i) else 0)) 0, a.2 + b.2)

/-- `Σ_k a[k]·b[k+2n]` -/
def corrEven (a b : Tab) (n : Nat) : Dy :=
  ((List.range (a.1.length - 2*n)).foldl (fun acc k => acc + tget a k * tget b (k + 2*n)) 0, a.2 + b.2)

def lookup (t : List (String × Tab)) (k : String) : Option Tab := (t.find? (·.1 == k)).map (·.2)
def hasKey (t : List (String × Tab)) (k : String) : Bool := (lookup t k).isSome

/-- `|h[k] − h[L−1−k]| ≤ 2^-tol` for all k -/
def symOK (h : Tab) (tol : Nat) : Bool :=
  (List.range h.1.length).all fun k => Dy.small (tget h k - tget h (h.1.length - 1 - k), h.2) tol

/-- `h0*g0 + h1*g1 = δ` (centre tap 1, all others 0) up to `2^-tol`: the level-1 filtering is
undecimated, so this is the whole perfect-reconstruction condition -/
def prOK (h0 g0 h1 g1 : Tab) (tol : Nat) : Bool :=
  let n := h0.1.length + g0.1.length - 1
  (h1.1.length + g1.1.length - 1 == n) &&
  (List.range n).all fun k =>
    let v := Dy.add (convAt h0 g0 k) (convAt h1 g1 k)
    Dy.small (if k = n / 2 then Dy.add v (Dy.neg Dy.one) else v) tol

/-- `Σ_k a[k]a[k+2n] = δ_n`, up to `2^-tol` -/
def orthOK (a : Tab) (tol : Nat) : Bool :=
  (List.range (a.1.length / 2)).all fun n =>
    let v := corrEven a a n
    Dy.small (if n = 0 then Dy.add v (Dy.neg Dy.one) else v) tol

/-- `Σ_k a[k]b[k+2n] = 0` and `Σ_k b[k]a[k+2n] = 0`, up to `2^-tol` -/
def crossOK (a b : Tab) (tol : Nat) : Bool :=
  (List.range (a.1.length / 2)).all fun n => Dy.small (corrEven a b n) tol && Dy.small (corrEven b a n) tol

/-- exact time reversal -/
def revOf (b a : Tab) : Bool := b.1 == a.1.reverse && b.2 == a.2

/-- sign of `Σ a[k]·b[k]` (the reference picks the tree order from it) -/
def dotSign (a b : Tab) : Int :=
  ((List.range a.1.length).foldl (fun acc k => acc + tget a k * tget b k) 0).sign

/-- all a level-1 (biorthogonal, `…o`) table must satisfy -/
def level1OK (t : List (String × Tab)) : Bool :=
  match lookup t "h0o", lookup t "g0o", lookup t "h1o", lookup t "g1o" with
  | some h0, some g0, some h1, some g1 =>
    symOK h0 40 && symOK g0 40 && symOK h1 40 && symOK g1 40 &&
    h0.1.length % 2 == 1 && g0.1.length % 2 == 1 && h1.1.length % 2 == 1 && g1.1.length % 2 == 1 &&
    prOK h0 g0 h1 g1 40 &&
    (match lookup t "h2o", lookup t "g2o" with
     | some h2, some g2 => symOK h2 40 && symOK g2 40 && h2.1.length % 2 == 1
     | none, none => true
     | _, _ => false)
  | _, _, _, _ => false

/-- all a q-shift table must satisfy; `tol` is the orthonormality tolerance exponent -/
def qshiftOK (t : List (String × Tab)) (tol : Nat) : Bool :=
  match lookup t "h0a", lookup t "h0b", lookup t "g0a", lookup t "g0b",
        lookup t "h1a", lookup t "h1b", lookup t "g1a", lookup t "g1b" with
  | some h0a, some h0b, some g0a, some g0b, some h1a, some h1b, some g1a, some g1b =>
    h0a.1.length % 2 == 0 &&
    revOf h0b h0a && revOf h1b h1a &&                 -- tree b is the time reverse of tree a
    revOf g0a h0a && revOf g0b h0b && revOf g1a h1a && revOf g1b h1b &&   -- synthesis = reversed analysis
    orthOK h0a tol && orthOK h1a tol && crossOK h0a h1a tol &&
    dotSign h0a h0b == 1 && dotSign h1a h1b == -1 &&  -- the reference's tree-order rule agrees with the flags
    (match lookup t "h2a", lookup t "h2b", lookup t "g2a", lookup t "g2b" with
     | some h2a, some h2b, some g2a, some g2b =>
       revOf h2b h2a && revOf g2a h2a && revOf g2b h2b && dotSign h2a h2b == -1
     | none, none, none, none => true
     | _, _, _, _ => false)
  | _, _, _, _, _, _, _, _ => false

/-- tables that the q-shift loader accepts (they have the `…a/…b` keys) but that are *not*
q-shift tables: recorded as a known finding, not repaired (removing shipped data is not a repair) -/
def notQshift : List String := ["farras", "near_sym_a2"]

def level1Tables := allTables.filter fun p => hasKey p.2 "h0o"
def qshiftTables := allTables.filter fun p => hasKey p.2 "h0a" && !(notQshift.contains p.1)

/-- every level-1 table: symmetric odd-length filters, undecimated PR, to 2^-40 -/
theorem level1_tables_ok : level1Tables.all (fun p => level1OK p.2) = true := by decide +kernel

/-- every q-shift table except `qshift_32`: orthonormal to 2^-40, exact reversal identities -/
theorem qshift_tables_ok :
    (qshiftTables.filter fun p => p.1 != "qshift_32").all (fun p => qshiftOK p.2 40) = true := by
  decide +kernel

/-- `qshift_32` is orthonormal only to 2^-28 (its defect is 1.5e-9), reversal identities exact -/
theorem qshift_32_ok : (qshiftTables.filter fun p => p.1 == "qshift_32").all (fun p => qshiftOK p.2 28) = true := by
  decide +kernel

/-- every file is classified: it is a level-1 table, a q-shift table, or one of the two recorded exceptions -/
theorem all_tables_classified :
    allTables.all (fun p => hasKey p.2 "h0o" || hasKey p.2 "h0a") = true := by decide +kernel

/-- the loaders only ever request keys of these two families -/
theorem loader_keys_known :
    (level1_keysets ++ qshift_keysets).all (fun ks => ks.all fun k =>
      ["h0o","g0o","h1o","g1o","h2o","g2o","h0a","h0b","g0a","g0b","h1a","h1b","g1a","g1b","h2a","h2b","g2a","g2b"].contains k) = true := by
  decide +kernel

/-- known finding, witnessed: the two first-stage tables the q-shift loader also accepts do not
satisfy the q-shift identities (tree b is not the reverse of tree a) -/
theorem farras_not_qshift : (allTables.filter fun p => notQshift.contains p.1).all (fun p => !(qshiftOK p.2 28)) = true := by
  decide +kernel

/-- non-vacuity: there are level-1 and q-shift tables, and the tolerance is meaningful
(antonini is *not* bit-exactly symmetric) -/
example : level1Tables.length ≥ 4 ∧ qshiftTables.length ≥ 5 := by decide +kernel
example : symOK antonini_h0o 52 = false := by decide +kernel

end WV.C18
