/-
  The size arithmetic of the non-separable banks (`afb2d_nonsep`, `sfb2d_nonsep`) and of the a-trous bank (`afb1d_atrous`),
  tied to the source by translation.

  `Gen/Sizes.lean` is regenerated on every run; its `nonsep_*` and `atrous_*` definitions are the integer expressions of
  `dwt/lowlevel.py` read at fixed statement shapes (the odd-size tests, `pad = (Ly-1, Lx-1)`, the shifts of the two `roll`
  calls by their `dim=`, the bounds of the two in-place wrap-around folds, the two-axis crop, `p1` / `p2`, the `padding=` of the
  zero-mode convolution, the four entries of the `mypad` tuple; `L2` and the pad tuple of the a-trous bank).  The theorems
  below restate the hand-written models with those generated expressions substituted, for all sizes and filter lengths: an
  edit of one of the expressions in the source breaks a theorem here whether or not a sampled input shows it.
-/
import WaveletsVerif.Gen.Sizes
import WaveletsVerif.Lemmas.Basic
import WaveletsVerif.Model.Dwt
namespace WV.C19Z
open WV WV.Gen.Sizes
variable {R : Type} [CommRing R]

/-- the periodization branch of `afb2d_nonsep` written with the generated arithmetic -/
def afb2dNonsepPerGen (hc0 hc1 hr0 hr1 : List R) (x : Img R) : Option (List (Img R)) :=
  let Ly : Int := hc0.length
  let Lx : Int := hr0.length
  let fs := [outerRev hc0 hr0, outerRev hc1 hr0, outerRev hc0 hr1, outerRev hc1 hr1]
  let x1 : Img R := if (x.length : Int) % 2 = 1 then x ++ sliceFrom x (-1) else x
  let x2 : Img R := if (x1.width : Int) % 2 = 1 then x1.map (fun r => r ++ sliceFrom r (-1)) else x1
  let Ny : Int := x2.length
  let Nx : Int := x2.width
  let x3 := rollPy x2 (nonsep_per_shift_y Ly)
  let x4 := x3.map fun r => rollPy r (nonsep_per_shift_x Lx)
  let py := (nonsep_per_pad_y Ly).toNat
  let px := (nonsep_per_pad_x Lx).toNat
  let xp := (izero py (x2.width + 2*px)) ++ (x4.map fun r => zeroPad r px px) ++ (izero py (x2.width + 2*px))
  fs.mapM fun f => do
    let y := corr2 f xp nonsep_per_stride_y.toNat nonsep_per_stride_x.toNat
    let y1 ← foldAddInPlaceRows false y (nonsep_per_fold_width_y Ly Ny).toNat (nonsep_per_fold_from_y Ly Ny).toNat
    let y2 ← foldAddInPlaceCols y1 (nonsep_per_fold_width_x Lx Nx).toNat (nonsep_per_fold_from_x Lx Nx).toNat
    some ((y2.take (nonsep_per_crop_y Ny).toNat).map fun r => r.take (nonsep_per_crop_x Nx).toNat)

theorem nat_half (n : Nat) : ((n : Int) / 2).toNat = n / 2 := by omega
theorem nat_pred (n : Nat) : ((n : Int) - 1).toNat = n - 1 := by omega
theorem nat_pred2 (n : Nat) : ((n : Int) - 2).toNat = n - 2 := by omega
theorem nat_dbl (n : Nat) : ((2 : Int) * (n : Int)).toNat = 2 * n := by omega
theorem neg_half (n : Nat) : (-((n : Int) / 2)) = -(((n / 2 : Nat)) : Int) := by omega
theorem one_sub_half (n : Nat) : ((1 : Int) - (n : Int) / 2) = 1 - (((n / 2 : Nat)) : Int) := by omega
theorem odd_cast (n : Nat) : ((n : Int) % 2 = 1) ↔ n % 2 = 1 := by omega

/-- **`afb2d_nonsep`, periodization, with the generated odd tests, pads, strides, roll shifts, fold bounds and crops** -/
theorem afb2dNonsepCh_per_gen (hc0 hc1 hr0 hr1 : List R) (x : Img R)
    (hg : ¬ (hc0.length < 2 ∨ hr0.length < 2 ∨ hc1.length ≠ hc0.length ∨ hr1.length ≠ hr0.length ∨ x.length < 1 ∨ x.width < 1)) :
    afb2dNonsepCh .periodization hc0 hc1 hr0 hr1 x = afb2dNonsepPerGen hc0 hc1 hr0 hr1 x ∧
    (∀ N : Int, nonsep_per_odd_rows N ↔ N % 2 = 1) ∧ (∀ N : Int, nonsep_per_odd_cols N ↔ N % 2 = 1) ∧
    (∀ L N : Int, nonsep_per_fold_to_y L N = nonsep_per_fold_from_y L N + nonsep_per_fold_width_y L N) ∧
    (∀ L N : Int, nonsep_per_fold_to_x L N = nonsep_per_fold_from_x L N + nonsep_per_fold_width_x L N) := by
  refine ⟨?_, fun _ => Iff.rfl, fun _ => Iff.rfl, fun _ _ => rfl, fun _ _ => rfl⟩
  simp only [afb2dNonsepCh, hg, if_false, afb2dNonsepPerGen, nonsep_per_shift_y, nonsep_per_shift_x, nonsep_per_pad_y, nonsep_per_pad_x,
    nonsep_per_stride_y, nonsep_per_stride_x, nonsep_per_fold_width_y, nonsep_per_fold_from_y, nonsep_per_fold_width_x,
    nonsep_per_fold_from_x, nonsep_per_crop_y, nonsep_per_crop_x, nat_half, nat_pred, neg_half, odd_cast]
  rfl

/-- the periodization branch of `sfb2d_nonsep` after the sum of the four transposed convolutions, with the generated arithmetic -/
def sfb2dNonsepPostGen (Ly Lx Ny Nx : Nat) (dense : Bool) (full : Img R) : Option (Img R) := do
  let y1 ← foldAddInPlaceRows dense full (nonsep_syn_fold_width_y Ly Ny).toNat (nonsep_syn_fold_from_y Ly Ny).toNat
  let y2 ← foldAddInPlaceCols y1 (nonsep_syn_fold_width_x Lx Nx).toNat (nonsep_syn_fold_from_x Lx Nx).toNat
  let y3 := (y2.take (nonsep_syn_crop_y Ny).toNat).map fun r => r.take (nonsep_syn_crop_x Nx).toNat
  let y4 := rollPy y3 (nonsep_syn_shift_y Ly)
  some (y4.map fun r => rollPy r (nonsep_syn_shift_x Lx))

/-- **`sfb2d_nonsep`, periodization, with the generated fold bounds, crops and roll shifts** -/
theorem sfb2dNonsepCh_per_gen (dense : Bool) (gc0 gc1 gr0 gr1 : List R) (bands : List (Img R))
    (hg : ¬ (gc0.length < 2 ∨ gr0.length < 2 ∨ gc1.length ≠ gc0.length ∨ gr1.length ≠ gr0.length ∨ (bands.getD 0 []).length < 1 ∨
      (bands.getD 0 []).width < 1 ∨ bands.length ≠ 4)) :
    sfb2dNonsepCh .periodization dense gc0 gc1 gr0 gr1 bands
      = sfb2dNonsepPostGen gc0.length gr0.length (bands.getD 0 []).length (bands.getD 0 []).width dense
          ((List.range 4).foldl (fun acc k => iadd acc (convT2Full ([outer gc0 gr0, outer gc1 gr0, outer gc0 gr1, outer gc1 gr1].getD k []) (bands.getD k [])))
            (izero (2*((bands.getD 0 []).length-1)+gc0.length) (2*((bands.getD 0 []).width-1)+gr0.length))) ∧
    (∀ L N : Int, nonsep_syn_fold_to_y L N = nonsep_syn_fold_from_y L N + nonsep_syn_fold_width_y L N) ∧
    (∀ L N : Int, nonsep_syn_fold_to_x L N = nonsep_syn_fold_from_x L N + nonsep_syn_fold_width_x L N) := by
  refine ⟨?_, fun _ _ => by unfold nonsep_syn_fold_to_y nonsep_syn_fold_from_y nonsep_syn_fold_width_y; ring,
    fun _ _ => by unfold nonsep_syn_fold_to_x nonsep_syn_fold_from_x nonsep_syn_fold_width_x; ring⟩
  simp only [sfb2dNonsepCh, hg, if_false, sfb2dNonsepPostGen, nonsep_syn_fold_width_y, nonsep_syn_fold_from_y, nonsep_syn_fold_width_x,
    nonsep_syn_fold_from_x, nonsep_syn_crop_y, nonsep_syn_crop_x, nonsep_syn_shift_y, nonsep_syn_shift_x, nat_pred2, nat_dbl, one_sub_half]

/-- the padded modes of both banks: `p1`, `p2`, the zero-mode padding, the `mypad` tuple and the synthesis crop are the model's -/
theorem nonsep_pads (Ny Nx Ly Lx : Nat) (hLy : 2 ≤ Ly) (hLx : 2 ≤ Lx) (hNy : 1 ≤ Ny) (hNx : 1 ≤ Nx) :
    nonsep_p1 (dwtCoeffLen Ny Ly) Ny Ly = ((2 * (dwtCoeffLen Ny Ly - 1) + Ly - Ny : Nat) : Int) ∧
    nonsep_p2 (dwtCoeffLen Nx Lx) Nx Lx = ((2 * (dwtCoeffLen Nx Lx - 1) + Lx - Nx : Nat) : Int) ∧
    (∀ p : Nat, (nonsep_zero_pad_y p).toNat = p / 2 ∧ (nonsep_zero_pad_x p).toNat = p / 2 ∧
      (nonsep_ext_before_y p).toNat = p / 2 ∧ (nonsep_ext_after_y p).toNat = (p + 1) / 2 ∧
      (nonsep_ext_before_x p).toNat = p / 2 ∧ (nonsep_ext_after_x p).toNat = (p + 1) / 2) ∧
    (nonsep_syn_pad_y Ly).toNat = Ly - 2 ∧ (nonsep_syn_pad_x Lx).toNat = Lx - 2 := by
  refine ⟨by unfold nonsep_p1 dwtCoeffLen; omega, by unfold nonsep_p2 dwtCoeffLen; omega, fun p => ?_, by unfold nonsep_syn_pad_y; omega,
    by unfold nonsep_syn_pad_x; omega⟩
  unfold nonsep_zero_pad_y nonsep_zero_pad_x nonsep_ext_before_y nonsep_ext_after_y nonsep_ext_before_x nonsep_ext_after_x
  omega

/-- **`afb1d_atrous` with the generated `L2` and pad tuple** (both axes give the same split) -/
theorem afb1dAtrousOne_gen (mode : Mode) (d : Nat) (w x : List R)
    (hg : ¬ (w.length < 2 ∨ x.length < 1 ∨ d < 1 ∨ (w.length * d) / 2 < d)) (hm : mode = .periodic ∨ mode = .symmetric ∨ mode = .zero) :
    afb1dAtrousOne mode d w x = some (corr w (match mode with
      | .periodic => padIdx perIdx x (atrous_before_W (atrous_L2 w.length d) d).toNat (atrous_after_W (atrous_L2 w.length d) d).toNat
      | .symmetric => padIdx symIdx x (atrous_before_W (atrous_L2 w.length d) d).toNat (atrous_after_W (atrous_L2 w.length d) d).toNat
      | _ => zeroPad x (atrous_before_W (atrous_L2 w.length d) d).toNat (atrous_after_W (atrous_L2 w.length d) d).toNat) 1 d) ∧
    (∀ L2 dl : Int, atrous_before_H L2 dl = atrous_before_W L2 dl ∧ atrous_after_H L2 dl = atrous_after_W L2 dl) := by
  refine ⟨?_, fun _ _ => ⟨rfl, rfl⟩⟩
  have e1 : (atrous_before_W (atrous_L2 w.length d) d).toNat = (w.length * d) / 2 - d := by
    unfold atrous_before_W atrous_L2
    have : ((w.length : Int) * (d : Int)) / 2 = (((w.length * d) / 2 : Nat) : Int) := by push_cast; rfl
    rw [this]; omega
  have e2 : (atrous_after_W (atrous_L2 w.length d) d).toNat = (w.length * d) / 2 := by
    unfold atrous_after_W atrous_L2
    have : ((w.length : Int) * (d : Int)) / 2 = (((w.length * d) / 2 : Nat) : Int) := by push_cast; rfl
    rw [this]; omega
  rw [e1, e2]
  rcases hm with rfl | rfl | rfl <;> simp only [afb1dAtrousOne, hg, if_false]


/-! ### the `roll` helper and the filter-preparation helpers -/

/-- **`roll(x, n, dim)` (with `make_even=False`) read from the source**: the model's `rollPy` is the concatenation of the two slices
whose bounds the source gives, with the shift normalised as the source normalises it — the same for all four `dim` branches -/
theorem rollPy_gen {α : Type} (x : List α) (n : Int) :
    rollPy x n = sliceFrom x (roll_first_from_3 (roll_norm n x.length)) ++ sliceTo x (roll_second_to_3 (roll_norm n x.length) 0) ∧
    (∀ m e : Int, roll_first_from_0 m = roll_first_from_3 m ∧ roll_first_from_1 m = roll_first_from_3 m ∧ roll_first_from_2 m = roll_first_from_3 m ∧
      roll_second_to_0 m e = roll_second_to_3 m e ∧ roll_second_to_1 m e = roll_second_to_3 m e ∧ roll_second_to_2 m e = roll_second_to_3 m e) := by
  refine ⟨?_, fun _ _ => ⟨rfl, rfl, rfl, rfl, rfl, rfl⟩⟩
  unfold rollPy roll_first_from_3 roll_second_to_3 roll_norm
  simp only [add_zero]

/-- the analysis helpers mirror the taps and the synthesis helper does not — what `DWT1DForwardM` / `DWTForwardM` (buffers =
reversed filters) and `DWTInverseM` (filters as given) assume; the DTCWT helper mirrors too (`prepFilt = reverse`) -/
theorem prep_mirrors_gen : prep_afb1d_mirrors_h0 = true ∧ prep_afb1d_mirrors_h1 = true ∧ prep_sfb1d_mirrors_g0 = false ∧
    prep_sfb1d_mirrors_g1 = false ∧ dtcwt_prep_filt_mirrors = true := by decide

end WV.C19Z
