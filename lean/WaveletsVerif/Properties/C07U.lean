/-
  C07 — linearity of the inverse DTCWT on pyramids of one forward-compatible shape (all levels present), for every
  number of levels.

  The reference inverse `Spec.refInverse` (which the implementation model of `DTCWTInverse` equals, C11P) is built from
  `c2q` (one sample of four poly-phase images per output pixel), the synthesis filters `colfilter` / `colifilt` along
  columns and rows, image sums, and the crop `[1:-1]` between levels.  Each is linear on images of one shape with an
  output shape depending on the input shape only (`c2q_lin`, `lin_spec_colifilt`, `iadd_lin`, `cropToHighs_lin`); hence
  every level (`refInvLevel1_lin`, `refInvLevel2_lin`), the coarse-to-fine recursion (`refInvGo_lin`), the whole
  `refInverse` (`refInverse_linear`) and, with C11P, the module (`DTCWTInverse_linear`).
-/
import WaveletsVerif.Properties.C07T
import WaveletsVerif.Properties.C11P
namespace WV.C07U
open Finset WV WV.C04 WV.C04Q WV.C04P WV.C03P WV.C11P WV.C06 WV.C05D WV.C07 WV.C07L WV.C07T
variable {R : Type} [CommRing R]

theorem lin_spec_colifilt (ha hb : List R) (hp : Bool) : Lin (Spec.colifilt ha hb hp) := by
  intro a b x y hxy
  have hsum : ∀ (h : List R) (off : Nat) (c : Int) (v : Nat),
      (sumN (ha.length / 2) fun j => getN h (ha.length - off - 2*j) * Spec.xt (lincomb a b x y) (2*((v:Int) + j) + c - ((ha.length / 2 : Nat):Int)))
        = a * (sumN (ha.length / 2) fun j => getN h (ha.length - off - 2*j) * Spec.xt x (2*((v:Int) + j) + c - ((ha.length / 2 : Nat):Int)))
          + b * (sumN (ha.length / 2) fun j => getN h (ha.length - off - 2*j) * Spec.xt y (2*((v:Int) + j) + c - ((ha.length / 2 : Nat):Int))) := by
    intro h off c v
    rw [← sumN_lc]; congr 1; funext j; rw [xt_lincomb a b x y hxy]; ring
  constructor
  · unfold Spec.colifilt
    simp only [lincomb_length]
    apply list_ext_getN
    · simp [hxy]
    · intro i hi
      simp only [length_tab] at hi
      have hi' : i < 2 * y.length := by rw [← hxy]; exact hi
      rw [getN_lincomb a b _ _ (by simp [hxy])]
      simp only [getN_tab, hi, hi', if_true]
      have h4 : i % 4 = 0 ∨ i % 4 = 1 ∨ i % 4 = 2 ∨ i % 4 = 3 := by omega
      by_cases hm : ha.length / 2 % 2 = 0 <;> cases hp <;> rcases h4 with h4 | h4 | h4 | h4 <;>
        simp only [hm, h4, if_true, if_false, Bool.false_eq_true] <;> exact hsum _ _ _ _
  · simp [Spec.colifilt, hxy]

/-! ### `c2q`, sums, crops -/

/-- six complex bands, real and imaginary parts all of shape `r × c` -/
def BandRect (o : List (Cplx R)) (r c : Nat) : Prop :=
  o.length = 6 ∧ ∀ k < 6, Rect (o.getD k ([], [])).1 r c ∧ Rect (o.getD k ([], [])).2 r c

theorem BandRect.ok {o : List (Cplx R)} {r c : Nat} (h : BandRect o r c) (hr : 1 ≤ r) : BandOK o r c := by
  intro k hk
  exact ⟨(h.2 k hk).1.1, rect_width _ _ _ (h.2 k hk).1 hr⟩

theorem blin_getD (a b : R) (o o' : List (Cplx R)) (ho : o.length = 6) (ho' : o'.length = 6) (k : Nat) (hk : k < 6) :
    (blin a b o o').getD k ([], []) = clin a b (o.getD k ([], [])) (o'.getD k ([], [])) := by
  unfold blin
  rw [List.getD_eq_getElem?_getD, List.getD_eq_getElem?_getD, List.getD_eq_getElem?_getD, List.getElem?_zipWith,
    List.getElem?_eq_getElem (by omega), List.getElem?_eq_getElem (by omega)]
  rfl

theorem blin_rect (a b : R) (o o' : List (Cplx R)) (r c : Nat) (ho : BandRect o r c) (ho' : BandRect o' r c) :
    BandRect (blin a b o o') r c := by
  refine ⟨by simp [blin, ho.1, ho'.1], ?_⟩
  intro k hk
  rw [blin_getD a b o o' ho.1 ho'.1 k hk]
  exact ⟨ilin_rect a b _ _ r c (ho.2 k hk).1, ilin_rect a b _ _ r c (ho.2 k hk).2⟩

theorem c2q_lin (s a b : R) (u1 u1' u2 u2' : Cplx R) (r c : Nat) (hr : 1 ≤ r)
    (h1 : Rect u1.1 r c ∧ Rect u1.2 r c) (h1' : Rect u1'.1 r c ∧ Rect u1'.2 r c)
    (h2 : Rect u2.1 r c ∧ Rect u2.2 r c) (h2' : Rect u2'.1 r c ∧ Rect u2'.2 r c) :
    c2q s (clin a b u1 u1') (clin a b u2 u2') = ilin a b (c2q s u1 u2) (c2q s u1' u2') ∧ Rect (c2q s u1 u2) (2*r) (2*c) := by
  obtain ⟨u1r, u1i⟩ := u1; obtain ⟨u1r', u1i'⟩ := u1'; obtain ⟨u2r, u2i⟩ := u2; obtain ⟨u2r', u2i'⟩ := u2'
  simp only at h1 h1' h2 h2'
  have rl := ilin_rect a b u1r u1r' r c h1.1
  have e : ∀ u : Img R, Rect u r c → (2 * u.length = 2 * r ∧ 2 * Img.width u = 2 * c) := fun u hu => by
    rw [hu.1, rect_width u r c hu hr]; exact ⟨rfl, rfl⟩
  have sh : c2q s (u1r, u1i) (u2r, u2i) = tab2 (2*r) (2*c) fun i j =>
      s * (if i % 2 = 0 then (if j % 2 = 0 then get2 u1r (i/2) (j/2) + get2 u2r (i/2) (j/2) else get2 u1i (i/2) (j/2) + get2 u2i (i/2) (j/2))
           else (if j % 2 = 0 then get2 u1i (i/2) (j/2) - get2 u2i (i/2) (j/2) else -(get2 u1r (i/2) (j/2)) + get2 u2r (i/2) (j/2))) := by
    unfold c2q; simp only [(e u1r h1.1).1, (e u1r h1.1).2]
  have sh' : c2q s (u1r', u1i') (u2r', u2i') = tab2 (2*r) (2*c) fun i j =>
      s * (if i % 2 = 0 then (if j % 2 = 0 then get2 u1r' (i/2) (j/2) + get2 u2r' (i/2) (j/2) else get2 u1i' (i/2) (j/2) + get2 u2i' (i/2) (j/2))
           else (if j % 2 = 0 then get2 u1i' (i/2) (j/2) - get2 u2i' (i/2) (j/2) else -(get2 u1r' (i/2) (j/2)) + get2 u2r' (i/2) (j/2))) := by
    unfold c2q; simp only [(e u1r' h1'.1).1, (e u1r' h1'.1).2]
  refine ⟨?_, by rw [sh]; exact tab2_rect _ _ _⟩
  rw [sh, sh', ilin_eq_tab2 a b _ _ (2*r) (2*c) (tab2_rect _ _ _) (tab2_rect _ _ _)]
  unfold c2q clin
  simp only [(e _ rl).1, (e _ rl).2]
  apply tab2_congr; intro i hi j hj
  rw [C19.get2_tab2 _ _ _ _ _ hi hj, C19.get2_tab2 _ _ _ _ _ hi hj]
  have hp : i / 2 < r := by omega
  rw [get2_ilin a b u1r u1r' r c h1.1 h1'.1 _ _ hp, get2_ilin a b u2r u2r' r c h2.1 h2'.1 _ _ hp,
    get2_ilin a b u1i u1i' r c h1.2 h1'.2 _ _ hp, get2_ilin a b u2i u2i' r c h2.2 h2'.2 _ _ hp]
  split <;> split <;> ring

theorem iadd_lin (a b : R) (x x' y y' : Img R) (H W : Nat) (hx : Rect x H W) (hx' : Rect x' H W) (hy : Rect y H W) (hy' : Rect y' H W) :
    iadd (ilin a b x x') (ilin a b y y') = ilin a b (iadd x y) (iadd x' y') := by
  have r1 := iadd_rect H W x y hx hy
  have r1' := iadd_rect H W x' y' hx' hy'
  rw [ilin_eq_tab2 a b x x' H W hx hx', ilin_eq_tab2 a b y y' H W hy hy', iadd_tab2, ilin_eq_tab2 a b _ _ H W r1 r1']
  apply tab2_congr; intro i hi j hj
  have e1 : get2 (iadd x y) i j = get2 x i j + get2 y i j := by
    conv_lhs => rw [rect_eq_tab2 x H W hx, rect_eq_tab2 y H W hy, iadd_tab2, C19.get2_tab2 _ _ _ _ _ hi hj]
  have e2 : get2 (iadd x' y') i j = get2 x' i j + get2 y' i j := by
    conv_lhs => rw [rect_eq_tab2 x' H W hx', rect_eq_tab2 y' H W hy', iadd_tab2, C19.get2_tab2 _ _ _ _ _ hi hj]
  rw [e1, e2]; ring

omit [CommRing R] in
theorem take_tab {α : Type} (k n : Nat) (f : Nat → α) : (tab n f).take k = tab (min k n) f := by
  unfold tab
  rw [← List.map_take, List.take_range]

theorem ilin_take (a b : R) (x y : Img R) (k : Nat) :
    (ilin a b x y).take k = ilin a b (x.take k) (y.take k) := by
  unfold ilin
  rw [take_tab, List.length_take]
  apply tab_ext rfl
  intro i hi
  have hik : i < k := by omega
  congr 1
  · rw [List.getD_eq_getElem?_getD, List.getD_eq_getElem?_getD, List.getElem?_take, if_pos hik]
  · rw [List.getD_eq_getElem?_getD, List.getD_eq_getElem?_getD, List.getElem?_take, if_pos hik]

omit [CommRing R] in
theorem drop_tab {α : Type} (k n : Nat) (f : Nat → α) : (tab n f).drop k = tab (n - k) fun i => f (k + i) := by
  unfold tab
  apply List.ext_getElem
  · simp
  · intro i h1 h2
    simp

theorem ilin_drop (a b : R) (x y : Img R) (k : Nat) (hl : x.length = y.length) :
    (ilin a b x y).drop k = ilin a b (x.drop k) (y.drop k) := by
  unfold ilin
  rw [drop_tab, List.length_drop]
  apply tab_ext rfl
  intro i _
  congr 1
  · rw [List.getD_eq_getElem?_getD, List.getD_eq_getElem?_getD, List.getElem?_drop]
  · rw [List.getD_eq_getElem?_getD, List.getD_eq_getElem?_getD, List.getElem?_drop]

omit [CommRing R] in
theorem drop_rect (x : Img R) (H W k : Nat) (hx : Rect x H W) : Rect (x.drop k) (H - k) W :=
  ⟨by rw [List.length_drop, hx.1], fun r hr => hx.2 r (List.mem_of_mem_drop hr)⟩

/-- the row slice `Y[1:-1]` of an image is linear -/
theorem rowSlice_lin (a b : R) (x y : Img R) (H W : Nat) (hx : Rect x H W) (hy : Rect y H W) :
    slice (ilin a b x y) 1 (-1) = ilin a b (slice x 1 (-1)) (slice y 1 (-1)) := by
  have rl := ilin_rect a b x y H W hx
  unfold slice
  rw [rl.1, hx.1, hy.1, ilin_take a b x y, ilin_drop a b _ _ _ (by rw [List.length_take, List.length_take, hx.1, hy.1])]

/-- **the crop between levels is linear** -/
theorem cropToHighs_lin (a b : R) (x y : Img R) (H W r c : Nat) (hr : 1 ≤ r) (hc : 1 ≤ c) (hx : Rect x H W) (hy : Rect y H W)
    (hH : H = 2*r ∨ H = 2*r + 2) (hW : W = 2*c ∨ W = 2*c + 2) :
    cropToHighs (ilin a b x y) r c = ilin a b (cropToHighs x r c) (cropToHighs y r c) := by
  have rl := ilin_rect a b x y H W hx
  have hrow : ∀ z : Img R, Rect z H W → Rect (if z.length ≠ 2*r then slice z 1 (-1) else z) (2*r) W := by
    intro z hz
    by_cases hcn : z.length ≠ 2*r
    · rw [if_pos hcn]
      have hlen : z.length = 2*r + 2 := by rw [hz.1] at hcn ⊢; omega
      rw [slice_one_neg_one z (by omega)]
      refine ⟨by rw [List.length_drop, List.length_take]; omega, ?_⟩
      intro row hrow
      exact hz.2 row (List.mem_of_mem_take (List.mem_of_mem_drop hrow))
    · rw [if_neg hcn]
      have : z.length = 2*r := by omega
      exact ⟨this, hz.2⟩
  unfold cropToHighs
  have w1 := rect_width _ _ _ (hrow x hx) (by omega)
  have w1' := rect_width _ _ _ (hrow y hy) (by omega)
  have wl := rect_width _ _ _ (hrow _ rl) (by omega)
  simp only [w1, w1', wl]
  have e1 : (if (ilin a b x y).length ≠ 2*r then slice (ilin a b x y) 1 (-1) else ilin a b x y)
      = ilin a b (if x.length ≠ 2*r then slice x 1 (-1) else x) (if y.length ≠ 2*r then slice y 1 (-1) else y) := by
    rw [rl.1, hx.1, hy.1]
    by_cases hcn : H ≠ 2*r
    · rw [if_pos hcn, if_pos hcn, if_pos hcn]; exact rowSlice_lin a b x y H W hx hy
    · rw [if_neg hcn, if_neg hcn, if_neg hcn]
  rw [e1]
  by_cases hcw : W ≠ 2*c
  · rw [if_pos hcw, if_pos hcw, if_pos hcw]
    exact alongW_lin (lin_slice 1 (-1)) a b _ _ (2*r) W (hrow x hx) (hrow y hy)
  · rw [if_neg hcw, if_neg hcw, if_neg hcw]

/-! ### the levels -/

theorem outLen_colifilt (ha hb : List R) (hp : Bool) (n : Nat) : outLen (Spec.colifilt ha hb hp) n = 2 * n := by
  simp [outLen, Spec.colifilt]

theorem orientationsToHighs_lin (s a b : R) (o o' : List (Cplx R)) (r c : Nat) (hr : 1 ≤ r) (ho : BandRect o r c) (ho' : BandRect o' r c) :
    orientationsToHighs s (blin a b o o')
      = (ilin a b (orientationsToHighs s o).1 (orientationsToHighs s o').1,
         ilin a b (orientationsToHighs s o).2.1 (orientationsToHighs s o').2.1,
         ilin a b (orientationsToHighs s o).2.2 (orientationsToHighs s o').2.2) ∧
    Rect (orientationsToHighs s o).1 (2*r) (2*c) ∧ Rect (orientationsToHighs s o).2.1 (2*r) (2*c) ∧
    Rect (orientationsToHighs s o).2.2 (2*r) (2*c) := by
  have g := fun k (hk : k < 6) => blin_getD a b o o' ho.1 ho'.1 k hk
  have q := fun (k l : Nat) (hk : k < 6) (hl : l < 6) =>
    c2q_lin s a b (o.getD k ([], [])) (o'.getD k ([], [])) (o.getD l ([], [])) (o'.getD l ([], [])) r c hr
      (ho.2 k hk) (ho'.2 k hk) (ho.2 l hl) (ho'.2 l hl)
  unfold orientationsToHighs
  simp only []
  rw [g 0 (by omega), g 1 (by omega), g 2 (by omega), g 3 (by omega), g 4 (by omega), g 5 (by omega),
    (q 0 5 (by omega) (by omega)).1, (q 2 3 (by omega) (by omega)).1, (q 1 4 (by omega) (by omega)).1]
  exact ⟨rfl, (q 0 5 (by omega) (by omega)).2, (q 2 3 (by omega) (by omega)).2, (q 1 4 (by omega) (by omega)).2⟩

/-- the synthesis of one level from four images of one shape: `alongW F0 (alongH F0 Z + alongH F1 lh) + alongW F1 (alongH F0 hl + alongH F1 hh)`,
for any two linear list operators with equal output lengths -/
theorem synth4_lin {F0 F1 : List R → List R} (l0 : Lin F0) (l1 : Lin F1) (hlen : ∀ n, outLen F1 n = outLen F0 n) (a b : R)
    (Z Z' lh lh' hl hl' hh hh' : Img R) (H W : Nat) (hH : 1 ≤ H) (hW : 1 ≤ W) (hHo : 1 ≤ outLen F0 H)
    (rZ : Rect Z H W) (rZ' : Rect Z' H W) (r1 : Rect lh H W) (r1' : Rect lh' H W) (r2 : Rect hl H W) (r2' : Rect hl' H W)
    (r3 : Rect hh H W) (r3' : Rect hh' H W) :
    iadd (alongW F0 (iadd (alongH F0 (ilin a b Z Z')) (alongH F1 (ilin a b lh lh'))))
         (alongW F1 (iadd (alongH F0 (ilin a b hl hl')) (alongH F1 (ilin a b hh hh'))))
      = ilin a b (iadd (alongW F0 (iadd (alongH F0 Z) (alongH F1 lh))) (alongW F1 (iadd (alongH F0 hl) (alongH F1 hh))))
                 (iadd (alongW F0 (iadd (alongH F0 Z') (alongH F1 lh'))) (alongW F1 (iadd (alongH F0 hl') (alongH F1 hh')))) ∧
    Rect (iadd (alongW F0 (iadd (alongH F0 Z) (alongH F1 lh))) (alongW F1 (iadd (alongH F0 hl) (alongH F1 hh)))) (outLen F0 H) (outLen F0 W) := by
  have a0 := fun (x : Img R) (hx : Rect x H W) => alongH_lin_rect l0 x H W hx hH hW
  have a1 := fun (x : Img R) (hx : Rect x H W) => by
    have := alongH_lin_rect l1 x H W hx hH hW; rw [hlen] at this; exact this
  have s1 := fun (x y : Img R) (hx : Rect x H W) (hy : Rect y H W) => iadd_rect _ W _ _ (a0 x hx) (a1 y hy)
  have w0 := fun (x : Img R) (hx : Rect x (outLen F0 H) W) => alongW_lin_rect l0 x _ W hx
  have w1 := fun (x : Img R) (hx : Rect x (outLen F0 H) W) => by
    have := alongW_lin_rect l1 x _ W hx; rw [hlen] at this; exact this
  constructor
  · rw [alongH_lin l0 a b Z Z' H W rZ rZ' hH hW, alongH_lin l1 a b lh lh' H W r1 r1' hH hW,
      alongH_lin l0 a b hl hl' H W r2 r2' hH hW, alongH_lin l1 a b hh hh' H W r3 r3' hH hW,
      iadd_lin a b _ _ _ _ _ W (a0 Z rZ) (a0 Z' rZ') (a1 lh r1) (a1 lh' r1'),
      iadd_lin a b _ _ _ _ _ W (a0 hl r2) (a0 hl' r2') (a1 hh r3) (a1 hh' r3'),
      alongW_lin l0 a b _ _ _ W (s1 Z lh rZ r1) (s1 Z' lh' rZ' r1'), alongW_lin l1 a b _ _ _ W (s1 hl hh r2 r3) (s1 hl' hh' r2' r3'),
      iadd_lin a b _ _ _ _ _ _ (w0 _ (s1 Z lh rZ r1)) (w0 _ (s1 Z' lh' rZ' r1')) (w1 _ (s1 hl hh r2 r3)) (w1 _ (s1 hl' hh' r2' r3'))]
  · exact iadd_rect _ _ _ _ (w0 _ (s1 Z lh rZ r1)) (w1 _ (s1 hl hh r2 r3))

/-- **a level ≥ 2 of the reference inverse is linear** in the low-pass and the six complex bands -/
theorem refInvLevel2_lin (s : R) (g0a g0b g1a g1b : List R) (a b : R) (Z Z' : Img R) (o o' : List (Cplx R)) (r c : Nat)
    (hr : 1 ≤ r) (hc : 1 ≤ c) (rZ : Rect Z (2*r) (2*c)) (rZ' : Rect Z' (2*r) (2*c)) (ho : BandRect o r c) (ho' : BandRect o' r c) :
    Spec.refInvLevel2 s g0a g0b g1a g1b (ilin a b Z Z') (blin a b o o')
      = ilin a b (Spec.refInvLevel2 s g0a g0b g1a g1b Z o) (Spec.refInvLevel2 s g0a g0b g1a g1b Z' o') ∧
    Rect (Spec.refInvLevel2 s g0a g0b g1a g1b Z o) (4*r) (4*c) := by
  obtain ⟨e, q1, q2, q3⟩ := orientationsToHighs_lin s a b o o' r c hr ho ho'
  obtain ⟨_, q1', q2', q3'⟩ := orientationsToHighs_lin s a b o' o r c hr ho' ho
  have l0 := lin_spec_colifilt (R := R) g0b g0a false
  have l1 := lin_spec_colifilt (R := R) g1b g1a true
  have hlen : ∀ n, outLen (Spec.colifilt g1b g1a true) n = outLen (Spec.colifilt g0b g0a false) n := by
    intro n; rw [outLen_colifilt, outLen_colifilt]
  obtain ⟨p, rr⟩ := synth4_lin l0 l1 hlen a b Z Z' _ _ _ _ _ _ (2*r) (2*c) (by omega) (by omega) (by rw [outLen_colifilt]; omega)
    rZ rZ' q1 q1' q2 q2' q3 q3'
  rw [outLen_colifilt, outLen_colifilt] at rr
  have e4r : 2 * (2 * r) = 4 * r := by ring
  have e4c : 2 * (2 * c) = 4 * c := by ring
  rw [e4r, e4c] at rr
  refine ⟨?_, rr⟩
  unfold Spec.refInvLevel2
  rw [e]
  exact p

/-- **level 1 of the reference inverse is linear** (odd-length level-1 synthesis filters) -/
theorem refInvLevel1_lin (s : R) (g0o g1o : List R) (hg0 : g0o.length % 2 = 1) (hg1 : g1o.length % 2 = 1) (a b : R) (Z Z' : Img R)
    (o o' : List (Cplx R)) (r c : Nat) (hr : 1 ≤ r) (hc : 1 ≤ c) (rZ : Rect Z (2*r) (2*c)) (rZ' : Rect Z' (2*r) (2*c))
    (ho : BandRect o r c) (ho' : BandRect o' r c) :
    Spec.refInvLevel1 s g0o g1o (ilin a b Z Z') (blin a b o o')
      = ilin a b (Spec.refInvLevel1 s g0o g1o Z o) (Spec.refInvLevel1 s g0o g1o Z' o') := by
  obtain ⟨e, q1, q2, q3⟩ := orientationsToHighs_lin s a b o o' r c hr ho ho'
  obtain ⟨_, q1', q2', q3'⟩ := orientationsToHighs_lin s a b o' o r c hr ho' ho
  have l0 := lin_spec_colfilter (R := R) g0o
  have l1 := lin_spec_colfilter (R := R) g1o
  have hlen : ∀ n, outLen (Spec.colfilter g1o) n = outLen (Spec.colfilter g0o) n := by
    intro n; rw [outLen_colfilter, outLen_colfilter]; omega
  obtain ⟨p, _⟩ := synth4_lin l0 l1 hlen a b Z Z' _ _ _ _ _ _ (2*r) (2*c) (by omega) (by omega) (by rw [outLen_colfilter]; omega)
    rZ rZ' q1 q1' q2 q2' q3 q3'
  unfold Spec.refInvLevel1
  rw [e]
  exact p

/-! ### the pyramid -/

/-- two pyramids of one forward-compatible shape above a level whose band size is `(r, c)`: `rest`, `rest'` are the coarser
levels (finest first), `Z`, `Z'` the low-passes; every band real and imaginary part rectangular -/
def PyrR : Nat → Nat → List (List (Cplx R)) → List (List (Cplx R)) → Img R → Img R → Prop
  | r, c, [], [], Z, Z' => Rect Z (2*r) (2*c) ∧ Rect Z' (2*r) (2*c)
  | r, c, b :: rest, b' :: rest', Z, Z' => ∃ r' c', 1 ≤ r' ∧ 1 ≤ c' ∧ BandRect b r' c' ∧ BandRect b' r' c' ∧
      (4*r' = 2*r ∨ 4*r' = 2*r + 2) ∧ (4*c' = 2*c ∨ 4*c' = 2*c + 2) ∧ PyrR r' c' rest rest' Z Z'
  | _, _, _, _, _, _ => False

theorem PyrR.left : ∀ (rest rest' : List (List (Cplx R))) (r c : Nat) (Z Z' : Img R), PyrR r c rest rest' Z Z' → PyrOK r c rest Z
  | [], [], _, _, _, _, h => h.1
  | [], _ :: _, _, _, _, _, h => absurd h (by simp [PyrR])
  | _ :: _, [], _, _, _, _, h => absurd h (by simp [PyrR])
  | b :: rest, b' :: rest', r, c, Z, Z', h => by
    obtain ⟨r', c', hr', hc', hb, _, h1, h2, hrest⟩ := h
    exact ⟨r', c', hr', hc', hb.ok hr', h1, h2, PyrR.left rest rest' r' c' Z Z' hrest⟩

theorem PyrR.right : ∀ (rest rest' : List (List (Cplx R))) (r c : Nat) (Z Z' : Img R), PyrR r c rest rest' Z Z' → PyrOK r c rest' Z'
  | [], [], _, _, _, _, h => h.2
  | [], _ :: _, _, _, _, _, h => absurd h (by simp [PyrR])
  | _ :: _, [], _, _, _, _, h => absurd h (by simp [PyrR])
  | b :: rest, b' :: rest', r, c, Z, Z', h => by
    obtain ⟨r', c', hr', hc', _, hb', h1, h2, hrest⟩ := h
    exact ⟨r', c', hr', hc', hb'.ok hr', h1, h2, PyrR.right rest rest' r' c' Z Z' hrest⟩

theorem PyrR.comb (a b : R) : ∀ (rest rest' : List (List (Cplx R))) (r c : Nat) (Z Z' : Img R), PyrR r c rest rest' Z Z' →
    PyrOK r c (plinC a b rest rest') (ilin a b Z Z')
  | [], [], r, c, Z, _, h => ilin_rect a b Z _ (2*r) (2*c) h.1
  | [], _ :: _, _, _, _, _, h => absurd h (by simp [PyrR])
  | _ :: _, [], _, _, _, _, h => absurd h (by simp [PyrR])
  | b0 :: rest, b0' :: rest', r, c, Z, Z', h => by
    obtain ⟨r', c', hr', hc', hb, hb', h1, h2, hrest⟩ := h
    exact ⟨r', c', hr', hc', (blin_rect a b b0 b0' r' c' hb hb').ok hr', h1, h2, PyrR.comb a b rest rest' r' c' Z Z' hrest⟩

theorem bandSize_rect (o : List (Cplx R)) (r c : Nat) (hr : 1 ≤ r) (h : BandRect o r c) : bandSize o = (r, c) :=
  bandSize_of_ok o r c (h.ok hr)

/-- **the coarse-to-fine recursion of the reference inverse is linear** -/
theorem refInvGo_lin (s : R) (g0a g0b g1a g1b : List R) (a b : R) :
    ∀ (rest rest' : List (List (Cplx R))) (finer finer' : List (Cplx R)) (r c : Nat) (Z Z' : Img R), 1 ≤ r → 1 ≤ c →
      BandRect finer r c → BandRect finer' r c → PyrR r c rest rest' Z Z' →
      Spec.refInvGo s g0a g0b g1a g1b (blin a b finer finer') (plinC a b rest rest') (ilin a b Z Z')
        = ilin a b (Spec.refInvGo s g0a g0b g1a g1b finer rest Z) (Spec.refInvGo s g0a g0b g1a g1b finer' rest' Z') ∧
      Rect (Spec.refInvGo s g0a g0b g1a g1b finer rest Z) (2*r) (2*c) ∧
      Rect (Spec.refInvGo s g0a g0b g1a g1b finer' rest' Z') (2*r) (2*c)
  | [], [], _, _, _, _, _, _, _, _, _, _, h => ⟨rfl, h.1, h.2⟩
  | [], _ :: _, _, _, _, _, _, _, _, _, _, _, h => absurd h (by simp [PyrR])
  | _ :: _, [], _, _, _, _, _, _, _, _, _, _, h => absurd h (by simp [PyrR])
  | b0 :: rest, b0' :: rest', finer, finer', r, c, Z, Z', hr, hc, hf, hf', h => by
    obtain ⟨r', c', hr', hc', hb, hb', h1, h2, hrest⟩ := h
    obtain ⟨e, rz, rz'⟩ := refInvGo_lin s g0a g0b g1a g1b a b rest rest' b0 b0' r' c' Z Z' hr' hc' hb hb' hrest
    obtain ⟨e2, ry⟩ := refInvLevel2_lin s g0a g0b g1a g1b a b _ _ b0 b0' r' c' hr' hc' rz rz' hb hb'
    obtain ⟨_, ry'⟩ := refInvLevel2_lin s g0a g0b g1a g1b a b _ _ b0' b0 r' c' hr' hc' rz' rz hb' hb
    have hH : 4*r' = 2*r ∨ 4*r' = 2*r + 2 := h1
    have hW : 4*c' = 2*c ∨ 4*c' = 2*c + 2 := h2
    have bs := bandSize_rect finer r c hr hf
    have bs' := bandSize_rect finer' r c hr hf'
    have bsl := bandSize_rect _ r c hr (blin_rect a b finer finer' r c hf hf')
    simp only [Spec.refInvGo, plinC, List.zipWith_cons_cons]
    rw [bs, bs', bsl]
    simp only []
    have : List.zipWith (blin a b) rest rest' = plinC a b rest rest' := rfl
    rw [this, e, e2, cropToHighs_lin a b _ _ (4*r') (4*c') r c hr hc ry ry' hH hW]
    exact ⟨rfl, crop_rect _ _ _ r c hr hc ry hH hW, crop_rect _ _ _ r c hr hc ry' hH hW⟩

/-- **the reference inverse DTCWT is linear** on two pyramids of one forward-compatible shape, every number of levels -/
theorem refInverse_linear (s : R) (g0o g1o g0a g0b g1a g1b : List R) (hg0 : g0o.length % 2 = 1) (hg1 : g1o.length % 2 = 1) (a b : R)
    (b1 b1' : List (Cplx R)) (rest rest' : List (List (Cplx R))) (low low' : Img R) (r c : Nat) (hr : 1 ≤ r) (hc : 1 ≤ c)
    (hb : BandRect b1 r c) (hb' : BandRect b1' r c) (hok : PyrR r c rest rest' low low') :
    Spec.refInverse s g0o g1o g0a g0b g1a g1b (ilin a b low low') (plinC a b (b1 :: rest) (b1' :: rest'))
      = ilin a b (Spec.refInverse s g0o g1o g0a g0b g1a g1b low (b1 :: rest)) (Spec.refInverse s g0o g1o g0a g0b g1a g1b low' (b1' :: rest')) := by
  obtain ⟨e, rz, rz'⟩ := refInvGo_lin s g0a g0b g1a g1b a b rest rest' b1 b1' r c low low' hr hc hb hb' hok
  simp only [Spec.refInverse, plinC, List.zipWith_cons_cons]
  have : List.zipWith (blin a b) rest rest' = plinC a b rest rest' := rfl
  rw [this, e]
  exact refInvLevel1_lin s g0o g1o hg0 hg1 a b _ _ b1 b1' r c hr hc rz rz' hb hb'

/-- **the inverse DTCWT of the implementation model is linear** on pyramids of one forward-compatible shape with all levels
present: it returns on `P`, on `Q` and on `a·P + b·Q`, and the third result is `a·` the first `+ b·` the second -/
theorem DTCWTInverse_linear (s : R) (g0o g1o g0a g0b g1a g1b : List R) (hm0 : g0b.length % 2 = 0) (hm0' : 2 ≤ g0b.length)
    (hab0 : g0a.length = g0b.length) (hm1 : g1b.length % 2 = 0) (hm1' : 2 ≤ g1b.length) (hab1 : g1a.length = g1b.length)
    (hg0 : g0o.length % 2 = 1) (hg1 : g1o.length % 2 = 1) (a b : R)
    (b1 b1' : List (Cplx R)) (rest rest' : List (List (Cplx R))) (low low' : Img R) (r c : Nat) (hr : 1 ≤ r) (hc : 1 ≤ c)
    (hb : BandRect b1 r c) (hb' : BandRect b1' r c) (hok : PyrR r c rest rest' low low') :
    ∃ u v,
      DTCWTInverse s true (mkGg g0o g1o g0a g0b g1a g1b) (((b1 :: rest).map some).map bsz) (bsz (some b1)) (some low)
        ((b1 :: rest).map some) = some u ∧
      DTCWTInverse s true (mkGg g0o g1o g0a g0b g1a g1b) (((b1' :: rest').map some).map bsz) (bsz (some b1')) (some low')
        ((b1' :: rest').map some) = some v ∧
      DTCWTInverse s true (mkGg g0o g1o g0a g0b g1a g1b) (((plinC a b (b1 :: rest) (b1' :: rest')).map some).map bsz)
        (bsz (some (blin a b b1 b1'))) (some (ilin a b low low')) ((plinC a b (b1 :: rest) (b1' :: rest')).map some)
        = some (ilin a b u v) := by
  have e1 := dtcwt_inverse_eq_ref s g0o g1o g0a g0b g1a g1b hm0 hm0' hab0 hm1 hm1' hab1 hg0 hg1 b1 rest low r c hr hc (hb.ok hr)
    (PyrR.left rest rest' r c low low' hok)
  have e2 := dtcwt_inverse_eq_ref s g0o g1o g0a g0b g1a g1b hm0 hm0' hab0 hm1 hm1' hab1 hg0 hg1 b1' rest' low' r c hr hc (hb'.ok hr)
    (PyrR.right rest rest' r c low low' hok)
  have e3 := dtcwt_inverse_eq_ref s g0o g1o g0a g0b g1a g1b hm0 hm0' hab0 hm1 hm1' hab1 hg0 hg1 (blin a b b1 b1') (plinC a b rest rest')
    (ilin a b low low') r c hr hc ((blin_rect a b b1 b1' r c hb hb').ok hr) (PyrR.comb a b rest rest' r c low low' hok)
  refine ⟨_, _, e1, e2, ?_⟩
  have hp : plinC a b (b1 :: rest) (b1' :: rest') = blin a b b1 b1' :: plinC a b rest rest' := rfl
  rw [hp, e3, ← hp, refInverse_linear s g0o g1o g0a g0b g1a g1b hg0 hg1 a b b1 b1' rest rest' low low' r c hr hc hb hb' hok]

/-- the shape hypothesis is satisfiable: one level of six 1 × 1 complex bands -/
example : BandRect (R := Int) (List.replicate 6 ([[5]], [[6]])) 1 1 := by
  refine ⟨rfl, ?_⟩
  intro k hk
  interval_cases k <;> (constructor <;> constructor <;> simp)

end WV.C07U
