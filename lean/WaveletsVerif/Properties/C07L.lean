/-
  C07 — linearity lifted to images, channel stacks and the whole J-level 2-D pyramid, in EVERY padding mode.

  `afb1d` is "a guard on the length, then a linear map" (`C07.afb1dOne_guardedLin`, all five modes).  A linear list
  operator applied along the rows or along the columns of an image is a linear image operator whose output shape depends
  on the input shape only (`alongW_lin`, `alongH_lin`); on a stack of `C ≥ 1` images of one shape `AFB2D.forward`
  therefore either raises for every stack of that shape or returns, channel by channel, four linear image operators
  (`AFB2D_forward_rep`), and by induction over the levels so does `DWTForward` (`DWTForward_rep`).  Consequences, for
  every J, mode, filters, channel count and image size:
    `DWTForward(a·x + b·y) = a·DWTForward(x) + b·DWTForward(y)`  (`DWTForward_linear`, with "raises iff either raises"),
    whether it raises depends on the shapes only, and channel `c` of every output is one fixed operator applied to
    channel `c` of the input.
-/
import WaveletsVerif.Properties.C07M
namespace WV.C07L
open Finset WV WV.C04 WV.C04Q WV.C06 WV.C05D WV.C07 WV.C07M
variable {R : Type} [CommRing R]

/-- `a·x + b·y` on images -/
def ilin (a b : R) (x y : Img R) : Img R := tab x.length fun i => lincomb a b (x.getD i []) (y.getD i [])

theorem ilin_rect (a b : R) (x y : Img R) (H W : Nat) (hx : Rect x H W) : Rect (ilin a b x y) H W := by
  constructor
  · simp [ilin, hx.1]
  · intro r hr
    unfold ilin tab at hr
    simp only [List.mem_map, List.mem_range] at hr
    obtain ⟨i, hi, rfl⟩ := hr
    rw [lincomb_length]
    exact getD_row_length x H W hx i (by rw [← hx.1]; exact hi)

theorem get2_ilin (a b : R) (x y : Img R) (H W : Nat) (hx : Rect x H W) (hy : Rect y H W) (i j : Nat) (hi : i < H) :
    get2 (ilin a b x y) i j = a * get2 x i j + b * get2 y i j := by
  unfold get2 ilin
  rw [getD_tab, if_pos (by rw [hx.1]; exact hi)]
  have := getN_lincomb a b (x.getD i []) (y.getD i [])
    (by rw [getD_row_length x H W hx i hi, getD_row_length y H W hy i hi]) j
  unfold getN at this
  exact this

theorem ilin_eq_tab2 (a b : R) (x y : Img R) (H W : Nat) (hx : Rect x H W) (hy : Rect y H W) :
    ilin a b x y = tab2 H W fun i j => a * get2 x i j + b * get2 y i j := by
  rw [rect_eq_tab2 _ H W (ilin_rect a b x y H W hx)]
  apply tab2_congr; intro i hi j _
  exact get2_ilin a b x y H W hx hy i j hi

/-- output length of a linear list operator on inputs of length `n` -/
def outLen (F : List R → List R) (n : Nat) : Nat := (F (List.replicate n 0)).length

theorem lin_len {F : List R → List R} (hF : Lin F) (c : List R) : (F c).length = outLen F c.length :=
  (hF 1 1 c (List.replicate c.length 0) (by simp)).2

/-- a linear list operator along the rows of an image -/
theorem alongW_lin {F : List R → List R} (hF : Lin F) (a b : R) (x y : Img R) (H W : Nat) (hx : Rect x H W) (hy : Rect y H W) :
    alongW F (ilin a b x y) = ilin a b (alongW F x) (alongW F y) := by
  unfold alongW ilin
  rw [map_tab, List.length_map]
  apply tab_ext rfl
  intro i hi
  have hi' : i < H := by rw [← hx.1]; exact hi
  rw [(hF a b _ _ (by rw [getD_row_length x H W hx i hi', getD_row_length y H W hy i hi'])).1]
  congr 1
  · simp [List.getD_eq_getElem?_getD, List.getElem?_eq_getElem hi]
  · have : i < y.length := by rw [hy.1]; exact hi'
    simp [List.getD_eq_getElem?_getD, List.getElem?_eq_getElem this]

theorem alongW_lin_rect {F : List R → List R} (hF : Lin F) (x : Img R) (H W : Nat) (hx : Rect x H W) :
    Rect (alongW F x) H (outLen F W) := by
  rw [alongW_get' F x H W _ hx (fun c hc => by rw [lin_len hF c, hc])]
  exact tab2_rect _ _ _

theorem tr_rect (x : Img R) (H W : Nat) (hx : Rect x H W) (hH : 1 ≤ H) : Rect (tr x) W H := by
  unfold tr
  rw [rect_width x H W hx hH, hx.1]
  exact tab2_rect _ _ _

theorem tr_ilin (a b : R) (x y : Img R) (H W : Nat) (hx : Rect x H W) (hy : Rect y H W) (hH : 1 ≤ H) :
    tr (ilin a b x y) = ilin a b (tr x) (tr y) := by
  have hr := ilin_rect a b x y H W hx
  rw [ilin_eq_tab2 a b (tr x) (tr y) W H (tr_rect x H W hx hH) (tr_rect y H W hy hH)]
  unfold tr
  rw [rect_width _ H W hr hH, hr.1, rect_width x H W hx hH, hx.1, rect_width y H W hy hH, hy.1]
  apply tab2_congr; intro j hj i hi
  rw [get2_ilin a b x y H W hx hy i j hi, C19.get2_tab2 _ _ _ _ _ hj hi, C19.get2_tab2 _ _ _ _ _ hj hi]

theorem alongH_eq (F : List R → List R) (x : Img R) : alongH F x = tr (alongW F (tr x)) := rfl

theorem alongH_lin_rect {F : List R → List R} (hF : Lin F) (x : Img R) (H W : Nat) (hx : Rect x H W) (hH : 1 ≤ H) (hW : 1 ≤ W) :
    Rect (alongH F x) (outLen F H) W := by
  rw [alongH_get' F x H _ W hx hH hW (fun c hc => by rw [lin_len hF c, hc])]
  exact tab2_rect _ _ _

/-- a linear list operator along the columns of an image -/
theorem alongH_lin {F : List R → List R} (hF : Lin F) (a b : R) (x y : Img R) (H W : Nat) (hx : Rect x H W) (hy : Rect y H W)
    (hH : 1 ≤ H) (hW : 1 ≤ W) :
    alongH F (ilin a b x y) = ilin a b (alongH F x) (alongH F y) := by
  rw [alongH_eq, alongH_eq, alongH_eq, tr_ilin a b x y H W hx hy hH,
    alongW_lin hF a b _ _ W H (tr_rect x H W hx hH) (tr_rect y H W hy hH),
    tr_ilin a b _ _ W _ (alongW_lin_rect hF _ W H (tr_rect x H W hx hH)) (alongW_lin_rect hF _ W H (tr_rect y H W hy hH)) hW]

/-! ### guards -/

theorem alongWO_guard (T : List R → Option (List R)) (g : Nat → Bool) (F : List R → List R)
    (hT : ∀ x, T x = if g x.length then some (F x) else none) (x : Img R) (H W : Nat) (hx : Rect x H W) (hH : 1 ≤ H) :
    alongO .W T x = if g W then some (alongW F x) else none := by
  show alongWO T x = _
  by_cases hg : g W
  · rw [if_pos hg]
    apply alongWO_total
    intro c hc
    rw [hT c, hx.2 c hc, if_pos hg]
  · rw [if_neg hg]
    unfold alongWO
    cases x with
    | nil => have := hx.1; simp at this; omega
    | cons r rest =>
      have : T r = none := by rw [hT r, hx.2 r (by simp), if_neg hg]
      simp [this]

theorem alongHO_guard (T : List R → Option (List R)) (g : Nat → Bool) (F : List R → List R)
    (hT : ∀ x, T x = if g x.length then some (F x) else none) (x : Img R) (H W : Nat) (hx : Rect x H W) (hH : 1 ≤ H) (hW : 1 ≤ W) :
    alongO .H T x = if g H then some (alongH F x) else none := by
  show alongHO T x = _
  have := alongWO_guard T g F hT (tr x) W H (tr_rect x H W hx hH) hW
  unfold alongHO
  change alongWO T (tr x) = _ at this
  unfold alongWO at this
  rw [this]
  split <;> rfl

/-! ### `afb1d` never returns an empty signal -/

theorem corrLen_pos (n L : Nat) (h : L ≤ n) (hL : 1 ≤ L) : 1 ≤ corrLen n L 2 1 := by
  unfold corrLen; split <;> omega

omit [CommRing R] in
theorem rollPy_length (x : List R) (n : Int) : (rollPy x n).length = x.length := by
  unfold rollPy sliceFrom sliceTo
  simp only [List.length_append, List.length_drop, List.length_take]
  omega

theorem afb1dOne_some_pos (m : Mode) (w x y : List R) (h : afb1dOne m w x = some y) : 1 ≤ y.length := by
  by_cases hg : w.length < 2 ∨ x.length < 1
  · simp only [afb1dOne, hg, if_true] at h
    cases h
  · have hK : x.length + (2 * (dwtCoeffLen x.length w.length - 1) + w.length - x.length) = 2 * (dwtCoeffLen x.length w.length - 1) + w.length := by
      unfold dwtCoeffLen; omega
    cases m with
    | periodization =>
      simp only [afb1dOne, hg, if_false, Option.some.injEq] at h
      subst h
      have hx1 : ∃ n1, (if x.length % 2 = 1 then x ++ sliceFrom x (-1) else x).length = 2 * n1 ∧ 1 ≤ n1 := by
        split
        · rw [List.length_append, C04.sliceFrom_neg_one_length x (by omega)]; exact ⟨(x.length + 1)/2, by omega, by omega⟩
        · exact ⟨x.length / 2, by omega, by omega⟩
      obtain ⟨n1, hn1, hn1p⟩ := hx1
      simp only [List.length_take, foldAdd, length_tab, corr_length, length_zeroPad, rollPy_length, hn1]
      unfold corrLen; split <;> omega
    | zero =>
      simp only [afb1dOne, hg, if_false, Option.some.injEq] at h
      subst h
      rw [corr_length, length_zeroPad]
      apply corrLen_pos _ _ _ (by omega)
      split
      · rw [length_zeroPad]; omega
      · omega
    | symmetric =>
      simp only [afb1dOne, hg, if_false, Option.some.injEq] at h
      subst h
      rw [corr_length, length_padIdx]
      exact corrLen_pos _ _ (by omega) (by omega)
    | periodic =>
      simp only [afb1dOne, hg, if_false, Option.some.injEq] at h
      subst h
      rw [corr_length, length_padIdx]
      exact corrLen_pos _ _ (by omega) (by omega)
    | reflect =>
      simp only [afb1dOne, hg, if_false] at h
      split at h
      · simp only [Option.some.injEq] at h
        subst h
        rw [corr_length, length_padIdx]
        exact corrLen_pos _ _ (by omega) (by omega)
      · cases h
    | constant => simp only [afb1dOne, hg, if_false] at h; cases h
    | replicate => simp only [afb1dOne, hg, if_false] at h; cases h

/-! ### one level on a stack -/

/-- `a·xs + b·ys`, channel by channel -/
def slin (a b : R) (xs ys : List (Img R)) : List (Img R) := tab xs.length fun c => ilin a b (xs.getD c []) (ys.getD c [])

/-- every channel of the stack has shape `H × W` -/
def Shape (xs : List (Img R)) (H W : Nat) : Prop := ∀ c < xs.length, Rect (xs.getD c []) H W

/-- a linear image operator from shape `H × W` to shape `H' × W'` -/
structure ImgLin (T : Img R → Img R) (H W H' W' : Nat) : Prop where
  rect : ∀ x, Rect x H W → Rect (T x) H' W'
  lin : ∀ (a b : R) (x y : Img R), Rect x H W → Rect y H W → T (ilin a b x y) = ilin a b (T x) (T y)

theorem ImgLin.comp {T U : Img R → Img R} {H W H1 W1 H2 W2 : Nat} (hT : ImgLin T H W H1 W1) (hU : ImgLin U H1 W1 H2 W2) :
    ImgLin (fun x => U (T x)) H W H2 W2 :=
  ⟨fun x hx => hU.rect _ (hT.rect x hx),
   fun a b x y hx hy => by
     show U (T (ilin a b x y)) = ilin a b (U (T x)) (U (T y))
     rw [hT.lin a b x y hx hy, hU.lin a b _ _ (hT.rect x hx) (hT.rect y hy)]⟩

theorem imgLin_W {F : List R → List R} (hF : Lin F) (H W : Nat) : ImgLin (alongW F) H W H (outLen F W) :=
  ⟨fun x hx => alongW_lin_rect hF x H W hx, fun a b x y hx hy => alongW_lin hF a b x y H W hx hy⟩

theorem imgLin_H {F : List R → List R} (hF : Lin F) (H W : Nat) (hH : 1 ≤ H) (hW : 1 ≤ W) : ImgLin (alongH F) H W (outLen F H) W :=
  ⟨fun x hx => alongH_lin_rect hF x H W hx hH hW, fun a b x y hx hy => alongH_lin hF a b x y H W hx hy hH hW⟩

theorem slin_shape (a b : R) (xs ys : List (Img R)) (H W : Nat) (hx : Shape xs H W) : Shape (slin a b xs ys) H W := by
  intro c hc
  unfold slin at hc ⊢
  rw [length_tab] at hc
  rw [getD_tab, if_pos hc]
  exact ilin_rect a b _ _ H W (hx c hc)

/-- `afb1d` on a stack raises as soon as one of the two one-channel operators raises on some channel -/
theorem afb1dT_none (ax : Axis) (mode : Mode) (w0 w1 : List R) (xs : List (Img R)) (c : Nat) (hc : c < xs.length)
    (h : alongO ax (afb1dOne mode w0) (xs.getD c []) = none ∨ alongO ax (afb1dOne mode w1) (xs.getD c []) = none) :
    afb1dT ax mode w0 w1 xs = none := by
  cases h' : afb1dT ax mode w0 w1 xs with
  | none => rfl
  | some y =>
    obtain ⟨_, hall⟩ := C07.afb1dT_per_channel ax mode w0 w1 xs y h'
    obtain ⟨h0, h1⟩ := hall c hc
    rcases h with h | h
    · rw [h0] at h; cases h
    · rw [h1] at h; cases h

/-- **one level on a stack of `C ≥ 1` images of one shape**: whether `AFB2D.forward` raises is decided by the shape, and
when it returns, channel `c` of each of the four bands is one fixed linear image operator applied to channel `c` -/
theorem AFB2D_forward_rep (mode : Mode) (wr0 wr1 wc0 wc1 : List R) (H W : Nat) (hH : 1 ≤ H) (hW : 1 ≤ W) :
    ∃ (ok : Bool) (H' W' : Nat) (A B1 B2 B3 : Img R → Img R),
      (ok = true → ImgLin A H W H' W' ∧ (∃ h w, ImgLin B1 H W h w) ∧ (∃ h w, ImgLin B2 H W h w) ∧ (∃ h w, ImgLin B3 H W h w) ∧
        1 ≤ H' ∧ 1 ≤ W') ∧
      ∀ xs : List (Img R), Shape xs H W → 1 ≤ xs.length →
        AFB2D_forward mode wr0 wr1 wc0 wc1 xs
          = if ok then some (tab xs.length fun c => A (xs.getD c []),
                             tab xs.length fun c => [B1 (xs.getD c []), B2 (xs.getD c []), B3 (xs.getD c [])])
            else none := by
  obtain ⟨gr0, Fr0, lr0, er0⟩ := C07.afb1dOne_guardedLin (R := R) mode wr0
  obtain ⟨gr1, Fr1, lr1, er1⟩ := C07.afb1dOne_guardedLin (R := R) mode wr1
  obtain ⟨gc0, Fc0, lc0, ec0⟩ := C07.afb1dOne_guardedLin (R := R) mode wc0
  obtain ⟨gc1, Fc1, lc1, ec1⟩ := C07.afb1dOne_guardedLin (R := R) mode wc1
  -- positivity of the output lengths where the guards hold
  have pos : ∀ (w : List R) (g : Nat → Bool) (F : List R → List R), (∀ x, afb1dOne mode w x = if g x.length then some (F x) else none) →
      ∀ n, g n = true → 1 ≤ outLen F n := by
    intro w g F e n hg
    have := e (List.replicate n 0)
    rw [List.length_replicate, if_pos hg] at this
    exact afb1dOne_some_pos mode w _ _ this
  refine ⟨gr0 W && gr1 W && gc0 H && gc1 H, outLen Fc0 H, outLen Fr0 W,
    fun x => alongH Fc0 (alongW Fr0 x), fun x => alongH Fc1 (alongW Fr0 x), fun x => alongH Fc0 (alongW Fr1 x),
    fun x => alongH Fc1 (alongW Fr1 x), ?_, ?_⟩
  · intro hok
    simp only [Bool.and_eq_true] at hok
    obtain ⟨⟨⟨g1, g2⟩, g3⟩, g4⟩ := hok
    have p1 := pos wr0 gr0 Fr0 er0 W g1
    have p2 := pos wr1 gr1 Fr1 er1 W g2
    have p3 := pos wc0 gc0 Fc0 ec0 H g3
    exact ⟨(imgLin_W lr0 H W).comp (imgLin_H lc0 H _ hH p1),
      ⟨_, _, (imgLin_W lr0 H W).comp (imgLin_H lc1 H _ hH p1)⟩,
      ⟨_, _, (imgLin_W lr1 H W).comp (imgLin_H lc0 H _ hH p2)⟩,
      ⟨_, _, (imgLin_W lr1 H W).comp (imgLin_H lc1 H _ hH p2)⟩, p3, p1⟩
  · intro xs hxs hC
    by_cases hrow : gr0 W = true ∧ gr1 W = true
    · obtain ⟨g1, g2⟩ := hrow
      have p1 := pos wr0 gr0 Fr0 er0 W g1
      have p2 := pos wr1 gr1 Fr1 er1 W g2
      have erow : ∀ c < xs.length, alongO .W (afb1dOne mode wr0) (xs.getD c []) = some (alongW Fr0 (xs.getD c [])) ∧
          alongO .W (afb1dOne mode wr1) (xs.getD c []) = some (alongW Fr1 (xs.getD c [])) := by
        intro c hc
        rw [alongWO_guard _ gr0 Fr0 er0 _ H W (hxs c hc) hH, alongWO_guard _ gr1 Fr1 er1 _ H W (hxs c hc) hH, if_pos g1, if_pos g2]
        exact ⟨rfl, rfl⟩
      by_cases hcol : gc0 H = true ∧ gc1 H = true
      · obtain ⟨g3, g4⟩ := hcol
        have hok : (gr0 W && gr1 W && gc0 H && gc1 H) = true := by simp [g1, g2, g3, g4]
        rw [if_pos hok]
        apply AFB2D_forward_channels mode wr0 wr1 wc0 wc1 xs (alongW Fr0) (alongW Fr1) (alongH Fc0) (alongH Fc1) erow
        intro c hc y hy
        have hy' : ∃ w, 1 ≤ w ∧ Rect y H w := by
          rcases hy with rfl | rfl
          · exact ⟨_, p1, alongW_lin_rect lr0 _ H W (hxs c hc)⟩
          · exact ⟨_, p2, alongW_lin_rect lr1 _ H W (hxs c hc)⟩
        obtain ⟨w, hw, hyr⟩ := hy'
        rw [alongHO_guard _ gc0 Fc0 ec0 y H w hyr hH hw, alongHO_guard _ gc1 Fc1 ec1 y H w hyr hH hw, if_pos g3, if_pos g4]
        exact ⟨rfl, rfl⟩
      · have hok : (gr0 W && gr1 W && gc0 H && gc1 H) = false := by
          rcases Bool.eq_false_or_eq_true (gc0 H) with h | h <;> rcases Bool.eq_false_or_eq_true (gc1 H) with h' | h' <;> simp_all
        rw [hok]
        simp only [Bool.false_eq_true, if_false]
        unfold AFB2D_forward
        rw [C07.afb1dT_total .W mode wr0 wr1 xs (alongW Fr0) (alongW Fr1) erow]
        simp only [Option.bind_eq_bind, Option.bind_some]
        rw [afb1dT_none .H mode wc0 wc1 _ 0 (by rw [length_tab]; omega)]
        · rfl
        · rw [getD_tab, if_pos (by omega)]
          simp only [Nat.zero_mod, if_true, Nat.zero_div]
          have hyr := alongW_lin_rect lr0 _ H W (hxs 0 (by omega))
          rw [alongHO_guard _ gc0 Fc0 ec0 _ H _ hyr hH p1, alongHO_guard _ gc1 Fc1 ec1 _ H _ hyr hH p1]
          rcases Bool.eq_false_or_eq_true (gc0 H) with h | h
          · rcases Bool.eq_false_or_eq_true (gc1 H) with h' | h'
            · exact absurd ⟨h, h'⟩ hcol
            · right; rw [h']; rfl
          · left; rw [h]; rfl
    · have hok : (gr0 W && gr1 W && gc0 H && gc1 H) = false := by
        rcases Bool.eq_false_or_eq_true (gr0 W) with h | h <;> rcases Bool.eq_false_or_eq_true (gr1 W) with h' | h' <;> simp_all
      rw [hok]
      simp only [Bool.false_eq_true, if_false]
      unfold AFB2D_forward
      rw [afb1dT_none .W mode wr0 wr1 xs 0 (by omega)]
      · rfl
      · rw [alongWO_guard _ gr0 Fr0 er0 _ H W (hxs 0 (by omega)) hH, alongWO_guard _ gr1 Fr1 er1 _ H W (hxs 0 (by omega)) hH]
        rcases Bool.eq_false_or_eq_true (gr0 W) with h | h
        · rcases Bool.eq_false_or_eq_true (gr1 W) with h' | h'
          · exact absurd ⟨h, h'⟩ hrow
          · right; rw [h']; rfl
        · left; rw [h]; rfl

/-! ### the J-level pyramid -/

omit [CommRing R] in
theorem tab_getD_self {α : Type} (l : List α) (d : α) : (tab l.length fun c => l.getD c d) = l := by
  apply List.ext_getElem
  · simp
  · intro i h1 h2
    simp [tab, List.getD_eq_getElem?_getD, List.getElem?_eq_getElem h2]

omit [CommRing R] in
theorem tab_succ_cons {α : Type} (n : Nat) (f : Nat → α) : tab (n+1) f = f 0 :: tab n (fun i => f (i+1)) := by
  unfold tab
  rw [List.range_succ_eq_map]
  simp [List.map_map, Function.comp_def]

theorem imgLin_id (H W : Nat) : ImgLin (fun x : Img R => x) H W H W := ⟨fun _ hx => hx, fun _ _ _ _ _ _ => rfl⟩

/-- **the J-level `DWTForward` on a stack of `C ≥ 1` images of one shape, in every padding mode**: whether it raises is
decided by the shape, and when it returns, channel `c` of the low-pass and of every band `k` of every level `j` is one
fixed linear image operator applied to channel `c` of the input -/
theorem DWTForward_rep (mode : Mode) (wc0 wc1 wr0 wr1 : List R) : ∀ (J H W : Nat), 1 ≤ H → 1 ≤ W →
    ∃ (ok : Bool) (A : Img R → Img R) (D : Nat → Nat → Img R → Img R),
      (ok = true → (∃ h w, ImgLin A H W h w) ∧ ∀ j < J, ∀ k < 3, ∃ h w, ImgLin (D j k) H W h w) ∧
      ∀ xs : List (Img R), Shape xs H W → 1 ≤ xs.length →
        DWTForward mode wc0 wc1 wr0 wr1 J xs
          = if ok then some (tab xs.length fun c => A (xs.getD c []),
                             tab J fun j => tab xs.length fun c => [D j 0 (xs.getD c []), D j 1 (xs.getD c []), D j 2 (xs.getD c [])])
            else none := by
  intro J
  induction J with
  | zero =>
    intro H W _ _
    refine ⟨true, fun x => x, fun _ _ x => x, fun _ => ⟨⟨H, W, imgLin_id H W⟩, fun j hj => by omega⟩, ?_⟩
    intro xs _ _
    simp only [DWTForward, if_true, tab_getD_self]
    rfl
  | succ J ih =>
    intro H W hH hW
    obtain ⟨ok1, H', W', A1, B1, B2, B3, h1, e1⟩ := AFB2D_forward_rep mode wr0 wr1 wc0 wc1 H W hH hW
    cases ok1 with
    | false =>
      refine ⟨false, fun x => x, fun _ _ x => x, ⟨fun h => Bool.noConfusion h, ?_⟩⟩
      intro xs hxs hC
      simp only [DWTForward, e1 xs hxs hC, Bool.false_eq_true, if_false]
      rfl
    | true =>
      obtain ⟨lA1, ⟨hb1, wb1, lB1⟩, ⟨hb2, wb2, lB2⟩, ⟨hb3, wb3, lB3⟩, pH, pW⟩ := h1 rfl
      obtain ⟨ok2, A2, D2, h2, e2⟩ := ih H' W' pH pW
      refine ⟨ok2, fun x => A2 (A1 x),
        fun j k => match j with
          | 0 => if k = 0 then B1 else if k = 1 then B2 else B3
          | j+1 => fun x => D2 j k (A1 x), ?_, ?_⟩
      · intro hok
        obtain ⟨⟨ha, wa, lA2⟩, lD2⟩ := h2 hok
        refine ⟨⟨ha, wa, lA1.comp lA2⟩, ?_⟩
        intro j hj k hk
        cases j with
        | zero =>
          simp only []
          by_cases k0 : k = 0
          · rw [if_pos k0]; exact ⟨_, _, lB1⟩
          · rw [if_neg k0]
            by_cases k1 : k = 1
            · rw [if_pos k1]; exact ⟨_, _, lB2⟩
            · rw [if_neg k1]; exact ⟨_, _, lB3⟩
        | succ j =>
          obtain ⟨h, w, l⟩ := lD2 j (by omega) k hk
          exact ⟨h, w, lA1.comp l⟩
      · intro xs hxs hC
        have hll : Shape (tab xs.length fun c => A1 (xs.getD c [])) H' W' := by
          intro c hc
          rw [length_tab] at hc
          rw [getD_tab, if_pos hc]
          exact lA1.rect _ (hxs c hc)
        simp only [DWTForward, e1 xs hxs hC, if_true, Option.bind_eq_bind, Option.bind_some]
        rw [e2 _ hll (by rw [length_tab]; exact hC)]
        cases ok2 with
        | false => rfl
        | true =>
          simp only [if_true, Option.bind_some, length_tab]
          rw [tab_succ_cons]
          refine congrArg some (Prod.ext ?_ ?_)
          · apply tab_ext rfl
            intro c hc
            simp only [getD_tab, hc, if_true]
          · simp only [List.cons.injEq]
            refine ⟨?_, ?_⟩
            · apply tab_ext rfl
              intro c hc
              simp
            · apply tab_ext rfl
              intro j _
              apply tab_ext rfl
              intro c hc
              simp only [getD_tab, hc, if_true]

/-! ### consequences -/

/-- `a·u + b·v` on the output structure `(yl, yh)` of `DWTForward`: stack of low-passes, per level a stack of band triples -/
def plin (a b : R) (u v : List (Img R) × List (List (List (Img R)))) : List (Img R) × List (List (List (Img R))) :=
  (slin a b u.1 v.1,
   tab u.2.length fun j => tab (u.2.getD j []).length fun c => tab ((u.2.getD j []).getD c []).length fun k =>
     ilin a b (((u.2.getD j []).getD c []).getD k []) (((v.2.getD j []).getD c []).getD k []))

omit [CommRing R] in
theorem tab3 {α : Type} (f : Nat → α) : tab 3 f = [f 0, f 1, f 2] := rfl

/-- **the J-level 2-D DWT is linear, in every padding mode, for every J, filters, channel count and image size**:
`DWTForward(a·x + b·y) = a·DWTForward(x) + b·DWTForward(y)`, and it raises iff it raises on `x` (equivalently on `y`) -/
theorem DWTForward_linear (mode : Mode) (wc0 wc1 wr0 wr1 : List R) (J : Nat) (a b : R) (xs ys : List (Img R)) (H W : Nat)
    (hx : Shape xs H W) (hy : Shape ys H W) (hlen : ys.length = xs.length) (hC : 1 ≤ xs.length) (hH : 1 ≤ H) (hW : 1 ≤ W) :
    DWTForward mode wc0 wc1 wr0 wr1 J (slin a b xs ys)
      = (DWTForward mode wc0 wc1 wr0 wr1 J xs).bind fun u => (DWTForward mode wc0 wc1 wr0 wr1 J ys).bind fun v =>
          some (plin a b u v) := by
  obtain ⟨ok, A, D, hl, e⟩ := DWTForward_rep mode wc0 wc1 wr0 wr1 J H W hH hW
  have hsl : (slin a b xs ys).length = xs.length := by simp [slin]
  rw [e _ (slin_shape a b xs ys H W hx) (by rw [hsl]; exact hC), e xs hx hC, e ys hy (by rw [hlen]; exact hC)]
  cases ok with
  | false => rfl
  | true =>
    obtain ⟨⟨ha, wa, lA⟩, lD⟩ := hl rfl
    simp only [if_true, Option.bind_some, hsl, hlen]
    refine congrArg some (Prod.ext ?_ ?_)
    · simp only [plin, slin, length_tab]
      apply tab_ext rfl
      intro c hc
      simp only [getD_tab, hc, if_true]
      exact lA.lin a b _ _ (hx c hc) (hy c (by rw [hlen]; exact hc))
    · simp only [plin, length_tab]
      apply tab_ext rfl
      intro j hj
      simp only [getD_tab, hj, if_true, length_tab]
      apply tab_ext rfl
      intro c hc
      simp only [getD_tab, hc, if_true, slin, List.length_cons, List.length_nil]
      rw [tab3]
      obtain ⟨_, _, l0⟩ := lD j hj 0 (by omega)
      obtain ⟨_, _, l1⟩ := lD j hj 1 (by omega)
      obtain ⟨_, _, l2⟩ := lD j hj 2 (by omega)
      have hxc := hx c hc
      have hyc := hy c (by rw [hlen]; exact hc)
      simp only [List.getD_cons_zero, List.getD_cons_succ]
      rw [l0.lin a b _ _ hxc hyc, l1.lin a b _ _ hxc hyc, l2.lin a b _ _ hxc hyc]

/-- **whether the J-level transform raises depends on the shape of the stack only** -/
theorem DWTForward_raises_by_shape (mode : Mode) (wc0 wc1 wr0 wr1 : List R) (J : Nat) (xs ys : List (Img R)) (H W : Nat)
    (hx : Shape xs H W) (hy : Shape ys H W) (hCx : 1 ≤ xs.length) (hCy : 1 ≤ ys.length) (hH : 1 ≤ H) (hW : 1 ≤ W) :
    DWTForward mode wc0 wc1 wr0 wr1 J xs = none ↔ DWTForward mode wc0 wc1 wr0 wr1 J ys = none := by
  obtain ⟨ok, A, D, _, e⟩ := DWTForward_rep mode wc0 wc1 wr0 wr1 J H W hH hW
  rw [e xs hx hCx, e ys hy hCy]
  cases ok <;> simp

/-- **slice independence**: channel `c` of the low-pass and of every level depends on channel `c` of the input only — two
stacks of one shape (any channel counts) that agree on a channel give the same outputs on that channel -/
theorem DWTForward_slice (mode : Mode) (wc0 wc1 wr0 wr1 : List R) (J : Nat) (xs ys : List (Img R)) (H W : Nat)
    (hx : Shape xs H W) (hy : Shape ys H W) (hH : 1 ≤ H) (hW : 1 ≤ W) (c c' : Nat) (hc : c < xs.length) (hc' : c' < ys.length)
    (hsame : xs.getD c [] = ys.getD c' [])
    (u v : List (Img R) × List (List (List (Img R))))
    (hu : DWTForward mode wc0 wc1 wr0 wr1 J xs = some u) (hv : DWTForward mode wc0 wc1 wr0 wr1 J ys = some v) :
    u.1.getD c [] = v.1.getD c' [] ∧ ∀ j < J, (u.2.getD j []).getD c [] = (v.2.getD j []).getD c' [] := by
  obtain ⟨ok, A, D, _, e⟩ := DWTForward_rep mode wc0 wc1 wr0 wr1 J H W hH hW
  rw [e xs hx (by omega)] at hu
  rw [e ys hy (by omega)] at hv
  cases ok with
  | false => cases hu
  | true =>
    simp only [if_true, Option.some.injEq] at hu hv
    subst hu; subst hv
    refine ⟨?_, ?_⟩
    · simp only [getD_tab, hc, hc', if_true, hsame]
    · intro j hj
      simp only [getD_tab, hj, hc, hc', if_true, hsame]

/-- the hypotheses are satisfiable: two 2×2 channels -/
example : Shape ([[[1, 2], [3, 4]], [[5, 6], [7, 8]]] : List (Img Int)) 2 2 := by
  intro c hc
  have : c = 0 ∨ c = 1 := by simp at hc; omega
  rcases this with rfl | rfl <;> constructor <;> simp

end WV.C07L
