/-
  C17 — "it preserves inner products": for an orthonormal bank in periodization mode, whenever every level's input length is even
  and at least the filter length, the J-level 1-D transform preserves the inner product of ANY two signals,
      `⟨DWT1DForward x, DWT1DForward z⟩ = ⟨x, z⟩`      (`DWT1D_preserves_inner`; energy, `C17J.DWT1D_isometry`, is the case `z = x`).

  Proof: the inverse is the transpose for any filters (`C17U.DWT1D_inverse_is_transpose`, with the cotangent pyramid `P := DWT1DForward z`,
  which has forward shapes: `forward_shapes`), and for an orthonormal bank the inverse undoes the forward transform
  (`C02Q.DWT1D_roundtrip_per` with the reversed filters as synthesis bank): `⟨T x, T z⟩ = ⟨x, Tᵀ T z⟩ = ⟨x, z⟩`.
-/
import WaveletsVerif.Properties.C17U
import WaveletsVerif.Properties.C02Q
namespace WV.C17V
open Finset WV WV.C05U WV.C17J WV.C17U
variable {R : Type} [CommRing R]

/-- the output pyramid of the forward transform has forward shapes (whenever one level returns with the lengths `K`) -/
theorem forward_shapes (m : Mode) (w0 w1 : List R) (Lvl : Nat → Prop) (K : Nat → Nat) (hA : LevelAdj m w0 w1 Lvl K) :
    ∀ (J : Nat) (x : List R), LvlsOK Lvl K J x.length →
      ∃ yl ds, DWT1DForward m w0 w1 J [x] = some ([yl], ds.map fun d => [d]) ∧ PyrOK1 K J x.length yl ds
  | 0, x, _ => ⟨x, [], by simp [DWT1DForward], by simp [PyrOK1]⟩
  | J+1, x, hok => by
    obtain ⟨hl, hokr⟩ := hok
    obtain ⟨lo, hi, e0, e1, llo, lhi, _⟩ := hA x hl
    rw [← llo] at hokr
    obtain ⟨yl, ds, hf, hp⟩ := forward_shapes m w0 w1 Lvl K hA J lo hokr
    refine ⟨yl, hi :: ds, ?_, ⟨lhi, by rw [← llo]; exact hp⟩⟩
    simp only [DWT1DForward]
    rw [AFB1D_forward_one m w0 w1 x lo hi e0 e1]
    simp only [Option.bind_eq_bind, Option.bind_some]
    rw [hf]
    simp

theorem fit_of_levelsOK (L : Nat) : ∀ (J N : Nat), LevelsOK L J N → C02Q.LevelsFit1 L J N
  | 0, _, _ => trivial
  | J+1, N, h => by
    obtain ⟨he, hl, hr⟩ := h
    have e : (N + N % 2) / 2 = N / 2 := by omega
    exact ⟨by omega, by rw [e]; exact fit_of_levelsOK L J _ hr⟩

/-- **the J-level 1-D transform with an orthonormal bank preserves inner products** (periodization, every level of even length not
shorter than the filters): the pairing of the two output pyramids — low-pass with low-pass, every band-pass level with the same
level — equals the inner product of the two signals -/
theorem DWT1D_preserves_inner (h0 h1 : List R) (hL : 2 ≤ h0.length) (hLe : h0.length % 2 = 0) (hh1 : h1.length = h0.length)
    (horth : PRBank h0 h1 h0.reverse h1.reverse) (J : Nat) (x z : List R) (hxz : z.length = x.length) (hN : 1 ≤ x.length)
    (hok : LevelsOK h0.length J x.length) :
    ∃ yl yh zl zs, DWT1DForward .periodization h0.reverse h1.reverse J [x] = some ([yl], yh) ∧
      DWT1DForward .periodization h0.reverse h1.reverse J [z] = some ([zl], zs.map fun d => [d]) ∧
      pdot1 yl yh zl zs = dotN x.length x z := by
  have hokz : LevelsOK h0.length J z.length := by rw [hxz]; exact hok
  -- the transform of `z` and its shapes
  obtain ⟨zl, zs, hfz, hpz⟩ := forward_shapes .periodization h0.reverse h1.reverse _ _ (levelAdj_per h0 h1 hL hLe hh1) J z
    (lvls_of_levelsOK h0.length hL J _ hokz)
  rw [hxz] at hpz
  -- the inverse is the transpose
  obtain ⟨yl, yh, y, hfx, hi, ly, hd⟩ := DWT1D_inverse_is_transpose h0 h1 hL hLe hh1 J x zl zs hok hpz
  -- the inverse undoes the forward transform of `z`
  obtain ⟨zl', zh', y', hf', hi', htake, _⟩ := C02Q.DWT1D_roundtrip_per h0 h1 h0.reverse h1.reverse hL hLe hh1 (by simp) (by simp [hh1]) horth J z
    (by omega) (fit_of_levelsOK h0.length J _ hokz)
  have hf'' : DWT1DForward .periodization h0.reverse h1.reverse J [z] = some (zl', zh') := hf'
  rw [hfz] at hf''
  simp only [Option.some.injEq, Prod.mk.injEq] at hf''
  obtain ⟨e1, e2⟩ := hf''
  subst e1 e2
  rw [List.map_map] at hi'
  have hy : some [y] = some [y'] := by
    rw [← hi, ← hi']
    congr 1
  have hyy : y = y' := by
    simpa using hy
  subst hyy
  have hyz : y = z := by
    rw [← htake, hxz, ← ly, List.take_length]
  refine ⟨yl, yh, zl, zs, hfx, hfz, ?_⟩
  rw [hd, hyz]

/-- non-vacuity: the delayed lazy wavelet `h0 = (0,1,0,0)`, `h1 = (0,0,1,0)` is orthonormal (`C17`), and two levels on length 8 meet
`LevelsOK` -/
example : LevelsOK 4 2 8 := by simp [LevelsOK]

end WV.C17V
