/-
  C07 — the J-level ONE-DIMENSIONAL inverse transform `DWT1DInverse` is linear on pyramids of one shape, in every mode, and whether
  it raises depends on the shapes only (the 2-D statement is `C07I.DWTInverse_linear`): from the one-level statement
  `C07D.sfb1dCh_linear` through the module's loop, the one-sample crop of the running low-pass included.
-/
import WaveletsVerif.Properties.C07D
import WaveletsVerif.Properties.C07I
import WaveletsVerif.Properties.C05V
import WaveletsVerif.Lemmas.Lift
namespace WV.C07V
open WV WV.C07 WV.C07D
variable {R : Type} [CommRing R]

theorem lincomb_zero_one (x y : List R) (h : x.length = y.length) : lincomb 0 1 x y = y := by
  apply list_ext_getN
  · simp [h]
  · intro i _
    rw [getN_lincomb 0 1 x y h]; ring

theorem lincomb_one_zero (x y : List R) (h : x.length = y.length) : lincomb 1 0 x y = x := by
  apply list_ext_getN
  · simp
  · intro i _
    rw [getN_lincomb 1 0 x y h]; ring

/-- whether `sfb1d` returns, and the length of what it returns, depend on the lengths of the bands only -/
theorem sfb1dCh_shape (m : Mode) (g0 g1 lo lo' hi hi' u : List R) (hl : lo.length = lo'.length) (hh : hi.length = hi'.length)
    (hu : sfb1dCh m g0 g1 lo hi = some u) : ∃ v, sfb1dCh m g0 g1 lo' hi' = some v ∧ v.length = u.length := by
  have h1 := sfb1dCh_linear m g0 g1 lo lo' hi hi' 0 1 hl hh
  have h2 := sfb1dCh_linear m g0 g1 lo lo' hi hi' 1 0 hl hh
  rw [lincomb_zero_one lo lo' hl, lincomb_zero_one hi hi' hh, hu] at h1
  cases hv : sfb1dCh m g0 g1 lo' hi' with
  | none =>
    rw [lincomb_one_zero lo lo' hl, lincomb_one_zero hi hi' hh, hu, hv] at h2
    simp at h2
  | some v =>
    rw [hv] at h1
    simp only [Option.bind_some, Option.some.injEq] at h1
    refine ⟨v, rfl, ?_⟩
    have := congrArg List.length h1
    simp at this
    exact this

/-- two band lists of one shape -/
def SameShape : List (List R) → List (List R) → Prop
  | [], [] => True
  | d :: ds, d' :: ds' => d.length = d'.length ∧ SameShape ds ds'
  | _, _ => False

/-- **`DWT1DInverse` is linear on pyramids of one shape (one channel, every mode, every J)**: if it returns on two pyramids of the
same shape it returns their linear combination on the linear combination, and the two results have one length -/
theorem DWT1DInverse_linear (m : Mode) (g0 g1 : List R) (a b : R) : ∀ (bs bs' : List (List R)) (yl yl' y y' : List R),
    yl.length = yl'.length → SameShape bs bs' →
    DWT1DInverse m g0 g1 [yl] (bs.map fun d => some [d]) = some [y] →
    DWT1DInverse m g0 g1 [yl'] (bs'.map fun d => some [d]) = some [y'] →
    DWT1DInverse m g0 g1 [lincomb a b yl yl'] ((List.zipWith (lincomb a b) bs bs').map fun d => some [d]) = some [lincomb a b y y'] ∧
      y.length = y'.length
  | [], [], yl, yl', y, y', hl, _, h1, h2 => by
    simp only [DWT1DInverse, List.map_nil, List.reverse_nil, List.foldlM_nil] at h1 h2
    have e1 : yl = y := by simpa using h1
    have e2 : yl' = y' := by simpa using h2
    subst e1 e2
    exact ⟨by simp [DWT1DInverse], hl⟩
  | [], _ :: _, _, _, _, _, _, hs, _, _ => absurd hs (by simp [SameShape])
  | _ :: _, [], _, _, _, _, _, hs, _, _ => absurd hs (by simp [SameShape])
  | d :: ds, d' :: ds', yl, yl', y, y', hl, hs, h1, h2 => by
    obtain ⟨hd, hsr⟩ := hs
    -- split off the finest level of both calls
    have hsplit : ∀ (zl : List R) (e : List R) (es : List (List R)) (out : List R),
        DWT1DInverse m g0 g1 [zl] ((e :: es).map fun d => some [d]) = some [out] →
        ∃ Z, DWT1DInverse m g0 g1 [zl] (es.map fun d => some [d]) = some Z ∧ DWT1DInverse_step m g0 g1 Z (some [e]) = some [out] := by
      intro zl e es out h
      unfold DWT1DInverse at h ⊢
      simp only [List.map_cons, List.reverse_cons, List.foldlM_append, List.foldlM_cons, List.foldlM_nil] at h
      cases hZ : List.foldlM (fun x0 x1 => DWT1DInverse_step m g0 g1 x0 x1) [zl] (List.map (fun d => some [d]) es).reverse with
      | none => rw [hZ] at h; simp at h
      | some Z =>
        rw [hZ] at h
        simp only [Option.bind_eq_bind, Option.bind_some] at h
        refine ⟨Z, rfl, ?_⟩
        cases hs : DWT1DInverse_step m g0 g1 Z (some [e]) with
        | none => rw [hs] at h; simp at h
        | some w => rw [hs] at h; simpa using h
    obtain ⟨Z, hZ, hst⟩ := hsplit yl d ds y h1
    obtain ⟨Z', hZ', hst'⟩ := hsplit yl' d' ds' y' h2
    -- a step returns a one-channel stack only from a one-channel stack
    have single : ∀ (Z : List (List R)) (e out : List R), DWT1DInverse_step m g0 g1 Z (some [e]) = some [out] → ∃ z, Z = [z] := by
      intro Z e out h
      by_cases hlen : Z.length = 1
      · match Z, hlen with
        | [z], _ => exact ⟨z, rfl⟩
      · exfalso
        have hn : DWT1DInverse_step m g0 g1 Z (some [e]) = none := by
          unfold DWT1DInverse_step SFB1D_forward sfb1dT
          have hl2 : ((if (Z.headD []).length > (([[e]] : List (List (List R))).headD [] |>.headD [] |>.length) then Z.map (fun ch => ch.take (ch.length - 1)) else Z).map fun ch => [ch]).length ≠
              (([e] : List (List R)).map fun ch => [ch]).length := by
            split <;> simpa using hlen
          simp only [List.headD_cons] at hl2 ⊢
          simp
          intro _ hc
          exfalso; apply hlen
          revert hc
          split <;> simp
        rw [hn] at h
        simp at h
    obtain ⟨z, rfl⟩ := single Z d y hst
    obtain ⟨z', rfl⟩ := single Z' d' y' hst'
    obtain ⟨ih, lz⟩ := DWT1DInverse_linear m g0 g1 a b ds ds' yl yl' z z' hl hsr hZ hZ'
    -- one step on one channel
    have step1 : ∀ (z e : List R), DWT1DInverse_step m g0 g1 [z] (some [e])
        = (sfb1dCh m g0 g1 (if z.length > e.length then z.take (z.length - 1) else z) e).map fun v => [v] := by
      intro z e
      unfold DWT1DInverse_step
      simp only [List.headD_cons, List.map_cons, List.map_nil]
      by_cases c : z.length > e.length
      · simp only [c, if_true]
        cases hv : sfb1dCh m g0 g1 (z.take (z.length - 1)) e with
        | none => simp [SFB1D_forward, C10.sfb1dT_single, sfb1dImg, List.range, List.range.loop, hv]
        | some v => rw [C05V.SFB1D_forward_one m g0 g1 _ e v hv]; rfl
      · simp only [c, if_false]
        cases hv : sfb1dCh m g0 g1 z e with
        | none => simp [SFB1D_forward, C10.sfb1dT_single, sfb1dImg, List.range, List.range.loop, hv]
        | some v => rw [C05V.SFB1D_forward_one m g0 g1 _ e v hv]; rfl
    rw [step1] at hst hst'
    have hcrop : (if (lincomb a b z z').length > (lincomb a b d d').length then (lincomb a b z z').take ((lincomb a b z z').length - 1) else lincomb a b z z')
        = lincomb a b (if z.length > d.length then z.take (z.length - 1) else z) (if z'.length > d'.length then z'.take (z'.length - 1) else z') := by
      by_cases c : z.length > d.length
      · have c' : z'.length > d'.length := by omega
        have c'' : (lincomb a b z z').length > (lincomb a b d d').length := by simp only [lincomb_length]; exact c
        rw [if_pos c, if_pos c', if_pos c'']
        exact ((C07I.lin_dropLast (R := R)) a b z z' lz).1
      · have c' : ¬ (z'.length > d'.length) := by omega
        have c'' : ¬ ((lincomb a b z z').length > (lincomb a b d d').length) := by simp only [lincomb_length]; exact c
        rw [if_neg c, if_neg c', if_neg c'']
    have lcr : (if z.length > d.length then z.take (z.length - 1) else z).length
        = (if z'.length > d'.length then z'.take (z'.length - 1) else z').length := by
      rw [← lz, ← hd]
      split <;> simp [lz]
    cases hu : sfb1dCh m g0 g1 (if z.length > d.length then z.take (z.length - 1) else z) d with
    | none => rw [hu] at hst; simp at hst
    | some u =>
      cases hv : sfb1dCh m g0 g1 (if z'.length > d'.length then z'.take (z'.length - 1) else z') d' with
      | none => rw [hv] at hst'; simp at hst'
      | some v =>
        rw [hu] at hst; rw [hv] at hst'
        have eu : u = y := by simpa using hst
        have ev : v = y' := by simpa using hst'
        subst eu ev
        have hlin := sfb1dCh_linear m g0 g1 _ _ d d' a b lcr hd
        rw [hu, hv] at hlin
        simp only [Option.bind_some] at hlin
        obtain ⟨v2, hv2, lv2⟩ := sfb1dCh_shape m g0 g1 _ _ d d' u lcr hd hu
        rw [hv] at hv2
        have : v2 = v := by simpa using hv2.symm
        subst this
        refine ⟨?_, lv2.symm⟩
        unfold DWT1DInverse at ih ⊢
        simp only [List.zipWith_cons_cons, List.map_cons, List.reverse_cons, List.foldlM_append, ih, Option.bind_eq_bind, Option.bind_some,
          List.foldlM_cons, List.foldlM_nil]
        rw [step1, hcrop, hlin]
        rfl


/-! ### the J-level 1-D forward transform -/

/-- `AFB1D.forward` on one channel, raising cases included -/
theorem AFB1D_forward_single_eq (m : Mode) (w0 w1 x : List R) :
    AFB1D_forward m w0 w1 [x] = (afb1dOne m w0 x).bind fun lo => (afb1dOne m w1 x).bind fun hi => some ([lo], [hi]) := by
  cases h0 : afb1dOne m w0 x with
  | none =>
    unfold AFB1D_forward
    simp only [List.map_cons, List.map_nil]
    rw [afb1dT_one]
    simp [alongO, alongWO, h0]
  | some lo =>
    cases h1 : afb1dOne m w1 x with
    | none =>
      unfold AFB1D_forward
      simp only [List.map_cons, List.map_nil]
      rw [afb1dT_one]
      simp [alongO, alongWO, h0, h1]
    | some hi =>
      rw [C05U.AFB1D_forward_one m w0 w1 x lo hi h0 h1]
      rfl

/-- **`DWT1DForward` is linear (one channel, every mode, every J) and whether it raises depends on the length only**: on a linear
combination of two signals of one length it returns the linear combination, band by band, of what it returns on each -/
theorem DWT1DForward_linear (m : Mode) (w0 w1 : List R) (a b : R) : ∀ (J : Nat) (x x' : List R), x.length = x'.length →
    DWT1DForward m w0 w1 J [lincomb a b x x']
      = (DWT1DForward m w0 w1 J [x]).bind fun p => (DWT1DForward m w0 w1 J [x']).bind fun q =>
          some ([lincomb a b (p.1.getD 0 []) (q.1.getD 0 [])],
                List.zipWith (fun u v => [lincomb a b (u.getD 0 []) (v.getD 0 [])]) p.2 q.2)
  | 0, x, x', _ => by simp [DWT1DForward]
  | J+1, x, x', hl => by
    obtain ⟨g0, F0, hF0, e0⟩ := afb1dOne_guardedLin m w0
    obtain ⟨g1, F1, hF1, e1⟩ := afb1dOne_guardedLin m w1
    simp only [DWT1DForward, AFB1D_forward_single_eq, e0, e1, lincomb_length, ← hl]
    by_cases c0 : g0 x.length = true
    · by_cases c1 : g1 x.length = true
      · simp only [c0, c1, if_true, Option.bind_some, Option.bind_eq_bind]
        obtain ⟨f0, l0⟩ := hF0 a b x x' hl
        obtain ⟨f1, _⟩ := hF1 a b x x' hl
        rw [f0, f1, DWT1DForward_linear m w0 w1 a b J (F0 x) (F0 x') l0]
        cases DWT1DForward m w0 w1 J [F0 x] with
        | none => simp
        | some p =>
          cases DWT1DForward m w0 w1 J [F0 x'] with
          | none => simp
          | some q => simp
      · simp [c0, c1]
    · simp [c0]

/-- non-vacuity: two pyramids of one shape -/
example : SameShape ([[1, 2, 3], [4, 5]] : List (List Int)) [[0, 0, 1], [7, 7]] := by simp [SameShape]

end WV.C07V
