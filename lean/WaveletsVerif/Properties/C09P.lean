/-
  C09 — the back-propagation of the first-order scattering layer is the exact ADJOINT OF ITS LINEARISATION, over any
  commutative ring and for any "division" and "square root" operations.

  Forward (one channel, no colour combination): `S0 = pool(low(x))`, `S1_o = sq(re_o² + im_o² + b²) − b` with
  `(re_o, im_o)` the six complex bands of the level-1 DTCWT of `x`.  The layer saves, per band, the factors
  `fre_o = re_o / r_o`, `fim_o = im_o / r_o` (`r_o = sq(re_o² + im_o² + b²)`) and its backward pass returns
  `inv_j1( ¼·upsample(dS0), (dS1_o · fre_o, dS1_o · fim_o)_o )`.

  `scat1_backward_adjoint`: for every direction `v`, with `δS0 = pool(low(v))` and
  `δS1_o = fre_o · re_o(v) + fim_o · im_o(v)` (the linear map whose coefficients are the saved factors),
  `⟨δS0, dS0⟩ + Σ_o ⟨δS1_o, dS1_o⟩ = ⟨v, backward(dS0, dS1)⟩`.
  Together with C09's calculus lemma (`∂ sqrt(t² + c)/∂t = t / sqrt(t² + c)`: the saved factors ARE the partial derivatives
  of the magnitude) this is the chain rule for the layer, with the differentiability of the composition as the only
  remaining analytic ingredient.
-/
import WaveletsVerif.Properties.C06
import WaveletsVerif.Properties.C04P
import WaveletsVerif.Model.Scat
namespace WV.C09P
open Finset WV WV.C04 WV.C06
variable {R : Type} [CommRing R]

theorem nearestUp2_rect (z : Img R) (H W : Nat) (hz : Rect z H W) (hH : 1 ≤ H) : Rect (nearestUp2 z) (2*H) (2*W) := by
  unfold nearestUp2
  rw [hz.1, rect_width z H W hz hH]
  exact tab2_rect _ _ _

theorem iscale_tab2 (c : R) (H W : Nat) (f : Nat → Nat → R) : iscale c (tab2 H W f) = tab2 H W fun i j => c * f i j := by
  unfold iscale vscale tab2 tab
  simp [List.map_map, Function.comp_def]

/-- 2×2 average pooling and (¼ ·) nearest-neighbour up-sampling are mutual adjoints -/
theorem pool_up_adjoint (q : R) (L z : Img R) (H W : Nat) (hL : Rect L (2*H) (2*W)) (hz : Rect z H W) (hH : 1 ≤ H) (hW : 1 ≤ W) :
    dot2 (2*H) (2*W) L (iscale q (nearestUp2 z)) = dot2 H W (avgPool2 q L) z := by
  have hLw := rect_width L _ _ hL (by omega)
  unfold nearestUp2 avgPool2
  rw [hz.1, rect_width z H W hz hH, iscale_tab2, hL.1, hLw]
  have e1 : 2 * H / 2 = H := by omega
  have e2 : 2 * W / 2 = W := by omega
  rw [e1, e2]
  unfold dot2
  rw [sum_range_two_mul]
  apply Finset.sum_congr rfl; intro i hi
  have hi' : i < H := by simpa using hi
  rw [sum_range_two_mul, sum_range_two_mul, ← Finset.sum_add_distrib]
  apply Finset.sum_congr rfl; intro j hj
  have hj' : j < W := by simpa using hj
  rw [C19.get2_tab2 _ _ _ _ _ (by omega) (by omega), C19.get2_tab2 _ _ _ _ _ (by omega) (by omega),
    C19.get2_tab2 _ _ _ _ _ (by omega) (by omega), C19.get2_tab2 _ _ _ _ _ (by omega) (by omega),
    C19.get2_tab2 _ _ _ _ _ hi' hj']
  have a1 : 2 * i / 2 = i := by omega
  have a2 : (2 * i + 1) / 2 = i := by omega
  have b1 : 2 * j / 2 = j := by omega
  have b2 : (2 * j + 1) / 2 = j := by omega
  rw [a1, a2, b1, b2]
  ring

/-- the factors the layer saves for one band: `re / r`, `im / r` with `r = sq(re² + im² + b²)` -/
def savedRe (m : MagOps R) (cz : Cplx R) : Img R := imap2 m.dv cz.1 (magR m cz)
def savedIm (m : MagOps R) (cz : Cplx R) : Img R := imap2 m.dv cz.2 (magR m cz)

theorem iscale_rect (c : R) (x : Img R) (H W : Nat) (hx : Rect x H W) : Rect (iscale c x) H W := by
  rw [rect_eq_tab2 x H W hx, iscale_tab2]; exact tab2_rect _ _ _

/-- **the backward pass of the first-order scattering layer is the adjoint of its linearisation** (one channel, no colour
combination, symmetric odd-length level-1 filters, even image sides; any ring, any `sq` and `dv`) -/
theorem scat1_backward_adjoint (m : MagOps R) (h0 h1 : List R) (hh0 : h0.length % 2 = 1) (hh1 : h1.length % 2 = 1)
    (hs0 : Symm h0) (hs1 : Symm h1) (x v : Img R) (dZ : List (Img R)) (H W : Nat) (hH : 1 ≤ H) (hW : 1 ≤ W)
    (hx : Rect x (2*H) (2*W)) (hv : Rect v (2*H) (2*W)) (hd : ∀ k < 7, Rect (dZ.getD k []) H W) :
    ∃ bx bv dx, (fwdJ1 m.s true (prepFilt h0) (prepFilt h1) false x).2 = some bx ∧
      (fwdJ1 m.s true (prepFilt h0) (prepFilt h1) false v).2 = some bv ∧
      scatJ1Backward m true (prepFilt h0) (prepFilt h1) none [x] dZ = some [dx] ∧
      dot2 H W (avgPool2 m.q (fwdJ1 m.s true (prepFilt h0) (prepFilt h1) false v).1) (dZ.getD 0 [])
        + ∑ k ∈ range 6, dot2 H W
            (tab2 H W fun i j => get2 (savedRe m (bx.getD k ([], []))) i j * get2 (bv.getD k ([], [])).1 i j
                               + get2 (savedIm m (bx.getD k ([], []))) i j * get2 (bv.getD k ([], [])).2 i j)
            (dZ.getD (k + 1) [])
        = dot2 (2*H) (2*W) v dx := by
  -- the bands at x
  obtain ⟨bx, _, hbx, _, _⟩ := fwdJ1_backward_adjoint m.s h0 h1 hh0 hh1 hs0 hs1 x x H W hH hW hx hx (fun _ _ _ => 0) (fun _ _ _ => 0)
  -- the cotangents handed to inv_j1
  set ll := iscale m.q (nearestUp2 (dZ.getD 0 [])) with hll
  have rll : Rect ll (2*H) (2*W) := iscale_rect _ _ _ _ (nearestUp2_rect _ H W (hd 0 (by omega)) hH)
  let a : Nat → Nat → Nat → R := fun k i j => get2 (dZ.getD (k + 1) []) i j * get2 (savedRe m (bx.getD k ([], []))) i j
  let b : Nat → Nat → Nat → R := fun k i j => get2 (dZ.getD (k + 1) []) i j * get2 (savedIm m (bx.getD k ([], []))) i j
  obtain ⟨bv, y, hbv, hy, hid⟩ := fwdJ1_backward_adjoint m.s h0 h1 hh0 hh1 hs0 hs1 v ll H W hH hW hv rll a b
  refine ⟨bx, bv, y, hbx, hbv, ?_, ?_⟩
  · -- the model's backward is exactly that inv_j1 call
    have hhs : ((List.range 6).map fun o =>
          (imap2 (fun d t => d * t) (dZ.getD (1 * (o + 1) + 0) []) (imap2 m.dv (bx.getD o ([], [])).1 (magR m (bx.getD o ([], [])))),
           imap2 (fun d t => d * t) (dZ.getD (1 * (o + 1) + 0) []) (imap2 m.dv (bx.getD o ([], [])).2 (magR m (bx.getD o ([], []))))))
        = (List.range 6).map fun k => (tab2 H W (a k), tab2 H W (b k)) := by
      apply List.map_congr_left
      intro o ho
      have ho' : o < 6 := by simpa using ho
      have rd := hd (o + 1) (by omega)
      have e : 1 * (o + 1) + 0 = o + 1 := by omega
      rw [e]
      unfold imap2
      rw [rd.1, rect_width _ H W rd hH]
      rfl
    have hrc : bandSize ((List.range 6).map fun k => ((tab2 H W (a k), tab2 H W (b k)) : Cplx R)) = (H, W) := by
      unfold bandSize
      simp only [List.range, List.range.loop, List.map_cons, List.headD_cons]
      rw [(tab2_rect H W (a 0)).1, rect_width _ H W (tab2_rect H W (a 0)) hH]
    unfold scatJ1Backward
    simp only [List.length_cons, List.length_nil, List.map_cons, List.map_nil, fwd1, hbx, Option.getD_some]
    have hrange : List.range (0 + 1) = [0] := by decide
    rw [hrange]
    simp only [List.mapM_cons, List.mapM_nil, zero_add, List.getD_cons_zero]
    rw [hhs, hrc, ← hll]
    have hy' : invJ1 m.s true (prepFilt h0) (prepFilt h1) (H, W) (some ll)
        (some ((List.range 6).map fun k => ((tab2 H W (a k), tab2 H W (b k)) : Cplx R))) = some y := hy
    rw [hy']
    rfl
  · have hp := pool_up_adjoint m.q (fwdJ1 m.s true (prepFilt h0) (prepFilt h1) false v).1 (dZ.getD 0 []) H W
      (C04P.fwdJ1_shape m.s h0 h1 hh0 hh1 v H W hH hW hv).1 (hd 0 (by omega)) hH hW
    have e2 : ∀ k ∈ range 6,
        dot2 H W (tab2 H W fun i j => get2 (savedRe m (bx.getD k ([], []))) i j * get2 (bv.getD k ([], [])).1 i j
                               + get2 (savedIm m (bx.getD k ([], []))) i j * get2 (bv.getD k ([], [])).2 i j) (dZ.getD (k + 1) [])
          = dot2 H W (bv.getD k ([], [])).1 (((List.range 6).map fun k => ((tab2 H W (a k), tab2 H W (b k)) : Cplx R)).getD k ([], [])).1
            + dot2 H W (bv.getD k ([], [])).2 (((List.range 6).map fun k => ((tab2 H W (a k), tab2 H W (b k)) : Cplx R)).getD k ([], [])).2 := by
      intro k hk
      have hk' : k < 6 := by simpa using hk
      have hget : ((List.range 6).map fun k => ((tab2 H W (a k), tab2 H W (b k)) : Cplx R)).getD k ([], []) = (tab2 H W (a k), tab2 H W (b k)) := by
        simp [List.getD_eq_getElem?_getD, List.getElem?_eq_getElem, hk']
      rw [hget]
      unfold dot2
      rw [← Finset.sum_add_distrib]
      apply Finset.sum_congr rfl; intro i hi
      rw [← Finset.sum_add_distrib]
      apply Finset.sum_congr rfl; intro j hj
      have hi' : i < H := by simpa using hi
      have hj' : j < W := by simpa using hj
      rw [C19.get2_tab2 _ _ _ _ _ hi' hj', C19.get2_tab2 _ _ _ _ _ hi' hj', C19.get2_tab2 _ _ _ _ _ hi' hj']
      ring
    rw [Finset.sum_congr rfl e2, ← hp, hid]

end WV.C09P

namespace WV.C09P
open WV WV.C04
/-- the hypotheses are satisfiable: symmetric odd-length integer filters, a 4 × 4 image -/
example : Symm ([1, 2, 1] : List Int) ∧ ([1, 2, 1] : List Int).length % 2 = 1 ∧
    Rect ([[1, 2, 3, 4], [5, 6, 7, 8], [1, 0, 1, 0], [2, 2, 2, 2]] : Img Int) (2 * 2) (2 * 2) := by
  refine ⟨?_, by decide, by simp [Rect]⟩
  intro j hj
  have : j = 0 ∨ j = 1 ∨ j = 2 := by simp at hj; omega
  rcases this with rfl | rfl | rfl <;> decide
end WV.C09P
