/-
  C06 — back-propagation through the whole inverse DTCWT is the adjoint on EVERY forward-compatible pyramid (the crops of the
  running low-pass included): the low-pass and every band-pass level receive exactly their gradients.

  Before each level `DTCWTInverse` cuts the first and last row / column off the low-pass reconstructed so far when it is two samples
  larger than twice that level's band-pass images (`cropToHighs`: what the extension of the forward pass to a multiple of 4 leaves
  behind).  The crop is an index gather (`cropToHighs_get2`); the backward pass PyTorch runs for it pads the gradient with zeros —
  the scatter-add of `C06L.gatherBack` — and gather and scatter-add are adjoint (`crop_adjoint`).  The induction of `C06K` is repeated
  with the crop at every level (`invLoop_adjoint_ext`, `DTCWTInverse_backward_adjoint_ext`): for every J, every level-1 band size
  `a × b` (the coarser levels have `⌈·/2⌉` of the finer ones, as the forward transform produces them), every pyramid and every
  cotangent `dy`, `⟨DTCWTInverse P, dy⟩ = ⟨P, backward(dy)⟩`.
-/
import WaveletsVerif.Properties.C06K
import WaveletsVerif.Properties.C06L
import WaveletsVerif.Properties.C11P
namespace WV.C06M
open Finset WV WV.C04 WV.C06 WV.C06Q WV.C04P WV.C06J WV.C06K WV.C06L WV.C11P
variable {R : Type} [CommRing R]

/-- source index of sample `m` of the crop of an axis of length `big` to length `small` (`[1:-1]` when they differ) -/
def srcC (big small m : Nat) : Nat := if big ≠ small then m + 1 else m

omit [CommRing R] in
theorem getD_crop {α : Type} (x : List α) (d : α) (m : Nat) (h : 2 ≤ x.length) (hm : m < x.length - 2) :
    (slice x 1 (-1)).getD m d = x.getD (m + 1) d := by
  rw [slice_one_neg_one x h]
  simp only [List.getD_eq_getElem?_getD, List.getElem?_drop, List.getElem?_take]
  rw [if_pos (by omega), Nat.add_comm]

/-- **the crop of the inverse is the gather with sources `srcC`** -/
theorem cropToHighs_get2 (Z : Img R) (Hb Wb a b : Nat) (ha : 1 ≤ a) (hZ : Rect Z Hb Wb)
    (hH : Hb = 2*a ∨ Hb = 2*a + 2) (hW : Wb = 2*b ∨ Wb = 2*b + 2) (m k : Nat) (hm : m < 2*a) (hk : k < 2*b) :
    get2 (cropToHighs Z a b) m k = get2 Z (srcC Hb (2*a) m) (srcC Wb (2*b) k) := by
  unfold cropToHighs srcC
  simp only [hZ.1]
  have rows : Hb ≠ 2*a → ∀ m k, m < 2*a → get2 (slice Z 1 (-1)) m k = get2 Z (m + 1) k := by
    intro hne m k hm
    unfold get2
    rw [getD_crop Z [] m (by rw [hZ.1]; omega) (by rw [hZ.1]; omega)]
  have cols : ∀ (Y : Img R) (H' : Nat), Rect Y H' Wb → Wb ≠ 2*b → ∀ m k, m < H' → k < 2*b →
      get2 (Y.map (fun r => slice r 1 (-1))) m k = get2 Y m (k + 1) := by
    intro Y H' hY hne m k hm hk
    rw [get2_mapf Y _ m k (by rw [hY.1]; exact hm)]
    have hl : (Y.getD m []).length = Wb := getD_row_length' Y H' Wb hY m hm
    rw [getD_crop _ 0 k (by rw [hl]; omega) (by rw [hl]; omega)]
    rfl
  by_cases hc : Hb ≠ 2*a
  · have r1 : Rect (slice Z 1 (-1)) (2*a) Wb := by
      rw [slice_one_neg_one Z (by rw [hZ.1]; omega)]
      refine ⟨by rw [List.length_drop, List.length_take, hZ.1]; omega, ?_⟩
      intro row hrow
      exact hZ.2 row (List.mem_of_mem_take (List.mem_of_mem_drop hrow))
    have hw1 : Img.width (slice Z 1 (-1)) = Wb := rect_width _ _ _ r1 (by omega)
    rw [if_pos hc, if_pos hc, hw1]
    by_cases hd : Wb ≠ 2*b
    · rw [if_pos hd, if_pos hd, cols _ _ r1 hd m k hm hk, rows hc m _ hm]
    · rw [if_neg hd, if_neg hd, rows hc m k hm]
  · have hw1 : Img.width Z = Wb := rect_width _ _ _ hZ (by omega)
    rw [if_neg hc, if_neg hc, hw1]
    by_cases hd : Wb ≠ 2*b
    · rw [if_pos hd, if_pos hd, cols Z Hb hZ hd m k (by omega) hk]
    · rw [if_neg hd, if_neg hd]

/-- the backward pass of that crop: the gradient padded with zero rows / columns -/
def cropBack (Hb Wb a b : Nat) (g : Img R) : Img R := gatherBack (srcC Hb (2*a)) (srcC Wb (2*b)) Hb Wb (2*a) (2*b) g

theorem cropBack_rect (Hb Wb a b : Nat) (g : Img R) : Rect (cropBack Hb Wb a b g) Hb Wb := gatherBack_rect _ _ _ _ _ _ _

theorem crop_adjoint (Z g : Img R) (Hb Wb a b : Nat) (ha : 1 ≤ a) (hZ : Rect Z Hb Wb)
    (hH : Hb = 2*a ∨ Hb = 2*a + 2) (hW : Wb = 2*b ∨ Wb = 2*b + 2) :
    dot2 (2*a) (2*b) g (cropToHighs Z a b) = dot2 Hb Wb (cropBack Hb Wb a b g) Z := by
  have h := gather2_adjoint Hb Wb (2*a) (2*b) (srcC Hb (2*a)) (srcC Wb (2*b))
    (fun m hm => by unfold srcC; split <;> omega) (fun k hk => by unfold srcC; split <;> omega) Z (cropToHighs Z a b) g
    (fun m hm k hk => cropToHighs_get2 Z Hb Wb a b ha hZ hH hW m k hm hk)
  unfold dot2 at h ⊢
  unfold cropBack
  rw [show (∑ i ∈ range (2*a), ∑ j ∈ range (2*b), get2 g i j * get2 (cropToHighs Z a b) i j)
      = ∑ i ∈ range (2*a), ∑ j ∈ range (2*b), get2 (cropToHighs Z a b) i j * get2 g i j from
    Finset.sum_congr rfl (fun i _ => Finset.sum_congr rfl (fun j _ => mul_comm _ _)), h]
  exact Finset.sum_congr rfl (fun i _ => Finset.sum_congr rfl (fun j _ => mul_comm _ _))

/-! ### the level loop with the crops -/

/-- size of what `n` levels reconstruct below a level whose band-pass images are `a` long: the low-pass itself, or the uncropped
output of the finest of those levels -/
def outSz (n a : Nat) : Nat := if n = 0 then 2 * a else 4 * ((a + 1) / 2)

theorem outSz_ok (n a : Nat) : outSz n a = 2*a ∨ outSz n a = 2*a + 2 := by
  unfold outSz; split <;> omega

/-- the chain rule over levels `2 … J` of `DTCWTInverse` with the crops, finest of them first -/
def invLoopBackwardE (s : R) (g : InvFilters R) : Nat → Nat → Nat → Img R → Option (Img R × List (List (Cplx R)))
  | 0, _, _, dy => some (dy, [])
  | n+1, a, b, dy => do
    let r ← INV_J2PLUS_backward s g.g0a g.g1a g.g0b g.g1b true true dy
    match r with
    | (some dl, some dh) => do
      let (dlF, dhs) ← invLoopBackwardE s g n ((a + 1) / 2) ((b + 1) / 2)
        (cropBack (outSz n ((a + 1) / 2)) (outSz n ((b + 1) / 2)) ((a + 1) / 2) ((b + 1) / 2) dl)
      some (dlF, dh :: dhs)
    | _ => none

/-- … preceded by `INV_J1.backward` and the backward of the crop before level 1 -/
def DTCWTInverseBackwardE (s : R) (g : InvFilters R) (n a b : Nat) (dy : Img R) : Option (Img R × List (List (Cplx R))) :=
  match INV_J1_backward s true g.g0o g.g1o true true dy with
  | (some dl, some dh) => do
    let (dlF, dhs) ← invLoopBackwardE s g n a b (cropBack (outSz n a) (outSz n b) a b dl)
    some (dlF, dh :: dhs)
  | _ => none

def cotsI (A B : Nat → Nat → Nat → Nat → R) : Nat → Nat → Nat → Nat → List (List (Cplx R))
  | 0, _, _, _ => []
  | n+1, lvl, a, b => cot (A lvl) (B lvl) ((a + 1) / 2) ((b + 1) / 2) :: cotsI A B n (lvl + 1) ((a + 1) / 2) ((b + 1) / 2)

def sizesI : Nat → Nat → Nat → List (Nat × Nat)
  | 0, _, _ => []
  | n+1, a, b => ((a + 1) / 2, (b + 1) / 2) :: sizesI n ((a + 1) / 2) ((b + 1) / 2)

def gradDotI (A B : Nat → Nat → Nat → Nat → R) : Nat → Nat → Nat → Nat → List (List (Cplx R)) → R
  | n+1, lvl, a, b, dh :: dhs =>
    bdot ((a + 1) / 2) ((b + 1) / 2) dh (cot (A lvl) (B lvl) ((a + 1) / 2) ((b + 1) / 2)) + gradDotI A B n (lvl + 1) ((a + 1) / 2) ((b + 1) / 2) dhs
  | _, _, _, _, _ => 0

section
variable (s : R) (g0o g1o g0 g1 : List R) (hg0o : g0o.length % 2 = 1) (hg1o : g1o.length % 2 = 1) (hs0 : Symm g0o) (hs1 : Symm g1o)
    (hm0 : g0.length % 2 = 0) (hm0' : 2 ≤ g0.length) (hm1 : g1.length % 2 = 0) (hm1' : 2 ≤ g1.length)
    (A B : Nat → Nat → Nat → Nat → R)

include hm0 hm0' hm1 hm1' in
/-- levels `2 … J` on every forward-compatible pyramid: the chain of `INV_J2PLUS.backward` and crop backward passes is the adjoint of
the inverse's level loop -/
theorem invLoop_adjoint_ext : ∀ (n lvl : Nat) (low dy : Img R) (a b : Nat), 1 ≤ a → 1 ≤ b →
    Rect low (2 * upN n a) (2 * upN n b) → Rect dy (outSz n a) (outSz n b) →
    ∃ Z dlF dhs,
      (((cotsI A B n lvl a b).map some).zip (sizesI n a b)).reverse.foldlM (dtcwtInvStep s (mkG g0o g1o g0 g1)) (some low) = some (some Z) ∧
      Rect Z (outSz n a) (outSz n b) ∧
      invLoopBackwardE s (mkG g0o g1o g0 g1) n a b dy = some (dlF, dhs) ∧
      dot2 (outSz n a) (outSz n b) dy Z = dot2 (2 * upN n a) (2 * upN n b) dlF low + gradDotI A B n lvl a b dhs
  | 0, lvl, low, dy, a, b, _, _, hl, hdy => by
    simp only [upN, outSz, if_true] at hl hdy ⊢
    refine ⟨low, dy, [], by simp [cotsI, sizesI], hl, by simp [invLoopBackwardE], ?_⟩
    simp only [gradDotI, add_zero]
  | n+1, lvl, low, dy, a, b, ha, hb, hl, hdy => by
    have ha1 : 1 ≤ (a + 1) / 2 := by omega
    have hb1 : 1 ≤ (b + 1) / 2 := by omega
    have eo : ∀ c : Nat, outSz (n + 1) c = 4 * ((c + 1) / 2) := by intro c; unfold outSz; simp
    simp only [upN] at hl ⊢
    rw [eo a, eo b] at hdy ⊢
    -- this level's backward pass does not depend on the low-pass input: name its results with any low-pass
    obtain ⟨dl, dh, _, hB0, _, rdl, _, _⟩ := inv2_level s g0o g1o g0 g1 hm0 hm0' hm1 hm1' dy
      (tab2 (2 * ((a + 1) / 2)) (2 * ((b + 1) / 2)) fun _ _ => (0 : R)) ((a + 1) / 2) ((b + 1) / 2) ha1 hb1 hdy (tab2_rect _ _ _) (A lvl) (B lvl)
    -- the coarser levels: forward from `low`, backward from the zero-padded `dl`
    obtain ⟨Z', dlF, dhs, hfold, rZ', hbw, hid'⟩ := invLoop_adjoint_ext n (lvl + 1) low
      (cropBack (outSz n ((a + 1) / 2)) (outSz n ((b + 1) / 2)) ((a + 1) / 2) ((b + 1) / 2) dl) ((a + 1) / 2) ((b + 1) / 2) ha1 hb1 hl
      (cropBack_rect _ _ _ _ _)
    have rcrop := crop_rect Z' _ _ ((a + 1) / 2) ((b + 1) / 2) ha1 hb1 rZ' (outSz_ok n _) (outSz_ok n _)
    -- this level applied to the crop of what the coarser levels reconstructed
    obtain ⟨dl2, dh2, y, hB, hI, _, ry, hid⟩ := inv2_level s g0o g1o g0 g1 hm0 hm0' hm1 hm1' dy (cropToHighs Z' ((a + 1) / 2) ((b + 1) / 2))
      ((a + 1) / 2) ((b + 1) / 2) ha1 hb1 hdy rcrop (A lvl) (B lvl)
    rw [hB0] at hB
    simp only [Option.some.injEq, Prod.mk.injEq] at hB
    obtain ⟨edl, edh⟩ := hB
    refine ⟨y, dlF, dh :: dhs, ?_, ry, ?_, ?_⟩
    · simp only [cotsI, sizesI, List.map_cons, List.zip_cons_cons, List.reverse_cons, List.foldlM_append, hfold, Option.bind_eq_bind,
        Option.bind_some, List.foldlM_cons, List.foldlM_nil]
      unfold dtcwtInvStep
      simp only
      rw [hI]
      rfl
    · simp only [invLoopBackwardE, hB0, Option.bind_eq_bind, Option.bind_some, hbw]
    · rw [hid, ← edl, crop_adjoint Z' dl _ _ _ _ ha1 rZ' (outSz_ok n _) (outSz_ok n _), hid']
      simp only [gradDotI]
      rw [edh]
      ring

include hg0o hg1o hs0 hs1 hm0 hm0' hm1 hm1' in
/-- **back-propagation through the whole inverse DTCWT is the adjoint of the transform on every forward-compatible pyramid** (one
channel, symmetric mode, every input requiring grad, `J = n + 1`, level-1 bands `a × b`, coarser levels `⌈·/2⌉`): for every
low-pass, every band-pass levels and every cotangent `dy` of the `2a × 2b` reconstruction,
`⟨DTCWTInverse(low, bands), dy⟩ = ⟨low, d low⟩ + Σ_levels Σ_k ⟨band, d band⟩` -/
theorem DTCWTInverse_backward_adjoint_ext (n : Nat) (low dy : Img R) (a b : Nat) (ha : 1 ≤ a) (hb : 1 ≤ b)
    (hl : Rect low (2 * upN n a) (2 * upN n b)) (hdy : Rect dy (2*a) (2*b)) :
    ∃ y dlF dh1 dhs,
      DTCWTInverse s true (mkG g0o g1o g0 g1) ((a, b) :: sizesI n a b) (a, b) (some low)
        (some (cot (A 0) (B 0) a b) :: (cotsI A B n 1 a b).map some) = some y ∧
      DTCWTInverseBackwardE s (mkG g0o g1o g0 g1) n a b dy = some (dlF, dh1 :: dhs) ∧
      dot2 (2*a) (2*b) dy y
        = dot2 (2 * upN n a) (2 * upN n b) dlF low + bdot a b dh1 (cot (A 0) (B 0) a b) + gradDotI A B n 1 a b dhs := by
  -- level 1 backward: its low-pass gradient is the level-1 analysis low-pass of `dy`
  obtain ⟨dl, dh1, _, hB1, _, _⟩ := INV_J1_backward_adjoint s g0o g1o hg0o hg1o hs0 hs1 dy dy a b ha hb hdy hdy (A 0) (B 0)
  have edl : dl = (fwdJ1 s true (prepFilt g0o) (prepFilt g1o) false dy).1 := by
    have hB1' : INV_J1_backward s true (prepFilt g0o) (prepFilt g1o) true true dy = (some dl, some dh1) := hB1
    unfold INV_J1_backward at hB1'
    simp at hB1'
    exact hB1'.1.symm
  -- the coarser levels, from the zero-padded gradient
  obtain ⟨Z, dlF, dhs, hfold, rZ, hbw, hidL⟩ := invLoop_adjoint_ext s g0o g1o g0 g1 hm0 hm0' hm1 hm1' A B n 1 low
    (cropBack (outSz n a) (outSz n b) a b dl) a b ha hb hl (cropBack_rect _ _ _ _ _)
  have rcrop := crop_rect Z _ _ a b ha hb rZ (outSz_ok n a) (outSz_ok n b)
  -- level 1 forward on the crop of what they reconstructed
  obtain ⟨dl', dh1', y, hB1', hI, hid⟩ := INV_J1_backward_adjoint s g0o g1o hg0o hg1o hs0 hs1 dy (cropToHighs Z a b) a b ha hb hdy rcrop (A 0) (B 0)
  have hpair : (some dl, some dh1) = (some dl', some dh1') := by
    have h1 : INV_J1_backward s true (prepFilt g0o) (prepFilt g1o) true true dy = (some dl, some dh1) := hB1
    have h2 : INV_J1_backward s true (prepFilt g0o) (prepFilt g1o) true true dy = (some dl', some dh1') := hB1'
    rw [← h1, h2]
  simp only [Prod.mk.injEq, Option.some.injEq] at hpair
  obtain ⟨e1, e2⟩ := hpair
  refine ⟨y, dlF, dh1, dhs, ?_, ?_, ?_⟩
  · rw [DTCWTInverse_cons, hfold]
    simp only [Option.bind_eq_bind, Option.bind_some]
    exact hI
  · unfold DTCWTInverseBackwardE
    have h1 : INV_J1_backward s true (mkG g0o g1o g0 g1).g0o (mkG g0o g1o g0 g1).g1o true true dy = (some dl, some dh1) := hB1
    rw [h1]
    simp only [hbw, Option.bind_eq_bind, Option.bind_some]
  · rw [hid, ← e1, ← e2, crop_adjoint Z dl _ _ a b ha rZ (outSz_ok n a) (outSz_ok n b), hidL]
    unfold bdot cot
    ring

end

/-- sizes on which every level crops: level-1 bands 3 × 5 (a 6 × 10 reconstruction), level 2 bands 2 × 3 reconstruct 8 × 12 (cropped
to 6 × 10), level 3 bands 1 × 2 reconstruct 4 × 8 (cropped to 4 × 6); the low-pass is 2 × 4 -/
example : sizesI 2 3 5 = [(2, 3), (1, 2)] ∧ outSz 2 3 = 8 ∧ outSz 2 5 = 12 ∧ outSz 1 2 = 4 ∧ outSz 1 3 = 8 ∧ upN 2 3 = 1 ∧ upN 2 5 = 2 := by
  decide

end WV.C06M
