/-
  The size logic of `DTCWTInverse.forward` and of the scattering modules, tied to the source by translation.

  `Gen/Sizes.lean` (regenerated on every run) holds, read from `dtcwt/transform2d.py` and `scatternet/layers.py` at fixed statement
  shapes: the two tests `r != r1 * 2` / `c != c1 * 2` and the four crops `low = low[..., 1:-1]` of the inverse (inside the level loop
  and before level 1), the odd-size tests of `ScatLayer.forward` and the channel counts of the two final `view`s.  The theorems
  restate the hand-written model (`cropToHighs`, `extendEven`, the channel counts of `scatJ1` / `scatJ2`) with them, for all sizes.
-/
import WaveletsVerif.Gen.Sizes
import WaveletsVerif.Properties.C08
namespace WV.C04Z
open WV WV.Gen.Sizes
variable {R : Type} [CommRing R]

/-- the crop of the inverse's low-pass, written with the generated tests and slice bounds (loop copy) -/
def cropGen (from_r to_r from_c to_c : Int) (ll : Img R) (r1 c1 : Nat) : Img R :=
  let ll1 : Img R := if (ll.length : Int) ≠ (r1 : Int) * 2 then slice ll from_r to_r else ll
  if (ll1.width : Int) ≠ (c1 : Int) * 2 then ll1.map (fun r => slice r from_c to_c) else ll1

/-- **`cropToHighs` with the tests and slice bounds read from the source**, for the copy inside the level loop and the copy before
level 1; both copies test and crop alike, rows on axis 2 and columns on axis 3 -/
theorem cropToHighs_gen (ll : Img R) (r1 c1 : Nat) :
    cropToHighs ll r1 c1 = cropGen dtcwt_inv_crop_from_rows_loop dtcwt_inv_crop_to_rows_loop dtcwt_inv_crop_from_cols_loop dtcwt_inv_crop_to_cols_loop ll r1 c1 ∧
    cropToHighs ll r1 c1 = cropGen dtcwt_inv_crop_from_rows_last dtcwt_inv_crop_to_rows_last dtcwt_inv_crop_from_cols_last dtcwt_inv_crop_to_cols_last ll r1 c1 ∧
    (∀ r r1 : Int, (dtcwt_inv_rows_differ_loop r r1 ↔ r ≠ r1 * 2) ∧ (dtcwt_inv_rows_differ_last r r1 ↔ r ≠ r1 * 2)) ∧
    (∀ c c1 : Int, (dtcwt_inv_cols_differ_loop c c1 ↔ c ≠ c1 * 2) ∧ (dtcwt_inv_cols_differ_last c c1 ↔ c ≠ c1 * 2)) ∧
    dtcwt_inv_crop_axis_rows_loop = 2 ∧ dtcwt_inv_crop_axis_rows_last = 2 ∧ dtcwt_inv_crop_axis_cols_loop = 3 ∧ dtcwt_inv_crop_axis_cols_last = 3 := by
  have key : ∀ (ll : Img R) (r1 c1 : Nat), cropToHighs ll r1 c1 = cropGen 1 (-1) 1 (-1) ll r1 c1 := by
    intro ll r1 c1
    unfold cropToHighs cropGen
    have e1 : ∀ n m : Nat, ((n : Int) ≠ (m : Int) * 2) ↔ n ≠ 2 * m := fun n m => by omega
    simp only [e1]
  refine ⟨key ll r1 c1, key ll r1 c1, fun _ _ => ⟨Iff.rfl, Iff.rfl⟩, fun _ _ => ⟨Iff.rfl, Iff.rfl⟩, rfl, rfl, rfl, rfl⟩

/-- the odd-size tests of `ScatLayer.forward` are the model's (`extendEven`), and the channel counts of the two final `view`s are
the lengths of the models' outputs -/
theorem scat_sizes_gen :
    (∀ r : Nat, scat1_rows_odd r ↔ r % 2 ≠ 0) ∧ (∀ c : Nat, scat1_cols_odd c ↔ c % 2 ≠ 0) ∧
    (∀ C : Nat, (scat1_channels C).toNat = 7 * C) ∧ (∀ C : Nat, (scatj2_channels C).toNat = 49 * C) := by
  refine ⟨fun r => ?_, fun c => ?_, fun C => ?_, fun C => ?_⟩
  · unfold scat1_rows_odd; omega
  · unfold scat1_cols_odd; omega
  · unfold scat1_channels; omega
  · unfold scatj2_channels; omega

/-- the first-order layer returns `scat1_channels C` channels -/
theorem scatJ1_channels_gen (m : MagOps R) (sym : Bool) (h0 h1 : List R) (h2 : Option (List R))
    (x y : List (Img R)) (h : scatJ1 m sym h0 h1 h2 false x = some y) : y.length = (scat1_channels x.length).toNat := by
  rw [C08.scatJ1_channels m sym h0 h1 h2 x y h, scat_sizes_gen.2.2.1]

end WV.C04Z
