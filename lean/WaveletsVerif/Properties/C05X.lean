/-
  C05 — back-propagation through the J-level ONE-DIMENSIONAL inverse transform on EVERY number of channels is the adjoint, channel
  by channel: the stack version of `C05V.loop_adjoint` (crops of the running low-pass stack, a zero appended to every channel of the
  low-pass gradient where the forward pass cropped).
-/
import WaveletsVerif.Properties.C05W
namespace WV.C05X
open Finset WV WV.C05D WV.C05P WV.C05U WV.C07M WV.C05V WV.C05W
variable {R : Type} [CommRing R]

/-- `SFB1D_adjoint_channels` together with the shapes of everything it returns -/
theorem SFB1D_adjoint_channels_shapes (m : Mode) (g0 g1 : List R) (Fit : Nat → Prop) (Out : Nat → Nat) (hA : LevelAdjS m g0 g1 Fit Out)
    (K : Nat) (hK : Fit K) (los his dys : List (List R)) (hl0 : his.length = los.length) (hl1 : dys.length = los.length)
    (hb : ∀ c < los.length, (los.getD c []).length = K ∧ (his.getD c []).length = K)
    (hd : ∀ c < los.length, (dys.getD c []).length = Out K) :
    ∃ ys dlos dhis, SFB1D_forward m g0 g1 los his = some ys ∧ SFB1D_backward m g0 g1 dys = some (dlos, dhis) ∧
      ys.length = los.length ∧ dlos.length = los.length ∧ dhis.length = los.length ∧
      (∀ c < los.length, (ys.getD c []).length = Out K ∧ (dlos.getD c []).length = K ∧ (dhis.getD c []).length = K) ∧
      ∀ c < los.length, dotN (Out K) (dys.getD c []) (ys.getD c [])
        = dotN K (dlos.getD c []) (los.getD c []) + dotN K (dhis.getD c []) (his.getD c []) := by
  classical
  let S : List R → List R → List R := fun a b => (sfb1dCh m g0 g1 a b).getD []
  let lo : List R → List R := fun x => (afb1dOne m g0 x).getD []
  let hi : List R → List R := fun x => (afb1dOne m g1 x).getD []
  have hall : ∀ c < los.length, ∃ y dlo dhi, sfb1dCh m g0 g1 (los.getD c []) (his.getD c []) = some y ∧
      afb1dOne m g0 (dys.getD c []) = some dlo ∧ afb1dOne m g1 (dys.getD c []) = some dhi ∧
      y.length = Out K ∧ dlo.length = K ∧ dhi.length = K ∧
      dotN (Out K) (dys.getD c []) y = dotN K dlo (los.getD c []) + dotN K dhi (his.getD c []) := by
    intro c hc
    obtain ⟨y, dlo, dhi, e1, e2, e3, ly, l2, l3, hid⟩ := hA (los.getD c []) (his.getD c []) (dys.getD c []) (by rw [(hb c hc).1]; exact hK)
      (by rw [(hb c hc).1, (hb c hc).2]) (by rw [(hb c hc).1]; exact hd c hc)
    rw [(hb c hc).1] at hid ly l2 l3
    exact ⟨y, dlo, dhi, e1, e2, e3, ly, l2, l3, hid⟩
  have hS : ∀ c < los.length, sfb1dCh m g0 g1 (los.getD c []) (his.getD c []) = some (S (los.getD c []) (his.getD c [])) := by
    intro c hc
    obtain ⟨y, _, _, e1, _⟩ := hall c hc
    simp only [S, e1, Option.getD_some]
  have hB : ∀ c < dys.length, afb1dOne m g0 (dys.getD c []) = some (lo (dys.getD c [])) ∧
      afb1dOne m g1 (dys.getD c []) = some (hi (dys.getD c [])) := by
    intro c hc
    obtain ⟨_, dlo, dhi, _, e2, e3, _⟩ := hall c (by omega)
    exact ⟨by simp only [lo, e2, Option.getD_some], by simp only [hi, e3, Option.getD_some]⟩
  refine ⟨_, _, _, SFB1D_forward_channels m g0 g1 los his S hl0 hS,
    by rw [SFB1D_backward_eq]; exact AFB1D_forward_channels m g0 g1 dys lo hi hB, by simp, by simp [hl1], by simp [hl1], ?_, ?_⟩
  · intro c hc
    rw [getD_tab, getD_tab, getD_tab, if_pos hc, if_pos (by omega), if_pos (by omega)]
    obtain ⟨y, dlo, dhi, e1, e2, e3, ly, l2, l3, _⟩ := hall c hc
    have ey : S (los.getD c []) (his.getD c []) = y := by simp only [S, e1, Option.getD_some]
    have ea : lo (dys.getD c []) = dlo := by simp only [lo, e2, Option.getD_some]
    have eb : hi (dys.getD c []) = dhi := by simp only [hi, e3, Option.getD_some]
    rw [ey, ea, eb]
    exact ⟨ly, l2, l3⟩
  · intro c hc
    rw [getD_tab, getD_tab, getD_tab, if_pos hc, if_pos (by omega), if_pos (by omega)]
    obtain ⟨y, dlo, dhi, e1, e2, e3, _, _, _, hid⟩ := hall c hc
    have ey : S (los.getD c []) (his.getD c []) = y := by simp only [S, e1, Option.getD_some]
    have ea : lo (dys.getD c []) = dlo := by simp only [lo, e2, Option.getD_some]
    have eb : hi (dys.getD c []) = dhi := by simp only [hi, e3, Option.getD_some]
    rw [ey, ea, eb]
    exact hid

/-- the chain of `SFB1D.backward` passes on a stack of channels -/
def DWT1DInverseBackwardC (m : Mode) (g0 g1 : List R) : List Bool → List (List R) → Option (List (List R) × List (List (List R)))
  | [], dys => some (dys, [])
  | c :: fl, dys => do
    let r ← SFB1D_backward m g0 g1 dys
    let (gls, rest) ← DWT1DInverseBackwardC m g0 g1 fl (if c then r.1.map (· ++ [0]) else r.1)
    some (gls, r.2 :: rest)

def BandsOKC (C : Nat) : List Nat → List (List (List R)) → Prop
  | [], [] => True
  | K :: ks, b :: bs => b.length = C ∧ (∀ c < C, (b.getD c []).length = K) ∧ BandsOKC C ks bs
  | _, _ => False

def bandsDotC (c : Nat) : List Nat → List (List (List R)) → List (List (List R)) → R
  | K :: ks, b :: bs, d :: ds => dotN K (d.getD c []) (b.getD c []) + bandsDotC c ks bs ds
  | _, _, _ => 0

theorem getD_map' {α β : Type} (f : α → β) (l : List α) (c : Nat) (hc : c < l.length) (a : α) (b : β) :
    (l.map f).getD c b = f (l.getD c a) := by
  simp [List.getD_eq_getElem?_getD, List.getElem?_eq_getElem hc]

/-- **back-propagation through the J-level `DWT1DInverse` on `C ≥ 1` channels is the adjoint, channel by channel** -/
theorem loop_adjoint_channels (m : Mode) (g0 g1 : List R) (Fit : Nat → Prop) (Out : Nat → Nat) (hA : LevelAdjS m g0 g1 Fit Out)
    (C : Nat) (hC : 1 ≤ C) :
    ∀ (ks : List Nat) (A : Nat) (yls : List (List R)) (bss : List (List (List R))) (dys : List (List R)),
    SizesOK1 Fit Out ks A → yls.length = C → (∀ c < C, (yls.getD c []).length = A) → BandsOKC C ks bss →
    dys.length = C → (∀ c < C, (dys.getD c []).length = outSize1 Out ks A) →
    ∃ ys gls dss, DWT1DInverse m g0 g1 yls (bss.map fun b => some b) = some ys ∧ ys.length = C ∧
      (∀ c < C, (ys.getD c []).length = outSize1 Out ks A) ∧
      DWT1DInverseBackwardC m g0 g1 (flags1 Out ks A) dys = some (gls, dss) ∧ gls.length = C ∧ (∀ c < C, (gls.getD c []).length = A) ∧
      ∀ c < C, dotN (outSize1 Out ks A) (dys.getD c []) (ys.getD c []) = dotN A (gls.getD c []) (yls.getD c []) + bandsDotC c ks bss dss
  | [], A, yls, bss, dys, _, hyl, hyA, hb, hdl, hdA => by
    cases bss with
    | cons b bs => exact absurd hb (by simp [BandsOKC])
    | nil =>
      refine ⟨yls, dys, [], by simp [DWT1DInverse], hyl, hyA, by simp [DWT1DInverseBackwardC, flags1], hdl, hdA, ?_⟩
      intro c _
      simp only [outSize1, bandsDotC, add_zero]
  | K :: ks, A, yls, bss, dys, hs, hyl, hyA, hb, hdl, hdA => by
    cases bss with
    | nil => exact absurd hb (by simp [BandsOKC])
    | cons b bs =>
      obtain ⟨hbl, hbK, hbr⟩ := hb
      obtain ⟨hsr, hfit, hz⟩ := hs
      simp only [outSize1] at hdA ⊢
      subst hbl
      -- this level's backward pass (its results do not depend on the coefficient inputs)
      obtain ⟨_, dlos, dhis, _, hB, _, ldlos, ldhis, hshB, _⟩ := SFB1D_adjoint_channels_shapes m g0 g1 Fit Out hA K hfit b b dys rfl hdl
        (fun c hc => ⟨hbK c hc, hbK c hc⟩) hdA
      -- the zero-extended low-pass gradients
      have lpad : (if decide (outSize1 Out ks A > K) = true then dlos.map (· ++ [0]) else dlos).length = b.length := by
        split <;> simp [ldlos]
      have lpadc : ∀ c < b.length, ((if decide (outSize1 Out ks A > K) = true then dlos.map (· ++ [(0:R)]) else dlos).getD c []).length
          = outSize1 Out ks A := by
        intro c hc
        rcases hz with h | h
        · have hn : ¬ (outSize1 Out ks A > K) := by omega
          simp only [hn, decide_false, Bool.false_eq_true, if_false]
          rw [(hshB c hc).2.1, h]
        · have hp : outSize1 Out ks A > K := by omega
          simp only [hp, decide_true, if_true]
          rw [getD_map' _ dlos c (by omega) [] [], List.length_append, (hshB c hc).2.1, h]
          rfl
      -- the coarser levels
      obtain ⟨Zs, gls, dss, hfold, lZs, lZc, hbw, lgls, lglc, hid'⟩ := loop_adjoint_channels m g0 g1 Fit Out hA b.length hC ks A yls bs _
        hsr hyl hyA hbr lpad lpadc
      -- the cropped running low-pass
      have hZ0 : (Zs.headD []).length = outSize1 Out ks A := by
        have : Zs.headD [] = Zs.getD 0 [] := by cases Zs <;> simp
        rw [this]; exact lZc 0 (by omega)
      have hb0 : (b.headD []).length = K := by
        have : b.headD [] = b.getD 0 [] := by cases b <;> simp
        rw [this]; exact hbK 0 (by omega)
      have lcrop : (if (Zs.headD []).length > (b.headD []).length then Zs.map (fun ch => ch.take (ch.length - 1)) else Zs).length = b.length := by
        split <;> simp [lZs]
      have lcropc : ∀ c < b.length, ((if (Zs.headD []).length > (b.headD []).length then Zs.map (fun ch => ch.take (ch.length - 1)) else Zs).getD c []).length = K
          ∧ (if (Zs.headD []).length > (b.headD []).length then Zs.map (fun ch => ch.take (ch.length - 1)) else Zs).getD c []
              = (if (Zs.getD c []).length > K then (Zs.getD c []).take ((Zs.getD c []).length - 1) else Zs.getD c []) := by
        intro c hc
        rw [hZ0, hb0, lZc c hc]
        rcases hz with h | h
        · have hn : ¬ (outSize1 Out ks A > K) := by omega
          simp only [hn, if_false]
          exact ⟨by rw [lZc c hc, h], trivial⟩
        · have hp : outSize1 Out ks A > K := by omega
          simp only [hp, if_true]
          rw [getD_map' _ Zs c (by omega) [] [], lZc c hc]
          refine ⟨?_, rfl⟩
          rw [List.length_take, lZc c hc]; omega
      obtain ⟨ys, dlos2, dhis2, hF, hB2, lys, _, _, hshF, hid⟩ := SFB1D_adjoint_channels_shapes m g0 g1 Fit Out hA K hfit _ b dys
        (by rw [lcrop]) (by rw [lcrop]; exact hdl) (fun c hc => ⟨(lcropc c (by rw [← lcrop]; exact hc)).1, hbK c (by rw [← lcrop]; exact hc)⟩)
        (fun c hc => hdA c (by rw [← lcrop]; exact hc))
      rw [hB] at hB2
      simp only [Option.some.injEq, Prod.mk.injEq] at hB2
      obtain ⟨e1, e2⟩ := hB2
      subst e1 e2
      rw [lcrop] at lys hshF hid
      have hstep : DWT1DInverse_step m g0 g1 Zs (some b) = some ys := by
        unfold DWT1DInverse_step
        exact hF
      refine ⟨ys, gls, dhis :: dss, ?_, lys, fun c hc => (hshF c hc).1, ?_, lgls, lglc, ?_⟩
      · unfold DWT1DInverse at hfold ⊢
        simp only [List.map_cons, List.reverse_cons, List.foldlM_append, hfold, Option.bind_eq_bind, Option.bind_some, List.foldlM_cons,
          List.foldlM_nil]
        rw [hstep]; rfl
      · simp only [flags1, DWT1DInverseBackwardC, hB, Option.bind_eq_bind, Option.bind_some, hbw]
      · intro c hc
        rw [hid c hc, (lcropc c hc).2, crop_adjoint1 (Zs.getD c []) (dlos.getD c []) K _ (lZc c hc) (hshB c hc).2.1 hz]
        have := hid' c hc
        have epad : (if decide (outSize1 Out ks A > K) = true then dlos.map (· ++ [(0:R)]) else dlos).getD c []
            = (if decide (outSize1 Out ks A > K) = true then dlos.getD c [] ++ [0] else dlos.getD c []) := by
          split
          · rw [getD_map' _ dlos c (by omega) [] []]
          · rfl
        rw [epad] at this
        rw [this]
        simp only [bandsDotC]
        ring

/-- mode zero, every channel count `C ≥ 1`, crops included -/
theorem DWT1DInverse_zero_adjoint_channels (g0 g1 : List R) (hL : 2 ≤ g0.length) (hg : g1.length = g0.length) (C : Nat) (hC : 1 ≤ C)
    (ks : List Nat) (A : Nat) (yls : List (List R)) (bss : List (List (List R))) (dys : List (List R))
    (hs : SizesOK1 (fun K => 1 ≤ K ∧ g0.length ≤ 2 * K + 1) (fun K => 2 * K + 2 - g0.length) ks A)
    (hyl : yls.length = C) (hyA : ∀ c < C, (yls.getD c []).length = A) (hb : BandsOKC C ks bss) (hdl : dys.length = C)
    (hdA : ∀ c < C, (dys.getD c []).length = outSize1 (fun K => 2 * K + 2 - g0.length) ks A) :
    ∃ ys gls dss, DWT1DInverse .zero g0 g1 yls (bss.map fun b => some b) = some ys ∧ ys.length = C ∧
      (∀ c < C, (ys.getD c []).length = outSize1 (fun K => 2 * K + 2 - g0.length) ks A) ∧
      DWT1DInverseBackwardC .zero g0 g1 (flags1 (fun K => 2 * K + 2 - g0.length) ks A) dys = some (gls, dss) ∧ gls.length = C ∧
      (∀ c < C, (gls.getD c []).length = A) ∧
      ∀ c < C, dotN (outSize1 (fun K => 2 * K + 2 - g0.length) ks A) (dys.getD c []) (ys.getD c [])
        = dotN A (gls.getD c []) (yls.getD c []) + bandsDotC c ks bss dss :=
  loop_adjoint_channels .zero g0 g1 _ _ (levelAdjS_zero g0 g1 hL hg) C hC ks A yls bss dys hs hyl hyA hb hdl hdA

/-- periodization, every channel count `C ≥ 1` -/
theorem DWT1DInverse_per_adjoint_channels (g0 g1 : List R) (hL : 2 ≤ g0.length) (hLe : g0.length % 2 = 0) (hg : g1.length = g0.length)
    (C : Nat) (hC : 1 ≤ C) (ks : List Nat) (A : Nat) (yls : List (List R)) (bss : List (List (List R))) (dys : List (List R))
    (hs : SizesOK1 (fun K => g0.length ≤ 2 * K) (fun K => 2 * K) ks A)
    (hyl : yls.length = C) (hyA : ∀ c < C, (yls.getD c []).length = A) (hb : BandsOKC C ks bss) (hdl : dys.length = C)
    (hdA : ∀ c < C, (dys.getD c []).length = outSize1 (fun K => 2 * K) ks A) :
    ∃ ys gls dss, DWT1DInverse .periodization g0 g1 yls (bss.map fun b => some b) = some ys ∧ ys.length = C ∧
      (∀ c < C, (ys.getD c []).length = outSize1 (fun K => 2 * K) ks A) ∧
      DWT1DInverseBackwardC .periodization g0 g1 (flags1 (fun K => 2 * K) ks A) dys = some (gls, dss) ∧ gls.length = C ∧
      (∀ c < C, (gls.getD c []).length = A) ∧
      ∀ c < C, dotN (outSize1 (fun K => 2 * K) ks A) (dys.getD c []) (ys.getD c [])
        = dotN A (gls.getD c []) (yls.getD c []) + bandsDotC c ks bss dss :=
  loop_adjoint_channels .periodization g0 g1 _ _ (levelAdjS_per g0 g1 hL hLe hg) C hC ks A yls bss dys hs hyl hyA hb hdl hdA

/-- non-vacuity: two channels, band lengths 5 and 4 (finest first) -/
example : BandsOKC 2 [5, 4] ([[[1, 2, 3, 4, 5], [5, 4, 3, 2, 1]], [[1, 2, 3, 4], [4, 3, 2, 1]]] : List (List (List Int))) := by
  refine ⟨rfl, ?_, rfl, ?_, trivial⟩ <;> (intro c hc; interval_cases c <;> simp)

end WV.C05X
