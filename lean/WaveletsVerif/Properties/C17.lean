/-
  C17 — orthogonal wavelets with periodization give an orthogonal transform.

  * In exactly C17's regime (every level even and at least the filter length) the code's
    periodization branch IS the circular filter bank `y_k = Σ_j h_j x[(2k + L/2 − j) mod N]`
    (`C01.afb1dOne_per_eq_dwt_partial`, re-exported here).
  * For every two-tap orthonormal bank (Haar and its rotations) over any commutative ring the
    circular bank preserves energy exactly, for every even length (`isometry_two_tap`).
  * The general statement (any orthonormal length-L bank: isometry, inverse = transpose =
    backward) is decided on the real code by the operator oracle for all db/sym/coif/haar
    wavelets; its proof is staged (DESIGN.md).
-/
import WaveletsVerif.Properties.C01
import WaveletsVerif.Properties.C06
import WaveletsVerif.Properties.C05
import WaveletsVerif.Properties.C02
import WaveletsVerif.Lemmas.Circ
namespace WV.C17
open Finset WV
variable {R : Type} [CommRing R]

/-- the code's periodization branch is the circular two-band bank whenever `N` is even and `≥ L` -/
theorem per_refines_circular (h x : List R) (hLe : h.length % 2 = 0) (hL : 2 ≤ h.length)
    (hNe : x.length % 2 = 0) (hLN : h.length ≤ x.length) :
    afb1dOne .periodization h.reverse x = some (Spec.dwt .periodization h x) :=
  C01.afb1dOne_per_eq_dwt_partial h x hLe hL hNe hLN

/-- energy `Σ x_i²` -/
def energy (x : List R) : R := ∑ i ∈ range x.length, getN x i * getN x i

/-- two-tap orthonormal banks `h0 = (a, b)`, `h1 = (b, −a)`, `a² + b² = 1` (Haar: `a = b = 1/√2`):
the circular bank preserves energy exactly, `‖x‖² = ‖lo‖² + ‖hi‖²`, for every even length. -/
theorem isometry_two_tap (a b : R) (hab : a*a + b*b = 1) (x : List R) (hx : x.length % 2 = 0) (hn : 2 ≤ x.length) :
    energy (Spec.dwt .periodization [a, b] x) + energy (Spec.dwt .periodization [b, -a] x) = energy x := by
  have hodd : ¬ (x.length % 2 = 1) := by omega
  unfold energy Spec.dwt
  simp only [hodd, if_false, length_tab, List.length_cons, List.length_nil]
  have e : x.length = 2 * (x.length / 2) := by omega
  conv_rhs => rw [e, C06.sum_range_two_mul]
  rw [← Finset.sum_add_distrib]
  apply Finset.sum_congr rfl; intro k hk
  have hk' : k < x.length / 2 := by simpa using hk
  rw [getN_tab, getN_tab]
  simp only [hk', if_true]
  have s1 : ∀ (c d : R), (sumN (0+1+1) fun j => getN [c, d] j * getZ x ((2*(k:Int) + (((0+1+1)/2 : Nat):Int) - j) % (x.length : Int)))
      = c * getN x (2*k+1) + d * getN x (2*k) := by
    intro c d
    simp only [sumN]
    have hh : ((0+1+1)/2 : Nat) = 1 := by norm_num
    rw [hh]
    have m1 : (2*(k:Int) + ((1:Nat):Int) - ((0:Nat):Int)) % (x.length : Int) = ((2*k+1 : Nat) : Int) := by
      have : (2*(k:Int) + ((1:Nat):Int) - ((0:Nat):Int)) = ((2*k+1 : Nat):Int) := by push_cast; ring
      rw [this]; exact Int.emod_eq_of_lt (by positivity) (by omega)
    have m2 : (2*(k:Int) + ((1:Nat):Int) - ((0+1:Nat):Int)) % (x.length : Int) = ((2*k : Nat) : Int) := by
      have : (2*(k:Int) + ((1:Nat):Int) - ((0+1:Nat):Int)) = ((2*k : Nat):Int) := by push_cast; ring
      rw [this]; exact Int.emod_eq_of_lt (by positivity) (by omega)
    rw [m1, m2, ← getN_eq_getZ, ← getN_eq_getZ]
    simp [getN]
  rw [s1 a b, s1 b (-a)]
  calc (a * getN x (2*k+1) + b * getN x (2*k)) * (a * getN x (2*k+1) + b * getN x (2*k))
        + (b * getN x (2*k+1) + -a * getN x (2*k)) * (b * getN x (2*k+1) + -a * getN x (2*k))
      = (a*a + b*b) * (getN x (2*k) * getN x (2*k) + getN x (2*k+1) * getN x (2*k+1)) := by ring
    _ = getN x (2*k) * getN x (2*k) + getN x (2*k+1) * getN x (2*k+1) := by rw [hab]; ring

/-- **The inverse is the transpose** (any even filter length, any even signal length, no condition on the
filter values): PyWavelets' periodization synthesis with the REVERSED analysis filters is the adjoint of the
periodization analysis, `⟨x, S(lo,hi)⟩ = ⟨A₀x, lo⟩ + ⟨A₁x, hi⟩` for all `x, lo, hi` (proved in `Lemmas/Circ.lean`). -/
theorem per_synthesis_is_transpose (h0 h1 x lo hi : List R) (n : Nat) (hn : 1 ≤ n) (hx : x.length = 2 * n)
    (hlo : lo.length = n) (hL : 2 ≤ h0.length) (hLe : h0.length % 2 = 0) (hh1 : h1.length = h0.length) :
    ∑ u ∈ range (2*n), getN x u * getN (Spec.idwt .periodization h0.reverse h1.reverse lo hi) u
      = ∑ k ∈ range n, getN lo k * getN (Spec.dwt .periodization h0 x) k
        + ∑ k ∈ range n, getN hi k * getN (Spec.dwt .periodization h1 x) k :=
  WV.per_synthesis_is_transpose h0 h1 x lo hi n hn hx hlo hL hLe hh1

/-- **Energy preservation for every orthonormal bank** (any even filter length `L ≥ 2`, any even signal length
`N ≥ 2`, including `N < L`): if the bank is orthonormal — `PRBank` with the synthesis filters the reversed
analysis filters, i.e. `Σ_a h_a h_{a+2m} = δ_m` and the cross terms vanish — then the circular two-band
analysis is an isometry, `‖A₀x‖² + ‖A₁x‖² = ‖x‖²`.  Proof: `⟨Ax, Ax⟩ = ⟨x, AᵀAx⟩ = ⟨x, SAx⟩ = ⟨x, x⟩` by
`per_synthesis_is_transpose` and `C02.pr_periodization_even`. -/
theorem isometry (h0 h1 x : List R) (hL : 2 ≤ h0.length) (hLe : h0.length % 2 = 0) (hh1 : h1.length = h0.length)
    (horth : PRBank h0 h1 h0.reverse h1.reverse) (hNe : x.length % 2 = 0) (hN : 2 ≤ x.length) :
    energy (Spec.dwt .periodization h0 x) + energy (Spec.dwt .periodization h1 x) = energy x := by
  set n := x.length / 2 with hn
  have hx : x.length = 2 * n := by omega
  have hodd : ¬ (x.length % 2 = 1) := by omega
  have hlen : ∀ h : List R, (Spec.dwt .periodization h x).length = n := by
    intro h; simp [Spec.dwt, hodd, hn]
  have ht := per_synthesis_is_transpose h0 h1 x (Spec.dwt .periodization h0 x) (Spec.dwt .periodization h1 x) n
    (by omega) hx (hlen h0) hL hLe hh1
  unfold energy
  rw [hlen h0, hlen h1, ← ht, hx]
  apply Finset.sum_congr rfl; intro u hu
  have hu' : u < x.length := by rw [hx]; simpa using hu
  rw [C02.pr_periodization_even h0 h1 h0.reverse h1.reverse x hL hLe hh1 (by simp) (by simp [hh1]) horth hNe hN u hu']

/-- **Implementation-level isometry**: in the C17 regime (even `N ≥ L`) the model of `lowlevel.afb1d` in
periodization mode returns bands whose energies add up to the energy of the input, for every orthonormal bank. -/
theorem impl_isometry (h0 h1 x : List R) (hL : 2 ≤ h0.length) (hLe : h0.length % 2 = 0) (hh1 : h1.length = h0.length)
    (horth : PRBank h0 h1 h0.reverse h1.reverse) (hNe : x.length % 2 = 0) (hLN : h0.length ≤ x.length) :
    ∃ lo hi, afb1dOne .periodization h0.reverse x = some lo ∧ afb1dOne .periodization h1.reverse x = some hi ∧
      energy lo + energy hi = energy x :=
  ⟨_, _, per_refines_circular h0 x hLe hL hNe hLN, per_refines_circular h1 x (by omega) (by omega) hNe (by omega),
    isometry h0 h1 x hL hLe hh1 horth hNe (by omega)⟩

/-- **Implementation-level "inverse = transpose"**: in the same regime the models of `sfb1d` (with the reversed
filters) and of `afb1d` are mutual transposes, hence `SFB1D` is the exact backward pass of `AFB1D`. -/
theorem impl_transpose (h0 h1 x lo hi : List R) (hL : 2 ≤ h0.length) (hLe : h0.length % 2 = 0)
    (hh1 : h1.length = h0.length) (hNe : x.length % 2 = 0) (hLN : h0.length ≤ x.length)
    (hlo : lo.length = x.length / 2) (hhi : hi.length = x.length / 2) :
    ∃ a0 a1 y, afb1dOne .periodization h0.reverse x = some a0 ∧ afb1dOne .periodization h1.reverse x = some a1 ∧
      sfb1dCh .periodization h0.reverse h1.reverse lo hi = some y ∧
      ∑ u ∈ range x.length, getN x u * getN y u
        = ∑ k ∈ range (x.length / 2), getN lo k * getN a0 k + ∑ k ∈ range (x.length / 2), getN hi k * getN a1 k := by
  have hx : x.length = 2 * (x.length / 2) := by omega
  refine ⟨_, _, _, per_refines_circular h0 x hLe hL hNe hLN, per_refines_circular h1 x (by omega) (by omega) hNe (by omega),
    C10.sfb1dCh_per_eq_idwt_partial h0.reverse h1.reverse lo hi (by simpa using hL) (by simp [hh1]) (by omega) (by omega)
      (by simp; omega), ?_⟩
  have := per_synthesis_is_transpose h0 h1 x lo hi (x.length / 2) (by omega) hx hlo hL hLe hh1
  rw [← hx] at this
  exact this

/-- orthonormality is satisfiable beyond two taps: the integer bank `h0 = (0,1,0,0)`, `h1 = (0,0,1,0)`
(a delayed lazy wavelet) is orthonormal -/
example : PRBank ([0, 1, 0, 0] : List Int) [0, 0, 1, 0] ([0, 1, 0, 0] : List Int).reverse ([0, 0, 1, 0] : List Int).reverse := by
  intro p hp dd hdd
  simp only [List.length_cons, List.length_nil] at hdd ⊢
  interval_cases p <;> interval_cases dd <;> simp [Finset.sum_range_succ, getN, getZ]

/-- non-vacuity over ℤ: `a = 1, b = 0` is an orthonormal two-tap bank -/
example : (1:Int)*1 + 0*0 = 1 := by decide

end WV.C17
