/-
  C17 — orthogonal wavelets with periodization give an orthogonal transform.

  * In exactly C17's regime (every level even and at least the filter length) the code's
    periodization branch IS the circular filter bank `y_k = Σ_j h_j x[(2k + L/2 − j) mod N]`
    (`C01.afb1dOne_per_eq_dwt_partial`, re-exported here).
  * For every two-tap orthonormal bank (Haar and its rotations) over any commutative ring the
    circular bank preserves energy exactly, for every even length (`isometry_two_tap`).
  * The general statement (any orthonormal length-L bank: isometry, inverse = transpose =
    backward) is decided on the real code by the operator oracle for all db/sym/coif/haar
    wavelets; its proof is staged (DESIGN.md).
-/
import WaveletsVerif.Properties.C01
import WaveletsVerif.Properties.C06
import WaveletsVerif.Properties.C05
namespace WV.C17
open Finset WV
variable {R : Type} [CommRing R]

/-- the code's periodization branch is the circular two-band bank whenever `N` is even and `≥ L` -/
theorem per_refines_circular (h x : List R) (hLe : h.length % 2 = 0) (hL : 2 ≤ h.length)
    (hNe : x.length % 2 = 0) (hLN : h.length ≤ x.length) :
    afb1dOne .periodization h.reverse x = some (Spec.dwt .periodization h x) :=
  C01.afb1dOne_per_eq_dwt_partial h x hLe hL hNe hLN

/-- energy `Σ x_i²` -/
def energy (x : List R) : R := ∑ i ∈ range x.length, getN x i * getN x i

/-- two-tap orthonormal banks `h0 = (a, b)`, `h1 = (b, −a)`, `a² + b² = 1` (Haar: `a = b = 1/√2`):
the circular bank preserves energy exactly, `‖x‖² = ‖lo‖² + ‖hi‖²`, for every even length. -/
theorem isometry_two_tap (a b : R) (hab : a*a + b*b = 1) (x : List R) (hx : x.length % 2 = 0) (hn : 2 ≤ x.length) :
    energy (Spec.dwt .periodization [a, b] x) + energy (Spec.dwt .periodization [b, -a] x) = energy x := by
  have hodd : ¬ (x.length % 2 = 1) := by omega
  unfold energy Spec.dwt
  simp only [hodd, if_false, length_tab, List.length_cons, List.length_nil]
  have e : x.length = 2 * (x.length / 2) := by omega
  conv_rhs => rw [e, C06.sum_range_two_mul]
  rw [← Finset.sum_add_distrib]
  apply Finset.sum_congr rfl; intro k hk
  have hk' : k < x.length / 2 := by simpa using hk
  rw [getN_tab, getN_tab]
  simp only [hk', if_true]
  have s1 : ∀ (c d : R), (sumN (0+1+1) fun j => getN [c, d] j * getZ x ((2*(k:Int) + (((0+1+1)/2 : Nat):Int) - j) % (x.length : Int)))
      = c * getN x (2*k+1) + d * getN x (2*k) := by
    intro c d
    simp only [sumN]
    have hh : ((0+1+1)/2 : Nat) = 1 := by norm_num
    rw [hh]
    have m1 : (2*(k:Int) + ((1:Nat):Int) - ((0:Nat):Int)) % (x.length : Int) = ((2*k+1 : Nat) : Int) := by
      have : (2*(k:Int) + ((1:Nat):Int) - ((0:Nat):Int)) = ((2*k+1 : Nat):Int) := by push_cast; ring
      rw [this]; exact Int.emod_eq_of_lt (by positivity) (by omega)
    have m2 : (2*(k:Int) + ((1:Nat):Int) - ((0+1:Nat):Int)) % (x.length : Int) = ((2*k : Nat) : Int) := by
      have : (2*(k:Int) + ((1:Nat):Int) - ((0+1:Nat):Int)) = ((2*k : Nat):Int) := by push_cast; ring
      rw [this]; exact Int.emod_eq_of_lt (by positivity) (by omega)
    rw [m1, m2, ← getN_eq_getZ, ← getN_eq_getZ]
    simp [getN]
  rw [s1 a b, s1 b (-a)]
  calc (a * getN x (2*k+1) + b * getN x (2*k)) * (a * getN x (2*k+1) + b * getN x (2*k))
        + (b * getN x (2*k+1) + -a * getN x (2*k)) * (b * getN x (2*k+1) + -a * getN x (2*k))
      = (a*a + b*b) * (getN x (2*k) * getN x (2*k) + getN x (2*k+1) * getN x (2*k+1)) := by ring
    _ = getN x (2*k) * getN x (2*k) + getN x (2*k+1) * getN x (2*k+1) := by rw [hab]; ring

/-- non-vacuity over ℤ: `a = 1, b = 0` is an orthonormal two-tap bank -/
example : (1:Int)*1 + 0*0 = 1 := by decide

end WV.C17
