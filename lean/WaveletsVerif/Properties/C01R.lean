/-
  C01 — reflect mode through the pyramid: "the call may raise instead when the signal is shorter than the filter; it never
  returns different numbers".

  One level (`C01.afb1dOne_reflect`): `afb1d` in reflect mode returns PyWavelets' coefficients when the pads fit inside the
  signal and raises otherwise.  Hence, by induction over the levels, WHENEVER the J-level module returns it returns
  `pywt.wavedec` (1-D) — for every J, signal length and filter lengths — although it may raise at a level whose input has
  become shorter than the filter.
-/
import WaveletsVerif.Properties.C01
namespace WV.C01R
open WV WV.C01
variable {R : Type} [CommRing R]

/-- whenever reflect-mode `afb1d` returns, it returns the PyWavelets coefficients (all signal lengths ≥ 1) -/
theorem afb1dOne_reflect_some (h x y : List R) (hL : 2 ≤ h.length) (hN : 1 ≤ x.length)
    (hy : afb1dOne .reflect h.reverse x = some y) : y = Spec.dwt .reflect h x := by
  by_cases h2 : 2 ≤ x.length
  · obtain ⟨hfit, hraise⟩ := afb1dOne_reflect h x hL h2
    by_cases hp : padTotal x.length h.length / 2 < x.length ∧ (padTotal x.length h.length + 1) / 2 < x.length
    · rw [hfit hp] at hy; exact (Option.some.inj hy).symm
    · rw [hraise hp] at hy; exact absurd hy (by simp)
  · -- a single sample: the pad never fits
    have h1 : x.length = 1 := by omega
    have hg : ¬ (h.reverse.length < 2 ∨ x.length < 1) := by rw [List.length_reverse]; omega
    have hc : ¬ ((2 * (dwtCoeffLen x.length h.reverse.length - 1) + h.reverse.length - x.length) / 2 < x.length ∧
        (2 * (dwtCoeffLen x.length h.reverse.length - 1) + h.reverse.length - x.length + 1) / 2 < x.length) := by
      rw [List.length_reverse, h1]; unfold dwtCoeffLen; omega
    simp only [afb1dOne, hg, if_false, hc] at hy
    exact absurd hy (by simp)

/-- one level of the 1-D module on one channel: if it returns, both bands are PyWavelets' -/
theorem AFB1D_forward_reflect_some (h0 h1 x : List R) (hL0 : 2 ≤ h0.length) (hL1 : 2 ≤ h1.length) (hN : 1 ≤ x.length)
    (a b : List (List R)) (hy : AFB1D_forward .reflect h0.reverse h1.reverse [x] = some (a, b)) :
    a = [Spec.dwt .reflect h0 x] ∧ b = [Spec.dwt .reflect h1 x] := by
  unfold AFB1D_forward at hy
  simp only [List.map_cons, List.map_nil] at hy
  rw [afb1dT_one] at hy
  cases e0 : afb1dOne .reflect h0.reverse x with
  | none => simp [alongO, alongWO, e0] at hy
  | some y0 =>
    cases e1 : afb1dOne .reflect h1.reverse x with
    | none => simp [alongO, alongWO, e0, e1] at hy
    | some y1 =>
      have r0 := afb1dOne_reflect_some h0 x y0 hL0 hN e0
      have r1 := afb1dOne_reflect_some h1 x y1 hL1 hN e1
      simp [alongO, alongWO, e0, e1, tab, List.range, List.range.loop] at hy
      obtain ⟨ha, hb⟩ := hy
      exact ⟨by rw [← ha, r0], by rw [← hb, r1]⟩

/-- **the J-level 1-D transform in reflect mode never returns different numbers**: for every J, signal length ≥ 1 and
filter lengths ≥ 2, if `DWT1DForward(J, wave, 'reflect')` returns on one channel then it returns `pywt.wavedec` in the
library's order -/
theorem DWT1DForward_reflect_some (h0 h1 : List R) (hL0 : 2 ≤ h0.length) (hL1 : 2 ≤ h1.length) :
    ∀ (J : Nat) (x : List R) (yl : List (List R)) (yh : List (List (List R))), 1 ≤ x.length →
      DWT1DForwardM .reflect J h0 h1 [x] = some (yl, yh) →
      yl = [(Spec.wavedec .reflect h0 h1 J x).1] ∧ yh = (Spec.wavedec .reflect h0 h1 J x).2.map fun d => [d]
  | 0, x, yl, yh, _, hy => by
    simp only [DWT1DForwardM, DWT1DForward, Option.some.injEq, Prod.mk.injEq] at hy
    simp [Spec.wavedec, ← hy.1, ← hy.2]
  | J+1, x, yl, yh, hN, hy => by
    unfold DWT1DForwardM at hy
    simp only [DWT1DForward] at hy
    cases e : AFB1D_forward .reflect h0.reverse h1.reverse [x] with
    | none => rw [e] at hy; simp at hy
    | some p =>
      obtain ⟨a, b⟩ := p
      obtain ⟨ha, hb⟩ := AFB1D_forward_reflect_some h0 h1 x hL0 hL1 hN a b e
      rw [e] at hy
      simp only [Option.bind_eq_bind, Option.bind_some] at hy
      subst ha; subst hb
      cases e2 : DWT1DForward .reflect h0.reverse h1.reverse J [Spec.dwt .reflect h0 x] with
      | none => rw [e2] at hy; simp at hy
      | some q =>
        obtain ⟨ql, qh⟩ := q
        rw [e2] at hy
        simp only [Option.bind_some, Option.some.injEq, Prod.mk.injEq] at hy
        have hlen : 1 ≤ (Spec.dwt .reflect h0 x).length := by
          simp [Spec.dwt]; unfold dwtCoeffLen; omega
        have ih := DWT1DForward_reflect_some h0 h1 hL0 hL1 J (Spec.dwt .reflect h0 x) ql qh hlen e2
        simp only [Spec.wavedec]
        refine ⟨by rw [← hy.1]; exact ih.1, ?_⟩
        rw [← hy.2, ih.2]
        simp


/-! ### two dimensions -/

theorem mapM_some {α β : Type} (f : α → Option β) (g : α → β) :
    ∀ (l : List α) (ys : List β), l.mapM f = some ys → (∀ a ∈ l, ∀ y, f a = some y → y = g a) → ys = l.map g
  | [], ys, h, _ => by simp at h; simp [h]
  | a :: l, ys, h, hg => by
    cases ea : f a with
    | none => simp [List.mapM_cons, ea] at h
    | some y =>
      cases el : l.mapM f with
      | none => simp [List.mapM_cons, ea, el] at h
      | some ys' =>
        simp [List.mapM_cons, ea, el] at h
        have ih := mapM_some f g l ys' el (fun b hb y' hy' => hg b (by simp [hb]) y' hy')
        rw [← h, hg a (by simp) y ea, ih]
        rfl

theorem alongO_W_some (h : List R) (hL : 2 ≤ h.length) (x y : Img R) (hx : ∀ r ∈ x, 1 ≤ r.length)
    (hy : alongO .W (afb1dOne .reflect h.reverse) x = some y) : y = Spec.rowsMap (Spec.dwt .reflect h) x := by
  unfold alongO alongWO at hy
  exact mapM_some _ _ x y hy (fun r hr z hz => afb1dOne_reflect_some h r z hL (hx r hr) hz)

theorem alongO_H_some (h : List R) (hL : 2 ≤ h.length) (x y : Img R) (hx : 1 ≤ x.length)
    (hy : alongO .H (afb1dOne .reflect h.reverse) x = some y) : y = Spec.colsMap (Spec.dwt .reflect h) x := by
  unfold alongO alongHO at hy
  cases e : (tr x).mapM (afb1dOne .reflect h.reverse) with
  | none => rw [e] at hy; simp at hy
  | some ys =>
    rw [e] at hy
    simp only [Option.map_some, Option.some.injEq] at hy
    have := mapM_some _ (Spec.dwt .reflect h) (tr x) ys e
      (fun r hr z hz => afb1dOne_reflect_some h r z hL (by rw [tr_row_length x r hr]; exact hx) hz)
    rw [← hy, this]; rfl

/-- one level of the 2-D module on one channel in reflect mode: if it returns, it returns `pywt.dwt2` -/
theorem AFB2D_forward_reflect_some (c0 c1 r0 r1 : List R) (hc0 : 2 ≤ c0.length) (hc1 : 2 ≤ c1.length) (hr0 : 2 ≤ r0.length)
    (hr1 : 2 ≤ r1.length) (x : Img R) (hH : 1 ≤ x.length) (hW : ∀ r ∈ x, 1 ≤ r.length) (a : List (Img R)) (b : List (List (Img R)))
    (hy : AFB2D_forward .reflect r0.reverse r1.reverse c0.reverse c1.reverse [x] = some (a, b)) :
    a = [(Spec.dwt2 .reflect c0 c1 r0 r1 x).1] ∧
    b = [[(Spec.dwt2 .reflect c0 c1 r0 r1 x).2.1, (Spec.dwt2 .reflect c0 c1 r0 r1 x).2.2.1, (Spec.dwt2 .reflect c0 c1 r0 r1 x).2.2.2]] := by
  unfold AFB2D_forward at hy
  rw [afb1dT_one] at hy
  cases e0 : alongO .W (afb1dOne .reflect r0.reverse) x with
  | none => simp [e0] at hy
  | some lo =>
    cases e1 : alongO .W (afb1dOne .reflect r1.reverse) x with
    | none => simp [e0, e1] at hy
    | some hi =>
      have rlo := alongO_W_some r0 hr0 x lo hW e0
      have rhi := alongO_W_some r1 hr1 x hi hW e1
      have hlo : 1 ≤ lo.length := by rw [rlo]; simp [Spec.rowsMap]; exact hH
      have hhi : 1 ≤ hi.length := by rw [rhi]; simp [Spec.rowsMap]; exact hH
      simp only [e0, e1, Option.bind_eq_bind, Option.bind_some] at hy
      rw [afb1dT_two] at hy
      cases f0 : alongO .H (afb1dOne .reflect c0.reverse) lo with
      | none => simp [f0] at hy
      | some ll =>
        cases f1 : alongO .H (afb1dOne .reflect c1.reverse) lo with
        | none => simp [f0, f1] at hy
        | some lh =>
          cases f2 : alongO .H (afb1dOne .reflect c0.reverse) hi with
          | none => simp [f0, f1, f2] at hy
          | some hl =>
            cases f3 : alongO .H (afb1dOne .reflect c1.reverse) hi with
            | none => simp [f0, f1, f2, f3] at hy
            | some hh =>
              have q0 := alongO_H_some c0 hc0 lo ll hlo f0
              have q1 := alongO_H_some c1 hc1 lo lh hlo f1
              have q2 := alongO_H_some c0 hc0 hi hl hhi f2
              have q3 := alongO_H_some c1 hc1 hi hh hhi f3
              simp [f0, f1, f2, f3, tab, List.range, List.range.loop] at hy
              obtain ⟨ha, hb⟩ := hy
              subst q0 q1 q2 q3 rlo rhi
              exact ⟨by rw [← ha]; rfl, by rw [← hb]; rfl⟩


theorem dwt_reflect_length (h x : List R) : (Spec.dwt .reflect h x).length = dwtCoeffLen x.length h.length := by
  simp [Spec.dwt]

theorem dwt2_cA_nonempty_reflect (c0 r0 : List R) (hc0 : 2 ≤ c0.length) (hr0 : 2 ≤ r0.length) (x : Img R) (hx : NonEmptyImg x) :
    NonEmptyImg (Spec.colsMap (Spec.dwt .reflect c0) (Spec.rowsMap (Spec.dwt .reflect r0) x)) := by
  obtain ⟨hH, hW⟩ := hx
  set lo := Spec.rowsMap (Spec.dwt .reflect r0) x with hlo
  have hlo_len : lo.length = x.length := by simp [hlo, Spec.rowsMap]
  have hlo_rows : ∀ r ∈ lo, 1 ≤ r.length := by
    intro r hr
    simp only [hlo, Spec.rowsMap, List.mem_map] at hr
    obtain ⟨a, ha, rfl⟩ := hr
    rw [dwt_reflect_length]; unfold dwtCoeffLen; have := hW a ha; omega
  have hlo_ne : NonEmptyImg lo := ⟨by omega, hlo_rows⟩
  have htr : NonEmptyImg (tr lo) := tr_nonempty lo (by omega) (width_of_nonempty lo hlo_ne)
  unfold Spec.colsMap
  apply tr_nonempty
  · simp; exact htr.1
  · apply width_of_nonempty
    constructor
    · simp; exact htr.1
    · intro r hr
      simp only [List.mem_map] at hr
      obtain ⟨a, ha, rfl⟩ := hr
      rw [dwt_reflect_length]; unfold dwtCoeffLen; have := htr.2 a ha; omega

/-- **the J-level 2-D transform in reflect mode never returns different numbers**: for every J, every non-empty image and
filter lengths ≥ 2 (per-axis wavelets), if `DWTForward(J, wave, 'reflect')` returns on one channel then it returns
`pywt.wavedec2` with (column wavelet, row wavelet), levels finest first, bands (cH, cV, cD) -/
theorem DWTForward_reflect_some (c0 c1 r0 r1 : List R) (hc0 : 2 ≤ c0.length) (hc1 : 2 ≤ c1.length) (hr0 : 2 ≤ r0.length)
    (hr1 : 2 ≤ r1.length) :
    ∀ (J : Nat) (x : Img R) (yl : List (Img R)) (yh : List (List (List (Img R)))), NonEmptyImg x →
      DWTForward .reflect c0.reverse c1.reverse r0.reverse r1.reverse J [x] = some (yl, yh) →
      yl = [(Spec.wavedec2 .reflect c0 c1 r0 r1 J x).1] ∧ yh = (Spec.wavedec2 .reflect c0 c1 r0 r1 J x).2.map fun d => [d]
  | 0, x, yl, yh, _, hy => by
    simp only [DWTForward, Option.some.injEq, Prod.mk.injEq] at hy
    simp [Spec.wavedec2, ← hy.1, ← hy.2]
  | J+1, x, yl, yh, hx, hy => by
    simp only [DWTForward] at hy
    cases e : AFB2D_forward .reflect r0.reverse r1.reverse c0.reverse c1.reverse [x] with
    | none => rw [e] at hy; simp at hy
    | some p =>
      obtain ⟨a, b⟩ := p
      obtain ⟨ha, hb⟩ := AFB2D_forward_reflect_some c0 c1 r0 r1 hc0 hc1 hr0 hr1 x hx.1 hx.2 a b e
      rw [e] at hy
      simp only [Option.bind_eq_bind, Option.bind_some] at hy
      subst ha; subst hb
      cases e2 : DWTForward .reflect c0.reverse c1.reverse r0.reverse r1.reverse J [(Spec.dwt2 .reflect c0 c1 r0 r1 x).1] with
      | none => rw [e2] at hy; simp at hy
      | some q =>
        obtain ⟨ql, qh⟩ := q
        rw [e2] at hy
        simp only [Option.bind_some, Option.some.injEq, Prod.mk.injEq] at hy
        have hnext : NonEmptyImg (Spec.dwt2 .reflect c0 c1 r0 r1 x).1 := by
          simp only [Spec.dwt2]
          exact dwt2_cA_nonempty_reflect c0 r0 hc0 hr0 x hx
        have ih := DWTForward_reflect_some c0 c1 r0 r1 hc0 hc1 hr0 hr1 J _ ql qh hnext e2
        simp only [Spec.wavedec2]
        refine ⟨by rw [← hy.1]; exact ih.1, ?_⟩
        rw [← hy.2, ih.2]
        simp [Spec.dwt2]

/-- the premises are met and the conclusion is not vacuous: a reflect-mode level on a signal long enough returns -/
example : afb1dOne .reflect ([1, 2, 3, 4] : List Int).reverse [1, 2, 3, 4, 5] = some (Spec.dwt .reflect [1, 2, 3, 4] [1, 2, 3, 4, 5]) := by
  decide

end WV.C01R
