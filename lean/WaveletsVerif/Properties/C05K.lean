/-
  C05 — back-propagation through the whole J-level 2-D INVERSE transform is the exact adjoint (mode zero, every J, every
  forward-compatible pyramid, the one-sample crops included): the low-pass AND every band-pass level receive their gradients.

  The module `DWTInverse` applies `SFB2D` from the coarsest level to the finest; before each level it drops the last row / column
  of the running low-pass when it is one sample larger than that level's band-pass images (what a forward transform of an odd
  size leaves behind).  Autograd therefore runs `SFB2D.backward` (the analysis bank with the synthesis filters) from the finest
  level to the coarsest, keeps the three band-pass gradients of each level, and hands on the low-pass gradient — extended by a zero
  row / column where the forward pass cropped (`DWTInverseBackward`: the chain rule over the module's loop with the library's
  hand-written backward at every level).  One level is the adjoint of one level (`C05S.SFB2D_zero_adjoint`), the crop is the adjoint
  of the zero extension (`crop_adjoint`), and by induction over the levels
  `⟨DWTInverse(yl, yh), dy⟩ = ⟨yl, d yl⟩ + Σ_levels (⟨lh, d lh⟩ + ⟨hl, d hl⟩ + ⟨hh, d hh⟩)`.
-/
import WaveletsVerif.Properties.C05S
import WaveletsVerif.Properties.C05J
import Mathlib.Data.List.GetD
namespace WV.C05K
open Finset WV WV.C04 WV.C04Q WV.C06 WV.C05D WV.C05S WV.C17T
variable {R : Type} [CommRing R]

/-- the module's crop of the running low-pass to the band-pass size (one row, then one column) -/
def cropTo (z : Img R) (cH cW : Bool) : Img R :=
  let z1 := if cH then z.take (z.length - 1) else z
  if cW then z1.map (fun r => r.take (r.length - 1)) else z1

/-- the backward of that crop: a zero column, then a zero row -/
def padBack (g : Img R) (cH cW : Bool) : Img R :=
  let g1 := if cW then g.map (· ++ [0]) else g
  if cH then g1 ++ [List.replicate (Img.width g1) 0] else g1

/-- autograd's chain rule over the level loop of `DWTInverse`, finest level first; `fl` says where the forward pass cropped -/
def DWTInverseBackward (mode : Mode) (gr0 gr1 gc0 gc1 : List R) : List (Bool × Bool) → Img R → Option (Img R × List (List (Img R)))
  | [], dy => some (dy, [])
  | (cH, cW) :: fl, dy => do
    let r ← SFB2D_backward mode gr0 gr1 gc0 gc1 [dy]
    let (gl, rest) ← DWTInverseBackward mode gr0 gr1 gc0 gc1 fl (padBack (r.1.getD 0 []) cH cW)
    some (gl, (r.2.getD 0 []) :: rest)

/-- output size of the pyramid: band sizes finest first, then the size of the low-pass -/
def outSize (Lc Lr : Nat) : List (Nat × Nat) → Nat × Nat → Nat × Nat
  | [], A => A
  | (Kh, Kw) :: _, _ => (Nf Kh Lc, Nf Kw Lr)

/-- where the forward pass crops -/
def flags (Lc Lr : Nat) : List (Nat × Nat) → Nat × Nat → List (Bool × Bool)
  | [], _ => []
  | (Kh, Kw) :: ks, A => (decide ((outSize Lc Lr ks A).1 > Kh), decide ((outSize Lc Lr ks A).2 > Kw)) :: flags Lc Lr ks A

/-- a forward-compatible pyramid of band sizes: every level receives a low-pass of its own size or one sample more per axis -/
def SizesOK (Lc Lr : Nat) : List (Nat × Nat) → Nat × Nat → Prop
  | [], A => 1 ≤ A.1 ∧ 1 ≤ A.2
  | (Kh, Kw) :: ks, A => SizesOK Lc Lr ks A ∧ 1 ≤ Kh ∧ 1 ≤ Kw ∧ Lc ≤ 2 * Kh + 1 ∧ Lr ≤ 2 * Kw + 1 ∧
      ((outSize Lc Lr ks A).1 = Kh ∨ (outSize Lc Lr ks A).1 = Kh + 1) ∧ ((outSize Lc Lr ks A).2 = Kw ∨ (outSize Lc Lr ks A).2 = Kw + 1)

/-- the band-pass levels have the listed sizes -/
def BandsRect : List (Nat × Nat) → List (List (Img R)) → Prop
  | [], [] => True
  | (Kh, Kw) :: ks, b :: bs => (∃ lh hl hh, b = [lh, hl, hh] ∧ Rect lh Kh Kw ∧ Rect hl Kh Kw ∧ Rect hh Kh Kw) ∧ BandsRect ks bs
  | _, _ => False

/-- inner product of the band-pass levels with their gradients -/
def bandsDot : List (Nat × Nat) → List (List (Img R)) → List (List (Img R)) → R
  | (Kh, Kw) :: ks, b :: bs, d :: ds =>
    dot2 Kh Kw (d.getD 0 []) (b.getD 0 []) + dot2 Kh Kw (d.getD 1 []) (b.getD 1 []) + dot2 Kh Kw (d.getD 2 []) (b.getD 2 [])
      + bandsDot ks bs ds
  | _, _, _ => 0

/-! ### the crop and its adjoint -/

theorem get2_take (z : Img R) (n i j : Nat) (hi : i < n) : get2 (z.take n) i j = get2 z i j := by
  unfold get2
  congr 1
  simp only [List.getD_eq_getElem?_getD, List.getElem?_take, hi, if_true]

theorem get2_mapTake (z : Img R) (n i j : Nat) (hj : j < n) : get2 (z.map fun r => r.take n) i j = get2 z i j := by
  unfold get2
  simp only [List.getD_eq_getElem?_getD, List.getElem?_map]
  cases h : z[i]? with
  | none => simp
  | some r => simp [hj]

theorem get2_append_lt (g : Img R) (e : Img R) (i j : Nat) (hi : i < g.length) : get2 (g ++ e) i j = get2 g i j := by
  unfold get2
  congr 1
  simp only [List.getD_eq_getElem?_getD, List.getElem?_append_left hi]

theorem get2_append_zero (g : Img R) (W j : Nat) : get2 (g ++ [List.replicate W (0:R)]) g.length j = 0 := by
  unfold get2
  simp only [List.getD_eq_getElem?_getD, List.getElem?_append_right (Nat.le_refl _), Nat.sub_self, List.getElem?_cons_zero,
    Option.getD_some, List.getElem?_replicate]
  split <;> simp

theorem get2_mapSnoc (g : Img R) (W : Nat) (hg : ∀ r ∈ g, r.length = W) (i j : Nat) :
    get2 (g.map (· ++ [(0:R)])) i j = if j < W then get2 g i j else 0 := by
  unfold get2
  simp only [List.getD_eq_getElem?_getD, List.getElem?_map]
  cases h : g[i]? with
  | none => simp
  | some r =>
    have hr : r.length = W := hg r (List.mem_of_getElem? h)
    simp only [Option.map_some, Option.getD_some]
    by_cases hj : j < W
    · rw [if_pos hj, List.getElem?_append_left (by omega)]
    · rw [if_neg hj]
      by_cases hj2 : j = W
      · subst hj2; rw [List.getElem?_append_right (by omega)]; simp [hr]
      · rw [List.getElem?_eq_none (by simp; omega)]; simp

theorem get2_row_oob (g : Img R) (i j : Nat) (h : g.length ≤ i) : get2 g i j = 0 := by
  unfold get2
  rw [List.getD_eq_default g [] h]
  rfl

theorem get2_col_oob (g : Img R) (i j : Nat) (h : (g.getD i []).length ≤ j) : get2 g i j = 0 := by
  unfold get2
  exact List.getD_eq_default _ _ h

/-- the crop has the band size -/
theorem cropTo_rect (z : Img R) (Kh Kw zh zw : Nat) (hz : Rect z zh zw) (hKh : 1 ≤ Kh) (h1 : zh = Kh ∨ zh = Kh + 1)
    (h2 : zw = Kw ∨ zw = Kw + 1) : Rect (cropTo z (decide (zh > Kh)) (decide (zw > Kw))) Kh Kw := by
  have r1 : Rect (if decide (zh > Kh) = true then z.take (z.length - 1) else z) Kh zw := by
    split
    · rename_i h; simp only [decide_eq_true_eq] at h
      exact ⟨by rw [List.length_take, hz.1]; omega, fun r hr => hz.2 r (List.mem_of_mem_take hr)⟩
    · rename_i h; simp only [decide_eq_true_eq] at h
      exact ⟨by rw [hz.1]; omega, hz.2⟩
  unfold cropTo
  simp only
  split
  · rename_i h; simp only [decide_eq_true_eq] at h
    refine ⟨by rw [List.length_map]; exact r1.1, ?_⟩
    intro r hr
    obtain ⟨r0, h0, rfl⟩ := List.mem_map.mp hr
    rw [List.length_take, r1.2 r0 h0]; omega
  · rename_i h; simp only [decide_eq_true_eq] at h
    exact ⟨r1.1, fun r hr => by rw [r1.2 r hr]; omega⟩

theorem padBack_rect (g : Img R) (Kh Kw zh zw : Nat) (hg : Rect g Kh Kw) (hKh : 1 ≤ Kh) (h1 : zh = Kh ∨ zh = Kh + 1)
    (h2 : zw = Kw ∨ zw = Kw + 1) : Rect (padBack g (decide (zh > Kh)) (decide (zw > Kw))) zh zw := by
  have r1 : Rect (if decide (zw > Kw) = true then g.map (· ++ [(0:R)]) else g) Kh zw := by
    split
    · rename_i h; simp only [decide_eq_true_eq] at h
      refine ⟨by rw [List.length_map]; exact hg.1, ?_⟩
      intro r hr
      obtain ⟨r0, h0, rfl⟩ := List.mem_map.mp hr
      rw [List.length_append, hg.2 r0 h0]; simp; omega
    · rename_i h; simp only [decide_eq_true_eq] at h
      exact ⟨hg.1, fun r hr => by rw [hg.2 r hr]; omega⟩
  unfold padBack
  simp only
  split
  · rename_i h; simp only [decide_eq_true_eq] at h
    refine ⟨by rw [List.length_append, r1.1]; simp; omega, ?_⟩
    intro r hr
    rw [List.mem_append] at hr
    rcases hr with hr | hr
    · exact r1.2 r hr
    · simp only [List.mem_singleton] at hr
      rw [hr, List.length_replicate, rect_width _ _ _ r1 hKh]
  · rename_i h; simp only [decide_eq_true_eq] at h
    exact ⟨by rw [r1.1]; omega, r1.2⟩

/-- **the crop is the adjoint of the zero extension** -/
theorem crop_adjoint (z g : Img R) (Kh Kw zh zw : Nat) (hz : Rect z zh zw) (hg : Rect g Kh Kw) (hKh : 1 ≤ Kh)
    (h1 : zh = Kh ∨ zh = Kh + 1) (h2 : zw = Kw ∨ zw = Kw + 1) :
    dot2 Kh Kw g (cropTo z (decide (zh > Kh)) (decide (zw > Kw))) = dot2 zh zw (padBack g (decide (zh > Kh)) (decide (zw > Kw))) z := by
  -- entries of the crop inside the band window, entries of the extension everywhere
  have hc : ∀ i j, i < Kh → j < Kw → get2 (cropTo z (decide (zh > Kh)) (decide (zw > Kw))) i j = get2 z i j := by
    intro i j hi hj
    unfold cropTo
    simp only
    have e1 : get2 (if decide (zh > Kh) = true then z.take (z.length - 1) else z) i j = get2 z i j := by
      split
      · rename_i h; simp only [decide_eq_true_eq] at h
        exact get2_take z _ i j (by rw [hz.1]; omega)
      · rfl
    split
    · rename_i h; simp only [decide_eq_true_eq] at h
      -- all rows have length zw: `r.take (r.length - 1)` agrees with `take Kw` entrywise below Kw
      unfold get2
      simp only [List.getD_eq_getElem?_getD, List.getElem?_map]
      unfold get2 at e1
      simp only [List.getD_eq_getElem?_getD] at e1
      rw [← e1]
      cases hr : (if decide (zh > Kh) = true then z.take (z.length - 1) else z)[i]? with
      | none => simp
      | some r =>
        have hmem : r ∈ z := by
          have := List.mem_of_getElem? hr
          split at this
          · exact List.mem_of_mem_take this
          · exact this
        have hl := hz.2 r hmem
        simp [List.getElem?_take, hl]
        rw [if_pos (by omega)]
    · exact e1
  have hp : ∀ i j, get2 (padBack g (decide (zh > Kh)) (decide (zw > Kw))) i j = if i < Kh ∧ j < Kw then get2 g i j else 0 := by
    intro i j
    have e1 : ∀ i j, get2 (if decide (zw > Kw) = true then g.map (· ++ [(0:R)]) else g) i j = if i < Kh ∧ j < Kw then get2 g i j else 0 := by
      intro i j
      split
      · rw [get2_mapSnoc g Kw hg.2]
        by_cases hj : j < Kw
        · by_cases hi : i < Kh
          · simp [hi, hj]
          · simp only [hj, if_true, hi, false_and, if_false]
            exact get2_row_oob g i j (by rw [hg.1]; omega)
        · simp [hj]
      · by_cases hi : i < Kh
        · by_cases hj : j < Kw
          · simp [hi, hj]
          · simp only [hi, hj, and_false, if_false]
            have hl : (g.getD i []).length = Kw := getD_row_length g Kh Kw hg i hi
            exact get2_col_oob g i j (by omega)
        · simp only [hi, false_and, if_false]
          exact get2_row_oob g i j (by rw [hg.1]; omega)
    unfold padBack
    simp only
    split
    · rename_i h
      have hlen : (if decide (zw > Kw) = true then g.map (· ++ [(0:R)]) else g).length = Kh := by split <;> simp [hg.1]
      by_cases hi : i < Kh
      · rw [get2_append_lt _ _ i j (by rw [hlen]; exact hi)]; exact e1 i j
      · simp only [hi, false_and, if_false]
        by_cases hi2 : i = Kh
        · have := get2_append_zero (if decide (zw > Kw) = true then g.map (· ++ [(0:R)]) else g)
            (Img.width (if decide (zw > Kw) = true then g.map (· ++ [(0:R)]) else g)) j
          rw [hlen] at this; rw [hi2]; exact this
        · exact get2_row_oob _ i j (by rw [List.length_append, hlen]; simp; omega)
    · exact e1 i j
  unfold dot2
  have hle1 : Kh ≤ zh := by omega
  have hle2 : Kw ≤ zw := by omega
  rw [← Finset.sum_range_add_sum_Ico _ hle1]
  have hz0 : ∑ i ∈ Ico Kh zh, ∑ j ∈ range zw, get2 (padBack g (decide (zh > Kh)) (decide (zw > Kw))) i j * get2 z i j = 0 := by
    apply Finset.sum_eq_zero; intro i hi
    apply Finset.sum_eq_zero; intro j _
    rw [hp]; simp only [Finset.mem_Ico] at hi
    rw [if_neg (by omega)]; ring
  rw [hz0, add_zero]
  apply Finset.sum_congr rfl; intro i hi
  simp only [Finset.mem_range] at hi
  rw [← Finset.sum_range_add_sum_Ico _ hle2]
  have hz1 : ∑ j ∈ Ico Kw zw, get2 (padBack g (decide (zh > Kh)) (decide (zw > Kw))) i j * get2 z i j = 0 := by
    apply Finset.sum_eq_zero; intro j hj
    rw [hp]; simp only [Finset.mem_Ico] at hj
    rw [if_neg (by omega)]; ring
  rw [hz1, add_zero]
  apply Finset.sum_congr rfl; intro j hj
  simp only [Finset.mem_range] at hj
  rw [hc i j hi hj, hp, if_pos ⟨hi, hj⟩]

/-! ### one level with the shapes of its results -/

section
variable (gr0 gr1 gc0 gc1 : List R) (hLr : 2 ≤ gr0.length) (hgr : gr1.length = gr0.length)
    (hLc : 2 ≤ gc0.length) (hgc : gc1.length = gc0.length)

include hLr hgr hLc hgc in
theorem level (Kh Kw : Nat) (hKh : 1 ≤ Kh) (hKw : 1 ≤ Kw) (hfc : gc0.length ≤ 2 * Kh + 1) (hfr : gr0.length ≤ 2 * Kw + 1)
    (ll lh hl hh dy : Img R) (r1 : Rect ll Kh Kw) (r2 : Rect lh Kh Kw) (r3 : Rect hl Kh Kw) (r4 : Rect hh Kh Kw)
    (rdy : Rect dy (Nf Kh gc0.length) (Nf Kw gr0.length)) :
    ∃ y dll dlh dhl dhh, SFB2D_forward .zero gr0 gr1 gc0 gc1 [ll] [[lh, hl, hh]] = some [y] ∧
      SFB2D_backward .zero gr0 gr1 gc0 gc1 [dy] = some ([dll], [[dlh, dhl, dhh]]) ∧
      Rect y (Nf Kh gc0.length) (Nf Kw gr0.length) ∧ Rect dll Kh Kw ∧
      dot2 (Nf Kh gc0.length) (Nf Kw gr0.length) dy y
        = dot2 Kh Kw dll ll + dot2 Kh Kw dlh lh + dot2 Kh Kw dhl hl + dot2 Kh Kw dhh hh := by
  obtain ⟨y, dll, dlh, dhl, dhh, hF, hB, hid⟩ :=
    SFB2D_zero_adjoint gr0 gr1 gc0 gc1 hLr hgr hLc hgc Kh Kw hKh hKw hfc hfr ll lh hl hh dy r1 r2 r3 r4 rdy
  have hH : 1 ≤ Nf Kh gc0.length := by unfold Nf; omega
  have hW : 1 ≤ Nf Kw gr0.length := by unfold Nf; omega
  have eKw : dwtCoeffLen (Nf Kw gr0.length) gr0.length = Kw := by unfold dwtCoeffLen Nf; omega
  have eKh : dwtCoeffLen (Nf Kh gc0.length) gc0.length = Kh := by unfold dwtCoeffLen Nf; omega
  refine ⟨y, dll, dlh, dhl, dhh, hF, hB, ?_, ?_, hid⟩
  · rw [SFB2D_forward_val gr0 gr1 gc0 gc1 hLr hgr hLc hgc Kh Kw hKh hKw hfc hfr ll lh hl hh r1 r2 r3 r4] at hF
    simp only [Option.some.injEq, List.cons.injEq, and_true] at hF
    rw [← hF]; exact rowzip_rect _ _ _ _ _
  · rw [SFB2D_backward_eq, AFB2D_forward_val gr0 gr1 gc0 gc1 hLr hgr hLc hgc dy _ _ rdy hH hW] at hB
    simp only [Option.some.injEq, Prod.mk.injEq, List.cons.injEq, and_true] at hB
    rw [← hB.1]
    have := Az_alongH_rect gc0 hLc _ _ _ (Az_alongW_rect gr0 hLr dy _ _ rdy hW) hH (by rw [eKw]; exact hKw)
    rw [eKh, eKw] at this; exact this

include hLr hLc in
theorem outSize_pos (ks : List (Nat × Nat)) (A : Nat × Nat) (h : SizesOK gc0.length gr0.length ks A) :
    1 ≤ (outSize gc0.length gr0.length ks A).1 ∧ 1 ≤ (outSize gc0.length gr0.length ks A).2 := by
  cases ks with
  | nil => exact h
  | cons k ks =>
    obtain ⟨Kh, Kw⟩ := k
    obtain ⟨_, h1, h2, h3, h4, _, _⟩ := h
    simp only [outSize]; unfold Nf; omega

include hLr hgr hLc hgc in
/-- **back-propagation through the whole inverse transform is the adjoint of the transform** (mode zero, one channel): for every
pyramid of band sizes `ks` (finest first) that a forward transform can produce, every low-pass and band-pass images of those
sizes and every cotangent `dy` of the output size,
`⟨DWTInverse(yl, yh), dy⟩ = ⟨yl, d yl⟩ + Σ_levels (⟨lh, d lh⟩ + ⟨hl, d hl⟩ + ⟨hh, d hh⟩)` with the gradients the chain of
hand-written backward passes returns -/
theorem DWTInverse_zero_adjoint : ∀ (ks : List (Nat × Nat)) (A : Nat × Nat) (yl : Img R) (bs : List (List (Img R))) (dy : Img R),
    SizesOK gc0.length gr0.length ks A → Rect yl A.1 A.2 → BandsRect ks bs →
    Rect dy (outSize gc0.length gr0.length ks A).1 (outSize gc0.length gr0.length ks A).2 →
    ∃ y gl ds, DWTInverse .zero gc0 gc1 gr0 gr1 [yl] (bs.map fun b => some [b]) = some [y] ∧
      Rect y (outSize gc0.length gr0.length ks A).1 (outSize gc0.length gr0.length ks A).2 ∧
      DWTInverseBackward .zero gr0 gr1 gc0 gc1 (flags gc0.length gr0.length ks A) dy = some (gl, ds) ∧ Rect gl A.1 A.2 ∧
      dot2 (outSize gc0.length gr0.length ks A).1 (outSize gc0.length gr0.length ks A).2 dy y
        = dot2 A.1 A.2 gl yl + bandsDot ks bs ds
  | [], A, yl, bs, dy, _, hyl, hb, hdy => by
    cases bs with
    | cons b bs => exact absurd hb (by simp [BandsRect])
    | nil =>
      refine ⟨yl, dy, [], by simp [DWTInverse], hyl, by simp [DWTInverseBackward, flags], hdy, ?_⟩
      simp only [outSize, bandsDot, add_zero]
  | (Kh, Kw) :: ks, A, yl, bs, dy, hs, hyl, hb, hdy => by
    cases bs with
    | nil => exact absurd hb (by simp [BandsRect])
    | cons b bs =>
      obtain ⟨⟨lh, hl, hh, rfl, r2, r3, r4⟩, hbr⟩ := hb
      obtain ⟨hsr, hKh, hKw, hfc, hfr, hzh, hzw⟩ := hs
      simp only [outSize] at hdy ⊢
      obtain ⟨hzh1, hzw1⟩ := outSize_pos gr0 gc0 hLr hLc ks A hsr
      -- this level's backward pass does not depend on its inputs: name its results with any inputs
      obtain ⟨_, dll, dlh, dhl, dhh, _, hB0, _, rdll, _⟩ := level gr0 gr1 gc0 gc1 hLr hgr hLc hgc Kh Kw hKh hKw hfc hfr lh lh hl hh dy r2 r2 r3 r4 hdy
      have rpad := padBack_rect dll Kh Kw _ _ rdll hKh hzh hzw
      -- the coarser levels: forward from `yl`, backward from the zero-extended low-pass gradient
      obtain ⟨Z, gl, ds, hfold, rZ, hbw, rgl, hid'⟩ := DWTInverse_zero_adjoint ks A yl bs _ hsr hyl hbr rpad
      -- this level applied to what the coarser levels reconstructed
      have rcrop := cropTo_rect Z Kh Kw _ _ rZ hKh hzh hzw
      obtain ⟨y, dll2, dlh2, dhl2, dhh2, hF, hB, ry, _, hid⟩ := level gr0 gr1 gc0 gc1 hLr hgr hLc hgc Kh Kw hKh hKw hfc hfr _ lh hl hh dy rcrop r2 r3 r4 hdy
      rw [hB0] at hB
      simp only [Option.some.injEq, Prod.mk.injEq, List.cons.injEq, and_true] at hB
      obtain ⟨e1, e2, e3, e4⟩ := hB
      subst e1; subst e2; subst e3; subst e4
      have hstep : DWTInverse_step .zero gc0 gc1 gr0 gr1 [Z] (some [[lh, hl, hh]]) = some [y] := by
        unfold DWTInverse_step
        simp only [List.headD_cons, rZ.1, rect_width Z _ _ rZ hzh1, r2.1, rect_width lh _ _ r2 hKh, List.map_cons, List.map_nil]
        rw [← hF]
        congr 1
        unfold cropTo
        simp only [rZ.1]
        by_cases c1 : (outSize gc0.length gr0.length ks A).1 > Kh <;> by_cases c2 : (outSize gc0.length gr0.length ks A).2 > Kw <;>
          simp [c1, c2]
      refine ⟨y, gl, [dlh, dhl, dhh] :: ds, ?_, ry, ?_, rgl, ?_⟩
      · unfold DWTInverse at hfold ⊢
        simp only [List.map_cons, List.reverse_cons, List.foldlM_append, hfold, Option.bind_eq_bind, Option.bind_some, List.foldlM_cons,
          List.foldlM_nil]
        rw [hstep]; rfl
      · simp only [flags, DWTInverseBackward, hB0, Option.bind_eq_bind, Option.bind_some, List.getD_cons_zero, hbw]
      · rw [hid, crop_adjoint Z dll Kh Kw _ _ rZ rdll hKh hzh hzw, hid']
        simp only [bandsDot, List.getD_cons_zero, List.getD_cons_succ]
        ring

end

/-- the size conditions are satisfiable with crops: db2 (4 taps), a 2-level pyramid of a 9 × 14 image: bands 6 × 8 and 4 × 5, low-pass
4 × 5; the coarse level reconstructs 6 × 8 (no crop), the finest 10 × 14 from which the caller's 9 rows are the forward size -/
example : SizesOK 4 4 [(6, 8), (4, 5)] (4, 5) ∧ flags 4 4 [(6, 8), (4, 5)] (4, 5) = [(false, false), (false, false)] := by
  simp [SizesOK, outSize, flags, Nf]

/-- … and a pyramid where both axes crop: 3 levels of db2 on 11 × 11: bands 7, 5, 4; `Nf 4 4 = 6 = 5 + 1`, `Nf 5 4 = 8 = 7 + 1` -/
example : SizesOK 4 4 [(7, 7), (5, 5), (4, 4)] (4, 4) ∧
    flags 4 4 [(7, 7), (5, 5), (4, 4)] (4, 4) = [(true, true), (true, true), (false, false)] := by
  simp [SizesOK, outSize, flags, Nf]

end WV.C05K
