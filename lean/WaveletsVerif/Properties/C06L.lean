/-
  C06 — back-propagation through the whole forward DTCWT is the adjoint on EVERY image size (the edge extensions of odd sizes and
  of sizes that are not multiples of 4 included).

  `DTCWTForward` repeats the last row / column of an odd-sized image before level 1 and the first and last row / column of a low-pass
  whose side is not a multiple of 4 before every level ≥ 2 (`extendEven`, `extendMult4`: `torch.cat` of slices).  Both are index
  gathers `e[m, k] = x[sr m, sc k]`; the backward pass PyTorch itself runs for them is the transpose of the gather (`gatherBack`: every
  gradient entry is added to the source entry it was copied from).  `gather2_adjoint` is the adjoint identity of any such gather,
  `extendMult4_get2` / `extendEven_get2` identify the two extensions as gathers, and the induction of `C06J` is repeated with the
  extension at every level (`loop_adjoint_ext`, `DTCWT_backward_adjoint_ext`): for every J, every image size and every cotangent
  pyramid `⟨DTCWTForward x, P⟩ = ⟨x, backward(P)⟩`, where `backward` chains the library's hand-written `FWD_J2PLUS.backward` /
  `FWD_J1.backward` with the transposed gathers.
-/
import WaveletsVerif.Properties.C06J
import Mathlib.Data.List.GetD
namespace WV.C06L
open Finset WV WV.C04 WV.C06 WV.C06Q WV.C04P WV.C06J
variable {R : Type} [CommRing R]

/-- adjoint of an index gather in one dimension -/
theorem gather_adjoint (n M : Nat) (src : Nat → Nat) (hs : ∀ m < M, src m < n) (x g : Nat → R) :
    ∑ m ∈ range M, x (src m) * g m = ∑ i ∈ range n, x i * ∑ m ∈ range M, if src m = i then g m else 0 := by
  have : ∀ i ∈ range n, x i * ∑ m ∈ range M, (if src m = i then g m else 0) = ∑ m ∈ range M, if src m = i then x i * g m else 0 := by
    intro i _
    rw [Finset.mul_sum]
    apply Finset.sum_congr rfl
    intro m _
    split <;> simp
  rw [Finset.sum_congr rfl this, Finset.sum_comm]
  apply Finset.sum_congr rfl
  intro m hm
  have hsm := hs m (Finset.mem_range.mp hm)
  rw [Finset.sum_eq_single (src m)]
  · simp
  · intro i _ hne
    rw [if_neg (fun h => hne h.symm)]
  · intro h; exact absurd (Finset.mem_range.mpr hsm) h

/-- the backward pass of a two-dimensional gather `e[m, k] = x[sr m, sc k]`: every gradient entry is added to its source -/
def gatherBack (sr sc : Nat → Nat) (H W H' W' : Nat) (g : Img R) : Img R :=
  tab2 H W fun i j => ∑ m ∈ range H', if sr m = i then (∑ k ∈ range W', if sc k = j then get2 g m k else 0) else 0

theorem gatherBack_rect (sr sc : Nat → Nat) (H W H' W' : Nat) (g : Img R) : Rect (gatherBack sr sc H W H' W' g) H W := tab2_rect _ _ _

/-- **a two-dimensional gather and the scatter-add of its gradient are adjoint** -/
theorem gather2_adjoint (H W H' W' : Nat) (sr sc : Nat → Nat) (hsr : ∀ m < H', sr m < H) (hsc : ∀ k < W', sc k < W)
    (x e g : Img R) (he : ∀ m < H', ∀ k < W', get2 e m k = get2 x (sr m) (sc k)) :
    dot2 H' W' e g = dot2 H W x (gatherBack sr sc H W H' W' g) := by
  unfold dot2
  -- columns first, row by row
  have h1 : ∀ m ∈ range H', ∑ k ∈ range W', get2 e m k * get2 g m k
      = ∑ j ∈ range W, get2 x (sr m) j * ∑ k ∈ range W', if sc k = j then get2 g m k else 0 := by
    intro m hm
    rw [← gather_adjoint W W' sc hsc (fun j => get2 x (sr m) j) (fun k => get2 g m k)]
    apply Finset.sum_congr rfl
    intro k hk
    rw [he m (Finset.mem_range.mp hm) k (Finset.mem_range.mp hk)]
  rw [Finset.sum_congr rfl h1, Finset.sum_comm]
  -- then the rows, column by column
  have h2 : ∀ j ∈ range W, ∑ m ∈ range H', get2 x (sr m) j * (∑ k ∈ range W', if sc k = j then get2 g m k else 0)
      = ∑ i ∈ range H, get2 x i j * ∑ m ∈ range H', if sr m = i then (∑ k ∈ range W', if sc k = j then get2 g m k else 0) else 0 := by
    intro j _
    exact gather_adjoint H H' sr hsr (fun i => get2 x i j) (fun m => ∑ k ∈ range W', if sc k = j then get2 g m k else 0)
  rw [Finset.sum_congr rfl h2, Finset.sum_comm]
  apply Finset.sum_congr rfl
  intro i hi
  apply Finset.sum_congr rfl
  intro j hj
  unfold gatherBack
  rw [C19.get2_tab2 H W _ i j (Finset.mem_range.mp hi) (Finset.mem_range.mp hj)]

/-! ### the two extensions are gathers -/

/-- source index of sample `m` of `head ++ x ++ last` over a list of length `n` -/
def srcB (n m : Nat) : Nat := if m = 0 then 0 else min (m - 1) (n - 1)

/-- source index along an axis of length `n` under `extendMult4` -/
def src4 (n m : Nat) : Nat := if n % 4 ≠ 0 then srcB n m else m

/-- source index along an axis of length `n` under `extendEven` -/
def src2 (n m : Nat) : Nat := if n % 2 ≠ 0 then min m (n - 1) else m

omit [CommRing R] in
theorem getD_ext1B {α : Type} (x : List α) (d : α) (m : Nat) (hN : 1 ≤ x.length) (hm : m < x.length + 2) :
    (C04P.ext1 x).getD m d = x.getD (srcB x.length m) d := by
  unfold C04P.ext1 srcB
  rw [slice_zero_one x hN]
  have hs : sliceFrom x (-1) = x.drop (x.length - 1) := by
    unfold sliceFrom pyBound; congr 1
    simp only
    split_ifs <;> omega
  rw [hs]
  have ht : (x.take 1).length = 1 := by rw [List.length_take]; omega
  by_cases h0 : m = 0
  · subst h0
    rw [if_pos rfl, List.append_assoc, List.getD_append _ _ _ _ (by omega)]
    simp [List.getD_eq_getElem?_getD, List.getElem?_take]
  · rw [if_neg h0, List.append_assoc, List.getD_append_right _ _ _ _ (by omega), ht]
    by_cases h1 : m - 1 < x.length
    · rw [List.getD_append _ _ _ _ h1, Nat.min_eq_left (by omega)]
    · rw [List.getD_append_right _ _ _ _ (by omega)]
      have hm' : m - 1 - x.length = 0 := by omega
      rw [hm', Nat.min_eq_right (by omega)]
      simp [List.getD_eq_getElem?_getD, List.getElem?_drop]

omit [CommRing R] in
theorem getD_appLast {α : Type} (x : List α) (d : α) (m : Nat) (hN : 1 ≤ x.length) (hm : m < x.length + 1) :
    (x ++ sliceFrom x (-1)).getD m d = x.getD (min m (x.length - 1)) d := by
  have hs : sliceFrom x (-1) = x.drop (x.length - 1) := by
    unfold sliceFrom pyBound; congr 1
    simp only
    split_ifs <;> omega
  rw [hs]
  by_cases h1 : m < x.length
  · rw [List.getD_append _ _ _ _ h1, Nat.min_eq_left (by omega)]
  · rw [List.getD_append_right _ _ _ _ (by omega)]
    have hm' : m - x.length = 0 := by omega
    rw [hm', Nat.min_eq_right (by omega)]
    simp [List.getD_eq_getElem?_getD, List.getElem?_drop]

theorem getD_row_length' (x : Img R) (H W : Nat) (hx : Rect x H W) (i : Nat) (hi : i < H) : (x.getD i []).length = W := by
  rw [List.getD_eq_getElem _ _ (by rw [hx.1]; exact hi)]
  exact hx.2 _ (List.getElem_mem _)

theorem get2_mapf (y : Img R) (f : List R → List R) (m k : Nat) (hm : m < y.length) :
    get2 (y.map f) m k = (f (y.getD m [])).getD k 0 := by
  unfold get2
  congr 1
  simp only [List.getD_eq_getElem?_getD, List.getElem?_map]
  rw [List.getElem?_eq_getElem hm]
  simp

theorem srcB_lt (n m : Nat) (hn : 1 ≤ n) : srcB n m < n := by
  unfold srcB; split <;> omega

theorem src4_lt (n m : Nat) (hn : 1 ≤ n) (hm : m < n + (if n % 4 ≠ 0 then 2 else 0)) : src4 n m < n := by
  unfold src4
  by_cases h : n % 4 ≠ 0
  · rw [if_pos h]; exact srcB_lt n m hn
  · rw [if_neg h] at hm ⊢; omega

theorem src2_lt (n m : Nat) (hn : 1 ≤ n) (hm : m < n + n % 2) : src2 n m < n := by
  unfold src2
  by_cases h : n % 2 ≠ 0
  · rw [if_pos h]; omega
  · rw [if_neg h]; omega

/-- **`extendMult4` is the gather with sources `src4`** -/
theorem extendMult4_get2 (x : Img R) (H W : Nat) (hx : Rect x H W) (hH : 1 ≤ H) (hW : 1 ≤ W) (m k : Nat)
    (hm : m < H + (if H % 4 ≠ 0 then 2 else 0)) (hk : k < W + (if W % 4 ≠ 0 then 2 else 0)) :
    get2 (extendMult4 x) m k = get2 x (src4 H m) (src4 W k) := by
  have rows : ∀ m k, m < H + 2 → get2 (C04P.ext1 x) m k = get2 x (srcB H m) k := by
    intro m k hm
    unfold get2
    rw [getD_ext1B x [] m (by rw [hx.1]; exact hH) (by rw [hx.1]; exact hm), hx.1]
  have cols : ∀ (y : Img R) (H' : Nat), Rect y H' W → ∀ m k, m < H' → k < W + 2 → get2 (y.map C04P.ext1) m k = get2 y m (srcB W k) := by
    intro y H' hy m k hm hk
    rw [get2_mapf y C04P.ext1 m k (by rw [hy.1]; exact hm)]
    have hl : (y.getD m []).length = W := getD_row_length' y H' W hy m hm
    rw [getD_ext1B _ 0 k (by rw [hl]; exact hW) (by rw [hl]; exact hk), hl]
    rfl
  rw [extendMult4_cases, hx.1]
  unfold src4
  by_cases hc : H % 4 ≠ 0
  · have r1 := ext1_rows_rect x H W hx hH
    have hw1 : Img.width (C04P.ext1 x) = W := rect_width _ _ _ r1 (by omega)
    rw [if_pos hc] at hm
    rw [if_pos hc, if_pos hc, hw1]
    by_cases hd : W % 4 ≠ 0
    · rw [if_pos hd] at hk
      rw [if_pos hd, if_pos hd, cols _ _ r1 m k hm hk, rows m _ hm]
    · rw [if_neg hd] at hk
      rw [if_neg hd, if_neg hd, rows m k hm]
  · have hw1 : Img.width x = W := rect_width _ _ _ hx hH
    rw [if_neg hc] at hm
    rw [if_neg hc, if_neg hc, hw1]
    by_cases hd : W % 4 ≠ 0
    · rw [if_pos hd] at hk
      rw [if_pos hd, if_pos hd, cols x H hx m k (by omega) hk]
    · rw [if_neg hd, if_neg hd]

/-- **`extendEven` is the gather with sources `src2`** -/
theorem extendEven_get2 (x : Img R) (H W : Nat) (hx : Rect x H W) (hH : 1 ≤ H) (hW : 1 ≤ W) (m k : Nat)
    (hm : m < H + H % 2) (hk : k < W + W % 2) :
    get2 (extendEven x) m k = get2 x (src2 H m) (src2 W k) := by
  have rows : ∀ m k, m < H + 1 → get2 (x ++ sliceFrom x (-1)) m k = get2 x (min m (H - 1)) k := by
    intro m k hm
    unfold get2
    rw [getD_appLast x [] m (by rw [hx.1]; exact hH) (by rw [hx.1]; exact hm), hx.1]
  have cols : ∀ (y : Img R) (H' : Nat), Rect y H' W → ∀ m k, m < H' → k < W + 1 →
      get2 (y.map (fun r => r ++ sliceFrom r (-1))) m k = get2 y m (min k (W - 1)) := by
    intro y H' hy m k hm hk
    rw [get2_mapf y _ m k (by rw [hy.1]; exact hm)]
    have hl : (y.getD m []).length = W := getD_row_length' y H' W hy m hm
    rw [getD_appLast _ 0 k (by rw [hl]; exact hW) (by rw [hl]; exact hk), hl]
    rfl
  unfold extendEven src2
  simp only [hx.1]
  by_cases hc : H % 2 ≠ 0
  · have r1 : Rect (x ++ sliceFrom x (-1)) (H + 1) W := by
      refine ⟨by rw [List.length_append, sliceFrom_neg_one_length x (by rw [hx.1]; omega), hx.1], ?_⟩
      intro r hr
      rcases List.mem_append.mp hr with h | h
      · exact hx.2 r h
      · exact hx.2 r (sliceFrom_neg_one_mem x r h)
    have hw1 : Img.width (x ++ sliceFrom x (-1)) = W := rect_width _ _ _ r1 (by omega)
    rw [if_pos hc, if_pos hc, hw1]
    by_cases hd : W % 2 ≠ 0
    · rw [if_pos hd, if_pos hd, cols _ _ r1 m k (by omega) (by omega), rows m _ (by omega)]
    · rw [if_neg hd, if_neg hd, rows m k (by omega)]
  · have hw1 : Img.width x = W := rect_width _ _ _ hx hH
    rw [if_neg hc, if_neg hc, hw1]
    by_cases hd : W % 2 ≠ 0
    · rw [if_pos hd, if_pos hd, cols x H hx m k (by omega) (by omega)]
    · rw [if_neg hd, if_neg hd]

/-- the backward pass of `extendMult4` on an `H × W` input -/
def ext4Back (H W : Nat) (g : Img R) : Img R :=
  gatherBack (src4 H) (src4 W) H W (H + (if H % 4 ≠ 0 then 2 else 0)) (W + (if W % 4 ≠ 0 then 2 else 0)) g

/-- the backward pass of `extendEven` on an `H × W` input -/
def ext2Back (H W : Nat) (g : Img R) : Img R := gatherBack (src2 H) (src2 W) H W (H + H % 2) (W + W % 2) g

theorem ext4_adjoint (x g : Img R) (H W : Nat) (hx : Rect x H W) (hH : 1 ≤ H) (hW : 1 ≤ W) :
    dot2 (H + (if H % 4 ≠ 0 then 2 else 0)) (W + (if W % 4 ≠ 0 then 2 else 0)) (extendMult4 x) g = dot2 H W x (ext4Back H W g) :=
  gather2_adjoint H W _ _ (src4 H) (src4 W) (fun m hm => src4_lt H m hH hm) (fun k hk => src4_lt W k hW hk) x _ g
    (fun m hm k hk => extendMult4_get2 x H W hx hH hW m k hm hk)

theorem ext2_adjoint (x g : Img R) (H W : Nat) (hx : Rect x H W) (hH : 1 ≤ H) (hW : 1 ≤ W) :
    dot2 (H + H % 2) (W + W % 2) (extendEven x) g = dot2 H W x (ext2Back H W g) :=
  gather2_adjoint H W _ _ (src2 H) (src2 W) (fun m hm => src2_lt H m hH hm) (fun k hk => src2_lt W k hW hk) x _ g
    (fun m hm k hk => extendEven_get2 x H W hx hH hW m k hm hk)

/-- what the scatter-add is on a small case: a 2-row image extended to 4 rows; the gradient rows 0 and 1 both land on source row 0,
rows 2 and 3 on source row 1 (`torch.cat`'s backward adds the slices' gradients) -/
example : (List.range 4).map (src4 2) = [0, 0, 1, 1] ∧ (List.range 4).map (src2 3) = [0, 1, 2, 2] := by decide

/-! ### the level loop with the extensions -/

/-- the chain rule over levels `2 … J` with the extension of every level: `shapes` are the sizes of the low-passes handed to the
levels (before their extension), finest first -/
def loopBackwardE (s : R) (f : FwdFilters R) : List ((Nat × Nat) × List (Cplx R)) → Img R → Option (Img R)
  | [], gl => some gl
  | ((H, W), dh) :: rest, gl => do
    let g ← loopBackwardE s f rest gl
    let y ← FWD_J2PLUS_backward s f.h0a f.h1a f.h0b f.h1b g (some dh)
    some (ext4Back H W y)

/-- … and `FWD_J1.backward` followed by the backward of `extendEven` last; `(H, W)` is the image size -/
def DTCWTForwardBackwardE (s : R) (f : FwdFilters R) (HW : Nat × Nat) (dh1 : List (Cplx R))
    (dhs : List ((Nat × Nat) × List (Cplx R))) (gl : Img R) : Option (Img R) := do
  let g ← loopBackwardE s f dhs gl
  let y ← FWD_J1_backward s true f.h0o f.h1o ((HW.1 + 1) / 2, (HW.2 + 1) / 2) g (some dh1)
  some (ext2Back HW.1 HW.2 y)

/-- half-size of the low-pass after `n` more levels: every level maps a side `2a` to `2 * ((a + 1) / 2)` -/
def upN : Nat → Nat → Nat
  | 0, a => a
  | n+1, a => upN n ((a + 1) / 2)

def cotsE (A B : Nat → Nat → Nat → Nat → R) : Nat → Nat → Nat → Nat → List ((Nat × Nat) × List (Cplx R))
  | 0, _, _, _ => []
  | n+1, lvl, a, b => ((2*a, 2*b), cot (A lvl) (B lvl) ((a + 1) / 2) ((b + 1) / 2)) :: cotsE A B n (lvl + 1) ((a + 1) / 2) ((b + 1) / 2)

def loopDotE (A B : Nat → Nat → Nat → Nat → R) : Nat → Nat → Nat → Nat → List (Option (List (Cplx R))) → R
  | n+1, lvl, a, b, h :: hs =>
    bdot ((a + 1) / 2) ((b + 1) / 2) (h.getD []) (cot (A lvl) (B lvl) ((a + 1) / 2) ((b + 1) / 2)) + loopDotE A B n (lvl + 1) ((a + 1) / 2) ((b + 1) / 2) hs
  | _, _, _, _, _ => 0

theorem ext4_size (a : Nat) : 2 * a + (if (2 * a) % 4 ≠ 0 then 2 else 0) = 4 * ((a + 1) / 2) := by
  split <;> omega

section
variable (s : R) (h0o h1o h0 h1 : List R) (hh0o : h0o.length % 2 = 1) (hh1o : h1o.length % 2 = 1) (hs0 : Symm h0o) (hs1 : Symm h1o)
    (hm0 : h0.length % 2 = 0) (hm0' : 2 ≤ h0.length) (hm1 : h1.length % 2 = 0) (hm1' : 2 ≤ h1.length)
    (A B : Nat → Nat → Nat → Nat → R)

include hm0 hm0' hm1 hm1' in
/-- levels `2 … J` on EVERY even-sized low-pass: the chain of `FWD_J2PLUS.backward` and extension backward passes is the adjoint of
the level loop -/
theorem loop_adjoint_ext : ∀ (n lvl : Nat) (incl : List Bool) (low gl : Img R) (a b : Nat), 1 ≤ a → 1 ≤ b → Rect low (2*a) (2*b) →
    Rect gl (2 * upN n a) (2 * upN n b) →
    ∃ lowF hsl scs y, dtcwtFwdLoop s (mkF h0o h1o h0 h1) (List.replicate n false) incl low = some (lowF, hsl, scs) ∧
      loopBackwardE s (mkF h0o h1o h0 h1) (cotsE A B n lvl a b) gl = some y ∧ Rect y (2*a) (2*b) ∧
      dot2 (2 * upN n a) (2 * upN n b) lowF gl + loopDotE A B n lvl a b hsl = dot2 (2*a) (2*b) low y
  | 0, lvl, incl, low, gl, a, b, _, _, hx, hg => by
    refine ⟨low, [], [], gl, by simp [dtcwtFwdLoop], by simp [loopBackwardE, cotsE], hg, ?_⟩
    simp [loopDotE, upN]
  | n+1, lvl, incl, low, gl, a, b, ha, hb, hx, hg => by
    have ha1 : 1 ≤ (a + 1) / 2 := by omega
    have hb1 : 1 ≤ (b + 1) / 2 := by omega
    have re := extendMult4_rect low (2*a) (2*b) hx (by omega) (by omega)
    have hx4 : Rect (extendMult4 low) (4 * ((a + 1) / 2)) (4 * ((b + 1) / 2)) := by
      rw [ext4_size a, ext4_size b] at re; exact re
    simp only [upN] at hg ⊢
    -- this level's forward value (any cotangent will do to name it)
    obtain ⟨ll0, hs0', _, hF0, _, _, rll0, _⟩ := fwdJ2_backward_adjoint_rect s h0 h1 hm0 hm0' hm1 hm1' (extendMult4 low)
      (tab2 (2 * ((a + 1) / 2)) (2 * ((b + 1) / 2)) fun _ _ => (0 : R)) ((a + 1) / 2) ((b + 1) / 2) ha1 hb1 hx4 (tab2_rect _ _ _) (A lvl) (B lvl)
    -- the coarser levels on this level's low-pass
    obtain ⟨lowF, hsl, scs, y', hfr, hbr, ry', hdr'⟩ := loop_adjoint_ext n (lvl + 1) (incl.drop 1) ll0 gl ((a + 1) / 2) ((b + 1) / 2) ha1 hb1 rll0 hg
    -- this level with the gradient the coarser levels produced
    obtain ⟨ll, hs, y, hF, hB, ry, _, hid⟩ := fwdJ2_backward_adjoint_rect s h0 h1 hm0 hm0' hm1 hm1' (extendMult4 low) y' ((a + 1) / 2) ((b + 1) / 2)
      ha1 hb1 hx4 ry' (A lvl) (B lvl)
    rw [hF0] at hF
    simp only [Option.some.injEq, Prod.mk.injEq] at hF
    obtain ⟨ell, ehs⟩ := hF
    refine ⟨lowF, some hs :: hsl, (if incl.headD false then some ll0 else none) :: scs, ext4Back (2*a) (2*b) y, ?_, ?_, gatherBack_rect _ _ _ _ _ _ _, ?_⟩
    · simp only [List.replicate_succ, dtcwtFwdLoop]
      have hF0' : fwdJ2 s (mkF h0o h1o h0 h1).h0a (mkF h0o h1o h0 h1).h1a (mkF h0o h1o h0 h1).h0b (mkF h0o h1o h0 h1).h1b false (extendMult4 low)
          = some (ll0, some hs0') := hF0
      rw [hF0']
      simp only [Option.bind_eq_bind, Option.bind_some]
      rw [hfr]
      simp only [Option.bind_some]
      rw [ehs]
    · simp only [cotsE, loopBackwardE, hbr, Option.bind_eq_bind, Option.bind_some]
      have hB' : FWD_J2PLUS_backward s (mkF h0o h1o h0 h1).h0a (mkF h0o h1o h0 h1).h1a (mkF h0o h1o h0 h1).h0b (mkF h0o h1o h0 h1).h1b y'
          (some (cot (A lvl) (B lvl) ((a + 1) / 2) ((b + 1) / 2))) = some y := hB
      rw [hB']
      rfl
    · rw [← ext4_adjoint low y (2*a) (2*b) hx (by omega) (by omega), ext4_size a, ext4_size b, ← hid, ← ell]
      simp only [loopDotE, Option.getD_some]
      rw [← hdr']
      unfold bdot cot
      rw [← ehs]
      ring

theorem ext2_size (H : Nat) : H + H % 2 = 2 * ((H + 1) / 2) := by omega

include hh0o hh1o hs0 hs1 hm0 hm0' hm1 hm1' in
/-- **back-propagation through the whole J-level forward DTCWT is the adjoint of the transform on EVERY image size** (one channel,
symmetric mode, all levels kept, `J = n + 1`): for every `H × W` image, every cotangent `gl` of the final low-pass and every band
cotangents, `⟨low_J, gl⟩ + Σ_levels Σ_k ⟨band, cotangent⟩ = ⟨x, backward(gl, cotangents)⟩`, where `backward` chains the library's
hand-written backward passes with the scatter-adds of the edge extensions -/
theorem DTCWT_backward_adjoint_ext (n : Nat) (incl : List Bool) (x gl : Img R) (H W : Nat) (hH : 1 ≤ H) (hW : 1 ≤ W)
    (hx : Rect x H W) (hg : Rect gl (2 * upN n ((H + 1) / 2)) (2 * upN n ((W + 1) / 2))) :
    ∃ lowF h1s hsl scs y,
      DTCWTForward s true (mkF h0o h1o h0 h1) (List.replicate (n+1) false) incl x = some (lowF, some h1s :: hsl, scs) ∧
      DTCWTForwardBackwardE s (mkF h0o h1o h0 h1) (H, W) (cot (A 0) (B 0) ((H + 1) / 2) ((W + 1) / 2))
        (cotsE A B n 1 ((H + 1) / 2) ((W + 1) / 2)) gl = some y ∧
      Rect y H W ∧
      dot2 (2 * upN n ((H + 1) / 2)) (2 * upN n ((W + 1) / 2)) lowF gl + bdot ((H + 1) / 2) ((W + 1) / 2) h1s (cot (A 0) (B 0) ((H + 1) / 2) ((W + 1) / 2))
          + loopDotE A B n 1 ((H + 1) / 2) ((W + 1) / 2) hsl
        = dot2 H W x y := by
  have ha : 1 ≤ (H + 1) / 2 := by omega
  have hb : 1 ≤ (W + 1) / 2 := by omega
  have hxe : Rect (extendEven x) (2 * ((H + 1) / 2)) (2 * ((W + 1) / 2)) := by
    have := extendEven_rect x H W hx hH hW
    rw [ext2_size H, ext2_size W] at this; exact this
  -- level 1: its value (any cotangent names it)
  obtain ⟨hs1', _, hF1, _, _, _⟩ := fwdJ1_backward_adjoint_rect s h0o h1o hh0o hh1o hs0 hs1 (extendEven x) (extendEven x) _ _ ha hb hxe hxe (A 0) (B 0)
  have rlow1 := (fwdJ1_shape s h0o h1o hh0o hh1o (extendEven x) _ _ ha hb hxe).1
  -- the coarser levels on the level-1 low-pass
  obtain ⟨lowF, hsl, scs, y', hfr, hbr, ry', hdr⟩ := loop_adjoint_ext s h0o h1o h0 h1 hm0 hm0' hm1 hm1' A B n 1 (incl.drop 1)
    (fwdJ1 s true (prepFilt h0o) (prepFilt h1o) false (extendEven x)).1 gl _ _ ha hb rlow1 hg
  -- level 1 with the gradient the coarser levels produced
  obtain ⟨hs1'', y, hF1', hB, ry, hid⟩ := fwdJ1_backward_adjoint_rect s h0o h1o hh0o hh1o hs0 hs1 (extendEven x) y' _ _ ha hb hxe ry' (A 0) (B 0)
  rw [hF1] at hF1'
  have ehs : hs1' = hs1'' := Option.some.inj hF1'
  refine ⟨lowF, hs1', hsl, (if incl.headD false then some (fwdJ1 s true (prepFilt h0o) (prepFilt h1o) false (extendEven x)).1 else none) :: scs,
    ext2Back H W y, ?_, ?_, gatherBack_rect _ _ _ _ _ _ _, ?_⟩
  · simp only [List.replicate_succ, DTCWTForward]
    have e1 : (mkF h0o h1o h0 h1).h0o = prepFilt h0o := rfl
    have e2 : (mkF h0o h1o h0 h1).h1o = prepFilt h1o := rfl
    rw [e1, e2]
    have hpair : fwdJ1 s true (prepFilt h0o) (prepFilt h1o) false (extendEven x)
        = ((fwdJ1 s true (prepFilt h0o) (prepFilt h1o) false (extendEven x)).1, some hs1') := by
      rw [← hF1]
    rw [hpair]
    simp only [Option.bind_eq_bind]
    rw [hfr]
    rfl
  · simp only [DTCWTForwardBackwardE, hbr, Option.bind_eq_bind, Option.bind_some]
    have hB' : FWD_J1_backward s true (mkF h0o h1o h0 h1).h0o (mkF h0o h1o h0 h1).h1o ((H + 1) / 2, (W + 1) / 2) y'
        (some (cot (A 0) (B 0) ((H + 1) / 2) ((W + 1) / 2))) = some y := hB
    rw [hB']
    rfl
  · rw [← ext2_adjoint x y H W hx hH hW, ext2_size H, ext2_size W, ← hid, ← hdr, ehs]
    unfold bdot cot
    ring

end

/-- a size on which every level extends: a 5 × 7 image is extended to 6 × 8 (`a = 3`, `b = 4`), the level-1 low-pass 6 × 8 to 8 × 8,
the level-2 low-pass 4 × 4 stays: `upN 2 3 = 1`, `upN 2 4 = 1` -/
example : (5 + 1) / 2 = 3 ∧ (7 + 1) / 2 = 4 ∧ upN 2 3 = 1 ∧ upN 2 4 = 1 ∧ (2 * 3) % 4 ≠ 0 := by decide

end WV.C06L
