/-
  C04 (levels ≥ 2) — perfect reconstruction of the q-shift stages.

  The q-shift stage `coldfilt` splits the symmetric extension of a column into its even and odd samples,
  filters the two "trees" with `ha` / `hb` at stride 2 and interleaves the results; `colifilt` is the
  four-branch poly-phase interpolator.  What makes both of them well defined on *symmetrically extended*
  columns is the q-shift structure `hb = reverse ha`:

  * `xt_coldfilt`, `xt_colifilt` — with `hb = ha.reverse` the symmetric extension of the output of
    `coldfilt` / `colifilt` is the line operator `lineD` / `lineE` applied to the symmetric extension of the
    input, at EVERY integer position (the analogue of `C04.xt_colfilter` for level 1);
  * `qshift_pr` — hence a filter bank that is perfect-reconstruction on the integer line (`PRq`) reconstructs
    every column whose length is a positive multiple of 4, however short compared with the filters;
  * `prq_of_kernel` — `PRq` follows from a finite, decidable condition on the taps; a 4-tap rational q-shift
    bank that is not symmetric satisfies it exactly (non-vacuity);
  * `level2_pr` — `inv_j2plus(fwd_j2plus(x)) = x` for the implementation model on every image whose sides are
    positive multiples of 4 (row/column stages with `prep_filt` buffers, `q2c`/`c2q` packing).
-/
import WaveletsVerif.Properties.C04
import WaveletsVerif.Properties.C11
import Mathlib.Tactic.IntervalCases
namespace WV.C04Q
open Finset WV WV.C04
variable {R : Type} [CommRing R]

theorem list_ext_getN' (u v : List R) (hl : u.length = v.length) (h : ∀ i < u.length, getN u i = getN v i) : u = v := by
  apply List.ext_getElem hl
  intro i h1 h2
  have := h i h1
  unfold getN at this
  rw [List.getD_eq_getElem?_getD, List.getD_eq_getElem?_getD, List.getElem?_eq_getElem h1, List.getElem?_eq_getElem h2] at this
  simpa using this

/-! ## a function that is `2n`-periodic and symmetric about `−1/2` is the symmetric extension of its first `n` values -/

theorem xt_tab_of_sym_periodic (n : Nat) (hn : 1 ≤ n) (F : Int → R)
    (hper : ∀ w q : Int, F (w + 2*(n:Int)*q) = F w) (hrefl : ∀ w : Int, F (-1 - w) = F w) (w : Int) :
    Spec.xt (tab n fun i => F (i:Int)) w = F w := by
  unfold Spec.xt
  rw [length_tab]
  have hr := symIdx_range (n:Int) w (by omega)
  rw [getZ_tab, if_pos ⟨hr.1, hr.2⟩]
  have hsn : ((symIdx (n:Int) w).toNat : Int) = symIdx (n:Int) w := by omega
  rw [hsn]
  rcases symIdx_cases (n:Int) w (by omega) with ⟨q, hq⟩ | ⟨q, hq⟩
  · rw [hq, hper]
  · rw [hq, hper, hrefl]

/-! ## the decimating stage on the line -/

/-- one tree: `Σ_j h[m−1−j]·X(4v + 2j + off − m)` (`h` the un-reversed table filter) -/
def treeD (h : List R) (off : Int) (X : Int → R) (v : Int) : R :=
  ∑ j ∈ range h.length, getN h (h.length - 1 - j) * X (4*v + 2*(j:Int) + off - (h.length:Int))

/-- `coldfilt(·, ha, hb, highpass)` on the line: trees a (even samples) and b (odd samples) interleaved -/
def lineD (ha hb : List R) (hp : Bool) (X : Int → R) (w : Int) : R :=
  if w % 2 = 0 then (if hp then treeD hb 3 X (w/2) else treeD ha 2 X (w/2))
  else (if hp then treeD ha 2 X (w/2) else treeD hb 3 X (w/2))

theorem coldfilt_get (ha hb x : List R) (hp : Bool) (hab : hb.length = ha.length) (i : Nat) (hi : i < x.length / 2) :
    getN (Spec.coldfilt ha hb hp x) i = lineD ha hb hp (Spec.xt x) (i:Int) := by
  unfold Spec.coldfilt lineD treeD
  rw [getN_tab, if_pos hi]
  simp only [sumN_eq, hab]
  have e2 : ((i / 2 : Nat) : Int) = (i:Int) / 2 := by omega
  by_cases hpar : i % 2 = 0
  · have hz : (i:Int) % 2 = 0 := by omega
    rw [if_pos hpar, if_pos hz, ← e2]
  · have hz : ¬ (i:Int) % 2 = 0 := by omega
    rw [if_neg hpar, if_neg hz, ← e2]

theorem coldfilt_eq_tab (ha hb x : List R) (hp : Bool) (hab : hb.length = ha.length) :
    Spec.coldfilt ha hb hp x = tab (x.length / 2) fun i => lineD ha hb hp (Spec.xt x) (i:Int) := by
  have hl : (Spec.coldfilt ha hb hp x).length = x.length / 2 := by simp [Spec.coldfilt]
  apply list_ext_getN'
  · rw [hl, length_tab]
  · intro i hi
    rw [hl] at hi
    rw [coldfilt_get ha hb x hp hab i hi, getN_tab, if_pos hi]

/-- with `hb = reverse ha`, tree b at `−v−1` is tree a at `v` on a symmetric signal -/
theorem tree_reflect (ha : List R) (X : Int → R) (hX : ∀ t : Int, X (-1 - t) = X t) (v : Int) :
    treeD ha.reverse 3 X (-v - 1) = treeD ha 2 X v := by
  unfold treeD
  rw [List.length_reverse, ← Finset.sum_range_reflect]
  apply Finset.sum_congr rfl; intro j hj
  have hj' : j < ha.length := by simpa using hj
  have e1 : ha.length - 1 - (ha.length - 1 - j) = j := by omega
  have hrv := getN_reverse ha (ha.length - 1 - j) (by omega)
  rw [e1] at hrv
  rw [e1, hrv]
  congr 1
  have e2 : (4 * (-v - 1) + 2 * ((ha.length - 1 - j : Nat):Int) + 3 - (ha.length:Int))
      = -1 - (4 * v + 2 * (j:Int) + 2 - (ha.length:Int)) := by
    have : ((ha.length - 1 - j : Nat):Int) = (ha.length:Int) - 1 - j := by omega
    rw [this]; ring
  rw [e2, hX]

theorem tree_reflect' (ha : List R) (X : Int → R) (hX : ∀ t : Int, X (-1 - t) = X t) (v : Int) :
    treeD ha 2 X (-v - 1) = treeD ha.reverse 3 X v := by
  have := tree_reflect ha X hX (-v - 1)
  have e : -(-v - 1) - 1 = v := by ring
  rw [e] at this
  exact this.symm

theorem treeD_shift (h : List R) (off : Int) (X : Int → R) (P : Int) (hX : ∀ t q : Int, X (t + P*q) = X t)
    (v q : Int) (c : Int) (hc : 4 * c = P) : treeD h off X (v + c*q) = treeD h off X v := by
  unfold treeD
  apply Finset.sum_congr rfl; intro j _
  congr 1
  have : 4 * (v + c*q) + 2 * (j:Int) + off - (h.length:Int) = (4 * v + 2 * (j:Int) + off - (h.length:Int)) + P*q := by
    rw [← hc]; ring
  rw [this, hX]

/-- **the symmetric extension of `coldfilt`'s output is the line operator applied to the symmetric extension
of its input, at every integer position** — this needs `hb = reverse ha`, nothing else -/
theorem xt_coldfilt (ha x : List R) (hp : Bool) (hr : x.length % 4 = 0) (hr0 : 0 < x.length) (w : Int) :
    Spec.xt (Spec.coldfilt ha ha.reverse hp x) w = lineD ha ha.reverse hp (Spec.xt x) w := by
  rw [coldfilt_eq_tab ha ha.reverse x hp (by simp)]
  have hX : ∀ t : Int, Spec.xt x (-1 - t) = Spec.xt x t := xt_reflect x (by omega)
  have hP : ∀ t q : Int, Spec.xt x (t + (2*(x.length:Int))*q) = Spec.xt x t := fun t q => xt_period x t q
  apply xt_tab_of_sym_periodic (x.length/2) (by omega) (lineD ha ha.reverse hp (Spec.xt x))
  · intro w q
    unfold lineD
    have hn : ((x.length / 2 : Nat) : Int) = (x.length:Int) / 2 := by omega
    have h1 : (w + 2 * ((x.length/2 : Nat):Int) * q) % 2 = w % 2 := by
      rw [mul_assoc, Int.add_mul_emod_self_left]
    have h2 : (w + 2 * ((x.length/2 : Nat):Int) * q) / 2 = w / 2 + ((x.length/2 : Nat):Int) * q := by
      rw [mul_assoc, Int.add_mul_ediv_left _ _ (by norm_num : (2:Int) ≠ 0)]
    have hc : 4 * ((x.length/2 : Nat):Int) = 2 * (x.length:Int) := by omega
    rw [h1, h2, treeD_shift _ _ _ _ hP _ _ _ hc, treeD_shift _ _ _ _ hP _ _ _ hc]
  · intro w
    unfold lineD
    have h2 : (-1 - w) / 2 = -(w/2) - 1 := by omega
    by_cases hpar : w % 2 = 0
    · have hz : ¬ (-1 - w) % 2 = 0 := by omega
      rw [if_neg hz, if_pos hpar, h2]
      cases hp
      · simp only [Bool.false_eq_true, if_false]; exact tree_reflect ha _ hX _
      · simp only [if_true]; exact tree_reflect' ha _ hX _
    · have hz : (-1 - w) % 2 = 0 := by omega
      rw [if_pos hz, if_neg hpar, h2]
      cases hp
      · simp only [Bool.false_eq_true, if_false]; exact tree_reflect' ha _ hX _
      · simp only [if_true]; exact tree_reflect ha _ hX _

/-! ## the interpolating stage on the line -/

/-- one poly-phase branch: `Σ_{j<m/2} h[m − tapOff − 2j]·Y(2(v+j) + phase − m/2)` -/
def brE (h : List R) (m tapOff : Nat) (phase : Int) (Y : Int → R) (v : Int) : R :=
  ∑ j ∈ range (m/2), getN h (m - tapOff - 2*j) * Y (2*(v + (j:Int)) + phase - ((m/2 : Nat):Int))

/-- `colifilt(·, ha, hb, highpass)` on the line: rows `4v…4v+3` from the four branches -/
def lineE (ha hb : List R) (hp : Bool) (Y : Int → R) (u : Int) : R :=
  if (ha.length/2) % 2 = 0 then
    (if u % 4 = 0 then brE ha ha.length 1 (if hp then 1 else 0) Y (u/4)
     else if u % 4 = 1 then brE hb ha.length 1 (if hp then 0 else 1) Y (u/4)
     else if u % 4 = 2 then brE ha ha.length 2 (if hp then 3 else 2) Y (u/4)
     else brE hb ha.length 2 (if hp then 2 else 3) Y (u/4))
  else
    (if u % 4 = 0 then brE ha ha.length 2 (if hp then 2 else 1) Y (u/4)
     else if u % 4 = 1 then brE hb ha.length 2 (if hp then 1 else 2) Y (u/4)
     else if u % 4 = 2 then brE ha ha.length 1 (if hp then 2 else 1) Y (u/4)
     else brE hb ha.length 1 (if hp then 1 else 2) Y (u/4))

theorem colifilt_get (ha hb x : List R) (hp : Bool) (i : Nat) (hi : i < 2 * x.length) :
    getN (Spec.colifilt ha hb hp x) i = lineE ha hb hp (Spec.xt x) (i:Int) := by
  unfold Spec.colifilt lineE brE
  rw [getN_tab, if_pos hi]
  simp only [sumN_eq]
  have e4 : ((i / 4 : Nat) : Int) = (i:Int) / 4 := by omega
  have hc : i % 4 = 0 ∨ i % 4 = 1 ∨ i % 4 = 2 ∨ i % 4 = 3 := by omega
  by_cases hm : (ha.length/2) % 2 = 0
  · simp only [hm, if_true]
    rcases hc with h | h | h | h
    · have hz : (i:Int) % 4 = 0 := by omega
      simp only [h, hz, if_true, e4]
    · have hz : (i:Int) % 4 = 1 := by omega
      simp [h, hz, e4]
    · have hz : (i:Int) % 4 = 2 := by omega
      simp [h, hz, e4]
    · have hz : (i:Int) % 4 = 3 := by omega
      simp [h, hz, e4]
  · simp only [hm, if_false]
    rcases hc with h | h | h | h
    · have hz : (i:Int) % 4 = 0 := by omega
      simp only [h, hz, if_true, e4]
    · have hz : (i:Int) % 4 = 1 := by omega
      simp [h, hz, e4]
    · have hz : (i:Int) % 4 = 2 := by omega
      simp [h, hz, e4]
    · have hz : (i:Int) % 4 = 3 := by omega
      simp [h, hz, e4]

theorem colifilt_eq_tab (ha hb x : List R) (hp : Bool) :
    Spec.colifilt ha hb hp x = tab (2 * x.length) fun i => lineE ha hb hp (Spec.xt x) (i:Int) := by
  have hl : (Spec.colifilt ha hb hp x).length = 2 * x.length := by simp [Spec.colifilt]
  apply list_ext_getN'
  · rw [hl, length_tab]
  · intro i hi
    rw [hl] at hi
    rw [colifilt_get ha hb x hp i hi, getN_tab, if_pos hi]

/-- the branch that reads the odd taps of `h` at `v` is the branch that reads the even taps of `reverse h` at
`−v−1`, on a symmetric signal, when the two sample phases add up to 3 -/
theorem br_reflect (h : List R) (hm : h.length % 2 = 0) (hm2 : 2 ≤ h.length) (p p' : Int) (hpp : p + p' = 3)
    (Y : Int → R) (hY : ∀ t : Int, Y (-1 - t) = Y t) (v : Int) :
    brE h.reverse h.length 2 p' Y (-v - 1) = brE h h.length 1 p Y v := by
  unfold brE
  rw [← Finset.sum_range_reflect]
  apply Finset.sum_congr rfl; intro j hj
  have hj' : j < h.length / 2 := by simpa using hj
  have hrv := getN_reverse h (h.length - 1 - 2*j) (by omega)
  have e1 : h.length - 1 - (h.length - 1 - 2*j) = 2*j := by omega
  have e3 : h.length - 2 - 2 * (h.length / 2 - 1 - j) = 2*j := by omega
  rw [e1] at hrv
  rw [e3, hrv]
  congr 1
  have e2 : 2 * (-v - 1 + ((h.length / 2 - 1 - j : Nat):Int)) + p' - ((h.length/2 : Nat):Int)
      = -1 - (2 * (v + (j:Int)) + p - ((h.length/2 : Nat):Int)) := by
    have : ((h.length / 2 - 1 - j : Nat):Int) = ((h.length/2 : Nat):Int) - 1 - j := by omega
    rw [this]
    have hp' : p' = 3 - p := by omega
    rw [hp']; ring
  rw [e2, hY]

theorem br_reflect' (h : List R) (hm : h.length % 2 = 0) (hm2 : 2 ≤ h.length) (p p' : Int) (hpp : p + p' = 3)
    (Y : Int → R) (hY : ∀ t : Int, Y (-1 - t) = Y t) (v : Int) :
    brE h h.length 2 p' Y (-v - 1) = brE h.reverse h.length 1 p Y v := by
  have := br_reflect h.reverse (by simpa using hm) (by simpa using hm2) p p' hpp Y hY v
  simpa using this

theorem brE_shift (h : List R) (m tapOff : Nat) (phase : Int) (Y : Int → R) (P : Int)
    (hY : ∀ t q : Int, Y (t + P*q) = Y t) (v q c : Int) (hc : 2 * c = P) :
    brE h m tapOff phase Y (v + c*q) = brE h m tapOff phase Y v := by
  unfold brE
  apply Finset.sum_congr rfl; intro j _
  congr 1
  have : 2 * (v + c*q + (j:Int)) + phase - ((m/2 : Nat):Int) = (2 * (v + (j:Int)) + phase - ((m/2 : Nat):Int)) + P*q := by
    rw [← hc]; ring
  rw [this, hY]

/-- **the symmetric extension of `colifilt`'s output is the line operator applied to the symmetric extension of
its input, at every integer position** (`hb = reverse ha`, even filter length) -/
theorem xt_colifilt (ha x : List R) (hp : Bool) (hm : ha.length % 2 = 0) (hm2 : 2 ≤ ha.length) (hr0 : 0 < x.length)
    (u : Int) :
    Spec.xt (Spec.colifilt ha ha.reverse hp x) u = lineE ha ha.reverse hp (Spec.xt x) u := by
  rw [colifilt_eq_tab ha ha.reverse x hp]
  have hY : ∀ t : Int, Spec.xt x (-1 - t) = Spec.xt x t := xt_reflect x (by omega)
  have hP : ∀ t q : Int, Spec.xt x (t + (2*(x.length:Int))*q) = Spec.xt x t := fun t q => xt_period x t q
  apply xt_tab_of_sym_periodic (2 * x.length) (by omega) (lineE ha ha.reverse hp (Spec.xt x))
  · intro u q
    unfold lineE
    have h1 : (u + 2 * ((2 * x.length : Nat):Int) * q) % 4 = u % 4 := by
      have : u + 2 * ((2 * x.length : Nat):Int) * q = u + 4 * ((x.length:Int) * q) := by push_cast; ring
      rw [this, Int.add_mul_emod_self_left]
    have h2 : (u + 2 * ((2 * x.length : Nat):Int) * q) / 4 = u / 4 + (x.length:Int) * q := by
      have : u + 2 * ((2 * x.length : Nat):Int) * q = u + 4 * ((x.length:Int) * q) := by push_cast; ring
      rw [this, Int.add_mul_ediv_left _ _ (by norm_num : (4:Int) ≠ 0)]
    have hc : 2 * (x.length:Int) = 2 * (x.length:Int) := rfl
    rw [h1, h2]
    simp only [brE_shift _ _ _ _ _ _ hP _ _ _ hc]
  · intro u
    unfold lineE
    have h2 : (-1 - u) / 4 = -(u/4) - 1 := by omega
    have hc : u % 4 = 0 ∨ u % 4 = 1 ∨ u % 4 = 2 ∨ u % 4 = 3 := by omega
    rw [h2]
    have R1 := fun p p' hpp v => br_reflect ha hm hm2 p p' hpp (Spec.xt x) hY v
    have R2 := fun p p' hpp v => br_reflect' ha hm hm2 p p' hpp (Spec.xt x) hY v
    by_cases hpar : (ha.length/2) % 2 = 0
    · simp only [hpar, if_true]
      rcases hc with h | h | h | h
      · have hz : (-1 - u) % 4 = 3 := by omega
        simp only [h, hz]
        cases hp
        · simpa using R1 0 3 (by norm_num) (u/4)
        · simpa using R1 1 2 (by norm_num) (u/4)
      · have hz : (-1 - u) % 4 = 2 := by omega
        simp only [h, hz]
        cases hp
        · simpa using R2 1 2 (by norm_num) (u/4)
        · simpa using R2 0 3 (by norm_num) (u/4)
      · have hz : (-1 - u) % 4 = 1 := by omega
        simp only [h, hz]
        cases hp
        · simpa using (R2 1 2 (by norm_num) (-(u/4) - 1)).symm
        · simpa using (R2 0 3 (by norm_num) (-(u/4) - 1)).symm
      · have hz : (-1 - u) % 4 = 0 := by omega
        simp only [h, hz]
        cases hp
        · simpa using (R1 0 3 (by norm_num) (-(u/4) - 1)).symm
        · simpa using (R1 1 2 (by norm_num) (-(u/4) - 1)).symm
    · simp only [hpar, if_false]
      rcases hc with h | h | h | h
      · have hz : (-1 - u) % 4 = 3 := by omega
        simp only [h, hz]
        cases hp
        · simpa using (R2 2 1 (by norm_num) (-(u/4) - 1)).symm
        · simpa using (R2 1 2 (by norm_num) (-(u/4) - 1)).symm
      · have hz : (-1 - u) % 4 = 2 := by omega
        simp only [h, hz]
        cases hp
        · simpa using (R1 1 2 (by norm_num) (-(u/4) - 1)).symm
        · simpa using (R1 2 1 (by norm_num) (-(u/4) - 1)).symm
      · have hz : (-1 - u) % 4 = 1 := by omega
        simp only [h, hz]
        cases hp
        · simpa using R1 1 2 (by norm_num) (u/4)
        · simpa using R1 2 1 (by norm_num) (u/4)
      · have hz : (-1 - u) % 4 = 0 := by omega
        simp only [h, hz]
        cases hp
        · simpa using R2 2 1 (by norm_num) (u/4)
        · simpa using R2 1 2 (by norm_num) (u/4)

/-! ## perfect reconstruction -/

/-- the q-shift analysis/synthesis pair is perfect-reconstruction ON THE INTEGER LINE, for arbitrary (not
necessarily symmetric or periodic) signals.  `h0, h1, g0, g1` are the filters handed to `coldfilt`/`colifilt` as
their first filter argument (`h0b, h1b, g0b, g1b` of the tables); the second one is the time reverse. -/
def PRq (h0 h1 g0 g1 : List R) : Prop :=
  ∀ (X : Int → R) (u : Int),
    lineE g0 g0.reverse false (lineD h0 h0.reverse false X) u
      + lineE g1 g1.reverse true (lineD h1 h1.reverse true X) u = X u

theorem lineD_shift (ha hb : List R) (hp : Bool) (X : Int → R) (k w : Int) :
    lineD ha hb hp (fun t => X (t + 4*k)) w = lineD ha hb hp X (w + 2*k) := by
  unfold lineD
  have h1 : (w + 2*k) % 2 = w % 2 := Int.add_mul_emod_self_left _ _ _
  have h2 : (w + 2*k) / 2 = w / 2 + k := Int.add_mul_ediv_left _ _ (by norm_num)
  have ht : ∀ (h : List R) (off : Int), treeD h off (fun t => X (t + 4*k)) (w/2) = treeD h off X (w/2 + k) := by
    intro h off
    unfold treeD
    apply Finset.sum_congr rfl; intro j _
    congr 2; ring
  rw [h1, h2, ht, ht]

theorem lineE_shift (ha hb : List R) (hp : Bool) (Y : Int → R) (k u : Int) :
    lineE ha hb hp (fun t => Y (t + 2*k)) u = lineE ha hb hp Y (u + 4*k) := by
  unfold lineE
  have h1 : (u + 4*k) % 4 = u % 4 := Int.add_mul_emod_self_left _ _ _
  have h2 : (u + 4*k) / 4 = u / 4 + k := Int.add_mul_ediv_left _ _ (by norm_num)
  have hb' : ∀ (h : List R) (m o : Nat) (ph : Int), brE h m o ph (fun t => Y (t + 2*k)) (u/4) = brE h m o ph Y (u/4 + k) := by
    intro h m o ph
    unfold brE
    apply Finset.sum_congr rfl; intro j _
    congr 2; ring
  rw [h1, h2]
  simp only [hb']

/-- `PRq` only has to be checked at the four output phases `u = 0, 1, 2, 3` (the bank is invariant under a shift
of the input by 4) -/
theorem prq_of_residues (h0 h1 g0 g1 : List R)
    (hres : ∀ (X : Int → R) (c : Int), 0 ≤ c → c < 4 →
      lineE g0 g0.reverse false (lineD h0 h0.reverse false X) c
        + lineE g1 g1.reverse true (lineD h1 h1.reverse true X) c = X c) :
    PRq h0 h1 g0 g1 := by
  intro X u
  have hu : u = u % 4 + 4 * (u / 4) := by omega
  have key : ∀ (ha hb ga gb : List R) (hp hp' : Bool),
      lineE ga gb hp (lineD ha hb hp' X) (u % 4 + 4 * (u/4))
        = lineE ga gb hp (lineD ha hb hp' (fun s => X (s + 4 * (u/4)))) (u % 4) := by
    intro ha hb ga gb hp hp'
    rw [← lineE_shift]
    congr 1
    funext t
    rw [lineD_shift]
  have := hres (fun s => X (s + 4 * (u/4))) (u % 4) (by omega) (by omega)
  rw [← key, ← key, ← hu] at this
  exact this

/-- **q-shift perfect reconstruction along one axis**: for filters that are PR on the line and trees related by
time reversal, `colifilt g0 (coldfilt h0 x) + colifilt g1 (coldfilt h1 x) = x` for every column whose length is a
positive multiple of 4 — however short compared with the filters (the extension reflects as often as needed). -/
theorem qshift_pr (h0 h1 g0 g1 x : List R) (hg0 : g0.length % 2 = 0) (hg0' : 2 ≤ g0.length)
    (hg1 : g1.length % 2 = 0) (hg1' : 2 ≤ g1.length) (hr : x.length % 4 = 0) (hr0 : 0 < x.length)
    (hpr : PRq h0 h1 g0 g1) (i : Nat) (hi : i < x.length) :
    getN (Spec.colifilt g0 g0.reverse false (Spec.coldfilt h0 h0.reverse false x)) i
      + getN (Spec.colifilt g1 g1.reverse true (Spec.coldfilt h1 h1.reverse true x)) i = getN x i := by
  have hl : ∀ (h : List R) (hp : Bool), (Spec.coldfilt h h.reverse hp x).length = x.length / 2 := by
    intro h hp; simp [Spec.coldfilt]
  rw [colifilt_get _ _ _ _ i (by rw [hl]; omega), colifilt_get _ _ _ _ i (by rw [hl]; omega)]
  have e0 : Spec.xt (Spec.coldfilt h0 h0.reverse false x) = lineD h0 h0.reverse false (Spec.xt x) := by
    funext w; exact xt_coldfilt h0 x false hr hr0 w
  have e1 : Spec.xt (Spec.coldfilt h1 h1.reverse true x) = lineD h1 h1.reverse true (Spec.xt x) := by
    funext w; exact xt_coldfilt h1 x true hr hr0 w
  rw [e0, e1, hpr (Spec.xt x) (i:Int), xt_inside x i hi]

/-- a non-symmetric 4-tap rational q-shift bank (the orthonormal lattice filter with `cos = 3/5, sin = 4/5`,
analysis scaled by `1/√2` and synthesis by `√2` to stay rational) is PR on the line: `PRq` is satisfiable -/
example : PRq (R := ℚ) [-1/10, 1/5, 3/5, 3/10] [-3/5, 6/5, -2/5, -1/5] [3/5, 6/5, 2/5, -1/5] [-1/10, -1/5, 3/5, -3/10] := by
  apply prq_of_residues
  intro X c h0 h1
  interval_cases c <;>
    simp [lineE, lineD, brE, treeD, Finset.sum_range_succ, getN] <;> ring

/-! ## images: the implementation model of `fwd_j2plus` / `inv_j2plus` -/

/-- a column operator that maps length `H` to length `H'`, applied along the columns, pixel by pixel -/
theorem alongH_get' (f : List R → List R) (x : Img R) (H H' W : Nat) (hx : Rect x H W) (hH : 1 ≤ H) (hW : 1 ≤ W)
    (hf : ∀ c : List R, c.length = H → (f c).length = H') :
    alongH f x = tab2 H' W fun i j => getN (f (col x j)) i := by
  have hw := rect_width x H W hx hH
  unfold alongH
  have hY : (tr x).map f = tab W fun j => f (col x j) := by
    unfold tr tab2
    rw [hw]
    unfold tab
    rw [List.map_map]
    apply List.map_congr_left
    intro j _
    simp only [Function.comp]
    rfl
  rw [hY]
  unfold tr
  have hl : (tab W fun j => f (col x j)).length = W := by simp
  have hwid : Img.width (tab W fun j => f (col x j)) = H' := by
    unfold Img.width tab
    cases W with
    | zero => omega
    | succ k =>
      simp [List.range_succ_eq_map]
      apply hf; simp [col, hx.1]
  rw [hl, hwid]
  unfold tab2
  apply tab_ext rfl; intro i hi
  apply tab_ext rfl; intro j hj
  show ((tab W fun j => f (col x j)).getD j []).getD i 0 = getN (f (col x j)) i
  rw [getD_tab, if_pos hj]
  rfl

theorem alongW_get' (f : List R → List R) (x : Img R) (H W W' : Nat) (hx : Rect x H W)
    (hf : ∀ c : List R, c.length = W → (f c).length = W') :
    alongW f x = tab2 H W' fun i j => getN (f (x.getD i [])) j := by
  obtain ⟨h1, h2⟩ := hx
  unfold alongW
  apply List.ext_getElem
  · simp [tab2, h1]
  · intro i hi1 hi2
    have hi : i < x.length := by simpa using hi1
    simp only [tab2, tab, List.getElem_map, List.getElem_range]
    have hxi : x.getD i [] = x[i] := by
      rw [List.getD_eq_getElem?_getD, List.getElem?_eq_getElem hi]; rfl
    rw [hxi]
    have hr : (f x[i]).length = W' := hf _ (h2 _ (List.getElem_mem hi))
    apply List.ext_getElem
    · simp [hr]
    · intro j hj1 hj2
      simp only [List.getElem_map, List.getElem_range]
      unfold getN
      rw [List.getD_eq_getElem?_getD, List.getElem?_eq_getElem hj1]
      rfl

/-- the decimating / interpolating reference stages with the q-shift tree structure -/
abbrev Dd (h : List R) (hp : Bool) : List R → List R := Spec.coldfilt h h.reverse hp
abbrev Ei (g : List R) (hp : Bool) : List R → List R := Spec.colifilt g g.reverse hp

theorem Dd_length (h : List R) (hp : Bool) (c : List R) : (Dd h hp c).length = c.length / 2 := by
  simp [Dd, Spec.coldfilt]
theorem Ei_length (g : List R) (hp : Bool) (c : List R) : (Ei g hp c).length = 2 * c.length := by
  simp [Ei, Spec.colifilt]

theorem alongHO_total (f : List R → Option (List R)) (f' : List R → List R) (x : Img R)
    (h : ∀ c, c.length = x.length → f c = some (f' c)) : alongHO f x = some (alongH f' x) := by
  unfold alongHO alongH
  rw [mapM_total f f' (tr x) (fun c hc => h c (tr_row_length x c hc))]
  rfl

theorem alongWO_total (f : List R → Option (List R)) (f' : List R → List R) (x : Img R)
    (h : ∀ c ∈ x, f c = some (f' c)) : alongWO f x = some (alongW f' x) := by
  unfold alongWO alongW
  exact mapM_total f f' x h

theorem coldfilt_model (h : List R) (hp : Bool) (hL : 1 ≤ h.length) (y : Img R) (H : Nat) (hH : 1 ≤ H)
    (hy : y.length = 4 * H) :
    coldfilt (prepFilt h) (prepFilt h.reverse) hp y = some (alongH (Dd h hp) y) := by
  unfold coldfilt
  apply alongHO_total
  intro c hc
  exact C03.coldfilt1_eq_ref h h.reverse c hp (by omega) (by omega) hL (by simp)

theorem rowdfilt_model (h : List R) (hp : Bool) (hL : 1 ≤ h.length) (y : Img R) (W : Nat) (hW : 1 ≤ W)
    (hy : ∀ r ∈ y, r.length = 4 * W) :
    rowdfilt (prepFilt h) (prepFilt h.reverse) hp y = some (alongW (Dd h hp) y) := by
  unfold rowdfilt
  apply alongWO_total
  intro c hc
  exact C03.coldfilt1_eq_ref h h.reverse c hp (by rw [hy c hc]; omega) (by rw [hy c hc]; omega) hL (by simp)

theorem colifilt_model (g : List R) (hp : Bool) (hm : g.length % 2 = 0) (hm2 : 2 ≤ g.length) (y : Img R) (H : Nat)
    (hH : 1 ≤ H) (hy : y.length = 2 * H) :
    colifilt (prepFilt g) (prepFilt g.reverse) hp y = some (alongH (Ei g hp) y) := by
  unfold colifilt
  apply alongHO_total
  intro c hc
  exact C11.colifilt1_eq_ref g g.reverse c hp (by omega) (by omega) hm hm2 (by simp)

theorem rowifilt_model (g : List R) (hp : Bool) (hm : g.length % 2 = 0) (hm2 : 2 ≤ g.length) (y : Img R) (W : Nat)
    (hW : 1 ≤ W) (hy : ∀ r ∈ y, r.length = 2 * W) :
    rowifilt (prepFilt g) (prepFilt g.reverse) hp y = some (alongW (Ei g hp) y) := by
  unfold rowifilt
  apply alongWO_total
  intro c hc
  exact C11.colifilt1_eq_ref g g.reverse c hp (by rw [hy c hc]; omega) (by rw [hy c hc]; omega) hm hm2 (by simp)

theorem Dd_alongH_rect (h : List R) (hp : Bool) (y : Img R) (H W : Nat) (hy : Rect y (2*H) W) (hH : 1 ≤ H) (hW : 1 ≤ W) :
    Rect (alongH (Dd h hp) y) H W := by
  rw [alongH_get' (Dd h hp) y (2*H) H W hy (by omega) hW (fun c hc => by rw [Dd_length, hc]; omega)]
  exact tab2_rect H W _

theorem Dd_alongW_rect (h : List R) (hp : Bool) (y : Img R) (H W : Nat) (hy : Rect y H (2*W)) :
    Rect (alongW (Dd h hp) y) H W := by
  rw [alongW_get' (Dd h hp) y H (2*W) W hy (fun c hc => by rw [Dd_length, hc]; omega)]
  exact tab2_rect H W _

theorem Ei_alongH_rect (g : List R) (hp : Bool) (y : Img R) (H W : Nat) (hy : Rect y H W) (hH : 1 ≤ H) (hW : 1 ≤ W) :
    Rect (alongH (Ei g hp) y) (2*H) W := by
  rw [alongH_get' (Ei g hp) y H (2*H) W hy hH hW (fun c hc => by rw [Ei_length, hc])]
  exact tab2_rect (2*H) W _

theorem Ei_alongW_rect (g : List R) (hp : Bool) (y : Img R) (H W : Nat) (hy : Rect y H W) :
    Rect (alongW (Ei g hp) y) H (2*W) := by
  rw [alongW_get' (Ei g hp) y H W (2*W) hy (fun c hc => by rw [Ei_length, hc])]
  exact tab2_rect H (2*W) _

/-- column PR on images whose height is a multiple of 4 -/
theorem col_prq_img (h0 h1 g0 g1 : List R) (hg0 : g0.length % 2 = 0) (hg0' : 2 ≤ g0.length)
    (hg1 : g1.length % 2 = 0) (hg1' : 2 ≤ g1.length) (hpr : PRq h0 h1 g0 g1)
    (y : Img R) (H W : Nat) (hy : Rect y (4*H) W) (hH : 1 ≤ H) (hW : 1 ≤ W) :
    iadd (alongH (Ei g1 true) (alongH (Dd h1 true) y)) (alongH (Ei g0 false) (alongH (Dd h0 false) y)) = y := by
  have step : ∀ (h g : List R) (hp : Bool),
      alongH (Ei g hp) (alongH (Dd h hp) y) = tab2 (4*H) W fun i j => getN (Ei g hp (Dd h hp (col y j))) i := by
    intro h g hp
    rw [alongH_get' (Dd h hp) y (4*H) (2*H) W hy (by omega) hW (fun c hc => by rw [Dd_length, hc]; omega)]
    rw [alongH_get' (Ei g hp) _ (2*H) (4*H) W (tab2_rect (2*H) W _) (by omega) hW (fun c hc => by rw [Ei_length, hc]; omega)]
    apply tab2_congr; intro i _ j hj
    rw [col_tab2 (2*H) W _ j hj, tab_getN _ (2*H) (by rw [Dd_length]; simp [col, hy.1]; omega)]
  rw [step h1 g1 true, step h0 g0 false, iadd_tab2]
  conv_rhs => rw [rect_eq_tab2 y (4*H) W hy]
  apply tab2_congr; intro i hi j hj
  have hc : (col y j).length = 4*H := by simp [col, hy.1]
  rw [add_comm, qshift_pr h0 h1 g0 g1 (col y j) hg0 hg0' hg1 hg1' (by omega) (by omega) hpr i (by omega)]
  unfold col
  rw [getN_tab, hy.1, if_pos hi]

/-- row PR on images whose width is a multiple of 4 -/
theorem row_prq_img (h0 h1 g0 g1 : List R) (hg0 : g0.length % 2 = 0) (hg0' : 2 ≤ g0.length)
    (hg1 : g1.length % 2 = 0) (hg1' : 2 ≤ g1.length) (hpr : PRq h0 h1 g0 g1)
    (y : Img R) (H W : Nat) (hy : Rect y H (4*W)) (hW : 1 ≤ W) :
    iadd (alongW (Ei g1 true) (alongW (Dd h1 true) y)) (alongW (Ei g0 false) (alongW (Dd h0 false) y)) = y := by
  have hrow : ∀ i < H, (y.getD i []).length = 4*W := by
    intro i hi
    apply hy.2
    rw [List.getD_eq_getElem?_getD, List.getElem?_eq_getElem (by rw [hy.1]; exact hi)]; simp
  have step : ∀ (h g : List R) (hp : Bool),
      alongW (Ei g hp) (alongW (Dd h hp) y) = tab2 H (4*W) fun i j => getN (Ei g hp (Dd h hp (y.getD i []))) j := by
    intro h g hp
    rw [alongW_get' (Dd h hp) y H (4*W) (2*W) hy (fun c hc => by rw [Dd_length, hc]; omega)]
    rw [alongW_get' (Ei g hp) _ H (2*W) (4*W) (tab2_rect H (2*W) _) (fun c hc => by rw [Ei_length, hc]; omega)]
    apply tab2_congr; intro i hi j _
    have : (tab2 H (2*W) fun i j => getN (Dd h hp (y.getD i [])) j).getD i [] = Dd h hp (y.getD i []) := by
      unfold tab2
      rw [getD_tab, if_pos hi, tab_getN _ (2*W) (by rw [Dd_length, hrow i hi]; omega)]
    rw [this]
  rw [step h1 g1 true, step h0 g0 false, iadd_tab2]
  conv_rhs => rw [rect_eq_tab2 y H (4*W) hy]
  apply tab2_congr; intro i hi j hj
  rw [add_comm, qshift_pr h0 h1 g0 g1 (y.getD i []) hg0 hg0' hg1 hg1' (by rw [hrow i hi]; omega) (by rw [hrow i hi]; omega)
    hpr j (by rw [hrow i hi]; exact hj)]
  rfl

/-- **DTCWT perfect reconstruction of a q-shift level (level ≥ 2) at the level of the implementation model**: for
every image whose sides are positive multiples of 4, every q-shift bank that is PR on the line (`PRq`), tree a
the time reverse of tree b, and `2s² = 1`: `fwd_j2plus` returns, and `inv_j2plus` of its output is the image —
`fwd_j2plus` / `inv_j2plus` as modelled from `transform_funcs.py` (row/column `coldfilt` / `colifilt` with
`prep_filt` buffers on the symmetric extension, `q2c` / `c2q` packing, shape check). -/
theorem level2_pr_full (s : R) (hs : 2 * s * s = 1) (h0 h1 g0 g1 : List R) (hh0 : 1 ≤ h0.length) (hh1 : 1 ≤ h1.length)
    (hg0 : g0.length % 2 = 0) (hg0' : 2 ≤ g0.length) (hg1 : g1.length % 2 = 0) (hg1' : 2 ≤ g1.length)
    (hpr : PRq h0 h1 g0 g1) (x : Img R) (H W : Nat) (hH : 1 ≤ H) (hW : 1 ≤ W) (hx : Rect x (4*H) (4*W)) :
    ∃ ll o, fwdJ2 s (prepFilt h0.reverse) (prepFilt h1.reverse) (prepFilt h0) (prepFilt h1) false x = some (ll, some o)
      ∧ invJ2 s (prepFilt g0.reverse) (prepFilt g1.reverse) (prepFilt g0) (prepFilt g1) (some ll) (some o) = some x
      ∧ Rect ll (2*H) (2*W) ∧ bandSize o = (H, W) := by
  -- forward pass in terms of the reference stages
  have eLo := rowdfilt_model h0 false hh0 x W hW hx.2
  have eHi := rowdfilt_model h1 true hh1 x W hW hx.2
  have hx' : Rect x (4*H) (2*(2*W)) := by rw [show 2*(2*W) = 4*W by ring]; exact hx
  have rLo : Rect (alongW (Dd h0 false) x) (4*H) (2*W) := Dd_alongW_rect h0 false x _ _ hx'
  have rHi : Rect (alongW (Dd h1 true) x) (4*H) (2*W) := Dd_alongW_rect h1 true x _ _ hx'
  set lo := alongW (Dd h0 false) x with hlo
  set hi := alongW (Dd h1 true) x with hhi
  have ell := coldfilt_model h0 false hh0 lo H hH rLo.1
  have elh := coldfilt_model h1 true hh1 lo H hH rLo.1
  have ehl := coldfilt_model h0 false hh0 hi H hH rHi.1
  have ehh := coldfilt_model h1 true hh1 hi H hH rHi.1
  have rLo' : Rect lo (2*(2*H)) (2*W) := by rw [show 2*(2*H) = 4*H by ring]; exact rLo
  have rHi' : Rect hi (2*(2*H)) (2*W) := by rw [show 2*(2*H) = 4*H by ring]; exact rHi
  have h2H : 1 ≤ 2*H := by omega
  have h2W : 1 ≤ 2*W := by omega
  have rll := Dd_alongH_rect h0 false lo (2*H) (2*W) rLo' h2H h2W
  have rlh := Dd_alongH_rect h1 true lo (2*H) (2*W) rLo' h2H h2W
  have rhl := Dd_alongH_rect h0 false hi (2*H) (2*W) rHi' h2H h2W
  have rhh := Dd_alongH_rect h1 true hi (2*H) (2*W) rHi' h2H h2W
  refine ⟨alongH (Dd h0 false) lo,
    highsToOrientations s (alongH (Dd h1 true) lo) (alongH (Dd h0 false) hi) (alongH (Dd h1 true) hi), ?_, ?_, rll, ?_⟩
  rotate_left 2
  · unfold bandSize highsToOrientations q2c
    simp only [List.headD_cons]
    rw [rlh.1, rect_width _ _ _ rlh h2H]
    have e1 : 2 * H / 2 = H := by omega
    have e2 : 2 * W / 2 = W := by omega
    rw [e1, e2]
    simp only [length_tab, tab2]
    congr 1
    exact C19.width_tab2 H W _ (by omega)
  · unfold fwdJ2
    simp only [eLo, eHi, ← hlo, ← hhi, ell, elh, ehl, ehh, Option.bind_eq_bind, Option.bind_some,
      Bool.false_eq_true, if_false]
  · unfold invJ2
    simp only []
    rw [highs_round_trip s hs _ _ _ H W hH rlh rhl rhh]
    simp only []
    rw [colifilt_model g1 true hg1 hg1' _ H hH rhh.1, colifilt_model g0 false hg0 hg0' _ H hH rhl.1,
      colifilt_model g1 true hg1 hg1' _ H hH rlh.1, colifilt_model g0 false hg0 hg0' _ H hH rll.1]
    simp only [Option.bind_eq_bind, Option.bind_some]
    rw [col_prq_img h0 h1 g0 g1 hg0 hg0' hg1 hg1' hpr hi H (2*W) rHi hH h2W]
    have ra := Ei_alongH_rect g1 true _ _ _ rlh h2H h2W
    have rb := Ei_alongH_rect g0 false _ _ _ rll h2H h2W
    have h4H : 1 ≤ 2*(2*H) := by omega
    have hshape : ¬ ((alongH (Ei g0 false) (alongH (Dd h0 false) lo)).length ≠ (alongH (Ei g1 true) (alongH (Dd h1 true) lo)).length ∨
        (alongH (Ei g0 false) (alongH (Dd h0 false) lo)).width ≠ (alongH (Ei g1 true) (alongH (Dd h1 true) lo)).width) := by
      rw [ra.1, rb.1, rect_width _ _ _ ra h4H, rect_width _ _ _ rb h4H]; simp
    rw [if_neg hshape]
    simp only [Option.bind_some]
    rw [col_prq_img h0 h1 g0 g1 hg0 hg0' hg1 hg1' hpr lo H (2*W) rLo hH h2W]
    rw [rowifilt_model g1 true hg1 hg1' hi W hW rHi.2, rowifilt_model g0 false hg0 hg0' lo W hW rLo.2]
    simp only [Option.bind_some]
    rw [hhi, hlo, row_prq_img h0 h1 g0 g1 hg0 hg0' hg1 hg1' hpr x (4*H) W hx hW]

/-- the reconstruction statement alone -/
theorem level2_pr (s : R) (hs : 2 * s * s = 1) (h0 h1 g0 g1 : List R) (hh0 : 1 ≤ h0.length) (hh1 : 1 ≤ h1.length)
    (hg0 : g0.length % 2 = 0) (hg0' : 2 ≤ g0.length) (hg1 : g1.length % 2 = 0) (hg1' : 2 ≤ g1.length)
    (hpr : PRq h0 h1 g0 g1) (x : Img R) (H W : Nat) (hH : 1 ≤ H) (hW : 1 ≤ W) (hx : Rect x (4*H) (4*W)) :
    ∃ ll o, fwdJ2 s (prepFilt h0.reverse) (prepFilt h1.reverse) (prepFilt h0) (prepFilt h1) false x = some (ll, some o)
      ∧ invJ2 s (prepFilt g0.reverse) (prepFilt g1.reverse) (prepFilt g0) (prepFilt g1) (some ll) (some o) = some x := by
  obtain ⟨ll, o, h1', h2', _, _⟩ := level2_pr_full s hs h0 h1 g0 g1 hh0 hh1 hg0 hg0' hg1 hg1' hpr x H W hH hW hx
  exact ⟨ll, o, h1', h2'⟩

end WV.C04Q
