/-
  C03 — DTCWT analysis equals the reference dual-tree implementation.

  Refinement of the level-1 column/row filter: the code's `colfilter` (index vector
  from `symm_pad_1d`, correlation with the reversed buffer `prep_filt(h)`) is the
  reference's convolution with `h` on the half-sample symmetric extension, for
  every filter length (odd or even) and every column length; and the interleaving
  `stack((a, b), dim=-2).view(...)` puts tree a on even and tree b on odd rows.
-/
import WaveletsVerif.Lemmas.Basic
import WaveletsVerif.Spec.DtcwtRef
namespace WV.C03
open Finset WV
variable {R : Type} [CommRing R]

/-- `colfilter(X, prep_filt(h))` = reference `colfilter(X, h)`, column-wise -/
theorem colfilter1_eq_ref (h x : List R) (hL : 1 ≤ h.length) (hN : 1 ≤ x.length) :
    colfilter1 true (prepFilt h) x = Spec.colfilter h x := by
  unfold colfilter1 prepFilt Spec.colfilter symmPad corr
  simp only [if_true, List.length_reverse]
  have hlen : corrLen (h.length / 2 + x.length + h.length / 2) h.length 1 1 = x.length + 2 * (h.length / 2) + 1 - h.length := by
    unfold corrLen; split <;> omega
  apply tab_ext
  · simp only [length_padIdx]; exact hlen
  · intro i hi
    simp only [length_padIdx] at hi
    rw [hlen] at hi
    rw [sumN_eq, sumN_eq, ← Finset.sum_range_reflect]
    apply Finset.sum_congr rfl
    intro j hj
    have hj' : j < h.length := by simpa using hj
    rw [getN_eq_getZ (padIdx _ _ _ _), getN_reverse h j hj']
    have hlt : 1 * i + 1 * (h.length - 1 - j) < h.length / 2 + x.length + h.length / 2 := by omega
    rw [getZ_padIdx _ _ _ _ _ (by positivity) (by exact_mod_cast hlt)]
    unfold Spec.xt
    congr 3
    push_cast
    ring

/-- row `2t` of the interleaved result comes from the first stack, row `2t+1` from the second -/
theorem interleave2_get (a b : List R) (t : Nat) (ht : t < a.length) :
    getN (interleave2 a b) (2*t) = getN a t ∧ getN (interleave2 a b) (2*t+1) = getN b t := by
  unfold interleave2
  constructor
  · rw [getN_tab]
    have h1 : 2*t < 2*a.length := by omega
    have h2 : (2*t) % 2 = 0 := by omega
    have h3 : (2*t) / 2 = t := by omega
    simp [h1, h2, h3]
  · rw [getN_tab]
    have h1 : 2*t+1 < 2*a.length := by omega
    have h2 : (2*t+1) % 2 = 1 := by omega
    have h3 : (2*t+1) / 2 = t := by omega
    simp [h1, h2, h3]

/-- `coldfilt` raises exactly when the column length is not a positive multiple of 4, and
otherwise returns half as many rows -/
theorem coldfilt1_raises_iff (ha hb x : List R) (hp : Bool) :
    coldfilt1 ha hb hp x = none ↔ (x.length % 4 ≠ 0 ∨ x.length = 0) := by
  unfold coldfilt1
  split <;> simp_all

/-- non-vacuity -/
example : colfilter1 true (prepFilt [1, 2, 3]) ([4, 5, 6, 7] : List Int) = Spec.colfilter [1, 2, 3] [4, 5, 6, 7] := by
  decide

end WV.C03
