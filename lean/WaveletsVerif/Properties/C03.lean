/-
  C03 — DTCWT analysis equals the reference dual-tree implementation.

  Refinement of the level-1 column/row filter: the code's `colfilter` (index vector
  from `symm_pad_1d`, correlation with the reversed buffer `prep_filt(h)`) is the
  reference's convolution with `h` on the half-sample symmetric extension, for
  every filter length (odd or even) and every column length; and the interleaving
  `stack((a, b), dim=-2).view(...)` puts tree a on even and tree b on odd rows.
-/
import WaveletsVerif.Lemmas.Basic
import WaveletsVerif.Spec.DtcwtRef
namespace WV.C03
open Finset WV
variable {R : Type} [CommRing R]

/-- `colfilter(X, prep_filt(h))` = reference `colfilter(X, h)`, column-wise -/
theorem colfilter1_eq_ref (h x : List R) (hL : 1 ≤ h.length) (hN : 1 ≤ x.length) :
    colfilter1 true (prepFilt h) x = Spec.colfilter h x := by
  unfold colfilter1 prepFilt Spec.colfilter symmPad corr
  simp only [if_true, List.length_reverse]
  have hlen : corrLen (h.length / 2 + x.length + h.length / 2) h.length 1 1 = x.length + 2 * (h.length / 2) + 1 - h.length := by
    unfold corrLen; split <;> omega
  apply tab_ext
  · simp only [length_padIdx]; exact hlen
  · intro i hi
    simp only [length_padIdx] at hi
    rw [hlen] at hi
    rw [sumN_eq, sumN_eq, ← Finset.sum_range_reflect]
    apply Finset.sum_congr rfl
    intro j hj
    have hj' : j < h.length := by simpa using hj
    rw [getN_eq_getZ (padIdx _ _ _ _), getN_reverse h j hj']
    have hlt : 1 * i + 1 * (h.length - 1 - j) < h.length / 2 + x.length + h.length / 2 := by omega
    rw [getZ_padIdx _ _ _ _ _ (by positivity) (by exact_mod_cast hlt)]
    unfold Spec.xt
    congr 3
    push_cast
    ring

/-- row `2t` of the interleaved result comes from the first stack, row `2t+1` from the second -/
theorem interleave2_get (a b : List R) (t : Nat) (ht : t < a.length) :
    getN (interleave2 a b) (2*t) = getN a t ∧ getN (interleave2 a b) (2*t+1) = getN b t := by
  unfold interleave2
  constructor
  · rw [getN_tab]
    have h1 : 2*t < 2*a.length := by omega
    have h2 : (2*t) % 2 = 0 := by omega
    have h3 : (2*t) / 2 = t := by omega
    simp [h1, h2, h3]
  · rw [getN_tab]
    have h1 : 2*t+1 < 2*a.length := by omega
    have h2 : (2*t+1) % 2 = 1 := by omega
    have h3 : (2*t+1) / 2 = t := by omega
    simp [h1, h2, h3]

omit [CommRing R] in
theorem pyBound_nat (n a : Nat) (h : a ≤ n) : pyBound n (a : Int) = a := by
  unfold pyBound
  have h1 : ¬ ((a:Int) < 0) := by omega
  have h2 : ¬ ((n:Int) < (a:Int)) := by omega
  simp [h1, h2]

theorem slice2From_eq (x : List R) (a : Nat) (h : a ≤ x.length) :
    slice2From x (a : Int) = tab ((x.length - a + 1) / 2) fun i => getN x (a + 2*i) := by
  unfold slice2From slice2
  rw [pyBound_nat _ _ h, pyBound_nat _ _ (le_refl _)]

/-- element of the symmetric-extension gather -/
theorem getN_symmPad (x : List R) (m i : Nat) (hi : i < m + x.length + m) :
    getN (symmPad x m) i = Spec.xt x ((i:Int) - m) := by
  unfold symmPad Spec.xt
  rw [getN_eq_getZ, getZ_padIdx _ _ _ _ _ (by positivity) (by exact_mod_cast hi)]

/-- one tree of `coldfilt`: stride-2 correlation of every second extended sample, starting at `s ∈ {2,3}` -/
theorem tree_get (h x : List R) (s v : Nat) (hs : s = 2 ∨ s = 3) (hr : x.length % 4 = 0) (hr0 : 0 < x.length)
    (hm : 1 ≤ h.length) (hv : v < x.length / 4) :
    getN (corr h.reverse (slice2From (symmPad x h.length) (s:Int)) 2 1) v
      = ∑ j ∈ range h.length, getN h (h.length - 1 - j) * Spec.xt x (4*(v:Int) + 2*(j:Int) + s - h.length) := by
  have hlen : (symmPad x h.length).length = h.length + x.length + h.length := by simp [symmPad]
  rw [slice2From_eq _ _ (by rw [hlen]; omega)]
  have hcnt : ((symmPad x h.length).length - s + 1) / 2 = x.length / 2 + h.length - 1 := by
    rw [hlen]; rcases hs with rfl | rfl <;> omega
  rw [hcnt, getN_corr2 _ _ v (by simp [corrLen]; split <;> omega)]
  simp only [List.length_reverse]
  apply Finset.sum_congr rfl; intro j hj
  have hj' : j < h.length := by simpa using hj
  have e1 : getN h.reverse j = getN h (h.length - 1 - j) := by
    have := getN_reverse h (h.length - 1 - j) (by omega)
    have h2 : h.length - 1 - (h.length - 1 - j) = j := by omega
    rw [h2] at this; exact this
  rw [e1, ← getN_eq_getZ, getN_tab]
  have hlt : 2*v + j < x.length / 2 + h.length - 1 := by omega
  simp only [hlt, if_true]
  rw [getN_symmPad _ _ _ (by rcases hs with rfl | rfl <;> omega)]
  congr 2
  push_cast; ring

/-- `coldfilt(X, prep_filt(ha), prep_filt(hb), highpass)` is the reference formula: trees
`a v = Σ_j ha[m−1−j]·x̃(4v+2j+2−m)`, `b v = Σ_j hb[m−1−j]·x̃(4v+2j+3−m)`, interleaved (tree b first for the
high-pass), for every column length that is a positive multiple of 4 and every filter length. -/
theorem coldfilt1_eq_ref (ha hb x : List R) (hp : Bool) (hr : x.length % 4 = 0) (hr0 : 0 < x.length)
    (hm : 1 ≤ ha.length) (hab : hb.length = ha.length) :
    coldfilt1 (prepFilt ha) (prepFilt hb) hp x = some (Spec.coldfilt ha hb hp x) := by
  have hg : ¬ (x.length % 4 ≠ 0 ∨ x.length = 0) := by omega
  unfold coldfilt1 prepFilt Spec.coldfilt
  rw [if_neg hg]
  simp only [List.length_reverse]
  congr 1
  have la : (corr ha.reverse (slice2From (symmPad x ha.length) 2) 2 1).length = x.length / 4 := by
    have hlen : (symmPad x ha.length).length = ha.length + x.length + ha.length := by simp [symmPad]
    have := slice2From_eq (symmPad x ha.length) 2 (by rw [hlen]; omega)
    simp only [Nat.cast_ofNat] at this
    rw [this, corr_length, length_tab, List.length_reverse, hlen]; unfold corrLen; split <;> omega
  have lb : (corr hb.reverse (slice2From (symmPad x ha.length) 3) 2 1).length = x.length / 4 := by
    have hlen : (symmPad x ha.length).length = ha.length + x.length + ha.length := by simp [symmPad]
    have := slice2From_eq (symmPad x ha.length) 3 (by rw [hlen]; omega)
    simp only [Nat.cast_ofNat] at this
    rw [this, corr_length, length_tab, List.length_reverse, hlen, hab]; unfold corrLen; split <;> omega
  have ta := fun v hv => tree_get ha x 2 v (Or.inl rfl) hr hr0 hm hv
  have tb := fun v hv => tree_get hb x 3 v (Or.inr rfl) hr hr0 (by omega) hv
  simp only [Nat.cast_ofNat, hab] at ta tb
  cases hp
  · simp only [Bool.false_eq_true, if_false]
    unfold interleave2
    apply tab_ext (by rw [la]; omega)
    intro i hi
    rw [la] at hi
    have hv : i / 2 < x.length / 4 := by omega
    rw [sumN_eq, sumN_eq]
    split
    · rw [ta _ hv]
    · rw [tb _ hv]
  · simp only [if_true]
    unfold interleave2
    apply tab_ext (by rw [lb]; omega)
    intro i hi
    rw [lb] at hi
    have hv : i / 2 < x.length / 4 := by omega
    rw [sumN_eq, sumN_eq]
    split
    · rw [tb _ hv]
    · rw [ta _ hv]

/-- `coldfilt` raises exactly when the column length is not a positive multiple of 4, and
otherwise returns half as many rows -/
theorem coldfilt1_raises_iff (ha hb x : List R) (hp : Bool) :
    coldfilt1 ha hb hp x = none ↔ (x.length % 4 ≠ 0 ∨ x.length = 0) := by
  unfold coldfilt1
  split <;> simp_all

/-- non-vacuity -/
example : colfilter1 true (prepFilt [1, 2, 3]) ([4, 5, 6, 7] : List Int) = Spec.colfilter [1, 2, 3] [4, 5, 6, 7] := by
  decide

end WV.C03
