/-
  C07 / C05 — channel stacks in two dimensions, EVERY channel count.

  `afb1d` / `sfb1d` run one grouped convolution with the weight `cat([h0, h1] * C)` (`groups = C`).  On a stack of `C`
  images the autograd Functions `AFB2D.forward`, `AFB2D.backward`, `SFB2D.forward` therefore act channel by channel:
  output channel `c` is the one-channel operator applied to input channel `c`, nothing else enters it
  (`AFB2D_forward_channels`, `AFB2D_backward_channels`, `SFB2D_forward_channels`).  With the one-channel theorems of
  C05D this gives the mode-zero adjointness `Σ_c ⟨bands_c, g_c⟩ = Σ_c ⟨x_c, dx_c⟩` for every `C` (`AFB2D_zero_adjoint_channels`).
-/
import WaveletsVerif.Properties.C05D
import WaveletsVerif.Properties.C05P
import WaveletsVerif.Properties.C05S
import WaveletsVerif.Properties.C07
namespace WV.C07M
open Finset WV WV.C04 WV.C04Q WV.C06 WV.C05D
variable {R : Type} [CommRing R]

theorem sfb1dT_total (ax : Axis) (m : Mode) (g0 g1 : List R) (lo hi : List (Img R)) (S : Img R → Img R → Img R)
    (hlen : hi.length = lo.length)
    (h : ∀ c < lo.length, sfb1dImg ax m g0 g1 (lo.getD c []) (hi.getD c []) = some (S (lo.getD c []) (hi.getD c []))) :
    sfb1dT ax m g0 g1 lo hi = some (tab lo.length fun c => S (lo.getD c []) (hi.getD c [])) := by
  unfold sfb1dT
  rw [if_neg (by rw [hlen]; simp)]
  rw [mapM_total _ (fun c => S (lo.getD c []) (hi.getD c []))]
  · rfl
  · intro c hc
    exact h c (by simpa using hc)

/-- **`AFB2D.forward` acts channel by channel**, for every channel count: if the row pass and the column pass return on
every channel (`r0, r1` and `c0, c1` are their values), the stack result is exactly the per-channel results -/
theorem AFB2D_forward_channels (mode : Mode) (wr0 wr1 wc0 wc1 : List R) (xs : List (Img R)) (r0 r1 c0 c1 : Img R → Img R)
    (hrow : ∀ c < xs.length, alongO .W (afb1dOne mode wr0) (xs.getD c []) = some (r0 (xs.getD c [])) ∧
                              alongO .W (afb1dOne mode wr1) (xs.getD c []) = some (r1 (xs.getD c [])))
    (hcol : ∀ c < xs.length, ∀ y, (y = r0 (xs.getD c []) ∨ y = r1 (xs.getD c [])) →
        alongO .H (afb1dOne mode wc0) y = some (c0 y) ∧ alongO .H (afb1dOne mode wc1) y = some (c1 y)) :
    AFB2D_forward mode wr0 wr1 wc0 wc1 xs
      = some (tab xs.length fun c => c0 (r0 (xs.getD c [])),
              tab xs.length fun c => [c1 (r0 (xs.getD c [])), c0 (r1 (xs.getD c [])), c1 (r1 (xs.getD c []))]) := by
  unfold AFB2D_forward
  rw [C07.afb1dT_total .W mode wr0 wr1 xs r0 r1 hrow]
  simp only [Option.bind_eq_bind, Option.bind_some]
  have hl : (tab (2 * xs.length) fun o => if o % 2 = 0 then r0 (xs.getD (o/2) []) else r1 (xs.getD (o/2) [])).length = 2 * xs.length := by simp
  have hg : ∀ o < 2 * xs.length, (tab (2 * xs.length) fun o => if o % 2 = 0 then r0 (xs.getD (o/2) []) else r1 (xs.getD (o/2) [])).getD o []
      = if o % 2 = 0 then r0 (xs.getD (o/2) []) else r1 (xs.getD (o/2) []) := by
    intro o ho; rw [getD_tab, if_pos ho]
  rw [C07.afb1dT_total .H mode wc0 wc1 _ c0 c1 (by
    intro o ho
    rw [hl] at ho
    rw [hg o ho]
    by_cases he : o % 2 = 0
    · rw [if_pos he]; exact hcol (o/2) (by omega) _ (Or.inl rfl)
    · rw [if_neg he]; exact hcol (o/2) (by omega) _ (Or.inr rfl))]
  simp only [Option.bind_some, length_tab]
  have h4 : 2 * (2 * xs.length) / 4 = xs.length := by omega
  have hg2 : ∀ o < 2 * (2 * xs.length), (tab (2 * (2 * xs.length)) fun o =>
        if o % 2 = 0 then c0 ((tab (2 * xs.length) fun o => if o % 2 = 0 then r0 (xs.getD (o/2) []) else r1 (xs.getD (o/2) [])).getD (o/2) [])
        else c1 ((tab (2 * xs.length) fun o => if o % 2 = 0 then r0 (xs.getD (o/2) []) else r1 (xs.getD (o/2) [])).getD (o/2) [])).getD o []
      = if o % 2 = 0 then c0 (if (o/2) % 2 = 0 then r0 (xs.getD (o/2/2) []) else r1 (xs.getD (o/2/2) []))
        else c1 (if (o/2) % 2 = 0 then r0 (xs.getD (o/2/2) []) else r1 (xs.getD (o/2/2) [])) := by
    intro o ho
    rw [getD_tab, if_pos ho, hg (o/2) (by omega)]
  congr 2
  · apply tab_ext h4; intro c hc
    have hc' : c < xs.length := by omega
    rw [hg2 _ (by omega), if_pos (by omega), if_pos (by omega)]
    congr 3; omega
  · apply tab_ext h4; intro c hc
    have hc' : c < xs.length := by omega
    rw [hg2 _ (by omega), hg2 _ (by omega), hg2 _ (by omega)]
    have e1 : (4 * c + 1) / 2 / 2 = c := by omega
    have e2 : (4 * c + 2) / 2 / 2 = c := by omega
    have e3 : (4 * c + 3) / 2 / 2 = c := by omega
    rw [e1, e2, e3, if_neg (by omega), if_pos (by omega), if_pos (by omega), if_neg (by omega), if_neg (by omega), if_neg (by omega)]

/-- **`AFB2D.backward` acts channel by channel**, for every channel count -/
theorem AFB2D_backward_channels (mode : Mode) (wr0 wr1 wc0 wc1 : List R) (H W : Nat) (lows : List (Img R)) (highs : List (List (Img R)))
    (hlen : highs.length = lows.length) (Sc Sr : Img R → Img R → Img R)
    (h1 : ∀ c < lows.length, sfb1dImg .H mode wc0 wc1 (lows.getD c []) ((highs.getD c []).getD 0 [])
        = some (Sc (lows.getD c []) ((highs.getD c []).getD 0 [])))
    (h2 : ∀ c < lows.length, sfb1dImg .H mode wc0 wc1 ((highs.getD c []).getD 1 []) ((highs.getD c []).getD 2 [])
        = some (Sc ((highs.getD c []).getD 1 []) ((highs.getD c []).getD 2 [])))
    (h3 : ∀ c < lows.length, sfb1dImg .W mode wr0 wr1 (Sc (lows.getD c []) ((highs.getD c []).getD 0 []))
          (Sc ((highs.getD c []).getD 1 []) ((highs.getD c []).getD 2 []))
        = some (Sr (Sc (lows.getD c []) ((highs.getD c []).getD 0 [])) (Sc ((highs.getD c []).getD 1 []) ((highs.getD c []).getD 2 [])))) :
    AFB2D_backward mode wr0 wr1 wc0 wc1 H W lows highs
      = some (tab lows.length fun c => foldCrop2 mode H W
          (Sr (Sc (lows.getD c []) ((highs.getD c []).getD 0 [])) (Sc ((highs.getD c []).getD 1 []) ((highs.getD c []).getD 2 [])))) := by
  have hm : ∀ (k : Nat) (c : Nat), c < lows.length → (highs.map fun b => b.getD k []).getD c [] = (highs.getD c []).getD k [] := by
    intro k c hc
    have hc' : c < highs.length := by omega
    simp [List.getD_eq_getElem?_getD, List.getElem?_eq_getElem hc']
  unfold AFB2D_backward
  simp only []
  rw [sfb1dT_total .H mode wc0 wc1 lows _ Sc (by simp [hlen]) (by intro c hc; rw [hm 0 c hc]; exact h1 c hc)]
  simp only [Option.bind_eq_bind, Option.bind_some]
  rw [sfb1dT_total .H mode wc0 wc1 _ _ Sc (by simp) (by
    intro c hc
    have hc' : c < lows.length := by simpa [hlen] using hc
    rw [hm 1 c hc', hm 2 c hc']; exact h2 c hc')]
  simp only [Option.bind_some, List.length_map, hlen]
  rw [sfb1dT_total .W mode wr0 wr1 _ _ Sr (by simp) (by
    intro c hc
    have hc' : c < lows.length := by simpa using hc
    rw [getD_tab, getD_tab, if_pos hc', if_pos hc', hm 0 c hc', hm 1 c hc', hm 2 c hc']
    exact h3 c hc')]
  simp only [Option.bind_some, length_tab, C07.map_tab]
  congr 1
  apply tab_ext rfl; intro c hc
  rw [getD_tab, getD_tab, if_pos hc, if_pos hc, hm 0 c hc, hm 1 c hc, hm 2 c hc]

/-! ### mode zero on `C` channels -/

theorem alongO_W_zero (w : List R) (hw : 2 ≤ w.length) (x : Img R) (H W : Nat) (hx : Rect x H W) (hW : 1 ≤ W) :
    alongO .W (afb1dOne .zero w) x = some (alongW (Az w) x) := by
  show alongWO _ x = _
  apply alongWO_total
  intro c hc
  exact C05.afb1dOne_zero_val w c hw (by rw [hx.2 c hc]; exact hW)

theorem alongO_H_zero (w : List R) (hw : 2 ≤ w.length) (y : Img R) (H : Nat) (hy : y.length = H) (hH : 1 ≤ H) :
    alongO .H (afb1dOne .zero w) y = some (alongH (Az w) y) := by
  show alongHO _ y = _
  apply alongHO_total
  intro c hc
  exact C05.afb1dOne_zero_val w c hw (by rw [hc, hy]; exact hH)

section zero
variable (wr0 wr1 wc0 wc1 : List R) (hLr : 2 ≤ wr0.length) (hwr : wr1.length = wr0.length)
    (hLc : 2 ≤ wc0.length) (hwc : wc1.length = wc0.length) (H W : Nat) (hH : 1 ≤ H) (hW : 1 ≤ W)

include hLr hwr hLc hwc hH hW in
/-- `AFB2D.forward` in mode zero on a stack of `C` images -/
theorem AFB2D_forward_zero_channels (xs : List (Img R)) (hxs : ∀ c < xs.length, Rect (xs.getD c []) H W) :
    AFB2D_forward .zero wr0 wr1 wc0 wc1 xs
      = some (tab xs.length fun c => alongH (Az wc0) (alongW (Az wr0) (xs.getD c [])),
              tab xs.length fun c => [alongH (Az wc1) (alongW (Az wr0) (xs.getD c [])), alongH (Az wc0) (alongW (Az wr1) (xs.getD c [])),
                                      alongH (Az wc1) (alongW (Az wr1) (xs.getD c []))]) := by
  apply AFB2D_forward_channels .zero wr0 wr1 wc0 wc1 xs (alongW (Az wr0)) (alongW (Az wr1)) (alongH (Az wc0)) (alongH (Az wc1))
  · intro c hc
    exact ⟨alongO_W_zero wr0 hLr _ H W (hxs c hc) hW, alongO_W_zero wr1 (by omega) _ H W (hxs c hc) hW⟩
  · intro c hc y hy
    have hyl : y.length = H := by
      rcases hy with rfl | rfl
      · exact (Az_alongW_rect wr0 hLr _ H W (hxs c hc) hW).1
      · exact (Az_alongW_rect wr1 (by omega) _ H W (hxs c hc) hW).1
    exact ⟨alongO_H_zero wc0 hLc y H hyl hH, alongO_H_zero wc1 (by omega) y H hyl hH⟩

include hLr hwr hLc hwc hH hW in
/-- `AFB2D.backward` in mode zero on a stack of `C` cotangent quadruples -/
theorem AFB2D_backward_zero_channels (glls : List (Img R)) (ghs : List (List (Img R))) (hlen : ghs.length = glls.length)
    (hr : ∀ c < glls.length, Rect (glls.getD c []) (dwtCoeffLen H wc0.length) (dwtCoeffLen W wr0.length) ∧
      ∀ k < 3, Rect ((ghs.getD c []).getD k []) (dwtCoeffLen H wc0.length) (dwtCoeffLen W wr0.length)) :
    AFB2D_backward .zero wr0 wr1 wc0 wc1 H W glls ghs
      = some (tab glls.length fun c => tab2 H W (get2 (dxFull wr0 wr1 wc0 wc1 H W (glls.getD c []) ((ghs.getD c []).getD 0 [])
          ((ghs.getD c []).getD 1 []) ((ghs.getD c []).getD 2 [])))) := by
  have hKh : 1 ≤ dwtCoeffLen H wc0.length := by unfold dwtCoeffLen; omega
  have hKw : 1 ≤ dwtCoeffLen W wr0.length := by unfold dwtCoeffLen; omega
  have hfc : wc0.length ≤ 2 * dwtCoeffLen H wc0.length + 1 := by unfold dwtCoeffLen; omega
  have hfr : wr0.length ≤ 2 * dwtCoeffLen W wr0.length + 1 := by unfold dwtCoeffLen; omega
  have hHf : H ≤ 2 * (dwtCoeffLen H wc0.length - 1) + wc0.length - 2 * (wc0.length - 2) := by unfold dwtCoeffLen; omega
  have hWf : W ≤ 2 * (dwtCoeffLen W wr0.length - 1) + wr0.length - 2 * (wr0.length - 2) := by unfold dwtCoeffLen; omega
  rw [AFB2D_backward_channels .zero wr0 wr1 wc0 wc1 H W glls ghs hlen
    (colzip (Sz wc0 wc1) (2 * (dwtCoeffLen H wc0.length - 1) + wc0.length - 2 * (wc0.length - 2)) (dwtCoeffLen W wr0.length))
    (rowzip (Sz wr0 wr1) (2 * (dwtCoeffLen H wc0.length - 1) + wc0.length - 2 * (wc0.length - 2))
      (2 * (dwtCoeffLen W wr0.length - 1) + wr0.length - 2 * (wr0.length - 2)))
    (fun c hc => sfb1dImg_H_val wc0 wc1 hLc hwc _ _ _ _ (hr c hc).1 ((hr c hc).2 0 (by omega)) hKh hKw hfc)
    (fun c hc => sfb1dImg_H_val wc0 wc1 hLc hwc _ _ _ _ ((hr c hc).2 1 (by omega)) ((hr c hc).2 2 (by omega)) hKh hKw hfc)
    (fun c hc => sfb1dImg_W_val wr0 wr1 hLr hwr _ _ _ _ (colzip_rect _ _ _ _ _) (colzip_rect _ _ _ _ _) hKw hfr)]
  congr 1
  apply tab_ext rfl; intro c hc
  rw [foldCrop2_zero _ _ _ H W (rowzip_rect _ _ _ _ _) hH hW hHf hWf]
  rfl

include hLr hwr hLc hwc hH hW in
/-- **`AFB2D.backward` is the adjoint of `AFB2D.forward` in mode zero on every number of channels**:
`Σ_c (⟨ll_c,gll_c⟩ + ⟨lh_c,glh_c⟩ + ⟨hl_c,ghl_c⟩ + ⟨hh_c,ghh_c⟩) = Σ_c ⟨x_c, dx_c⟩`, and in fact channel by channel -/
theorem AFB2D_zero_adjoint_channels (xs glls : List (Img R)) (ghs : List (List (Img R))) (hl1 : glls.length = xs.length)
    (hl2 : ghs.length = xs.length) (hxs : ∀ c < xs.length, Rect (xs.getD c []) H W)
    (hr : ∀ c < xs.length, Rect (glls.getD c []) (dwtCoeffLen H wc0.length) (dwtCoeffLen W wr0.length) ∧
      ∀ k < 3, Rect ((ghs.getD c []).getD k []) (dwtCoeffLen H wc0.length) (dwtCoeffLen W wr0.length)) :
    ∃ lows highs dxs, AFB2D_forward .zero wr0 wr1 wc0 wc1 xs = some (lows, highs) ∧
      AFB2D_backward .zero wr0 wr1 wc0 wc1 H W glls ghs = some dxs ∧
      ∀ c < xs.length,
        dot2 (dwtCoeffLen H wc0.length) (dwtCoeffLen W wr0.length) (lows.getD c []) (glls.getD c [])
          + dot2 (dwtCoeffLen H wc0.length) (dwtCoeffLen W wr0.length) ((highs.getD c []).getD 0 []) ((ghs.getD c []).getD 0 [])
          + dot2 (dwtCoeffLen H wc0.length) (dwtCoeffLen W wr0.length) ((highs.getD c []).getD 1 []) ((ghs.getD c []).getD 1 [])
          + dot2 (dwtCoeffLen H wc0.length) (dwtCoeffLen W wr0.length) ((highs.getD c []).getD 2 []) ((ghs.getD c []).getD 2 [])
          = dot2 H W (xs.getD c []) (dxs.getD c []) := by
  refine ⟨_, _, _, AFB2D_forward_zero_channels wr0 wr1 wc0 wc1 hLr hwr hLc hwc H W hH hW xs hxs,
    AFB2D_backward_zero_channels wr0 wr1 wc0 wc1 hLr hwr hLc hwc H W hH hW glls ghs (by omega) (by rw [hl1]; exact hr), ?_⟩
  intro c hc
  obtain ⟨ll, lh, hl, hh, dx, hf, hb, hid⟩ := AFB2D_zero_adjoint wr0 wr1 wc0 wc1 hLr hwr hLc hwc H W hH hW (xs.getD c [])
    (glls.getD c []) ((ghs.getD c []).getD 0 []) ((ghs.getD c []).getD 1 []) ((ghs.getD c []).getD 2 []) (hxs c hc) (hr c hc).1
    ((hr c hc).2 0 (by omega)) ((hr c hc).2 1 (by omega)) ((hr c hc).2 2 (by omega))
  rw [C05D.AFB2D_forward_val wr0 wr1 wc0 wc1 hLr hwr hLc hwc _ H W (hxs c hc) hH hW] at hf
  rw [C05D.AFB2D_backward_val wr0 wr1 wc0 wc1 hLr hwr hLc hwc H W hH hW _ _ _ _ (hr c hc).1
    ((hr c hc).2 0 (by omega)) ((hr c hc).2 1 (by omega)) ((hr c hc).2 2 (by omega))] at hb
  simp only [Option.some.injEq, Prod.mk.injEq, List.cons.injEq, and_true] at hf hb
  obtain ⟨hf1, hf2, hf3, hf4⟩ := hf
  subst hf1 hf2 hf3 hf4 hb
  rw [getD_tab, getD_tab, getD_tab, if_pos hc, if_pos hc, if_pos (by omega)]
  exact hid

end zero


/-! ### periodization on `C` channels -/

section per
open WV.C05P
variable (wr0 wr1 wc0 wc1 : List R) (hLr : 2 ≤ wr0.length) (hLre : wr0.length % 2 = 0) (hwr : wr1.length = wr0.length)
    (hLc : 2 ≤ wc0.length) (hLce : wc0.length % 2 = 0) (hwc : wc1.length = wc0.length) (H W : Nat) (hH : 1 ≤ H) (hW : 1 ≤ W)
    (hfH : wc0.length ≤ H + H % 2) (hfW : wr0.length ≤ W + W % 2)

include hLr hLre hwr hLc hLce hwc hH hW hfH hfW in
/-- **`AFB2D.backward` is the adjoint of `AFB2D.forward` in periodization on every number of channels**, channel by channel
(`w·` are the analysis filters; the module's buffers are their reverses) -/
theorem AFB2D_per_adjoint_channels (xs glls : List (Img R)) (ghs : List (List (Img R))) (hl1 : glls.length = xs.length)
    (hl2 : ghs.length = xs.length) (hxs : ∀ c < xs.length, Rect (xs.getD c []) H W)
    (hr : ∀ c < xs.length, Rect (glls.getD c []) ((H + H % 2) / 2) ((W + W % 2) / 2) ∧
      ∀ k < 3, Rect ((ghs.getD c []).getD k []) ((H + H % 2) / 2) ((W + W % 2) / 2)) :
    ∃ lows highs dxs, AFB2D_forward .periodization wr0.reverse wr1.reverse wc0.reverse wc1.reverse xs = some (lows, highs) ∧
      AFB2D_backward .periodization wr0.reverse wr1.reverse wc0.reverse wc1.reverse H W glls ghs = some dxs ∧
      ∀ c < xs.length,
        dot2 ((H + H % 2) / 2) ((W + W % 2) / 2) (lows.getD c []) (glls.getD c [])
          + dot2 ((H + H % 2) / 2) ((W + W % 2) / 2) ((highs.getD c []).getD 0 []) ((ghs.getD c []).getD 0 [])
          + dot2 ((H + H % 2) / 2) ((W + W % 2) / 2) ((highs.getD c []).getD 1 []) ((ghs.getD c []).getD 1 [])
          + dot2 ((H + H % 2) / 2) ((W + W % 2) / 2) ((highs.getD c []).getD 2 []) ((ghs.getD c []).getD 2 [])
          = dot2 H W (xs.getD c []) (dxs.getD c []) := by
  have hKh : 1 ≤ (H + H % 2) / 2 := by omega
  have hKw : 1 ≤ (W + W % 2) / 2 := by omega
  -- forward on the stack
  have eW : ∀ (w : List R), 2 ≤ w.length → w.length % 2 = 0 → w.length ≤ W + W % 2 → ∀ (x : Img R), Rect x H W →
      alongO .W (afb1dOne .periodization w.reverse) x = some (alongW (Ap w) x) := by
    intro w hw hwe hfit x hx
    show alongWO _ x = _
    apply alongWO_total
    intro c hc
    exact C01.afb1dOne_per_eq_dwt_partial_all w c hwe hw (by rw [hx.2 c hc]; exact hW) (by rw [hx.2 c hc]; exact hfit)
  have eH : ∀ (w : List R), 2 ≤ w.length → w.length % 2 = 0 → w.length ≤ H + H % 2 → ∀ (y : Img R), y.length = H →
      alongO .H (afb1dOne .periodization w.reverse) y = some (alongH (Ap w) y) := by
    intro w hw hwe hfit y hy
    show alongHO _ y = _
    apply alongHO_total
    intro c hc
    exact C01.afb1dOne_per_eq_dwt_partial_all w c hwe hw (by rw [hc, hy]; exact hH) (by rw [hc, hy]; exact hfit)
  have rl : ∀ (w : List R) (x : Img R), Rect x H W → (alongW (Ap w) x).length = H := by
    intro w x hx
    rw [alongW_get' (Ap w) x H W _ hx (fun c hc => by rw [Ap_length, hc])]
    exact (tab2_rect _ _ _).1
  have hfwd := AFB2D_forward_channels .periodization wr0.reverse wr1.reverse wc0.reverse wc1.reverse xs
    (alongW (Ap wr0)) (alongW (Ap wr1)) (alongH (Ap wc0)) (alongH (Ap wc1))
    (fun c hc => ⟨eW wr0 hLr hLre hfW _ (hxs c hc), eW wr1 (by omega) (by omega) (by omega) _ (hxs c hc)⟩)
    (fun c hc y hy => by
      have hyl : y.length = H := by
        rcases hy with rfl | rfl
        · exact rl _ _ (hxs c hc)
        · exact rl _ _ (hxs c hc)
      exact ⟨eH wc0 hLc hLce hfH y hyl, eH wc1 (by omega) (by omega) (by omega) y hyl⟩)
  -- backward on the stack
  have hSc := sfb_per_val wc0 wc1 hLc hwc ((H + H % 2) / 2) hKh (by omega)
  have hSr := sfb_per_val wr0 wr1 hLr hwr ((W + W % 2) / 2) hKw (by omega)
  have lSc : ∀ a b : List R, a.length = (H + H % 2) / 2 → (Ip wc0.reverse wc1.reverse a b).length = 2 * ((H + H % 2) / 2) :=
    fun a b ha => by rw [Ip_length, ha]
  have lSr : ∀ a b : List R, a.length = (W + W % 2) / 2 → (Ip wr0.reverse wr1.reverse a b).length = 2 * ((W + W % 2) / 2) :=
    fun a b ha => by rw [Ip_length, ha]
  have hr' : ∀ c < glls.length, Rect (glls.getD c []) ((H + H % 2) / 2) ((W + W % 2) / 2) ∧
      ∀ k < 3, Rect ((ghs.getD c []).getD k []) ((H + H % 2) / 2) ((W + W % 2) / 2) := by rw [hl1]; exact hr
  have hbwd := AFB2D_backward_channels .periodization wr0.reverse wr1.reverse wc0.reverse wc1.reverse H W glls ghs (by omega)
    (colzip (Ip wc0.reverse wc1.reverse) (2 * ((H + H % 2) / 2)) ((W + W % 2) / 2))
    (rowzip (Ip wr0.reverse wr1.reverse) (2 * ((H + H % 2) / 2)) (2 * ((W + W % 2) / 2)))
    (fun c hc => sfb1dImg_H_gen .periodization _ _ _ _ _ hSc lSc _ _ _ (hr' c hc).1 ((hr' c hc).2 0 (by omega)) hKh hKw)
    (fun c hc => sfb1dImg_H_gen .periodization _ _ _ _ _ hSc lSc _ _ _ ((hr' c hc).2 1 (by omega)) ((hr' c hc).2 2 (by omega)) hKh hKw)
    (fun c hc => sfb1dImg_W_gen .periodization _ _ _ _ _ hSr lSr _ _ _ (colzip_rect _ _ _ _ _) (colzip_rect _ _ _ _ _))
  refine ⟨_, _, _, hfwd, hbwd, ?_⟩
  intro c hc
  obtain ⟨ll, lh, hl, hh, dx, hf, hb, hid⟩ := AFB2D_per_adjoint wr0 wr1 wc0 wc1 hLr hLre hwr hLc hLce hwc H W hH hW hfH hfW (xs.getD c [])
    (glls.getD c []) ((ghs.getD c []).getD 0 []) ((ghs.getD c []).getD 1 []) ((ghs.getD c []).getD 2 []) (hxs c hc) (hr c hc).1
    ((hr c hc).2 0 (by omega)) ((hr c hc).2 1 (by omega)) ((hr c hc).2 2 (by omega))
  rw [C05P.AFB2D_forward_val wr0 wr1 wc0 wc1 hLr hLre hwr hLc hLce hwc H W hH hW hfH hfW _ (hxs c hc)] at hf
  rw [C05P.AFB2D_backward_val wr0 wr1 wc0 wc1 hLr hwr hLc hwc H W hH hW hfH hfW _ _ _ _ (hr c hc).1
    ((hr c hc).2 0 (by omega)) ((hr c hc).2 1 (by omega)) ((hr c hc).2 2 (by omega))] at hb
  simp only [Option.some.injEq, Prod.mk.injEq, List.cons.injEq, and_true] at hf hb
  obtain ⟨hf1, hf2, hf3, hf4⟩ := hf
  subst hf1 hf2 hf3 hf4 hb
  rw [getD_tab, getD_tab, getD_tab, if_pos hc, if_pos hc, if_pos (by omega)]
  exact hid

end per


/-! ### the synthesis Function on `C` channels -/

/-- **`SFB2D.forward` acts channel by channel**, for every channel count -/
theorem SFB2D_forward_channels (mode : Mode) (gr0 gr1 gc0 gc1 : List R) (lows : List (Img R)) (highs : List (List (Img R)))
    (hlen : highs.length = lows.length) (Sc Sr : Img R → Img R → Img R)
    (h1 : ∀ c < lows.length, sfb1dImg .H mode gc0 gc1 (lows.getD c []) ((highs.getD c []).getD 0 [])
        = some (Sc (lows.getD c []) ((highs.getD c []).getD 0 [])))
    (h2 : ∀ c < lows.length, sfb1dImg .H mode gc0 gc1 ((highs.getD c []).getD 1 []) ((highs.getD c []).getD 2 [])
        = some (Sc ((highs.getD c []).getD 1 []) ((highs.getD c []).getD 2 [])))
    (h3 : ∀ c < lows.length, sfb1dImg .W mode gr0 gr1 (Sc (lows.getD c []) ((highs.getD c []).getD 0 []))
          (Sc ((highs.getD c []).getD 1 []) ((highs.getD c []).getD 2 []))
        = some (Sr (Sc (lows.getD c []) ((highs.getD c []).getD 0 [])) (Sc ((highs.getD c []).getD 1 []) ((highs.getD c []).getD 2 [])))) :
    SFB2D_forward mode gr0 gr1 gc0 gc1 lows highs
      = some (tab lows.length fun c =>
          Sr (Sc (lows.getD c []) ((highs.getD c []).getD 0 [])) (Sc ((highs.getD c []).getD 1 []) ((highs.getD c []).getD 2 []))) := by
  have hm : ∀ (k : Nat) (c : Nat), c < lows.length → (highs.map fun b => b.getD k []).getD c [] = (highs.getD c []).getD k [] := by
    intro k c hc
    have hc' : c < highs.length := by omega
    simp [List.getD_eq_getElem?_getD, List.getElem?_eq_getElem hc']
  unfold SFB2D_forward
  simp only []
  rw [sfb1dT_total .H mode gc0 gc1 lows _ Sc (by simp [hlen]) (by intro c hc; rw [hm 0 c hc]; exact h1 c hc)]
  simp only [Option.bind_eq_bind, Option.bind_some]
  rw [sfb1dT_total .H mode gc0 gc1 _ _ Sc (by simp) (by
    intro c hc
    have hc' : c < lows.length := by simpa [hlen] using hc
    rw [hm 1 c hc', hm 2 c hc']; exact h2 c hc')]
  simp only [Option.bind_some, List.length_map, hlen]
  rw [sfb1dT_total .W mode gr0 gr1 _ _ Sr (by simp) (by
    intro c hc
    have hc' : c < lows.length := by simpa using hc
    rw [getD_tab, getD_tab, if_pos hc', if_pos hc', hm 0 c hc', hm 1 c hc', hm 2 c hc']
    exact h3 c hc')]
  simp only [length_tab]
  congr 1
  apply tab_ext rfl; intro c hc
  rw [getD_tab, getD_tab, if_pos hc, if_pos hc, hm 0 c hc, hm 1 c hc, hm 2 c hc]

section synthzero
open WV.C05S
variable (gr0 gr1 gc0 gc1 : List R) (hLr : 2 ≤ gr0.length) (hgr : gr1.length = gr0.length)
    (hLc : 2 ≤ gc0.length) (hgc : gc1.length = gc0.length) (Kh Kw : Nat) (hKh : 1 ≤ Kh) (hKw : 1 ≤ Kw)
    (hfc : gc0.length ≤ 2 * Kh + 1) (hfr : gr0.length ≤ 2 * Kw + 1)

include hLr hgr hLc hgc hKh hKw hfc hfr in
/-- **`SFB2D.backward` is the adjoint of `SFB2D.forward` in mode zero on every number of channels**, channel by channel -/
theorem SFB2D_zero_adjoint_channels (lows dys : List (Img R)) (highs : List (List (Img R))) (hl1 : highs.length = lows.length)
    (hl2 : dys.length = lows.length)
    (hr : ∀ c < lows.length, Rect (lows.getD c []) Kh Kw ∧ ∀ k < 3, Rect ((highs.getD c []).getD k []) Kh Kw)
    (hd : ∀ c < lows.length, Rect (dys.getD c []) (Nf Kh gc0.length) (Nf Kw gr0.length)) :
    ∃ ys dlows dhighs, SFB2D_forward .zero gr0 gr1 gc0 gc1 lows highs = some ys ∧
      SFB2D_backward .zero gr0 gr1 gc0 gc1 dys = some (dlows, dhighs) ∧
      ∀ c < lows.length,
        dot2 (Nf Kh gc0.length) (Nf Kw gr0.length) (dys.getD c []) (ys.getD c [])
          = dot2 Kh Kw (dlows.getD c []) (lows.getD c []) + dot2 Kh Kw ((dhighs.getD c []).getD 0 []) ((highs.getD c []).getD 0 [])
            + dot2 Kh Kw ((dhighs.getD c []).getD 1 []) ((highs.getD c []).getD 1 [])
            + dot2 Kh Kw ((dhighs.getD c []).getD 2 []) ((highs.getD c []).getD 2 []) := by
  have hH : 1 ≤ Nf Kh gc0.length := by unfold Nf; omega
  have hW : 1 ≤ Nf Kw gr0.length := by unfold Nf; omega
  have hfwd := SFB2D_forward_channels .zero gr0 gr1 gc0 gc1 lows highs hl1
    (colzip (Sz gc0 gc1) (Nf Kh gc0.length) Kw) (rowzip (Sz gr0 gr1) (Nf Kh gc0.length) (Nf Kw gr0.length))
    (fun c hc => sfb1dImg_H_val gc0 gc1 hLc hgc _ _ _ _ (hr c hc).1 ((hr c hc).2 0 (by omega)) hKh hKw hfc)
    (fun c hc => sfb1dImg_H_val gc0 gc1 hLc hgc _ _ _ _ ((hr c hc).2 1 (by omega)) ((hr c hc).2 2 (by omega)) hKh hKw hfc)
    (fun c hc => sfb1dImg_W_val gr0 gr1 hLr hgr _ _ _ _ (colzip_rect _ _ _ _ _) (colzip_rect _ _ _ _ _) hKw hfr)
  have hbwd : SFB2D_backward .zero gr0 gr1 gc0 gc1 dys
      = some (tab dys.length fun c => alongH (Az gc0) (alongW (Az gr0) (dys.getD c [])),
              tab dys.length fun c => [alongH (Az gc1) (alongW (Az gr0) (dys.getD c [])), alongH (Az gc0) (alongW (Az gr1) (dys.getD c [])),
                                      alongH (Az gc1) (alongW (Az gr1) (dys.getD c []))]) := by
    rw [SFB2D_backward_eq]
    exact AFB2D_forward_zero_channels gr0 gr1 gc0 gc1 hLr hgr hLc hgc _ _ hH hW dys (by rw [hl2]; exact hd)
  refine ⟨_, _, _, hfwd, hbwd, ?_⟩
  intro c hc
  obtain ⟨y, dll, dlh, dhl, dhh, hf, hb, hid⟩ := SFB2D_zero_adjoint gr0 gr1 gc0 gc1 hLr hgr hLc hgc Kh Kw hKh hKw hfc hfr
    (lows.getD c []) ((highs.getD c []).getD 0 []) ((highs.getD c []).getD 1 []) ((highs.getD c []).getD 2 []) (dys.getD c [])
    (hr c hc).1 ((hr c hc).2 0 (by omega)) ((hr c hc).2 1 (by omega)) ((hr c hc).2 2 (by omega)) (hd c hc)
  rw [SFB2D_forward_val gr0 gr1 gc0 gc1 hLr hgr hLc hgc Kh Kw hKh hKw hfc hfr _ _ _ _ (hr c hc).1
    ((hr c hc).2 0 (by omega)) ((hr c hc).2 1 (by omega)) ((hr c hc).2 2 (by omega))] at hf
  rw [SFB2D_backward_eq, C05D.AFB2D_forward_val gr0 gr1 gc0 gc1 hLr hgr hLc hgc _ _ _ (hd c hc) hH hW] at hb
  simp only [Option.some.injEq, Prod.mk.injEq, List.cons.injEq, and_true] at hf hb
  obtain ⟨hb1, hb2, hb3, hb4⟩ := hb
  subst hf hb1 hb2 hb3 hb4
  rw [getD_tab, getD_tab, getD_tab, if_pos hc, if_pos (by omega), if_pos (by omega)]
  exact hid

end synthzero

end WV.C07M

namespace WV.C07M
open WV WV.C04
/-- the per-channel hypotheses are satisfiable for a two-channel stack -/
example : ∀ c < ([[[1, 2], [3, 4]], [[5, 6], [7, 8]]] : List (Img Int)).length,
    Rect (([[[1, 2], [3, 4]], [[5, 6], [7, 8]]] : List (Img Int)).getD c []) 2 2 := by
  intro c hc
  have : c = 0 ∨ c = 1 := by simp at hc; omega
  rcases this with rfl | rfl <;> simp [Rect]
end WV.C07M
