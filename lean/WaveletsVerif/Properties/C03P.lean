/-
  C03 — the forward DTCWT of the implementation model IS the reference pyramid, for every number of levels and
  every image size.

  The reference (`dtcwt.numpy.Transform2d.forward`, written out as `Spec.refForward`) filters columns first and then
  rows; the library filters rows first.  Both orders give the same image because every stage is a *gather-linear*
  column operator (`GL`: each output sample is a fixed linear combination of input samples at positions that depend on
  the length only), and a gather-linear operator along the columns commutes with one along the rows (`alongH_alongW_comm`).
  With the one-dimensional refinements of C03 (`colfilter1_eq_ref`, `coldfilt1_eq_ref`) this gives, by induction over
  the levels, `DTCWTForward = refForward` (`dtcwt_forward_eq_ref`): same low-pass, same six complex bands per level,
  same shapes — odd sizes, sizes that are not multiples of 4, images smaller than the filters included.
-/
import WaveletsVerif.Properties.C04P
namespace WV.C03P
open Finset WV WV.C04 WV.C04Q WV.C04P
variable {R : Type} [CommRing R]

/-- a gather-linear operator from length `nin` to length `nout` -/
def GL (F : List R → List R) (nin nout : Nat) : Prop :=
  ∃ (K : Nat) (coef : Nat → Nat → R) (idx : Nat → Nat → Nat), (∀ i < nout, ∀ j < K, idx i j < nin) ∧
    ∀ c : List R, c.length = nin → F c = tab nout fun i => ∑ j ∈ range K, coef i j * getN c (idx i j)

theorem GL.length {F : List R → List R} {nin nout : Nat} (h : GL F nin nout) (c : List R) (hc : c.length = nin) :
    (F c).length = nout := by
  obtain ⟨K, coef, idx, _, hF⟩ := h
  rw [hF c hc, length_tab]

theorem getD_tab2_row (H W : Nat) (f : Nat → Nat → R) (i : Nat) (hi : i < H) :
    (tab2 H W f).getD i [] = tab W (f i) := by
  unfold tab2; rw [getD_tab, if_pos hi]

/-- **a gather-linear operator along the columns commutes with one along the rows** -/
theorem alongH_alongW_comm (F G : List R → List R) (H H' W W' : Nat) (hF : GL F H H') (hG : GL G W W')
    (x : Img R) (hx : Rect x H W) (hH : 1 ≤ H) (hW : 1 ≤ W) (hH' : 1 ≤ H') (hW' : 1 ≤ W') :
    alongH F (alongW G x) = alongW G (alongH F x) := by
  have lF := fun c hc => GL.length hF c hc
  have lG := fun c hc => GL.length hG c hc
  obtain ⟨KF, cF, iF, hiF, eF⟩ := hF
  obtain ⟨KG, cG, iG, hiG, eG⟩ := hG
  have hrow : ∀ i < H, (x.getD i []).length = W := by
    intro i hi
    apply hx.2
    rw [List.getD_eq_getElem?_getD, List.getElem?_eq_getElem (by rw [hx.1]; exact hi)]; simp
  rw [alongW_get' G x H W W' hx lG]
  rw [alongH_get' F _ H H' W' (tab2_rect H W' _) hH hW' lF]
  rw [alongH_get' F x H H' W hx hH hW lF]
  rw [alongW_get' G _ H' W W' (tab2_rect H' W _) lG]
  apply tab2_congr; intro i hi l hl
  -- left: F on column l of the row-filtered image
  rw [col_tab2 H W' _ l hl, eF _ (by simp), getN_tab, if_pos hi]
  -- right: G on row i of the column-filtered image
  rw [getD_tab2_row H' W _ i hi, eG _ (by simp), getN_tab, if_pos hl]
  have eL : ∀ j ∈ range KF, cF i j * getN (tab H fun i' => getN (G (x.getD i' [])) l) (iF i j)
      = ∑ k ∈ range KG, cF i j * (cG l k * get2 x (iF i j) (iG l k)) := by
    intro j hj
    have hj' : j < KF := by simpa using hj
    rw [getN_tab, if_pos (hiF i hi j hj'), eG _ (hrow _ (hiF i hi j hj')), getN_tab, if_pos hl, Finset.mul_sum]
    rfl
  have eR : ∀ k ∈ range KG, cG l k * getN (tab W fun l' => getN (F (col x l')) i) (iG l k)
      = ∑ j ∈ range KF, cG l k * (cF i j * get2 x (iF i j) (iG l k)) := by
    intro k hk
    have hk' : k < KG := by simpa using hk
    have hcl : (col x (iG l k)).length = H := by simp [col, hx.1]
    rw [getN_tab, if_pos (hiG l hl k hk'), eF _ hcl, getN_tab, if_pos hi, Finset.mul_sum]
    apply Finset.sum_congr rfl; intro j hj
    have hj' : j < KF := by simpa using hj
    congr 2
    unfold col
    rw [getN_tab, hx.1, if_pos (hiF i hi j hj')]
  rw [Finset.sum_congr rfl eL, Finset.sum_congr rfl eR, Finset.sum_comm]
  apply Finset.sum_congr rfl; intro k _
  apply Finset.sum_congr rfl; intro j _
  ring

/-! ### the reference stages are gather-linear -/

theorem xt_eq_getN (c : List R) (hc : 1 ≤ c.length) (v : Int) :
    Spec.xt c v = getN c (symIdx (c.length:Int) v).toNat := by
  unfold Spec.xt
  have hr := symIdx_range (c.length:Int) v (by omega)
  rw [getN_eq_getZ]
  congr 1; omega

theorem GL_colfilter (h : List R) (hodd : h.length % 2 = 1) (n : Nat) (hn : 1 ≤ n) : GL (Spec.colfilter h) n n := by
  refine ⟨h.length, fun _ j => getN h j,
    fun i j => (symIdx (n:Int) ((i:Int) + ((h.length - 1 - j : Nat):Int) - ((h.length/2 : Nat):Int))).toNat, ?_, ?_⟩
  · intro i _ j _
    have hr := symIdx_range (n:Int) ((i:Int) + ((h.length - 1 - j : Nat):Int) - ((h.length/2 : Nat):Int)) (by omega)
    dsimp only
    omega
  · intro c hc
    unfold Spec.colfilter
    apply tab_ext (by rw [hc]; omega)
    intro i _
    rw [sumN_eq]
    apply Finset.sum_congr rfl; intro j _
    rw [xt_eq_getN c (by omega), hc]

theorem GL_coldfilt (ha hb : List R) (hp : Bool) (n : Nat) (hn4 : n % 4 = 0) (hn : 1 ≤ n) :
    GL (Spec.coldfilt ha hb hp) n (n/2) := by
  refine ⟨ha.length,
    fun i j => if i % 2 = 0 then (if hp then getN hb (ha.length - 1 - j) else getN ha (ha.length - 1 - j))
               else (if hp then getN ha (ha.length - 1 - j) else getN hb (ha.length - 1 - j)),
    fun i j => (symIdx (n:Int) (4*((i/2 : Nat):Int) + 2*(j:Int)
      + (if (i % 2 = 0) = (hp = false) then 2 else 3) - (ha.length:Int))).toNat, ?_, ?_⟩
  · intro i _ j _
    have hr := symIdx_range (n:Int) (4*((i/2 : Nat):Int) + 2*(j:Int)
      + (if (i % 2 = 0) = (hp = false) then 2 else 3) - (ha.length:Int)) (by omega)
    dsimp only
    omega
  · intro c hc
    unfold Spec.coldfilt
    apply tab_ext (by rw [hc])
    intro i _
    simp only [sumN_eq]
    by_cases hpar : i % 2 = 0 <;> cases hp <;> simp only [hpar, if_true, if_false, Bool.false_eq_true] <;>
      (apply Finset.sum_congr rfl; intro j _; rw [xt_eq_getN c (by omega), hc]; try simp)

/-! ### the stages of the implementation model in terms of the reference stages (general trees) -/

abbrev Dg (ha hb : List R) (hp : Bool) : List R → List R := Spec.coldfilt ha hb hp

theorem Dg_length (ha hb : List R) (hp : Bool) (c : List R) : (Dg ha hb hp c).length = c.length / 2 := by
  simp [Dg, Spec.coldfilt]

theorem coldfilt_modelG (ha hb : List R) (hp : Bool) (hL : 1 ≤ ha.length) (hab : hb.length = ha.length) (y : Img R) (H : Nat)
    (hH : 1 ≤ H) (hy : y.length = 4 * H) :
    coldfilt (prepFilt ha) (prepFilt hb) hp y = some (alongH (Dg ha hb hp) y) := by
  unfold coldfilt
  apply alongHO_total
  intro c hc
  exact C03.coldfilt1_eq_ref ha hb c hp (by omega) (by omega) hL hab

theorem rowdfilt_modelG (ha hb : List R) (hp : Bool) (hL : 1 ≤ ha.length) (hab : hb.length = ha.length) (y : Img R) (W : Nat)
    (hW : 1 ≤ W) (hy : ∀ r ∈ y, r.length = 4 * W) :
    rowdfilt (prepFilt ha) (prepFilt hb) hp y = some (alongW (Dg ha hb hp) y) := by
  unfold rowdfilt
  apply alongWO_total
  intro c hc
  exact C03.coldfilt1_eq_ref ha hb c hp (by rw [hy c hc]; omega) (by rw [hy c hc]; omega) hL hab

theorem Dg_alongH_rect (ha hb : List R) (hp : Bool) (y : Img R) (H W : Nat) (hy : Rect y (2*H) W) (hH : 1 ≤ H) (hW : 1 ≤ W) :
    Rect (alongH (Dg ha hb hp) y) H W := by
  rw [alongH_get' (Dg ha hb hp) y (2*H) H W hy (by omega) hW (fun c hc => by rw [Dg_length, hc]; omega)]
  exact tab2_rect H W _

theorem Dg_alongW_rect (ha hb : List R) (hp : Bool) (y : Img R) (H W : Nat) (hy : Rect y H (2*W)) :
    Rect (alongW (Dg ha hb hp) y) H W := by
  rw [alongW_get' (Dg ha hb hp) y H (2*W) W hy (fun c hc => by rw [Dg_length, hc]; omega)]
  exact tab2_rect H W _

/-- **level 1 of the model is level 1 of the reference** (rows-then-columns = columns-then-rows) -/
theorem fwdJ1_eq_ref (s : R) (h0 h1 : List R) (hh0 : h0.length % 2 = 1) (hh1 : h1.length % 2 = 1) (x : Img R) (a b : Nat)
    (ha : 1 ≤ a) (hb : 1 ≤ b) (hx : Rect x (2*a) (2*b)) :
    fwdJ1 s true (prepFilt h0) (prepFilt h1) false x
      = ((Spec.refLevel1 s h0 h1 x).1, some (Spec.refLevel1 s h0 h1 x).2) := by
  have L0 : 1 ≤ h0.length := by omega
  have L1 : 1 ≤ h1.length := by omega
  have h2a : 1 ≤ 2*a := by omega
  have h2b : 1 ≤ 2*b := by omega
  have eLo : rowfilter true (prepFilt h0) x = alongW (Cf h0) x := rowfilter_model h0 L0 x (2*b) h2b hx.2
  have eHi : rowfilter true (prepFilt h1) x = alongW (Cf h1) x := rowfilter_model h1 L1 x (2*b) h2b hx.2
  have rLo := alongW_rect h0 hh0 x _ _ hx
  have rHi := alongW_rect h1 hh1 x _ _ hx
  have cm : ∀ (f g : List R), f.length % 2 = 1 → g.length % 2 = 1 →
      colfilter true (prepFilt f) (alongW (Cf g) x) = alongW (Cf g) (alongH (Cf f) x) := by
    intro f g hf hg
    have rg := alongW_rect g hg x _ _ hx
    rw [colfilter_model f (by omega) _ (by rw [rg.1]; exact h2a)]
    exact alongH_alongW_comm (Cf f) (Cf g) (2*a) (2*a) (2*b) (2*b) (GL_colfilter f hf _ h2a) (GL_colfilter g hg _ h2b)
      x hx h2a h2b h2a h2b
  unfold fwdJ1 Spec.refLevel1
  simp only [Bool.false_eq_true, if_false, eLo, eHi]
  rw [cm h0 h0 hh0 hh0, cm h1 h0 hh1 hh0, cm h0 h1 hh0 hh1, cm h1 h1 hh1 hh1]

/-- **a level ≥ 2 of the model is the reference's level** on every image whose sides are positive multiples of 4 -/
theorem fwdJ2_eq_ref (s : R) (h0a h0b h1a h1b : List R) (hl0 : 1 ≤ h0b.length) (hab0 : h0a.length = h0b.length)
    (hl1 : 1 ≤ h1b.length) (hab1 : h1a.length = h1b.length) (x : Img R) (a b : Nat) (ha : 1 ≤ a) (hb : 1 ≤ b)
    (hx : Rect x (4*a) (4*b)) :
    fwdJ2 s (prepFilt h0a) (prepFilt h1a) (prepFilt h0b) (prepFilt h1b) false x
      = some ((Spec.refLevel2 s h0a h0b h1a h1b x).1, some (Spec.refLevel2 s h0a h0b h1a h1b x).2) := by
  have eLo := rowdfilt_modelG h0b h0a false hl0 hab0 x b hb hx.2
  have eHi := rowdfilt_modelG h1b h1a true hl1 hab1 x b hb hx.2
  have hx' : Rect x (4*a) (2*(2*b)) := by rw [show 2*(2*b) = 4*b by ring]; exact hx
  have rLo : Rect (alongW (Dg h0b h0a false) x) (4*a) (2*b) := Dg_alongW_rect _ _ _ x _ _ hx'
  have rHi : Rect (alongW (Dg h1b h1a true) x) (4*a) (2*b) := Dg_alongW_rect _ _ _ x _ _ hx'
  have h4a : 1 ≤ 4*a := by omega
  have h4b : 1 ≤ 4*b := by omega
  have e4a : 4*a / 2 = 2*a := by omega
  have e4b : 4*b / 2 = 2*b := by omega
  have cm : ∀ (fa fb : List R) (fp : Bool) (ga gb : List R) (gp : Bool), 1 ≤ fa.length → fb.length = fa.length →
      coldfilt (prepFilt fa) (prepFilt fb) fp (alongW (Dg ga gb gp) x)
        = some (alongW (Dg ga gb gp) (alongH (Dg fa fb fp) x)) := by
    intro fa fb fp ga gb gp hfl hfab
    have rg : Rect (alongW (Dg ga gb gp) x) (4*a) (2*b) := Dg_alongW_rect _ _ _ x _ _ hx'
    rw [coldfilt_modelG fa fb fp hfl hfab _ a ha rg.1]
    congr 1
    have gF := GL_coldfilt fa fb fp (4*a) (by omega) h4a
    have gG := GL_coldfilt ga gb gp (4*b) (by omega) h4b
    rw [e4a] at gF; rw [e4b] at gG
    exact alongH_alongW_comm (Dg fa fb fp) (Dg ga gb gp) (4*a) (2*a) (4*b) (2*b) gF gG x hx h4a h4b (by omega) (by omega)
  unfold fwdJ2 Spec.refLevel2
  simp only [eLo, eHi, Option.bind_eq_bind, Option.bind_some, Bool.false_eq_true, if_false]
  rw [cm h0b h0a false h0b h0a false hl0 hab0, cm h1b h1a true h0b h0a false hl1 hab1,
    cm h0b h0a false h1b h1a true hl0 hab0, cm h1b h1a true h1b h1a true hl1 hab1]
  simp only [Option.bind_some]

theorem refLevel2_rect (s : R) (h0a h0b h1a h1b : List R) (x : Img R) (a b : Nat) (ha : 1 ≤ a) (hb : 1 ≤ b)
    (hx : Rect x (4*a) (4*b)) : Rect (Spec.refLevel2 s h0a h0b h1a h1b x).1 (2*a) (2*b) := by
  unfold Spec.refLevel2
  simp only
  have hx' : Rect x (2*(2*a)) (4*b) := by rw [show 2*(2*a) = 4*a by ring]; exact hx
  have r1 : Rect (alongH (Dg h0b h0a false) x) (2*a) (4*b) := Dg_alongH_rect _ _ _ x _ _ hx' (by omega) (by omega)
  have r1' : Rect (alongH (Dg h0b h0a false) x) (2*a) (2*(2*b)) := by rw [show 2*(2*b) = 4*b by ring]; exact r1
  exact Dg_alongW_rect _ _ _ _ _ _ r1'

theorem refLevel1_rect (s : R) (h0 h1 : List R) (hh0 : h0.length % 2 = 1) (x : Img R) (a b : Nat) (ha : 1 ≤ a) (hb : 1 ≤ b)
    (hx : Rect x (2*a) (2*b)) : Rect (Spec.refLevel1 s h0 h1 x).1 (2*a) (2*b) := by
  unfold Spec.refLevel1
  simp only
  exact alongW_rect h0 hh0 _ _ _ (alongH_rect h0 hh0 x _ _ hx (by omega) (by omega))

/-! ### the pyramid -/

def mkFg (h0o h1o h0a h0b h1a h1b : List R) : FwdFilters R :=
  { h0o := prepFilt h0o, h1o := prepFilt h1o, h0a := prepFilt h0a, h0b := prepFilt h0b, h1a := prepFilt h1a, h1b := prepFilt h1b }

theorem loop_eq_ref (s : R) (h0o h1o h0a h0b h1a h1b : List R) (hl0 : 1 ≤ h0b.length) (hab0 : h0a.length = h0b.length)
    (hl1 : 1 ≤ h1b.length) (hab1 : h1a.length = h1b.length) :
    ∀ (n : Nat) (incl : List Bool) (low : Img R) (a b : Nat), 1 ≤ a → 1 ≤ b → Rect low (2*a) (2*b) →
      ∃ scs, dtcwtFwdLoop s (mkFg h0o h1o h0a h0b h1a h1b) (List.replicate n false) incl low
        = some ((Spec.refLoop s h0a h0b h1a h1b n low).1, (Spec.refLoop s h0a h0b h1a h1b n low).2.map some, scs) := by
  intro n
  induction n with
  | zero => intro incl low a b _ _ _; exact ⟨[], by simp [dtcwtFwdLoop, Spec.refLoop]⟩
  | succ n ih =>
    intro incl low a b ha hb hx
    have re := extendMult4_rect low (2*a) (2*b) hx (by omega) (by omega)
    have ea : 2*a + (if (2*a) % 4 ≠ 0 then 2 else 0) = 4 * ((a+1)/2) := by split <;> omega
    have eb : 2*b + (if (2*b) % 4 ≠ 0 then 2 else 0) = 4 * ((b+1)/2) := by split <;> omega
    rw [ea, eb] at re
    have hf := fwdJ2_eq_ref s h0a h0b h1a h1b hl0 hab0 hl1 hab1 (extendMult4 low) ((a+1)/2) ((b+1)/2) (by omega) (by omega) re
    have rl := refLevel2_rect s h0a h0b h1a h1b (extendMult4 low) ((a+1)/2) ((b+1)/2) (by omega) (by omega) re
    obtain ⟨scs, hloop⟩ := ih (incl.drop 1) _ ((a+1)/2) ((b+1)/2) (by omega) (by omega) rl
    have hf' : fwdJ2 s (mkFg h0o h1o h0a h0b h1a h1b).h0a (mkFg h0o h1o h0a h0b h1a h1b).h1a (mkFg h0o h1o h0a h0b h1a h1b).h0b
        (mkFg h0o h1o h0a h0b h1a h1b).h1b false (extendMult4 low) = _ := hf
    refine ⟨(if incl.headD false then some (Spec.refLevel2 s h0a h0b h1a h1b (extendMult4 low)).1 else none) :: scs, ?_⟩
    rw [List.replicate_succ]
    unfold dtcwtFwdLoop
    rw [hf']
    simp only [Option.bind_eq_bind, Option.bind_some]
    rw [hloop]
    simp only [Option.bind_some, Spec.refLoop, List.map_cons]

/-- **the forward DTCWT of the implementation model is the reference pyramid**: same final low-pass, same six complex
bands at every level (finest first), for every number of levels `n+1 ≥ 1` and every image with at least one row and one
column; level-1 filters of odd length, q-shift filters of any (pairwise equal) lengths -/
theorem dtcwt_forward_eq_ref (s : R) (h0o h1o h0a h0b h1a h1b : List R) (hh0o : h0o.length % 2 = 1) (hh1o : h1o.length % 2 = 1)
    (hl0 : 1 ≤ h0b.length) (hab0 : h0a.length = h0b.length) (hl1 : 1 ≤ h1b.length) (hab1 : h1a.length = h1b.length)
    (n : Nat) (incl : List Bool) (x : Img R) (H W : Nat) (hH : 1 ≤ H) (hW : 1 ≤ W) (hx : Rect x H W) :
    ∃ scs, DTCWTForward s true (mkFg h0o h1o h0a h0b h1a h1b) (List.replicate (n+1) false) incl x
      = some ((Spec.refForward s h0o h1o h0a h0b h1a h1b n x).1,
              (Spec.refForward s h0o h1o h0a h0b h1a h1b n x).2.map some, scs) := by
  have rxe := extendEven_rect x H W hx hH hW
  have ea : H + H % 2 = 2 * ((H+1)/2) := by omega
  have eb : W + W % 2 = 2 * ((W+1)/2) := by omega
  rw [ea, eb] at rxe
  have h1 := fwdJ1_eq_ref s h0o h1o hh0o hh1o (extendEven x) ((H+1)/2) ((W+1)/2) (by omega) (by omega) rxe
  have r1 := refLevel1_rect s h0o h1o hh0o (extendEven x) ((H+1)/2) ((W+1)/2) (by omega) (by omega) rxe
  obtain ⟨scs, hloop⟩ := loop_eq_ref s h0o h1o h0a h0b h1a h1b hl0 hab0 hl1 hab1 n (incl.drop 1) _ _ _ (by omega) (by omega) r1
  refine ⟨(if incl.headD false then some (Spec.refLevel1 s h0o h1o (extendEven x)).1 else none) :: scs, ?_⟩
  rw [List.replicate_succ]
  unfold DTCWTForward
  simp only []
  have e : fwdJ1 s true (mkFg h0o h1o h0a h0b h1a h1b).h0o (mkFg h0o h1o h0a h0b h1a h1b).h1o false (extendEven x) = _ := h1
  rw [e]
  simp only [hloop, Option.bind_eq_bind, Option.bind_some, Spec.refForward, List.map_cons]

end WV.C03P
