/-
  C10 — the 2-D inverse in periodization mode equals PyWavelets' `waverec2` on every pyramid of forward-compatible
  shape, for every number of levels, `None` levels and the un-pad rule on both axes included — wherever at every
  level the filters satisfy `L − 2 ≤ 2n` per axis (the regime in which the one-level code path equals PyWavelets,
  `C10.sfb1dCh_per_eq_idwt_partial`; its complement is the known finding C10-periodization-short).
  The structure is that of `C10.DWTInverse_eq_waverec2` (modes zero / symmetric / reflect / periodic).
-/
import WaveletsVerif.Properties.C10
namespace WV.C10P
open Finset WV WV.C10
variable {R : Type} [CommRing R]

theorem idwt_per_length (g0 g1 lo hi : List R) : (Spec.idwt .periodization g0 g1 lo hi).length = 2 * lo.length := by
  simp [Spec.idwt]

/-- periodized synthesis along the columns of one channel = `tr ∘ zip2 idwt ∘ tr` -/
theorem sfb1dImg_H_per (g0 g1 : List R) (hL : 2 ≤ g0.length) (hg : g1.length = g0.length)
    (lo hi : Img R) (hw : hi.width = lo.width) (hh : hi.length = lo.length) (hn : 1 ≤ lo.length)
    (hfit : g0.length - 2 ≤ 2 * lo.length) :
    sfb1dImg .H .periodization g0 g1 lo hi = some (tr (Spec.zip2 (Spec.idwt .periodization g0 g1) (tr lo) (tr hi))) := by
  have hne : ¬ (lo.width ≠ hi.width) := by simp [hw]
  simp only [sfb1dImg, hne, if_false]
  rw [mapM_total _ (fun j => Spec.idwt .periodization g0 g1 ((tr lo).getD j []) ((tr hi).getD j []))]
  · simp only [Option.map_some, Spec.zip2, tr_length, tab]
  · intro j hj
    have hj' : j < lo.width := by simpa using hj
    apply sfb1dCh_per_eq_idwt_partial g0 g1 _ _ hL hg
    · rw [getD_tr_length lo j hj']; exact hn
    · rw [getD_tr_length lo j hj', getD_tr_length hi j (by omega)]; exact hh
    · rw [getD_tr_length lo j hj']; exact hfit

/-- periodized synthesis along the rows of one channel = `zip2 idwt` -/
theorem sfb1dImg_W_per (g0 g1 : List R) (hL : 2 ≤ g0.length) (hg : g1.length = g0.length)
    (lo hi : Img R) (hh : hi.length = lo.length) (w : Nat) (hlo : ∀ r ∈ lo, r.length = w) (hhi : ∀ r ∈ hi, r.length = w)
    (hn : 1 ≤ w) (hfit : g0.length - 2 ≤ 2 * w) :
    sfb1dImg .W .periodization g0 g1 lo hi = some (Spec.zip2 (Spec.idwt .periodization g0 g1) lo hi) := by
  have hne : ¬ (lo.length ≠ hi.length) := by simp [hh]
  simp only [sfb1dImg, hne, if_false]
  rw [mapM_total _ (fun i => Spec.idwt .periodization g0 g1 (lo.getD i []) (hi.getD i []))]
  · simp only [Spec.zip2, tab]
  · intro i hi'
    have hi'' : i < lo.length := by simpa using hi'
    have e1 : (lo.getD i []).length = w := by
      apply hlo; rw [List.getD_eq_getElem?_getD, List.getElem?_eq_getElem hi'']; simp
    have e2 : (hi.getD i []).length = w := by
      apply hhi; rw [List.getD_eq_getElem?_getD, List.getElem?_eq_getElem (by omega)]; simp
    apply sfb1dCh_per_eq_idwt_partial g0 g1 _ _ hL hg
    · rw [e1]; exact hn
    · rw [e1, e2]
    · rw [e1]; exact hfit

/-- **one level of the 2-D synthesis in periodization on one channel is `pywt.idwt2`** -/
theorem SFB2D_forward_per_eq_idwt2 (gc0 gc1 gr0 gr1 : List R)
    (hLc : 2 ≤ gc0.length) (hgc : gc1.length = gc0.length) (hLr : 2 ≤ gr0.length) (hgr : gr1.length = gr0.length)
    (cA cH cV cD : Img R) (h w : Nat) (hh : 1 ≤ h) (hw : 1 ≤ w)
    (sA : cA.length = h ∧ cA.width = w) (sH : cH.length = h ∧ cH.width = w)
    (sV : cV.length = h ∧ cV.width = w) (sD : cD.length = h ∧ cD.width = w)
    (hfitc : gc0.length - 2 ≤ 2 * h) (hfitr : gr0.length - 2 ≤ 2 * w) :
    SFB2D_forward .periodization gr0 gr1 gc0 gc1 [cA] [[cH, cV, cD]] = some [Spec.idwt2 .periodization gc0 gc1 gr0 gr1 cA cH cV cD] := by
  obtain ⟨a1, a2⟩ := sA; obtain ⟨b1, b2⟩ := sH; obtain ⟨c1, c2⟩ := sV; obtain ⟨d1, d2⟩ := sD
  simp only [SFB2D_forward, List.map_cons, List.map_nil, List.getD_cons_zero, List.getD_cons_succ]
  rw [sfb1dT_single, sfb1dT_single,
    sfb1dImg_H_per gc0 gc1 hLc hgc cA cH (by omega) (by omega) (by omega) (by rw [a1]; exact hfitc),
    sfb1dImg_H_per gc0 gc1 hLc hgc cV cD (by omega) (by omega) (by omega) (by rw [c1]; exact hfitc)]
  simp only [Option.map_some, Option.bind_eq_bind, Option.bind_some]
  rw [sfb1dT_single]
  set Z1 := Spec.zip2 (Spec.idwt .periodization gc0 gc1) (tr cA) (tr cH) with hZ1
  set Z2 := Spec.zip2 (Spec.idwt .periodization gc0 gc1) (tr cV) (tr cD) with hZ2
  have hZ1l : Z1.length = w := by rw [hZ1, zip2_length, tr_length, a2]
  have hZ2l : Z2.length = w := by rw [hZ2, zip2_length, tr_length, c2]
  have hZ1w : Z1.width = 2 * h := by
    rw [hZ1, zip2_width _ _ _ (by rw [tr_length]; omega), idwt_per_length, getD_tr_length cA 0 (by omega), a1]
  have hZ2w : Z2.width = 2 * h := by
    rw [hZ2, zip2_width _ _ _ (by rw [tr_length]; omega), idwt_per_length, getD_tr_length cV 0 (by omega), c1]
  rw [sfb1dImg_W_per gr0 gr1 hLr hgr (tr Z1) (tr Z2) (by rw [tr_length, tr_length, hZ1w, hZ2w]) w
    (fun r hr => by rw [tr_row_length Z1 r hr, hZ1l]) (fun r hr => by rw [tr_row_length Z2 r hr, hZ2l]) hw hfitr]
  rfl

/-- shapes a forward transform in periodization produces, with the fit condition of the periodized synthesis -/
def StepOK2P (gc0 gr0 : List R) (a : Img R) (d : Option (List (Img R))) : Prop :=
  ∃ h w : Nat, 1 ≤ h ∧ 1 ≤ w ∧ (a.length = h ∨ a.length = h + 1) ∧ (a.width = w ∨ a.width = w + 1) ∧
    gc0.length - 2 ≤ 2 * h ∧ gr0.length - 2 ≤ 2 * w ∧
    match d with
    | some v => ∃ cH cV cD, v = [cH, cV, cD] ∧ Shape cH h w ∧ Shape cV h w ∧ Shape cD h w
    | none => a.length = h ∧ a.width = w

/-- one level of the module = one level of the specification -/
theorem step_eq2P (gc0 gc1 gr0 gr1 : List R)
    (hLc : 2 ≤ gc0.length) (hgc : gc1.length = gc0.length) (hLr : 2 ≤ gr0.length) (hgr : gr1.length = gr0.length)
    (a : Img R) (d : Option (List (Img R))) (hok : StepOK2P gc0 gr0 a d) :
    DWTInverse_step .periodization gc0 gc1 gr0 gr1 [a] (d.map fun v => [v]) = some [stepS2 .periodization gc0 gc1 gr0 gr1 a d] := by
  obtain ⟨h, w, hh, hw, hl, hwd, hfc, hfr, hd⟩ := hok
  cases d with
  | some v =>
    obtain ⟨cH, cV, cD, rfl, sH, sV, sD⟩ := hd
    have hmodel : DWTInverse_step .periodization gc0 gc1 gr0 gr1 [a] (some [[cH, cV, cD]])
        = SFB2D_forward .periodization gr0 gr1 gc0 gc1 [unpad a h w] [[cH, cV, cD]] := by
      unfold DWTInverse_step unpad
      simp only [List.headD_cons, List.map_cons, List.map_nil, sH.1, sH.2]
      have e1 : (a.length > h) ↔ (a.length = h + 1) := by omega
      have e2 : (a.width > w) ↔ (a.width = w + 1) := by omega
      by_cases c1 : a.length = h + 1
      · have c1' : a.length > h := by omega
        have hwt : Img.width (a.take (a.length - 1) : Img R) = a.width := take_width a _ (by omega)
        rw [if_pos c1', if_pos c1]
        by_cases c2 : a.width = w + 1
        · have c2' : a.width > w := by omega
          rw [if_pos c2', if_pos (by rw [hwt, c2])]
          rfl
        · have c2' : ¬ (a.width > w) := by omega
          rw [if_neg c2', if_neg (by rw [hwt]; exact c2)]
      · have c1' : ¬ (a.length > h) := by omega
        rw [if_neg c1', if_neg c1]
        by_cases c2 : a.width = w + 1
        · have c2' : a.width > w := by omega
          rw [if_pos c2', if_pos c2]
          rfl
        · have c2' : ¬ (a.width > w) := by omega
          rw [if_neg c2', if_neg c2]
    have hspec : stepS2 .periodization gc0 gc1 gr0 gr1 a (some [cH, cV, cD])
        = Spec.idwt2 .periodization gc0 gc1 gr0 gr1 (unpad a h w) cH cV cD := by
      simp only [stepS2, unpad, List.getD_cons_zero, List.getD_cons_succ, sH.1, sH.2]
    simp only [Option.map_some]
    rw [hmodel, hspec]
    exact SFB2D_forward_per_eq_idwt2 gc0 gc1 gr0 gr1 hLc hgc hLr hgr _ cH cV cD h w hh hw
      (unpad_shape a h w hh hl hwd) sH sV sD hfc hfr
  | none =>
    obtain ⟨hal, haw⟩ := hd
    have sz := izero_shape (R := R) h w hh
    have hmodel : DWTInverse_step .periodization gc0 gc1 gr0 gr1 [a] none
        = SFB2D_forward .periodization gr0 gr1 gc0 gc1 [a] [[izero h w, izero h w, izero h w]] := by
      unfold DWTInverse_step
      simp only [List.headD_cons, List.map_cons, List.map_nil, hal, haw, sz.1, sz.2]
      simp
    have hspec : stepS2 .periodization gc0 gc1 gr0 gr1 a none
        = Spec.idwt2 .periodization gc0 gc1 gr0 gr1 a (izero h w) (izero h w) (izero h w) := by
      simp only [stepS2, List.getD_cons_zero, List.getD_cons_succ, hal, haw, sz.1, sz.2]
      have c1 : ¬ (h = h + 1) := by omega
      have c2 : ¬ (w = w + 1) := by omega
      simp only [c1, if_false, haw, c2]
    simp only [Option.map_none]
    rw [hmodel, hspec]
    exact SFB2D_forward_per_eq_idwt2 gc0 gc1 gr0 gr1 hLc hgc hLr hgr a _ _ _ h w hh hw ⟨hal, haw⟩ sz sz sz hfc hfr

def Compat2P (gc0 gc1 gr0 gr1 : List R) : Img R → List (Option (List (Img R))) → Prop
  | _, [] => True
  | a, d :: rest => StepOK2P gc0 gr0 a d ∧ Compat2P gc0 gc1 gr0 gr1 (stepS2 .periodization gc0 gc1 gr0 gr1 a d) rest

/-- **the J-level 2-D synthesis of one channel in periodization mode is PyWavelets' `waverec2`** on every pyramid of
forward-compatible shape with `L − 2 ≤ 2n` per axis at every level, `None` levels and the un-pad rule included -/
theorem DWTInverse_per_eq_waverec2 (gc0 gc1 gr0 gr1 : List R)
    (hLc : 2 ≤ gc0.length) (hgc : gc1.length = gc0.length) (hLr : 2 ≤ gr0.length) (hgr : gr1.length = gr0.length)
    (a : Img R) (ds : List (Option (List (Img R)))) (hc : Compat2P gc0 gc1 gr0 gr1 a ds.reverse) :
    DWTInverse .periodization gc0 gc1 gr0 gr1 [a] (ds.map fun d => d.map fun v => [v])
      = some [Spec.waverec2 .periodization gc0 gc1 gr0 gr1 a ds] := by
  rw [waverec2_eq_foldl]
  unfold DWTInverse
  rw [← List.map_reverse]
  generalize ds.reverse = rs at hc
  induction rs generalizing a with
  | nil => simp
  | cons d rest ih =>
    obtain ⟨hok, hrest⟩ := hc
    simp only [List.map_cons, List.foldlM_cons, List.foldl_cons]
    rw [step_eq2P gc0 gc1 gr0 gr1 hLc hgc hLr hgr a d hok]
    simp only [Option.bind_eq_bind, Option.bind_some]
    exact ih _ hrest

/-- non-vacuity: a one-level integer pyramid with 2×2 bands and a 3×2 approximation (un-pad on the vertical axis) -/
example : Compat2P (R := Int) [1, 1] [1, -1] [1, 1] [1, -1] [[1, 2], [3, 4], [5, 6]]
    [some [[[1, 0], [0, 1]], [[2, 0], [0, 2]], [[0, 1], [1, 0]]]] := by
  refine ⟨⟨2, 2, by decide, by decide, Or.inr rfl, Or.inl rfl, by decide, by decide, ?_⟩, trivial⟩
  exact ⟨_, _, _, rfl, ⟨rfl, rfl⟩, ⟨rfl, rfl⟩, ⟨rfl, rfl⟩⟩

end WV.C10P
