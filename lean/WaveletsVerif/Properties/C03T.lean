/-
  Tie by translation — the padding index helpers.

  `Gen/Pad.lean` is regenerated on every run from `pytorch_wavelets/utils.py` (`reflect`, `symm_pad_1d`); the
  translator also checks that every symmetric / periodic index vector built in `dwt/lowlevel.mypad` and in the
  DTCWT column filters is an instance of those helpers.  Here the translated code is PROVED equal, for every
  length and every index, to the index map the hand-written model pads with (`symIdx`, `symmPad`):

  * `reflect_eq_symIdx` : `reflect(i, −½, l−½) = symIdx l i` for every integer `i` and `l ≥ 1` (any number of
    reflections);
  * `symm_pad_1d_eq`    : `symm_pad_1d(l, m)` is the vector `[symIdx l (k−m)]_{k<l+2m}`;
  * `symmPad_eq_gather` : the model's `symmPad x m` is `x[symm_pad_1d(len x, m)]`.
  So a rewrite of the source helpers that changes any index breaks a proof obligation, not only the correspondence.
-/
import WaveletsVerif.Gen.Pad
import WaveletsVerif.Lemmas.Basic
import WaveletsVerif.Model.Dtcwt
import Mathlib.Tactic.Linarith
import Mathlib.Tactic.FieldSimp
import Mathlib.Tactic.Positivity
import Mathlib.Tactic.Ring
namespace WV.C03T
open WV WV.NumpyQ

theorem truncQ_int (n : Int) : truncQ (n : ℚ) = n := by
  unfold truncQ
  split <;> simp

theorem asInt_int (n : Int) : asInt (n : ℚ) = n := truncQ_int n

/-- `np.fmod` followed by the sign correction is the floor-mod: on half-integers `i + ½` with modulus `2l` -/
theorem fmod_normed (i l : Int) (hl : 0 < l) :
    (if fmod ((i:ℚ) + 1/2) (2 * (l:ℚ)) < 0 then fmod ((i:ℚ) + 1/2) (2 * (l:ℚ)) + 2 * (l:ℚ) else fmod ((i:ℚ) + 1/2) (2 * (l:ℚ)))
      = ((i % (2*l) : Int) : ℚ) + 1/2 := by
  have hdm := Int.emod_add_mul_ediv i (2*l)
  have ht0 := Int.emod_nonneg i (show (2*l) ≠ 0 by omega)
  have ht1 := Int.emod_lt_of_pos i (show 0 < 2*l by omega)
  set q : Int := i / (2*l) with hq
  set t : Int := i % (2*l) with ht
  have hlq : (0:ℚ) < (l:ℚ) := by exact_mod_cast hl
  have hiq : (i:ℚ) = (t:ℚ) + 2 * (l:ℚ) * (q:ℚ) := by
    have : ((t + 2*l*q : Int) : ℚ) = (i:ℚ) := by rw [hdm]
    push_cast at this; linarith
  have ht0q : (0:ℚ) ≤ (t:ℚ) := by exact_mod_cast ht0
  have ht1q : (t:ℚ) < 2 * (l:ℚ) := by exact_mod_cast ht1
  have hdiv : ((i:ℚ) + 1/2) / (2 * (l:ℚ)) = (q:ℚ) + ((t:ℚ) + 1/2) / (2 * (l:ℚ)) := by
    rw [hiq]; field_simp; ring
  have hf0 : (0:ℚ) < ((t:ℚ) + 1/2) / (2 * (l:ℚ)) := by positivity
  have ht1q' : (t:ℚ) + 1 ≤ 2 * (l:ℚ) := by exact_mod_cast (show t + 1 ≤ 2*l by omega)
  have hf1 : ((t:ℚ) + 1/2) / (2 * (l:ℚ)) < 1 := by
    rw [div_lt_one (by positivity)]
    linarith
  unfold fmod truncQ
  by_cases hc : 0 ≤ ((i:ℚ) + 1/2) / (2 * (l:ℚ))
  · rw [if_pos hc]
    have hfl : ⌊((i:ℚ) + 1/2) / (2 * (l:ℚ))⌋ = q := by
      rw [Int.floor_eq_iff, hdiv]; constructor <;> linarith
    rw [hfl]
    have hval : (i:ℚ) + 1/2 - 2 * (l:ℚ) * (q:ℚ) = (t:ℚ) + 1/2 := by rw [hiq]; ring
    rw [hval, if_neg (by linarith)]
  · rw [if_neg hc]
    have hcl : ⌈((i:ℚ) + 1/2) / (2 * (l:ℚ))⌉ = q + 1 := by
      rw [Int.ceil_eq_iff, hdiv]; push_cast; constructor <;> linarith
    rw [hcl]
    have hval : (i:ℚ) + 1/2 - 2 * (l:ℚ) * ((q + 1 : Int) : ℚ) = (t:ℚ) + 1/2 - 2 * (l:ℚ) := by
      rw [hiq]; push_cast; ring
    rw [hval, if_pos (by linarith)]
    ring

/-- **the translated `utils.reflect`, called as the library calls it, is the model's half-sample symmetric index
map** — for every integer position and every length, however many reflections are needed -/
theorem reflect_eq_symIdx (i l : Int) (hl : 0 < l) :
    Gen.reflect (i : ℚ) (-((1 : ℚ) / 2)) ((l : ℚ) - ((1 : ℚ) / 2)) = symIdx l i := by
  unfold Gen.reflect
  simp only
  have e1 : (l : ℚ) - (1 : ℚ) / 2 - -((1 : ℚ) / 2) = (l:ℚ) := by ring
  have e2 : (i : ℚ) - -((1 : ℚ) / 2) = (i:ℚ) + 1/2 := by ring
  rw [e1, e2, fmod_normed i l hl]
  have ht0 := Int.emod_nonneg i (show (2*l) ≠ 0 by omega)
  have ht1 := Int.emod_lt_of_pos i (show 0 < 2*l by omega)
  unfold symIdx
  simp only
  set t : Int := i % (2*l) with ht
  by_cases hc : t < l
  · have hq : ¬ ((t:ℚ) + 1/2 ≥ (l:ℚ)) := by
      have : (t:ℚ) + 1 ≤ (l:ℚ) := by exact_mod_cast (show t + 1 ≤ l by omega)
      intro h; linarith
    rw [if_neg hq, if_pos hc]
    have : (t:ℚ) + 1/2 + -((1:ℚ)/2) = ((t : Int) : ℚ) := by ring
    rw [this, asInt_int]
  · have hq : ((t:ℚ) + 1/2 ≥ (l:ℚ)) := by
      have : (l:ℚ) ≤ (t:ℚ) := by exact_mod_cast (show l ≤ t by omega)
      linarith
    rw [if_pos hq, if_neg hc]
    have : (2:ℚ) * (l:ℚ) - ((t:ℚ) + 1/2) + -((1:ℚ)/2) = ((2*l - 1 - t : Int) : ℚ) := by push_cast; ring
    rw [this, asInt_int]

/-- **the translated `utils.symm_pad_1d(l, m)` is the index vector `[symIdx l (k − m)]`, `k < l + 2m`** -/
theorem symm_pad_1d_eq (l m : Nat) (hl : 1 ≤ l) :
    Gen.symm_pad_1d (l : Int) (m : Int) = tab (m + l + m) fun k => symIdx (l:Int) ((k:Int) - (m:Int)) := by
  unfold Gen.symm_pad_1d arange tab
  have hn : ((l:Int) + (m:Int) - -(m:Int)).toNat = m + l + m := by omega
  rw [hn, List.map_map]
  apply List.map_congr_left
  intro k _
  simp only [Function.comp]
  have := reflect_eq_symIdx (-(m:Int) + (k:Int)) (l:Int) (by omega)
  rw [this]
  congr 1; ring

/-- the model's symmetric padding gathers through exactly that vector: `symmPad x m = x[symm_pad_1d(len x, m)]` -/
theorem symmPad_eq_gather {R : Type} [CommRing R] (x : List R) (m : Nat) (hx : 1 ≤ x.length) :
    symmPad x m = (Gen.symm_pad_1d (x.length : Int) (m : Int)).map fun i => getZ x i := by
  rw [symm_pad_1d_eq x.length m hx]
  unfold symmPad padIdx tab
  rw [List.map_map]
  rfl

end WV.C03T
