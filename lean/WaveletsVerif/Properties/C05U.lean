/-
  C05 — back-propagation through the whole J-level ONE-DIMENSIONAL forward transform `DWT1DForward` is the exact adjoint.

  The module applies `AFB1D` level after level to the running low-pass; autograd therefore runs `AFB1D.backward` from the coarsest
  level to the finest, each time with the saved input length of that level (`DWT1DForwardBackward`: the chain rule over the loop
  of the module with the library's hand-written backward at every level).  The induction over the levels is done once for any
  mode in which one level is adjoint (`loop_adjoint`), and instantiated
    * in mode zero for every signal length `N ≥ 1` and all filter lengths `L ≥ 2` (`DWT1D_zero_adjoint`, from `C05.afb_zero_adjoint`),
    * in periodization for every length, odd included, and even `L ≤ N + N % 2` at every level (`DWT1D_per_adjoint`, from
      `C05.afb_per_adjoint`).
  `⟨DWT1DForward x, P⟩ = ⟨x, backward(P)⟩` for every cotangent pyramid `P` of forward shapes.
-/
import WaveletsVerif.Properties.C05D
import WaveletsVerif.Properties.C05P
namespace WV.C05U
open Finset WV WV.C05D WV.C05P
variable {R : Type} [CommRing R]

/-- the chain of `AFB1D.backward` passes: input lengths of the levels finest first, low-pass cotangent, band-pass cotangents -/
def DWT1DForwardBackward (m : Mode) (w0 w1 : List R) : List Nat → List R → List (List R) → Option (List R)
  | [], gl, _ => some gl
  | N :: ns, gl, gh => do
    let g0 ← DWT1DForwardBackward m w0 w1 ns gl gh.tail
    let d ← AFB1D_backward m w0 w1 N [g0] [gh.headD []]
    some (d.getD 0 [])

def dotN (n : Nat) (a b : List R) : R := ∑ k ∈ range n, getN a k * getN b k

/-- `AFB1D.forward` on one channel is the pair of one-filter analyses -/
theorem AFB1D_forward_one (m : Mode) (w0 w1 x lo hi : List R) (h0 : afb1dOne m w0 x = some lo) (h1 : afb1dOne m w1 x = some hi) :
    AFB1D_forward m w0 w1 [x] = some ([lo], [hi]) := by
  unfold AFB1D_forward
  simp only [List.map_cons, List.map_nil]
  rw [afb1dT_one]
  have e0 : alongO .W (afb1dOne m w0) [x] = some [lo] := by simp [alongO, alongWO, h0]
  have e1 : alongO .W (afb1dOne m w1) [x] = some [hi] := by simp [alongO, alongWO, h1]
  rw [e0, e1]
  simp [tab, List.range, List.range.loop]

/-- `AFB1D.backward` on one channel is the synthesis with the analysis buffers followed by the fold / crop -/
theorem AFB1D_backward_one (m : Mode) (w0 w1 g0 g1 d : List R) (N : Nat) (hd : sfb1dCh m w0 w1 g0 g1 = some d) :
    AFB1D_backward m w0 w1 N [g0] [g1] = some [foldCrop m N d] := by
  unfold AFB1D_backward
  simp only [List.map_cons, List.map_nil]
  rw [C10.sfb1dT_single]
  have : sfb1dImg .W m w0 w1 [g0] [g1] = some [d] := by simp [sfb1dImg, List.range, List.range.loop, hd]
  rw [this]
  simp

section generic
variable (m : Mode) (w0 w1 : List R) (Lvl : Nat → Prop) (K : Nat → Nat)

/-- one level is adjoint: what the induction needs from a mode -/
def LevelAdj : Prop :=
  ∀ x : List R, Lvl x.length → ∃ lo hi, afb1dOne m w0 x = some lo ∧ afb1dOne m w1 x = some hi ∧ lo.length = K x.length ∧
    hi.length = K x.length ∧ ∀ g0 g1 : List R, g0.length = K x.length → g1.length = K x.length →
      ∃ d, sfb1dCh m w0 w1 g0 g1 = some d ∧ (foldCrop m x.length d).length = x.length ∧
        dotN (K x.length) lo g0 + dotN (K x.length) hi g1 = dotN x.length x (foldCrop m x.length d)

def shapes : Nat → Nat → List Nat
  | 0, _ => []
  | J+1, N => N :: shapes J (K N)

def LvlsOK : Nat → Nat → Prop
  | 0, _ => True
  | J+1, N => Lvl N ∧ LvlsOK J (K N)

/-- a cotangent pyramid of the shapes a `J`-level transform of a length-`N` signal produces (finest level first) -/
def PyrOK1 : Nat → Nat → List R → List (List R) → Prop
  | 0, N, gl, [] => gl.length = N
  | J+1, N, gl, g1 :: rest => g1.length = K N ∧ PyrOK1 J (K N) gl rest
  | _, _, _, _ => False

/-- inner product of the output pyramid (one channel) with a cotangent pyramid -/
def pdot1 (yl : List R) (yh : List (List (List R))) (gl : List R) (gh : List (List R)) : R :=
  dotN yl.length yl gl + (List.zipWith (fun d g => dotN (d.getD 0 []).length (d.getD 0 []) g) yh gh).sum

/-- **the chain rule over the level loop gives the adjoint of the J-level transform** whenever one level is adjoint -/
theorem loop_adjoint (hA : LevelAdj m w0 w1 Lvl K) : ∀ (J : Nat) (x gl : List R) (gh : List (List R)),
    LvlsOK Lvl K J x.length → PyrOK1 K J x.length gl gh →
    ∃ yl yh dx, DWT1DForward m w0 w1 J [x] = some ([yl], yh) ∧
      DWT1DForwardBackward m w0 w1 (shapes K J x.length) gl gh = some dx ∧ dx.length = x.length ∧
      pdot1 yl yh gl gh = dotN x.length x dx
  | 0, x, gl, gh, _, hp => by
    cases gh with
    | cons b rest => exact absurd hp (by simp [PyrOK1])
    | nil =>
      simp only [PyrOK1] at hp
      exact ⟨x, [], gl, by simp [DWT1DForward], by simp [shapes, DWT1DForwardBackward], hp, by simp [pdot1]⟩
  | J+1, x, gl, gh, hok, hp => by
    cases gh with
    | nil => exact absurd hp (by simp [PyrOK1])
    | cons g1 rest =>
      obtain ⟨hg1, hrest⟩ := hp
      obtain ⟨hl, hokr⟩ := hok
      obtain ⟨lo, hi, e0, e1, llo, lhi, hadj⟩ := hA x hl
      rw [← llo] at hokr hrest
      obtain ⟨yl, yh, g0, hf, hb, lg0, hd⟩ := loop_adjoint hA J lo gl rest hokr hrest
      obtain ⟨d, hs, ld, hid⟩ := hadj g0 g1 (by rw [lg0, llo]) hg1
      refine ⟨yl, [hi] :: yh, foldCrop m x.length d, ?_, ?_, ld, ?_⟩
      · simp only [DWT1DForward]
        rw [AFB1D_forward_one m w0 w1 x lo hi e0 e1]
        simp only [Option.bind_eq_bind, Option.bind_some]
        rw [hf]
        simp
      · simp only [shapes, DWT1DForwardBackward, List.tail_cons, List.headD_cons]
        rw [← llo, hb]
        simp only [Option.bind_eq_bind, Option.bind_some]
        rw [AFB1D_backward_one m w0 w1 g0 g1 d x.length hs]
        simp
      · rw [← hid]
        simp only [pdot1, List.zipWith_cons_cons, List.sum_cons, List.getD_cons_zero] at hd ⊢
        rw [lhi, ← llo, ← hd]
        ring

end generic

/-! ### mode zero: every length, every filter length -/

theorem levelAdj_zero (w0 w1 : List R) (hL : 2 ≤ w0.length) (hw : w1.length = w0.length) :
    LevelAdj .zero w0 w1 (fun N => 1 ≤ N) (fun N => dwtCoeffLen N w0.length) := by
  intro x hN
  refine ⟨_, _, C05.afb1dOne_zero_val w0 x hL hN, C05.afb1dOne_zero_val w1 x (by omega) hN,
    C05.afbZeroVal_length w0 x hL hN, by rw [C05.afbZeroVal_length w1 x (by omega) hN, hw], ?_⟩
  intro g0 g1 h0' h1'
  have h0 : g0.length = dwtCoeffLen x.length w0.length := h0'
  have h1 : g1.length = dwtCoeffLen x.length w0.length := h1'
  obtain ⟨lo, hi, d, e0, e1, es, hid⟩ := C05.afb_zero_adjoint w0 w1 x g0 g1 hL hw hN h0 (by rw [h1, h0])
  rw [C05.afb1dOne_zero_val w0 x hL hN] at e0
  rw [C05.afb1dOne_zero_val w1 x (by omega) hN] at e1
  injection e0 with e0; injection e1 with e1
  subst e0 e1
  have hK : 1 ≤ g0.length ∧ x.length ≤ 2 * g0.length + 2 - w0.length := by rw [h0]; unfold dwtCoeffLen; omega
  have hsz := sfb_zero_val w0 w1 g0 g1 hL hw hK.1 (by rw [h1, h0]) (by omega)
  rw [hsz] at es
  injection es with es
  subst es
  refine ⟨_, hsz, ?_, ?_⟩
  · rw [foldCrop_zero _ _ (by rw [Sz_length]; omega), List.length_take, Sz_length]; omega
  · unfold dotN
    rw [h0, h1] at hid
    exact hid

/-- **back-propagation through the J-level `DWT1DForward` in mode zero is the exact adjoint**: every J, every signal length `N ≥ 1`,
all filter lengths `L ≥ 2`, every cotangent pyramid of forward shapes -/
theorem DWT1D_zero_adjoint (w0 w1 : List R) (hL : 2 ≤ w0.length) (hw : w1.length = w0.length) (J : Nat) (x gl : List R)
    (gh : List (List R)) (hN : 1 ≤ x.length) (hp : PyrOK1 (fun N => dwtCoeffLen N w0.length) J x.length gl gh) :
    ∃ yl yh dx, DWT1DForward .zero w0 w1 J [x] = some ([yl], yh) ∧
      DWT1DForwardBackward .zero w0 w1 (shapes (fun N => dwtCoeffLen N w0.length) J x.length) gl gh = some dx ∧ dx.length = x.length ∧
      pdot1 yl yh gl gh = dotN x.length x dx := by
  have hok : ∀ (J N : Nat), 1 ≤ N → LvlsOK (fun N => 1 ≤ N) (fun N => dwtCoeffLen N w0.length) J N := by
    intro J
    induction J with
    | zero => intro N _; trivial
    | succ J ih => intro N hN; exact ⟨hN, ih _ (by show 1 ≤ dwtCoeffLen N w0.length; unfold dwtCoeffLen; omega)⟩
  exact loop_adjoint .zero w0 w1 _ _ (levelAdj_zero w0 w1 hL hw) J x gl gh (hok J _ hN) hp

/-- non-vacuity: two levels on a length-5 signal with 4-tap filters: band lengths 4 and 3, low-pass length 3 -/
example : PyrOK1 (fun N => dwtCoeffLen N 4) 2 5 ([1, 2, 3] : List Int) [[1, 2, 3, 4], [5, 6, 7]] := by
  simp [PyrOK1, dwtCoeffLen]

/-! ### periodization: every length, odd included, filters that fit the even-extended level -/

theorem levelAdj_per (h0 h1 : List R) (hL : 2 ≤ h0.length) (hLe : h0.length % 2 = 0) (hh1 : h1.length = h0.length) :
    LevelAdj .periodization h0.reverse h1.reverse (fun N => 1 ≤ N ∧ h0.length ≤ N + N % 2) (fun N => (N + N % 2) / 2) := by
  intro x hx
  obtain ⟨hN, hfit⟩ := hx
  have v0 := C01.afb1dOne_per_eq_dwt_partial_all h0 x hLe hL hN hfit
  have v1 := C01.afb1dOne_per_eq_dwt_partial_all h1 x (by omega) (by omega) hN (by omega)
  refine ⟨_, _, v0, v1, Ap_length h0 x, Ap_length h1 x, ?_⟩
  intro g0 g1 l0' l1'
  have l0 : g0.length = (x.length + x.length % 2) / 2 := l0'
  have l1 : g1.length = (x.length + x.length % 2) / 2 := l1'
  obtain ⟨lo, hi, d, e0, e1, es, hid⟩ := C05.afb_per_adjoint h0 h1 x g0 g1 hL hLe hh1 hN hfit l0 (by rw [l1, l0])
  rw [v0] at e0; rw [v1] at e1
  injection e0 with e0; injection e1 with e1
  subst e0 e1
  have hsv := C10.sfb1dCh_per_eq_idwt_partial h0.reverse h1.reverse g0 g1 (by simpa using hL) (by simp [hh1]) (by omega)
    (by rw [l1, l0]) (by simp; omega)
  rw [hsv] at es
  injection es with es
  subst es
  refine ⟨_, hsv, ?_, ?_⟩
  · apply foldCrop_per_length
    have : (Spec.idwt .periodization h0.reverse h1.reverse g0 g1).length = 2 * g0.length := by simp [Spec.idwt]
    rw [this, l0]; omega
  · unfold dotN
    rw [l0, l1] at hid
    rw [← hid]

/-- **back-propagation through the J-level `DWT1DForward` in periodization mode is the exact adjoint**: every J, every signal
length (odd included), even filter lengths that fit the even-extended signal at every level -/
theorem DWT1D_per_adjoint (h0 h1 : List R) (hL : 2 ≤ h0.length) (hLe : h0.length % 2 = 0) (hh1 : h1.length = h0.length) (J : Nat)
    (x gl : List R) (gh : List (List R))
    (hok : LvlsOK (fun N => 1 ≤ N ∧ h0.length ≤ N + N % 2) (fun N => (N + N % 2) / 2) J x.length)
    (hp : PyrOK1 (fun N => (N + N % 2) / 2) J x.length gl gh) :
    ∃ yl yh dx, DWT1DForward .periodization h0.reverse h1.reverse J [x] = some ([yl], yh) ∧
      DWT1DForwardBackward .periodization h0.reverse h1.reverse (shapes (fun N => (N + N % 2) / 2) J x.length) gl gh = some dx ∧
      dx.length = x.length ∧ pdot1 yl yh gl gh = dotN x.length x dx :=
  loop_adjoint .periodization h0.reverse h1.reverse _ _ (levelAdj_per h0 h1 hL hLe hh1) J x gl gh hok hp

/-- non-vacuity: two levels on a length-7 signal with 4-tap filters in periodization: levels of length 7 and 4 -/
example : LvlsOK (fun N => 1 ≤ N ∧ 4 ≤ N + N % 2) (fun N => (N + N % 2) / 2) 2 7 := by
  simp [LvlsOK]

end WV.C05U
