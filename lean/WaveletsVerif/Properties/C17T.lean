/-
  C17 — "its inverse is its transpose, so applying the inverse transform to a cotangent equals back-propagating it",
  in two dimensions and for the whole J-level pyramid.

  One level, one channel, periodization, even sides not shorter than the filters:
    * the model of `AFB2D.backward` IS the model of `SFB2D.forward` on the same buffers (`backprop_eq_inverse`): both
      synthesise columns then rows, and the fold/crop of the backward pass is the identity on an image that already has
      the saved size (`foldCrop2_id`);
    * hence, with `C05P.AFB2D_per_adjoint`, `⟨AFB2D.forward x, g⟩ = ⟨x, SFB2D.forward g⟩` for every image and every
      cotangent (`inverse_is_transpose`) — for ANY even-length filters: orthonormality is what makes this transpose the
      inverse (C02K / C17K), not what makes it the transpose.
  J levels: `⟨DWTForward x, P⟩ = ⟨x, DWTInverse P⟩` for every cotangent pyramid `P` of forward shapes (`DWT2D_inverse_is_transpose`),
  by induction over the levels (the coarsest levels are synthesised first; no un-padding occurs at even sizes).
-/
import WaveletsVerif.Properties.C17K
import WaveletsVerif.Properties.C05P
namespace WV.C17T
open Finset WV WV.C04 WV.C04Q WV.C06 WV.C05D WV.C05P WV.C17K
variable {R : Type} [CommRing R]

theorem foldCrop_id (m : Mode) (N : Nat) (d : List R) (h : d.length ≤ N) : foldCrop m N d = d := by
  unfold foldCrop
  rw [if_neg (by omega)]

/-- the fold / crop of the backward pass does nothing to an image that already has the saved size -/
theorem foldCrop2_id (m : Mode) (d : Img R) (H W : Nat) (hd : Rect d H W) (hH : 1 ≤ H) (hW : 1 ≤ W) : foldCrop2 m H W d = d := by
  have e : foldCrop2 m H W d = alongW (foldCrop m W) (alongH (foldCrop m H) d) := rfl
  have e1 : alongH (foldCrop m H) d = d := by
    rw [alongH_get' (foldCrop m H) d H H W hd hH hW (fun c hc => by rw [foldCrop_id m H c (by omega), hc])]
    conv_rhs => rw [rect_eq_tab2 d H W hd]
    apply tab2_congr; intro i hi j _
    rw [foldCrop_id m H _ (by simp [col, hd.1]), get2_eq_getN_col d H W hd i j hi]
  rw [e, e1]
  unfold alongW
  conv_rhs => rw [← List.map_id d]
  apply List.map_congr_left
  intro r hr
  rw [foldCrop_id m W r (by rw [hd.2 r hr]), id]

/-- `AFB2D.backward` is `SFB2D.forward` on the same buffers followed by the fold / crop to the saved size -/
theorem AFB2D_backward_eq_map (m : Mode) (wr0 wr1 wc0 wc1 : List R) (H W : Nat) (low : List (Img R)) (highs : List (List (Img R))) :
    AFB2D_backward m wr0 wr1 wc0 wc1 H W low highs
      = (SFB2D_forward m wr0 wr1 wc0 wc1 low highs).map (List.map (foldCrop2 m H W)) := by
  unfold AFB2D_backward SFB2D_forward
  simp only [Option.bind_eq_bind]
  cases sfb1dT .H m wc0 wc1 low (highs.map fun b => b.getD 0 []) with
  | none => rfl
  | some lo =>
    simp only [Option.bind_some]
    cases sfb1dT .H m wc0 wc1 (highs.map fun b => b.getD 1 []) (highs.map fun b => b.getD 2 []) with
    | none => rfl
    | some hi =>
      simp only [Option.bind_some]
      cases sfb1dT .W m wr0 wr1 lo hi <;> rfl

section onelevel
variable (wr0 wr1 wc0 wc1 : List R) (hLr : 2 ≤ wr0.length) (hLre : wr0.length % 2 = 0) (hwr : wr1.length = wr0.length)
    (hLc : 2 ≤ wc0.length) (hLce : wc0.length % 2 = 0) (hwc : wc1.length = wc0.length) (H W : Nat)
    (hHe : H % 2 = 0) (hWe : W % 2 = 0) (hfH : wc0.length ≤ H) (hfW : wr0.length ≤ W)

include hLr hwr hLc hwc hHe hWe hfH hfW in
/-- the value of the model of `SFB2D.forward` in periodization on one channel: column synthesis of (ll, lh) and of (hl, hh),
then row synthesis; the result has the size `H × W` -/
theorem SFB2D_forward_per_val (gll glh ghl ghh : Img R)
    (r1 : Rect gll (H / 2) (W / 2)) (r2 : Rect glh (H / 2) (W / 2)) (r3 : Rect ghl (H / 2) (W / 2)) (r4 : Rect ghh (H / 2) (W / 2)) :
    SFB2D_forward .periodization wr0.reverse wr1.reverse wc0.reverse wc1.reverse [gll] [[glh, ghl, ghh]]
      = some [dxFullP wr0 wr1 wc0 wc1 H W gll glh ghl ghh] ∧ Rect (dxFullP wr0 wr1 wc0 wc1 H W gll glh ghl ghh) H W := by
  have eH : (H + H % 2) / 2 = H / 2 := by omega
  have eW : (W + W % 2) / 2 = W / 2 := by omega
  have hKh : 1 ≤ H / 2 := by omega
  have hKw : 1 ≤ W / 2 := by omega
  have hSc := sfb_per_val wc0 wc1 hLc hwc (H / 2) hKh (by omega)
  have hSr := sfb_per_val wr0 wr1 hLr hwr (W / 2) hKw (by omega)
  have lSc : ∀ a b : List R, a.length = H / 2 → (Ip wc0.reverse wc1.reverse a b).length = 2 * (H / 2) :=
    fun a b ha => by rw [Ip_length, ha]
  have lSr : ∀ a b : List R, a.length = W / 2 → (Ip wr0.reverse wr1.reverse a b).length = 2 * (W / 2) :=
    fun a b ha => by rw [Ip_length, ha]
  constructor
  · unfold SFB2D_forward
    simp only [List.map_cons, List.map_nil, List.getD_cons_zero, List.getD_cons_succ]
    rw [C10.sfb1dT_single, C10.sfb1dT_single,
      sfb1dImg_H_gen .periodization _ _ _ _ _ hSc lSc gll glh _ r1 r2 hKh hKw,
      sfb1dImg_H_gen .periodization _ _ _ _ _ hSc lSc ghl ghh _ r3 r4 hKh hKw]
    simp only [Option.map_some, Option.bind_eq_bind, Option.bind_some]
    rw [C10.sfb1dT_single, sfb1dImg_W_gen .periodization _ _ _ _ _ hSr lSr _ _ _ (colzip_rect _ _ _ _ _) (colzip_rect _ _ _ _ _)]
    simp only [Option.map_some]
    unfold dxFullP
    simp only [eH, eW]
  · unfold dxFullP
    simp only [eH, eW]
    have h1 : 2 * (H / 2) = H := by omega
    have h2 : 2 * (W / 2) = W := by omega
    have := rowzip_rect (Ip wr0.reverse wr1.reverse) (2 * (H / 2)) (2 * (W / 2))
      (colzip (Ip wc0.reverse wc1.reverse) (2 * (H / 2)) (W / 2) gll glh) (colzip (Ip wc0.reverse wc1.reverse) (2 * (H / 2)) (W / 2) ghl ghh)
    rw [h1, h2] at this
    rw [h1, h2]
    exact this

include hLr hwr hLc hwc hHe hWe hfH hfW in
/-- **back-propagating a cotangent through one level IS applying the inverse level to it** (same buffers, even sizes) -/
theorem backprop_eq_inverse (gll glh ghl ghh : Img R)
    (r1 : Rect gll (H / 2) (W / 2)) (r2 : Rect glh (H / 2) (W / 2)) (r3 : Rect ghl (H / 2) (W / 2)) (r4 : Rect ghh (H / 2) (W / 2)) :
    AFB2D_backward .periodization wr0.reverse wr1.reverse wc0.reverse wc1.reverse H W [gll] [[glh, ghl, ghh]]
      = SFB2D_forward .periodization wr0.reverse wr1.reverse wc0.reverse wc1.reverse [gll] [[glh, ghl, ghh]] := by
  obtain ⟨hv, hr⟩ := SFB2D_forward_per_val wr0 wr1 wc0 wc1 hLr hwr hLc hwc H W hHe hWe hfH hfW gll glh ghl ghh r1 r2 r3 r4
  rw [AFB2D_backward_eq_map, hv]
  simp only [Option.map_some, List.map_cons, List.map_nil]
  rw [foldCrop2_id .periodization _ H W hr (by omega) (by omega)]

include hLr hLre hwr hLc hLce hwc hHe hWe hfH hfW in
/-- **one level: the inverse is the transpose of the forward transform**: `⟨AFB2D.forward x, g⟩ = ⟨x, SFB2D.forward g⟩` -/
theorem inverse_is_transpose (x gll glh ghl ghh : Img R) (hx : Rect x H W)
    (r1 : Rect gll (H / 2) (W / 2)) (r2 : Rect glh (H / 2) (W / 2)) (r3 : Rect ghl (H / 2) (W / 2)) (r4 : Rect ghh (H / 2) (W / 2)) :
    ∃ ll lh hl hh y, AFB2D_forward .periodization wr0.reverse wr1.reverse wc0.reverse wc1.reverse [x] = some ([ll], [[lh, hl, hh]]) ∧
      SFB2D_forward .periodization wr0.reverse wr1.reverse wc0.reverse wc1.reverse [gll] [[glh, ghl, ghh]] = some [y] ∧
      Rect y H W ∧ Rect ll (H / 2) (W / 2) ∧ Rect lh (H / 2) (W / 2) ∧ Rect hl (H / 2) (W / 2) ∧ Rect hh (H / 2) (W / 2) ∧
      dot2 (H / 2) (W / 2) ll gll + dot2 (H / 2) (W / 2) lh glh + dot2 (H / 2) (W / 2) hl ghl + dot2 (H / 2) (W / 2) hh ghh
        = dot2 H W x y := by
  have eH : (H + H % 2) / 2 = H / 2 := by omega
  have eW : (W + W % 2) / 2 = W / 2 := by omega
  have hH : 1 ≤ H := by omega
  have hW : 1 ≤ W := by omega
  obtain ⟨ll, lh, hl, hh, dx, hf, hb, hd⟩ := AFB2D_per_adjoint wr0 wr1 wc0 wc1 hLr hLre hwr hLc hLce hwc H W hH hW (by omega) (by omega)
    x gll glh ghl ghh hx (by rw [eH, eW]; exact r1) (by rw [eH, eW]; exact r2) (by rw [eH, eW]; exact r3) (by rw [eH, eW]; exact r4)
  obtain ⟨hv, hr⟩ := SFB2D_forward_per_val wr0 wr1 wc0 wc1 hLr hwr hLc hwc H W hHe hWe hfH hfW gll glh ghl ghh r1 r2 r3 r4
  rw [backprop_eq_inverse wr0 wr1 wc0 wc1 hLr hwr hLc hwc H W hHe hWe hfH hfW gll glh ghl ghh r1 r2 r3 r4, hv] at hb
  simp only [Option.some.injEq, List.cons.injEq, and_true] at hb
  subst hb
  rw [eH, eW] at hd
  -- shapes of the forward bands
  have hfv := C05P.AFB2D_forward_val wr0 wr1 wc0 wc1 hLr hLre hwr hLc hLce hwc H W hH hW (by omega) (by omega) x hx
  rw [hfv] at hf
  simp only [Option.some.injEq, Prod.mk.injEq, List.cons.injEq, and_true] at hf
  obtain ⟨e1, e2, e3, e4⟩ := hf
  have rW : ∀ w : List R, Rect (alongW (Ap w) x) H (W / 2) := by
    intro w
    rw [alongW_get' (Ap w) x H W _ hx (fun c hc => by rw [Ap_length, hc, eW])]
    exact tab2_rect _ _ _
  have rB : ∀ (wc wr : List R), Rect (alongH (Ap wc) (alongW (Ap wr) x)) (H / 2) (W / 2) := by
    intro wc wr
    rw [alongH_get' (Ap wc) _ H (H / 2) (W / 2) (rW wr) hH (by omega) (fun c hc => by rw [Ap_length, hc, eH])]
    exact tab2_rect _ _ _
  exact ⟨ll, lh, hl, hh, _, hfv.trans (by rw [e1, e2, e3, e4]), hv, hr, by rw [← e1]; exact rB _ _, by rw [← e2]; exact rB _ _,
    by rw [← e3]; exact rB _ _, by rw [← e4]; exact rB _ _, hd⟩

end onelevel

/-! ### the whole pyramid -/

/-- inner product of two images of the shape of the first -/
def idot (x y : Img R) : R := dot2 x.length x.width x y

theorem idot_rect (x y : Img R) (H W : Nat) (hx : Rect x H W) (hH : 1 ≤ H) : idot x y = dot2 H W x y := by
  unfold idot; rw [hx.1, rect_width x H W hx hH]

/-- a cotangent pyramid of the shapes a `J`-level forward transform of an `H × W` image produces (finest level first) -/
def PyrRect : Nat → Nat → Nat → Img R → List (List (Img R)) → Prop
  | 0, H, W, gl, [] => Rect gl H W
  | J+1, H, W, gl, b :: rest =>
    (∃ glh ghl ghh, b = [glh, ghl, ghh] ∧ Rect glh (H / 2) (W / 2) ∧ Rect ghl (H / 2) (W / 2) ∧ Rect ghh (H / 2) (W / 2)) ∧
      PyrRect J (H / 2) (W / 2) gl rest
  | _, _, _, _, _ => False

/-- inner product of an output pyramid (one channel) with a cotangent pyramid -/
def pdot (yl : Img R) (yh : List (List (List (Img R)))) (gl : Img R) (gh : List (List (Img R))) : R :=
  idot yl gl + (List.zipWith (fun lvl b => idot ((lvl.getD 0 []).getD 0 []) (b.getD 0 []) + idot ((lvl.getD 0 []).getD 1 []) (b.getD 1 [])
    + idot ((lvl.getD 0 []).getD 2 []) (b.getD 2 [])) yh gh).sum

/-- **the J-level inverse is the transpose of the J-level forward transform** (periodization, every level with even sides
not shorter than the filters, any even-length filters): `⟨DWTForward x, P⟩ = ⟨x, DWTInverse P⟩` for every image and every
cotangent pyramid `P` of forward shapes -/
theorem DWT2D_inverse_is_transpose (hr0 hr1 hc0 hc1 : List R) (hLr : 2 ≤ hr0.length) (hLre : hr0.length % 2 = 0) (hwr : hr1.length = hr0.length)
    (hLc : 2 ≤ hc0.length) (hLce : hc0.length % 2 = 0) (hwc : hc1.length = hc0.length) :
    ∀ (J : Nat) (x : Img R) (H W : Nat) (gl : Img R) (gh : List (List (Img R))), Rect x H W → 1 ≤ H → 1 ≤ W →
      LevelsOK2 hc0.length hr0.length J H W → PyrRect J H W gl gh →
      ∃ yl yh y, DWTForward .periodization hc0.reverse hc1.reverse hr0.reverse hr1.reverse J [x] = some ([yl], yh) ∧
        DWTInverse .periodization hc0.reverse hc1.reverse hr0.reverse hr1.reverse [gl] (gh.map fun b => some [b]) = some [y] ∧
        Rect y H W ∧ pdot yl yh gl gh = idot x y
  | 0, x, H, W, gl, gh, hx, hH, _, _, hp => by
    cases gh with
    | nil =>
      refine ⟨x, [], gl, by simp [DWTForward], by simp [DWTInverse], hp, ?_⟩
      simp [pdot]
    | cons b rest => exact absurd hp (by simp [PyrRect])
  | J+1, x, H, W, gl, gh, hx, hH, hW, hok, hp => by
    cases gh with
    | nil => exact absurd hp (by simp [PyrRect])
    | cons b rest =>
      obtain ⟨⟨glh, ghl, ghh, rfl, r2, r3, r4⟩, hrest⟩ := hp
      obtain ⟨hHe, hWe, hfH, hfW, hokr⟩ := hok
      have hH2 : 1 ≤ H / 2 := by omega
      have hW2 : 1 ≤ W / 2 := by omega
      -- the forward level
      have hfv := C05P.AFB2D_forward_val hr0 hr1 hc0 hc1 hLr hLre hwr hLc hLce hwc H W hH hW (by omega) (by omega) x hx
      have eH : (H + H % 2) / 2 = H / 2 := by omega
      have eW : (W + W % 2) / 2 = W / 2 := by omega
      have rW : ∀ w : List R, Rect (alongW (Ap w) x) H (W / 2) := by
        intro w
        rw [alongW_get' (Ap w) x H W _ hx (fun c hc => by rw [Ap_length, hc, eW])]
        exact tab2_rect _ _ _
      have rll : Rect (alongH (Ap hc0) (alongW (Ap hr0) x)) (H / 2) (W / 2) := by
        rw [alongH_get' (Ap hc0) _ H (H / 2) (W / 2) (rW hr0) hH (by omega) (fun c hc => by rw [Ap_length, hc, eH])]
        exact tab2_rect _ _ _
      -- the coarser levels
      obtain ⟨yl, yh, y', hfr, hir, ry', hdr⟩ := DWT2D_inverse_is_transpose hr0 hr1 hc0 hc1 hLr hLre hwr hLc hLce hwc J _ (H / 2) (W / 2)
        gl rest rll hH2 hW2 hokr hrest
      -- this level
      obtain ⟨ll, lh, hl, hh, y, hf, hi, ry, rl1, rl2, rl3, rl4, hd⟩ := inverse_is_transpose hr0 hr1 hc0 hc1 hLr hLre hwr hLc hLce hwc H W
        hHe hWe hfH hfW x y' glh ghl ghh hx ry' r2 r3 r4
      rw [hfv] at hf
      simp only [Option.some.injEq, Prod.mk.injEq, List.cons.injEq, and_true] at hf
      obtain ⟨e1, e2, e3, e4⟩ := hf
      refine ⟨yl, [[lh, hl, hh]] :: yh, y, ?_, ?_, ry, ?_⟩
      · simp only [DWTForward]
        rw [hfv]
        simp only [Option.bind_eq_bind, Option.bind_some]
        rw [hfr]
        simp only [Option.bind_some]
        rw [e2, e3, e4]
      · unfold DWTInverse at hir ⊢
        rw [List.map_cons, List.reverse_cons, List.foldlM_append, hir]
        simp only [List.foldlM_cons, List.foldlM_nil, Option.bind_eq_bind, Option.bind_some]
        have hstep : DWTInverse_step .periodization hc0.reverse hc1.reverse hr0.reverse hr1.reverse [y'] (some [[glh, ghl, ghh]])
            = SFB2D_forward .periodization hr0.reverse hr1.reverse hc0.reverse hc1.reverse [y'] [[glh, ghl, ghh]] := by
          unfold DWTInverse_step
          simp only [List.headD_cons, ry'.1, r2.1, rect_width _ _ _ ry' hH2, rect_width _ _ _ r2 hH2, gt_iff_lt, lt_self_iff_false, if_false]
        rw [hstep, hi]
        rfl
      · unfold pdot
        simp only [List.zipWith_cons_cons, List.sum_cons, List.getD_cons_zero, List.getD_cons_succ]
        unfold pdot at hdr
        rw [idot_rect lh _ _ _ rl2 hH2, idot_rect hl _ _ _ rl3 hH2, idot_rect hh _ _ _ rl4 hH2, idot_rect x _ H W hx hH, ← hd]
        have : idot yl gl + (List.zipWith (fun lvl b => idot ((lvl.getD 0 []).getD 0 []) (b.getD 0 []) + idot ((lvl.getD 0 []).getD 1 []) (b.getD 1 [])
            + idot ((lvl.getD 0 []).getD 2 []) (b.getD 2 [])) yh rest).sum = dot2 (H / 2) (W / 2) ll y' := by
          rw [hdr, ← e1, idot_rect _ _ _ _ rll hH2]
        rw [← this]
        ring

/-- the shape hypothesis is satisfiable: a one-level cotangent pyramid for a 4 × 4 image -/
example : PyrRect 1 4 4 ([[1, 2], [3, 4]] : Img Int) [[[[1, 0], [0, 1]], [[2, 0], [0, 2]], [[0, 3], [3, 0]]]] := by
  refine ⟨⟨_, _, _, rfl, ?_, ?_, ?_⟩, ?_⟩ <;> (constructor <;> simp)

end WV.C17T
