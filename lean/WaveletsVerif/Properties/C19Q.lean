/-
  C19 — the non-separable SYNTHESIS bank equals the separable one in periodization mode, every band size and every filter
  lengths ≥ 2 (filters longer than the reconstruction included).

  `sfb2d_nonsep` adds four 2-D transposed convolutions with the kernels `np.outer(gc, gr)`, folds the wrap-around rows and
  columns, crops and rolls both axes; `SFB2D.forward` (= `sfb2d`) synthesises the columns of the two band pairs (transposed
  convolution, fold, crop, roll) and then the rows.  With `A g = roll ∘ crop ∘ fold ∘ convTranspose g` (gather-linear, hence
  additive) both are `Σ_k alongW (A gr_k) (alongH (A gc_k) band_k)` over the four bands.
-/
import WaveletsVerif.Properties.C19P
import WaveletsVerif.Properties.C19S
namespace WV.C19Q
open Finset WV WV.C04 WV.C04Q WV.C03P WV.GLA WV.C19N WV.C19P WV.C05D
variable {R : Type} [CommRing R]

/-! ### more gather-linear stages, additivity -/

theorem GL.add {F : List R → List R} {n m : Nat} (hF : GL F n m) (a b : List R) (ha : a.length = n) (hb : b.length = n) :
    F (vadd a b) = vadd (F a) (F b) := by
  have la := GL.length hF a ha
  obtain ⟨K, coef, idx, hidx, hFe⟩ := hF
  have hab : (vadd a b).length = n := by simp [vadd, ha]
  rw [hFe _ hab]
  unfold vadd
  rw [la]
  apply tab_ext rfl; intro i hi
  rw [hFe a ha, hFe b hb, getN_tab, getN_tab, if_pos hi, if_pos hi, ← Finset.sum_add_distrib]
  apply Finset.sum_congr rfl; intro j hj
  have hj' : j < K := by simpa using hj
  have := hidx i hi j hj'
  show coef i j * getN (vadd a b) (idx i j) = _
  rw [getN_vadd _ _ _ (by omega)]; ring

theorem GL_convTFull (w : List R) (n : Nat) : GL (fun g : List R => convTFull w g) n (2*(n-1) + w.length) := by
  refine ⟨n, fun i k => getZ w ((i:Int) - 2*k), fun _ k => k, fun _ _ k hk => hk, ?_⟩
  intro g hg
  show convTFull w g = _
  unfold convTFull
  rw [hg]
  apply tab_ext rfl; intro i _
  rw [sumN_eq]
  apply Finset.sum_congr rfl; intro k _
  ring

theorem GL_rollPy (s : Int) (n : Nat) (hn : 1 ≤ n) : GL (fun c : List R => rollPy c s) n n := by
  apply GL_gather _ n n hn (fun _ => true) (fun i => rollIdx n s i)
  · intro c hc
    show rollPy c s = _
    refine (list_eq_tab_getD _ n 0 (by rw [rollPy_length', hc])).trans ?_
    apply tab_ext rfl; intro i hi
    rw [getD_rollPy c s 0 i (by omega), hc]
    rfl
  · intro i hi _; exact rollIdx_lt n s i hi

theorem iadd_rect (a b : Img R) (H W : Nat) (ha : Rect a H W) (hb : Rect b H W) :
    iadd a b = tab2 H W fun i j => get2 a i j + get2 b i j := by
  rw [rect_eq_tab2 a H W ha, rect_eq_tab2 b H W hb, iadd_tab2]
  apply tab2_congr; intro i hi j hj
  rw [C19.get2_tab2 _ _ _ _ _ hi hj, C19.get2_tab2 _ _ _ _ _ hi hj]

theorem alongW_iadd {F : List R → List R} {n m : Nat} (hF : GL F n m) (a b : Img R) (H : Nat) (ha : Rect a H n) (hb : Rect b H n) :
    alongW F (iadd a b) = iadd (alongW F a) (alongW F b) := by
  have rab : Rect (iadd a b) H n := by rw [iadd_rect a b H n ha hb]; exact tab2_rect _ _ _
  rw [iadd_rect _ _ H m (GL_alongW_rect hF a H ha) (GL_alongW_rect hF b H hb)]
  rw [alongW_get' F _ H n m rab (fun c hc => GL.length hF c hc)]
  apply tab2_congr; intro i hi j hj
  have e : (iadd a b).getD i [] = vadd (a.getD i []) (b.getD i []) := by
    unfold iadd; rw [getD_tab, ha.1, if_pos hi]
  rw [e, GL.add hF _ _ (getD_row_length a H n ha i hi) (getD_row_length b H n hb i hi)]
  rw [getN_vadd _ _ _ (by rw [GL.length hF _ (getD_row_length a H n ha i hi)]; exact hj)]
  rw [alongW_get' F a H n m ha (fun c hc => GL.length hF c hc), alongW_get' F b H n m hb (fun c hc => GL.length hF c hc)]
  rw [C19.get2_tab2 _ _ _ _ _ hi hj, C19.get2_tab2 _ _ _ _ _ hi hj]

theorem alongH_iadd {F : List R → List R} {n m : Nat} (hF : GL F n m) (a b : Img R) (W : Nat) (ha : Rect a n W) (hb : Rect b n W)
    (hn : 1 ≤ n) (hW : 1 ≤ W) :
    alongH F (iadd a b) = iadd (alongH F a) (alongH F b) := by
  have rab : Rect (iadd a b) n W := by rw [iadd_rect a b n W ha hb]; exact tab2_rect _ _ _
  rw [iadd_rect _ _ m W (GL_alongH_rect hF a W ha hn hW) (GL_alongH_rect hF b W hb hn hW)]
  rw [alongH_get' F _ n m W rab hn hW (fun c hc => GL.length hF c hc)]
  apply tab2_congr; intro i hi j hj
  have e : col (iadd a b) j = vadd (col a j) (col b j) := by
    rw [iadd_rect a b n W ha hb, col_tab2 _ _ _ j hj]
    unfold vadd
    have : (col a j).length = n := by simp [col, ha.1]
    rw [this]
    apply tab_ext rfl; intro t ht
    unfold col
    rw [getN_tab, getN_tab, ha.1, hb.1, if_pos ht, if_pos ht]
  rw [e, GL.add hF _ _ (by simp [col, ha.1]) (by simp [col, hb.1])]
  rw [getN_vadd _ _ _ (by rw [GL.length hF _ (by simp [col, ha.1])]; exact hi)]
  rw [alongH_get' F a n m W ha hn hW (fun c hc => GL.length hF c hc), alongH_get' F b n m W hb hn hW (fun c hc => GL.length hF c hc)]
  rw [C19.get2_tab2 _ _ _ _ _ hi hj, C19.get2_tab2 _ _ _ _ _ hi hj]

/-- Python `roll` on the list of rows is the 1-D roll along the columns -/
theorem rollRows_eq (y : Img R) (Mh Mw : Nat) (hy : Rect y Mh Mw) (hMh : 1 ≤ Mh) (hMw : 1 ≤ Mw) (s : Int) :
    rollPy y s = alongH (fun c => rollPy c s) y := by
  rw [alongH_get' _ y Mh Mh Mw hy hMh hMw (fun c hc => by rw [rollPy_length', hc])]
  refine (list_eq_tab_getD _ Mh [] (by rw [rollPy_length', hy.1])).trans ?_
  unfold tab2
  apply tab_ext rfl; intro i hi
  rw [getD_rollPy y s [] i (by rw [hy.1]; exact hi), hy.1]
  have hidx := rollIdx_lt Mh s i hi
  refine (list_eq_tab_getD _ Mw 0 (getD_row_length y Mh Mw hy _ hidx)).trans ?_
  apply tab_ext rfl; intro j hj
  have hcl : (col y j).length = Mh := by simp [col, hy.1]
  show _ = getN (rollPy (col y j) s) i
  unfold getN
  rw [getD_rollPy (col y j) s 0 i (by rw [hcl]; exact hi), hcl]
  unfold col
  rw [getD_tab, hy.1, if_pos hidx]
  rfl


/-! ### one band's 2-D transposed convolution, axis by axis -/

theorem getN_convTFull (w g : List R) (i : Nat) (hi : i < 2*(g.length-1) + w.length) :
    getN (convTFull w g) i = ∑ k ∈ range g.length, getN g k * getZ w ((i:Int) - 2*k) := by
  unfold convTFull
  rw [getN_tab, if_pos hi, sumN_eq]

theorem convT2Full_outer_sep (gc gr : List R) (band : Img R) (Kh Kw : Nat) (hb : Rect band Kh Kw) (hKh : 1 ≤ Kh) (hKw : 1 ≤ Kw)
    (hLy : 1 ≤ gc.length) (hLx : 1 ≤ gr.length) :
    convT2Full (outer gc gr) band = alongH (fun c => convTFull gc c) (alongW (fun c => convTFull gr c) band) := by
  have gC := GL_convTFull gc Kh
  have gR := GL_convTFull gr Kw
  rw [C19S.convT2Full_outer gc gr band Kh Kw hb hKh hLy hLx]
  have rY := GL_alongW_rect gR band Kh hb
  rw [alongH_get' _ _ Kh (2*(Kh-1) + gc.length) _ rY hKh (by omega) (fun c hc => GL.length gC c hc)]
  apply tab2_congr; intro a ha b hb'
  have hcol : col (alongW (fun c => convTFull gr c) band) b = tab Kh fun t => getN (convTFull gr (band.getD t [])) b := by
    rw [alongW_get' _ band Kh Kw _ hb (fun c hc => GL.length gR c hc), col_tab2 _ _ _ b hb']
  rw [hcol, getN_convTFull _ _ a (by simp; exact ha)]
  simp only [length_tab]
  apply Finset.sum_congr rfl; intro i hi
  have hi' : i < Kh := by simpa using hi
  rw [getN_tab, if_pos hi']
  have hrow : (band.getD i []).length = Kw := getD_row_length band Kh Kw hb i hi'
  rw [getN_convTFull _ _ b (by rw [hrow]; exact hb'), hrow, Finset.sum_mul]
  apply Finset.sum_congr rfl; intro j _
  show get2 band i j * _ = get2 band i j * _ * _
  ring

/-! ### the one-dimensional periodization synthesis of the model -/

/-- roll ∘ crop ∘ wrap-around fold of a full transposed convolution for `n` coefficients and filter length `L` -/
def Qp (L n : Nat) (y : List R) : List R := rollPy ((foldAdd y (L-2) (2*n)).take (2*n)) (1 - ((L/2 : Nat) : Int))

/-- one filter's share of the synthesis -/
def Aq (g : List R) (n : Nat) (c : List R) : List R := Qp g.length n (convTFull g c)

theorem GL_Qp (L n : Nat) (hL : 2 ≤ L) (hn : 1 ≤ n) : GL (Qp (R := R) L n) (2*(n-1) + L) (2*n) := by
  have g1 := GL_foldAdd (R := R) (L-2) (2*n) (2*(n-1) + L)
  have g2 := GL_take (R := R) (2*n) (2*(n-1) + L) (by omega) (by omega)
  have g3 := GL_rollPy (R := R) (1 - ((L/2 : Nat) : Int)) (2*n) (by omega)
  exact GL.congr (GL.comp g3 (GL.comp g2 g1)) (fun c _ => rfl)

theorem GL_Aq (g : List R) (n : Nat) (hL : 2 ≤ g.length) (hn : 1 ≤ n) : GL (Aq g n) n (2*n) :=
  GL.congr (GL.comp (GL_Qp g.length n hL hn) (GL_convTFull g n)) (fun c _ => rfl)

/-- the model's 1-D periodization synthesis of a pair of bands -/
def Sp (g0 g1 lo hi : List R) : List R := vadd (Aq g0 lo.length lo) (Aq g1 lo.length hi)

theorem sfb1dCh_per (g0 g1 lo hi : List R) (hL : 2 ≤ g0.length) (hg : g1.length = g0.length) (hn : 1 ≤ lo.length)
    (hh : hi.length = lo.length) : sfb1dCh .periodization g0 g1 lo hi = some (Sp g0 g1 lo hi) := by
  have hguard : ¬ (g0.length < 2 ∨ g1.length ≠ g0.length ∨ lo.length < 1 ∨ hi.length ≠ lo.length) := by omega
  simp only [sfb1dCh, hguard, if_false]
  refine congrArg some ?_
  have gQ := GL_Qp (R := R) g0.length lo.length hL hn
  have l0 : (convTFull g0 lo).length = 2*(lo.length-1) + g0.length := by simp [convTFull]
  have l1 : (convTFull g1 hi).length = 2*(lo.length-1) + g0.length := by simp [convTFull, hh, hg]
  have := GL.add gQ (convTFull g0 lo) (convTFull g1 hi) l0 l1
  unfold Sp Aq
  rw [hg, ← this]
  rfl

theorem Sp_length (g0 g1 lo hi : List R) (hL : 2 ≤ g0.length) (hn : 1 ≤ lo.length) : (Sp g0 g1 lo hi).length = 2 * lo.length := by
  unfold Sp vadd
  rw [length_tab, GL.length (GL_Aq g0 lo.length hL hn) lo rfl]


/-! ### the separable synthesis in two dimensions -/

section synth
variable (gr0 gr1 gc0 gc1 : List R) (hLr : 2 ≤ gr0.length) (hgr : gr1.length = gr0.length)
    (hLc : 2 ≤ gc0.length) (hgc : gc1.length = gc0.length) (Kh Kw : Nat) (hKh : 1 ≤ Kh) (hKw : 1 ≤ Kw)

/-- the separable periodization synthesis: columns of the two band pairs, then rows -/
def synth2P (ll lh hl hh : Img R) : Img R :=
  rowzip (Sp gr0 gr1) (2*Kh) (2*Kw) (colzip (Sp gc0 gc1) (2*Kh) Kw ll lh) (colzip (Sp gc0 gc1) (2*Kh) Kw hl hh)

include hLr hgr hLc hgc hKh hKw in
theorem SFB2D_forward_per_val (ll lh hl hh : Img R) (r1 : Rect ll Kh Kw) (r2 : Rect lh Kh Kw) (r3 : Rect hl Kh Kw) (r4 : Rect hh Kh Kw) :
    SFB2D_forward .periodization gr0 gr1 gc0 gc1 [ll] [[lh, hl, hh]] = some [synth2P gr0 gr1 gc0 gc1 Kh Kw ll lh hl hh] := by
  have hH := fun (a b : Img R) (ra : Rect a Kh Kw) (rb : Rect b Kh Kw) =>
    C05P.sfb1dImg_H_gen .periodization gc0 gc1 (Sp gc0 gc1) Kh (2*Kh)
      (fun a b ha hb => sfb1dCh_per gc0 gc1 a b hLc hgc (by omega) (by omega))
      (fun a b ha => by rw [Sp_length gc0 gc1 a b hLc (by omega), ha]) a b Kw ra rb hKh hKw
  have hW := fun (a b : Img R) (ra : Rect a (2*Kh) Kw) (rb : Rect b (2*Kh) Kw) =>
    C05P.sfb1dImg_W_gen .periodization gr0 gr1 (Sp gr0 gr1) Kw (2*Kw)
      (fun a b ha hb => sfb1dCh_per gr0 gr1 a b hLr hgr (by omega) (by omega))
      (fun a b ha => by rw [Sp_length gr0 gr1 a b hLr (by omega), ha]) a b (2*Kh) ra rb
  unfold SFB2D_forward
  simp only [List.map_cons, List.map_nil, List.getD_cons_zero, List.getD_cons_succ]
  rw [C10.sfb1dT_single, C10.sfb1dT_single, hH ll lh r1 r2, hH hl hh r3 r4]
  simp only [Option.map_some, Option.bind_eq_bind, Option.bind_some]
  rw [C10.sfb1dT_single, hW _ _ (colzip_rect _ _ _ _ _) (colzip_rect _ _ _ _ _)]
  rfl

include hLc hgc hKh hKw in
theorem colzip_Sp (a b : Img R) (ra : Rect a Kh Kw) (rb : Rect b Kh Kw) :
    colzip (Sp gc0 gc1) (2*Kh) Kw a b = iadd (alongH (Aq gc0 Kh) a) (alongH (Aq gc1 Kh) b) := by
  have g0 := GL_Aq gc0 Kh hLc hKh
  have g1 : GL (Aq gc1 Kh) Kh (2*Kh) := by
    have := GL_Aq gc1 Kh (by omega) hKh; exact this
  rw [alongH_get' _ a Kh (2*Kh) Kw ra hKh hKw (fun c hc => GL.length g0 c hc),
    alongH_get' _ b Kh (2*Kh) Kw rb hKh hKw (fun c hc => GL.length g1 c hc), iadd_tab2]
  unfold colzip
  apply tab2_congr; intro i hi j _
  have hla : (col a j).length = Kh := by simp [col, ra.1]
  unfold Sp
  rw [hla, getN_vadd _ _ _ (by rw [GL.length g0 _ hla]; exact hi)]

include hLr hgr hKw in
theorem rowzip_Sp (H : Nat) (a b : Img R) (ra : Rect a H Kw) (rb : Rect b H Kw) :
    rowzip (Sp gr0 gr1) H (2*Kw) a b = iadd (alongW (Aq gr0 Kw) a) (alongW (Aq gr1 Kw) b) := by
  have g0 := GL_Aq gr0 Kw hLr hKw
  have g1 : GL (Aq gr1 Kw) Kw (2*Kw) := GL_Aq gr1 Kw (by omega) hKw
  rw [alongW_get' _ a H Kw (2*Kw) ra (fun c hc => GL.length g0 c hc),
    alongW_get' _ b H Kw (2*Kw) rb (fun c hc => GL.length g1 c hc), iadd_tab2]
  unfold rowzip
  apply tab2_congr; intro i hi j hj
  have hla : (a.getD i []).length = Kw := getD_row_length a H Kw ra i hi
  unfold Sp
  rw [hla, getN_vadd _ _ _ (by rw [GL.length g0 _ hla]; exact hj)]


/-- what `sfb2d_nonsep` does to the sum of the four transposed convolutions: fold rows, fold columns, crop, roll rows, roll
columns -/
def postQ (Ly Lx : Nat) (full : Img R) : Img R :=
  (rollPy ((((tab full.length fun k => if k < Ly-2 then vadd (full.getD k []) (full.getD (2*Kh + k) []) else full.getD k []).map
      fun r => foldAdd r (Lx-2) (2*Kw)).take (2*Kh)).map fun r => r.take (2*Kw)) (1 - ((Ly/2 : Nat) : Int))).map
    fun r => rollPy r (1 - ((Lx/2 : Nat) : Int))

include hKh hKw in
theorem postQ_eq (Ly Lx : Nat) (hLy : 2 ≤ Ly) (hLx : 2 ≤ Lx) (full : Img R) (rf : Rect full (2*(Kh-1) + Ly) (2*(Kw-1) + Lx)) :
    postQ Kh Kw Ly Lx full = alongW (Qp Lx Kw) (alongH (Qp Ly Kh) full) := by
  have gfH := GL_foldAdd (R := R) (Ly-2) (2*Kh) (2*(Kh-1) + Ly)
  have gfW := GL_foldAdd (R := R) (Lx-2) (2*Kw) (2*(Kw-1) + Lx)
  have gtH := GL_take (R := R) (2*Kh) (2*(Kh-1) + Ly) (by omega) (by omega)
  have gtW := GL_take (R := R) (2*Kw) (2*(Kw-1) + Lx) (by omega) (by omega)
  have grH := GL_rollPy (R := R) (1 - ((Ly/2 : Nat) : Int)) (2*Kh) (by omega)
  have grW := GL_rollPy (R := R) (1 - ((Lx/2 : Nat) : Int)) (2*Kw) (by omega)
  have gtfW : GL (fun c : List R => (foldAdd c (Lx-2) (2*Kw)).take (2*Kw)) (2*(Kw-1) + Lx) (2*Kw) := GL.comp gtW gfW
  have gtfH : GL (fun c : List R => (foldAdd c (Ly-2) (2*Kh)).take (2*Kh)) (2*(Kh-1) + Ly) (2*Kh) := GL.comp gtH gfH
  have r1 := GL_alongH_rect gfH _ _ rf (by omega) (by omega)
  have r2 := GL_alongW_rect gfW _ _ r1
  have r3 := GL_alongH_rect gtH _ _ r2 (by omega) (by omega)
  have r4 := GL_alongW_rect gtW _ _ r3
  have e1 : postQ Kh Kw Ly Lx full
      = alongW (fun c => rollPy c (1 - ((Lx/2 : Nat) : Int))) (alongH (fun c => rollPy c (1 - ((Ly/2 : Nat) : Int)))
          (alongW (fun c => c.take (2*Kw)) (alongH (fun c => c.take (2*Kh))
            (alongW (fun c => foldAdd c (Lx-2) (2*Kw)) (alongH (fun c => foldAdd c (Ly-2) (2*Kh)) full))))) := by
    unfold postQ
    rw [foldRows_eq _ _ _ rf (by omega) (by omega)]
    show (rollPy (((alongW _ _).take _).map _) _).map _ = _
    rw [takeRows_eq _ _ _ r2 (by omega) (by omega) _ (by omega)]
    show (rollPy (alongW _ _) _).map _ = _
    rw [rollRows_eq _ _ _ r4 (by omega) (by omega)]
    rfl
  rw [e1]
  -- crop rows ↔ fold columns
  rw [alongH_alongW_comm _ _ _ _ _ _ gtH gfW _ r1 (by omega) (by omega) (by omega) (by omega)]
  rw [alongW_comp]
  rw [alongH_comp _ _ _ _ _ _ _ rf (by omega) (by omega) (by omega) (fun c hc => GL.length gfH c hc) (fun c hc => GL.length gtH c hc)]
  -- roll rows ↔ (crop ∘ fold) columns
  have r5 := GL_alongH_rect gtfH _ _ rf (by omega) (by omega)
  rw [alongH_alongW_comm _ _ _ _ _ _ grH gtfW _ r5 (by omega) (by omega) (by omega) (by omega)]
  rw [alongW_comp]
  rw [alongH_comp _ _ _ _ _ _ _ rf (by omega) (by omega) (by omega) (fun c hc => GL.length gtfH c hc) (fun c hc => GL.length grH c hc)]
  rfl

theorem izero_iadd (a : Img R) (H W : Nat) (ha : Rect a H W) : iadd (izero H W) a = a := by
  rw [iadd_rect (izero H W) a H W (tab2_rect _ _ _) ha]
  conv_rhs => rw [rect_eq_tab2 a H W ha]
  apply tab2_congr; intro i _ j _
  rw [get2_izero, zero_add]

include hLr hgr hLc hgc hKh hKw in
theorem sfb2dNonsep_per_val (dense : Bool) (ll lh hl hh : Img R) (r1 : Rect ll Kh Kw) :
    sfb2dNonsepCh .periodization dense gc0 gc1 gr0 gr1 [ll, lh, hl, hh]
      = some (postQ Kh Kw gc0.length gr0.length
          (iadd (iadd (iadd (iadd (izero (2*(Kh-1)+gc0.length) (2*(Kw-1)+gr0.length)) (convT2Full (outer gc0 gr0) ll))
          (convT2Full (outer gc1 gr0) lh)) (convT2Full (outer gc0 gr1) hl)) (convT2Full (outer gc1 gr1) hh))) := by
  have hllw : ll.width = Kw := rect_width ll Kh Kw r1 hKh
  have hguard : ¬ (gc0.length < 2 ∨ gr0.length < 2 ∨ gc1.length ≠ gc0.length ∨ gr1.length ≠ gr0.length ∨ Kh < 1 ∨ Kw < 1 ∨
      ([ll, lh, hl, hh] : List (Img R)).length ≠ 4) := by simp; omega
  have hr4 : List.range 4 = [0, 1, 2, 3] := by decide
  simp only [sfb2dNonsepCh, List.getD_cons_zero, r1.1, hllw, hguard, if_false, hr4, List.foldl_cons, List.foldl_nil,
    List.getD_cons_succ, foldAddInPlaceRows, foldAddInPlaceCols, Option.bind_eq_bind, Option.bind_some]
  rfl


include hKh hKw in
/-- one band's share: fold, crop and roll of its 2-D transposed convolution is its separable synthesis share -/
theorem share_eq (gc gr : List R) (hLy : 2 ≤ gc.length) (hLx : 2 ≤ gr.length) (band : Img R) (rb : Rect band Kh Kw) :
    alongW (Qp gr.length Kw) (alongH (Qp gc.length Kh) (convT2Full (outer gc gr) band))
      = alongW (Aq gr Kw) (alongH (Aq gc Kh) band) := by
  have gTc := GL_convTFull gc Kh
  have gTr := GL_convTFull gr Kw
  have gQc := GL_Qp (R := R) gc.length Kh hLy hKh
  have gAc := GL_Aq gc Kh hLy hKh
  rw [convT2Full_outer_sep gc gr band Kh Kw rb hKh hKw (by omega) (by omega)]
  have rY := GL_alongW_rect gTr band Kh rb
  rw [alongH_comp _ _ _ _ _ _ _ rY hKh (by omega) (by omega) (fun c hc => GL.length gTc c hc) (fun c hc => GL.length gQc c hc)]
  have eA : (fun c : List R => Qp gc.length Kh ((fun c => convTFull gc c) c)) = Aq gc Kh := rfl
  rw [eA, alongH_alongW_comm _ _ _ _ _ _ gAc gTr _ rb hKh hKw (by omega) (by omega), alongW_comp]
  rfl

theorem iadd_assoc4 (a b c d : Img R) (H W : Nat) (ra : Rect a H W) (rb : Rect b H W) (rc : Rect c H W) (rd : Rect d H W) :
    iadd (iadd (iadd a b) c) d = iadd (iadd a b) (iadd c d) := by
  have rab : Rect (iadd a b) H W := by rw [iadd_rect a b H W ra rb]; exact tab2_rect _ _ _
  have rcd : Rect (iadd c d) H W := by rw [iadd_rect c d H W rc rd]; exact tab2_rect _ _ _
  have rabc : Rect (iadd (iadd a b) c) H W := by rw [iadd_rect _ c H W rab rc]; exact tab2_rect _ _ _
  rw [iadd_rect _ d H W rabc rd, iadd_rect _ _ H W rab rcd]
  apply tab2_congr; intro i hi j hj
  rw [iadd_rect _ c H W rab rc, iadd_rect c d H W rc rd, C19.get2_tab2 _ _ _ _ _ hi hj, C19.get2_tab2 _ _ _ _ _ hi hj]
  ring

include hLr hgr hLc hgc hKh hKw in
/-- **`sfb2d_nonsep` = `sfb2d` in periodization mode**: the model of the non-separable synthesis equals the separable
column-then-row synthesis for every band size and every filter lengths ≥ 2 -/
theorem sfb2d_nonsep_per_eq_sep (dense : Bool) (ll lh hl hh : Img R) (r1 : Rect ll Kh Kw) (r2 : Rect lh Kh Kw) (r3 : Rect hl Kh Kw)
    (r4 : Rect hh Kh Kw) :
    sfb2dNonsepCh .periodization dense gc0 gc1 gr0 gr1 [ll, lh, hl, hh] = some (synth2P gr0 gr1 gc0 gc1 Kh Kw ll lh hl hh) := by
  rw [sfb2dNonsep_per_val gr0 gr1 gc0 gc1 hLr hgr hLc hgc Kh Kw hKh hKw dense ll lh hl hh r1]
  refine congrArg some ?_
  -- gather-linear operators
  have gQc := GL_Qp (R := R) gc0.length Kh hLc hKh
  have gQr := GL_Qp (R := R) gr0.length Kw hLr hKw
  have gAc0 := GL_Aq gc0 Kh hLc hKh
  have gAc1 : GL (Aq gc1 Kh) Kh (2*Kh) := GL_Aq gc1 Kh (by omega) hKh
  have gAr0 := GL_Aq gr0 Kw hLr hKw
  have gAr1 : GL (Aq gr1 Kw) Kw (2*Kw) := GL_Aq gr1 Kw (by omega) hKw
  -- the four contributions are rectangles of the full size
  have rC : ∀ (gc gr : List R) (band : Img R), gc.length = gc0.length → gr.length = gr0.length → Rect band Kh Kw →
      Rect (convT2Full (outer gc gr) band) (2*(Kh-1)+gc0.length) (2*(Kw-1)+gr0.length) := by
    intro gc gr band h1 h2 rb
    rw [C19S.convT2Full_outer gc gr band Kh Kw rb hKh (by omega) (by omega), h1, h2]
    exact tab2_rect _ _ _
  have c0 := rC gc0 gr0 ll rfl rfl r1
  have c1 := rC gc1 gr0 lh hgc rfl r2
  have c2 := rC gc0 gr1 hl rfl hgr r3
  have c3 := rC gc1 gr1 hh hgc hgr r4
  have hMh : 1 ≤ 2*(Kh-1)+gc0.length := by omega
  have hMw : 1 ≤ 2*(Kw-1)+gr0.length := by omega
  have rs : ∀ (a b : Img R), Rect a (2*(Kh-1)+gc0.length) (2*(Kw-1)+gr0.length) → Rect b (2*(Kh-1)+gc0.length) (2*(Kw-1)+gr0.length) →
      Rect (iadd a b) (2*(Kh-1)+gc0.length) (2*(Kw-1)+gr0.length) := by
    intro a b ra rb; rw [iadd_rect a b _ _ ra rb]; exact tab2_rect _ _ _
  rw [izero_iadd _ _ _ c0]
  rw [postQ_eq Kh Kw hKh hKw gc0.length gr0.length hLc hLr _ (rs _ _ (rs _ _ (rs _ _ c0 c1) c2) c3)]
  -- the post-processing is additive
  have padd : ∀ (a b : Img R), Rect a (2*(Kh-1)+gc0.length) (2*(Kw-1)+gr0.length) → Rect b (2*(Kh-1)+gc0.length) (2*(Kw-1)+gr0.length) →
      alongW (Qp gr0.length Kw) (alongH (Qp gc0.length Kh) (iadd a b))
        = iadd (alongW (Qp gr0.length Kw) (alongH (Qp gc0.length Kh) a)) (alongW (Qp gr0.length Kw) (alongH (Qp gc0.length Kh) b)) := by
    intro a b ra rb
    rw [alongH_iadd gQc a b _ ra rb hMh hMw]
    exact alongW_iadd gQr _ _ _ (GL_alongH_rect gQc a _ ra hMh hMw) (GL_alongH_rect gQc b _ rb hMh hMw)
  rw [padd _ _ (rs _ _ (rs _ _ c0 c1) c2) c3, padd _ _ (rs _ _ c0 c1) c2, padd _ _ c0 c1]
  have s0 := share_eq Kh Kw hKh hKw gc0 gr0 hLc hLr ll r1
  have s1 := share_eq Kh Kw hKh hKw gc1 gr0 (by omega) hLr lh r2
  have s2 := share_eq Kh Kw hKh hKw gc0 gr1 hLc (by omega) hl r3
  have s3 := share_eq Kh Kw hKh hKw gc1 gr1 (by omega) (by omega) hh r4
  rw [hgc] at s1 s3; rw [hgr] at s2 s3
  rw [s0, s1, s2, s3]
  -- the separable side
  unfold synth2P
  have rlo : Rect (colzip (Sp gc0 gc1) (2*Kh) Kw ll lh) (2*Kh) Kw := colzip_rect _ _ _ _ _
  have rhi : Rect (colzip (Sp gc0 gc1) (2*Kh) Kw hl hh) (2*Kh) Kw := colzip_rect _ _ _ _ _
  rw [rowzip_Sp gr0 gr1 hLr hgr Kw hKw (2*Kh) _ _ rlo rhi]
  rw [colzip_Sp gc0 gc1 hLc hgc Kh Kw hKh hKw ll lh r1 r2, colzip_Sp gc0 gc1 hLc hgc Kh Kw hKh hKw hl hh r3 r4]
  have q0 := GL_alongH_rect gAc0 ll Kw r1 hKh hKw
  have q1 := GL_alongH_rect gAc1 lh Kw r2 hKh hKw
  have q2 := GL_alongH_rect gAc0 hl Kw r3 hKh hKw
  have q3 := GL_alongH_rect gAc1 hh Kw r4 hKh hKw
  rw [alongW_iadd gAr0 _ _ _ q0 q1, alongW_iadd gAr1 _ _ _ q2 q3]
  exact iadd_assoc4 _ _ _ _ (2*Kh) (2*Kw) (GL_alongW_rect gAr0 _ _ q0) (GL_alongW_rect gAr0 _ _ q1)
    (GL_alongW_rect gAr1 _ _ q2) (GL_alongW_rect gAr1 _ _ q3)

include hLr hgr hLc hgc hKh hKw in
/-- **C19, synthesis, periodization**: the same image is what the model of the autograd Function `SFB2D.forward` returns -/
theorem sfb2d_nonsep_per_eq_SFB2D (dense : Bool) (ll lh hl hh : Img R) (r1 : Rect ll Kh Kw) (r2 : Rect lh Kh Kw) (r3 : Rect hl Kh Kw)
    (r4 : Rect hh Kh Kw) :
    ∃ y, sfb2dNonsepCh .periodization dense gc0 gc1 gr0 gr1 [ll, lh, hl, hh] = some y ∧
      SFB2D_forward .periodization gr0 gr1 gc0 gc1 [ll] [[lh, hl, hh]] = some [y] :=
  ⟨_, sfb2d_nonsep_per_eq_sep gr0 gr1 gc0 gc1 hLr hgr hLc hgc Kh Kw hKh hKw dense ll lh hl hh r1 r2 r3 r4,
    SFB2D_forward_per_val gr0 gr1 gc0 gc1 hLr hgr hLc hgc Kh Kw hKh hKw ll lh hl hh r1 r2 r3 r4⟩

end synth

/-- non-vacuity: 1 × 2 coefficient bands with 6-tap column filters (longer than the 2-row reconstruction) and 2-tap row
filters: both models return the same numbers -/
example : (sfb2dNonsepCh .periodization false [1, 2, -1, 3, 1, -2] [2, -1, 0, 1, 1, 3] [1, 1] [1, -1]
      ([[[1, 2]], [[3, -1]], [[0, 4]], [[2, 5]]] : List (Img Int))).map (fun y => [y])
    = SFB2D_forward .periodization [1, 1] [1, -1] [1, 2, -1, 3, 1, -2] [2, -1, 0, 1, 1, 3] [[[1, 2]]] [[[[3, -1]], [[0, 4]], [[2, 5]]]] := by
  decide +kernel

end WV.C19Q
