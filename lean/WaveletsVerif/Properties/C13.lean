/-
  C13 — stationary (undecimated) wavelet transform.

  * `afb1d_atrous` in periodic mode (what `SWTForward` runs after mapping
    'periodization' to 'periodic') equals the PyWavelets `swt` formula — circular
    correlation with the filter dilated by `d` — for every even filter length,
    every dilation and every signal length.
  * the `swt` formula is circular-shift equivariant for every shift.
-/
import WaveletsVerif.Lemmas.Basic
import WaveletsVerif.Properties.C01
namespace WV.C13
open Finset WV
variable {R : Type} [CommRing R]

theorem afb1dAtrousOne_periodic_eq_swt (h x : List R) (d : Nat) (hL : 2 ≤ h.length)
    (hLe : h.length % 2 = 0) (hN : 1 ≤ x.length) (hd : 1 ≤ d) :
    afb1dAtrousOne .periodic d h.reverse x = some (Spec.swt h x d) := by
  have hL2 : (h.length * d) / 2 = d * (h.length / 2) := by
    obtain ⟨m, hm⟩ : ∃ m, h.length = 2 * m := ⟨h.length / 2, by omega⟩
    rw [hm, Nat.mul_assoc, Nat.mul_div_cancel_left _ (by norm_num : 0 < 2), Nat.mul_div_cancel_left _ (by norm_num : 0 < 2),
      Nat.mul_comm]
  have hge : d ≤ d * (h.length / 2) := by
    have : 1 ≤ h.length / 2 := by omega
    calc d = d * 1 := by ring
      _ ≤ d * (h.length / 2) := Nat.mul_le_mul_left d this
  have hguard : ¬ (h.length < 2 ∨ x.length < 1 ∨ d < 1 ∨ d * (h.length / 2) < d) := by omega
  simp only [afb1dAtrousOne, List.length_reverse, hL2]
  rw [if_neg hguard]
  congr 1
  unfold Spec.swt corr
  have hdL : d * (h.length - 1) + 1 + d = d * h.length + 1 := by
    have : h.length = (h.length - 1) + 1 := by omega
    conv_rhs => rw [this, Nat.mul_add]
    ring
  have h2 : d * h.length = 2 * (d * (h.length / 2)) := by
    obtain ⟨m, hm⟩ : ∃ m, h.length = 2 * m := ⟨h.length / 2, by omega⟩
    rw [hm, Nat.mul_div_cancel_left _ (by norm_num : 0 < 2)]; ring
  have hlen : corrLen (d * (h.length / 2) - d + x.length + d * (h.length / 2)) h.length 1 d = x.length := by
    unfold corrLen
    split
    · omega
    · simp only [Nat.div_one]; omega
  apply tab_ext
  · simp only [List.length_reverse, length_padIdx]; exact hlen
  · intro k hk
    simp only [List.length_reverse, length_padIdx] at hk
    rw [hlen] at hk
    rw [sumN_eq, sumN_eq]
    simp only [List.length_reverse]
    rw [← Finset.sum_range_reflect]
    apply Finset.sum_congr rfl
    intro j hj
    have hj' : j < h.length := by simpa using hj
    rw [getN_eq_getZ (padIdx _ _ _ _), getN_reverse h j hj']
    have hjd : d * (h.length - 1 - j) + d * j + d = d * h.length := by
      have : h.length = (h.length - 1 - j) + j + 1 := by omega
      conv_rhs => rw [this]
      ring
    have hb : d * (h.length - 1 - j) + d ≤ d * h.length := by omega
    have hlt : 1 * k + d * (h.length - 1 - j) < d * (h.length / 2) - d + x.length + d * (h.length / 2) := by omega
    rw [getZ_padIdx _ _ _ _ _ (by positivity) (by exact_mod_cast hlt)]
    congr 2
    unfold perIdx
    congr 1
    have hjd' : (d:Int) * ((h.length - 1 - j : Nat):Int) + (d:Int) * (j:Int) + (d:Int) = (d:Int) * (h.length:Int) := by
      exact_mod_cast hjd
    have h2' : (d:Int) * (h.length:Int) = 2 * ((d:Int) * ((h.length / 2 : Nat):Int)) := by exact_mod_cast h2
    push_cast [Nat.cast_sub hge]
    linarith

/-- `np.roll(x, s)`: circular shift by `s` -/
def rot (s : Int) (x : List R) : List R := tab x.length fun k => getZ x (((k:Int) - s) % (x.length : Int))

/-- shifting the input circularly shifts every `swt` band by the same amount: for all shifts,
filters, dilations and lengths -/
theorem swt_shift (h x : List R) (d : Nat) (s : Int) (hN : 1 ≤ x.length) :
    Spec.swt h (rot s x) d = rot s (Spec.swt h x d) := by
  unfold Spec.swt rot
  simp only [length_tab]
  have hNpos : (0:Int) < x.length := by omega
  apply tab_ext rfl
  intro k hk
  rw [getZ_tab]
  have e0 := Int.emod_nonneg ((k:Int) - s) (by omega : (x.length:Int) ≠ 0)
  have e1 := Int.emod_lt_of_pos ((k:Int) - s) hNpos
  simp only [e0, e1, and_self, if_true]
  rw [sumN_eq, sumN_eq]
  apply Finset.sum_congr rfl
  intro i _
  congr 1
  rw [getZ_tab]
  have f0 := Int.emod_nonneg ((k:Int) + (d:Int) * (((h.length/2 : Nat):Int) - i)) (by omega : (x.length:Int) ≠ 0)
  have f1 := Int.emod_lt_of_pos ((k:Int) + (d:Int) * (((h.length/2 : Nat):Int) - i)) hNpos
  simp only [f0, f1, and_self, if_true]
  congr 1
  have t1 : ((((k:Int) - s) % (x.length:Int)).toNat : Int) = ((k:Int) - s) % (x.length:Int) := by omega
  have t2 : ((((k:Int) + (d:Int) * (((h.length/2 : Nat):Int) - i)) % (x.length:Int)).toNat : Int)
      = ((k:Int) + (d:Int) * (((h.length/2 : Nat):Int) - i)) % (x.length:Int) := by omega
  rw [t1, t2, Int.emod_add_emod, Int.emod_sub_emod]
  congr 1; ring

/-! ### the module: level loop with dilation `2^j`, `(N,C,4,H,W)` packing -/

theorem afb1dAtrousT_one (ax : Axis) (mode : Mode) (d : Nat) (w0 w1 : List R) (x : Img R) :
    afb1dAtrousT ax mode d w0 w1 [x] = (do
      let lo ← alongO ax (afb1dAtrousOne mode d w0) x
      let hi ← alongO ax (afb1dAtrousOne mode d w1) x
      some [lo, hi]) := by
  simp [afb1dAtrousT, grouped, tab, List.range, List.range.loop]
  cases alongO ax (afb1dAtrousOne mode d w0) x <;> cases alongO ax (afb1dAtrousOne mode d w1) x <;> simp

theorem afb1dAtrousT_two (ax : Axis) (mode : Mode) (d : Nat) (w0 w1 : List R) (x y : Img R) :
    afb1dAtrousT ax mode d w0 w1 [x, y] = (do
      let a ← alongO ax (afb1dAtrousOne mode d w0) x
      let b ← alongO ax (afb1dAtrousOne mode d w1) x
      let c ← alongO ax (afb1dAtrousOne mode d w0) y
      let e ← alongO ax (afb1dAtrousOne mode d w1) y
      some [a, b, c, e]) := by
  simp [afb1dAtrousT, grouped, tab, List.range, List.range.loop]
  cases alongO ax (afb1dAtrousOne mode d w0) x <;> cases alongO ax (afb1dAtrousOne mode d w1) x <;>
  cases alongO ax (afb1dAtrousOne mode d w0) y <;> cases alongO ax (afb1dAtrousOne mode d w1) y <;> simp

theorem swt_length (h x : List R) (d : Nat) : (Spec.swt h x d).length = x.length := by simp [Spec.swt]

theorem atrous_W (h : List R) (hL : 2 ≤ h.length) (hLe : h.length % 2 = 0) (d : Nat) (hd : 1 ≤ d) (x : Img R)
    (hx : ∀ r ∈ x, 1 ≤ r.length) :
    alongO .W (afb1dAtrousOne .periodic d h.reverse) x = some (Spec.rowsMap (fun r => Spec.swt h r d) x) := by
  unfold alongO alongWO Spec.rowsMap
  exact mapM_total _ _ x (fun r hr => afb1dAtrousOne_periodic_eq_swt h r d hL hLe (hx r hr) hd)

theorem atrous_H (h : List R) (hL : 2 ≤ h.length) (hLe : h.length % 2 = 0) (d : Nat) (hd : 1 ≤ d) (x : Img R)
    (hx : 1 ≤ x.length) :
    alongO .H (afb1dAtrousOne .periodic d h.reverse) x = some (Spec.colsMap (fun c => Spec.swt h c d) x) := by
  unfold alongO alongHO Spec.colsMap
  rw [mapM_total _ (fun c => Spec.swt h c d) (tr x)
    (fun r hr => afb1dAtrousOne_periodic_eq_swt h r d hL hLe (by rw [tr_row_length x r hr]; exact hx) hd)]
  rfl

/-- one level of the undecimated filter bank on one channel = the four `swt2` bands (A, H, V, D) -/
theorem afb2dAtrous_eq_level (c0 c1 r0 r1 : List R) (hc0 : 2 ≤ c0.length ∧ c0.length % 2 = 0)
    (hc1 : 2 ≤ c1.length ∧ c1.length % 2 = 0) (hr0 : 2 ≤ r0.length ∧ r0.length % 2 = 0)
    (hr1 : 2 ≤ r1.length ∧ r1.length % 2 = 0) (d : Nat) (hd : 1 ≤ d) (x : Img R) (hx : C01.NonEmptyImg x) :
    afb2dAtrous .periodic d c0.reverse c1.reverse r0.reverse r1.reverse [x]
      = some (Spec.swt2Level c0 c1 r0 r1 d x) := by
  unfold afb2dAtrous
  rw [afb1dAtrousT_one, atrous_W r0 hr0.1 hr0.2 d hd x hx.2, atrous_W r1 hr1.1 hr1.2 d hd x hx.2]
  simp only [Option.bind_eq_bind, Option.bind_some]
  have hlo : 1 ≤ (Spec.rowsMap (fun r => Spec.swt r0 r d) x).length := by simp [Spec.rowsMap]; exact hx.1
  have hhi : 1 ≤ (Spec.rowsMap (fun r => Spec.swt r1 r d) x).length := by simp [Spec.rowsMap]; exact hx.1
  rw [afb1dAtrousT_two, atrous_H c0 hc0.1 hc0.2 d hd _ hlo, atrous_H c1 hc1.1 hc1.2 d hd _ hlo,
    atrous_H c0 hc0.1 hc0.2 d hd _ hhi, atrous_H c1 hc1.1 hc1.2 d hd _ hhi]
  simp [Spec.swt2Level]

/-- the approximation band of a level is again a non-empty image of the same size -/
theorem level_A_nonempty (c0 r0 : List R) (d : Nat) (x : Img R) (hx : C01.NonEmptyImg x) :
    C01.NonEmptyImg (Spec.colsMap (fun c => Spec.swt c0 c d) (Spec.rowsMap (fun r => Spec.swt r0 r d) x)) := by
  obtain ⟨hH, hW⟩ := hx
  set lo := Spec.rowsMap (fun r => Spec.swt r0 r d) x with hlo
  have hlo_ne : C01.NonEmptyImg lo := by
    constructor
    · simp [hlo, Spec.rowsMap]; exact hH
    · intro r hr
      simp only [hlo, Spec.rowsMap, List.mem_map] at hr
      obtain ⟨a, ha, rfl⟩ := hr
      rw [swt_length]; exact hW a ha
  have htr : C01.NonEmptyImg (tr lo) := C01.tr_nonempty lo hlo_ne.1 (C01.width_of_nonempty lo hlo_ne)
  unfold Spec.colsMap
  apply C01.tr_nonempty
  · simp; exact htr.1
  · apply C01.width_of_nonempty
    constructor
    · simp; exact htr.1
    · intro r hr
      simp only [List.mem_map] at hr
      obtain ⟨a, ha, rfl⟩ := hr
      rw [swt_length]; exact htr.2 a ha

/-- `SWTForward` (default mode 'periodization' or 'periodic') on one channel returns, for **every J**,
the levels of `pywt.swt2` (finest first), each as the four bands (A, H, V, D) at full resolution, level
`j` using the filters dilated by `2^(j-1)`; even-length filters, every non-empty image. -/
theorem SWTForward_eq_swt2 (mode : Mode) (hm : mode = .periodization ∨ mode = .periodic)
    (c0 c1 r0 r1 : List R) (hc0 : 2 ≤ c0.length ∧ c0.length % 2 = 0) (hc1 : 2 ≤ c1.length ∧ c1.length % 2 = 0)
    (hr0 : 2 ≤ r0.length ∧ r0.length % 2 = 0) (hr1 : 2 ≤ r1.length ∧ r1.length % 2 = 0)
    (J : Nat) (x : Img R) (hx : C01.NonEmptyImg x) :
    SWTForwardM mode J [c0, c1, r0, r1] [x] = some ((Spec.swt2 c0 c1 r0 r1 J 0 x).map fun b => [b]) := by
  simp only [SWTForwardM, wave4, Option.bind_eq_bind, Option.bind_some]
  have hmm : (if mode = Mode.periodization then Mode.periodic else mode) = Mode.periodic := by
    rcases hm with rfl | rfl <;> simp
  generalize 0 = j
  induction J generalizing x j with
  | zero => simp [SWTForward, Spec.swt2]
  | succ J ih =>
    simp only [SWTForward, Spec.swt2, hmm]
    rw [afb2dAtrous_eq_level c0 c1 r0 r1 hc0 hc1 hr0 hr1 (2^j) (Nat.one_le_two_pow) x hx]
    simp only [Option.bind_eq_bind, Option.bind_some]
    have hA : C01.NonEmptyImg ((Spec.swt2Level c0 c1 r0 r1 (2^j) x).getD 0 []) := by
      simp only [Spec.swt2Level, List.getD_cons_zero]
      exact level_A_nonempty c0 r0 (2^j) x hx
    have e : (tab ((Spec.swt2Level c0 c1 r0 r1 (2^j) x).length / 4) fun c =>
        [(Spec.swt2Level c0 c1 r0 r1 (2^j) x).getD (4*c) [], (Spec.swt2Level c0 c1 r0 r1 (2^j) x).getD (4*c+1) [],
         (Spec.swt2Level c0 c1 r0 r1 (2^j) x).getD (4*c+2) [], (Spec.swt2Level c0 c1 r0 r1 (2^j) x).getD (4*c+3) []])
        = [Spec.swt2Level c0 c1 r0 r1 (2^j) x] := by
      simp [Spec.swt2Level, tab, List.range, List.range.loop]
    rw [e]
    simp only [List.map_cons, List.map_nil]
    rw [ih _ hA (j+1)]
    simp

/-- non-vacuity -/
example : (2 ≤ ([1,2,3,4] : List Int).length) ∧ ([1,2,3,4] : List Int).length % 2 = 0 := by decide

end WV.C13
