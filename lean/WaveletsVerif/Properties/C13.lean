/-
  C13 — stationary (undecimated) wavelet transform.

  * `afb1d_atrous` in periodic mode (what `SWTForward` runs after mapping
    'periodization' to 'periodic') equals the PyWavelets `swt` formula — circular
    correlation with the filter dilated by `d` — for every even filter length,
    every dilation and every signal length.
  * the `swt` formula is circular-shift equivariant for every shift.
-/
import WaveletsVerif.Lemmas.Basic
namespace WV.C13
open Finset WV
variable {R : Type} [CommRing R]

theorem afb1dAtrousOne_periodic_eq_swt (h x : List R) (d : Nat) (hL : 2 ≤ h.length)
    (hLe : h.length % 2 = 0) (hN : 1 ≤ x.length) (hd : 1 ≤ d) :
    afb1dAtrousOne .periodic d h.reverse x = some (Spec.swt h x d) := by
  have hL2 : (h.length * d) / 2 = d * (h.length / 2) := by
    obtain ⟨m, hm⟩ : ∃ m, h.length = 2 * m := ⟨h.length / 2, by omega⟩
    rw [hm, Nat.mul_assoc, Nat.mul_div_cancel_left _ (by norm_num : 0 < 2), Nat.mul_div_cancel_left _ (by norm_num : 0 < 2),
      Nat.mul_comm]
  have hge : d ≤ d * (h.length / 2) := by
    have : 1 ≤ h.length / 2 := by omega
    calc d = d * 1 := by ring
      _ ≤ d * (h.length / 2) := Nat.mul_le_mul_left d this
  have hguard : ¬ (h.length < 2 ∨ x.length < 1 ∨ d < 1 ∨ d * (h.length / 2) < d) := by omega
  simp only [afb1dAtrousOne, List.length_reverse, hL2]
  rw [if_neg hguard]
  congr 1
  unfold Spec.swt corr
  have hdL : d * (h.length - 1) + 1 + d = d * h.length + 1 := by
    have : h.length = (h.length - 1) + 1 := by omega
    conv_rhs => rw [this, Nat.mul_add]
    ring
  have h2 : d * h.length = 2 * (d * (h.length / 2)) := by
    obtain ⟨m, hm⟩ : ∃ m, h.length = 2 * m := ⟨h.length / 2, by omega⟩
    rw [hm, Nat.mul_div_cancel_left _ (by norm_num : 0 < 2)]; ring
  have hlen : corrLen (d * (h.length / 2) - d + x.length + d * (h.length / 2)) h.length 1 d = x.length := by
    unfold corrLen
    split
    · omega
    · simp only [Nat.div_one]; omega
  apply tab_ext
  · simp only [List.length_reverse, length_padIdx]; exact hlen
  · intro k hk
    simp only [List.length_reverse, length_padIdx] at hk
    rw [hlen] at hk
    rw [sumN_eq, sumN_eq]
    simp only [List.length_reverse]
    rw [← Finset.sum_range_reflect]
    apply Finset.sum_congr rfl
    intro j hj
    have hj' : j < h.length := by simpa using hj
    rw [getN_eq_getZ (padIdx _ _ _ _), getN_reverse h j hj']
    have hjd : d * (h.length - 1 - j) + d * j + d = d * h.length := by
      have : h.length = (h.length - 1 - j) + j + 1 := by omega
      conv_rhs => rw [this]
      ring
    have hb : d * (h.length - 1 - j) + d ≤ d * h.length := by omega
    have hlt : 1 * k + d * (h.length - 1 - j) < d * (h.length / 2) - d + x.length + d * (h.length / 2) := by omega
    rw [getZ_padIdx _ _ _ _ _ (by positivity) (by exact_mod_cast hlt)]
    congr 2
    unfold perIdx
    congr 1
    have hjd' : (d:Int) * ((h.length - 1 - j : Nat):Int) + (d:Int) * (j:Int) + (d:Int) = (d:Int) * (h.length:Int) := by
      exact_mod_cast hjd
    have h2' : (d:Int) * (h.length:Int) = 2 * ((d:Int) * ((h.length / 2 : Nat):Int)) := by exact_mod_cast h2
    push_cast [Nat.cast_sub hge]
    linarith

/-- `np.roll(x, s)`: circular shift by `s` -/
def rot (s : Int) (x : List R) : List R := tab x.length fun k => getZ x (((k:Int) - s) % (x.length : Int))

/-- shifting the input circularly shifts every `swt` band by the same amount: for all shifts,
filters, dilations and lengths -/
theorem swt_shift (h x : List R) (d : Nat) (s : Int) (hN : 1 ≤ x.length) :
    Spec.swt h (rot s x) d = rot s (Spec.swt h x d) := by
  unfold Spec.swt rot
  simp only [length_tab]
  have hNpos : (0:Int) < x.length := by omega
  apply tab_ext rfl
  intro k hk
  rw [getZ_tab]
  have e0 := Int.emod_nonneg ((k:Int) - s) (by omega : (x.length:Int) ≠ 0)
  have e1 := Int.emod_lt_of_pos ((k:Int) - s) hNpos
  simp only [e0, e1, and_self, if_true]
  rw [sumN_eq, sumN_eq]
  apply Finset.sum_congr rfl
  intro i _
  congr 1
  rw [getZ_tab]
  have f0 := Int.emod_nonneg ((k:Int) + (d:Int) * (((h.length/2 : Nat):Int) - i)) (by omega : (x.length:Int) ≠ 0)
  have f1 := Int.emod_lt_of_pos ((k:Int) + (d:Int) * (((h.length/2 : Nat):Int) - i)) hNpos
  simp only [f0, f1, and_self, if_true]
  congr 1
  have t1 : ((((k:Int) - s) % (x.length:Int)).toNat : Int) = ((k:Int) - s) % (x.length:Int) := by omega
  have t2 : ((((k:Int) + (d:Int) * (((h.length/2 : Nat):Int) - i)) % (x.length:Int)).toNat : Int)
      = ((k:Int) + (d:Int) * (((h.length/2 : Nat):Int) - i)) % (x.length:Int) := by omega
  rw [t1, t2, Int.emod_add_emod, Int.emod_sub_emod]
  congr 1; ring

/-- non-vacuity -/
example : (2 ≤ ([1,2,3,4] : List Int).length) ∧ ([1,2,3,4] : List Int).length % 2 = 0 := by decide

end WV.C13
