/-
  C01 — the J-level 2-D transform in periodization mode is `pywt.wavedec2`, for every J and every image size (odd sizes
  included), whenever at every level the (even) filter lengths do not exceed the level's sides rounded up to even
  (`LevelsFitP`; the regime in which the one-level code path equals PyWavelets, C01.afb1dOne_per_eq_dwt_partial_all —
  for shorter levels the library differs from PyWavelets: known finding).  Induction over the levels on
  `C05P.AFB2D_forward_val`.
-/
import WaveletsVerif.Properties.C05P
namespace WV.C01P
open Finset WV WV.C04 WV.C04Q WV.C06 WV.C05D WV.C05P
variable {R : Type} [CommRing R]

/-- at every level the filters fit: `Lc ≤ H + H % 2`, `Lr ≤ W + W % 2`; the next level has sides `⌈H/2⌉ × ⌈W/2⌉` -/
def LevelsFitP (Lc Lr : Nat) : Nat → Nat → Nat → Prop
  | 0, _, _ => True
  | J+1, H, W => Lc ≤ H + H % 2 ∧ Lr ≤ W + W % 2 ∧ LevelsFitP Lc Lr J ((H + H % 2) / 2) ((W + W % 2) / 2)

theorem dwt2_per_eq (hc0 hc1 hr0 hr1 : List R) (x : Img R) :
    Spec.dwt2 .periodization hc0 hc1 hr0 hr1 x
      = (alongH (Ap hc0) (alongW (Ap hr0) x), alongH (Ap hc1) (alongW (Ap hr0) x),
         alongH (Ap hc0) (alongW (Ap hr1) x), alongH (Ap hc1) (alongW (Ap hr1) x)) := rfl

/-- **`DWTForward` in periodization mode = `pywt.wavedec2` for every J** (one channel; column wavelet `(hc0, hc1)`, row
wavelet `(hr0, hr1)`, even lengths) -/
theorem DWTForward_per_eq_wavedec2 (hr0 hr1 hc0 hc1 : List R) (hLr : 2 ≤ hr0.length) (hLre : hr0.length % 2 = 0) (hwr : hr1.length = hr0.length)
    (hLc : 2 ≤ hc0.length) (hLce : hc0.length % 2 = 0) (hwc : hc1.length = hc0.length) :
    ∀ (J : Nat) (x : Img R) (H W : Nat), Rect x H W → 1 ≤ H → 1 ≤ W → LevelsFitP hc0.length hr0.length J H W →
      DWTForward .periodization hc0.reverse hc1.reverse hr0.reverse hr1.reverse J [x]
        = some ([(Spec.wavedec2 .periodization hc0 hc1 hr0 hr1 J x).1],
                (Spec.wavedec2 .periodization hc0 hc1 hr0 hr1 J x).2.map fun b => [b])
  | 0, x, _, _, _, _, _, _ => by simp [DWTForward, Spec.wavedec2]
  | J+1, x, H, W, hx, hH, hW, hok => by
    obtain ⟨hfH, hfW, hrest⟩ := hok
    have hfv := AFB2D_forward_val hr0 hr1 hc0 hc1 hLr hLre hwr hLc hLce hwc H W hH hW hfH hfW x hx
    have rW : Rect (alongW (Ap hr0) x) H ((W + W % 2) / 2) := by
      rw [alongW_get' (Ap hr0) x H W _ hx (fun c hc => by rw [Ap_length, hc])]
      exact tab2_rect _ _ _
    have rll : Rect (alongH (Ap hc0) (alongW (Ap hr0) x)) ((H + H % 2) / 2) ((W + W % 2) / 2) := by
      rw [alongH_get' (Ap hc0) _ H ((H + H % 2) / 2) ((W + W % 2) / 2) rW hH (by omega) (fun c hc => by rw [Ap_length, hc])]
      exact tab2_rect _ _ _
    have ih := DWTForward_per_eq_wavedec2 hr0 hr1 hc0 hc1 hLr hLre hwr hLc hLce hwc J _ _ _ rll (by omega) (by omega) hrest
    simp only [DWTForward, Spec.wavedec2]
    rw [hfv]
    simp only [Option.bind_eq_bind, Option.bind_some]
    rw [ih, dwt2_per_eq]
    simp

/-- the level condition is satisfiable with odd sizes: a 7 × 5 image, two levels, 4-tap filters (7 → 4 → 2, 5 → 3 → 2) -/
example : LevelsFitP 4 4 2 7 5 := by simp [LevelsFitP]

end WV.C01P
