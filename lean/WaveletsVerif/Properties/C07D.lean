/-
  C07 (continued) — linearity of the remaining one-dimensional operators, with the calculus of `C07.Lin`:

  * every "gather" `x ↦ [x[idx(n,0)], …, x[idx(n,cnt n − 1)]]` whose index table depends on the length only is
    linear (`lin_gather`): Python slices with any step, `symm_pad_1d` index vectors, de-interleaving;
  * transposed convolution is linear in the coefficients (`lin_convTFull`, `lin_convT`); element-wise sums and
    interleavings of linear maps are linear;
  * hence the synthesis bank `sfb1d` is linear in the pair (lo, hi) in every mode (`sfb1dCh_linear`), the
    stationary filter `afb1d_atrous` is linear (`afb1dAtrousOne_linear`), and so are the DTCWT column filters
    `colfilter`, `coldfilt`, `colifilt` for every filter, column length and highpass flag
    (`colfilter1_linear`, `coldfilt1_linear`, `colifilt1_linear`); whether they raise depends on lengths only.
-/
import WaveletsVerif.Properties.C07
import WaveletsVerif.Model.Dtcwt
namespace WV.C07D
open Finset WV WV.C07
variable {R : Type} [CommRing R]

/-- reading through an index table that depends on the length only -/
theorem lin_gather (cnt : Nat → Nat) (idx : Nat → Nat → Nat) :
    Lin (fun x : List R => tab (cnt x.length) fun i => getN x (idx x.length i)) := by
  intro a b x y hxy
  refine ⟨?_, by simp [hxy]⟩
  simp only [lincomb_length]
  apply list_ext_getN
  · simp [hxy]
  · intro i hi
    simp only [length_tab] at hi
    have hly : (tab (cnt x.length) fun i => getN x (idx x.length i)).length
        = (tab (cnt y.length) fun i => getN y (idx y.length i)).length := by simp [hxy]
    rw [getN_tab, if_pos hi, getN_lincomb a b x y hxy, getN_lincomb a b _ _ hly, getN_tab, if_pos hi, getN_tab,
      if_pos (by rw [← hxy]; exact hi), hxy]

theorem lin_slice2 (p q : Int) : Lin (fun x : List R => slice2 x p q) := by
  unfold slice2
  exact lin_gather (fun n => (pyBound n q - pyBound n p + 1) / 2) (fun n i => pyBound n p + 2*i)

theorem lin_slice2From (p : Int) : Lin (fun x : List R => slice2From x p) := by
  unfold slice2From slice2
  exact lin_gather (fun n => (pyBound n (n:Int) - pyBound n p + 1) / 2) (fun n i => pyBound n p + 2*i)

theorem lin_symmPad (m : Nat) : Lin (fun x : List R => symmPad x m) := by
  unfold symmPad; exact lin_padIdx symIdx m m

/-- element-wise sum of two linear maps (length of the first) -/
theorem lin_vadd {F G : List R → List R} (hF : Lin F) (hG : Lin G) : Lin (fun x => vadd (F x) (G x)) := by
  intro a b x y hxy
  obtain ⟨f1, f2⟩ := hF a b x y hxy
  obtain ⟨g1, g2⟩ := hG a b x y hxy
  refine ⟨?_, by simp [vadd, f2]⟩
  simp only [f1, g1]
  apply list_ext_getN
  · simp [vadd]
  · intro i hi
    simp only [vadd, length_tab, lincomb_length] at hi
    have hl : (vadd (F x) (G x)).length = (vadd (F y) (G y)).length := by simp [vadd, f2]
    rw [getN_vadd _ _ _ (by rw [lincomb_length]; exact hi), getN_lincomb a b _ _ f2, getN_lincomb a b _ _ g2,
      getN_lincomb a b _ _ hl, getN_vadd _ _ _ hi, getN_vadd _ _ _ (by rw [← f2]; exact hi)]
    ring

theorem getN_interleave2 (u v : List R) (i : Nat) (hi : i < 2 * u.length) :
    getN (interleave2 u v) i = if i % 2 = 0 then getN u (i/2) else getN v (i/2) := by
  unfold interleave2; rw [getN_tab, if_pos hi]

theorem getN_interleave4 (u v w z : List R) (i : Nat) (hi : i < 4 * u.length) :
    getN (interleave4 u v w z) i
      = match i % 4 with
        | 0 => getN u (i/4) | 1 => getN v (i/4) | 2 => getN w (i/4) | _ => getN z (i/4) := by
  unfold interleave4; rw [getN_tab, if_pos hi]
  rcases (show i % 4 = 0 ∨ i % 4 = 1 ∨ i % 4 = 2 ∨ i % 4 = 3 by omega) with h | h | h | h <;> simp [h]

/-- `stack((a, b)).view(…)`: interleaving two linear maps -/
theorem lin_interleave2 {F G : List R → List R} (hF : Lin F) (hG : Lin G) :
    Lin (fun x => interleave2 (F x) (G x)) := by
  intro a b x y hxy
  obtain ⟨f1, f2⟩ := hF a b x y hxy
  obtain ⟨g1, g2⟩ := hG a b x y hxy
  refine ⟨?_, by simp [interleave2, f2]⟩
  simp only [f1, g1]
  apply list_ext_getN
  · simp [interleave2]
  · intro i hi
    simp only [interleave2, length_tab, lincomb_length] at hi
    have hl : (interleave2 (F x) (G x)).length = (interleave2 (F y) (G y)).length := by simp [interleave2, f2]
    rw [getN_lincomb a b _ _ hl, getN_interleave2 _ _ i (by rw [lincomb_length]; exact hi), getN_interleave2 _ _ i hi,
      getN_interleave2 _ _ i (by rw [← f2]; exact hi)]
    split
    · rw [getN_lincomb a b _ _ f2]
    · rw [getN_lincomb a b _ _ g2]

theorem lin_interleave4 {F1 F2 F3 F4 : List R → List R} (h1 : Lin F1) (h2 : Lin F2) (h3 : Lin F3) (h4 : Lin F4) :
    Lin (fun x => interleave4 (F1 x) (F2 x) (F3 x) (F4 x)) := by
  intro a b x y hxy
  obtain ⟨a1, a2⟩ := h1 a b x y hxy
  obtain ⟨b1, b2⟩ := h2 a b x y hxy
  obtain ⟨c1, c2⟩ := h3 a b x y hxy
  obtain ⟨d1, d2⟩ := h4 a b x y hxy
  refine ⟨?_, by simp [interleave4, a2]⟩
  simp only [a1, b1, c1, d1]
  apply list_ext_getN
  · simp [interleave4]
  · intro i hi
    simp only [interleave4, length_tab, lincomb_length] at hi
    have hl : (interleave4 (F1 x) (F2 x) (F3 x) (F4 x)).length = (interleave4 (F1 y) (F2 y) (F3 y) (F4 y)).length := by
      simp [interleave4, a2]
    rw [getN_lincomb a b _ _ hl, getN_interleave4 _ _ _ _ i (by rw [lincomb_length]; exact hi), getN_interleave4 _ _ _ _ i hi,
      getN_interleave4 _ _ _ _ i (by rw [← a2]; exact hi)]
    split
    · rw [getN_lincomb a b _ _ a2]
    · rw [getN_lincomb a b _ _ b2]
    · rw [getN_lincomb a b _ _ c2]
    · rw [getN_lincomb a b _ _ d2]

/-! ### transposed convolution -/

theorem lin_convTFull (w : List R) : Lin (fun g : List R => convTFull w g) := by
  intro a b x y hxy
  refine ⟨?_, by simp [convTFull, hxy]⟩
  unfold convTFull
  simp only [lincomb_length]
  apply list_ext_getN
  · simp [hxy]
  · intro i hi
    simp only [length_tab] at hi
    have hi' : i < 2 * (y.length - 1) + w.length := by rw [← hxy]; exact hi
    rw [getN_tab, if_pos hi, getN_lincomb a b _ _ (by simp [hxy]), getN_tab, if_pos hi, getN_tab, if_pos hi']
    rw [sumN_eq, sumN_eq, sumN_eq, hxy, Finset.mul_sum, Finset.mul_sum, ← Finset.sum_add_distrib]
    apply Finset.sum_congr rfl; intro k _
    rw [getN_lincomb a b x y hxy]; ring

theorem lin_convT (w : List R) (P : Nat) : Lin (fun g : List R => convT w g P) := by
  unfold convT
  exact Lin.comp (F := fun full : List R => tab (full.length - 2*P) fun i => getN full (i + P))
    (lin_gather (fun n => n - 2*P) (fun _ i => i + P)) (lin_convTFull w)

/-! ### the synthesis bank is linear in the pair (lo, hi) -/

/-- a map of two lists that is linear in the pair: `vadd (F lo) (G hi)` followed by a linear map -/
theorem pair_linear {F G K : List R → List R} (hF : Lin F) (hG : Lin G) (hK : Lin K) (a b : R)
    (lo lo' hi hi' : List R) (hl : lo.length = lo'.length) (hh : hi.length = hi'.length) :
    K (vadd (F (lincomb a b lo lo')) (G (lincomb a b hi hi')))
      = lincomb a b (K (vadd (F lo) (G hi))) (K (vadd (F lo') (G hi'))) := by
  obtain ⟨f1, f2⟩ := hF a b lo lo' hl
  obtain ⟨g1, g2⟩ := hG a b hi hi' hh
  have hv : vadd (lincomb a b (F lo) (F lo')) (lincomb a b (G hi) (G hi'))
      = lincomb a b (vadd (F lo) (G hi)) (vadd (F lo') (G hi')) := by
    apply list_ext_getN
    · simp [vadd]
    · intro i hi2
      simp only [vadd, length_tab, lincomb_length] at hi2
      have hl2 : (vadd (F lo) (G hi)).length = (vadd (F lo') (G hi')).length := by simp [vadd, f2]
      rw [getN_vadd _ _ _ (by rw [lincomb_length]; exact hi2), getN_lincomb a b _ _ f2, getN_lincomb a b _ _ g2,
        getN_lincomb a b _ _ hl2, getN_vadd _ _ _ hi2, getN_vadd _ _ _ (by rw [← f2]; exact hi2)]
      ring
  rw [f1, g1, hv]
  exact (hK a b _ _ (by simp [vadd, f2])).1

/-- **`sfb1d` is linear in the pair of bands in every mode** (zero, symmetric, reflect, periodic: two transposed
convolutions cropped by `L−2`; periodization: fold and roll), and whether it raises depends on lengths only -/
theorem sfb1dCh_linear (m : Mode) (g0 g1 lo lo' hi hi' : List R) (a b : R) (hl : lo.length = lo'.length)
    (hh : hi.length = hi'.length) :
    sfb1dCh m g0 g1 (lincomb a b lo lo') (lincomb a b hi hi')
      = (sfb1dCh m g0 g1 lo hi).bind fun u => (sfb1dCh m g0 g1 lo' hi').bind fun v => some (lincomb a b u v) := by
  unfold sfb1dCh
  simp only [lincomb_length, ← hl, ← hh]
  by_cases hg : g0.length < 2 ∨ g1.length ≠ g0.length ∨ lo.length < 1 ∨ hi.length ≠ lo.length
  · rw [if_pos hg, if_pos hg]; rfl
  · rw [if_neg hg, if_neg hg, if_neg hg]
    have hpad : ∀ (c : Prop) [Decidable c],
        (if c then (none : Option (List R)) else
          some (vadd (convT g0 (lincomb a b lo lo') (g0.length - 2)) (convT g1 (lincomb a b hi hi') (g0.length - 2))))
        = (if c then none else some (vadd (convT g0 lo (g0.length - 2)) (convT g1 hi (g0.length - 2)))).bind fun u =>
          (if c then none else some (vadd (convT g0 lo' (g0.length - 2)) (convT g1 hi' (g0.length - 2)))).bind fun v =>
            some (lincomb a b u v) := by
      intro c _
      by_cases hc : c
      · simp [hc]
      · simp only [hc, if_false, Option.bind_some]
        have := pair_linear (lin_convT g0 (g0.length - 2)) (lin_convT g1 (g0.length - 2)) lin_id a b lo lo' hi hi' hl hh
        rw [this]
    cases m with
    | periodization =>
      simp only [Option.bind_some]
      have hK : Lin (fun y : List R => rollPy ((foldAdd y (g0.length - 2) (2 * lo.length)).take (2 * lo.length))
          (1 - ((g0.length / 2 : Nat) : Int))) := by
        have hroll : Lin (fun x : List R => rollPy x (1 - ((g0.length / 2 : Nat) : Int))) := by
          unfold rollPy sliceFrom sliceTo
          exact Lin.append
            (Lin.dep (fun n => pyBound n (-(if (1 - ((g0.length / 2 : Nat) : Int)) < 0 then (n:Int) + (1 - ((g0.length / 2 : Nat) : Int)) else (1 - ((g0.length / 2 : Nat) : Int)))))
              (fun q x => x.drop q) (fun q => lin_drop q))
            (Lin.dep (fun n => pyBound n (-(if (1 - ((g0.length / 2 : Nat) : Int)) < 0 then (n:Int) + (1 - ((g0.length / 2 : Nat) : Int)) else (1 - ((g0.length / 2 : Nat) : Int)))))
              (fun q x => x.take q) (fun q => lin_take q))
        exact hroll.comp ((lin_take _).comp (lin_foldAdd _ _))
      have := pair_linear (lin_convTFull g0) (lin_convTFull g1) hK a b lo lo' hi hi' hl hh
      rw [this]
    | zero => exact hpad _
    | symmetric => exact hpad _
    | reflect => exact hpad _
    | periodic => exact hpad _
    | constant => simp
    | replicate => simp

/-- `afb1d_atrous` (the stationary transform's filter) is linear in every mode it accepts -/
theorem afb1dAtrousOne_guardedLin (m : Mode) (d : Nat) (w : List R) : GuardedLin (afb1dAtrousOne m d w) := by
  cases m with
  | periodic =>
    refine ⟨fun n => !(decide (w.length < 2 ∨ n < 1 ∨ d < 1 ∨ (w.length * d) / 2 < d)),
      fun x => corr w (padIdx perIdx x ((w.length * d) / 2 - d) ((w.length * d) / 2)) 1 d,
      (lin_corr w 1 d).comp (lin_padIdx perIdx _ _), ?_⟩
    intro x; rw [guard_key]; rfl
  | symmetric =>
    refine ⟨fun n => !(decide (w.length < 2 ∨ n < 1 ∨ d < 1 ∨ (w.length * d) / 2 < d)),
      fun x => corr w (padIdx symIdx x ((w.length * d) / 2 - d) ((w.length * d) / 2)) 1 d,
      (lin_corr w 1 d).comp (lin_padIdx symIdx _ _), ?_⟩
    intro x; rw [guard_key]; rfl
  | zero =>
    refine ⟨fun n => !(decide (w.length < 2 ∨ n < 1 ∨ d < 1 ∨ (w.length * d) / 2 < d)),
      fun x => corr w (zeroPad x ((w.length * d) / 2 - d) ((w.length * d) / 2)) 1 d,
      (lin_corr w 1 d).comp (lin_zeroPad _ _), ?_⟩
    intro x; rw [guard_key]; rfl
  | reflect =>
    refine ⟨fun n => !(decide (w.length < 2 ∨ n < 1 ∨ d < 1 ∨ (w.length * d) / 2 < d))
        && decide ((w.length * d) / 2 - d < n ∧ (w.length * d) / 2 < n),
      fun x => corr w (padIdx reflIdx x ((w.length * d) / 2 - d) ((w.length * d) / 2)) 1 d,
      (lin_corr w 1 d).comp (lin_padIdx reflIdx _ _), ?_⟩
    intro x; rw [guard_key2]; rfl
  | periodization =>
    refine ⟨fun _ => false, fun x => x, lin_id, ?_⟩
    intro x; unfold afb1dAtrousOne
    by_cases hg : w.length < 2 ∨ x.length < 1 ∨ d < 1 ∨ (w.length * d) / 2 < d <;> simp [hg]
  | constant =>
    refine ⟨fun _ => false, fun x => x, lin_id, ?_⟩
    intro x; unfold afb1dAtrousOne
    by_cases hg : w.length < 2 ∨ x.length < 1 ∨ d < 1 ∨ (w.length * d) / 2 < d <;> simp [hg]
  | replicate =>
    refine ⟨fun _ => false, fun x => x, lin_id, ?_⟩
    intro x; unfold afb1dAtrousOne
    by_cases hg : w.length < 2 ∨ x.length < 1 ∨ d < 1 ∨ (w.length * d) / 2 < d <;> simp [hg]

theorem afb1dAtrousOne_linear (m : Mode) (d : Nat) (w x y : List R) (a b : R) (hxy : x.length = y.length) :
    afb1dAtrousOne m d w (lincomb a b x y)
      = (afb1dAtrousOne m d w x).bind fun u => (afb1dAtrousOne m d w y).bind fun v => some (lincomb a b u v) :=
  (afb1dAtrousOne_guardedLin m d w).linear a b x y hxy

/-! ### the DTCWT column filters -/

/-- `colfilter` (level 1) is linear for every buffer, in both padding modes -/
theorem colfilter1_lin (sym : Bool) (w : List R) : Lin (colfilter1 sym w) := by
  unfold colfilter1
  cases sym
  · simp only [Bool.false_eq_true, if_false]
    exact (lin_corr w 1 1).comp (lin_zeroPad _ _)
  · simp only [if_true]
    exact (lin_corr w 1 1).comp (lin_symmPad _)

theorem colfilter1_linear (sym : Bool) (w x y : List R) (a b : R) (hxy : x.length = y.length) :
    colfilter1 sym w (lincomb a b x y) = lincomb a b (colfilter1 sym w x) (colfilter1 sym w y) :=
  (colfilter1_lin sym w a b x y hxy).1

/-- `coldfilt` (levels ≥ 2, analysis): guard on the length, then a linear map -/
theorem coldfilt1_guardedLin (ha hb : List R) (hp : Bool) : GuardedLin (coldfilt1 ha hb hp) := by
  have hA : Lin (fun x : List R => corr ha (slice2From (symmPad x ha.length) 2) 2 1) :=
    (lin_corr ha 2 1).comp ((lin_slice2From 2).comp (lin_symmPad _))
  have hB : Lin (fun x : List R => corr hb (slice2From (symmPad x ha.length) 3) 2 1) :=
    (lin_corr hb 2 1).comp ((lin_slice2From 3).comp (lin_symmPad _))
  refine ⟨fun n => !(decide (n % 4 ≠ 0 ∨ n = 0)),
    fun x => if hp then interleave2 (corr hb (slice2From (symmPad x ha.length) 3) 2 1) (corr ha (slice2From (symmPad x ha.length) 2) 2 1)
      else interleave2 (corr ha (slice2From (symmPad x ha.length) 2) 2 1) (corr hb (slice2From (symmPad x ha.length) 3) 2 1),
    lin_const_ite _ (lin_interleave2 hB hA) (lin_interleave2 hA hB), ?_⟩
  intro x
  rw [guard_key]; rfl

theorem coldfilt1_linear (ha hb : List R) (hp : Bool) (x y : List R) (a b : R) (hxy : x.length = y.length) :
    coldfilt1 ha hb hp (lincomb a b x y)
      = (coldfilt1 ha hb hp x).bind fun u => (coldfilt1 ha hb hp y).bind fun v => some (lincomb a b u v) :=
  (coldfilt1_guardedLin ha hb hp).linear a b x y hxy

/-- `colifilt` (levels ≥ 2, synthesis): guard on the length, then a linear map -/
theorem colifilt1_guardedLin (ha hb : List R) (hp : Bool) : GuardedLin (colifilt1 ha hb hp) := by
  have br : ∀ (h : List R) (p : Int) (q : Option Int),
      Lin (fun x : List R => corr h (match q with | some q => slice2 (symmPad x (ha.length/2)) p q | none => slice2From (symmPad x (ha.length/2)) p) 1 1) := by
    intro h p q
    cases q with
    | none => exact (lin_corr h 1 1).comp ((lin_slice2From p).comp (lin_symmPad _))
    | some q => exact (lin_corr h 1 1).comp ((lin_slice2 p q).comp (lin_symmPad _))
  refine ⟨fun n => !(decide (n % 2 ≠ 0 ∨ n = 0)),
    fun x =>
      if (ha.length/2) % 2 = 0 then
        (if hp then interleave4 (corr (slice2From ha 0) (slice2 (symmPad x (ha.length/2)) 1 (-2)) 1 1)
            (corr (slice2From hb 0) (slice2 (symmPad x (ha.length/2)) 0 (-2)) 1 1)
            (corr (slice2From ha 1) (slice2From (symmPad x (ha.length/2)) 3) 1 1)
            (corr (slice2From hb 1) (slice2From (symmPad x (ha.length/2)) 2) 1 1)
         else interleave4 (corr (slice2From ha 0) (slice2 (symmPad x (ha.length/2)) 0 (-2)) 1 1)
            (corr (slice2From hb 0) (slice2 (symmPad x (ha.length/2)) 1 (-2)) 1 1)
            (corr (slice2From ha 1) (slice2From (symmPad x (ha.length/2)) 2) 1 1)
            (corr (slice2From hb 1) (slice2From (symmPad x (ha.length/2)) 3) 1 1))
      else
        (if hp then interleave4 (corr (slice2From ha 1) (slice2 (symmPad x (ha.length/2)) 2 (-1)) 1 1)
            (corr (slice2From hb 1) (slice2 (symmPad x (ha.length/2)) 1 (-1)) 1 1)
            (corr (slice2From ha 0) (slice2 (symmPad x (ha.length/2)) 2 (-1)) 1 1)
            (corr (slice2From hb 0) (slice2 (symmPad x (ha.length/2)) 1 (-1)) 1 1)
         else interleave4 (corr (slice2From ha 1) (slice2 (symmPad x (ha.length/2)) 1 (-1)) 1 1)
            (corr (slice2From hb 1) (slice2 (symmPad x (ha.length/2)) 2 (-1)) 1 1)
            (corr (slice2From ha 0) (slice2 (symmPad x (ha.length/2)) 1 (-1)) 1 1)
            (corr (slice2From hb 0) (slice2 (symmPad x (ha.length/2)) 2 (-1)) 1 1)),
    ?_, ?_⟩
  · apply lin_const_ite
    · apply lin_const_ite
      · exact lin_interleave4 (br _ 1 (some (-2))) (br _ 0 (some (-2))) (br _ 3 none) (br _ 2 none)
      · exact lin_interleave4 (br _ 0 (some (-2))) (br _ 1 (some (-2))) (br _ 2 none) (br _ 3 none)
    · apply lin_const_ite
      · exact lin_interleave4 (br _ 2 (some (-1))) (br _ 1 (some (-1))) (br _ 2 (some (-1))) (br _ 1 (some (-1)))
      · exact lin_interleave4 (br _ 1 (some (-1))) (br _ 2 (some (-1))) (br _ 1 (some (-1))) (br _ 2 (some (-1)))
  · intro x
    rw [guard_key]
    unfold colifilt1
    by_cases hg : x.length % 2 ≠ 0 ∨ x.length = 0
    · rw [if_pos hg, if_pos hg]
    · rw [if_neg hg, if_neg hg]
      by_cases hm : (ha.length/2) % 2 = 0 <;> cases hp <;> simp [hm]

theorem colifilt1_linear (ha hb : List R) (hp : Bool) (x y : List R) (a b : R) (hxy : x.length = y.length) :
    colifilt1 ha hb hp (lincomb a b x y)
      = (colifilt1 ha hb hp x).bind fun u => (colifilt1 ha hb hp y).bind fun v => some (lincomb a b u v) :=
  (colifilt1_guardedLin ha hb hp).linear a b x y hxy

end WV.C07D
