/-
  C08 — value refinement of the SECOND-order scattering layer WITH colour combination (non-band-pass families), for ANY
  square-root operation.

  On three colour channels whose sides are multiples of 8 the implementation model of `ScatLayerj2_f.forward` with
  `combine_colour=True` — level-1 DTCWT of every colour, ONE joint magnitude per orientation over the three colours, level-2
  DTCWT of the three level-1 low-passes with joint magnitudes again, a second level-1 DTCWT of the six joint first-order
  magnitude images, 2×2 average pooling, the 51-channel packing `[3 × S0 | 6 pooled S1 | 6 S1 (scale 2) | 36 S2]` — equals the
  composition of the REFERENCE transforms `Spec.refLevel1` / `Spec.refLevel2` with those formulas (`Spec.scat2c`).
-/
import WaveletsVerif.Properties.C08Q
namespace WV
namespace Spec
variable {α : Type}

/-- reference second-order scattering of one RGB batch item with colour combination (sides multiples of 8) -/
def scat2c [Add α] [Sub α] [Mul α] [OfNat α 0] (m : MagOps α) (h0o h1o h0a h0b h1a h1b : List α) (x : List (Img α)) :
    List (Img α) :=
  let r1 := x.map fun im => refLevel1 m.s h0o h1o im
  let g1 := fun c o => ((r1.getD c ([], [])).2).getD o ([], [])
  let s1j1 := (List.range 6).map fun o => subBias m (magR3 m (g1 0 o) (g1 1 o) (g1 2 o))
  let r2 := r1.map fun p => refLevel2 m.s h0a h0b h1a h1b p.1
  let g2 := fun c o => ((r2.getD c ([], [])).2).getD o ([], [])
  let s1j2 := (List.range 6).map fun o => subBias m (magR3 m (g2 0 o) (g2 1 o) (g2 2 o))
  let s0 := r2.map fun p => avgPool2 m.q p.1
  let r3 := s1j1.map fun im => refLevel1 m.s h0o h1o im
  let s2 := ((List.range 6).map fun o2 => r3.map fun p => subBias m (magR m (p.2.getD o2 ([], [])))).flatten
  let s1p := r3.map fun p => avgPool2 m.q p.1
  s0 ++ s1p ++ s1j2 ++ s2

end Spec

namespace C08R
open WV.C04 WV.C04P WV.C03P WV.C11P WV.C08Q
variable {R : Type} [CommRing R]

theorem subBias_magR3_rect (m : MagOps R) (c0 c1 c2 : Cplx R) (r w : Nat) (hr : 1 ≤ r) (hl : c0.1.length = r) (hw : Img.width c0.1 = w) :
    Rect (subBias m (magR3 m c0 c1 c2)) r w := by
  unfold subBias magR3
  rw [hl, hw]
  constructor
  · simp [tab2]
  · intro row hrow
    simp only [List.mem_map] at hrow
    obtain ⟨row0, h0, rfl⟩ := hrow
    have := (tab2_rect r w (fun i j => m.sq (get2 c0.1 i j * get2 c0.1 i j + get2 c0.2 i j * get2 c0.2 i j +
      get2 c1.1 i j * get2 c1.1 i j + get2 c1.2 i j * get2 c1.2 i j + get2 c2.1 i j * get2 c2.1 i j + get2 c2.2 i j * get2 c2.2 i j + m.b * m.b))).2 row0 h0
    simp [this]

/-- **the second-order scattering layer with colour combination is the reference DTCWT (levels 1 and 2) composed with the
joint-magnitude formulas**, every RGB image with sides multiples of 8, any square-root operation -/
theorem scatJ2_colour_eq_spec (m : MagOps R) (h0o h1o h0a h0b h1a h1b : List R) (hh0 : h0o.length % 2 = 1) (hh1 : h1o.length % 2 = 1)
    (hl0 : 1 ≤ h0b.length) (hab0 : h0a.length = h0b.length) (hl1 : 1 ≤ h1b.length) (hab1 : h1a.length = h1b.length)
    (x : List (Img R)) (hx3 : x.length = 3) (a b : Nat) (ha : 1 ≤ a) (hb : 1 ≤ b) (hx : ∀ im ∈ x, Rect im (8*a) (8*b)) :
    scatJ2 m true (mkS2 h0o h1o h0a h0b h1a h1b) true x = some (Spec.scat2c m h0o h1o h0a h0b h1a h1b x) := by
  have hguard : ¬ (x.any (fun im => im.length % 8 ≠ 0 ∨ Img.width im % 8 ≠ 0) = true) := by
    rw [List.any_eq_true]
    rintro ⟨im, him, hodd⟩
    have r := hx im him
    have hw := rect_width _ _ _ r (by omega)
    simp only [r.1, hw, decide_eq_true_eq] at hodd
    omega
  have hx2 : ∀ im ∈ x, Rect im (2*(4*a)) (2*(4*b)) := by
    intro im him; have := hx im him
    rw [show 2*(4*a) = 8*a by ring, show 2*(4*b) = 8*b by ring]; exact this
  have hmap1 : x.map (fwd1 m true (prepFilt h0o) (prepFilt h1o) none) = x.map fun im => Spec.refLevel1 m.s h0o h1o im := by
    apply List.map_congr_left
    intro im him
    exact fwd1_eq m h0o h1o hh0 hh1 im (4*a) (4*b) (by omega) (by omega) (hx2 im him)
  have hlow : ∀ p ∈ (x.map fun im => Spec.refLevel1 m.s h0o h1o im), Rect p.1 (4*(2*a)) (4*(2*b)) := by
    intro p hp
    obtain ⟨im, him, rfl⟩ := List.mem_map.mp hp
    have := refLevel1_rect m.s h0o h1o hh0 im (4*a) (4*b) (by omega) (by omega) (hx2 im him)
    rw [show 4*(2*a) = 2*(4*a) by ring, show 4*(2*b) = 2*(4*b) by ring]; exact this
  have hmap2 : (x.map fun im => Spec.refLevel1 m.s h0o h1o im).mapM
        (fun p => fwd2 m (prepFilt h0a) (prepFilt h1a) (prepFilt h0b) (prepFilt h1b) none p.1)
      = some ((x.map fun im => Spec.refLevel1 m.s h0o h1o im).map fun p => Spec.refLevel2 m.s h0a h0b h1a h1b p.1) := by
    apply mapM_total
    intro p hp
    exact fwd2_eq m h0a h0b h1a h1b hl0 hab0 hl1 hab1 p.1 (2*a) (2*b) (by omega) (by omega) (hlow p hp)
  -- the six joint first-order magnitude images are `4a × 4b` (the shape of the bands of colour 0)
  obtain ⟨x0, rest, hxe⟩ : ∃ x0 rest, x = x0 :: rest := by
    cases x with
    | nil => simp at hx3
    | cons a b => exact ⟨a, b, rfl⟩
  have hx0 : Rect x0 (2*(4*a)) (2*(4*b)) := hx2 x0 (by rw [hxe]; simp)
  have hg0 : ((x.map fun im => Spec.refLevel1 m.s h0o h1o im).getD 0 ([], [])) = Spec.refLevel1 m.s h0o h1o x0 := by
    rw [hxe]; rfl
  have hs1 : ∀ im ∈ ((List.range 6).map fun o => subBias m (magR3 m
        (((x.map fun im => Spec.refLevel1 m.s h0o h1o im).getD 0 ([], [])).2.getD o ([], []))
        (((x.map fun im => Spec.refLevel1 m.s h0o h1o im).getD 1 ([], [])).2.getD o ([], []))
        (((x.map fun im => Spec.refLevel1 m.s h0o h1o im).getD 2 ([], [])).2.getD o ([], [])))), Rect im (2*(2*a)) (2*(2*b)) := by
    intro im him
    obtain ⟨o, ho, rfl⟩ := List.mem_map.mp him
    rw [hg0]
    have hbands := refLevel1_bands m.s h0o h1o hh0 hh1 x0 (4*a) (4*b) (by omega) (by omega) hx0 o (by simpa using ho)
    rw [show 2*(2*a) = 4*a by ring, show 2*(2*b) = 4*b by ring]
    exact subBias_magR3_rect m _ _ _ (4*a) (4*b) (by omega) hbands.1 hbands.2
  have hmap3 := List.map_congr_left (f := fwd1 m true (prepFilt h0o) (prepFilt h1o) none) (g := fun im => Spec.refLevel1 m.s h0o h1o im)
    (fun im him => fwd1_eq m h0o h1o hh0 hh1 im (2*a) (2*b) (by omega) (by omega) (hs1 im him))
  unfold scatJ2
  rw [if_neg hguard]
  have h3 : ¬ (x.length ≠ 3) := by rw [hx3]; simp
  simp only [mkS2, Bool.not_true, Bool.false_eq_true, if_false, if_true, h3, hmap1, hmap2, hmap3, Option.bind_eq_bind, Option.bind_some,
    Spec.scat2c, Option.pure_def]

/-- **`ScatLayerj2(combine_colour=True)` (module: extension to multiples of 8, then the Function) = reference + joint-magnitude
formulas**, every RGB image with at least 4 rows and columns -/
theorem ScatLayerj2_colour_eq_spec (m : MagOps R) (h0o h1o h0a h0b h1a h1b : List R) (hh0 : h0o.length % 2 = 1) (hh1 : h1o.length % 2 = 1)
    (hl0 : 1 ≤ h0b.length) (hab0 : h0a.length = h0b.length) (hl1 : 1 ≤ h1b.length) (hab1 : h1a.length = h1b.length)
    (x : List (Img R)) (hx3 : x.length = 3) (H W : Nat) (hH : 4 ≤ H) (hW : 4 ≤ W) (hx : ∀ im ∈ x, Rect im H W) :
    ScatLayerj2 m true (mkS2 h0o h1o h0a h0b h1a h1b) true x
      = some (Spec.scat2c m h0o h1o h0a h0b h1a h1b (x.map pad8Img)) := by
  unfold ScatLayerj2
  apply scatJ2_colour_eq_spec m h0o h1o h0a h0b h1a h1b hh0 hh1 hl0 hab0 hl1 hab1 _ (by simp [hx3]) ((H + 7) / 8) ((W + 7) / 8) (by omega) (by omega)
  intro im him
  obtain ⟨im0, h0, rfl⟩ := List.mem_map.mp him
  exact pad8Img_rect im0 H W (hx im0 h0) hH hW

end C08R
end WV
