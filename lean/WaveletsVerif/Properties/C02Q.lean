/-
  C01 / C10 / C02 — the whole 1-D pyramid in PERIODIZATION mode, every number of levels, every signal length (odd
  lengths included), wherever the even filter length fits the levels (`LevelsFit1`: `L ≤ N + N % 2` at every level):

    `DWT1DForward = pywt.wavedec`                         (`DWT1DForward_per_eq_wavedec_all`, generalises C17J to odd lengths),
    `DWT1DInverse = pywt.waverec` on compatible pyramids  (`DWT1DInverse_per_eq_waverec`, `None` levels and un-pad rule included),
    `waverec(wavedec(x))` starts with `x`, ≤ 1 sample longer, for every J and every length (`pyramid_pr_per`, no fit needed),
    `DWT1DInverse(DWT1DForward(x))` returns `x` (plus at most one trailing sample)        (`DWT1D_roundtrip_per`).
-/
import WaveletsVerif.Properties.C02J
import WaveletsVerif.Properties.C10P
import WaveletsVerif.Properties.C05P
namespace WV.C02Q
open Finset WV WV.C02 WV.C02J WV.C10 WV.C10P
variable {R : Type} [CommRing R]

/-- at every level the filter fits: `L ≤ N + N % 2`; the next level has `⌈N/2⌉` samples -/
def LevelsFit1 (L : Nat) : Nat → Nat → Prop
  | 0, _ => True
  | J+1, N => L ≤ N + N % 2 ∧ LevelsFit1 L J ((N + N % 2) / 2)

theorem dwt_per_len (h x : List R) : (Spec.dwt .periodization h x).length = (x.length + x.length % 2) / 2 :=
  C05P.Ap_length h x

/-- **`DWT1DForward` in periodization mode = `pywt.wavedec` for every J and every length**, odd lengths included -/
theorem DWT1DForward_per_eq_wavedec_all (h0 h1 : List R) (hL : 2 ≤ h0.length) (hLe : h0.length % 2 = 0) (hh1 : h1.length = h0.length) :
    ∀ (J : Nat) (x : List R), 1 ≤ x.length → LevelsFit1 h0.length J x.length →
    DWT1DForwardM .periodization J h0 h1 [x]
      = some ([(Spec.wavedec .periodization h0 h1 J x).1], (Spec.wavedec .periodization h0 h1 J x).2.map fun d => [d]) := by
  intro J
  unfold DWT1DForwardM
  induction J with
  | zero => intro x _ _; simp [DWT1DForward, Spec.wavedec]
  | succ J ih =>
    intro x hN hok
    obtain ⟨hLN, hrest⟩ := hok
    have e0 := C01.afb1dOne_per_eq_dwt_partial_all h0 x hLe hL hN hLN
    have e1 := C01.afb1dOne_per_eq_dwt_partial_all h1 x (by omega) (by omega) hN (by omega)
    have hstep : AFB1D_forward .periodization h0.reverse h1.reverse [x]
        = some ([Spec.dwt .periodization h0 x], [Spec.dwt .periodization h1 x]) := by
      unfold AFB1D_forward
      simp only [List.map_cons, List.map_nil]
      rw [afb1dT_one]
      have a0 : alongO .W (afb1dOne .periodization h0.reverse) [x] = some [Spec.dwt .periodization h0 x] := by
        simp [alongO, alongWO, e0]
      have a1 : alongO .W (afb1dOne .periodization h1.reverse) [x] = some [Spec.dwt .periodization h1 x] := by
        simp [alongO, alongWO, e1]
      rw [a0, a1]
      simp [tab, List.range, List.range.loop]
    simp only [DWT1DForward, Spec.wavedec]
    rw [hstep]
    simp only [Option.bind_eq_bind, Option.bind_some]
    rw [ih (Spec.dwt .periodization h0 x) (by rw [dwt_per_len]; omega) (by rw [dwt_per_len]; exact hrest)]
    simp

/-- shapes a forward transform in periodization produces, with the fit condition of the periodized synthesis -/
def StepOKP (g0 : List R) (a : List R) (d : Option (List R)) : Prop :=
  let n := match d with
    | some v => v.length
    | none => a.length
  (a.length = n ∨ a.length = n + 1) ∧ 1 ≤ n ∧ g0.length - 2 ≤ 2 * n

def CompatP (g0 g1 : List R) : List R → List (Option (List R)) → Prop
  | _, [] => True
  | a, d :: rest => StepOKP g0 a d ∧ CompatP g0 g1 (stepS .periodization g0 g1 a d) rest

/-- one level of `DWT1DInverse` in periodization = one level of `waverec` -/
theorem step_eq_per (g0 g1 : List R) (hL : 2 ≤ g0.length) (hg : g1.length = g0.length) (a : List R) (d : Option (List R))
    (hok : StepOKP g0 a d) :
    DWT1DInverse_step .periodization g0 g1 [a] (d.map fun v => [v]) = some [stepS .periodization g0 g1 a d] := by
  unfold DWT1DInverse_step stepS
  cases d with
  | some v =>
    obtain ⟨hlen, hn, hfit⟩ := hok
    simp only [Option.map_some, List.headD_cons, List.map_cons, List.map_nil] at *
    by_cases hgt : a.length > v.length
    · have h1 : a.length = v.length + 1 := by omega
      simp only [hgt, if_true, h1]
      unfold SFB1D_forward sfb1dT sfb1dImg
      simp [List.range, List.range.loop]
      rw [sfb1dCh_per_eq_idwt_partial g0 g1 _ v hL hg (by simp; omega) (by simp; omega) (by simp; omega)]
      simp
    · have h1 : a.length = v.length := by omega
      have h2 : ¬ (a.length = v.length + 1) := by omega
      simp only [hgt, if_false, h2]
      unfold SFB1D_forward sfb1dT sfb1dImg
      simp [List.range, List.range.loop]
      rw [sfb1dCh_per_eq_idwt_partial g0 g1 a v hL hg (by omega) (by omega) (by rw [h1]; exact hfit)]
      simp
  | none =>
    obtain ⟨_, hn, hfit⟩ := hok
    simp only [Option.map_none, List.headD_cons, List.map_cons, List.map_nil, List.length_map] at *
    have h2 : ¬ (a.length = a.length + 1) := by omega
    simp only [gt_iff_lt, lt_self_iff_false, if_false, h2]
    unfold SFB1D_forward sfb1dT sfb1dImg
    simp [List.range, List.range.loop]
    rw [sfb1dCh_per_eq_idwt_partial g0 g1 a (List.replicate a.length 0) hL hg hn (by simp) hfit]
    simp

/-- **the J-level 1-D synthesis in periodization mode is `pywt.waverec`** on every compatible pyramid -/
theorem DWT1DInverse_per_eq_waverec (g0 g1 : List R) (hL : 2 ≤ g0.length) (hg : g1.length = g0.length) (a : List R)
    (ds : List (Option (List R))) (hc : CompatP g0 g1 a ds.reverse) :
    DWT1DInverse .periodization g0 g1 [a] (ds.map fun d => d.map fun v => [v]) = some [Spec.waverec .periodization g0 g1 a ds] := by
  rw [waverec_eq_foldl]
  unfold DWT1DInverse
  rw [← List.map_reverse]
  generalize ds.reverse = rs at hc
  induction rs generalizing a with
  | nil => simp
  | cons d rest ih =>
    obtain ⟨hok, hrest⟩ := hc
    simp only [List.map_cons, List.foldlM_cons, List.foldl_cons]
    rw [step_eq_per g0 g1 hL hg a d hok]
    simp only [Option.bind_eq_bind, Option.bind_some]
    exact ih _ hrest

section pr
variable (h0 h1 g0 g1 : List R) (hL : 2 ≤ h0.length) (hLe : h0.length % 2 = 0) (hh1 : h1.length = h0.length)
  (hg0 : g0.length = h0.length) (hg1 : g1.length = h0.length) (hpr : PRBank h0 h1 g0 g1)

include hL hLe hh1 hg0 hg1 hpr in
/-- one level: `idwt(dwt x)` starts with `x` and has `2⌈N/2⌉` samples -/
theorem level_pr_per (x : List R) (hN : 1 ≤ x.length) :
    (Spec.idwt .periodization g0 g1 (Spec.dwt .periodization h0 x) (Spec.dwt .periodization h1 x)).take x.length = x ∧
    ((Spec.idwt .periodization g0 g1 (Spec.dwt .periodization h0 x) (Spec.dwt .periodization h1 x)).length = x.length ∨
     (Spec.idwt .periodization g0 g1 (Spec.dwt .periodization h0 x) (Spec.dwt .periodization h1 x)).length = x.length + 1) := by
  have hlen : (Spec.idwt .periodization g0 g1 (Spec.dwt .periodization h0 x) (Spec.dwt .periodization h1 x)).length
      = 2 * ((x.length + x.length % 2) / 2) := by rw [idwt_per_length, dwt_per_len]
  refine ⟨?_, by rw [hlen]; omega⟩
  apply take_eq_of_getN
  · rw [hlen]; omega
  · intro t ht
    exact pr_periodization h0 h1 g0 g1 x hL hLe hh1 hg0 hg1 hpr hN t ht

include hL hLe hh1 hg0 hg1 hpr in
/-- **`waverec(wavedec(x))` in periodization starts with `x` and is at most one sample longer, for every J and length** -/
theorem pyramid_pr_per : ∀ (J : Nat) (x : List R), 1 ≤ x.length →
    (Spec.waverec .periodization g0 g1 (Spec.wavedec .periodization h0 h1 J x).1 ((Spec.wavedec .periodization h0 h1 J x).2.map some)).take x.length = x ∧
    ((Spec.waverec .periodization g0 g1 (Spec.wavedec .periodization h0 h1 J x).1 ((Spec.wavedec .periodization h0 h1 J x).2.map some)).length = x.length ∨
     (Spec.waverec .periodization g0 g1 (Spec.wavedec .periodization h0 h1 J x).1 ((Spec.wavedec .periodization h0 h1 J x).2.map some)).length = x.length + 1) := by
  intro J
  induction J with
  | zero =>
    intro x hN
    simp [Spec.wavedec, Spec.waverec]
  | succ J ih =>
    intro x hN
    have hK : (Spec.dwt .periodization h0 x).length = (x.length + x.length % 2) / 2 := dwt_per_len h0 x
    have hK1 : (Spec.dwt .periodization h1 x).length = (x.length + x.length % 2) / 2 := dwt_per_len h1 x
    have hK0 : 1 ≤ (Spec.dwt .periodization h0 x).length := by rw [hK]; omega
    obtain ⟨ih1, ih2⟩ := ih (Spec.dwt .periodization h0 x) hK0
    simp only [Spec.wavedec, List.map_cons]
    rw [waverec_eq_foldl, List.reverse_cons, List.foldl_append, ← waverec_eq_foldl]
    simp only [List.foldl_cons, List.foldl_nil]
    set Rc := Spec.waverec .periodization g0 g1 (Spec.wavedec .periodization h0 h1 J (Spec.dwt .periodization h0 x)).1
      ((Spec.wavedec .periodization h0 h1 J (Spec.dwt .periodization h0 x)).2.map some) with hRc
    have hstep : stepS .periodization g0 g1 Rc (some (Spec.dwt .periodization h1 x))
        = Spec.idwt .periodization g0 g1 (Spec.dwt .periodization h0 x) (Spec.dwt .periodization h1 x) := by
      unfold stepS
      simp only
      rcases ih2 with e | e
      · have hne : ¬ (Rc.length = (Spec.dwt .periodization h1 x).length + 1) := by rw [e, hK, hK1]; omega
        rw [if_neg hne]
        have : Rc = Spec.dwt .periodization h0 x := by
          rw [← ih1, ← e, List.take_length]
        rw [this]
      · have hye : Rc.length = (Spec.dwt .periodization h1 x).length + 1 := by rw [e, hK, hK1]
        rw [if_pos hye]
        have : Rc.take (Rc.length - 1) = Spec.dwt .periodization h0 x := by
          rw [← ih1, e]; congr 1
        rw [this]
    rw [hstep]
    exact level_pr_per h0 h1 g0 g1 hL hLe hh1 hg0 hg1 hpr x hN

include hL hLe hh1 hg0 hg1 hpr in
/-- the pyramid of a signal has the shapes the inverse accepts, wherever the filter fits the levels -/
theorem compat_wavedec_per : ∀ (J : Nat) (x : List R), 1 ≤ x.length → LevelsFit1 h0.length J x.length →
    CompatP g0 g1 (Spec.wavedec .periodization h0 h1 J x).1 ((Spec.wavedec .periodization h0 h1 J x).2.map some).reverse := by
  intro J
  induction J with
  | zero => intro x hN _; simp [Spec.wavedec, CompatP]
  | succ J ih =>
    intro x hN hfit
    obtain ⟨hLN, hfrest⟩ := hfit
    have hK : (Spec.dwt .periodization h0 x).length = (x.length + x.length % 2) / 2 := dwt_per_len h0 x
    have hK1 : (Spec.dwt .periodization h1 x).length = (x.length + x.length % 2) / 2 := dwt_per_len h1 x
    have hK0 : 1 ≤ (Spec.dwt .periodization h0 x).length := by rw [hK]; omega
    simp only [Spec.wavedec, List.map_cons, List.reverse_cons]
    have happ : ∀ (a : List R) (l1 l2 : List (Option (List R))),
        CompatP g0 g1 a l1 → CompatP g0 g1 (l1.foldl (stepS .periodization g0 g1) a) l2 → CompatP g0 g1 a (l1 ++ l2) := by
      intro a l1
      induction l1 generalizing a with
      | nil => intro l2 _ h2; simpa using h2
      | cons d rest ihl =>
        intro l2 h1 h2
        obtain ⟨hok, hrest⟩ := h1
        exact ⟨hok, ihl _ l2 hrest (by simpa using h2)⟩
    apply happ _ _ _ (ih (Spec.dwt .periodization h0 x) hK0 (by rw [hK]; exact hfrest))
    rw [← waverec_eq_foldl]
    obtain ⟨p1, p2⟩ := pyramid_pr_per h0 h1 g0 g1 hL hLe hh1 hg0 hg1 hpr J (Spec.dwt .periodization h0 x) hK0
    refine ⟨?_, trivial⟩
    unfold StepOKP
    simp only
    rw [hK1]
    refine ⟨by rw [hK] at p2; exact p2, by omega, ?_⟩
    rw [hg0]; omega

include hL hLe hh1 hg0 hg1 hpr in
/-- **J-level 1-D perfect reconstruction of the implementation models in periodization mode**, every J, every length
(odd included) whose levels the filter fits, every even-length bank with `PRBank` -/
theorem DWT1D_roundtrip_per (J : Nat) (x : List R) (hN : 1 ≤ x.length) (hfit : LevelsFit1 h0.length J x.length) :
    ∃ yl yh y, DWT1DForwardM .periodization J h0 h1 [x] = some (yl, yh) ∧
      DWT1DInverse .periodization g0 g1 yl (yh.map some) = some [y] ∧ y.take x.length = x ∧ (y.length = x.length ∨ y.length = x.length + 1) := by
  have hf := DWT1DForward_per_eq_wavedec_all h0 h1 hL hLe hh1 J x hN hfit
  have hc := compat_wavedec_per h0 h1 g0 g1 hL hLe hh1 hg0 hg1 hpr J x hN hfit
  have hi := DWT1DInverse_per_eq_waverec g0 g1 (by omega) (by omega) (Spec.wavedec .periodization h0 h1 J x).1
    ((Spec.wavedec .periodization h0 h1 J x).2.map some) hc
  obtain ⟨p1, p2⟩ := pyramid_pr_per h0 h1 g0 g1 hL hLe hh1 hg0 hg1 hpr J x hN
  refine ⟨_, _, _, hf, ?_, p1, p2⟩
  rw [← hi]
  congr 1
  rw [List.map_map, List.map_map]
  apply List.map_congr_left
  intro d _
  rfl

end pr

/-- the level condition is satisfiable with odd lengths: 7 → 4 → 2 with a 4-tap filter -/
example : LevelsFit1 4 2 7 := by simp [LevelsFit1]

end WV.C02Q
