/-
  C05 — two dimensions: `AFB2D.backward` is the adjoint of `AFB2D.forward` (mode zero), on every image.

  One-dimensional adjointness of the analysis pair (`⟨A₀c, a⟩ + ⟨A₁c, b⟩ = ⟨c, B(a,b)⟩`, C05.afb_zero_adjoint) is lifted
  along the columns and along the rows of an image (`pairH`, `pairW`), composed for the row pass followed by the
  column pass, and matched with what the code's backward pass computes — column synthesis of the two band pairs, row
  synthesis, then ONE crop per axis at the very end (`foldCrop2`): cropping rows commutes with the row-wise synthesis.
-/
import WaveletsVerif.Properties.C05
import WaveletsVerif.Properties.C06Q
namespace WV.C05D
open Finset WV WV.C04 WV.C04Q WV.C06
variable {R : Type} [CommRing R]

/-- column-wise binary operator on two images of `W` columns -/
def colzip (F : List R → List R → List R) (n W : Nat) (a b : Img R) : Img R :=
  tab2 n W fun i j => getN (F (col a j) (col b j)) i

/-- row-wise binary operator -/
def rowzip (F : List R → List R → List R) (H n : Nat) (a b : Img R) : Img R :=
  tab2 H n fun i j => getN (F (a.getD i []) (b.getD i [])) j

theorem getD_tab2_row' (H W : Nat) (f : Nat → Nat → R) (i : Nat) (hi : i < H) :
    (tab2 H W f).getD i [] = tab W (f i) := by
  unfold tab2; rw [getD_tab, if_pos hi]

theorem getN_tab' (n : Nat) (f : Nat → R) (i : Nat) : getN ((List.range n).map f) i = if i < n then f i else 0 :=
  getN_tab n f i

theorem getD_row_length (x : Img R) (H W : Nat) (hx : Rect x H W) (i : Nat) (hi : i < H) : (x.getD i []).length = W := by
  apply hx.2
  rw [List.getD_eq_getElem?_getD, List.getElem?_eq_getElem (by rw [hx.1]; exact hi)]; simp

theorem get2_eq_getN_col (x : Img R) (H W : Nat) (hx : Rect x H W) (i j : Nat) (hi : i < H) :
    get2 x i j = getN (col x j) i := by
  unfold col; rw [getN_tab, hx.1, if_pos hi]

/-- lifting a one-dimensional pair adjointness along the columns -/
theorem pairH (A0 A1 : List R → List R) (B : List R → List R → List R) (H K W : Nat)
    (h1d : ∀ c a b : List R, c.length = H → a.length = K → b.length = K →
      (∑ k ∈ range K, getN (A0 c) k * getN a k) + (∑ k ∈ range K, getN (A1 c) k * getN b k)
        = ∑ i ∈ range H, getN c i * getN (B a b) i)
    (l0 : ∀ c : List R, c.length = H → (A0 c).length = K) (l1 : ∀ c : List R, c.length = H → (A1 c).length = K)
    (x Ga Gb : Img R) (hx : Rect x H W) (ha : Rect Ga K W) (hb : Rect Gb K W) (hH : 1 ≤ H) (hW : 1 ≤ W) :
    dot2 K W (alongH A0 x) Ga + dot2 K W (alongH A1 x) Gb = dot2 H W x (colzip B H W Ga Gb) := by
  rw [alongH_get' A0 x H K W hx hH hW l0, alongH_get' A1 x H K W hx hH hW l1]
  unfold dot2 colzip
  rw [Finset.sum_comm, Finset.sum_comm (s := range K), ← Finset.sum_add_distrib]
  conv_rhs => rw [Finset.sum_comm]
  apply Finset.sum_congr rfl; intro j hj
  have hj' : j < W := by simpa using hj
  have hcx : (col x j).length = H := by simp [col, hx.1]
  have hca : (col Ga j).length = K := by simp [col, ha.1]
  have hcb : (col Gb j).length = K := by simp [col, hb.1]
  have := h1d (col x j) (col Ga j) (col Gb j) hcx hca hcb
  calc (∑ k ∈ range K, get2 (tab2 K W fun i j => getN (A0 (col x j)) i) k j * get2 Ga k j)
        + ∑ k ∈ range K, get2 (tab2 K W fun i j => getN (A1 (col x j)) i) k j * get2 Gb k j
      = (∑ k ∈ range K, getN (A0 (col x j)) k * getN (col Ga j) k) + ∑ k ∈ range K, getN (A1 (col x j)) k * getN (col Gb j) k := by
        congr 1 <;> (apply Finset.sum_congr rfl; intro k hk; have hk' : k < K := by simpa using hk
                     rw [C19.get2_tab2 _ _ _ _ _ hk' hj'])
        · rw [get2_eq_getN_col Ga K W ha k j hk']
        · rw [get2_eq_getN_col Gb K W hb k j hk']
    _ = ∑ i ∈ range H, getN (col x j) i * getN (B (col Ga j) (col Gb j)) i := this
    _ = ∑ i ∈ range H, get2 x i j * get2 (tab2 H W fun i j => getN (B (col Ga j) (col Gb j)) i) i j := by
        apply Finset.sum_congr rfl; intro i hi; have hi' : i < H := by simpa using hi
        rw [C19.get2_tab2 _ _ _ _ _ hi' hj', get2_eq_getN_col x H W hx i j hi']

/-- lifting a one-dimensional pair adjointness along the rows -/
theorem pairW (A0 A1 : List R → List R) (B : List R → List R → List R) (H K W : Nat)
    (h1d : ∀ c a b : List R, c.length = W → a.length = K → b.length = K →
      (∑ k ∈ range K, getN (A0 c) k * getN a k) + (∑ k ∈ range K, getN (A1 c) k * getN b k)
        = ∑ i ∈ range W, getN c i * getN (B a b) i)
    (l0 : ∀ c : List R, c.length = W → (A0 c).length = K) (l1 : ∀ c : List R, c.length = W → (A1 c).length = K)
    (x Ga Gb : Img R) (hx : Rect x H W) (ha : Rect Ga H K) (hb : Rect Gb H K) :
    dot2 H K (alongW A0 x) Ga + dot2 H K (alongW A1 x) Gb = dot2 H W x (rowzip B H W Ga Gb) := by
  rw [alongW_get' A0 x H W K hx l0, alongW_get' A1 x H W K hx l1]
  unfold dot2 rowzip
  rw [← Finset.sum_add_distrib]
  apply Finset.sum_congr rfl; intro i hi
  have hi' : i < H := by simpa using hi
  have hrx := getD_row_length x H W hx i hi'
  have hra := getD_row_length Ga H K ha i hi'
  have hrb := getD_row_length Gb H K hb i hi'
  have := h1d (x.getD i []) (Ga.getD i []) (Gb.getD i []) hrx hra hrb
  calc (∑ k ∈ range K, get2 (tab2 H K fun i j => getN (A0 (x.getD i [])) j) i k * get2 Ga i k)
        + ∑ k ∈ range K, get2 (tab2 H K fun i j => getN (A1 (x.getD i [])) j) i k * get2 Gb i k
      = (∑ k ∈ range K, getN (A0 (x.getD i [])) k * getN (Ga.getD i []) k) + ∑ k ∈ range K, getN (A1 (x.getD i [])) k * getN (Gb.getD i []) k := by
        congr 1 <;> (apply Finset.sum_congr rfl; intro k hk; have hk' : k < K := by simpa using hk
                     rw [C19.get2_tab2 _ _ _ _ _ hi' hk']; rfl)
    _ = ∑ j ∈ range W, getN (x.getD i []) j * getN (B (Ga.getD i []) (Gb.getD i [])) j := this
    _ = ∑ j ∈ range W, get2 x i j * get2 (tab2 H W fun i j => getN (B (Ga.getD i []) (Gb.getD i [])) j) i j := by
        apply Finset.sum_congr rfl; intro j hj; have hj' : j < W := by simpa using hj
        rw [C19.get2_tab2 _ _ _ _ _ hi' hj']; rfl

/-! ### mode zero: the one-dimensional facts in function form -/

/-- what `sfb1d` computes in the padded modes: two transposed convolutions cropped by `L−2`, added -/
def Sz (w0 w1 a b : List R) : List R := vadd (convT w0 a (w0.length - 2)) (convT w1 b (w0.length - 2))

theorem sfb_zero_val (w0 w1 a b : List R) (hL : 2 ≤ w0.length) (hw : w1.length = w0.length) (hn : 1 ≤ a.length)
    (hb : b.length = a.length) (hfit : w0.length ≤ 2 * a.length + 1) :
    sfb1dCh .zero w0 w1 a b = some (Sz w0 w1 a b) := by
  have hguard : ¬ (w0.length < 2 ∨ w1.length ≠ w0.length ∨ a.length < 1 ∨ b.length ≠ a.length) := by omega
  have hfit' : ¬ (2 * (a.length - 1) + w0.length < 2 * (w0.length - 2) + 1) := by omega
  simp only [sfb1dCh, Sz, hguard, hfit', if_false]

theorem Sz_length (w0 w1 a b : List R) : (Sz w0 w1 a b).length = 2 * (a.length - 1) + w0.length - 2 * (w0.length - 2) := by
  simp [Sz, vadd, convT, convTFull]

/-- the backward value for one column: synthesis with the analysis buffers, cropped to the input length -/
def Bz (w0 w1 : List R) (N : Nat) (a b : List R) : List R := foldCrop .zero N (Sz w0 w1 a b)

theorem adj1 (w0 w1 : List R) (hL : 2 ≤ w0.length) (hw : w1.length = w0.length) (N : Nat) (hN : 1 ≤ N)
    (c a b : List R) (hc : c.length = N) (ha : a.length = dwtCoeffLen N w0.length) (hb : b.length = dwtCoeffLen N w0.length) :
    (∑ k ∈ range (dwtCoeffLen N w0.length), getN (C05.afbZeroVal w0 c) k * getN a k)
      + (∑ k ∈ range (dwtCoeffLen N w0.length), getN (C05.afbZeroVal w1 c) k * getN b k)
      = ∑ i ∈ range N, getN c i * getN (Bz w0 w1 N a b) i := by
  obtain ⟨lo, hi, d, h1, h2, h3, h4⟩ := C05.afb_zero_adjoint w0 w1 c a b hL hw (by omega) (by rw [hc]; exact ha) (by rw [hb, ha])
  rw [C05.afb1dOne_zero_val w0 c hL (by omega)] at h1
  rw [C05.afb1dOne_zero_val w1 c (by omega) (by omega)] at h2
  have hK : 1 ≤ dwtCoeffLen N w0.length := by unfold dwtCoeffLen; omega
  have hfit : w0.length ≤ 2 * a.length + 1 := by rw [ha]; unfold dwtCoeffLen; omega
  rw [sfb_zero_val w0 w1 a b hL hw (by omega) (by omega) hfit] at h3
  injection h1 with h1; injection h2 with h2; injection h3 with h3
  subst h1; subst h2; subst h3
  rw [ha, hb, hc] at h4
  exact h4

theorem Bz_length (w0 w1 : List R) (hL : 2 ≤ w0.length) (N : Nat) (hN : 1 ≤ N) (a b : List R)
    (ha : a.length = dwtCoeffLen N w0.length) : (Bz w0 w1 N a b).length = N := by
  unfold Bz foldCrop
  have hl := Sz_length w0 w1 a b
  have hu : 2 * (a.length - 1) + w0.length - 2 * (w0.length - 2) = N ∨ 2 * (a.length - 1) + w0.length - 2 * (w0.length - 2) = N + 1 := by
    rw [ha]; unfold dwtCoeffLen; omega
  split
  · simp only [show (Mode.zero = Mode.periodization) = False by simp, if_false]
    rw [List.length_take]; omega
  · omega

/-! ### the implementation model of `AFB2D` in mode zero, one channel -/

abbrev Az (w : List R) : List R → List R := C05.afbZeroVal w

theorem Az_length (w c : List R) (hL : 2 ≤ w.length) (hN : 1 ≤ c.length) : (Az w c).length = dwtCoeffLen c.length w.length :=
  C05.afbZeroVal_length w c hL hN

theorem foldCrop_zero (N : Nat) (d : List R) (h : N ≤ d.length) : foldCrop .zero N d = d.take N := by
  unfold foldCrop
  split
  · simp
  · have : d.length = N := by omega
    rw [← this, List.take_length]

theorem getN_foldCrop_zero (N : Nat) (d : List R) (h : N ≤ d.length) (i : Nat) (hi : i < N) :
    getN (foldCrop .zero N d) i = getN d i := by
  rw [foldCrop_zero N d h, getN_take _ _ _ hi]

/-- `foldCrop2` in mode zero is the crop to the top-left `H × W` block -/
theorem foldCrop2_zero (d : Img R) (Hf Wf H W : Nat) (hd : Rect d Hf Wf) (hH : 1 ≤ H) (hW : 1 ≤ W) (hHf : H ≤ Hf) (hWf : W ≤ Wf) :
    foldCrop2 .zero H W d = tab2 H W (get2 d) := by
  have e : foldCrop2 .zero H W d = alongW (foldCrop .zero W) (alongH (foldCrop .zero H) d) := rfl
  rw [e, alongH_get' (foldCrop .zero H) d Hf H Wf hd (by omega) (by omega)
    (fun c hc => by rw [foldCrop_zero H c (by omega), List.length_take]; omega)]
  rw [alongW_get' (foldCrop .zero W) _ H Wf W (tab2_rect H Wf _)
    (fun c hc => by rw [foldCrop_zero W c (by omega), List.length_take]; omega)]
  apply tab2_congr; intro i hi j hj
  rw [getD_tab2_row' H Wf _ i hi, getN_foldCrop_zero W _ (by simp; omega) j hj, getN_tab, if_pos (by omega),
    getN_foldCrop_zero H _ (by simp [col, hd.1]; omega) i hi]
  unfold col
  rw [getN_tab, hd.1, if_pos (by omega)]

theorem Az_alongW_rect (w : List R) (hL : 2 ≤ w.length) (x : Img R) (H W : Nat) (hx : Rect x H W) (hW : 1 ≤ W) :
    Rect (alongW (Az w) x) H (dwtCoeffLen W w.length) := by
  rw [alongW_get' (Az w) x H W _ hx (fun c hc => by rw [Az_length w c hL (by omega), hc])]
  exact tab2_rect _ _ _

theorem Az_alongH_rect (w : List R) (hL : 2 ≤ w.length) (x : Img R) (H W : Nat) (hx : Rect x H W) (hH : 1 ≤ H) (hW : 1 ≤ W) :
    Rect (alongH (Az w) x) (dwtCoeffLen H w.length) W := by
  rw [alongH_get' (Az w) x H _ W hx hH hW (fun c hc => by rw [Az_length w c hL (by omega), hc])]
  exact tab2_rect _ _ _

/-- the forward pass on one channel: row pass, then column pass, bands in the order (ll, lh, hl, hh) -/
theorem AFB2D_forward_val (wr0 wr1 wc0 wc1 : List R) (hLr : 2 ≤ wr0.length) (hwr : wr1.length = wr0.length)
    (hLc : 2 ≤ wc0.length) (hwc : wc1.length = wc0.length) (x : Img R) (H W : Nat) (hx : Rect x H W) (hH : 1 ≤ H) (hW : 1 ≤ W) :
    AFB2D_forward .zero wr0 wr1 wc0 wc1 [x]
      = some ([alongH (Az wc0) (alongW (Az wr0) x)],
              [[alongH (Az wc1) (alongW (Az wr0) x), alongH (Az wc0) (alongW (Az wr1) x), alongH (Az wc1) (alongW (Az wr1) x)]]) := by
  have hKw : 1 ≤ dwtCoeffLen W wr0.length := by unfold dwtCoeffLen; omega
  have e1 : ∀ w : List R, 2 ≤ w.length → alongO .W (afb1dOne .zero w) x = some (alongW (Az w) x) := by
    intro w hw
    show alongWO _ x = _
    apply alongWO_total
    intro c hc
    exact C05.afb1dOne_zero_val w c hw (by rw [hx.2 c hc]; exact hW)
  have e2 : ∀ (w : List R) (y : Img R), 2 ≤ w.length → y.length = H → alongO .H (afb1dOne .zero w) y = some (alongH (Az w) y) := by
    intro w y hw hy
    show alongHO _ y = _
    apply alongHO_total
    intro c hc
    exact C05.afb1dOne_zero_val w c hw (by rw [hc, hy]; exact hH)
  have rlo := Az_alongW_rect wr0 hLr x H W hx hW
  have rhi := Az_alongW_rect wr1 (by omega) x H W hx hW
  unfold AFB2D_forward
  rw [afb1dT_one, e1 wr0 hLr, e1 wr1 (by omega)]
  simp only [Option.bind_eq_bind, Option.bind_some]
  rw [afb1dT_two, e2 wc0 _ hLc rlo.1, e2 wc1 _ (by omega) rlo.1, e2 wc0 _ hLc rhi.1, e2 wc1 _ (by omega) rhi.1]
  simp [tab, List.range, List.range.loop]

/-- transposing a list of `n ≥ 1` columns of length `m` -/
theorem tr_tab_cols (n m : Nat) (hn : 1 ≤ n) (F : Nat → List R) (hF : ∀ j < n, (F j).length = m) :
    tr (tab n F) = tab2 m n fun i j => getN (F j) i := by
  unfold tr
  have hl : (tab n F).length = n := by simp
  have hw : Img.width (tab n F) = m := by
    unfold Img.width tab
    cases n with
    | zero => omega
    | succ k => simp [List.range_succ_eq_map]; exact hF 0 (by omega)
  rw [hl, hw]
  apply tab2_congr; intro i _ j hj
  unfold get2
  rw [getD_tab, if_pos hj]; rfl

/-- column synthesis of one pair of bands: `sfb1d(…, dim=2)` in mode zero -/
theorem sfb1dImg_H_val (w0 w1 : List R) (hL : 2 ≤ w0.length) (hw : w1.length = w0.length) (a b : Img R) (K W : Nat)
    (ha : Rect a K W) (hb : Rect b K W) (hK : 1 ≤ K) (hW : 1 ≤ W) (hfit : w0.length ≤ 2 * K + 1) :
    sfb1dImg .H .zero w0 w1 a b = some (colzip (Sz w0 w1) (2 * (K - 1) + w0.length - 2 * (w0.length - 2)) W a b) := by
  have hwa : Img.width a = W := rect_width _ _ _ ha hK
  have hwb : Img.width b = W := rect_width _ _ _ hb hK
  have hne : ¬ (Img.width a ≠ Img.width b) := by rw [hwa, hwb]; simp
  simp only [sfb1dImg]
  rw [if_neg hne, hwa]
  rw [mapM_total _ (fun j => Sz w0 w1 (col a j) (col b j))]
  · simp only [Option.map_some]
    congr 1
    have := tr_tab_cols W (2 * (K - 1) + w0.length - 2 * (w0.length - 2)) hW (fun j => Sz w0 w1 (col a j) (col b j))
      (fun j _ => by rw [Sz_length]; simp [col, ha.1])
    unfold colzip
    rw [← this]; rfl
  · intro j hj
    have hj' : j < W := by simpa using hj
    rw [tr_getD a j (by rw [hwa]; exact hj'), tr_getD b j (by rw [hwb]; exact hj')]
    exact sfb_zero_val w0 w1 _ _ hL hw (by simp [col, ha.1]; exact hK) (by simp [col, ha.1, hb.1]) (by simp [col, ha.1]; exact hfit)

/-- row synthesis: `sfb1d(…, dim=3)` in mode zero -/
theorem sfb1dImg_W_val (w0 w1 : List R) (hL : 2 ≤ w0.length) (hw : w1.length = w0.length) (a b : Img R) (H K : Nat)
    (ha : Rect a H K) (hb : Rect b H K) (hK : 1 ≤ K) (hfit : w0.length ≤ 2 * K + 1) :
    sfb1dImg .W .zero w0 w1 a b = some (rowzip (Sz w0 w1) H (2 * (K - 1) + w0.length - 2 * (w0.length - 2)) a b) := by
  have hne : ¬ (a.length ≠ b.length) := by rw [ha.1, hb.1]; simp
  simp only [sfb1dImg]
  rw [if_neg hne, ha.1]
  rw [mapM_total _ (fun i => Sz w0 w1 (a.getD i []) (b.getD i []))]
  · congr 1
    unfold rowzip tab2 tab
    apply List.map_congr_left
    intro i hi
    have hi' : i < H := by simpa using hi
    apply list_ext_getN'
    · rw [Sz_length, List.length_map, List.length_range, getD_row_length a H K ha i hi']
    · intro t ht
      rw [getN_tab', if_pos (by rw [Sz_length, getD_row_length a H K ha i hi'] at ht; exact ht)]
  · intro i hi
    have hi' : i < H := by simpa using hi
    exact sfb_zero_val w0 w1 _ _ hL hw (by rw [getD_row_length a H K ha i hi']; exact hK)
      (by rw [getD_row_length a H K ha i hi', getD_row_length b H K hb i hi']) (by rw [getD_row_length a H K ha i hi']; exact hfit)

theorem colzip_rect (F : List R → List R → List R) (n W : Nat) (a b : Img R) : Rect (colzip F n W a b) n W := tab2_rect _ _ _
theorem rowzip_rect (F : List R → List R → List R) (H n : Nat) (a b : Img R) : Rect (rowzip F H n a b) H n := tab2_rect _ _ _

section adjoint2d
variable (wr0 wr1 wc0 wc1 : List R) (hLr : 2 ≤ wr0.length) (hwr : wr1.length = wr0.length)
    (hLc : 2 ≤ wc0.length) (hwc : wc1.length = wc0.length) (H W : Nat) (hH : 1 ≤ H) (hW : 1 ≤ W)

/-- the un-cropped synthesis of the four cotangent bands -/
def dxFull (gll glh ghl ghh : Img R) : Img R :=
  let Kh := dwtCoeffLen H wc0.length
  let Kw := dwtCoeffLen W wr0.length
  let Hf := 2 * (Kh - 1) + wc0.length - 2 * (wc0.length - 2)
  let Wf := 2 * (Kw - 1) + wr0.length - 2 * (wr0.length - 2)
  rowzip (Sz wr0 wr1) Hf Wf (colzip (Sz wc0 wc1) Hf Kw gll glh) (colzip (Sz wc0 wc1) Hf Kw ghl ghh)

include hLr hwr hLc hwc hH hW in
/-- the backward pass on one channel: column synthesis of (ll, lh) and of (hl, hh), row synthesis, one crop at the end -/
theorem AFB2D_backward_val (gll glh ghl ghh : Img R)
    (r1 : Rect gll (dwtCoeffLen H wc0.length) (dwtCoeffLen W wr0.length)) (r2 : Rect glh (dwtCoeffLen H wc0.length) (dwtCoeffLen W wr0.length))
    (r3 : Rect ghl (dwtCoeffLen H wc0.length) (dwtCoeffLen W wr0.length)) (r4 : Rect ghh (dwtCoeffLen H wc0.length) (dwtCoeffLen W wr0.length)) :
    AFB2D_backward .zero wr0 wr1 wc0 wc1 H W [gll] [[glh, ghl, ghh]]
      = some [tab2 H W (get2 (dxFull wr0 wr1 wc0 wc1 H W gll glh ghl ghh))] := by
  have hKh : 1 ≤ dwtCoeffLen H wc0.length := by unfold dwtCoeffLen; omega
  have hKw : 1 ≤ dwtCoeffLen W wr0.length := by unfold dwtCoeffLen; omega
  have hfc : wc0.length ≤ 2 * dwtCoeffLen H wc0.length + 1 := by unfold dwtCoeffLen; omega
  have hfr : wr0.length ≤ 2 * dwtCoeffLen W wr0.length + 1 := by unfold dwtCoeffLen; omega
  have hHf : H ≤ 2 * (dwtCoeffLen H wc0.length - 1) + wc0.length - 2 * (wc0.length - 2) := by unfold dwtCoeffLen; omega
  have hWf : W ≤ 2 * (dwtCoeffLen W wr0.length - 1) + wr0.length - 2 * (wr0.length - 2) := by unfold dwtCoeffLen; omega
  unfold AFB2D_backward
  simp only [List.map_cons, List.map_nil, List.getD_cons_zero, List.getD_cons_succ]
  rw [C10.sfb1dT_single, C10.sfb1dT_single, sfb1dImg_H_val wc0 wc1 hLc hwc gll glh _ _ r1 r2 hKh hKw hfc,
    sfb1dImg_H_val wc0 wc1 hLc hwc ghl ghh _ _ r3 r4 hKh hKw hfc]
  simp only [Option.map_some, Option.bind_eq_bind, Option.bind_some]
  rw [C10.sfb1dT_single, sfb1dImg_W_val wr0 wr1 hLr hwr _ _ _ _ (colzip_rect _ _ _ _ _) (colzip_rect _ _ _ _ _) hKw hfr]
  simp only [Option.map_some, Option.bind_some, List.map_cons, List.map_nil]
  rw [foldCrop2_zero _ _ _ H W (rowzip_rect _ _ _ _ _) hH hW hHf hWf]
  rfl

include hLr hwr hLc hwc hH hW in
/-- **`AFB2D.backward` is the adjoint of `AFB2D.forward` in mode zero**, one channel, every image size and filter
lengths: `⟨ll,gll⟩ + ⟨lh,glh⟩ + ⟨hl,ghl⟩ + ⟨hh,ghh⟩ = ⟨x, backward(gll, glh, ghl, ghh)⟩` -/
theorem AFB2D_zero_adjoint (x gll glh ghl ghh : Img R) (hx : Rect x H W)
    (r1 : Rect gll (dwtCoeffLen H wc0.length) (dwtCoeffLen W wr0.length)) (r2 : Rect glh (dwtCoeffLen H wc0.length) (dwtCoeffLen W wr0.length))
    (r3 : Rect ghl (dwtCoeffLen H wc0.length) (dwtCoeffLen W wr0.length)) (r4 : Rect ghh (dwtCoeffLen H wc0.length) (dwtCoeffLen W wr0.length)) :
    ∃ ll lh hl hh dx, AFB2D_forward .zero wr0 wr1 wc0 wc1 [x] = some ([ll], [[lh, hl, hh]]) ∧
      AFB2D_backward .zero wr0 wr1 wc0 wc1 H W [gll] [[glh, ghl, ghh]] = some [dx] ∧
      dot2 (dwtCoeffLen H wc0.length) (dwtCoeffLen W wr0.length) ll gll + dot2 (dwtCoeffLen H wc0.length) (dwtCoeffLen W wr0.length) lh glh
        + dot2 (dwtCoeffLen H wc0.length) (dwtCoeffLen W wr0.length) hl ghl + dot2 (dwtCoeffLen H wc0.length) (dwtCoeffLen W wr0.length) hh ghh
        = dot2 H W x dx := by
  set Kh := dwtCoeffLen H wc0.length with hKh'
  set Kw := dwtCoeffLen W wr0.length with hKw'
  have hKh : 1 ≤ Kh := by rw [hKh']; unfold dwtCoeffLen; omega
  have hKw : 1 ≤ Kw := by rw [hKw']; unfold dwtCoeffLen; omega
  refine ⟨_, _, _, _, _, AFB2D_forward_val wr0 wr1 wc0 wc1 hLr hwr hLc hwc x H W hx hH hW,
    AFB2D_backward_val wr0 wr1 wc0 wc1 hLr hwr hLc hwc H W hH hW gll glh ghl ghh r1 r2 r3 r4, ?_⟩
  have rlo : Rect (alongW (Az wr0) x) H Kw := Az_alongW_rect wr0 hLr x H W hx hW
  have rhi : Rect (alongW (Az wr1) x) H Kw := by
    have := Az_alongW_rect wr1 (by omega) x H W hx hW
    rw [hwr] at this; exact this
  -- columns
  have hc1d : ∀ c a b : List R, c.length = H → a.length = Kh → b.length = Kh →
      (∑ k ∈ range Kh, getN (Az wc0 c) k * getN a k) + (∑ k ∈ range Kh, getN (Az wc1 c) k * getN b k)
        = ∑ i ∈ range H, getN c i * getN (Bz wc0 wc1 H a b) i :=
    fun c a b hc ha hb => adj1 wc0 wc1 hLc hwc H hH c a b hc ha hb
  have lc0 : ∀ c : List R, c.length = H → (Az wc0 c).length = Kh := fun c hc => by rw [Az_length wc0 c hLc (by omega), hc]
  have lc1 : ∀ c : List R, c.length = H → (Az wc1 c).length = Kh := fun c hc => by rw [Az_length wc1 c (by omega) (by omega), hc, hwc]
  have p1 := pairH (Az wc0) (Az wc1) (Bz wc0 wc1 H) H Kh Kw hc1d lc0 lc1 _ gll glh rlo r1 r2 hH hKw
  have p2 := pairH (Az wc0) (Az wc1) (Bz wc0 wc1 H) H Kh Kw hc1d lc0 lc1 _ ghl ghh rhi r3 r4 hH hKw
  -- rows
  have hr1d : ∀ c a b : List R, c.length = W → a.length = Kw → b.length = Kw →
      (∑ k ∈ range Kw, getN (Az wr0 c) k * getN a k) + (∑ k ∈ range Kw, getN (Az wr1 c) k * getN b k)
        = ∑ i ∈ range W, getN c i * getN (Bz wr0 wr1 W a b) i :=
    fun c a b hc ha hb => adj1 wr0 wr1 hLr hwr W hW c a b hc ha hb
  have lr0 : ∀ c : List R, c.length = W → (Az wr0 c).length = Kw := fun c hc => by rw [Az_length wr0 c hLr (by omega), hc]
  have lr1 : ∀ c : List R, c.length = W → (Az wr1 c).length = Kw := fun c hc => by rw [Az_length wr1 c (by omega) (by omega), hc, hwr]
  have p3 := pairW (Az wr0) (Az wr1) (Bz wr0 wr1 W) H Kw W hr1d lr0 lr1 x
    (colzip (Bz wc0 wc1 H) H Kw gll glh) (colzip (Bz wc0 wc1 H) H Kw ghl ghh) hx (colzip_rect _ _ _ _ _) (colzip_rect _ _ _ _ _)
  have hsum : dot2 Kh Kw (alongH (Az wc0) (alongW (Az wr0) x)) gll + dot2 Kh Kw (alongH (Az wc1) (alongW (Az wr0) x)) glh
      + dot2 Kh Kw (alongH (Az wc0) (alongW (Az wr1) x)) ghl + dot2 Kh Kw (alongH (Az wc1) (alongW (Az wr1) x)) ghh
      = dot2 H W x (rowzip (Bz wr0 wr1 W) H W (colzip (Bz wc0 wc1 H) H Kw gll glh) (colzip (Bz wc0 wc1 H) H Kw ghl ghh)) := by
    rw [← p3, ← p1, ← p2]; ring
  rw [hsum]
  -- the two expressions of the backward value agree pixel by pixel
  congr 1
  unfold rowzip
  apply tab2_congr; intro i hi j hj
  have hHf : H ≤ 2 * (Kh - 1) + wc0.length - 2 * (wc0.length - 2) := by rw [hKh']; unfold dwtCoeffLen; omega
  have hWf : W ≤ 2 * (Kw - 1) + wr0.length - 2 * (wr0.length - 2) := by rw [hKw']; unfold dwtCoeffLen; omega
  have hrow : ∀ (a b : Img R), Rect a Kh Kw → (colzip (Bz wc0 wc1 H) H Kw a b).getD i []
      = (colzip (Sz wc0 wc1) (2 * (Kh - 1) + wc0.length - 2 * (wc0.length - 2)) Kw a b).getD i [] := by
    intro a b ra
    unfold colzip
    rw [getD_tab2_row' _ _ _ i hi, getD_tab2_row' _ _ _ i (by omega)]
    apply tab_ext rfl; intro j' _
    unfold Bz
    exact getN_foldCrop_zero H _ (by rw [Sz_length]; simp [col, ra.1]; exact hHf) i hi
  rw [hrow gll glh r1, hrow ghl ghh r3]
  unfold Bz
  rw [getN_foldCrop_zero W _ (by rw [Sz_length, getD_row_length _ _ _ (colzip_rect _ _ _ _ _) i (by omega)]; exact hWf) j hj]
  unfold dxFull rowzip
  rw [C19.get2_tab2 _ _ _ _ _ (by omega) (by omega)]

end adjoint2d

end WV.C05D
