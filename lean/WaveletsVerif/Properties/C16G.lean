/-
  C16 — the a-priori magnitude bound of the accuracy oracle, as a theorem about the implementation model.

  Over ℝ: every output sample of `afb1d` in the extension modes (zero, symmetric, periodic, reflect) is a dot product of the
  filter taps with samples of the input or zeros, hence `|y_k| ≤ ‖w‖₁ · max|x|` (`afb1dOne_gain`); through `J` levels of
  `pywt.wavedec` — which the module `DWT1DForward` equals in the modes zero / symmetric / periodic (C01) — every coefficient
  of every band is bounded by `max(‖h0‖₁, ‖h1‖₁, 1)^J · max|x|` (`wavedec_gain`).  This is the `gain · max|x|` the
  float32-vs-float64 deviation measured on the real code is compared against.
-/
import WaveletsVerif.Properties.C16
import WaveletsVerif.Properties.C01
namespace WV.C16G
open WV WV.C16 Finset

/-- `‖w‖₁` -/
noncomputable def l1 (w : List ℝ) : ℝ := ∑ j ∈ range w.length, |getN w j|

theorem l1_nonneg (w : List ℝ) : 0 ≤ l1 w := Finset.sum_nonneg (fun _ _ => abs_nonneg _)

/-- all samples bounded by `M` -/
def Bdd (M : ℝ) (x : List ℝ) : Prop := ∀ i, |getN x i| ≤ M

theorem Bdd.nonneg {M : ℝ} {x : List ℝ} (h : Bdd M x) : 0 ≤ M := le_trans (abs_nonneg _) (h 0)

theorem getN_oob (x : List ℝ) (i : Nat) (h : x.length ≤ i) : getN x i = 0 := by
  unfold getN; rw [List.getD_eq_getElem?_getD, List.getElem?_eq_none h]; rfl

theorem getZ_bdd {M : ℝ} {x : List ℝ} (h : Bdd M x) (t : Int) : |getZ x t| ≤ M := by
  unfold getZ
  split
  · exact h t.toNat
  · simpa using h.nonneg

theorem bdd_tab {M : ℝ} (hM : 0 ≤ M) (n : Nat) (f : Nat → ℝ) (hf : ∀ i < n, |f i| ≤ M) : Bdd M (tab n f) := by
  intro i
  rw [getN_tab]
  split
  · exact hf i (by assumption)
  · simpa using hM

theorem bdd_zeroPad {M : ℝ} {x : List ℝ} (h : Bdd M x) (l r : Nat) : Bdd M (zeroPad x l r) :=
  bdd_tab h.nonneg _ _ (fun i _ => getZ_bdd h _)

theorem bdd_padIdx {M : ℝ} {x : List ℝ} (h : Bdd M x) (idx : Int → Int → Int) (l r : Nat) : Bdd M (padIdx idx x l r) :=
  bdd_tab h.nonneg _ _ (fun i _ => getZ_bdd h _)

/-- a (strided, dilated) correlation has gain `‖w‖₁` -/
theorem corr_gain {M : ℝ} (w x : List ℝ) (h : Bdd M x) (s d : Nat) : Bdd (l1 w * M) (corr w x s d) := by
  unfold corr
  apply bdd_tab (mul_nonneg (l1_nonneg w) h.nonneg)
  intro k _
  rw [sumN_eq]
  exact abs_dot_le w.length (fun j => getN w j) (fun j => getN x (s * k + d * j)) M (fun j _ => h _)

/-- **`afb1d` in the extension modes has gain `‖w‖₁`**: whenever the model returns, every output sample is bounded by
`‖w‖₁ · M` for inputs bounded by `M` -/
theorem afb1dOne_gain (m : Mode) (hm : m = .zero ∨ m = .symmetric ∨ m = .periodic ∨ m = .reflect) (w x y : List ℝ) (M : ℝ)
    (hx : Bdd M x) (hy : afb1dOne m w x = some y) : Bdd (l1 w * M) y := by
  by_cases hg : w.length < 2 ∨ x.length < 1
  · simp only [afb1dOne, hg, if_true] at hy
    exact absurd hy (by simp)
  · rcases hm with rfl | rfl | rfl | rfl
    · simp only [afb1dOne, hg, if_false, Option.some.injEq] at hy
      subst hy
      apply corr_gain
      apply bdd_zeroPad
      split
      · exact bdd_zeroPad hx 0 1
      · exact hx
    · simp only [afb1dOne, hg, if_false, Option.some.injEq] at hy
      subst hy
      exact corr_gain _ _ (bdd_padIdx hx _ _ _) _ _
    · simp only [afb1dOne, hg, if_false, Option.some.injEq] at hy
      subst hy
      exact corr_gain _ _ (bdd_padIdx hx _ _ _) _ _
    · simp only [afb1dOne, hg, if_false] at hy
      split at hy
      · simp only [Option.some.injEq] at hy
        subst hy
        exact corr_gain _ _ (bdd_padIdx hx _ _ _) _ _
      · exact absurd hy (by simp)

theorem l1_reverse (h : List ℝ) : l1 h.reverse = l1 h := by
  unfold l1
  rw [List.length_reverse]
  rw [← Finset.sum_range_reflect]
  apply Finset.sum_congr rfl; intro j hj
  have hj' : j < h.length := by simpa using hj
  congr 1
  exact getN_reverse h j hj'

/-- PyWavelets' one-level formula has gain `‖h‖₁` in the modes where the implementation equals it -/
theorem dwt_gain (m : Mode) (hm : m = .zero ∨ m = .symmetric ∨ m = .periodic) (h x : List ℝ) (hL : 2 ≤ h.length) (hN : 1 ≤ x.length)
    (M : ℝ) (hx : Bdd M x) : Bdd (l1 h * M) (Spec.dwt m h x) := by
  have e := C01.modeOK_of (R := ℝ) m hm h x hL hN
  have := afb1dOne_gain m (by rcases hm with h1 | h1 | h1 <;> simp [h1]) h.reverse x _ M hx e
  rw [l1_reverse] at this
  exact this

/-- **J levels**: every coefficient of `wavedec` is bounded by `g^J · M`, `g = max(‖h0‖₁, ‖h1‖₁, 1)` -/
theorem wavedec_gain (m : Mode) (hm : m = .zero ∨ m = .symmetric ∨ m = .periodic) (h0 h1 : List ℝ) (hL0 : 2 ≤ h0.length)
    (hL1 : 2 ≤ h1.length) (g : ℝ) (hg0 : l1 h0 ≤ g) (hg1 : l1 h1 ≤ g) (hg : 1 ≤ g) :
    ∀ (J : Nat) (x : List ℝ) (M : ℝ), 1 ≤ x.length → Bdd M x →
      Bdd (g ^ J * M) (Spec.wavedec m h0 h1 J x).1 ∧ ∀ d ∈ (Spec.wavedec m h0 h1 J x).2, Bdd (g ^ J * M) d
  | 0, x, M, _, hx => by simp [Spec.wavedec]; exact hx
  | J+1, x, M, hN, hx => by
    have hM := hx.nonneg
    have hg' : 0 ≤ g := by linarith
    have lo : Bdd (g * M) (Spec.dwt m h0 x) := fun i =>
      le_trans (dwt_gain m hm h0 x hL0 hN M hx i) (mul_le_mul_of_nonneg_right hg0 hM)
    have hi : Bdd (g * M) (Spec.dwt m h1 x) := fun i =>
      le_trans (dwt_gain m hm h1 x hL1 hN M hx i) (mul_le_mul_of_nonneg_right hg1 hM)
    have hlen : 1 ≤ (Spec.dwt m h0 x).length := by
      rw [C01.dwt_length m hm]; unfold dwtCoeffLen; omega
    have ih := wavedec_gain m hm h0 h1 hL0 hL1 g hg0 hg1 hg J (Spec.dwt m h0 x) (g * M) hlen lo
    have e : g ^ J * (g * M) = g ^ (J + 1) * M := by ring
    rw [e] at ih
    simp only [Spec.wavedec]
    refine ⟨ih.1, ?_⟩
    intro d hd
    simp only [List.mem_cons] at hd
    rcases hd with rfl | hd
    · intro i
      have hgj : g * M ≤ g ^ (J + 1) * M := by
        apply mul_le_mul_of_nonneg_right _ hM
        calc g = g ^ 1 := (pow_one g).symm
          _ ≤ g ^ (J + 1) := pow_le_pow_right₀ hg (by omega)
      exact le_trans (hi i) hgj
    · exact ih.2 d hd

end WV.C16G
