/-
  C13 — the stationary transform on ANY number of channels: every channel of every level of `SWTForward` is `pywt.swt2`
  of that channel alone (`SWTForward_multi`), for every C, every J, every non-empty image and all even filter lengths.
-/
import WaveletsVerif.Properties.C13
import WaveletsVerif.Properties.C01M
namespace WV.C13M
open WV WV.C13 WV.C01M
variable {R : Type} [CommRing R]

/-- `afb1d_atrous` on a stack: the two one-channel operators applied to every channel, interleaved -/
theorem afb1dAtrousT_total (ax : Axis) (mode : Mode) (d : Nat) (w0 w1 : List R) (x : List (Img R)) (g0 g1 : Img R → Img R)
    (h : ∀ c < x.length, alongO ax (afb1dAtrousOne mode d w0) (x.getD c []) = some (g0 (x.getD c [])) ∧
                         alongO ax (afb1dAtrousOne mode d w1) (x.getD c []) = some (g1 (x.getD c []))) :
    afb1dAtrousT ax mode d w0 w1 x
      = some (tab (2 * x.length) fun o => if o % 2 = 0 then g0 (x.getD (o/2) []) else g1 (x.getD (o/2) [])) := by
  unfold afb1dAtrousT grouped
  simp only []
  rw [C07.weights_length]
  have e : (tab (2 * x.length) fun o =>
        (fun w ch => alongO ax (afb1dAtrousOne mode d w) ch) (((List.replicate x.length [w0, w1]).flatten).getD o default)
          (x.getD (o / (2 * x.length / x.length)) default))
      = (tab (2 * x.length) fun o => if o % 2 = 0 then g0 (x.getD (o/2) []) else g1 (x.getD (o/2) [])).map some := by
    rw [C07.map_tab]
    apply tab_ext rfl
    intro o ho
    have hpos : 0 < x.length := by omega
    have hdiv : 2 * x.length / x.length = 2 := Nat.mul_div_cancel _ hpos
    show alongO ax (afb1dAtrousOne mode d (((List.replicate x.length [w0, w1]).flatten).getD o []))
        (x.getD (o / (2 * x.length / x.length)) []) = _
    rw [C07.weights_get w0 w1 x.length o ho, hdiv]
    have hc := h (o/2) (by omega)
    split
    · exact hc.1
    · exact hc.2
  rw [e]
  exact C07.mapM_id_map_some _

/-- one undecimated level on a stack of `C` images: channel `4c + k` is band `k` of `swt2Level` of channel `c` -/
theorem afb2dAtrous_multi (c0 c1 r0 r1 : List R) (hc0 : 2 ≤ c0.length ∧ c0.length % 2 = 0)
    (hc1 : 2 ≤ c1.length ∧ c1.length % 2 = 0) (hr0 : 2 ≤ r0.length ∧ r0.length % 2 = 0)
    (hr1 : 2 ≤ r1.length ∧ r1.length % 2 = 0) (d : Nat) (hd : 1 ≤ d) (xs : List (Img R)) (hx : ∀ x ∈ xs, C01.NonEmptyImg x) :
    afb2dAtrous .periodic d c0.reverse c1.reverse r0.reverse r1.reverse xs
      = some (tab (2 * (2 * xs.length)) fun o => (Spec.swt2Level c0 c1 r0 r1 d (xs.getD (o / 4) [])).getD (o % 4) []) := by
  unfold afb2dAtrous
  rw [afb1dAtrousT_total .W .periodic d r0.reverse r1.reverse xs
    (Spec.rowsMap (fun r => Spec.swt r0 r d)) (Spec.rowsMap (fun r => Spec.swt r1 r d))
    (fun c hc => ⟨atrous_W r0 hr0.1 hr0.2 d hd _ (hx _ (getD_mem xs c hc)).2, atrous_W r1 hr1.1 hr1.2 d hd _ (hx _ (getD_mem xs c hc)).2⟩)]
  simp only [Option.bind_eq_bind, Option.bind_some]
  have hl : (tab (2 * xs.length) fun o => if o % 2 = 0 then Spec.rowsMap (fun r => Spec.swt r0 r d) (xs.getD (o/2) [])
      else Spec.rowsMap (fun r => Spec.swt r1 r d) (xs.getD (o/2) [])).length = 2 * xs.length := by simp
  have hg : ∀ o < 2 * xs.length, (tab (2 * xs.length) fun o => if o % 2 = 0 then Spec.rowsMap (fun r => Spec.swt r0 r d) (xs.getD (o/2) [])
      else Spec.rowsMap (fun r => Spec.swt r1 r d) (xs.getD (o/2) [])).getD o []
      = if o % 2 = 0 then Spec.rowsMap (fun r => Spec.swt r0 r d) (xs.getD (o/2) []) else Spec.rowsMap (fun r => Spec.swt r1 r d) (xs.getD (o/2) []) := by
    intro o ho; rw [getD_tab, if_pos ho]
  rw [afb1dAtrousT_total .H .periodic d c0.reverse c1.reverse _
    (Spec.colsMap (fun c => Spec.swt c0 c d)) (Spec.colsMap (fun c => Spec.swt c1 c d)) (by
      intro o ho
      rw [hl] at ho
      rw [hg o ho]
      have hne := (hx _ (getD_mem xs (o/2) (by omega))).1
      have hyl : ∀ (h : List R), 1 ≤ (Spec.rowsMap (fun r => Spec.swt h r d) (xs.getD (o/2) [])).length := by
        intro h; simp [Spec.rowsMap]; exact hne
      by_cases he : o % 2 = 0
      · rw [if_pos he]; exact ⟨atrous_H c0 hc0.1 hc0.2 d hd _ (hyl r0), atrous_H c1 hc1.1 hc1.2 d hd _ (hyl r0)⟩
      · rw [if_neg he]; exact ⟨atrous_H c0 hc0.1 hc0.2 d hd _ (hyl r1), atrous_H c1 hc1.1 hc1.2 d hd _ (hyl r1)⟩)]
  rw [hl]
  congr 1
  apply tab_ext rfl; intro o ho
  rw [hg (o/2) (by omega)]
  have e4 : o / 2 / 2 = o / 4 := by omega
  rw [e4]
  have hk : o % 4 = 0 ∨ o % 4 = 1 ∨ o % 4 = 2 ∨ o % 4 = 3 := by omega
  rcases hk with hk | hk | hk | hk
  · rw [if_pos (by omega), if_pos (by omega), hk]; rfl
  · rw [if_neg (by omega), if_pos (by omega), hk]; rfl
  · rw [if_pos (by omega), if_neg (by omega), hk]; rfl
  · rw [if_neg (by omega), if_neg (by omega), hk]; rfl

/-- **`SWTForward` on ANY number of channels acts channel by channel**: level `j`, channel `c` is level `j` of
`pywt.swt2` of channel `c` alone, for every J -/
theorem SWTForward_multi (mode : Mode) (hm : mode = .periodization ∨ mode = .periodic)
    (c0 c1 r0 r1 : List R) (hc0 : 2 ≤ c0.length ∧ c0.length % 2 = 0) (hc1 : 2 ≤ c1.length ∧ c1.length % 2 = 0)
    (hr0 : 2 ≤ r0.length ∧ r0.length % 2 = 0) (hr1 : 2 ≤ r1.length ∧ r1.length % 2 = 0)
    (J : Nat) (xs : List (Img R)) (hx : ∀ x ∈ xs, C01.NonEmptyImg x) :
    SWTForwardM mode J [c0, c1, r0, r1] xs
      = some ((List.range J).map fun j => xs.map fun x => (Spec.swt2 c0 c1 r0 r1 J 0 x).getD j []) := by
  simp only [SWTForwardM, wave4, Option.bind_eq_bind, Option.bind_some]
  have hmm : (if mode = Mode.periodization then Mode.periodic else mode) = Mode.periodic := by
    rcases hm with rfl | rfl <;> simp
  suffices H : ∀ (J j : Nat) (xs : List (Img R)), (∀ x ∈ xs, C01.NonEmptyImg x) →
      SWTForward mode c0.reverse c1.reverse r0.reverse r1.reverse J j xs
        = some ((List.range J).map fun k => xs.map fun x => (Spec.swt2 c0 c1 r0 r1 J j x).getD k []) from H J 0 xs hx
  intro J
  induction J with
  | zero => intro j xs _; simp [SWTForward]
  | succ J ih =>
    intro j xs hx
    simp only [SWTForward, hmm]
    rw [afb2dAtrous_multi c0 c1 r0 r1 hc0 hc1 hr0 hr1 (2^j) (Nat.one_le_two_pow) xs hx]
    simp only [Option.bind_eq_bind, Option.bind_some, length_tab]
    have h4 : 2 * (2 * xs.length) / 4 = xs.length := by omega
    rw [h4]
    have hyr : (tab xs.length fun c =>
        [(tab (2 * (2 * xs.length)) fun o => (Spec.swt2Level c0 c1 r0 r1 (2^j) (xs.getD (o / 4) [])).getD (o % 4) []).getD (4*c) [],
         (tab (2 * (2 * xs.length)) fun o => (Spec.swt2Level c0 c1 r0 r1 (2^j) (xs.getD (o / 4) [])).getD (o % 4) []).getD (4*c+1) [],
         (tab (2 * (2 * xs.length)) fun o => (Spec.swt2Level c0 c1 r0 r1 (2^j) (xs.getD (o / 4) [])).getD (o % 4) []).getD (4*c+2) [],
         (tab (2 * (2 * xs.length)) fun o => (Spec.swt2Level c0 c1 r0 r1 (2^j) (xs.getD (o / 4) [])).getD (o % 4) []).getD (4*c+3) []])
        = xs.map fun x => Spec.swt2Level c0 c1 r0 r1 (2^j) x := by
      rw [map_eq_tab' xs _]
      apply tab_ext rfl; intro c hc
      rw [getD_tab, getD_tab, getD_tab, getD_tab, if_pos (by omega), if_pos (by omega), if_pos (by omega), if_pos (by omega)]
      have e0 : 4 * c / 4 = c := by omega
      have e1 : (4 * c + 1) / 4 = c := by omega
      have e2 : (4 * c + 2) / 4 = c := by omega
      have e3 : (4 * c + 3) / 4 = c := by omega
      have m0 : 4 * c % 4 = 0 := by omega
      have m1 : (4 * c + 1) % 4 = 1 := by omega
      have m2 : (4 * c + 2) % 4 = 2 := by omega
      have m3 : (4 * c + 3) % 4 = 3 := by omega
      rw [e0, e1, e2, e3, m0, m1, m2, m3]
      simp [Spec.swt2Level]
    rw [hyr]
    have hnext : ∀ y ∈ (xs.map fun x => Spec.swt2Level c0 c1 r0 r1 (2^j) x).map (fun b => b.getD 0 []), C01.NonEmptyImg y := by
      intro y hy
      simp only [List.mem_map] at hy
      obtain ⟨b, ⟨x, hxm, rfl⟩, rfl⟩ := hy
      simp only [Spec.swt2Level, List.getD_cons_zero]
      exact level_A_nonempty c0 r0 (2^j) x (hx x hxm)
    rw [ih (j+1) _ hnext]
    simp only [Option.bind_some, List.map_map, Function.comp_def]
    congr 1
    rw [List.range_succ_eq_map]
    simp [List.map_map, Function.comp_def, Spec.swt2]

end WV.C13M
