/-
  C17 — "it preserves inner products", two dimensions: for orthonormal column and row banks in periodization mode, whenever every
  level has even sides not shorter than the filters (`C17K.LevelsOK2`), the J-level 2-D transform preserves the inner product of
  ANY two images, `⟨DWTForward x, DWTForward z⟩ = ⟨x, z⟩` (`DWT2D_preserves_inner`; energy, `C17K.DWT2D_isometry`, is `z = x`).

  Proof: `⟨T x, T z⟩ = ⟨x, Tᵀ T z⟩` by `C17T.DWT2D_inverse_is_transpose` (any filters) with the cotangent pyramid `P := T z`, whose
  forward shapes are `forward_shapes2`; `Tᵀ T z` carries `z` in its top-left `H × W` corner by the periodization round trip
  `C02P.DWT2D_roundtrip_per` with the reversed filters as synthesis banks.
-/
import WaveletsVerif.Properties.C17T
import WaveletsVerif.Properties.C02P
namespace WV.C17W
open Finset WV WV.C04 WV.C04Q WV.C06 WV.C05D WV.C05P WV.C17K WV.C17T WV.C02K
variable {R : Type} [CommRing R]

section
variable (hr0 hr1 hc0 hc1 : List R) (hLr : 2 ≤ hr0.length) (hLre : hr0.length % 2 = 0) (hwr : hr1.length = hr0.length)
    (hLc : 2 ≤ hc0.length) (hLce : hc0.length % 2 = 0) (hwc : hc1.length = hc0.length)

include hLr hLre hwr hLc hLce hwc in
/-- the output pyramid of the J-level forward transform has forward shapes -/
theorem forward_shapes2 : ∀ (J : Nat) (z : Img R) (H W : Nat), Rect z H W → 1 ≤ H → 1 ≤ W → LevelsOK2 hc0.length hr0.length J H W →
    ∃ zl zb, DWTForward .periodization hc0.reverse hc1.reverse hr0.reverse hr1.reverse J [z] = some ([zl], zb.map fun b => [b]) ∧
      PyrRect J H W zl zb
  | 0, z, H, W, hz, _, _, _ => ⟨z, [], by simp [DWTForward], hz⟩
  | J+1, z, H, W, hz, hH, hW, hok => by
    obtain ⟨hHe, hWe, hfH, hfW, hokr⟩ := hok
    have hfv := C05P.AFB2D_forward_val hr0 hr1 hc0 hc1 hLr hLre hwr hLc hLce hwc H W hH hW (by omega) (by omega) z hz
    have eH : (H + H % 2) / 2 = H / 2 := by omega
    have eW : (W + W % 2) / 2 = W / 2 := by omega
    have rW : ∀ w : List R, Rect (alongW (Ap w) z) H (W / 2) := by
      intro w
      rw [alongW_get' (Ap w) z H W _ hz (fun c hc => by rw [Ap_length, hc, eW])]
      exact tab2_rect _ _ _
    have rB : ∀ (wc wr : List R), Rect (alongH (Ap wc) (alongW (Ap wr) z)) (H / 2) (W / 2) := by
      intro wc wr
      rw [alongH_get' (Ap wc) _ H (H / 2) (W / 2) (rW wr) hH (by omega) (fun c hc => by rw [Ap_length, hc, eH])]
      exact tab2_rect _ _ _
    obtain ⟨zl, zb, hf, hp⟩ := forward_shapes2 J _ (H / 2) (W / 2) (rB hc0 hr0) (by omega) (by omega) hokr
    refine ⟨zl, [alongH (Ap hc1) (alongW (Ap hr0) z), alongH (Ap hc0) (alongW (Ap hr1) z), alongH (Ap hc1) (alongW (Ap hr1) z)] :: zb, ?_,
      ⟨⟨_, _, _, rfl, rB _ _, rB _ _, rB _ _⟩, hp⟩⟩
    simp only [DWTForward]
    rw [hfv]
    simp only [Option.bind_eq_bind, Option.bind_some]
    rw [hf]
    simp

theorem fitP_of_levelsOK2 (Lc Lr : Nat) : ∀ (J H W : Nat), LevelsOK2 Lc Lr J H W → C01P.LevelsFitP Lc Lr J H W
  | 0, _, _, _ => trivial
  | J+1, H, W, h => by
    obtain ⟨hHe, hWe, hfH, hfW, hr⟩ := h
    have eH : (H + H % 2) / 2 = H / 2 := by omega
    have eW : (W + W % 2) / 2 = W / 2 := by omega
    exact ⟨by omega, by omega, by rw [eH, eW]; exact fitP_of_levelsOK2 Lc Lr J _ _ hr⟩

include hLr hLre hwr hLc hLce hwc in
/-- **the J-level 2-D transform with orthonormal banks preserves inner products** -/
theorem DWT2D_preserves_inner (horr : PRBank hr0 hr1 hr0.reverse hr1.reverse) (horc : PRBank hc0 hc1 hc0.reverse hc1.reverse)
    (J : Nat) (x z : Img R) (H W : Nat) (hx : Rect x H W) (hz : Rect z H W) (hH : 1 ≤ H) (hW : 1 ≤ W)
    (hok : LevelsOK2 hc0.length hr0.length J H W) :
    ∃ yl yh zl zb, DWTForward .periodization hc0.reverse hc1.reverse hr0.reverse hr1.reverse J [x] = some ([yl], yh) ∧
      DWTForward .periodization hc0.reverse hc1.reverse hr0.reverse hr1.reverse J [z] = some ([zl], zb.map fun b => [b]) ∧
      pdot yl yh zl zb = dot2 H W x z := by
  obtain ⟨zl, zb, hfz, hpz⟩ := forward_shapes2 hr0 hr1 hc0 hc1 hLr hLre hwr hLc hLce hwc J z H W hz hH hW hok
  obtain ⟨yl, yh, y, hfx, hi, ry, hd⟩ := DWT2D_inverse_is_transpose hr0 hr1 hc0 hc1 hLr hLre hwr hLc hLce hwc J x H W zl zb hx hH hW hok hpz
  obtain ⟨zl', zh', y', hf', hi', Hf, Wf, _, _, _, htl⟩ := C02P.DWT2D_roundtrip_per hc0 hc1 hc0.reverse hc1.reverse hLc hLce hwc (by simp) (by simp [hwc]) horc
    hr0 hr1 hr0.reverse hr1.reverse hLr hLre hwr (by simp) (by simp [hwr]) horr J z H W hz hH hW (fitP_of_levelsOK2 _ _ J H W hok)
  rw [hfz] at hf'
  simp only [Option.some.injEq, Prod.mk.injEq] at hf'
  obtain ⟨e1, e2⟩ := hf'
  subst e1 e2
  rw [List.map_map] at hi'
  have hy : some [y] = some [y'] := by
    rw [← hi, ← hi']
    congr 1
  have hyy : y = y' := by simpa using hy
  subst hyy
  refine ⟨yl, yh, zl, zb, hfx, hfz, ?_⟩
  rw [hd, idot_rect x y H W hx hH]
  unfold dot2
  apply Finset.sum_congr rfl; intro i hi2
  apply Finset.sum_congr rfl; intro j hj2
  rw [htl i (by simpa using hi2) j (by simpa using hj2)]

end

/-- non-vacuity: 4-tap filters, two levels on an 8 × 8 image -/
example : LevelsOK2 4 4 2 8 8 := by simp [LevelsOK2]

end WV.C17W
