/-
  The module glue of the DWT classes, tied to the source by translation (regenerated on every run into `Gen/Sizes.lean`).

  Read from `dwt/transform1d.py`, `dwt/transform2d.py` and `dwt/lowlevel.py` at fixed statement shapes: the one call of the
  autograd Function / functional bank inside each module's level loop WITH ITS ARGUMENTS IN ORDER, the loop header (levels in
  increasing order for the analyses, `[::-1]` — coarsest first — for the syntheses), the one-sample crops of the two inverse loops
  (test and slice), the dilation `2 ** j` of the stationary transform and the filter tuple it passes, and, for the two 2-D
  preparation helpers, that both axis pairs go through the 1-D helper (so they inherit its mirroring, `C19Z.prep_mirrors_gen`), that
  column filters are reshaped onto axis 2 and row filters onto axis 3, and that absent row filters default to the prepared column
  filters.  The theorems restate the hand-written model with them: the model's `DWTForward` calls `AFB2D_forward mode wr0 wr1 wc0
  wc1` (rows first, the Function's own order), `DWTInverse_step` crops with `llH > hH` / `take (length - 1)` and calls
  `SFB2D_forward mode gr0 gr1 gc0 gc1`, `SWTForward` passes `2^j`.
-/
import WaveletsVerif.Gen.Sizes
import WaveletsVerif.Model.Dwt
namespace WV.C10Z
open WV WV.Gen.Sizes
variable {α : Type}

/-- the crop of `DWTInverse_step`, written with the generated tests and slice bounds -/
def cropGen2 (ll : Img α) (hH hW : Nat) : Img α :=
  let ll1 : Img α := if (ll.length : Int) > (hH : Int) then sliceTo ll dwtinv2_crop_to_rows else ll
  if ((Img.width ll : Nat) : Int) > (hW : Int) then ll1.map (fun r => sliceTo r dwtinv2_crop_to_cols) else ll1

theorem sliceTo_neg_one (x : List α) : sliceTo x (-1) = x.take (x.length - 1) := by
  unfold sliceTo pyBound
  congr 1
  simp only [show ((-1 : Int) < 0) from by decide, if_true]
  split
  · omega
  · split <;> omega

/-- **the crops of the 2-D inverse loop with the tests and slices read from the source** (rows on axis −2, then columns on axis −1,
one sample each, when the running low-pass is larger than the band-pass level) -/
theorem dwtinv2_crop_gen (ll : Img α) (hH hW : Nat) :
    (let ll1 := if ll.length > hH then ll.take (ll.length - 1) else ll
     if Img.width ll > hW then ll1.map (fun r => r.take (r.length - 1)) else ll1) = cropGen2 ll hH hW ∧
    (∀ l h : Int, (dwtinv2_crop_test_rows l h ↔ l > h) ∧ (dwtinv2_crop_test_cols l h ↔ l > h) ∧ (dwtinv1_crop_test_cols l h ↔ l > h)) ∧
    dwtinv2_crop_to_rows = -1 ∧ dwtinv2_crop_to_cols = -1 ∧ dwtinv1_crop_to_cols = -1 := by
  refine ⟨?_, fun l h => ⟨Iff.rfl, Iff.rfl, Iff.rfl⟩, rfl, rfl, rfl⟩
  unfold cropGen2
  simp only [show dwtinv2_crop_to_rows = -1 from rfl, show dwtinv2_crop_to_cols = -1 from rfl, sliceTo_neg_one, Int.ofNat_lt, gt_iff_lt]

/-- **the level loops call the Functions with the arguments in the order the model assumes, analyses finest level first, syntheses
coarsest level first; the stationary transform dilates by `2 ^ j`; the 2-D preparation helpers put column filters on axis 2 and row
filters on axis 3 through the 1-D helpers** -/
theorem module_glue_gen :
    dwtfwd2_call_args = ["ll", "self.h0_row", "self.h1_row", "self.h0_col", "self.h1_col", "mode"] ∧ dwtfwd2_loop = ["j", "range(self.J)"] ∧
    dwtinv2_call_args = ["ll", "h", "self.g0_row", "self.g1_row", "self.g0_col", "self.g1_col", "mode"] ∧ dwtinv2_loop = ["h", "yh[::-1]"] ∧
    dwtfwd1_call_args = ["x0", "self.h0", "self.h1", "mode"] ∧ dwtfwd1_loop = ["j", "range(self.J)"] ∧
    dwtinv1_call_args = ["x0", "x1", "self.g0", "self.g1", "mode"] ∧ dwtinv1_loop = ["x1", "highs[::-1]"] ∧
    swt_call_args = ["ll", "filts", "mode"] ∧ swt_loop = ["j", "range(self.J)"] ∧ swt_dilation_base = 2 ∧
    swt_filts = ["self.h0_col", "self.h1_col", "self.h0_row", "self.h1_row"] ∧
    prep_filt_afb2d_1d_calls = ["h0_col, h1_col", "h0_row, h1_row"] ∧ prep_filt_sfb2d_1d_calls = ["g0_col, g1_col", "g0_row, g1_row"] ∧
    prep_filt_afb2d_axis_h0_col = 2 ∧ prep_filt_afb2d_axis_h1_col = 2 ∧ prep_filt_afb2d_axis_h0_row = 3 ∧ prep_filt_afb2d_axis_h1_row = 3 ∧
    prep_filt_sfb2d_axis_g0_col = 2 ∧ prep_filt_sfb2d_axis_g1_col = 2 ∧ prep_filt_sfb2d_axis_g0_row = 3 ∧ prep_filt_sfb2d_axis_g1_row = 3 ∧
    prep_filt_afb2d_row_default = ["h0_row, h1_row = (h0_col, h1_col)"] ∧ prep_filt_sfb2d_row_default = ["g0_row, g1_row = (g0_col, g1_col)"] := by
  decide

/-- **the DTCWT modules call the four level Functions with the arguments in the order the model assumes**: level 1 on the image, then
levels `1 … J-1` (0-based) on the running low-pass with that level's skip flag; results stored per level; the inverse walks the levels
from the coarsest (`J-1`) down to 1 over `highs[1:][::-1]` and applies `INV_J1` to `highs[0]` last -/
theorem dtcwt_glue_gen :
    dtcwtfwd_j1_args = ["x", "self.h0o", "self.h1o", "self.skip_hps[0]", "self.o_dim", "self.ri_dim", "mode"] ∧
    dtcwtfwd_j2_args = ["low", "self.h0a", "self.h1a", "self.h0b", "self.h1b", "self.skip_hps[j]", "self.o_dim", "self.ri_dim", "mode"] ∧
    dtcwtfwd_loop = ["j", "range(1, self.J)"] ∧
    dtcwtfwd_stores = ["highs[0] = h", "scales[0] = low", "highs[j] = h", "scales[j] = low"] ∧
    dtcwtfwd_returns = ["(x, None)", "(scales, highs)", "(low, highs)"] ∧
    dtcwtinv_j1_args = ["low", "highs[0]", "self.g0o", "self.g1o", "self.o_dim", "self.ri_dim", "mode"] ∧
    dtcwtinv_j2_args = ["low", "s", "self.g0a", "self.g1a", "self.g0b", "self.g1b", "self.o_dim", "self.ri_dim", "mode"] ∧
    dtcwtinv_loop = ["(j, s)", "zip(range(J - 1, 0, -1), highs[1:][::-1])"] := by
  decide

/-- **the scattering modules hand every option of the call to the Function as an ARGUMENT** (filters, padding mode, smoothing bias,
colour combination, in this order), for the plain and the band-pass families: nothing a call needs travels through the process -/
theorem scat_glue_gen :
    scat1_args_plain = ["x", "self.h0o", "self.h1o", "self.mode", "self.magbias", "self.combine_colour"] ∧
    scat1_args_rot = ["x", "self.h0o", "self.h1o", "self.h2o", "self.mode", "self.magbias", "self.combine_colour"] ∧
    scatj2_args_plain = ["x", "self.h0o", "self.h1o", "self.h0a", "self.h0b", "self.h1a", "self.h1b", "self.mode", "self.magbias", "self.combine_colour"] ∧
    scatj2_args_rot = ["x", "self.h0o", "self.h1o", "self.h2o", "self.h0a", "self.h0b", "self.h1a", "self.h1b", "self.h2a", "self.h2b", "self.mode", "self.magbias",
      "self.combine_colour"] := by
  decide

/-- **no `forward` of a public module class assigns to an attribute of the module**: whatever a call computes lives in locals, so the
module a call sees is the module the caller built (the model's modules are functions of their arguments and buffers; C15) -/
theorem forward_keeps_no_state_gen :
    dtcwtfwd_self_writes = [] ∧ dtcwtinv_self_writes = [] ∧ dwtfwd2_self_writes = [] ∧ dwtinv2_self_writes = [] ∧ swt_self_writes = [] ∧
    dwtfwd1_self_writes = [] ∧ dwtinv1_self_writes = [] ∧ scat1_self_writes = [] ∧ scatj2_self_writes = [] := by
  decide

/-- **no function of the library writes into one of its parameters** (subscript stores, augmented assignments, trailing-underscore
methods on a parameter): the only two hits are the integer `o_dim -= 1` of the axis helpers.  What a caller hands in is read, never
written (C15, C10: the pyramid lists and tensors of the caller) -/
theorem writes_into_parameters_gen :
    writes_into_parameters = ["get_dimensions5: o_dim -= 1", "get_dimensions6: o_dim -= 1"] := by
  decide

/-- the model's stationary transform uses the dilation read from the source: level `j` (from 0) dilates by `base ^ j` -/
theorem swt_dilation_gen [Add α] [Mul α] [OfNat α 0] (mode : Mode) (wc0 wc1 wr0 wr1 : List α) (J j : Nat) (ll : List (Img α)) :
    SWTForward mode wc0 wc1 wr0 wr1 (J+1) j ll = (do
      let m := if mode = .periodization then Mode.periodic else mode
      let y ← afb2dAtrous m (swt_dilation_base.toNat ^ j) wc0 wc1 wr0 wr1 ll
      let C := y.length / 4
      let yr := tab C fun c => [y.getD (4*c) [], y.getD (4*c+1) [], y.getD (4*c+2) [], y.getD (4*c+3) []]
      let rest ← SWTForward mode wc0 wc1 wr0 wr1 J (j+1) (yr.map fun b => b.getD 0 [])
      some (yr :: rest)) := by
  rfl

end WV.C10Z
