/-
  C02 — perfect reconstruction through the WHOLE 1-D pyramid, every number of levels.

  `waverec(wavedec(x))` starts with `x` and has at most one extra trailing sample, for every `J`, every signal
  length ≥ 1, every filter length ≥ 2 and every bank with `PRBank`, in the padded modes (`pyramid_pr`): at each level
  the one-sample-longer reconstruction is exactly what the un-pad rule trims.  With C01 (`DWT1DForward = wavedec`)
  and C10 (`DWT1DInverse = waverec` on forward-compatible pyramids, which the pyramid of a signal is:
  `compat_wavedec`) this gives the same statement for the implementation models of the two modules
  (`DWT1D_roundtrip`).
-/
import WaveletsVerif.Properties.C02
namespace WV.C02J
open Finset WV WV.C02
variable {R : Type} [CommRing R]

theorem idwt_length (m : Mode) (hm : m ≠ .periodization) (g0 g1 lo hi : List R) :
    (Spec.idwt m g0 g1 lo hi).length = 2 * lo.length + 2 - g0.length := by
  cases m <;> first | exact absurd rfl hm | simp [Spec.idwt]

theorem take_eq_of_getN (y x : List R) (hl : x.length ≤ y.length) (h : ∀ t < x.length, getN y t = getN x t) :
    y.take x.length = x := by
  apply List.ext_getElem
  · rw [List.length_take]; omega
  · intro i h1 h2
    have := h i h2
    unfold getN at this
    rw [List.getD_eq_getElem?_getD, List.getD_eq_getElem?_getD, List.getElem?_eq_getElem (by omega),
      List.getElem?_eq_getElem h2] at this
    rw [List.getElem_take]
    simpa using this

/-- one level: `idwt(dwt x)` starts with `x` and has `N` or `N+1` samples -/
theorem level_pr (m : Mode) (hm : m = .zero ∨ m = .symmetric ∨ m = .periodic) (h0 h1 g0 g1 x : List R) (hL : 2 ≤ h0.length)
    (hh1 : h1.length = h0.length) (hg0 : g0.length = h0.length) (hg1 : g1.length = h0.length)
    (hpr : PRBank h0 h1 g0 g1) (hN : 1 ≤ x.length) :
    (Spec.idwt m g0 g1 (Spec.dwt m h0 x) (Spec.dwt m h1 x)).take x.length = x ∧
    ((Spec.idwt m g0 g1 (Spec.dwt m h0 x) (Spec.dwt m h1 x)).length = x.length ∨
     (Spec.idwt m g0 g1 (Spec.dwt m h0 x) (Spec.dwt m h1 x)).length = x.length + 1) := by
  have hmp : m ≠ .periodization := by rcases hm with rfl | rfl | rfl <;> decide
  have hlen : (Spec.idwt m g0 g1 (Spec.dwt m h0 x) (Spec.dwt m h1 x)).length = 2 * dwtCoeffLen x.length h0.length + 2 - h0.length := by
    rw [idwt_length m hmp, C01.dwt_length m hm, hg0]
  have hu := unpad_length x.length h0.length hL hN
  refine ⟨?_, by rw [hlen]; exact hu⟩
  apply take_eq_of_getN
  · rw [hlen]; omega
  · intro t ht
    exact pr_padded m hmp h0 h1 g0 g1 x hL hh1 hg0 hg1 hpr t ht

/-- **`waverec(wavedec(x))` starts with `x` and is at most one sample longer, for every J** -/
theorem pyramid_pr (m : Mode) (hm : m = .zero ∨ m = .symmetric ∨ m = .periodic) (h0 h1 g0 g1 : List R) (hL : 2 ≤ h0.length)
    (hh1 : h1.length = h0.length) (hg0 : g0.length = h0.length) (hg1 : g1.length = h0.length)
    (hpr : PRBank h0 h1 g0 g1) : ∀ (J : Nat) (x : List R), 1 ≤ x.length →
    (Spec.waverec m g0 g1 (Spec.wavedec m h0 h1 J x).1 ((Spec.wavedec m h0 h1 J x).2.map some)).take x.length = x ∧
    ((Spec.waverec m g0 g1 (Spec.wavedec m h0 h1 J x).1 ((Spec.wavedec m h0 h1 J x).2.map some)).length = x.length ∨
     (Spec.waverec m g0 g1 (Spec.wavedec m h0 h1 J x).1 ((Spec.wavedec m h0 h1 J x).2.map some)).length = x.length + 1) := by
  intro J
  induction J with
  | zero =>
    intro x hN
    simp [Spec.wavedec, Spec.waverec]
  | succ J ih =>
    intro x hN
    have hK : (Spec.dwt m h0 x).length = dwtCoeffLen x.length h0.length := C01.dwt_length m hm h0 x
    have hK1 : (Spec.dwt m h1 x).length = dwtCoeffLen x.length h0.length := by rw [C01.dwt_length m hm h1 x, hh1]
    have hK0 : 1 ≤ (Spec.dwt m h0 x).length := by rw [hK]; unfold dwtCoeffLen; omega
    obtain ⟨ih1, ih2⟩ := ih (Spec.dwt m h0 x) hK0
    simp only [Spec.wavedec, List.map_cons]
    rw [C10.waverec_eq_foldl, List.reverse_cons, List.foldl_append, ← C10.waverec_eq_foldl]
    simp only [List.foldl_cons, List.foldl_nil]
    set Rc := Spec.waverec m g0 g1 (Spec.wavedec m h0 h1 J (Spec.dwt m h0 x)).1
      ((Spec.wavedec m h0 h1 J (Spec.dwt m h0 x)).2.map some) with hRc
    -- the un-pad rule hands exactly `dwt h0 x` to the synthesis
    have hstep : C10.stepS m g0 g1 Rc (some (Spec.dwt m h1 x))
        = Spec.idwt m g0 g1 (Spec.dwt m h0 x) (Spec.dwt m h1 x) := by
      unfold C10.stepS
      simp only
      rcases ih2 with e | e
      · have hne : ¬ (Rc.length = (Spec.dwt m h1 x).length + 1) := by rw [e, hK, hK1]; omega
        rw [if_neg hne]
        have : Rc = Spec.dwt m h0 x := by
          rw [← ih1, ← e, List.take_length]
        rw [this]
      · have hye : Rc.length = (Spec.dwt m h1 x).length + 1 := by rw [e, hK, hK1]
        rw [if_pos hye]
        have : Rc.take (Rc.length - 1) = Spec.dwt m h0 x := by
          rw [← ih1, e]; congr 1
        rw [this]
    rw [hstep]
    exact level_pr m hm h0 h1 g0 g1 x hL hh1 hg0 hg1 hpr hN

/-- the pyramid of a signal has the shapes the inverse accepts (`Compat`), at every level -/
theorem compat_wavedec (m : Mode) (hm : m = .zero ∨ m = .symmetric ∨ m = .periodic) (h0 h1 g0 g1 : List R) (hL : 2 ≤ h0.length)
    (hh1 : h1.length = h0.length) (hg0 : g0.length = h0.length) (hg1 : g1.length = h0.length)
    (hpr : PRBank h0 h1 g0 g1) : ∀ (J : Nat) (x : List R), 1 ≤ x.length →
    C10.Compat m g0 g1 (Spec.wavedec m h0 h1 J x).1 ((Spec.wavedec m h0 h1 J x).2.map some).reverse := by
  intro J
  induction J with
  | zero => intro x hN; simp [Spec.wavedec, C10.Compat]
  | succ J ih =>
    intro x hN
    have hK : (Spec.dwt m h0 x).length = dwtCoeffLen x.length h0.length := C01.dwt_length m hm h0 x
    have hK1 : (Spec.dwt m h1 x).length = dwtCoeffLen x.length h0.length := by rw [C01.dwt_length m hm h1 x, hh1]
    have hK0 : 1 ≤ (Spec.dwt m h0 x).length := by rw [hK]; unfold dwtCoeffLen; omega
    simp only [Spec.wavedec, List.map_cons, List.reverse_cons]
    -- Compat over an appended level: first the coarser levels (IH), then this level on their reconstruction
    have happ : ∀ (a : List R) (l1 l2 : List (Option (List R))),
        C10.Compat m g0 g1 a l1 → C10.Compat m g0 g1 (l1.foldl (C10.stepS m g0 g1) a) l2 → C10.Compat m g0 g1 a (l1 ++ l2) := by
      intro a l1
      induction l1 generalizing a with
      | nil => intro l2 _ h2; simpa using h2
      | cons d rest ihl =>
        intro l2 h1 h2
        obtain ⟨hok, hrest⟩ := h1
        exact ⟨hok, ihl _ l2 hrest (by simpa using h2)⟩
    apply happ _ _ _ (ih (Spec.dwt m h0 x) hK0)
    rw [← C10.waverec_eq_foldl]
    obtain ⟨p1, p2⟩ := pyramid_pr m hm h0 h1 g0 g1 hL hh1 hg0 hg1 hpr J (Spec.dwt m h0 x) hK0
    refine ⟨?_, trivial⟩
    unfold C10.StepOK
    simp only
    rw [hK1]
    have hKge : 1 ≤ dwtCoeffLen x.length h0.length := by unfold dwtCoeffLen; omega
    refine ⟨by rw [hK] at p2; exact p2, hKge, ?_⟩
    rw [hg0]; unfold dwtCoeffLen; omega

/-- **J-level perfect reconstruction of the implementation models**: `DWT1DInverse(DWT1DForward(x))` returns, and its
result starts with `x` and has at most one extra trailing sample (as PyWavelets) — every J, every length ≥ 1, every bank
with `PRBank`, modes zero / symmetric / periodic -/
theorem DWT1D_roundtrip (m : Mode) (hm : m = .zero ∨ m = .symmetric ∨ m = .periodic) (h0 h1 g0 g1 : List R) (hL : 2 ≤ h0.length)
    (hh1 : h1.length = h0.length) (hg0 : g0.length = h0.length) (hg1 : g1.length = h0.length)
    (hpr : PRBank h0 h1 g0 g1) (J : Nat) (x : List R) (hN : 1 ≤ x.length) :
    ∃ yl yh y, DWT1DForwardM m J h0 h1 [x] = some (yl, yh) ∧
      DWT1DInverse m g0 g1 yl (yh.map some) = some [y] ∧ y.take x.length = x ∧ (y.length = x.length ∨ y.length = x.length + 1) := by
  have hf := C01.DWT1DForward_eq_wavedec m hm h0 h1 hL (by omega) J x hN
  have hm' : m = .zero ∨ m = .symmetric ∨ m = .reflect ∨ m = .periodic := by
    rcases hm with h | h | h
    · exact Or.inl h
    · exact Or.inr (Or.inl h)
    · exact Or.inr (Or.inr (Or.inr h))
  have hc := compat_wavedec m hm h0 h1 g0 g1 hL hh1 hg0 hg1 hpr J x hN
  have hi := C10.DWT1DInverse_eq_waverec m hm' g0 g1 (by omega) (by omega) (Spec.wavedec m h0 h1 J x).1
    ((Spec.wavedec m h0 h1 J x).2.map some) hc
  obtain ⟨p1, p2⟩ := pyramid_pr m hm h0 h1 g0 g1 hL hh1 hg0 hg1 hpr J x hN
  refine ⟨_, _, _, hf, ?_, p1, p2⟩
  rw [← hi]
  congr 1
  rw [List.map_map, List.map_map]
  apply List.map_congr_left
  intro d _
  rfl

end WV.C02J
