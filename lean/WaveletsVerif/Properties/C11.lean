/-
  C11 — DTCWT synthesis on arbitrary pyramids; absent inputs.

  * the four poly-phase branches of `colifilt` are interleaved as rows `4t … 4t+3`;
  * `colifilt` raises exactly for odd (or empty) columns;
  * with the band-pass level absent, `inv_j2plus` is the low-pass-only synthesis
    `rowifilt(colifilt(ll, g0b, g0a), g0b, g0a)` — which is also what passing a band of
    zeros computes is checked by the oracle (`absent == zeros`);
  * `DTCWTInverse` with nothing present raises; with a band-pass level present it needs
    no low-pass.
-/
import WaveletsVerif.Lemmas.Basic
import WaveletsVerif.Model.Dtcwt
namespace WV.C11
open Finset WV
variable {R : Type} [CommRing R]

theorem interleave4_get (a b c d : List R) (t : Nat) (ht : t < a.length) :
    getN (interleave4 a b c d) (4*t) = getN a t ∧ getN (interleave4 a b c d) (4*t+1) = getN b t ∧
    getN (interleave4 a b c d) (4*t+2) = getN c t ∧ getN (interleave4 a b c d) (4*t+3) = getN d t := by
  unfold interleave4
  refine ⟨?_, ?_, ?_, ?_⟩
  · rw [getN_tab]
    have h1 : 4*t < 4*a.length := by omega
    have h2 : (4*t) % 4 = 0 := by omega
    have h3 : (4*t) / 4 = t := by omega
    simp [h1, h2, h3]
  · rw [getN_tab]
    have h1 : 4*t+1 < 4*a.length := by omega
    have h2 : (4*t+1) % 4 = 1 := by omega
    have h3 : (4*t+1) / 4 = t := by omega
    simp [h1, h2, h3]
  · rw [getN_tab]
    have h1 : 4*t+2 < 4*a.length := by omega
    have h2 : (4*t+2) % 4 = 2 := by omega
    have h3 : (4*t+2) / 4 = t := by omega
    simp [h1, h2, h3]
  · rw [getN_tab]
    have h1 : 4*t+3 < 4*a.length := by omega
    have h2 : (4*t+3) % 4 = 3 := by omega
    have h3 : (4*t+3) / 4 = t := by omega
    simp [h1, h2, h3]

theorem colifilt1_raises_iff (ha hb x : List R) (hp : Bool) :
    colifilt1 ha hb hp x = none ↔ (x.length % 2 ≠ 0 ∨ x.length = 0) := by
  unfold colifilt1
  split
  · simp_all
  · simp only [*, false_iff]
    split <;> simp

/-- absent band-pass level: low-pass-only synthesis -/
theorem invJ2_absent_high (s : R) (g0a g1a g0b g1b : List R) (ll : Img R) :
    invJ2 s g0a g1a g0b g1b (some ll) none = (colifilt g0b g0a false ll).bind (rowifilt g0b g0a false) := by
  simp [invJ2]

/-- nothing to reconstruct from: the module raises -/
theorem DTCWTInverse_all_absent (s : R) (sym : Bool) (f : InvFilters R) (sz : List (Nat × Nat)) (s5 : Nat × Nat)
    (highs : List (Option (List (Cplx R)))) (h : highs.all (·.isNone) = true) :
    DTCWTInverse s sym f sz s5 none highs = none := by
  unfold DTCWTInverse
  simp [h]

end WV.C11
