/-
  C11 — DTCWT synthesis on arbitrary pyramids; absent inputs.

  * the four poly-phase branches of `colifilt` are interleaved as rows `4t … 4t+3`;
  * `colifilt` raises exactly for odd (or empty) columns;
  * with the band-pass level absent, `inv_j2plus` is the low-pass-only synthesis
    `rowifilt(colifilt(ll, g0b, g0a), g0b, g0a)` — which is also what passing a band of
    zeros computes is checked by the oracle (`absent == zeros`);
  * `DTCWTInverse` with nothing present raises; with a band-pass level present it needs
    no low-pass.
-/
import WaveletsVerif.Lemmas.Basic
import WaveletsVerif.Model.Dtcwt
import WaveletsVerif.Properties.C03
namespace WV.C11
open Finset WV
variable {R : Type} [CommRing R]

theorem interleave4_get (a b c d : List R) (t : Nat) (ht : t < a.length) :
    getN (interleave4 a b c d) (4*t) = getN a t ∧ getN (interleave4 a b c d) (4*t+1) = getN b t ∧
    getN (interleave4 a b c d) (4*t+2) = getN c t ∧ getN (interleave4 a b c d) (4*t+3) = getN d t := by
  unfold interleave4
  refine ⟨?_, ?_, ?_, ?_⟩
  · rw [getN_tab]
    have h1 : 4*t < 4*a.length := by omega
    have h2 : (4*t) % 4 = 0 := by omega
    have h3 : (4*t) / 4 = t := by omega
    simp [h1, h2, h3]
  · rw [getN_tab]
    have h1 : 4*t+1 < 4*a.length := by omega
    have h2 : (4*t+1) % 4 = 1 := by omega
    have h3 : (4*t+1) / 4 = t := by omega
    simp [h1, h2, h3]
  · rw [getN_tab]
    have h1 : 4*t+2 < 4*a.length := by omega
    have h2 : (4*t+2) % 4 = 2 := by omega
    have h3 : (4*t+2) / 4 = t := by omega
    simp [h1, h2, h3]
  · rw [getN_tab]
    have h1 : 4*t+3 < 4*a.length := by omega
    have h2 : (4*t+3) % 4 = 3 := by omega
    have h3 : (4*t+3) / 4 = t := by omega
    simp [h1, h2, h3]

/-! ### `colifilt` = the reference's four poly-phase branches -/

omit [CommRing R] in
theorem pyBound_neg (n k : Nat) (hk : k ≤ n) (hk0 : 0 < k) : pyBound n (-(k:Int)) = n - k := by
  unfold pyBound
  have h1 : (-(k:Int)) < 0 := by omega
  simp only [h1, if_true]
  have h2 : ¬ (-(k:Int) + n < 0) := by omega
  have h3 : ¬ ((n:Int) < -(k:Int) + n) := by omega
  simp only [h2, h3, if_false]
  omega

/-- every second sample starting at `st`, `cnt` of them -/
def everyOther (x : List R) (st cnt : Nat) : List R := tab cnt fun i => getN x (st + 2*i)

theorem slice2_everyOther (x : List R) (a : Nat) (k : Nat) (ha : a ≤ x.length) (hk : k ≤ x.length) (hk0 : 0 < k) :
    slice2 x (a:Int) (-(k:Int)) = everyOther x a ((x.length - k - a + 1) / 2) := by
  unfold slice2 everyOther
  rw [C03.pyBound_nat _ _ ha, pyBound_neg _ _ hk hk0]

theorem slice2From_everyOther (x : List R) (a : Nat) (ha : a ≤ x.length) :
    slice2From x (a:Int) = everyOther x a ((x.length - a + 1) / 2) := by
  rw [C03.slice2From_eq x a ha]; rfl

/-- taps of the poly-phase split of the reversed buffer: `prep_filt(h)[off::2][j] = h[m−1−off−2j]` -/
theorem taps_get (h : List R) (off j : Nat) (hoff : off ≤ 1) (hm : h.length % 2 = 0) (hj : j < h.length / 2) :
    getN (slice2From h.reverse (off:Int)) j = getN h (h.length - 1 - off - 2*j) := by
  rw [C03.slice2From_eq _ _ (by simp; omega)]
  rw [getN_tab]
  have : j < (h.reverse.length - off + 1) / 2 := by simp; omega
  simp only [this, if_true]
  have := getN_reverse h (h.length - 1 - (off + 2*j)) (by omega)
  have h2 : h.length - 1 - (h.length - 1 - (off + 2*j)) = off + 2*j := by omega
  rw [h2] at this
  rw [this]; congr 1; omega

theorem taps_length (h : List R) (off : Nat) (hoff : off ≤ 1) (hm : h.length % 2 = 0) (hm2 : 2 ≤ h.length) :
    (slice2From h.reverse (off:Int)).length = h.length / 2 := by
  rw [C03.slice2From_eq _ _ (by simp; omega)]; simp; omega

/-- one poly-phase branch: stride-1 correlation of `m/2` taps with every second extended sample from `st` -/
theorem branch_get (h x : List R) (off st v : Nat) (hoff : off ≤ 1) (hst : st ≤ 3) (hm : h.length % 2 = 0)
    (hm2 : 2 ≤ h.length) (hr : x.length % 2 = 0) (hr0 : 0 < x.length) (hv : v < x.length / 2) :
    getN (corr (slice2From h.reverse (off:Int)) (everyOther (symmPad x (h.length/2)) st (x.length/2 + h.length/2 - 1)) 1 1) v
      = ∑ j ∈ range (h.length/2), getN h (h.length - 1 - off - 2*j) * Spec.xt x (2*((v:Int) + j) + st - ((h.length/2 : Nat):Int)) := by
  have hl := taps_length h off hoff hm hm2
  rw [getN_corr1 _ _ 1 v (by rw [hl]; simp [everyOther, corrLen]; split <;> omega), hl]
  apply Finset.sum_congr rfl; intro j hj
  have hj' : j < h.length / 2 := by simpa using hj
  rw [taps_get h off j hoff hm hj', ← getN_eq_getZ]
  unfold everyOther
  rw [getN_tab]
  have hlt : v + 1 * j < x.length / 2 + h.length / 2 - 1 := by omega
  simp only [hlt, if_true]
  rw [C03.getN_symmPad _ _ _ (by omega)]
  congr 2
  push_cast; ring

/-- the spec's branch, in the form `branch_get` produces -/
theorem spec_branch (h x : List R) (off st v : Nat) (phase : Int) (hp : phase = st) (hm2 : 2 ≤ h.length) (hoff : off ≤ 1) :
    (sumN (h.length/2) fun j => getN h (h.length - (1 + off) - 2*j) * Spec.xt x (2*((v:Int) + j) + phase - ((h.length/2 : Nat):Int)))
      = ∑ j ∈ range (h.length/2), getN h (h.length - 1 - off - 2*j) * Spec.xt x (2*((v:Int) + j) + st - ((h.length/2 : Nat):Int)) := by
  rw [sumN_eq, hp]
  apply Finset.sum_congr rfl; intro j _
  have : h.length - (1 + off) - 2*j = h.length - 1 - off - 2*j := by omega
  rw [this]

/-- `colifilt(X, prep_filt(ha), prep_filt(hb), highpass)` is the reference's interpolating filter: the four
poly-phase branches with the reference's tap and phase assignment for both parities of `m/2` and both
`highpass` flags — every even column length, every even filter length. -/
theorem colifilt1_eq_ref (ha hb x : List R) (hp : Bool) (hr : x.length % 2 = 0) (hr0 : 0 < x.length)
    (hm : ha.length % 2 = 0) (hm2 : 2 ≤ ha.length) (hab : hb.length = ha.length) :
    colifilt1 (prepFilt ha) (prepFilt hb) hp x = some (Spec.colifilt ha hb hp x) := by
  have hg : ¬ (x.length % 2 ≠ 0 ∨ x.length = 0) := by omega
  have hbm : hb.length % 2 = 0 := by omega
  have hbm2 : 2 ≤ hb.length := by omega
  have hxe : (symmPad x (ha.length/2)).length = ha.length/2 + x.length + ha.length/2 := by simp [symmPad]
  unfold colifilt1 prepFilt Spec.colifilt
  rw [if_neg hg]
  simp only [List.length_reverse]
  -- the five slices that occur, as "every other sample"
  have s0 : slice2 (symmPad x (ha.length/2)) 0 (-2) = everyOther (symmPad x (ha.length/2)) 0 (x.length/2 + ha.length/2 - 1) := by
    have := slice2_everyOther (symmPad x (ha.length/2)) 0 2 (by omega) (by rw [hxe]; omega) (by omega)
    simp only [Nat.cast_zero, Nat.cast_ofNat] at this
    rw [this, hxe]; congr 1; omega
  have s1 : slice2 (symmPad x (ha.length/2)) 1 (-2) = everyOther (symmPad x (ha.length/2)) 1 (x.length/2 + ha.length/2 - 1) := by
    have := slice2_everyOther (symmPad x (ha.length/2)) 1 2 (by rw [hxe]; omega) (by rw [hxe]; omega) (by omega)
    simp only [Nat.cast_one, Nat.cast_ofNat] at this
    rw [this, hxe]; congr 1; omega
  have s2 : slice2From (symmPad x (ha.length/2)) 2 = everyOther (symmPad x (ha.length/2)) 2 (x.length/2 + ha.length/2 - 1) := by
    have := slice2From_everyOther (symmPad x (ha.length/2)) 2 (by rw [hxe]; omega)
    simp only [Nat.cast_ofNat] at this
    rw [this, hxe]; congr 1; omega
  have s3 : slice2From (symmPad x (ha.length/2)) 3 = everyOther (symmPad x (ha.length/2)) 3 (x.length/2 + ha.length/2 - 1) := by
    have := slice2From_everyOther (symmPad x (ha.length/2)) 3 (by rw [hxe]; omega)
    simp only [Nat.cast_ofNat] at this
    rw [this, hxe]; congr 1; omega
  have t1 : slice2 (symmPad x (ha.length/2)) 1 (-1) = everyOther (symmPad x (ha.length/2)) 1 (x.length/2 + ha.length/2 - 1) := by
    have := slice2_everyOther (symmPad x (ha.length/2)) 1 1 (by rw [hxe]; omega) (by rw [hxe]; omega) (by omega)
    simp only [Nat.cast_one] at this
    rw [this, hxe]; congr 1; omega
  have t2 : slice2 (symmPad x (ha.length/2)) 2 (-1) = everyOther (symmPad x (ha.length/2)) 2 (x.length/2 + ha.length/2 - 1) := by
    have := slice2_everyOther (symmPad x (ha.length/2)) 2 1 (by rw [hxe]; omega) (by rw [hxe]; omega) (by omega)
    simp only [Nat.cast_ofNat, Nat.cast_one] at this
    rw [this, hxe]; congr 1; omega
  have e0 : slice2From ha.reverse 0 = slice2From ha.reverse ((0:Nat):Int) := by simp
  have e1 : slice2From ha.reverse 1 = slice2From ha.reverse ((1:Nat):Int) := by simp
  have f0 : slice2From hb.reverse 0 = slice2From hb.reverse ((0:Nat):Int) := by simp
  have f1 : slice2From hb.reverse 1 = slice2From hb.reverse ((1:Nat):Int) := by simp
  have blen : ∀ (h : List R) (off st : Nat), off ≤ 1 → h.length = ha.length →
      (corr (slice2From h.reverse (off:Int)) (everyOther (symmPad x (ha.length/2)) st (x.length/2 + ha.length/2 - 1)) 1 1).length
        = x.length / 2 := by
    intro h off st hoff hh
    rw [corr_length, taps_length h off hoff (by omega) (by omega)]
    simp [everyOther, corrLen, hh]; split <;> omega
  have bg := fun (h : List R) (hh : h.length = ha.length) (off st v : Nat) (hoff : off ≤ 1) (hst : st ≤ 3) (hv : v < x.length/2) =>
    (show getN (corr (slice2From h.reverse (off:Int)) (everyOther (symmPad x (ha.length/2)) st (x.length/2 + ha.length/2 - 1)) 1 1) v
        = ∑ j ∈ range (ha.length/2), getN h (ha.length - 1 - off - 2*j) * Spec.xt x (2*((v:Int) + j) + st - ((ha.length/2 : Nat):Int)) from by
      have := branch_get h x off st v hoff hst (by omega) (by omega) hr hr0 hv
      rw [hh] at this; exact this)
  by_cases hpar : ha.length / 2 % 2 = 0
  · simp only [hpar, if_true]
    cases hp
    · simp only [Bool.false_eq_true, if_false, s0, s1, s2, s3, e0, e1, f0, f1]
      refine congrArg some ?_
      unfold interleave4
      rw [blen ha 0 0 (by omega) rfl]
      apply tab_ext (by omega)
      intro i hi
      have hv : i / 4 < x.length / 2 := by omega
      have hmod : i % 4 = 0 ∨ i % 4 = 1 ∨ i % 4 = 2 ∨ i % 4 = 3 := by omega
      rcases hmod with h | h | h | h <;> simp only [h]
      · rw [bg ha rfl 0 0 _ (by omega) (by omega) hv]
        exact (spec_branch ha x 0 0 _ 0 (by simp) hm2 (by omega)).symm
      · rw [bg hb hab 0 1 _ (by omega) (by omega) hv]
        have := spec_branch hb x 0 1 (i/4) 1 (by simp) hbm2 (by omega)
        rw [hab] at this; exact this.symm
      · rw [bg ha rfl 1 2 _ (by omega) (by omega) hv]
        exact (spec_branch ha x 1 2 _ 2 (by simp) hm2 (by omega)).symm
      · rw [bg hb hab 1 3 _ (by omega) (by omega) hv]
        have := spec_branch hb x 1 3 (i/4) 3 (by simp) hbm2 (by omega)
        rw [hab] at this; exact this.symm
    · simp only [if_true, s0, s1, s2, s3, e0, e1, f0, f1]
      refine congrArg some ?_
      unfold interleave4
      rw [blen ha 0 1 (by omega) rfl]
      apply tab_ext (by omega)
      intro i hi
      have hv : i / 4 < x.length / 2 := by omega
      have hmod : i % 4 = 0 ∨ i % 4 = 1 ∨ i % 4 = 2 ∨ i % 4 = 3 := by omega
      rcases hmod with h | h | h | h <;> simp only [h]
      · rw [bg ha rfl 0 1 _ (by omega) (by omega) hv]
        exact (spec_branch ha x 0 1 _ 1 (by simp) hm2 (by omega)).symm
      · rw [bg hb hab 0 0 _ (by omega) (by omega) hv]
        have := spec_branch hb x 0 0 (i/4) 0 (by simp) hbm2 (by omega)
        rw [hab] at this; exact this.symm
      · rw [bg ha rfl 1 3 _ (by omega) (by omega) hv]
        exact (spec_branch ha x 1 3 _ 3 (by simp) hm2 (by omega)).symm
      · rw [bg hb hab 1 2 _ (by omega) (by omega) hv]
        have := spec_branch hb x 1 2 (i/4) 2 (by simp) hbm2 (by omega)
        rw [hab] at this; exact this.symm
  · simp only [hpar, if_false]
    cases hp
    · simp only [Bool.false_eq_true, if_false, t1, t2, e0, e1, f0, f1]
      refine congrArg some ?_
      unfold interleave4
      rw [blen ha 1 1 (by omega) rfl]
      apply tab_ext (by omega)
      intro i hi
      have hv : i / 4 < x.length / 2 := by omega
      have hmod : i % 4 = 0 ∨ i % 4 = 1 ∨ i % 4 = 2 ∨ i % 4 = 3 := by omega
      rcases hmod with h | h | h | h <;> simp only [h]
      · rw [bg ha rfl 1 1 _ (by omega) (by omega) hv]
        exact (spec_branch ha x 1 1 _ 1 (by simp) hm2 (by omega)).symm
      · rw [bg hb hab 1 2 _ (by omega) (by omega) hv]
        have := spec_branch hb x 1 2 (i/4) 2 (by simp) hbm2 (by omega)
        rw [hab] at this; exact this.symm
      · rw [bg ha rfl 0 1 _ (by omega) (by omega) hv]
        exact (spec_branch ha x 0 1 _ 1 (by simp) hm2 (by omega)).symm
      · rw [bg hb hab 0 2 _ (by omega) (by omega) hv]
        have := spec_branch hb x 0 2 (i/4) 2 (by simp) hbm2 (by omega)
        rw [hab] at this; exact this.symm
    · simp only [if_true, t1, t2, e0, e1, f0, f1]
      refine congrArg some ?_
      unfold interleave4
      rw [blen ha 1 2 (by omega) rfl]
      apply tab_ext (by omega)
      intro i hi
      have hv : i / 4 < x.length / 2 := by omega
      have hmod : i % 4 = 0 ∨ i % 4 = 1 ∨ i % 4 = 2 ∨ i % 4 = 3 := by omega
      rcases hmod with h | h | h | h <;> simp only [h]
      · rw [bg ha rfl 1 2 _ (by omega) (by omega) hv]
        exact (spec_branch ha x 1 2 _ 2 (by simp) hm2 (by omega)).symm
      · rw [bg hb hab 1 1 _ (by omega) (by omega) hv]
        have := spec_branch hb x 1 1 (i/4) 1 (by simp) hbm2 (by omega)
        rw [hab] at this; exact this.symm
      · rw [bg ha rfl 0 2 _ (by omega) (by omega) hv]
        exact (spec_branch ha x 0 2 _ 2 (by simp) hm2 (by omega)).symm
      · rw [bg hb hab 0 1 _ (by omega) (by omega) hv]
        have := spec_branch hb x 0 1 (i/4) 1 (by simp) hbm2 (by omega)
        rw [hab] at this; exact this.symm

theorem colifilt1_raises_iff (ha hb x : List R) (hp : Bool) :
    colifilt1 ha hb hp x = none ↔ (x.length % 2 ≠ 0 ∨ x.length = 0) := by
  unfold colifilt1
  split
  · simp_all
  · simp only [*, false_iff]
    split <;> simp

/-- absent band-pass level: low-pass-only synthesis -/
theorem invJ2_absent_high (s : R) (g0a g1a g0b g1b : List R) (ll : Img R) :
    invJ2 s g0a g1a g0b g1b (some ll) none = (colifilt g0b g0a false ll).bind (rowifilt g0b g0a false) := by
  simp [invJ2]

/-- nothing to reconstruct from: the module raises -/
theorem DTCWTInverse_all_absent (s : R) (sym : Bool) (f : InvFilters R) (sz : List (Nat × Nat)) (s5 : Nat × Nat)
    (highs : List (Option (List (Cplx R)))) (h : highs.all (·.isNone) = true) :
    DTCWTInverse s sym f sz s5 none highs = none := by
  unfold DTCWTInverse
  simp [h]

end WV.C11
