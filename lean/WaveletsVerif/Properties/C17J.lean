/-
  C17 — the J-level transform is an orthogonal change of basis: energy is preserved through the whole pyramid.

  For an orthonormal bank in periodization mode, whenever every level's input length is even and at least the filter
  length (`LevelsOK`): `‖x‖² = ‖yl‖² + Σ_j ‖yh_j‖²` for the PyWavelets pyramid (`wavedec_isometry`) and for the
  implementation model of `DWT1DForward`, which is that pyramid (`DWT1DForward_per_eq_wavedec`, `DWT1D_isometry`).
-/
import WaveletsVerif.Properties.C17
namespace WV.C17J
open Finset WV WV.C17
variable {R : Type} [CommRing R]

/-- every level's input length is even and at least `L` -/
def LevelsOK (L : Nat) : Nat → Nat → Prop
  | 0, _ => True
  | J+1, N => N % 2 = 0 ∧ L ≤ N ∧ LevelsOK L J (N / 2)

theorem dwt_per_length (h x : List R) (hNe : x.length % 2 = 0) : (Spec.dwt .periodization h x).length = x.length / 2 := by
  have hodd : ¬ (x.length % 2 = 1) := by omega
  simp [Spec.dwt, hodd]

/-- **energy is preserved through the whole pyramid** (PyWavelets' periodization formulas, orthonormal bank) -/
theorem wavedec_isometry (h0 h1 : List R) (hL : 2 ≤ h0.length) (hLe : h0.length % 2 = 0) (hh1 : h1.length = h0.length)
    (horth : PRBank h0 h1 h0.reverse h1.reverse) : ∀ (J : Nat) (x : List R), LevelsOK h0.length J x.length →
    energy (Spec.wavedec .periodization h0 h1 J x).1
      + ((Spec.wavedec .periodization h0 h1 J x).2.map energy).sum = energy x := by
  intro J
  induction J with
  | zero => intro x _; simp [Spec.wavedec]
  | succ J ih =>
    intro x hok
    obtain ⟨hNe, hLN, hrest⟩ := hok
    have hl := dwt_per_length h0 x hNe
    have := ih (Spec.dwt .periodization h0 x) (by rw [hl]; exact hrest)
    simp only [Spec.wavedec, List.map_cons, List.sum_cons]
    have hiso := isometry h0 h1 x hL hLe hh1 horth hNe (by omega)
    rw [← hiso, ← this]
    ring

/-- the J-level module in periodization mode is PyWavelets' `wavedec`, whenever every level is even and at least as long
as the filter -/
theorem DWT1DForward_per_eq_wavedec (h0 h1 : List R) (hL : 2 ≤ h0.length) (hLe : h0.length % 2 = 0) (hh1 : h1.length = h0.length) :
    ∀ (J : Nat) (x : List R), LevelsOK h0.length J x.length →
    DWT1DForwardM .periodization J h0 h1 [x]
      = some ([(Spec.wavedec .periodization h0 h1 J x).1], (Spec.wavedec .periodization h0 h1 J x).2.map fun d => [d]) := by
  intro J
  unfold DWT1DForwardM
  induction J with
  | zero => intro x _; simp [DWT1DForward, Spec.wavedec]
  | succ J ih =>
    intro x hok
    obtain ⟨hNe, hLN, hrest⟩ := hok
    have e0 := C01.afb1dOne_per_eq_dwt_partial h0 x hLe hL hNe hLN
    have e1 := C01.afb1dOne_per_eq_dwt_partial h1 x (by omega) (by omega) hNe (by omega)
    have hstep : AFB1D_forward .periodization h0.reverse h1.reverse [x]
        = some ([Spec.dwt .periodization h0 x], [Spec.dwt .periodization h1 x]) := by
      unfold AFB1D_forward
      simp only [List.map_cons, List.map_nil]
      rw [afb1dT_one]
      have a0 : alongO .W (afb1dOne .periodization h0.reverse) [x] = some [Spec.dwt .periodization h0 x] := by
        simp [alongO, alongWO, e0]
      have a1 : alongO .W (afb1dOne .periodization h1.reverse) [x] = some [Spec.dwt .periodization h1 x] := by
        simp [alongO, alongWO, e1]
      rw [a0, a1]
      simp [tab, List.range, List.range.loop]
    simp only [DWT1DForward, Spec.wavedec]
    rw [hstep]
    simp only [Option.bind_eq_bind, Option.bind_some]
    rw [ih (Spec.dwt .periodization h0 x) (by rw [dwt_per_length h0 x hNe]; exact hrest)]
    simp

/-- **the implementation model of `DWT1DForward` preserves energy** through all J levels -/
theorem DWT1D_isometry (h0 h1 : List R) (hL : 2 ≤ h0.length) (hLe : h0.length % 2 = 0) (hh1 : h1.length = h0.length)
    (horth : PRBank h0 h1 h0.reverse h1.reverse) (J : Nat) (x : List R) (hok : LevelsOK h0.length J x.length) :
    ∃ (yl : List R) (yh : List (List R)), DWT1DForwardM .periodization J h0 h1 [x] = some ([yl], yh.map fun d => [d]) ∧
      energy yl + (yh.map energy).sum = energy x :=
  ⟨_, _, DWT1DForward_per_eq_wavedec h0 h1 hL hLe hh1 J x hok, wavedec_isometry h0 h1 hL hLe hh1 horth J x hok⟩

/-- the level condition is satisfiable: length 16, two levels, 4-tap filter -/
example : LevelsOK 4 2 16 := by simp [LevelsOK]

end WV.C17J
