/-
  C19 — the non-separable one-level analysis bank equals the separable one in the *extension* modes (symmetric,
  reflect), and the non-separable synthesis bank equals the separable one in every non-periodization mode.

  `afb2d_nonsep` pads both axes of the image with an index gather (`mypad`: rows first, then columns) and runs one
  strided 2-D correlation per outer-product kernel; the separable bank pads and filters the rows and then pads and
  filters the columns.  For ANY index map `idx` (half-sample symmetric, whole-sample reflect, …) entry `(u, v)` of the
  two-axis padded image is `x[idx H (u − l1), idx W (v − l2)]` (`get2_xpPad`), so the strided rank-one correlation is
  the nested pair of sums the two separable passes compute (`band_eq_pad`) — every image size, every filter lengths.
  In reflect mode both implementations refuse images shorter than the padding; the theorem is stated where they run
  and the refusal of the non-separable model is `afb2d_nonsep_reflect_raises`.

  In synthesis the padding mode only matters for periodization: the models of `sfb2d_nonsep` and `SFB2D.forward` in
  modes symmetric / reflect / periodic are those of mode zero (`rfl`), hence C19S carries over.
-/
import WaveletsVerif.Properties.C19S
import WaveletsVerif.Properties.C19N
namespace WV.C19X
open Finset WV WV.C04 WV.C04Q WV.C06 WV.C05D WV.C05S WV.C19N WV.C19S
variable {R : Type} [CommRing R]

/-- total padding of the extension modes: `2·(outsize − 1) − N + L` -/
def pd (N L : Nat) : Nat := 2 * (dwtCoeffLen N L - 1) + L - N

/-- the padded signal of `afb1d` in an extension mode with index map `idx` -/
def padE (idx : Int → Int → Int) (L : Nat) (c : List R) : List R :=
  padIdx idx c (pd c.length L / 2) ((pd c.length L + 1) / 2)

/-- one filter of `afb1d` in an extension mode: pad by the index map, stride-2 correlation -/
def Ap (idx : Int → Int → Int) (w c : List R) : List R := corr w (padE idx w.length c) 2 1

theorem pd_split (N L : Nat) : pd N L / 2 + (pd N L + 1) / 2 = pd N L := by omega

theorem pd_total (N L : Nat) (hL : 2 ≤ L) (_hN : 1 ≤ N) : N + pd N L = 2 * (dwtCoeffLen N L - 1) + L := by
  unfold pd dwtCoeffLen; omega

theorem padE_length (idx : Int → Int → Int) (L : Nat) (c : List R) : (padE idx L c).length = c.length + pd c.length L := by
  unfold padE padIdx
  rw [length_tab]
  have := pd_split c.length L
  omega

theorem Ap_length (idx : Int → Int → Int) (w c : List R) (hL : 2 ≤ w.length) (hN : 1 ≤ c.length) :
    (Ap idx w c).length = dwtCoeffLen c.length w.length := by
  unfold Ap
  rw [corr_length, padE_length, pd_total _ _ hL hN]
  have : 1 ≤ dwtCoeffLen c.length w.length := by unfold dwtCoeffLen; omega
  unfold corrLen; split <;> omega

theorem getN_padE (idx : Int → Int → Int) (L : Nat) (c : List R) (u : Nat) (hu : u < c.length + pd c.length L) :
    getN (padE idx L c) u = getZ c (idx c.length ((u:Int) - ((pd c.length L / 2 : Nat):Int))) := by
  rw [getN_eq_getZ]
  unfold padE
  rw [getZ_padIdx idx c _ _ (u:Int) (by omega) (by have := pd_split c.length L; omega)]

theorem getN_Ap (idx : Int → Int → Int) (w c : List R) (hL : 2 ≤ w.length) (hN : 1 ≤ c.length) (k : Nat)
    (hk : k < dwtCoeffLen c.length w.length) :
    getN (Ap idx w c) k = ∑ j ∈ range w.length,
      getN w j * getZ c (idx c.length (((2*k + j : Nat):Int) - ((pd c.length w.length / 2 : Nat):Int))) := by
  have hlen := Ap_length idx w c hL hN
  unfold Ap at hlen ⊢
  rw [corr_length] at hlen
  rw [getN_corr2 w _ k (by rw [hlen]; exact hk)]
  apply Finset.sum_congr rfl; intro j hj
  have hj' : j < w.length := by simpa using hj
  congr 1
  rw [← getN_eq_getZ, getN_padE idx w.length c (2*k + j) (by rw [pd_total _ _ hL hN]; omega)]

theorem afb1dOne_symmetric_val (w c : List R) (hL : 2 ≤ w.length) (hN : 1 ≤ c.length) :
    afb1dOne .symmetric w c = some (Ap symIdx w c) := by
  have hg : ¬ (w.length < 2 ∨ c.length < 1) := by omega
  simp only [afb1dOne, hg, if_false]
  rfl

theorem afb1dOne_reflect_val (w c : List R) (hL : 2 ≤ w.length) (hN : 1 ≤ c.length)
    (hfit : pd c.length w.length / 2 < c.length ∧ (pd c.length w.length + 1) / 2 < c.length) :
    afb1dOne .reflect w c = some (Ap reflIdx w c) := by
  have hg : ¬ (w.length < 2 ∨ c.length < 1) := by omega
  unfold pd at hfit
  simp only [afb1dOne, hg, if_false, hfit, and_self, if_true]
  rfl

/-! ### the image padded on both axes -/

/-- `mypad` on the rows and then on the columns, as the model of `afb2d_nonsep` builds it -/
def xpPad (idx : Int → Int → Int) (Ly Lx : Nat) (x : Img R) : Img R :=
  let p1 := pd x.length Ly
  let p2 := pd x.width Lx
  let xr := x.map fun r => padIdx idx r (p2/2) ((p2+1)/2)
  tr ((tr xr).map fun c => padIdx idx c (p1/2) ((p1+1)/2))

theorem xpPad_tab (idx : Int → Int → Int) (Ly Lx : Nat) (x : Img R) (H W : Nat) (hx : Rect x H W) (hH : 1 ≤ H) (hW : 1 ≤ W) :
    xpPad idx Ly Lx x = tab2 (H + pd H Ly) (W + pd W Lx) fun u v =>
      if 0 ≤ idx H ((u:Int) - ((pd H Ly / 2 : Nat):Int)) ∧ idx H ((u:Int) - ((pd H Ly / 2 : Nat):Int)) < H then
        getZ (x.getD (idx H ((u:Int) - ((pd H Ly / 2 : Nat):Int))).toNat []) (idx W ((v:Int) - ((pd W Lx / 2 : Nat):Int)))
      else 0 := by
  have hw : x.width = W := rect_width x H W hx hH
  have hxr : (x.map fun r => padIdx idx r (pd W Lx/2) ((pd W Lx+1)/2)) = alongW (padE idx Lx) x := by
    unfold alongW
    apply List.map_congr_left
    intro r hr
    unfold padE; rw [hx.2 r hr]
  have hR : alongW (padE idx Lx) x = tab2 H (W + pd W Lx) fun i j => getN (padE idx Lx (x.getD i [])) j :=
    alongW_get' (padE idx Lx) x H W _ hx (fun c hc => by rw [padE_length, hc])
  have e : xpPad idx Ly Lx x = alongH (padE idx Ly) (alongW (padE idx Lx) x) := by
    unfold xpPad alongH
    simp only [hx.1, hw, hxr]
    have hl : (alongW (padE idx Lx) x).length = H := by rw [hR]; exact (tab2_rect _ _ _).1
    congr 1
    apply List.map_congr_left
    intro c hc
    unfold padE
    rw [tr_row_length _ c hc, hl]
  rw [e, alongH_get' (padE idx Ly) _ H (H + pd H Ly) (W + pd W Lx) (by rw [hR]; exact tab2_rect _ _ _) hH (by omega)
    (fun c hc => by rw [padE_length, hc])]
  apply tab2_congr; intro u hu v hv
  have hcol : col (alongW (padE idx Lx) x) v = tab H fun i => getN (padE idx Lx (x.getD i [])) v := by
    rw [hR, col_tab2 _ _ _ v hv]
  have hcl : (col (alongW (padE idx Lx) x) v).length = H := by rw [hcol, length_tab]
  rw [getN_padE idx Ly _ u (by rw [hcl]; exact hu), hcl, hcol, getZ_tab]
  split
  · rename_i hs
    have hrow : (x.getD (idx H ((u:Int) - ((pd H Ly / 2 : Nat):Int))).toNat []).length = W :=
      getD_row_length x H W hx _ (by omega)
    rw [getN_padE idx Lx _ v (by rw [hrow]; exact hv), hrow]
  · rfl

/-- one sub-band in an extension mode: the strided 2-D correlation with `outerRev hc hr` on the image padded on both
axes is the padded row pass with `hr.reverse` followed by the padded column pass with `hc.reverse` -/
theorem band_eq_pad (idx : Int → Int → Int) (hc hr : List R) (Ly Lx : Nat) (hcl : hc.length = Ly) (hrl : hr.length = Lx)
    (hLy : 2 ≤ Ly) (hLx : 2 ≤ Lx) (x : Img R) (H W : Nat) (hx : Rect x H W) (hH : 1 ≤ H) (hW : 1 ≤ W) :
    corr2 (outerRev hc hr) (xpPad idx Ly Lx x) 2 2 = alongH (Ap idx hc.reverse) (alongW (Ap idx hr.reverse) x) := by
  have hKh : 1 ≤ dwtCoeffLen H Ly := by unfold dwtCoeffLen; omega
  have hKw : 1 ≤ dwtCoeffLen W Lx := by unfold dwtCoeffLen; omega
  have hcr : hc.reverse.length = Ly := by simp [hcl]
  have hrr : hr.reverse.length = Lx := by simp [hrl]
  have tH := pd_total H Ly hLy hH
  have tW := pd_total W Lx hLx hW
  -- the separable side as a table
  have hY : alongW (Ap idx hr.reverse) x = tab2 H (dwtCoeffLen W Lx) fun t q => getN (Ap idx hr.reverse (x.getD t [])) q :=
    alongW_get' (Ap idx hr.reverse) x H W _ hx (fun c hc' => by rw [Ap_length _ _ c (by omega) (by omega), hc', hrr])
  have hS : alongH (Ap idx hc.reverse) (alongW (Ap idx hr.reverse) x)
      = tab2 (dwtCoeffLen H Ly) (dwtCoeffLen W Lx) fun p q => getN (Ap idx hc.reverse (col (alongW (Ap idx hr.reverse) x) q)) p := by
    apply alongH_get' (Ap idx hc.reverse) _ H _ _ (by rw [hY]; exact tab2_rect _ _ _) hH hKw
    intro c hc'
    rw [Ap_length _ _ c (by omega) (by omega), hc', hcr]
  rw [hS, C19.outerRev_eq]
  -- the non-separable side as a table
  have hXP := xpPad_tab idx Ly Lx x H W hx hH hW
  have hxl : (xpPad idx Ly Lx x).length = H + pd H Ly := by rw [hXP]; exact (tab2_rect _ _ _).1
  have hxw : (xpPad idx Ly Lx x).width = W + pd W Lx := by
    rw [hXP]; exact rect_width _ _ _ (tab2_rect _ _ _) (by omega)
  have hol : (outer hc.reverse hr.reverse).length = Ly := by simp [outer, tab2, hcl]
  have how : (outer hc.reverse hr.reverse).width = Lx := by
    unfold outer; rw [C19.width_tab2 _ _ _ (by simp; omega)]; simp [hrl]
  have hd1 : corrLen (xpPad idx Ly Lx x).length Ly 2 1 = dwtCoeffLen H Ly := by
    rw [hxl, tH]; unfold corrLen; split <;> omega
  have hd2 : corrLen (xpPad idx Ly Lx x).width Lx 2 1 = dwtCoeffLen W Lx := by
    rw [hxw, tW]; unfold corrLen; split <;> omega
  have hN : corr2 (outer hc.reverse hr.reverse) (xpPad idx Ly Lx x) 2 2
      = tab2 (dwtCoeffLen H Ly) (dwtCoeffLen W Lx) (get2 (corr2 (outer hc.reverse hr.reverse) (xpPad idx Ly Lx x) 2 2)) := by
    conv_lhs => unfold corr2
    rw [hol, how, hd1, hd2]
    apply tab2_congr; intro p hp q hq
    unfold corr2
    rw [hol, how, hd1, hd2, C19.get2_tab2 _ _ _ _ _ hp hq]
  rw [hN]
  apply tab2_congr; intro p hp q hq
  rw [C19.corr2_outer_eq _ _ _ 2 2 p q (by rw [hcr]; omega) (by rw [hcr, hd1]; exact hp) (by rw [hrr, hd2]; exact hq)]
  -- column pass
  have hcol : col (alongW (Ap idx hr.reverse) x) q = tab H fun t => getN (Ap idx hr.reverse (x.getD t [])) q := by
    rw [hY, col_tab2 _ _ _ q hq]
  have hcoll : (col (alongW (Ap idx hr.reverse) x) q).length = H := by rw [hcol, length_tab]
  rw [getN_Ap idx hc.reverse _ (by omega) (by rw [hcoll]; exact hH) p (by rw [hcoll, hcr]; exact hp), hcr, hcoll]
  apply Finset.sum_congr rfl; intro i hi
  have hi' : i < Ly := by simpa using hi
  congr 1
  rw [hcol, getZ_tab]
  have hget : ∀ j < Lx, get2 (xpPad idx Ly Lx x) (2 * p + i) (2 * q + j)
      = if 0 ≤ idx H (((2*p + i : Nat):Int) - ((pd H Ly / 2 : Nat):Int)) ∧ idx H (((2*p + i : Nat):Int) - ((pd H Ly / 2 : Nat):Int)) < H then
          getZ (x.getD (idx H (((2*p + i : Nat):Int) - ((pd H Ly / 2 : Nat):Int))).toNat [])
            (idx W (((2*q + j : Nat):Int) - ((pd W Lx / 2 : Nat):Int)))
        else 0 := by
    intro j hj
    rw [hXP, C19.get2_tab2 _ _ _ _ _ (by omega) (by omega)]
  by_cases hs : 0 ≤ idx H (((2*p + i : Nat):Int) - ((pd H Ly / 2 : Nat):Int)) ∧ idx H (((2*p + i : Nat):Int) - ((pd H Ly / 2 : Nat):Int)) < H
  · rw [if_pos hs]
    have hrow : (x.getD (idx H (((2*p + i : Nat):Int) - ((pd H Ly / 2 : Nat):Int))).toNat []).length = W :=
      getD_row_length x H W hx _ (by omega)
    rw [getN_Ap idx hr.reverse _ (by omega) (by rw [hrow]; exact hW) q (by rw [hrow, hrr]; exact hq), hrr, hrow]
    apply Finset.sum_congr rfl; intro j hj
    rw [hget j (by simpa using hj), if_pos hs]
  · rw [if_neg hs]
    apply Finset.sum_eq_zero; intro j hj
    rw [hget j (by rw [← hrr]; simpa using hj), if_neg hs, mul_zero]

/-! ### the two models -/

theorem Ap_alongW_rect (idx : Int → Int → Int) (w : List R) (hL : 2 ≤ w.length) (x : Img R) (H W : Nat) (hx : Rect x H W) (hW : 1 ≤ W) :
    Rect (alongW (Ap idx w) x) H (dwtCoeffLen W w.length) := by
  rw [alongW_get' (Ap idx w) x H W _ hx (fun c hc => by rw [Ap_length idx w c hL (by omega), hc])]
  exact tab2_rect _ _ _

/-- **`afb2d_nonsep` = `afb2d` in mode symmetric**, every image size and every filter lengths ≥ 2 -/
theorem afb2d_nonsep_symmetric_eq_sep (hc0 hc1 hr0 hr1 : List R) (hLy : 2 ≤ hc0.length) (hLx : 2 ≤ hr0.length)
    (hc : hc1.length = hc0.length) (hr : hr1.length = hr0.length) (x : Img R) (H W : Nat) (hx : Rect x H W) (hH : 1 ≤ H) (hW : 1 ≤ W) :
    afb2dNonsepCh .symmetric hc0 hc1 hr0 hr1 x
      = some [alongH (Ap symIdx hc0.reverse) (alongW (Ap symIdx hr0.reverse) x), alongH (Ap symIdx hc1.reverse) (alongW (Ap symIdx hr0.reverse) x),
              alongH (Ap symIdx hc0.reverse) (alongW (Ap symIdx hr1.reverse) x), alongH (Ap symIdx hc1.reverse) (alongW (Ap symIdx hr1.reverse) x)] := by
  have hw : x.width = W := rect_width x H W hx hH
  have hguard : ¬ (hc0.length < 2 ∨ hr0.length < 2 ∨ hc1.length ≠ hc0.length ∨ hr1.length ≠ hr0.length ∨ x.length < 1 ∨ x.width < 1) := by
    rw [hx.1, hw]; omega
  have hval : afb2dNonsepCh .symmetric hc0 hc1 hr0 hr1 x
      = some ([outerRev hc0 hr0, outerRev hc1 hr0, outerRev hc0 hr1, outerRev hc1 hr1].map fun f =>
          corr2 f (xpPad symIdx hc0.length hr0.length x) 2 2) := by
    simp only [afb2dNonsepCh, hguard, if_false, xpPad, pd]
  rw [hval]
  simp only [List.map_cons, List.map_nil]
  rw [band_eq_pad symIdx hc0 hr0 _ _ rfl rfl hLy hLx x H W hx hH hW, band_eq_pad symIdx hc1 hr0 _ _ hc rfl hLy hLx x H W hx hH hW,
    band_eq_pad symIdx hc0 hr1 _ _ rfl hr hLy hLx x H W hx hH hW, band_eq_pad symIdx hc1 hr1 _ _ hc hr hLy hLx x H W hx hH hW]

/-- **`afb2d_nonsep` = `afb2d` in mode reflect**, wherever the padding fits inside the image (elsewhere torch refuses) -/
theorem afb2d_nonsep_reflect_eq_sep (hc0 hc1 hr0 hr1 : List R) (hLy : 2 ≤ hc0.length) (hLx : 2 ≤ hr0.length)
    (hc : hc1.length = hc0.length) (hr : hr1.length = hr0.length) (x : Img R) (H W : Nat) (hx : Rect x H W) (hH : 1 ≤ H) (hW : 1 ≤ W)
    (hfit : pd H hc0.length / 2 < H ∧ (pd H hc0.length + 1) / 2 < H ∧ pd W hr0.length / 2 < W ∧ (pd W hr0.length + 1) / 2 < W) :
    afb2dNonsepCh .reflect hc0 hc1 hr0 hr1 x
      = some [alongH (Ap reflIdx hc0.reverse) (alongW (Ap reflIdx hr0.reverse) x), alongH (Ap reflIdx hc1.reverse) (alongW (Ap reflIdx hr0.reverse) x),
              alongH (Ap reflIdx hc0.reverse) (alongW (Ap reflIdx hr1.reverse) x), alongH (Ap reflIdx hc1.reverse) (alongW (Ap reflIdx hr1.reverse) x)] := by
  have hw : x.width = W := rect_width x H W hx hH
  have hguard : ¬ (hc0.length < 2 ∨ hr0.length < 2 ∨ hc1.length ≠ hc0.length ∨ hr1.length ≠ hr0.length ∨ x.length < 1 ∨ x.width < 1) := by
    rw [hx.1, hw]; omega
  have hval : afb2dNonsepCh .reflect hc0 hc1 hr0 hr1 x
      = some ([outerRev hc0 hr0, outerRev hc1 hr0, outerRev hc0 hr1, outerRev hc1 hr1].map fun f =>
          corr2 f (xpPad reflIdx hc0.length hr0.length x) 2 2) := by
    have hfit' : pd x.length hc0.length / 2 < x.length ∧ (pd x.length hc0.length + 1) / 2 < x.length ∧
        pd x.width hr0.length / 2 < x.width ∧ (pd x.width hr0.length + 1) / 2 < x.width := by rw [hx.1, hw]; exact hfit
    unfold pd at hfit'
    simp only [afb2dNonsepCh, hguard, if_false, xpPad, pd]
    rw [if_pos hfit']
  rw [hval]
  simp only [List.map_cons, List.map_nil]
  rw [band_eq_pad reflIdx hc0 hr0 _ _ rfl rfl hLy hLx x H W hx hH hW, band_eq_pad reflIdx hc1 hr0 _ _ hc rfl hLy hLx x H W hx hH hW,
    band_eq_pad reflIdx hc0 hr1 _ _ rfl hr hLy hLx x H W hx hH hW, band_eq_pad reflIdx hc1 hr1 _ _ hc hr hLy hLx x H W hx hH hW]

/-- in reflect mode the non-separable model refuses exactly when a padding does not fit inside the image -/
theorem afb2d_nonsep_reflect_raises (hc0 hc1 hr0 hr1 : List R) (x : Img R)
    (hfit : ¬ (pd x.length hc0.length / 2 < x.length ∧ (pd x.length hc0.length + 1) / 2 < x.length ∧
               pd x.width hr0.length / 2 < x.width ∧ (pd x.width hr0.length + 1) / 2 < x.width)) :
    afb2dNonsepCh .reflect hc0 hc1 hr0 hr1 x = none := by
  unfold pd at hfit
  by_cases hg : (hc0.length < 2 ∨ hr0.length < 2 ∨ hc1.length ≠ hc0.length ∨ hr1.length ≠ hr0.length ∨ x.length < 1 ∨ x.width < 1)
  · simp only [afb2dNonsepCh, hg, if_true]
  · simp only [afb2dNonsepCh, hg, if_false]
    rw [if_neg hfit]

/-- the model of the autograd Function `AFB2D.forward` in an extension mode whose 1-D model is `Ap idx` -/
theorem AFB2D_forward_pad_val (mode : Mode) (idx : Int → Int → Int) (wr0 wr1 wc0 wc1 : List R) (hLr : 2 ≤ wr0.length)
    (hwr : wr1.length = wr0.length) (hLc : 2 ≤ wc0.length) (hwc : wc1.length = wc0.length) (x : Img R) (H W : Nat) (hx : Rect x H W)
    (hH : 1 ≤ H) (hW : 1 ≤ W)
    (hrow : ∀ (w c : List R), w.length = wr0.length → c.length = W → afb1dOne mode w c = some (Ap idx w c))
    (hcol : ∀ (w c : List R), w.length = wc0.length → c.length = H → afb1dOne mode w c = some (Ap idx w c)) :
    AFB2D_forward mode wr0 wr1 wc0 wc1 [x]
      = some ([alongH (Ap idx wc0) (alongW (Ap idx wr0) x)],
              [[alongH (Ap idx wc1) (alongW (Ap idx wr0) x), alongH (Ap idx wc0) (alongW (Ap idx wr1) x), alongH (Ap idx wc1) (alongW (Ap idx wr1) x)]]) := by
  have e1 : ∀ w : List R, w.length = wr0.length → alongO .W (afb1dOne mode w) x = some (alongW (Ap idx w) x) := by
    intro w hw
    show alongWO _ x = _
    apply alongWO_total
    intro c hc
    exact hrow w c hw (hx.2 c hc)
  have e2 : ∀ (w : List R) (y : Img R), w.length = wc0.length → y.length = H → alongO .H (afb1dOne mode w) y = some (alongH (Ap idx w) y) := by
    intro w y hw hy
    show alongHO _ y = _
    apply alongHO_total
    intro c hc
    exact hcol w c hw (by rw [hc, hy])
  have rlo := Ap_alongW_rect idx wr0 hLr x H W hx hW
  have rhi := Ap_alongW_rect idx wr1 (by omega) x H W hx hW
  unfold AFB2D_forward
  rw [afb1dT_one, e1 wr0 rfl, e1 wr1 hwr]
  simp only [Option.bind_eq_bind, Option.bind_some]
  rw [afb1dT_two, e2 wc0 _ rfl rlo.1, e2 wc1 _ hwc rlo.1, e2 wc0 _ rfl rhi.1, e2 wc1 _ hwc rhi.1]
  simp [tab, List.range, List.range.loop]

/-- **symmetric mode: the non-separable bank and the autograd Function `AFB2D.forward` agree band by band** -/
theorem afb2d_nonsep_symmetric_eq_AFB2D (hc0 hc1 hr0 hr1 : List R) (hLy : 2 ≤ hc0.length) (hLx : 2 ≤ hr0.length)
    (hc : hc1.length = hc0.length) (hr : hr1.length = hr0.length) (x : Img R) (H W : Nat) (hx : Rect x H W) (hH : 1 ≤ H) (hW : 1 ≤ W) :
    ∃ ll lh hl hh, afb2dNonsepCh .symmetric hc0 hc1 hr0 hr1 x = some [ll, lh, hl, hh] ∧
      AFB2D_forward .symmetric hr0.reverse hr1.reverse hc0.reverse hc1.reverse [x] = some ([ll], [[lh, hl, hh]]) :=
  ⟨_, _, _, _, afb2d_nonsep_symmetric_eq_sep hc0 hc1 hr0 hr1 hLy hLx hc hr x H W hx hH hW,
    AFB2D_forward_pad_val .symmetric symIdx hr0.reverse hr1.reverse hc0.reverse hc1.reverse (by simpa using hLx) (by simp [hr])
      (by simpa using hLy) (by simp [hc]) x H W hx hH hW
      (fun w c hw hcl => afb1dOne_symmetric_val w c (by rw [hw]; simpa using hLx) (by omega))
      (fun w c hw hcl => afb1dOne_symmetric_val w c (by rw [hw]; simpa using hLy) (by omega))⟩

/-- **reflect mode: the non-separable bank and `AFB2D.forward` agree band by band** wherever the padding fits -/
theorem afb2d_nonsep_reflect_eq_AFB2D (hc0 hc1 hr0 hr1 : List R) (hLy : 2 ≤ hc0.length) (hLx : 2 ≤ hr0.length)
    (hc : hc1.length = hc0.length) (hr : hr1.length = hr0.length) (x : Img R) (H W : Nat) (hx : Rect x H W) (hH : 1 ≤ H) (hW : 1 ≤ W)
    (hfit : pd H hc0.length / 2 < H ∧ (pd H hc0.length + 1) / 2 < H ∧ pd W hr0.length / 2 < W ∧ (pd W hr0.length + 1) / 2 < W) :
    ∃ ll lh hl hh, afb2dNonsepCh .reflect hc0 hc1 hr0 hr1 x = some [ll, lh, hl, hh] ∧
      AFB2D_forward .reflect hr0.reverse hr1.reverse hc0.reverse hc1.reverse [x] = some ([ll], [[lh, hl, hh]]) :=
  ⟨_, _, _, _, afb2d_nonsep_reflect_eq_sep hc0 hc1 hr0 hr1 hLy hLx hc hr x H W hx hH hW hfit,
    AFB2D_forward_pad_val .reflect reflIdx hr0.reverse hr1.reverse hc0.reverse hc1.reverse (by simpa using hLx) (by simp [hr])
      (by simpa using hLy) (by simp [hc]) x H W hx hH hW
      (fun w c hw hcl => afb1dOne_reflect_val w c (by rw [hw]; simpa using hLx) (by omega)
        (by rw [hw, hcl, List.length_reverse]; exact ⟨hfit.2.2.1, hfit.2.2.2⟩))
      (fun w c hw hcl => afb1dOne_reflect_val w c (by rw [hw]; simpa using hLy) (by omega)
        (by rw [hw, hcl, List.length_reverse]; exact ⟨hfit.1, hfit.2.1⟩))⟩

/-! ### synthesis: the padding mode only matters for periodization -/

/-- a padding mode other than zero and periodization that the synthesis banks accept -/
def ExtMode (m : Mode) : Prop := m = .symmetric ∨ m = .reflect ∨ m = .periodic

theorem sfb2dNonsep_mode (m : Mode) (hm : ExtMode m) (dense : Bool) (gc0 gc1 gr0 gr1 : List R) (bands : List (Img R)) :
    sfb2dNonsepCh m dense gc0 gc1 gr0 gr1 bands = sfb2dNonsepCh .zero dense gc0 gc1 gr0 gr1 bands := by
  rcases hm with rfl | rfl | rfl <;> rfl

theorem sfb1dCh_mode (m : Mode) (hm : ExtMode m) (g0 g1 lo hi : List R) : sfb1dCh m g0 g1 lo hi = sfb1dCh .zero g0 g1 lo hi := by
  rcases hm with rfl | rfl | rfl <;> rfl

theorem SFB2D_forward_mode (m : Mode) (hm : ExtMode m) (gr0 gr1 gc0 gc1 : List R) (low : List (Img R)) (highs : List (List (Img R))) :
    SFB2D_forward m gr0 gr1 gc0 gc1 low highs = SFB2D_forward .zero gr0 gr1 gc0 gc1 low highs := by
  have h : sfb1dCh m = (sfb1dCh .zero : List R → List R → List R → List R → Option (List R)) := by
    funext g0 g1 lo hi; exact sfb1dCh_mode m hm g0 g1 lo hi
  unfold SFB2D_forward sfb1dT sfb1dImg
  rw [h]

section synth
variable (gr0 gr1 gc0 gc1 : List R) (hLr : 2 ≤ gr0.length) (hgr : gr1.length = gr0.length)
    (hLc : 2 ≤ gc0.length) (hgc : gc1.length = gc0.length) (Kh Kw : Nat) (hKh : 1 ≤ Kh) (hKw : 1 ≤ Kw)
    (hfc : gc0.length ≤ 2 * Kh + 1) (hfr : gr0.length ≤ 2 * Kw + 1)

include hLr hgr hLc hgc hKh hKw hfc hfr in
/-- **`sfb2d_nonsep` = `SFB2D.forward` in modes symmetric, reflect and periodic** -/
theorem sfb2d_nonsep_ext_eq_SFB2D (m : Mode) (hm : ExtMode m) (dense : Bool) (ll lh hl hh : Img R) (r1 : Rect ll Kh Kw)
    (r2 : Rect lh Kh Kw) (r3 : Rect hl Kh Kw) (r4 : Rect hh Kh Kw) :
    ∃ y, sfb2dNonsepCh m dense gc0 gc1 gr0 gr1 [ll, lh, hl, hh] = some y ∧
      SFB2D_forward m gr0 gr1 gc0 gc1 [ll] [[lh, hl, hh]] = some [y] := by
  rw [sfb2dNonsep_mode m hm, SFB2D_forward_mode m hm]
  exact sfb2d_nonsep_zero_eq_SFB2D gr0 gr1 gc0 gc1 hLr hgr hLc hgc Kh Kw hKh hKw hfc hfr dense ll lh hl hh r1 r2 r3 r4

end synth

/-- the hypotheses are satisfiable: a 3×4 image, reflect padding fits for 2-tap filters -/
example : Rect ([[1,2,3,4],[5,6,7,8],[9,10,11,12]] : Img Int) 3 4 ∧
    (pd 3 2 / 2 < 3 ∧ (pd 3 2 + 1) / 2 < 3 ∧ pd 4 2 / 2 < 4 ∧ (pd 4 2 + 1) / 2 < 4) := by
  refine ⟨by constructor <;> simp, by decide⟩

end WV.C19X
