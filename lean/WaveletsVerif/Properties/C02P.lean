/-
  C02 — perfect reconstruction through the whole 2-D pyramid in PERIODIZATION mode, every number of levels, every image
  size (odd sizes included: the result then carries one extra row / column, as PyWavelets).

  One level of the specification: `idwt2(dwt2(x))` has `x` in its top-left `H × W` corner and sides `2⌈H/2⌉ × 2⌈W/2⌉`
  (`level2d_pr_per`, from the 1-D `C02.pr_periodization` on every column and row — no size condition).  The un-pad rule
  removes the extra row / column before the next finer synthesis (`C02K.unpad_topleft`), so `waverec2(wavedec2(x))` has
  `x` in its top-left corner for every J (`pyramid2d_pr_per`).  With `C01P.DWTForward_per_eq_wavedec2` and
  `C10P.DWTInverse_per_eq_waverec2` this is the statement for the implementation models of `DWTForward` / `DWTInverse`
  wherever the filters fit the levels (`DWT2D_roundtrip_per`, `LevelsFitP`).
-/
import WaveletsVerif.Properties.C02K
import WaveletsVerif.Properties.C01P
import WaveletsVerif.Properties.C10P
namespace WV.C02P
open Finset WV WV.C04 WV.C04Q WV.C05D WV.C02 WV.C02K WV.C05P WV.C01P WV.C10P
variable {R : Type} [CommRing R]

section per
variable (hc0 hc1 gc0 gc1 : List R) (hLc : 2 ≤ hc0.length) (hLce : hc0.length % 2 = 0) (hhc : hc1.length = hc0.length)
  (hgc0 : gc0.length = hc0.length) (hgc1 : gc1.length = hc0.length) (hprc : PRBank hc0 hc1 gc0 gc1)
  (hr0 hr1 gr0 gr1 : List R) (hLr : 2 ≤ hr0.length) (hLre : hr0.length % 2 = 0) (hhr : hr1.length = hr0.length)
  (hgr0 : gr0.length = hr0.length) (hgr1 : gr1.length = hr0.length) (hprr : PRBank hr0 hr1 gr0 gr1)

include hLc hLce hhc hgc0 hgc1 hprc hLr hLre hhr hgr0 hgr1 hprr in
/-- **one level in two dimensions, periodization**: `idwt2(dwt2(x))` carries `x` in its top-left corner and has the
sides `2⌈H/2⌉ × 2⌈W/2⌉`; the four bands have the shape `⌈H/2⌉ × ⌈W/2⌉` -/
theorem level2d_pr_per (x : Img R) (H W : Nat) (hx : Rect x H W) (hH : 1 ≤ H) (hW : 1 ≤ W) :
    let d := Spec.dwt2 .periodization hc0 hc1 hr0 hr1 x
    Rect d.1 ((H + H % 2) / 2) ((W + W % 2) / 2) ∧
    Rect d.2.1 ((H + H % 2) / 2) ((W + W % 2) / 2) ∧
    Rect d.2.2.1 ((H + H % 2) / 2) ((W + W % 2) / 2) ∧
    Rect d.2.2.2 ((H + H % 2) / 2) ((W + W % 2) / 2) ∧
    TopLeft (Spec.idwt2 .periodization gc0 gc1 gr0 gr1 d.1 d.2.1 d.2.2.1 d.2.2.2) x H W := by
  intro d
  set K := (H + H % 2) / 2 with hK'
  set K' := (W + W % 2) / 2 with hK''
  have hK : 1 ≤ K := by omega
  have hKw : 1 ≤ K' := by omega
  have lr : ∀ (h : List R), ∀ c : List R, c.length = W → (Spec.dwt .periodization h c).length = K' := by
    intro h c hc; rw [Ap_length, hc]
  have lc : ∀ (h : List R), ∀ c : List R, c.length = H → (Spec.dwt .periodization h c).length = K := by
    intro h c hc; rw [Ap_length, hc]
  set lo := alongW (Spec.dwt .periodization hr0) x with hlo
  set hi := alongW (Spec.dwt .periodization hr1) x with hhi
  have rlo : Rect lo H K' := by rw [hlo, alongW_get' _ x H W K' hx (lr hr0)]; exact tab2_rect _ _ _
  have rhi : Rect hi H K' := by rw [hhi, alongW_get' _ x H W K' hx (lr hr1)]; exact tab2_rect _ _ _
  have hd : d = (alongH (Spec.dwt .periodization hc0) lo, alongH (Spec.dwt .periodization hc1) lo,
      alongH (Spec.dwt .periodization hc0) hi, alongH (Spec.dwt .periodization hc1) hi) := rfl
  have rb : ∀ (h : List R) (y : Img R), Rect y H K' → Rect (alongH (Spec.dwt .periodization h) y) K K' := by
    intro h y hy
    rw [alongH_get' _ y H K K' hy hH hKw (lc h)]; exact tab2_rect _ _ _
  have rA := rb hc0 lo rlo
  have rH := rb hc1 lo rlo
  have rV := rb hc0 hi rhi
  have rD := rb hc1 hi rhi
  refine ⟨by rw [hd]; exact rA, by rw [hd]; exact rH, by rw [hd]; exact rV, by rw [hd]; exact rD, ?_⟩
  rw [hd]
  simp only
  set Hf := 2 * K with hHf
  set Wf := 2 * K' with hWf
  have lic : ∀ u v : List R, u.length = K → (Spec.idwt .periodization gc0 gc1 u v).length = Hf := by
    intro u v hu; rw [idwt_per_length, hu]
  have lir : ∀ u v : List R, u.length = K' → (Spec.idwt .periodization gr0 gr1 u v).length = Wf := by
    intro u v hu; rw [idwt_per_length, hu]
  have e1 := tr_zip2_tr (Spec.idwt .periodization gc0 gc1) _ _ K K' Hf rA rH hK hKw lic
  have e2 := tr_zip2_tr (Spec.idwt .periodization gc0 gc1) _ _ K K' Hf rV rD hK hKw lic
  have hspec : Spec.idwt2 .periodization gc0 gc1 gr0 gr1 (alongH (Spec.dwt .periodization hc0) lo) (alongH (Spec.dwt .periodization hc1) lo)
        (alongH (Spec.dwt .periodization hc0) hi) (alongH (Spec.dwt .periodization hc1) hi)
      = rowzip (Spec.idwt .periodization gr0 gr1) Hf Wf
          (colzip (Spec.idwt .periodization gc0 gc1) Hf K' (alongH (Spec.dwt .periodization hc0) lo) (alongH (Spec.dwt .periodization hc1) lo))
          (colzip (Spec.idwt .periodization gc0 gc1) Hf K' (alongH (Spec.dwt .periodization hc0) hi) (alongH (Spec.dwt .periodization hc1) hi)) := by
    unfold Spec.idwt2
    simp only
    rw [e1, e2]
    exact zip2_eq_rowzip _ _ _ Hf K' Wf (colzip_rect _ _ _ _ _) lir
  rw [hspec]
  refine ⟨Hf, Wf, rowzip_rect _ _ _ _ _, by omega, by omega, ?_⟩
  intro i hi' j hj
  have hiHf : i < Hf := by omega
  have hjWf : j < Wf := by omega
  unfold rowzip
  rw [C19.get2_tab2 _ _ _ _ _ hiHf hjWf]
  have hrow : ∀ (y : Img R), Rect y H K' →
      (colzip (Spec.idwt .periodization gc0 gc1) Hf K' (alongH (Spec.dwt .periodization hc0) y) (alongH (Spec.dwt .periodization hc1) y)).getD i []
        = y.getD i [] := by
    intro y hy
    unfold colzip
    rw [getD_tab2_row' _ _ _ i hiHf]
    have hyl := getD_row_length y H K' hy i hi'
    apply list_ext_getN'
    · rw [length_tab, hyl]
    · intro j' hj'
      rw [length_tab] at hj'
      rw [getN_tab, if_pos hj', col_alongH _ y H K K' hy hH hKw (lc hc0) j' hj',
        col_alongH _ y H K K' hy hH hKw (lc hc1) j' hj']
      have hcl : (col y j').length = H := by simp [col, hy.1]
      rw [pr_periodization hc0 hc1 gc0 gc1 (col y j') hLc hLce hhc hgc0 hgc1 hprc (by rw [hcl]; exact hH) i (by rw [hcl]; exact hi')]
      unfold col get2
      rw [getN_tab, hy.1, if_pos hi']; rfl
  rw [hrow lo rlo, hrow hi rhi, hlo, hhi, row_alongW _ x H W K' hx (lr hr0) i hi', row_alongW _ x H W K' hx (lr hr1) i hi']
  have hxl := getD_row_length x H W hx i hi'
  rw [pr_periodization hr0 hr1 gr0 gr1 (x.getD i []) hLr hLre hhr hgr0 hgr1 hprr (by rw [hxl]; exact hW) j (by rw [hxl]; exact hj)]
  rfl

include hLc hLce hhc hgc0 hgc1 hprc hLr hLre hhr hgr0 hgr1 hprr in
/-- **`waverec2(wavedec2(x))` in periodization carries `x` in its top-left corner, for every J**, and the pyramid has the
shapes the inverse accepts wherever the filters fit the levels -/
theorem pyramid2d_pr_per : ∀ (J : Nat) (x : Img R) (H W : Nat), Rect x H W → 1 ≤ H → 1 ≤ W →
    LevelsFitP hc0.length hr0.length J H W →
    TopLeft (Spec.waverec2 .periodization gc0 gc1 gr0 gr1 (Spec.wavedec2 .periodization hc0 hc1 hr0 hr1 J x).1
      ((Spec.wavedec2 .periodization hc0 hc1 hr0 hr1 J x).2.map some)) x H W ∧
    Compat2P gc0 gc1 gr0 gr1 (Spec.wavedec2 .periodization hc0 hc1 hr0 hr1 J x).1
      ((Spec.wavedec2 .periodization hc0 hc1 hr0 hr1 J x).2.map some).reverse := by
  intro J
  induction J with
  | zero =>
    intro x H W hx hH hW _
    simp only [Spec.wavedec2, List.map_nil, List.reverse_nil, Compat2P, and_true]
    exact ⟨H, W, by simpa [Spec.waverec2] using hx, Or.inl rfl, Or.inl rfl, fun i _ j _ => by simp [Spec.waverec2]⟩
  | succ J ih =>
    intro x H W hx hH hW hfit
    obtain ⟨hfH, hfW, hfrest⟩ := hfit
    obtain ⟨rA, rH, rV, rD, htl⟩ := level2d_pr_per hc0 hc1 gc0 gc1 hLc hLce hhc hgc0 hgc1 hprc hr0 hr1 gr0 gr1 hLr hLre hhr hgr0 hgr1 hprr
      x H W hx hH hW
    set d := Spec.dwt2 .periodization hc0 hc1 hr0 hr1 x with hd
    set K := (H + H % 2) / 2 with hK'
    set K' := (W + W % 2) / 2 with hK''
    have hK : 1 ≤ K := by omega
    have hKw : 1 ≤ K' := by omega
    obtain ⟨ih1, ih2⟩ := ih d.1 K K' rA hK hKw hfrest
    have hwd : Spec.wavedec2 .periodization hc0 hc1 hr0 hr1 (J+1) x
        = ((Spec.wavedec2 .periodization hc0 hc1 hr0 hr1 J d.1).1,
           [d.2.1, d.2.2.1, d.2.2.2] :: (Spec.wavedec2 .periodization hc0 hc1 hr0 hr1 J d.1).2) := rfl
    rw [hwd]
    simp only [List.map_cons, List.reverse_cons]
    set Rc := Spec.waverec2 .periodization gc0 gc1 gr0 gr1 (Spec.wavedec2 .periodization hc0 hc1 hr0 hr1 J d.1).1
      ((Spec.wavedec2 .periodization hc0 hc1 hr0 hr1 J d.1).2.map some) with hRc
    have hun : unpad2 Rc K K' = d.1 := unpad_topleft Rc d.1 K K' hK hKw rA ih1
    have hstep : C10.stepS2 .periodization gc0 gc1 gr0 gr1 Rc (some [d.2.1, d.2.2.1, d.2.2.2])
        = Spec.idwt2 .periodization gc0 gc1 gr0 gr1 d.1 d.2.1 d.2.2.1 d.2.2.2 := by
      rw [stepS2_some, rH.1, rect_width _ _ _ rH hK, hun]
    constructor
    · rw [C10.waverec2_eq_foldl, List.reverse_cons, List.foldl_append, ← C10.waverec2_eq_foldl]
      simp only [List.foldl_cons, List.foldl_nil]
      rw [← hRc, hstep]
      exact htl
    · have happ : ∀ (a : Img R) (l1 l2 : List (Option (List (Img R)))),
          Compat2P gc0 gc1 gr0 gr1 a l1 → Compat2P gc0 gc1 gr0 gr1 (l1.foldl (C10.stepS2 .periodization gc0 gc1 gr0 gr1) a) l2 →
          Compat2P gc0 gc1 gr0 gr1 a (l1 ++ l2) := by
        intro a l1
        induction l1 generalizing a with
        | nil => intro l2 _ h2; simpa using h2
        | cons e rest ihl =>
          intro l2 h1 h2
          obtain ⟨hok, hrest⟩ := h1
          exact ⟨hok, ihl _ l2 hrest (by simpa using h2)⟩
      apply happ _ _ _ ih2
      rw [← C10.waverec2_eq_foldl, ← hRc]
      refine ⟨?_, trivial⟩
      obtain ⟨Hf, Wf, rR, hHf, hWf, _⟩ := ih1
      refine ⟨K, K', hK, hKw, by rw [rR.1]; exact hHf, by rw [rect_width _ _ _ rR (by omega)]; exact hWf, ?_, ?_, ?_⟩
      · rw [hgc0]; omega
      · rw [hgr0]; omega
      · exact ⟨_, _, _, rfl, ⟨rH.1, rect_width _ _ _ rH hK⟩, ⟨rV.1, rect_width _ _ _ rV hK⟩, ⟨rD.1, rect_width _ _ _ rD hK⟩⟩

include hLc hLce hhc hgc0 hgc1 hprc hLr hLre hhr hgr0 hgr1 hprr in
/-- **J-level 2-D perfect reconstruction of the implementation models in periodization mode**: `DWTInverse(DWTForward(x))`
returns, and its result carries `x` in its top-left corner with at most one extra row and column — every J, every image
size whose levels the filters fit (`LevelsFitP`), per-axis wavelets, every pair of even-length banks with `PRBank` -/
theorem DWT2D_roundtrip_per (J : Nat) (x : Img R) (H W : Nat) (hx : Rect x H W) (hH : 1 ≤ H) (hW : 1 ≤ W)
    (hfit : LevelsFitP hc0.length hr0.length J H W) :
    ∃ yl yh y, DWTForward .periodization hc0.reverse hc1.reverse hr0.reverse hr1.reverse J [x] = some (yl, yh) ∧
      DWTInverse .periodization gc0 gc1 gr0 gr1 yl (yh.map some) = some [y] ∧ TopLeft y x H W := by
  have hf := DWTForward_per_eq_wavedec2 hr0 hr1 hc0 hc1 hLr hLre hhr hLc hLce hhc J x H W hx hH hW hfit
  obtain ⟨p1, p2⟩ := pyramid2d_pr_per hc0 hc1 gc0 gc1 hLc hLce hhc hgc0 hgc1 hprc hr0 hr1 gr0 gr1 hLr hLre hhr hgr0 hgr1 hprr
    J x H W hx hH hW hfit
  have hi := DWTInverse_per_eq_waverec2 gc0 gc1 gr0 gr1 (by omega) (by omega) (by omega) (by omega)
    (Spec.wavedec2 .periodization hc0 hc1 hr0 hr1 J x).1 ((Spec.wavedec2 .periodization hc0 hc1 hr0 hr1 J x).2.map some) p2
  refine ⟨_, _, _, hf, ?_, p1⟩
  rw [← hi]
  congr 1
  rw [List.map_map, List.map_map]
  apply List.map_congr_left
  intro d _
  rfl

end per

/-- the hypotheses are satisfiable together: a 4-tap integer PR bank (C02's example), a 7 × 5 image, two levels -/
example : LevelsFitP ([0, 1, 0, 0] : List Int).length ([0, 1, 0, 0] : List Int).length 2 7 5 ∧ ([0, 1, 0, 0] : List Int).length % 2 = 0 := by
  simp [LevelsFitP]

end WV.C02P
