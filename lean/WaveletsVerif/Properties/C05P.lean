/-
  C05 — two dimensions, periodization: `AFB2D.backward` is the adjoint of `AFB2D.forward` on every image, odd sizes
  included.

  In periodization mode an odd-length axis is extended by repeating its last sample, so the backward pass has to add the
  gradient of the repeated sample to the last one (`foldCrop`); in two dimensions the code synthesises the columns of the
  two band pairs, then the rows, and folds / crops ONCE per axis at the very end (`foldCrop2`).  Folding rows commutes
  with the row-wise synthesis because the synthesis is additive in the pair of bands (`idwt_per_add`); with the
  one-dimensional adjointness (C05.afb_per_adjoint) lifted along both axes (`C05D.pairH`, `pairW`) this gives
  `AFB2D_per_adjoint` for every `H, W ≥ 1` and even filter lengths `L ≤ size + size % 2` per axis (the complement of the
  recorded short-level finding).
-/
import WaveletsVerif.Properties.C05D
namespace WV.C05P
open Finset WV WV.C04 WV.C04Q WV.C06 WV.C05D
variable {R : Type} [CommRing R]

abbrev Ap (h : List R) : List R → List R := Spec.dwt .periodization h
abbrev Ip (g0 g1 : List R) : List R → List R → List R := Spec.idwt .periodization g0 g1

theorem Ap_length (h c : List R) : (Ap h c).length = (c.length + c.length % 2) / 2 := by
  unfold Ap Spec.dwt
  by_cases hp : c.length % 2 = 1
  · simp [hp]
  · simp [hp]; omega

theorem Ip_length (g0 g1 a b : List R) : (Ip g0 g1 a b).length = 2 * a.length := by
  simp [Ip, Spec.idwt]

/-- the backward value for one column in periodization: synthesis with the analysis buffers, then fold + crop -/
def Bp (h0 h1 : List R) (N : Nat) (a b : List R) : List R := foldCrop .periodization N (Ip h0.reverse h1.reverse a b)

theorem adjP1 (h0 h1 : List R) (hL : 2 ≤ h0.length) (hLe : h0.length % 2 = 0) (hh1 : h1.length = h0.length) (N : Nat) (hN : 1 ≤ N)
    (hLN : h0.length ≤ N + N % 2) (c a b : List R) (hc : c.length = N) (ha : a.length = (N + N % 2) / 2) (hb : b.length = (N + N % 2) / 2) :
    (∑ k ∈ range ((N + N % 2) / 2), getN (Ap h0 c) k * getN a k) + (∑ k ∈ range ((N + N % 2) / 2), getN (Ap h1 c) k * getN b k)
      = ∑ i ∈ range N, getN c i * getN (Bp h0 h1 N a b) i := by
  obtain ⟨lo, hi, d, e1, e2, e3, e4⟩ := C05.afb_per_adjoint h0 h1 c a b hL hLe hh1 (by omega) (by rw [hc]; exact hLN)
    (by rw [hc]; exact ha) (by rw [hb, ha])
  rw [C01.afb1dOne_per_eq_dwt_partial_all h0 c hLe hL (by omega) (by rw [hc]; exact hLN)] at e1
  rw [C01.afb1dOne_per_eq_dwt_partial_all h1 c (by omega) (by omega) (by omega) (by rw [hc, hh1]; exact hLN)] at e2
  have hn1 : 1 ≤ a.length := by rw [ha]; omega
  rw [C10.sfb1dCh_per_eq_idwt_partial h0.reverse h1.reverse a b (by simpa using hL) (by simp [hh1]) hn1 (by rw [hb, ha])
    (by simp; rw [ha]; omega)] at e3
  injection e1 with e1; injection e2 with e2; injection e3 with e3
  subst e1; subst e2; subst e3
  rw [ha, hb, hc] at e4
  exact e4

theorem foldCrop_per_length (N : Nat) (d : List R) (hd : d.length = N ∨ d.length = N + 1) :
    (foldCrop .periodization N d).length = N := by
  unfold foldCrop
  split
  · simp only [if_true]
    rw [List.length_take, length_tab]; omega
  · omega

theorem getN_foldCrop_per (N : Nat) (hN : 1 ≤ N) (d : List R) (hd : d.length = N ∨ d.length = N + 1) (i : Nat) (hi : i < N) :
    getN (foldCrop .periodization N d) i = if d.length = N + 1 ∧ i + 1 = N then getN d i + getN d N else getN d i := by
  unfold foldCrop
  by_cases hgt : d.length > N
  · rw [if_pos hgt]
    simp only [if_true]
    rw [getN_take _ _ _ hi, getN_tab, if_pos (by omega)]
    by_cases hlast : i + 1 = N
    · rw [if_pos hlast, if_pos ⟨by omega, hlast⟩]
    · rw [if_neg hlast, if_neg (fun h => hlast h.2)]
  · rw [if_neg hgt, if_neg (fun h => by omega)]

/-- periodization synthesis is additive in the pair of bands -/
theorem idwt_per_add (g0 g1 a a' b b' : List R) (ha : a'.length = a.length) (hb : b.length = a.length) (hb' : b'.length = a.length) :
    Ip g0 g1 (vadd a a') (vadd b b') = vadd (Ip g0 g1 a b) (Ip g0 g1 a' b') := by
  have hla : (vadd a a').length = a.length := by simp [vadd]
  apply list_ext_getN'
  · rw [Ip_length, hla]; simp [vadd, Ip_length]
  · intro u hu
    rw [Ip_length, hla] at hu
    rw [getN_vadd _ _ _ (by rw [Ip_length]; exact hu)]
    unfold Ip Spec.idwt
    simp only [hla, ha]
    rw [getN_tab, getN_tab, getN_tab, if_pos hu, if_pos hu, if_pos hu]
    simp only [sumN_eq]
    rw [← Finset.sum_add_distrib]
    apply Finset.sum_congr rfl; intro r _
    by_cases hout : (((u:Int) + ((g0.length/2 : Nat):Int) - 1) % ((2 * a.length : Nat):Int) + (r:Int) * ((2 * a.length : Nat):Int) < 0 ∨
        ((2 * a.length + g0.length - 2 : Nat):Int) ≤ ((u:Int) + ((g0.length/2 : Nat):Int) - 1) % ((2 * a.length : Nat):Int) + (r:Int) * ((2 * a.length : Nat):Int))
    · simp only [hout, if_true]; ring
    · simp only [hout, if_false]
      rw [← Finset.sum_add_distrib]
      apply Finset.sum_congr rfl; intro k hk
      have hk' : k < a.length := by simpa using hk
      rw [getN_vadd _ _ _ hk', getN_vadd _ _ _ (by omega)]
      ring

/-! ### the synthesis lifted to images, any mode -/

theorem sfb1dImg_H_gen (m : Mode) (w0 w1 : List R) (S : List R → List R → List R) (K n : Nat)
    (hS : ∀ a b : List R, a.length = K → b.length = K → sfb1dCh m w0 w1 a b = some (S a b))
    (hSl : ∀ a b : List R, a.length = K → (S a b).length = n)
    (a b : Img R) (W : Nat) (ha : Rect a K W) (hb : Rect b K W) (hK : 1 ≤ K) (hW : 1 ≤ W) :
    sfb1dImg .H m w0 w1 a b = some (colzip S n W a b) := by
  have hwa : Img.width a = W := rect_width _ _ _ ha hK
  have hwb : Img.width b = W := rect_width _ _ _ hb hK
  have hne : ¬ (Img.width a ≠ Img.width b) := by rw [hwa, hwb]; simp
  simp only [sfb1dImg]
  rw [if_neg hne, hwa]
  rw [mapM_total _ (fun j => S (col a j) (col b j))]
  · simp only [Option.map_some]
    congr 1
    have := tr_tab_cols W n hW (fun j => S (col a j) (col b j)) (fun j _ => hSl _ _ (by simp [col, ha.1]))
    unfold colzip
    rw [← this]; rfl
  · intro j hj
    have hj' : j < W := by simpa using hj
    rw [tr_getD a j (by rw [hwa]; exact hj'), tr_getD b j (by rw [hwb]; exact hj')]
    exact hS _ _ (by simp [col, ha.1]) (by simp [col, hb.1])

theorem sfb1dImg_W_gen (m : Mode) (w0 w1 : List R) (S : List R → List R → List R) (K n : Nat)
    (hS : ∀ a b : List R, a.length = K → b.length = K → sfb1dCh m w0 w1 a b = some (S a b))
    (hSl : ∀ a b : List R, a.length = K → (S a b).length = n)
    (a b : Img R) (H : Nat) (ha : Rect a H K) (hb : Rect b H K) :
    sfb1dImg .W m w0 w1 a b = some (rowzip S H n a b) := by
  have hne : ¬ (a.length ≠ b.length) := by rw [ha.1, hb.1]; simp
  simp only [sfb1dImg]
  rw [if_neg hne, ha.1]
  rw [mapM_total _ (fun i => S (a.getD i []) (b.getD i []))]
  · congr 1
    unfold rowzip tab2 tab
    apply List.map_congr_left
    intro i hi
    have hi' : i < H := by simpa using hi
    apply list_ext_getN'
    · rw [hSl _ _ (getD_row_length a H K ha i hi'), List.length_map, List.length_range]
    · intro t ht
      rw [getN_tab', if_pos (by rw [hSl _ _ (getD_row_length a H K ha i hi')] at ht; exact ht)]
  · intro i hi
    have hi' : i < H := by simpa using hi
    exact hS _ _ (getD_row_length a H K ha i hi') (getD_row_length b H K hb i hi')

/-- `foldCrop2` pixel by pixel: fold / crop the columns, then the rows -/
theorem foldCrop2_val (m : Mode) (d : Img R) (Hf Wf H W : Nat) (hd : Rect d Hf Wf) (hHf : 1 ≤ Hf) (hWf : 1 ≤ Wf)
    (hl : ∀ (N : Nat) (c : List R), (c.length = N ∨ c.length = N + 1) → (foldCrop m N c).length = N)
    (hH : Hf = H ∨ Hf = H + 1) (hW : Wf = W ∨ Wf = W + 1) :
    foldCrop2 m H W d = tab2 H W fun i j => getN (foldCrop m W (tab Wf fun j' => getN (foldCrop m H (col d j')) i)) j := by
  have e : foldCrop2 m H W d = alongW (foldCrop m W) (alongH (foldCrop m H) d) := rfl
  rw [e, alongH_get' (foldCrop m H) d Hf H Wf hd hHf hWf (fun c hc => hl H c (by omega))]
  rw [alongW_get' (foldCrop m W) _ H Wf W (tab2_rect H Wf _) (fun c hc => hl W c (by omega))]
  apply tab2_congr; intro i hi j hj
  rw [getD_tab2_row' H Wf _ i hi]

section adjoint2d
variable (wr0 wr1 wc0 wc1 : List R) (hLr : 2 ≤ wr0.length) (hLre : wr0.length % 2 = 0) (hwr : wr1.length = wr0.length)
    (hLc : 2 ≤ wc0.length) (hLce : wc0.length % 2 = 0) (hwc : wc1.length = wc0.length) (H W : Nat) (hH : 1 ≤ H) (hW : 1 ≤ W)
    (hfH : wc0.length ≤ H + H % 2) (hfW : wr0.length ≤ W + W % 2)

include hLr hLre hwr hLc hLce hwc hH hW hfH hfW in
/-- the forward pass on one channel in periodization (`w·` are the analysis filters; the module's buffers are their reverses) -/
theorem AFB2D_forward_val (x : Img R) (hx : Rect x H W) :
    AFB2D_forward .periodization wr0.reverse wr1.reverse wc0.reverse wc1.reverse [x]
      = some ([alongH (Ap wc0) (alongW (Ap wr0) x)],
              [[alongH (Ap wc1) (alongW (Ap wr0) x), alongH (Ap wc0) (alongW (Ap wr1) x), alongH (Ap wc1) (alongW (Ap wr1) x)]]) := by
  have e1 : ∀ w : List R, 2 ≤ w.length → w.length % 2 = 0 → w.length ≤ W + W % 2 →
      alongO .W (afb1dOne .periodization w.reverse) x = some (alongW (Ap w) x) := by
    intro w hw hwe hfit
    show alongWO _ x = _
    apply alongWO_total
    intro c hc
    exact C01.afb1dOne_per_eq_dwt_partial_all w c hwe hw (by rw [hx.2 c hc]; exact hW) (by rw [hx.2 c hc]; exact hfit)
  have e2 : ∀ (w : List R) (y : Img R), 2 ≤ w.length → w.length % 2 = 0 → w.length ≤ H + H % 2 → y.length = H →
      alongO .H (afb1dOne .periodization w.reverse) y = some (alongH (Ap w) y) := by
    intro w y hw hwe hfit hy
    show alongHO _ y = _
    apply alongHO_total
    intro c hc
    exact C01.afb1dOne_per_eq_dwt_partial_all w c hwe hw (by rw [hc, hy]; exact hH) (by rw [hc, hy]; exact hfit)
  have rl : ∀ w : List R, (alongW (Ap w) x).length = H := by
    intro w
    rw [alongW_get' (Ap w) x H W _ hx (fun c hc => by rw [Ap_length, hc])]
    exact (tab2_rect _ _ _).1
  unfold AFB2D_forward
  rw [afb1dT_one, e1 wr0 hLr hLre hfW, e1 wr1 (by omega) (by omega) (by omega)]
  simp only [Option.bind_eq_bind, Option.bind_some]
  rw [afb1dT_two, e2 wc0 _ hLc hLce hfH (rl _), e2 wc1 _ (by omega) (by omega) (by omega) (rl _),
    e2 wc0 _ hLc hLce hfH (rl _), e2 wc1 _ (by omega) (by omega) (by omega) (rl _)]
  simp [tab, List.range, List.range.loop]

/-- the un-folded synthesis of the four cotangent bands -/
def dxFullP (gll glh ghl ghh : Img R) : Img R :=
  let Kh := (H + H % 2) / 2
  let Kw := (W + W % 2) / 2
  rowzip (Ip wr0.reverse wr1.reverse) (2 * Kh) (2 * Kw)
    (colzip (Ip wc0.reverse wc1.reverse) (2 * Kh) Kw gll glh) (colzip (Ip wc0.reverse wc1.reverse) (2 * Kh) Kw ghl ghh)

theorem sfb_per_val (w0 w1 : List R) (hL : 2 ≤ w0.length) (hw : w1.length = w0.length) (K : Nat) (hK : 1 ≤ K) (hfit : w0.length ≤ 2 * K)
    (a b : List R) (ha : a.length = K) (hb : b.length = K) :
    sfb1dCh .periodization w0.reverse w1.reverse a b = some (Ip w0.reverse w1.reverse a b) :=
  C10.sfb1dCh_per_eq_idwt_partial w0.reverse w1.reverse a b (by simpa using hL) (by simp [hw]) (by omega) (by rw [hb, ha])
    (by simp; rw [ha]; omega)

include hLr hwr hLc hwc hH hW hfH hfW in
/-- the backward pass on one channel: column synthesis of (ll, lh) and of (hl, hh), row synthesis, one fold + crop per axis at the end -/
theorem AFB2D_backward_val (gll glh ghl ghh : Img R)
    (r1 : Rect gll ((H + H % 2) / 2) ((W + W % 2) / 2)) (r2 : Rect glh ((H + H % 2) / 2) ((W + W % 2) / 2))
    (r3 : Rect ghl ((H + H % 2) / 2) ((W + W % 2) / 2)) (r4 : Rect ghh ((H + H % 2) / 2) ((W + W % 2) / 2)) :
    AFB2D_backward .periodization wr0.reverse wr1.reverse wc0.reverse wc1.reverse H W [gll] [[glh, ghl, ghh]]
      = some [foldCrop2 .periodization H W (dxFullP wr0 wr1 wc0 wc1 H W gll glh ghl ghh)] := by
  have hKh : 1 ≤ (H + H % 2) / 2 := by omega
  have hKw : 1 ≤ (W + W % 2) / 2 := by omega
  have hSc := sfb_per_val wc0 wc1 hLc hwc ((H + H % 2) / 2) hKh (by omega)
  have hSr := sfb_per_val wr0 wr1 hLr hwr ((W + W % 2) / 2) hKw (by omega)
  have lSc : ∀ a b : List R, a.length = (H + H % 2) / 2 → (Ip wc0.reverse wc1.reverse a b).length = 2 * ((H + H % 2) / 2) :=
    fun a b ha => by rw [Ip_length, ha]
  have lSr : ∀ a b : List R, a.length = (W + W % 2) / 2 → (Ip wr0.reverse wr1.reverse a b).length = 2 * ((W + W % 2) / 2) :=
    fun a b ha => by rw [Ip_length, ha]
  unfold AFB2D_backward
  simp only [List.map_cons, List.map_nil, List.getD_cons_zero, List.getD_cons_succ]
  rw [C10.sfb1dT_single, C10.sfb1dT_single,
    sfb1dImg_H_gen .periodization _ _ _ _ _ hSc lSc gll glh _ r1 r2 hKh hKw,
    sfb1dImg_H_gen .periodization _ _ _ _ _ hSc lSc ghl ghh _ r3 r4 hKh hKw]
  simp only [Option.map_some, Option.bind_eq_bind, Option.bind_some]
  rw [C10.sfb1dT_single, sfb1dImg_W_gen .periodization _ _ _ _ _ hSr lSr _ _ _ (colzip_rect _ _ _ _ _) (colzip_rect _ _ _ _ _)]
  simp only [Option.map_some, Option.bind_some, List.map_cons, List.map_nil]
  rfl

/-- a row of the column-wise backward value: the row of the un-folded synthesis, plus the extra row when the height is odd
and this is the last row -/
theorem colzip_Bp_row (w0 w1 : List R) (N K Kw : Nat) (hN : 1 ≤ N) (hK : 2 * K = N ∨ 2 * K = N + 1) (a b : Img R) (ra : Rect a K Kw)
    (i : Nat) (hi : i < N) :
    (colzip (Bp w0 w1 N) N Kw a b).getD i []
      = if 2 * K = N + 1 ∧ i + 1 = N then
          vadd ((colzip (Ip w0.reverse w1.reverse) (2 * K) Kw a b).getD i []) ((colzip (Ip w0.reverse w1.reverse) (2 * K) Kw a b).getD N [])
        else (colzip (Ip w0.reverse w1.reverse) (2 * K) Kw a b).getD i [] := by
  unfold colzip
  rw [getD_tab2_row' _ _ _ i hi, getD_tab2_row' _ _ _ i (by omega)]
  have hlen : ∀ j, (Ip w0.reverse w1.reverse (col a j) (col b j)).length = 2 * K := fun j => by rw [Ip_length]; simp [col, ra.1]
  by_cases hc : 2 * K = N + 1 ∧ i + 1 = N
  · rw [if_pos hc, getD_tab2_row' _ _ _ N (by omega)]
    apply list_ext_getN'
    · simp [vadd]
    · intro j hj
      have hj' : j < Kw := by simpa using hj
      rw [getN_vadd _ _ _ (by simpa using hj'), getN_tab, getN_tab, getN_tab, if_pos hj', if_pos hj', if_pos hj']
      unfold Bp
      rw [getN_foldCrop_per N hN _ (by rw [hlen]; omega) i hi, if_pos ⟨by rw [hlen]; exact hc.1, hc.2⟩]
  · rw [if_neg hc]
    apply tab_ext rfl; intro j _
    unfold Bp
    rw [getN_foldCrop_per N hN _ (by rw [hlen]; omega) i hi, if_neg (fun h => hc ⟨by rw [hlen] at h; exact h.1, h.2⟩)]

include hLr hLre hwr hLc hLce hwc hH hW hfH hfW in
/-- **`AFB2D.backward` is the adjoint of `AFB2D.forward` in periodization mode**, one channel, every image size (odd sizes
included: the gradient of the repeated last row / column is folded back) and even filter lengths `L ≤ size + size % 2`:
`⟨ll,gll⟩ + ⟨lh,glh⟩ + ⟨hl,ghl⟩ + ⟨hh,ghh⟩ = ⟨x, backward(gll, glh, ghl, ghh)⟩` -/
theorem AFB2D_per_adjoint (x gll glh ghl ghh : Img R) (hx : Rect x H W)
    (r1 : Rect gll ((H + H % 2) / 2) ((W + W % 2) / 2)) (r2 : Rect glh ((H + H % 2) / 2) ((W + W % 2) / 2))
    (r3 : Rect ghl ((H + H % 2) / 2) ((W + W % 2) / 2)) (r4 : Rect ghh ((H + H % 2) / 2) ((W + W % 2) / 2)) :
    ∃ ll lh hl hh dx, AFB2D_forward .periodization wr0.reverse wr1.reverse wc0.reverse wc1.reverse [x] = some ([ll], [[lh, hl, hh]]) ∧
      AFB2D_backward .periodization wr0.reverse wr1.reverse wc0.reverse wc1.reverse H W [gll] [[glh, ghl, ghh]] = some [dx] ∧
      dot2 ((H + H % 2) / 2) ((W + W % 2) / 2) ll gll + dot2 ((H + H % 2) / 2) ((W + W % 2) / 2) lh glh
        + dot2 ((H + H % 2) / 2) ((W + W % 2) / 2) hl ghl + dot2 ((H + H % 2) / 2) ((W + W % 2) / 2) hh ghh
        = dot2 H W x dx := by
  set Kh := (H + H % 2) / 2 with hKh'
  set Kw := (W + W % 2) / 2 with hKw'
  have hKh : 1 ≤ Kh := by omega
  have hKw : 1 ≤ Kw := by omega
  refine ⟨_, _, _, _, _, AFB2D_forward_val wr0 wr1 wc0 wc1 hLr hLre hwr hLc hLce hwc H W hH hW hfH hfW x hx,
    AFB2D_backward_val wr0 wr1 wc0 wc1 hLr hwr hLc hwc H W hH hW hfH hfW gll glh ghl ghh r1 r2 r3 r4, ?_⟩
  have rA : ∀ w : List R, Rect (alongW (Ap w) x) H Kw := by
    intro w
    rw [alongW_get' (Ap w) x H W _ hx (fun c hc => by rw [Ap_length, hc])]
    exact tab2_rect _ _ _
  -- columns
  have hc1d : ∀ c a b : List R, c.length = H → a.length = Kh → b.length = Kh →
      (∑ k ∈ range Kh, getN (Ap wc0 c) k * getN a k) + (∑ k ∈ range Kh, getN (Ap wc1 c) k * getN b k)
        = ∑ i ∈ range H, getN c i * getN (Bp wc0 wc1 H a b) i :=
    fun c a b hc ha hb => adjP1 wc0 wc1 hLc hLce hwc H hH hfH c a b hc ha hb
  have lc : ∀ (w c : List R), c.length = H → (Ap w c).length = Kh := fun w c hc => by rw [Ap_length, hc]
  have p1 := pairH (Ap wc0) (Ap wc1) (Bp wc0 wc1 H) H Kh Kw hc1d (lc wc0) (lc wc1) _ gll glh (rA wr0) r1 r2 hH hKw
  have p2 := pairH (Ap wc0) (Ap wc1) (Bp wc0 wc1 H) H Kh Kw hc1d (lc wc0) (lc wc1) _ ghl ghh (rA wr1) r3 r4 hH hKw
  -- rows
  have hr1d : ∀ c a b : List R, c.length = W → a.length = Kw → b.length = Kw →
      (∑ k ∈ range Kw, getN (Ap wr0 c) k * getN a k) + (∑ k ∈ range Kw, getN (Ap wr1 c) k * getN b k)
        = ∑ i ∈ range W, getN c i * getN (Bp wr0 wr1 W a b) i :=
    fun c a b hc ha hb => adjP1 wr0 wr1 hLr hLre hwr W hW hfW c a b hc ha hb
  have lr : ∀ (w c : List R), c.length = W → (Ap w c).length = Kw := fun w c hc => by rw [Ap_length, hc]
  have p3 := pairW (Ap wr0) (Ap wr1) (Bp wr0 wr1 W) H Kw W hr1d (lr wr0) (lr wr1) x
    (colzip (Bp wc0 wc1 H) H Kw gll glh) (colzip (Bp wc0 wc1 H) H Kw ghl ghh) hx (colzip_rect _ _ _ _ _) (colzip_rect _ _ _ _ _)
  have hsum : dot2 Kh Kw (alongH (Ap wc0) (alongW (Ap wr0) x)) gll + dot2 Kh Kw (alongH (Ap wc1) (alongW (Ap wr0) x)) glh
      + dot2 Kh Kw (alongH (Ap wc0) (alongW (Ap wr1) x)) ghl + dot2 Kh Kw (alongH (Ap wc1) (alongW (Ap wr1) x)) ghh
      = dot2 H W x (rowzip (Bp wr0 wr1 W) H W (colzip (Bp wc0 wc1 H) H Kw gll glh) (colzip (Bp wc0 wc1 H) H Kw ghl ghh)) := by
    rw [← p3, ← p1, ← p2]; ring
  rw [hsum]
  -- the two expressions of the backward value agree pixel by pixel
  congr 1
  have hHf : 2 * Kh = H ∨ 2 * Kh = H + 1 := by omega
  have hWf : 2 * Kw = W ∨ 2 * Kw = W + 1 := by omega
  have hd : dxFullP wr0 wr1 wc0 wc1 H W gll glh ghl ghh = rowzip (Ip wr0.reverse wr1.reverse) (2 * Kh) (2 * Kw)
      (colzip (Ip wc0.reverse wc1.reverse) (2 * Kh) Kw gll glh) (colzip (Ip wc0.reverse wc1.reverse) (2 * Kh) Kw ghl ghh) := rfl
  rw [hd, foldCrop2_val .periodization _ (2 * Kh) (2 * Kw) H W (rowzip_rect _ _ _ _ _) (by omega) (by omega)
    (fun N c hc => foldCrop_per_length N c hc) hHf hWf]
  unfold rowzip
  apply tab2_congr; intro i hi j hj
  have hB : ∀ a b : List R, Bp wr0 wr1 W a b = foldCrop .periodization W (Ip wr0.reverse wr1.reverse a b) := fun _ _ => rfl
  rw [hB]
  congr 2
  -- the row of the column-folded synthesis is the row synthesis of the folded rows
  rw [colzip_Bp_row wc0 wc1 H Kh Kw hH hHf gll glh r1 i hi, colzip_Bp_row wc0 wc1 H Kh Kw hH hHf ghl ghh r3 i hi]
  set P := colzip (Ip wc0.reverse wc1.reverse) (2 * Kh) Kw gll glh with hP
  set Q := colzip (Ip wc0.reverse wc1.reverse) (2 * Kh) Kw ghl ghh with hQ
  have rP : Rect P (2 * Kh) Kw := colzip_rect _ _ _ _ _
  have rQ : Rect Q (2 * Kh) Kw := colzip_rect _ _ _ _ _
  have lP : ∀ t < 2 * Kh, (P.getD t []).length = Kw := fun t ht => getD_row_length P _ _ rP t ht
  have lQ : ∀ t < 2 * Kh, (Q.getD t []).length = Kw := fun t ht => getD_row_length Q _ _ rQ t ht
  apply list_ext_getN'
  · by_cases hc : 2 * Kh = H + 1 ∧ i + 1 = H
    · rw [if_pos hc, if_pos hc, Ip_length]; simp only [vadd, length_tab]; rw [lP i (by omega)]
    · rw [if_neg hc, if_neg hc, Ip_length, lP i (by omega)]; simp only [length_tab]
  · intro j' hj'
    have hj2 : j' < 2 * Kw := by
      by_cases hc : 2 * Kh = H + 1 ∧ i + 1 = H
      · rw [if_pos hc, if_pos hc, Ip_length] at hj'; simp only [vadd, length_tab] at hj'; rw [lP i (by omega)] at hj'; exact hj'
      · rw [if_neg hc, if_neg hc, Ip_length, lP i (by omega)] at hj'; exact hj'
    rw [getN_tab, if_pos hj2]
    rw [col_tab2 _ _ _ j' hj2, getN_foldCrop_per H hH _ (by simp; omega) i hi]
    simp only [length_tab]
    by_cases hc : 2 * Kh = H + 1 ∧ i + 1 = H
    · rw [if_pos hc, if_pos hc, if_pos hc, getN_tab, getN_tab, if_pos (by omega), if_pos (by omega)]
      rw [idwt_per_add _ _ _ _ _ _ (by rw [lP i (by omega), lP H (by omega)]) (by rw [lP i (by omega), lQ i (by omega)])
        (by rw [lP i (by omega), lQ H (by omega)])]
      rw [getN_vadd _ _ _ (by rw [Ip_length, lP i (by omega)]; exact hj2)]
    · rw [if_neg hc, if_neg hc, if_neg hc, getN_tab, if_pos (by omega)]

end adjoint2d

end WV.C05P

namespace WV.C05P
open WV WV.C04 WV.C04Q WV.C06 WV.C05D
/-- the hypotheses are satisfiable at an odd size: Haar on a 3 × 5 image of integers -/
example : ∃ ll lh hl hh dx,
    AFB2D_forward .periodization ([1, 1] : List Int).reverse ([1, -1] : List Int).reverse ([1, 1] : List Int).reverse ([1, -1] : List Int).reverse
        [[[1, 2, 3, 4, 5], [6, 7, 8, 9, 10], [11, 12, 13, 14, 15]]] = some ([ll], [[lh, hl, hh]]) ∧
    AFB2D_backward .periodization ([1, 1] : List Int).reverse ([1, -1] : List Int).reverse ([1, 1] : List Int).reverse ([1, -1] : List Int).reverse 3 5
        [[[1, 0, 2], [0, 3, 1]]] [[[[1, 1, 0], [2, 0, 1]], [[0, 1, 1], [1, 1, 1]], [[3, 0, 0], [0, 0, 2]]]] = some [dx] ∧
    dot2 ((3 + 3 % 2) / 2) ((5 + 5 % 2) / 2) ll [[1, 0, 2], [0, 3, 1]] + dot2 ((3 + 3 % 2) / 2) ((5 + 5 % 2) / 2) lh [[1, 1, 0], [2, 0, 1]]
      + dot2 ((3 + 3 % 2) / 2) ((5 + 5 % 2) / 2) hl [[0, 1, 1], [1, 1, 1]] + dot2 ((3 + 3 % 2) / 2) ((5 + 5 % 2) / 2) hh [[3, 0, 0], [0, 0, 2]]
      = dot2 3 5 [[1, 2, 3, 4, 5], [6, 7, 8, 9, 10], [11, 12, 13, 14, 15]] dx :=
  AFB2D_per_adjoint ([1, 1] : List Int) [1, -1] [1, 1] [1, -1] (by decide) (by decide) (by decide) (by decide) (by decide) (by decide) 3 5 (by decide) (by decide)
    (by decide) (by decide) [[1, 2, 3, 4, 5], [6, 7, 8, 9, 10], [11, 12, 13, 14, 15]] [[1, 0, 2], [0, 3, 1]] [[1, 1, 0], [2, 0, 1]] [[0, 1, 1], [1, 1, 1]]
    [[3, 0, 0], [0, 0, 2]] (by simp [Rect]) (by simp [Rect]) (by simp [Rect]) (by simp [Rect]) (by simp [Rect])
end WV.C05P
